(** * C11: [lift_factorization] returns when the factors are pairwise coprime modulo p (ssreflect). *)
From Coq Require Import ZArith List Lia Znumtheory.
From mathcomp Require Import all_ssreflect ssralg poly.
From RNT.Model Require Import Base Poly PolyModP Hensel.
From RNT.Refine Require Import PolyModPArith PolyModPDivList FermatZ PolyZmod PolyModPDiv MonicZ PolyModPGcd FpPoly HenselProofs EgcdTotal.
From mathcomp Require Import ssrZ zify ring.
Set Implicit Arguments. Unset Strict Implicit. Unset Printing Implicit Defensive.
Import GRing.Theory.
Local Open Scope ring_scope.

(** Bezout-coprimality modulo p. *)
Definition copm (p : Z) (a b : {poly Z}) : Prop := exists s t, eqpm p (a * s + b * t) 1.

Lemma copm_eqpm p a a' b b' : eqpm p a a' -> eqpm p b b' -> copm p a' b' -> copm p a b.
Proof.
  move=> Ea Eb [s [t H]]. exists s, t. apply: eqpm_trans H.
  apply: eqpm_add; exact: eqpm_mulr.
Qed.

Lemma copm_mull p a b c : copm p a c -> copm p b c -> copm p (a * b) c.
Proof.
  move=> [s1 [t1 [k1 H1]]] [s2 [t2 [k2 H2]]].
  exists (s1 * s2), (a * s1 * t2 + t1 * b * s2 + t1 * c * t2).
  exists (k1 + k2 + p%:P * k1 * k2).
  have -> : a * b * (s1 * s2) + c * (a * s1 * t2 + t1 * b * s2 + t1 * c * t2)
            = (a * s1 + c * t1) * (b * s2 + c * t2) by ring.
  rewrite H1 H2. ring.
Qed.

Lemma copm_1l p c : copm p 1 c.
Proof. exists 1, 0. rewrite mulr0 addr0 mulr1. exact: eqpm_refl. Qed.

Section Prime.
Variable p : Z.
Hypothesis Hp : Znumtheory.prime p.
Let Hp2 := prime_ge_2 _ Hp.
Let Hpp : (0 < p)%ZZ. Proof. lia. Qed.
Let Hp0 : p <> Z0. Proof. lia. Qed.
Let Hp1 : (1 < p)%ZZ. Proof. lia. Qed.

(** ** One division, leading coefficients invertible *)

Lemma divrem_good_total a b :
  goodlc p a -> goodlc p b ->
  exists q r, poly_divrem a b p = Done (q, r) /\ goodlc p r /\
              (b <> [::] -> (length r < length b)%coq_nat) /\ (b = [::] -> r = a) /\
              (canonical a -> canonical r) /\
              eqpm p (PZ a) (PZ q * PZ b + PZ r).
Proof.
  move=> Ga Gb.
  have [q [r E]] : exists q r, poly_divrem a b p = Done (q, r).
  { case: (b =P [::]) => [->|Nb]; first by (do 2 eexists; rewrite /poly_divrem; case: (a)).
    exact: (poly_divrem_total a Hp (Gb Nb)). }
  exists q, r. split=> //.
  have [D1 [D2 [D3 D4]]] := divrem_good Hp Ga Gb E.
  split=> //. split=> //. split=> //. split=> //.
  case: (b =P [::]) => [Eb|Nb]; first by rewrite (D4 Eb).
  by case: (poly_divrem_spec Hp Nb (Gb Nb) E) => _ [].
Qed.

(** ** [poly_ext_gcd]: returns; the gcd divides both arguments *)

Lemma poly_ext_gcd_rec_total_good : forall fuel a b,
  goodlc p a -> goodlc p b -> (length b + 2 <= fuel)%coq_nat ->
  exists g u v, poly_ext_gcd_rec fuel a b p = Done (g, u, v).
Proof.
  elim=> [|f IH] a b Ga Gb Hf; first lia.
  rewrite /=. have [q [r [E [Gr [L1 [L2 _]]]]]] := divrem_good_total Ga Gb.
  rewrite E /=. case: r E Gr L1 L2 => [|r0 r] E Gr L1 L2; first by do 3 eexists.
  have [g [u0 [v0 Er]]] : exists g u v, poly_ext_gcd_rec f b (r0 :: r) p = Done (g, u, v).
  { case: (b =P [::]) => [Eb|Nb].
    - rewrite Eb. case: f IH Hf => [|f'] IH Hf; first by rewrite Eb /= in Hf; lia.
      rewrite /=. by do 3 eexists.
    - apply: IH => //. have := L1 Nb. rewrite /=. lia. }
  rewrite Er /=.
  have [qv ->] := poly_mod_total (pmul opsZ q v0) p Hp0. rewrite /=.
  rewrite /poly_mod_sub. have [v ->] := poly_mod_total (psub opsZ u0 qv) p Hp0. rewrite /=. by do 3 eexists.
Qed.

Lemma poly_ext_gcd_rec_dvd : forall fuel a b g u v,
  goodlc p a -> goodlc p b -> canonical a -> canonical b ->
  poly_ext_gcd_rec fuel a b p = Done (g, u, v) ->
  canonical g /\ goodlc p g /\ (a <> [::] \/ b <> [::] -> g <> [::]) /\
  (exists s, eqpm p (PZ a) (PZ g * s)) /\ (exists t, eqpm p (PZ b) (PZ g * t)).
Proof.
  elim=> [|f IH] a b g u v Ga Gb Ca Cb //=.
  case Ed: (poly_divrem a b p) => [[quo rem]| |] //=.
  have [q' [r' [E' [Gr [L1 [L2 [Cr D1]]]]]]] := divrem_good_total Ga Gb.
  rewrite Ed in E'. case: E' => Eq Er. subst q' r'.
  case: rem Ed Gr L1 L2 Cr D1 => [|r0 rem] Ed Gr L1 L2 Cr D1.
  - case=> <- _ _. split=> //. split=> //. split.
    + move=> [Na|Nb] // Eb. apply: Na. by rewrite -(L2 Eb).
    + split.
      * exists (PZ quo). apply: eqpm_trans D1 _. rewrite /PZ /= addr0 mulrC. exact: eqpm_refl.
      * exists 1. rewrite mulr1. exact: eqpm_refl.
  - case Er: (poly_ext_gcd_rec f b (r0 :: rem) p) => [[[g' u0] v0]| |] //=.
    case: (poly_mod _ p) => [qv| |] //=. case: (poly_mod_sub u0 qv p) => [v'| |] //=.
    case=> <- _ _.
    have [Cg [Gg [Ng [[s Hs] [t Ht]]]]] := IH _ _ _ _ _ Gb Gr Cb (Cr Ca) Er.
    split=> //. split=> //. split; first by move=> _; apply: Ng; right.
    split; last by exists s.
    exists (PZ quo * s + t). apply: eqpm_trans D1 _.
    have -> : PZ g' * (PZ quo * s + t) = PZ quo * (PZ g' * s) + PZ g' * t by ring.
    apply: eqpm_add => //. exact: eqpm_mull.
Qed.

(** ** The witness exists for coprime arguments *)

Theorem coprime_witness_total a b :
  goodlc p a -> goodlc p b -> canonical a -> canonical b -> a <> [::] \/ b <> [::] ->
  copm p (PZ a) (PZ b) ->
  exists u v, poly_coprime_witness a b p = Done (u, v).
Proof.
  move=> Ga Gb Ca Cb Hn [s [t Hst]].
  rewrite /poly_coprime_witness.
  have [g [u [v Eg]]] : exists g u v, poly_ext_gcd a b p = Done (g, u, v).
  { apply: poly_ext_gcd_rec_total_good => //. rewrite /gcd_fuel. lia. }
  rewrite Eg /=.
  have [Cg [Gg [Ng [[s' Hs'] [t' Ht']]]]] := poly_ext_gcd_rec_dvd Ga Gb Ca Cb Eg.
  have Gn := Ng Hn.
  (* g * h = 1 modulo p, hence g is a constant *)
  have Eone : eqpm p (PZ g * (s' * s + t' * t)) 1.
  { apply: eqpm_trans Hst.
    have -> : PZ g * (s' * s + t' * t) = (PZ g * s') * s + (PZ g * t') * t by ring.
    apply: eqpm_add; apply: eqpm_mulr; exact: eqpm_sym. }
  have Lg : (length g <= 1)%coq_nat.
  { case: (Nat.le_gt_cases (length g) 1) => // Hgt. exfalso.
    have S1 : (size (1%R : {poly Z}) < length g)%nat by rewrite size_poly1; lia.
    have Z1 := small_multiple_zero Hp Gn Cg (Gg Gn) Eone S1.
    have E0 : eqpm p 1 0.
    { apply: eqpm_trans (eqpm_sym Eone) _.
      have -> : (0 : {poly Z}) = PZ g * 0 by rewrite mulr0. exact: eqpm_mull. }
    have := eqpm_coef E0 0%nat. rewrite coef1 coef0 /= Z.mod_0_l // Z.mod_small //. }
  have Ed : (pdeg g =? 0)%ZZ = true.
  { case: (g) Gn Lg => [|g0 [|g1 l]] //=. lia. }
  rewrite Ed /=.
  have [[[gg x] y] ->] := num_extended_gcd_total (coef_at opsZ g 0) p. rewrite /=.
  have -> : (p =? 0)%ZZ = false by apply/Z.eqb_neq.
  have [u' ->] := poly_mod_total (poly_mul u (Z.modulo x p)) p Hp0. rewrite /=.
  have [v' ->] := poly_mod_total (poly_mul v (Z.modulo x p)) p Hp0. rewrite /=.
  by do 2 eexists.
Qed.

End Prime.

(** ** The multi-factor lift returns *)

Lemma nth_chk_in (T : Type) (l : list T) i d : (i < length l)%coq_nat -> nth_chk l i = Done (List.nth i l d).
Proof.
  move=> Hi. rewrite /nth_chk. case E: (List.nth_error l i) => [x|].
  - by rewrite (List.nth_error_nth _ _ d E).
  - move/List.nth_error_None: E. lia.
Qed.

Definition pairwise_cop (p : Z) (fs : list (list Z)) : Prop :=
  forall i j : nat, (i < j)%coq_nat -> (j < length fs)%coq_nat ->
    copm p (PZ (List.nth i fs [::])) (PZ (List.nth j fs [::])).

Lemma copm_prefix p fs k : pairwise_cop p fs -> (k < length fs)%coq_nat ->
  forall m : nat, (m <= k)%coq_nat -> copm p (PZprod (List.firstn m fs)) (PZ (List.nth k fs [::])).
Proof.
  move=> Hpw Hk. elim=> [|m IH] Hm; first by rewrite /=; exact: copm_1l.
  rewrite (@firstn_S_nth _ _ m [::]); last lia.
  rewrite PZprod_rcons. apply: copm_mull; first by apply: IH; lia.
  apply: Hpw => //.
Qed.

Section Multi.
Variables (p q : Z).
Hypothesis Hp : Znumtheory.prime p.
Hypothesis Hq : (0 < q)%ZZ.
Hypothesis Hpq : (p | q)%ZZ.
Let Hp2 := prime_ge_2 _ Hp.
Let Hp1 : (1 < p)%ZZ. Proof. lia. Qed.

Lemma lift_down_total accs factors : forall (cnt : nat) product result,
  (cnt < length factors)%coq_nat -> length accs = length factors ->
  (forall j : nat, (j <= cnt)%coq_nat -> lmonic (List.nth j accs [::])) ->
  (forall j : nat, (j < cnt)%coq_nat ->
     eqpm q (PZ (List.nth j.+1 accs [::])) (PZ (List.nth j accs [::]) * PZ (List.nth j.+1 factors [::])) /\
     (length (List.nth j.+1 accs [::]) + 1 = length (List.nth j accs [::]) + length (List.nth j.+1 factors [::]))%coq_nat) ->
  (forall j : nat, (1 <= j)%coq_nat /\ (j <= cnt)%coq_nat -> lmonic (List.nth j factors [::])) ->
  (forall j : nat, (j < cnt)%coq_nat -> copm p (PZ (List.nth j accs [::])) (PZ (List.nth j.+1 factors [::]))) ->
  eqpm q (PZ product) (PZ (List.nth cnt accs [::])) -> lmonic product ->
  exists res prod0, lift_down cnt p q accs factors product result = Done (res, prod0).
Proof.
  elim=> [|i IH] product result Hcnt La Macc Hacc Mf Hcop Eprod Mprod;
    rewrite [lift_down _ _ _ _ _ _ _]/=; first by do 2 eexists.
  rewrite (@nth_chk_in _ accs i [::]); last lia.
  rewrite (@nth_chk_in _ factors i.+1 [::]) //. rewrite [bind _ _]/=.
  set acc := List.nth i accs [::]. set fi := List.nth i.+1 factors [::].
  have Macc_i : lmonic acc by apply: Macc; lia.
  have Mfi : lmonic fi by apply: Mf; lia.
  have [u [v Ew]] := coprime_witness_total Hp (lmonic_goodlc Hp1 Macc_i) (lmonic_goodlc Hp1 Mfi)
                       (lmonic_canonical Macc_i) (lmonic_canonical Mfi) (or_introl (lmonic_nonnil Macc_i))
                       (Hcop i ltac:(lia)).
  rewrite Ew [bind _ _]/=.
  have [W _] := coprime_witness_spec Hp (lmonic_goodlc Hp1 Macc_i) (lmonic_goodlc Hp1 Mfi) Ew.
  have [a1 [b1 [qr Eh]]] := hensel_step_total product fi u v Hp1 Hq Hpq Macc_i.
  rewrite Eh [bind _ _]/=.
  have [Hi1 Hi2] := Hacc i ltac:(lia).
  have Hcab : eqpm q (PZ product) (PZ acc * PZ fi) by apply: eqpm_trans Eprod _.
  have [Eqr [S1 [S2 [S3 [S4 _]]]]] := hensel_step Hp1 Hq Hpq Macc_i Hcab W Eh.
  apply: IH => //; try lia.
  - move=> j Hj. apply: Macc. lia.
  - move=> j Hj. apply: Hacc. lia.
  - move=> j Hj. apply: Mf. lia.
  - move=> j Hj. apply: Hcop. lia.
Qed.

Theorem hensel_lift_multiple_total c factors :
  factors <> [::] -> List.Forall lmonic factors -> pairwise_cop p factors ->
  eqpm q (PZ c) (PZprod factors) -> lmonic c ->
  exists res qr, hensel_lift_multiple p q c factors = Done (res, qr).
Proof.
  move=> Hne Hf Hpw Ec Mc.
  have Hq1 := q_gt1 Hp Hq Hpq. have Hq0 : q <> Z0 by lia.
  rewrite /hensel_lift_multiple.
  case: factors Hne Hf Hpw Ec => [|f0 rest] // _ Hf Hpw Ec.
  set factors := f0 :: rest in Hf Hpw Ec *.
  have M1 : lmonic (from_mono opsZ 1%ZZ) by [].
  have [accs Eacc] : exists accs, accumulate factors (from_mono opsZ 1%ZZ) q = Done accs.
  { move: (from_mono opsZ 1%ZZ). elim: factors {Hf Hpw Ec} => [|f fs IHf] cur /=; first by eexists.
    have [x ->] := poly_mod_total (pmul opsZ cur f) q Hq0. rewrite /=.
    have [acc ->] := IHf x. rewrite /=. by eexists. }
  rewrite Eacc [bind _ _]/=.
  have [La Hacc] := accumulate_spec Hq1 M1 Hf Eacc.
  have Lfac : length factors = (length rest).+1 by [].
  have Ln : (length rest < length factors)%coq_nat by rewrite Lfac; lia.
  have H1 : forall j : nat, (j <= length rest)%coq_nat -> lmonic (List.nth j accs [::]).
  { move=> j Hj. have Hj' : (j < length factors)%coq_nat by rewrite Lfac; lia. by case: (Hacc j Hj'). }
  have H2 : forall j : nat, (j < length rest)%coq_nat ->
     eqpm q (PZ (List.nth j.+1 accs [::])) (PZ (List.nth j accs [::]) * PZ (List.nth j.+1 factors [::])) /\
     (length (List.nth j.+1 accs [::]) + 1 = length (List.nth j accs [::]) + length (List.nth j.+1 factors [::]))%coq_nat.
  { move=> j Hj. have Hj' : (j.+1 < length factors)%coq_nat by rewrite Lfac; lia.
    by case: (Hacc j.+1 Hj') => _ [X [Y _]]. }
  have H3 : forall j : nat, (1 <= j)%coq_nat /\ (j <= length rest)%coq_nat -> lmonic (List.nth j factors [::]).
  { move=> j [Hj1 Hj2]. apply: (proj1 (List.Forall_forall _ _) Hf). apply: List.nth_In. rewrite Lfac. lia. }
  have H4 : forall j : nat, (j < length rest)%coq_nat ->
     copm p (PZ (List.nth j accs [::])) (PZ (List.nth j.+1 factors [::])).
  { move=> j Hj. have Hj' : (j < length factors)%coq_nat by rewrite Lfac; lia.
    have [_ [_ [_ A4]]] := Hacc j Hj'.
    have Hj1 : (j.+1 < length factors)%coq_nat by rewrite Lfac; lia.
    have C := copm_prefix Hpw Hj1 (m := j.+1) ltac:(lia).
    apply: (copm_eqpm _ (eqpm_refl _ _) C).
    case: Hpq => w Hw.
    have A4' : eqpm p (PZ (List.nth j accs [::])) (PZ (from_mono opsZ 1%ZZ) * PZprod (List.firstn j.+1 factors)).
    { apply: (@eqpm_weaken p w). rewrite Z.mul_comm -Hw. exact: A4. }
    move: A4'. by rewrite PZ_from_mono mul1r. }
  have Hlast := Hacc (length rest) Ln.
  have Ecacc : eqpm q (PZ c) (PZ (List.nth (length rest) accs [::])).
  { apply: eqpm_trans Ec _. apply: eqpm_sym. case: Hlast => _ [_ [_ H4']].
    move: H4'. rewrite PZ_from_mono mul1r.
    have -> : List.firstn (length rest).+1 factors = factors by apply: List.firstn_all2; rewrite Lfac; lia.
    by []. }
  rewrite ?Nat.sub_0_r.
  have [res [prod0 ->]] := @lift_down_total accs factors (length rest) c [::] Ln La H1 H2 H3 H4 Ecacc Mc.
  rewrite /=. by do 2 eexists.
Qed.

End Multi.

(** ** [lift_factorization] returns *)

Lemma Forall2_nth (A B : Type) (R : A -> B -> Prop) l1 l2 i d1 d2 :
  List.Forall2 R l1 l2 -> (i < length l1)%coq_nat -> R (List.nth i l1 d1) (List.nth i l2 d2).
Proof.
  move=> F. elim: F i => [|x y l1' l2' Hxy _ IH] [|i] //= Hi; try lia. apply: IH. lia.
Qed.

Lemma Forall2_len (A B : Type) (R : A -> B -> Prop) l1 l2 : List.Forall2 R l1 l2 -> length l1 = length l2.
Proof. by elim=> [|x y l1' l2' _ _ /= ->]. Qed.

Section LiftT.
Variables (p : Z) (c : list Z) (factors0 : list (list Z)).
Hypothesis Hp : Znumtheory.prime p.
Hypothesis Hlc : ~ (p | lead opsZ c)%ZZ.
Hypothesis Hpw : pairwise_cop p factors0.
Let lc := lead opsZ c.
Let Hp2 := prime_ge_2 _ Hp.

Lemma round_pre (k : nat) cur res gg x y divided :
  (1 <= k)%coq_nat -> cur = Z.pow p (Z.of_nat k) -> lift_inv p c factors0 cur res ->
  num_extended_gcd lc (Z.mul cur p) = Done (gg, x, y) ->
  poly_mod (poly_mul c (Z.modulo x (Z.mul cur p))) (Z.mul cur p) = Done divided ->
  lmonic divided /\ canonical divided /\ in_range (Z.mul cur p) divided /\
  eqpm cur (PZ divided) (PZprod res) /\ List.Forall lmonic res /\ (0 < cur)%ZZ /\ (p | cur)%ZZ.
Proof.
  move=> Hk Ecur Inv Eg Ediv.
  set next := Z.mul cur p in Eg Ediv *.
  have Hcur : (0 < cur)%ZZ by rewrite Ecur; apply: Z.pow_pos_nonneg; lia.
  have Enext : next = Z.pow p (Z.of_nat k.+1).
  { rewrite /next Ecur Nat2Z.inj_succ Z.pow_succ_r; lia. }
  have Hnext : (1 < next)%ZZ by rewrite /next; nia.
  have Hnext0 : next <> Z0 by lia.
  have Hpcur : (p | cur)%ZZ.
  { exists (Z.pow p (Z.of_nat (k - 1))). rewrite Ecur.
    have -> : Z.of_nat k = Z.succ (Z.of_nat (k - 1)) by lia.
    rewrite Z.pow_succ_r; lia. }
  have [N1 N2] := num_extended_gcd_spec _ _ _ _ _ Eg.
  have G1 : gg = 1%ZZ.
  { rewrite N2 Enext. apply/Zgcd_1_rel_prime. apply: Zpow_facts.rel_prime_Zpower_r; first lia.
    apply: rel_prime_sym. exact: prime_rel_prime. }
  set invlc := Z.modulo x next in Ediv.
  have [z Hz] : exists z, Z.mul lc invlc = (1 + next * z)%ZZ.
  { exists (- y - lc * (Z.div x next))%ZZ. rewrite /invlc.
    have := Z.div_mod x next Hnext0. nia. }
  have Lc0 : (0 < length c)%coq_nat.
  { case: (c) Hlc => [|c0 c'] /=; last lia. move=> H. exfalso. apply: H. exact: Z.divide_0_r. }
  have [Ld Md] : length divided = (length c - 1).+1 /\ lmonic divided.
  { apply: (poly_mod_monic_top Hnext Ediv).
    - rewrite poly_mul_nth -last_nth_len. rewrite -/(lead opsZ c) -/lc Hz.
      rewrite (Z.mul_comm next z) Z.mod_add // Z.mod_small //; lia.
    - move=> j Hj. rewrite poly_mul_nth List.nth_overflow; last lia. by rewrite Zmod_0_l. }
  have Hnextp : (0 < next)%ZZ by lia.
  have [Cd Rd] := @poly_mod_reduced _ _ _ Hnextp Ediv.
  have [Kd HKd] := PZ_poly_mod Hnext0 Ediv. rewrite PZ_poly_mul in HKd.
  case: Inv => [F2 [Kc HKc]]. rewrite -/lc in HKc.
  have Mres : List.Forall lmonic res.
  { elim: F2 => [|g f l1 l2 [_ [Mg _]] _ IHf]; constructor=> //. }
  split=> //. split=> //. split=> //. split; last by [].
  exists (p%:P * Kd + Kc * invlc%:P + (p * z)%ZZ%:P * PZprod res).
  rewrite HKd HKc.
  have -> : next%:P = cur%:P * p%:P :> {poly Z} by rewrite -polyCM.
  have E1 : lc%:P * invlc%:P = 1 + cur%:P * (p * z)%ZZ%:P :> {poly Z}.
  { rewrite -!polyCM -polyC1 -polyCD. congr (_%:P). move: Hz; rewrite /next => Hz'. lia. }
  apply/eqP; rewrite -subr_eq0; apply/eqP.
  transitivity (PZprod res * (lc%:P * invlc%:P - (1 + cur%:P * (p * z)%ZZ%:P))); first by ring.
  rewrite E1. ring.
Qed.

Lemma lift_loop_total : forall (n k : nat) cur res,
  (1 <= k)%coq_nat -> cur = Z.pow p (Z.of_nat k) -> res <> [::] ->
  lift_inv p c factors0 cur res ->
  exists out, lift_loop n p c lc cur res = Done out.
Proof.
  elim=> [|n IH] k cur res Hk Ecur Hne Inv; first by eexists.
  have Hcur : (0 < cur)%ZZ by rewrite Ecur; apply: Z.pow_pos_nonneg; lia.
  have Hnext0 : Z.mul cur p <> Z0 by nia.
  have [[[gg x] y] Eg] := num_extended_gcd_total lc (Z.mul cur p).
  have [divided Ediv] := poly_mod_total (poly_mul c (Z.modulo x (Z.mul cur p))) (Z.mul cur p) Hnext0.
  have [Md [Cd [Rd [Epre [Mres [_ Hpcur]]]]]] := round_pre Hk Ecur Inv Eg Ediv.
  have Hpwr : pairwise_cop p res.
  { case: (Inv) => F2 _. move=> i j Hij Hj.
    have Lr : length res = length factors0 := Forall2_len F2.
    have [Ei _] := @Forall2_nth _ _ _ _ _ i [::] [::] F2 ltac:(lia).
    have [Ej _] := @Forall2_nth _ _ _ _ _ j [::] [::] F2 Hj.
    apply: (copm_eqpm Ei Ej). apply: Hpw => //. lia. }
  have [sub [qr Em]] := hensel_lift_multiple_total Hp Hcur Hpcur Hne Mres Hpwr Epre Md.
  have E1 : lift_loop 1 p c lc cur res = Done sub.
  { rewrite lift_loop_S Eg [bind _ _]/=.
    have -> : (Z.mul cur p =? 0)%ZZ = false by apply/Z.eqb_neq.
    by rewrite Ediv [bind _ _]/= Em. }
  have [Inv' _] := lift_loop_spec Hp Hlc Hk Ecur Hne Inv E1.
  have [_ [S1 _]] := hensel_lift_multiple_spec Hp Hcur Hpcur Hne Mres Epre Md Cd Rd Em.
  have Hsub : sub <> [::].
  { move=> E. move: S1. rewrite E => H. inversion H. by subst res. }
  have Ek : Z.pow p (Z.of_nat (k + 1)) = Z.mul cur p.
  { rewrite Ecur. have -> : Z.of_nat (k + 1) = Z.succ (Z.of_nat k) by lia. rewrite Z.pow_succ_r; lia. }
  rewrite lift_loop_S Eg [bind _ _]/=.
  have -> : (Z.mul cur p =? 0)%ZZ = false by apply/Z.eqb_neq.
  rewrite Ediv [bind _ _]/= Em [bind _ _]/=.
  apply: (IH k.+1) => //; first lia.
  - rewrite -Ek. congr Z.pow. lia.
  - by rewrite -Ek.
Qed.

(** [P] [lift_factorization] returns (no panic, no fuel exhaustion) when the factors are monic
    and pairwise coprime modulo p. *)
Theorem lift_factorization_total e :
  factors0 <> [::] -> List.Forall lmonic factors0 ->
  eqpm p (PZ c) (lc%:P * PZprod factors0) ->
  exists gs, lift_factorization p e c factors0 = Done gs.
Proof.
  move=> Hne Mf Ec. rewrite /lift_factorization -/lc.
  have Inv : lift_inv p c factors0 (Z.pow p (Z.of_nat 1)) factors0.
  { split; last by rewrite Z.pow_1_r.
    elim: Mf => [|f l Hf _ IHf]; constructor=> //. split; first exact: eqpm_refl. by []. }
  have := @lift_loop_total (Z.to_nat (e - 1)) 1 _ factors0 (le_n 1) erefl Hne Inv.
  by rewrite Z.pow_1_r.
Qed.

End LiftT.
