(** Round 2 step, third wave (C06): an order that contains 1 has a unit for its table product: the integer
    coordinate vector of 1.  Style: ssreflect (on TableAgrees / AlgNormOrder). *)
From RNT.Model Require Import Base Poly Algebraic LinAlg MultTable Order.
From Coq Require Import QArith Qcanon.
From mathcomp Require Import all_ssreflect ssralg poly polydiv.
From mathcomp Require Import ssrZ zify ring.
From RNT.Refine Require Import QcRing PolyRefine PolyDiv PolyZ PolyQ AlgMul AlgQuot MultTableOps MultTableGet TableAgrees.
From RNT.Refine Require OrderSolve LinAlgQc AlgNormMx AlgNormOrder Round2Lattice Round2Det.
Set Implicit Arguments.
Unset Strict Implicit.
Unset Printing Implicit Defensive.
Import GRing.Theory.
Local Open Scope ring_scope.

Lemma combQ_qdot n (c : seq Z) (b : seq (seq Qc)) j : size c = n -> size b = n ->
  Round2Lattice.combQ c b j = OrderSolve.qdot n (map qz c) b j.
Proof.
rewrite OrderSolve.qdot_sum => sc sb.
elim: b c n sc sb => [|r b IH] [|c0 c] [|n] // sc sb; first by rewrite big_ord0.
case: sc => sc; case: sb => sb.
by rewrite big_ord_recl [Round2Lattice.combQ _ _ _]/= (IH c n sc sb).
Qed.

Lemma nth_one_vec n j : (j < n)%coq_nat ->
  List.nth j (Round2Det.one_vec n) Algebraic.q0 = if Nat.eqb j 0 then Q2Qc 1 else Algebraic.q0.
Proof.
move=> hj; rewrite /Round2Det.one_vec.
set g := (fun j0 : nat => _).
rewrite (List.nth_indep _ _ (g 0%N)) ?List.map_length ?List.seq_length //.
by rewrite (List.map_nth g) List.seq_nth.
Qed.

Theorem order_has_unit (f : seq Z) (n : nat) (o : seq (seq Qc)) (T : table) :
  canonZ f -> size f = n.+1 -> (0 < n)%N -> size o = n -> List.Forall (fun r => size r = n) o ->
  get_mult_table o f = Done T ->
  Round2Lattice.in_spanQ n (Round2Det.one_vec n) o ->
  exists one, size one = n /\ forall x, size x = n -> AlgNormMx.tmul T n one x = x.
Proof.
move=> cf szf n0 sb wo gt [c [lc hc]].
have rb : forall i, (i < n)%N -> size (nth [::] o i) = n.
  move=> i hi; move/List.Forall_forall: (wo); apply.
  have -> : nth [::] o i = List.nth i o [::] by elim: (o) i {hi} => [|x o' IH] [|i] //=.
  by apply: List.nth_In; rewrite -[length o]/(size o) sb; apply/ltP.
have sc : size c = n by rewrite -sb.
exists c; split=> // x sx.
have e1 : of_coords n o (map qz c) = 1.
  apply/polyP => j; rewrite -qdot_coef -(combQ_qdot j sc sb) coef1.
  case: (ltnP j n) => hj.
    rewrite -(hc j (ltP hj)) (nth_one_vec (ltP hj)).
    by case: j {hj} => [|j].
  have -> : Round2Lattice.combQ c o j = 0.
    rewrite (combQ_qdot j sc sb) qdot_coef nth_default //.
    exact: leq_trans (size_of_coords rb _) hj.
  by case: j hj => [|j] //; rewrite leqn0 => /eqP e; move: n0; rewrite e.
apply: (AlgNormOrder.of_coords_inj sb gt); rewrite ?AlgNormMx.size_tmul //.
rewrite (AlgNormOrder.tmul_agrees cf szf sb rb gt sc sx) e1 mul1r modp_small //.
by rewrite (size_Fq cf szf) ltnS; apply: size_of_coords.
Qed.
