(** * C08 (second wave): irreducible polynomials over ['F_n] (n prime) and [X^(n^d) - X].

    - every non-constant polynomial has an irreducible divisor;
    - an irreducible g divides [X^(n^deg g) - X]   (F_n[x]/(g) is a field with n^deg g elements);
    - an irreducible g dividing [X^(n^d) - X], d >= 1, has degree <= d (every element of
      F_n[x]/(g) is a root of [Y^(n^d) - Y]);
    - square-free polynomials ([sqfreep]): divisors, coprimality of cofactors, products.
    The field F_n[x]/(g) is MathComp's [irredp_FAdjoin]. (ssreflect) *)
From mathcomp Require Import all_ssreflect all_algebra all_field.
From mathcomp Require Import zify.
Set Implicit Arguments. Unset Strict Implicit. Unset Printing Implicit Defensive.
Import GRing.Theory.
Local Open Scope ring_scope.

Section Irred.
Variable n : nat.
Hypothesis n_prime : prime n.
Let F := [finFieldType of 'F_n].
Implicit Types (f g h : {poly 'F_n}).

Let n_gt1 : (1 < n)%N. Proof. exact: prime_gt1. Qed.

Lemma card_Fn : #|'F_n| = n.
Proof. exact: card_Fp. Qed.

Lemma Fn_exp (c : 'F_n) d : c ^+ (n ^ d) = c.
Proof.
  have E : c ^+ n = c by have := @expf_card F c; rewrite card_Fn.
  elim: d => [|d IH]; first by rewrite expn0 expr1.
  by rewrite expnS mulnC exprM IH E.
Qed.

(** ** Existence of an irreducible divisor *)

Lemma irred_dvd_exists f : (1 < size f)%N -> exists2 g, irreducible_poly g & g %| f.
Proof.
  move=> C'p. pose m := size f.
  pose rVp (v : 'rV['F_n]_m) (r := rVpoly v) := (1 < size r)%N && (r %| f).
  have [v0 Dp]: {v0 | rVpoly v0 = f & rVp v0}.
    by exists (poly_rV f); rewrite /rVp poly_rV_K ?C'p /= ?dvdpp.
  case/(arg_minnP (size \o rVpoly))=> /= v; set r := rVpoly v.
  case/andP=> C'r r_dv_p min_r; exists r => //; split=> // q C'q q_dv_r.
  have nz_r: r != 0 by rewrite -size_poly_gt0 ltnW.
  have le_q_r: (size q <= size r)%N by rewrite dvdp_leq.
  have [u Dq]: {u : 'rV['F_n]_m | rVpoly u = q}.
    by exists (poly_rV q); rewrite poly_rV_K ?(leq_trans le_q_r) ?size_poly.
  rewrite -dvdp_size_eqp // eqn_leq le_q_r -Dq min_r // /rVp Dq.
  rewrite ltn_neqAle eq_sym C'q size_poly_gt0 (dvdpN0 q_dv_r) //=.
  exact: dvdp_trans q_dv_r r_dv_p.
Qed.

Lemma irred_eqp g g' : g %= g' -> irreducible_poly g -> irreducible_poly g'.
Proof.
  move=> E [S I]. split; first by rewrite -(eqp_size E).
  move=> q Sq Dq. have Dq' : q %| g by rewrite (eqp_dvdr _ E).
  exact: (eqp_trans (I q Sq Dq') E).
Qed.

Lemma irred_coprime g f : irreducible_poly g -> ~~ (g %| f) -> coprimep g f.
Proof.
  move=> [S I] N. rewrite coprimep_def. apply/negPn/negP => S1.
  have E := I _ S1 (dvdp_gcdl g f).
  move/negP: N; apply. rewrite -(eqp_dvdl _ E). exact: dvdp_gcdr.
Qed.

Lemma irred_dvd_mul g a b : irreducible_poly g -> g %| a * b -> (g %| a) || (g %| b).
Proof.
  move=> I D. case Da: (g %| a) => //=.
  have C := irred_coprime I (negbT Da). by rewrite Gauss_dvdpr in D.
Qed.

(** ** The residue field of an irreducible polynomial *)

Section Residue.
Variable g : {poly 'F_n}.
Hypothesis irr_g : irreducible_poly g.
Let m := (size g).-1.

Lemma irred_dvd_Xq : g %| 'X^(n ^ m) - 'X.
Proof.
  have [L dimL [z rz genz]] := @irredp_FAdjoin F g irr_g.
  pose FL := FinFieldExtType L.
  have cardL : #|FL| = (n ^ m)%N.
  { have H := @card_vspace F FL _ (fullv : {vspace L}).
    rewrite dimL card_Fn in H. rewrite -H. apply: eq_card => x. by rewrite memvf. }
  have zq : z ^+ (n ^ m) = z by rewrite -cardL (@expf_card FL).
  set h := 'X^(n ^ m) - 'X.
  apply/negPn/negP => N.
  have /Bezout_eq1_coprimepP [[u v] /= E] := irred_coprime irr_g N.
  have := congr1 (fun q : {poly 'F_n} => (map_poly (in_alg L) q).[z]) E.
  rewrite rmorphD !rmorphM rmorph1 hornerD !hornerM hornerC /=.
  rewrite (rootP rz) mulr0 add0r.
  rewrite /h rmorphB rmorphX /= map_polyX hornerD hornerN hornerXn hornerX zq subrr mulr0.
  move/eqP. by rewrite eq_sym oner_eq0.
Qed.

Lemma irred_deg_le d : (0 < d)%N -> g %| 'X^(n ^ d) - 'X -> (m <= d)%N.
Proof.
  move=> d0 D.
  have [L dimL [z rz genz]] := @irredp_FAdjoin F g irr_g.
  pose FL := FinFieldExtType L.
  have cardL : #|FL| = (n ^ m)%N.
  { have H := @card_vspace F FL _ (fullv : {vspace L}).
    rewrite dimL card_Fn in H. rewrite -H. apply: eq_card => x. by rewrite memvf. }
  set Q := (n ^ d)%N.
  have Q1 : (1 < Q)%N by rewrite -(exp1n d) ltn_exp2r.
  have charL : n \in [char L] by apply: (rmorph_char [rmorphism of in_alg L]); exact: char_Fp.
  have QnatL : [char L].-nat Q by rewrite pnatX pnatE ?charL.
  have zQ : z ^+ Q = z.
  { have /dvdpP [k Ek] := D.
    have := congr1 (fun q : {poly 'F_n} => (map_poly (in_alg L) q).[z]) Ek.
    rewrite rmorphB rmorphX /= map_polyX hornerD hornerN hornerXn hornerX rmorphM hornerM (rootP rz) mulr0.
    by move/eqP; rewrite subr_eq0 => /eqP. }
  have fixL (a : L) : a ^+ Q = a.
  { have : a \in <<1; z>>%VS by rewrite genz memvf.
    case/Fadjoin_polyP => h0 /polyOver1P [h ->] ->.
    elim/poly_ind: h => [|h c IH]; first by rewrite rmorph0 horner0 expr0n; case: (Q) Q1.
    rewrite rmorphD rmorphM /= map_polyX map_polyC hornerMXaddC.
    rewrite (exprDn_char _ _ QnatL) exprMn IH zQ. by rewrite -(rmorphX [rmorphism of in_alg L]) Fn_exp. }
  have Nz : ('X^Q - 'X : {poly L}) != 0.
  { rewrite -size_poly_eq0 size_addl ?size_polyXn // size_opp size_polyX. by []. }
  have Rts : all (root ('X^Q - 'X : {poly L})) (enum FL).
  { apply/allP => a _. by rewrite /root hornerD hornerN hornerXn hornerX fixL subrr. }
  have := max_poly_roots Nz Rts (enum_uniq FL).
  have -> : size (enum FL) = #|FL| by rewrite cardE.
  rewrite size_addl ?size_polyXn ?size_opp ?size_polyX // cardL ltnS.
  by rewrite leq_exp2l.
Qed.

End Residue.

(** ** Square-free polynomials *)

Definition sqfreep f : Prop := forall g, g ^+ 2 %| f -> size g = 1%N.

Lemma sqfreep_neq0 f : sqfreep f -> f != 0.
Proof.
  move=> S. apply/eqP => E. have := S 'X. rewrite E dvdp0 size_polyX. by move=> /(_ isT).
Qed.

Lemma sqfreep_dvd d f : sqfreep f -> d %| f -> sqfreep d.
Proof. move=> S D g G. apply: S. exact: dvdp_trans G D. Qed.

Lemma sqfreep_eqp f f' : f %= f' -> sqfreep f -> sqfreep f'.
Proof. move=> E S. apply: sqfreep_dvd S _. by rewrite (eqp_dvdr _ E). Qed.

Lemma sqfreep_coprime a b : sqfreep (a * b) -> coprimep a b.
Proof.
  move=> S. rewrite coprimep_def. apply/eqP. apply: S.
  rewrite expr2. apply: dvdp_mul; [exact: dvdp_gcdl|exact: dvdp_gcdr].
Qed.

Lemma sqfreep_const c : c != 0 -> sqfreep c%:P.
Proof.
  move=> Nc g D. have N : (c%:P : {poly 'F_n}) != 0 by rewrite polyC_eq0.
  have := dvdp_leq N D. rewrite size_polyC Nc.
  have Ng : g != 0.
  { apply/eqP => E. move: D. rewrite E expr0n /= dvd0p. by rewrite (negbTE N). }
  have := size_exp g 2. rewrite -size_poly_gt0 in Ng.
  move: (size (g ^+ 2)) (size g) Ng => a b. case: b => [|[|b]] //. case: a => [|[|a]] //=.
Qed.

Lemma sqfreep_mul a b : sqfreep a -> sqfreep b -> coprimep a b -> sqfreep (a * b).
Proof.
  move=> Sa Sb C g D.
  have Nab : a * b != 0 by rewrite mulf_neq0 ?sqfreep_neq0.
  have Ng : g != 0.
  { apply/eqP => E. move: D. by rewrite E expr0n /= dvd0p (negbTE Nab). }
  apply/eqP. rewrite eqn_leq size_poly_gt0 Ng andbT leqNgt. apply/negP => S1.
  have [pi Ipi Dpi] := irred_dvd_exists S1.
  have D2 : pi ^+ 2 %| a * b by apply: dvdp_trans D; exact: dvdp_exp2r.
  have Spi : size pi != 1%N by case: Ipi => H _; rewrite neq_ltn H orbT.
  have D1 : pi %| a * b by apply: dvdp_trans D2; rewrite expr2; exact: dvdp_mulr.
  case/orP: (irred_dvd_mul Ipi D1) => Dab.
  - have Cb : coprimep pi b by exact: coprimep_dvdr Dab C.
    move: D2. rewrite (Gauss_dvdpl _ (coprimep_expl 2 Cb)) => /Sa /eqP. by rewrite (negbTE Spi).
  - have Ca : coprimep pi a by apply: coprimep_dvdr Dab _; rewrite coprimep_sym.
    move: D2. rewrite (Gauss_dvdpr _ (coprimep_expl 2 Ca)) => /Sb /eqP. by rewrite (negbTE Spi).
Qed.

(** f = gcd(f, f') * v  ==>  v is square-free. *)
Lemma dvdp_exp_deriv g f k : g ^+ k.+1 %| f -> g ^+ k %| f^`().
Proof.
  case/dvdpP => u ->. rewrite derivM deriv_exp /=.
  apply: dvdp_add; first by apply: dvdp_mull; exact: dvdp_exp2l.
  rewrite -mulr_natr. apply: dvdp_mull. apply: dvdp_mulr. exact: dvdp_mull.
Qed.

Lemma sqfreep_radical f t v : f != 0 -> t %= gcdp f f^`() -> f = t * v -> sqfreep v.
Proof.
  move=> Nf Et Ef g D.
  have Nt : t != 0 by apply: contraNneq Nf => E; rewrite Ef E mul0r.
  have Nv : v != 0 by apply: contraNneq Nf => E; rewrite Ef E mulr0.
  have Ng : g != 0.
  { apply/eqP => E. move: D. by rewrite E expr0n /= dvd0p (negbTE Nv). }
  apply/eqP. rewrite eqn_leq size_poly_gt0 Ng andbT leqNgt. apply/negP => S1.
  have All a : g ^+ a %| t.
  { elim: a => [|a IH]; first by rewrite expr0 dvd1p.
    rewrite (eqp_dvdr _ Et) dvdp_gcd.
    have D2 : g ^+ a.+2 %| f by rewrite Ef -addn2 exprD; exact: dvdp_mul.
    rewrite (dvdp_exp_deriv D2) andbT. apply: dvdp_trans D2. exact: dvdp_exp2l. }
  have := dvdp_leq Nt (All (size t)). have := size_exp g (size t).
  rewrite -size_poly_gt0 in Nt.
  move: (size t) (size g) (size (g ^+ size t)) S1 Nt => z y x S1 Nz E Le.
  have H : (z <= y.-1 * z)%N by apply: leq_pmull; lia.
  lia.
Qed.

End Irred.
