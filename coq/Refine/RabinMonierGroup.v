(** * Rabin-Monier, part 1: the unit group of Z/n, reduction modulo divisors of n, Chinese remainders (MathComp style).
    No model here: everything is about [{unit 'Z_n}] and natural numbers. *)
From mathcomp Require Import all_ssreflect all_fingroup.
From mathcomp Require Import ssralg finalg zmodp cyclic abelian pgroup.
Set Implicit Arguments.
Unset Strict Implicit.
Unset Printing Implicit Defensive.
Import GroupScope GRing.Theory.
Local Open Scope ring_scope.

(** ** A subgroup that misses an element has index at least 2 *)

Lemma index2_card (gT : finGroupType) (H K : {group gT}) c :
  H \subset K -> c \in K -> c \notin H -> (2 * #|H| <= #|K|)%N.
Proof.
move=> sHK cK cH.
have pHK : H \proper K by apply/properP; split=> //; exists c.
have := proper_card pHK; have /dvdnP[k ->] := cardSg sHK.
case: k => [|[|k]]; rewrite ?mul0n ?mul1n ?ltnn // => _.
by rewrite leq_mul2r orbT.
Qed.

(** ** Natural numbers seen in 'Z_q *)

Section ZqNat.
Variable q : nat.
Hypothesis q_gt1 : (1 < q)%N.

Lemma eq_natr_mod x y : (x%:R == y%:R :> 'Z_q) = (x == y %[mod q])%N.
Proof. by rewrite -val_eqE /= !val_Zp_nat. Qed.

Lemma natr_eq0 x : (x%:R == 0 :> 'Z_q) = (q %| x)%N.
Proof. by rewrite (eq_natr_mod x 0) mod0n. Qed.

Lemma natr_eq1 x : (x%:R == 1 :> 'Z_q) = (x %% q == 1)%N.
Proof. by rewrite (eq_natr_mod x 1) (@modn_small 1). Qed.

Lemma natr_eqN1 x : (x%:R == -1 :> 'Z_q) = (q %| x.+1)%N.
Proof. by rewrite -addr_eq0 -mulrSr natr_eq0. Qed.

Lemma natr_dvd0 x : (q %| x)%N -> x%:R = 0 :> 'Z_q.
Proof. by move=> qx; apply/eqP; rewrite natr_eq0. Qed.

Lemma one_neq_N1 : (2 < q)%N -> (1 : 'Z_q) != -1.
Proof.
move=> q_gt2; have -> : (1 : 'Z_q) = 1%:R by [].
by rewrite natr_eqN1; apply/negP=> /dvdn_leq => /(_ isT); rewrite leqNgt q_gt2.
Qed.

End ZqNat.

Lemma natr_mod_dvd n q x : (1 < q)%N -> (q %| n)%N -> (x %% n)%:R = x%:R :> 'Z_q.
Proof. by move=> q1 qn; apply/eqP; rewrite eq_natr_mod // modn_dvdm. Qed.

Lemma natr_eq1_dvd q q' x : (1 < q)%N -> (1 < q')%N -> (q' %| q)%N ->
  x%:R = 1 :> 'Z_q -> x%:R = 1 :> 'Z_q'.
Proof.
move=> q1 q'1 q'q /eqP; rewrite natr_eq1 // => /eqP xq; apply/eqP.
by rewrite natr_eq1 // -(modn_dvdm x q'q) xq modn_small.
Qed.

Lemma natr_eqN1_dvd q q' x : (1 < q)%N -> (1 < q')%N -> (q' %| q)%N ->
  x%:R = -1 :> 'Z_q -> x%:R = -1 :> 'Z_q'.
Proof.
move=> q1 q'1 q'q /eqP; rewrite natr_eqN1 // => xq; apply/eqP.
by rewrite natr_eqN1 // (dvdn_trans q'q).
Qed.

(** ** The unit group of Z/n and its reductions *)

Section Units.
Variable n : nat.
Hypothesis n_gt1 : (1 < n)%N.
Local Notation U := {unit 'Z_n}.

Definition uval (u : U) : nat := val (val u).
Definition red q (u : U) : 'Z_q := (uval u)%:R.

Lemma uval_lt u : (uval u < n)%N.
Proof. by rewrite /uval; case: (val u) => x /= Hx; rewrite Zp_cast in Hx. Qed.

Lemma red_n u : red n u = val u.
Proof. by rewrite /red /uval natr_Zp. Qed.

Lemma uval_coprime u : coprime n (uval u).
Proof. by rewrite -(unitZpE _ n_gt1) -/(red n u) red_n (valP u). Qed.

Lemma uval_inj : injective uval.
Proof. by move=> u v /val_inj/val_inj. Qed.

Lemma uval1 : uval 1%g = 1%N.
Proof. by []. Qed.

Lemma uvalM u v : uval (u * v)%g = ((uval u * uval v) %% n)%N.
Proof. by rewrite /uval /=; congr (_ %% _)%N; apply: Zp_cast. Qed.

Section Red.
Variable q : nat.
Hypothesis q_gt1 : (1 < q)%N.
Hypothesis q_dvd : (q %| n)%N.

Lemma red1 : red q 1%g = 1.
Proof. by []. Qed.

Lemma redM u v : red q (u * v)%g = red q u * red q v.
Proof. by rewrite /red uvalM natr_mod_dvd // natrM. Qed.

Lemma redX u k : red q (u ^+ k)%g = red q u ^+ k.
Proof. by elim: k => [|k IH]; rewrite ?expg0 ?expr0 // expgS exprS redM IH. Qed.

Lemma red_eq1 u : val u = 1 -> red q u = 1.
Proof. by rewrite -red_n; apply: natr_eq1_dvd. Qed.

Lemma red_eqN1 u : val u = -1 -> red q u = -1.
Proof. by rewrite -red_n; apply: natr_eqN1_dvd. Qed.

End Red.

(** two reductions modulo coprime factors determine the unit *)
Lemma red_inj2 n1 n2 u v : (1 < n1)%N -> (1 < n2)%N -> n = (n1 * n2)%N -> coprime n1 n2 ->
  red n1 u = red n1 v -> red n2 u = red n2 v -> u = v.
Proof.
move=> n1_gt1 n2_gt1 En co12 /eqP; rewrite eq_natr_mod // => E1 /eqP; rewrite eq_natr_mod // => E2.
apply: uval_inj; have := chinese_remainder co12 (uval u) (uval v).
by rewrite E1 E2 -En !modn_small ?uval_lt // => /eqP.
Qed.

(** a unit with prescribed reductions: x (coprime to n1) modulo n1, 1 modulo n2 *)
Lemma crt_unit_nat n1 n2 x : (1 < n1)%N -> (1 < n2)%N -> n = (n1 * n2)%N -> coprime n1 n2 -> coprime n1 x ->
  exists c : U, red n1 c = x%:R /\ red n2 c = 1.
Proof.
move=> n1_gt1 n2_gt1 En co12 co1x; pose y := chinese n1 n2 x 1.
have d1 : (n1 %| n)%N by rewrite En dvdn_mulr.
have d2 : (n2 %| n)%N by rewrite En dvdn_mull.
have Uy : (y%:R : 'Z_n) \is a GRing.unit.
  rewrite unitZpE // En coprimeMl -coprime_modr chinese_modl // coprime_modr co1x.
  by rewrite -(coprime_modr n2) chinese_modr // coprime_modr coprimen1.
exists (FinRing.unit 'Z_n Uy); rewrite /red /uval /= val_Zp_nat // !natr_mod_dvd //.
split; apply/eqP; rewrite ?(eq_natr_mod n1_gt1) ?(eq_natr_mod n2_gt1 _ 1).
  by rewrite chinese_modl.
by rewrite chinese_modr.
Qed.

Lemma crt_unit n1 n2 (b : U) : (1 < n1)%N -> (1 < n2)%N -> n = (n1 * n2)%N -> coprime n1 n2 ->
  exists c : U, red n1 c = red n1 b /\ red n2 c = 1.
Proof.
move=> n1_gt1 n2_gt1 En co12; apply: crt_unit_nat => //.
by have := uval_coprime b; rewrite En coprimeMl => /andP[].
Qed.

(** ** Subgroups cut out by power conditions *)

(** units whose m-th power reduces to +-1 modulo q *)
Definition Pm q m : {set U} := [set u | (red q u ^+ m == 1) || (red q u ^+ m == -1)].

Lemma Pm_group_set q m : (1 < q)%N -> (q %| n)%N -> group_set (Pm q m).
Proof.
move=> q1 qn; apply/group_setP; split; first by rewrite inE red1 expr1n eqxx.
move=> u v; rewrite !inE redM // exprMn => /orP[] /eqP-> /orP[] /eqP->.
- by rewrite mulr1 eqxx.
- by rewrite mul1r eqxx orbT.
- by rewrite mulr1 eqxx orbT.
- by rewrite mulrNN mulr1 eqxx.
Qed.
Definition PmG q m (q1 : (1 < q)%N) (qn : (q %| n)%N) : {group U} := Group (Pm_group_set m q1 qn).

(** units killed by the exponent e *)
Definition Rm e : {set U} := [set u | (u ^+ e == 1)%g].

Lemma Rm_group_set e : group_set (Rm e).
Proof.
apply/group_setP; split; first by rewrite inE expg1n.
move=> u v; rewrite !inE => /eqP Eu /eqP Ev.
by rewrite expgMn ?Eu ?Ev ?mulg1 //; apply: unit_Zp_mulgC.
Qed.
Definition RmG e : {group U} := Group (Rm_group_set e).

Lemma Rm_dvd e e' : (e %| e')%N -> Rm e \subset Rm e'.
Proof.
move=> /dvdnP[k ->]; apply/subsetP=> u; rewrite !inE => /eqP Eu.
by rewrite mulnC expgM Eu expg1n.
Qed.

Lemma Pm_sub_dvd q q' m : (1 < q)%N -> (1 < q')%N -> (q' %| q)%N -> Pm q m \subset Pm q' m.
Proof.
move=> q1 q'1 q'q; apply/subsetP=> u; rewrite !inE /red -!natrX.
case/orP=> /eqP E; apply/orP; [left|right]; apply/eqP.
  exact: natr_eq1_dvd E.
exact: natr_eqN1_dvd E.
Qed.

Lemma Pm_sub_Rm m : Pm n m \subset Rm (2 * m).
Proof.
apply/subsetP=> u; rewrite !inE red_n => H; apply/eqP; apply: val_inj.
rewrite FinRing.val_unitX FinRing.val_unit1 mulnC exprM.
by case/orP: H => /eqP->; rewrite ?expr1n // sqrrN expr1n.
Qed.

(** ** Splitting n = n1 * n2: a unit b with b^m = -1 yields c with c^m = (-1, 1) *)

Section Split.
Variables (n1 n2 m : nat) (b : U).
Hypothesis n1_gt2 : (2 < n1)%N.
Hypothesis n2_gt2 : (2 < n2)%N.
Hypothesis En : n = (n1 * n2)%N.
Hypothesis co12 : coprime n1 n2.
Hypothesis bm : val b ^+ m = -1.

Let n1_gt1 : (1 < n1)%N := ltnW n1_gt2.
Let n2_gt1 : (1 < n2)%N := ltnW n2_gt2.
Let d1 : (n1 %| n)%N. Proof. by rewrite En dvdn_mulr. Qed.
Let d2 : (n2 %| n)%N. Proof. by rewrite En dvdn_mull. Qed.

Lemma split_unit : exists c : U,
  [/\ red n1 c ^+ m = -1, red n2 c ^+ m = 1, c \in Rm (2 * m) & c \notin Pm n m].
Proof.
have [c [c1 c2]] := crt_unit b n1_gt1 n2_gt1 En co12.
have c1m : red n1 c ^+ m = -1.
  by rewrite c1 -redX //; apply: red_eqN1 => //; rewrite FinRing.val_unitX.
have c2m : red n2 c ^+ m = 1 by rewrite c2 expr1n.
exists c; split=> //.
  rewrite inE; apply/eqP; apply: (red_inj2 n1_gt1 n2_gt1 En co12).
    by rewrite redX // red1 mulnC exprM c1m sqrrN expr1n.
  by rewrite redX // red1 mulnC exprM c2m expr1n.
rewrite inE red_n -FinRing.val_unitX; apply/negP=> /orP[] /eqP E.
  have := red_eq1 n1_gt1 d1 E; rewrite redX // c1m => /eqP.
  by rewrite eq_sym (negbTE (one_neq_N1 n1_gt1 n1_gt2)).
have := red_eqN1 n2_gt1 d2 E; rewrite redX // c2m => /eqP.
by rewrite (negbTE (one_neq_N1 n2_gt1 n2_gt2)).
Qed.

(** the +-1 subgroup is proper, of index >= 2, in the group killed by 2m *)
Lemma split2_card : (2 * #|Pm n m| <= #|Rm (2 * m)|)%N.
Proof.
have [c [_ _ cR cP]] := split_unit.
exact: (@index2_card _ (PmG m n_gt1 (dvdnn n)) (RmG (2 * m)) c (Pm_sub_Rm m) cR cP).
Qed.

End Split.

End Units.
