(** * IdealW6Colon (C16, sixth wave): in an order O whose only multiplier ring is O itself, the product
      J = I * N (N = a (O : I)) has trivial colon: x J inside a O implies x in O.  Stdlib + lia. *)
From Coq Require Import ZArith List Lia Bool Znumtheory.
From RNT.Model Require Import Base LinAlg MultTable Ideal.
From RNT.Model Require Hnf.
From RNT.Refine Require Import MatZ HnfSpec HnfUnique HnfCanon IdealMul IdealSpec IdealLaws.
From RNT.Refine Require Import IdealW6Dual IdealW6Prod.
Import ListNotations.
Open Scope Z_scope.

(** [mult_ring_trivial t]: the order with table t is "completely integrally closed": if an element v / d of the
    algebra K = O (x) Q (v an integer coordinate vector, d > 0) maps a lattice H of full rank that is an O-module into
    itself, then v / d is in O.  For an order of a number field this is maximality: the multiplier ring
    { x : x H inside H } is an order containing O. *)
Definition mult_ring_trivial (t : table) : Prop :=
  forall (H : list (list Z)) (v : list Z) (d : Z),
    wf (length t) H -> closed_mult t H ->
    (exists s, s <> 0 /\ forall u, length u = length t -> In_rowspanZ (length t) (vscale s u) H) ->
    0 < d -> length v = length t ->
    (forall z, In_rowspanZ (length t) z H -> exists u, In_rowspanZ (length t) u H /\ bil t v z = vscale d u) ->
    dvd_vec d v.

(** the same at one given lattice H *)
Definition mult_ring_trivial_at (t : table) (H : list (list Z)) : Prop :=
  forall (v : list Z) (d : Z), 0 < d -> length v = length t ->
    (forall z, In_rowspanZ (length t) z H -> exists u, In_rowspanZ (length t) u H /\ bil t v z = vscale d u) ->
    dvd_vec d v.

Section ColonJ.
Variable t : table.
Let n := length t.
Hypothesis Ht : tshape t.
Hypothesis Hc : table_comm t = true.
Hypothesis Has : table_assoc t = true.
Hypothesis Hn : (1 <= n)%nat.
Hypothesis Hu : forall y, length y = n -> bil t y (unit_vec n 0) = y.
Variables (HI HN : list (list Z)) (a : Z).
Hypothesis WI : wf n HI.
Hypothesis WN : wf n HN.
Hypothesis Ha : a <> 0.
Hypothesis HNspec : forall v, In_rowspanZ n v HN <-> in_colon t a HI v.
Hypothesis HaI : In_rowspanZ n (scalar_vec n a) HI.

Let L := fun x y => bil_length t x y Ht.

(** N = a (O : I) is one of the lattices [mult_ring_trivial] speaks about *)
Lemma mult_ring_trivial_colon : mult_ring_trivial t -> mult_ring_trivial_at t HN.
Proof.
  intros Hmax v d Hd Lv Hv. apply (Hmax HN v d WN); auto.
  - apply (colon_closed t Ht Hc Has HI HN a); auto.
  - exists a. split; auto. intros u Lu. apply (colon_contains_scalars t Ht HI HN a); auto.
Qed.

Hypothesis HmaxN : mult_ring_trivial_at t HN.

Theorem colon_of_product_trivial v d :
  0 < d -> length v = n ->
  (forall j, In_rowspanZ n j (prod_rows t HI HN) -> dvd_vec (a * d) (bil t v j)) ->
  dvd_vec d v.
Proof.
  intros Hd Lv Hv.
  apply (HmaxN v d); auto.
  intros z Hz.
    assert (Lz : length z = n) by (apply (span_length n z HN); auto).
    (* products with members of I *)
    assert (P : forall y, In_rowspanZ n y HI -> dvd_vec (a * d) (bil t (bil t v z) y)).
    { intros y Hy. assert (Ly : length y = n) by (apply (span_length n y HI); auto).
      rewrite bil_assoc; auto. rewrite (bil_comm t z y); auto.
      apply Hv. apply prod_rows_member; auto. }
    (* d divides v z *)
    assert (D : dvd_vec d (bil t v z)).
    { specialize (P _ HaI). rewrite scalar_vec_scale, bil_scale_r in P by auto.
      rewrite Hu in P by (apply L). apply (dvd_vec_cancel a d); auto. }
    exists (map (fun x => x / d) (bil t v z)). split; [|apply dvd_vec_quot; auto; lia].
    apply HNspec. split; [rewrite map_length; apply L|].
    intros w Hw. specialize (P w Hw).
    rewrite (dvd_vec_quot d (bil t v z)) in P by (auto; lia).
    rewrite bil_scale_l in P by auto.
    intros j. specialize (P j). rewrite nth_vscale in P. destruct P as [k Hk]. exists k. nia.
Qed.
End ColonJ.
