(** * LinAlgList: what the list helpers of Model/LinAlg.v compute (no algebra).
    Two kinds of lemmas per helper: inversion of a normal return ([.. = Done r -> description of r])
    and totality under shape hypotheses. Style: stdlib + lia. *)
From RNT.Model Require Import Base Poly LinAlg.
From Coq Require Import Lia List Arith.
Import ListNotations.

Ltac bind_inv0 H :=
  match type of H with
  | bind ?e _ = _ =>
    let E := fresh "E" in
    let x := fresh "x" in
    destruct e as [x| |] eqn:E; cbn [bind] in H; [|discriminate H..]
  end.

Tactic Notation "bind_inv" hyp(H) := bind_inv0 H.
Tactic Notation "bind_inv" hyp(H) "as" ident(x) ident(E) :=
  match type of H with
  | bind ?e _ = _ =>
    destruct e as [x| |] eqn:E; cbn [bind] in H; [|discriminate H..]
  end.

Section Lists.
Context {A : Type}.
Implicit Types (l : list A) (i j k : nat).

Lemma nth_chk_inv l i x : nth_chk l i = Done x -> (i < length l)%nat /\ forall d, nth i l d = x.
Proof.
  unfold nth_chk. destruct (nth_error l i) eqn:E; [|discriminate].
  intros [= ->]. split.
  - apply nth_error_Some. congruence.
  - intros d. now apply nth_error_nth.
Qed.

Lemma nth_chk_lt l i d : (i < length l)%nat -> nth_chk l i = Done (nth i l d).
Proof.
  intros H. unfold nth_chk. destruct (nth_error l i) eqn:E.
  - now rewrite (nth_error_nth _ _ d E).
  - apply nth_error_None in E. lia.
Qed.

Lemma nth_chk_ge l i : (length l <= i)%nat -> nth_chk l i = Panic PIndex.
Proof. intros H. unfold nth_chk. apply nth_error_None in H. now rewrite H. Qed.

Lemma upd_length l i x : length (upd l i x) = length l.
Proof. revert i; induction l as [|y t IH]; intros [|i]; cbn; auto. Qed.

Lemma nth_upd_eq l i x d : (i < length l)%nat -> nth i (upd l i x) d = x.
Proof. revert i; induction l as [|y t IH]; intros [|i]; cbn; intros; try lia; auto. apply IH; lia. Qed.

Lemma nth_upd_neq l i k x d : k <> i -> nth k (upd l i x) d = nth k l d.
Proof.
  revert i k; induction l as [|y t IH]; intros [|i] [|k]; cbn; intros; try lia; auto.
Qed.

Lemma nth_upd l i k x d :
  nth k (upd l i x) d = if Nat.eqb k i && (i <? length l)%nat then x else nth k l d.
Proof.
  destruct (Nat.eqb_spec k i) as [->|Hn]; cbn [andb].
  - destruct (Nat.ltb_spec i (length l)).
    + now apply nth_upd_eq.
    + revert i H; induction l as [|y t IH]; intros [|i]; cbn; intros; try lia; auto. apply IH; lia.
  - now apply nth_upd_neq.
Qed.

Lemma upd_ge l i x : (length l <= i)%nat -> upd l i x = l.
Proof. revert i; induction l as [|y t IH]; intros [|i]; cbn; intros; try lia; auto. f_equal. apply IH. lia. Qed.

Lemma set_chk_inv l i x l' : set_chk l i x = Done l' -> (i < length l)%nat /\ l' = upd l i x.
Proof. unfold set_chk. destruct (Nat.ltb_spec i (length l)); [|discriminate]. now intros [= <-]. Qed.

Lemma swap_chk_inv l i j l' :
  swap_chk l i j = Done l' ->
  (i < length l)%nat /\ (j < length l)%nat /\ length l' = length l /\
  forall k d, nth k l' d = nth (if Nat.eqb k i then j else if Nat.eqb k j then i else k) l d.
Proof.
  unfold swap_chk. intros H. bind_inv H. bind_inv H. injection H as <-.
  apply nth_chk_inv in E as [Hi Ei]. apply nth_chk_inv in E0 as [Hj Ej].
  repeat split; auto.
  - now rewrite !upd_length.
  - intros k d. rewrite !nth_upd, !upd_length.
    destruct (Nat.eqb_spec k j) as [->|Hkj]; cbn [andb].
    + replace (j <? length l)%nat with true by (symmetry; apply Nat.ltb_lt; lia).
      destruct (Nat.eqb_spec j i) as [->|]; auto.
    + destruct (Nat.eqb_spec k i) as [->|Hki]; cbn [andb]; auto.
      replace (i <? length l)%nat with true by (symmetry; apply Nat.ltb_lt; lia). auto.
Qed.

Lemma swap_chk_total l i j : (i < length l)%nat -> (j < length l)%nat -> exists l', swap_chk l i j = Done l'.
Proof.
  intros Hi Hj. unfold swap_chk.
  destruct l as [|d0 t]; [cbn in Hi; lia|].
  rewrite (nth_chk_lt _ i d0 Hi), (nth_chk_lt _ j d0 Hj). cbn. eauto.
Qed.

Lemma mapM_inv {B} (f : A -> outcome B) l (l' : list B) :
  mapM f l = Done l' ->
  length l' = length l /\ forall k d d', (k < length l)%nat -> f (nth k l d) = Done (nth k l' d').
Proof.
  revert l'; induction l as [|x t IH]; cbn; intros l' H.
  - injection H as <-. split; auto. intros; cbn in *; lia.
  - bind_inv H. bind_inv H. injection H as <-.
    destruct (IH _ eq_refl) as [L N]. split; [cbn; congruence|].
    intros [|k] d d' Hk; cbn; auto. apply N. cbn in Hk. lia.
Qed.

Lemma mapM_total {B} (f : A -> outcome B) l :
  (forall x, In x l -> exists y, f x = Done y) -> exists l' : list B, mapM f l = Done l'.
Proof.
  induction l as [|x t IH]; cbn; intros H; eauto.
  destruct (H x (or_introl eq_refl)) as [y ->]. cbn.
  destruct IH as [t' ->]; eauto. cbn. eauto.
Qed.

Lemma nth_skipn l i k d : nth k (skipn i l) d = nth (i + k) l d.
Proof. revert l; induction i as [|i IH]; intros [|x t]; cbn; auto. now destruct k. Qed.

Lemma nth_firstn_app l l2 i k d :
  (i <= length l)%nat ->
  nth k (firstn i l ++ l2) d = if (k <? i)%nat then nth k l d else nth (k - i) l2 d.
Proof.
  intros Hi. destruct (Nat.ltb_spec k i).
  - rewrite app_nth1 by (rewrite firstn_length; lia).
    revert l i Hi H. induction k; intros [|x t] [|i]; cbn; intros; try lia; auto. apply IHk; lia.
  - rewrite app_nth2 by (rewrite firstn_length; lia). rewrite firstn_length. f_equal. lia.
Qed.

End Lists.

(** ** row walks *)
Section Field.
Context {T : Type} (F : field_ops T).
Notation R := (fr F).
Implicit Types (r s t : list T).

Lemma zip_from_inv cnt k g s r t :
  zip_from cnt k g s r = Done t ->
  (cnt <= length s)%nat /\ (cnt <= length r)%nat /\ length t = length r /\
  forall q d, nth q t d = if (q <? cnt)%nat then g (k + q)%nat (nth q r d) (nth q s d) else nth q r d.
Proof.
  revert k s r t; induction cnt as [|c IH]; intros k s r t H; cbn in H.
  - injection H as <-. repeat split; try lia.
  - destruct s as [|y s']; [discriminate|]. destruct r as [|x r']; [discriminate|].
    bind_inv H. injection H as <-. apply IH in E as (L1 & L2 & L3 & N).
    cbn [length]. repeat split; try lia.
    intros [|q] d; cbn [nth].
    + now rewrite Nat.add_0_r.
    + rewrite N. replace (S k + q)%nat with (k + S q)%nat by lia.
      destruct (Nat.ltb_spec q c), (Nat.ltb_spec (S q) (S c)); auto; lia.
Qed.

Lemma zip_from_total cnt k g s r :
  (cnt <= length s)%nat -> (cnt <= length r)%nat -> exists t, zip_from cnt k g s r = Done t.
Proof.
  revert k s r; induction cnt as [|c IH]; intros k s r Hs Hr; cbn; eauto.
  destruct s as [|y s']; [cbn in Hs; lia|]. destruct r as [|x r']; [cbn in Hr; lia|].
  destruct (IH (S k) s' r') as [t ->]; cbn in *; try lia. eauto.
Qed.

Lemma zip_range_inv lo cnt g s r t :
  zip_range lo cnt g s r = Done t ->
  (cnt = 0 \/ (lo + cnt <= length s /\ lo + cnt <= length r))%nat /\ length t = length r /\
  forall q d, nth q t d =
    if ((lo <=? q) && (q <? lo + cnt))%nat then g q (nth q r d) (nth q s d) else nth q r d.
Proof.
  unfold zip_range. destruct cnt as [|c].
  - intros [= <-]. repeat split; auto. intros q d.
    destruct (Nat.leb_spec lo q), (Nat.ltb_spec q (lo + 0)); cbn; auto; lia.
  - intros H. bind_inv H. injection H as <-.
    apply zip_from_inv in E as (L1 & L2 & L3 & N).
    rewrite skipn_length in L1, L2, L3.
    assert (Hlo : (lo <= length r)%nat) by lia.
    repeat split.
    + right. lia.
    + rewrite app_length, firstn_length. lia.
    + intros q d. rewrite nth_firstn_app by lia.
      destruct (Nat.ltb_spec q lo).
      * destruct (Nat.leb_spec lo q); cbn; auto; lia.
      * rewrite N, !nth_skipn. replace (lo + (q - lo))%nat with q by lia.
        destruct (Nat.leb_spec lo q); try lia. cbn [andb].
        destruct (Nat.ltb_spec (q - lo) (S c)), (Nat.ltb_spec q (lo + S c)); auto; lia.
Qed.

Lemma zip_range_total lo cnt g s r :
  (lo + cnt <= length s)%nat -> (lo + cnt <= length r)%nat -> exists t, zip_range lo cnt g s r = Done t.
Proof.
  intros Hs Hr. unfold zip_range. destruct cnt as [|c]; eauto.
  destruct (zip_from_total (S c) lo g (skipn lo s) (skipn lo r)) as [t ->];
    rewrite ?skipn_length; try lia. cbn. eauto.
Qed.

Lemma upd_range_inv lo cnt f r t :
  upd_range lo cnt f r = Done t ->
  (cnt = 0 \/ lo + cnt <= length r)%nat /\ length t = length r /\
  forall q d, nth q t d = if ((lo <=? q) && (q <? lo + cnt))%nat then f (nth q r d) else nth q r d.
Proof.
  unfold upd_range. intros H. apply zip_range_inv in H as (L1 & L2 & N).
  repeat split; auto. lia.
Qed.

Lemma upd_range_total lo cnt f r :
  (lo + cnt <= length r)%nat -> exists t, upd_range lo cnt f r = Done t.
Proof. intros. now apply zip_range_total. Qed.

(** pivot searches *)
Lemma find_in_col_inv c j rows o :
  find_in_col F c j rows = Done o ->
  match o with
  | None => forall q, (q < length rows)%nat -> is0 R (nth c (nth q rows []) (r0 R)) = true
  | Some idx =>
    (j <= idx < j + length rows)%nat /\
    (c < length (nth (idx - j) rows []))%nat /\
    is0 R (nth c (nth (idx - j) rows []) (r0 R)) = false /\
    forall q, (q < idx - j)%nat -> is0 R (nth c (nth q rows []) (r0 R)) = true
  end.
Proof.
  revert j o; induction rows as [|r rs IH]; intros j o H; cbn in H.
  - injection H as <-. cbn. intros; lia.
  - bind_inv H. apply nth_chk_inv in E as [Hc Ex].
    destruct (is0 R x) eqn:Z.
    + apply IH in H. destruct o as [idx|].
      * destruct H as (B & L & NZ & Zs). cbn [length].
        replace (idx - j)%nat with (S (idx - S j)) by lia. cbn [nth].
        repeat split; try lia; auto.
        intros [|q] Hq; cbn [nth]; [now rewrite Ex|]. apply Zs. lia.
      * intros [|q] Hq; cbn [nth]; [now rewrite Ex|]. apply H. cbn in Hq. lia.
    + injection H as <-. rewrite Nat.sub_diag. cbn [nth length].
      repeat split; try lia; auto; try (now rewrite Ex); try (intros; lia).
Qed.

Lemma find_in_col_total c j rows :
  (forall r, In r rows -> (c < length r)%nat) -> exists o, find_in_col F c j rows = Done o.
Proof.
  revert j; induction rows as [|r rs IH]; intros j H; cbn; eauto.
  rewrite (nth_chk_lt r c (r0 R)) by (apply H; now left). cbn.
  destruct (is0 R _); eauto. apply IH. intros; apply H; now right.
Qed.

Lemma find_in_row_inv cnt i r o :
  find_in_row F cnt i r = Done o ->
  match o with
  | None => (cnt <= length r)%nat /\ forall q, (q < cnt)%nat -> is0 R (nth q r (r0 R)) = true
  | Some idx =>
    (i <= idx < i + cnt)%nat /\ (idx - i < length r)%nat /\
    is0 R (nth (idx - i) r (r0 R)) = false /\
    forall q, (q < idx - i)%nat -> is0 R (nth q r (r0 R)) = true
  end.
Proof.
  revert i r o; induction cnt as [|c IH]; intros i r o H; cbn in H.
  - injection H as <-. split; [lia|]. intros; lia.
  - destruct r as [|x t]; [discriminate|].
    destruct (is0 R x) eqn:Z.
    + apply IH in H. destruct o as [idx|].
      * destruct H as (B & L & NZ & Zs). cbn [length].
        replace (idx - i)%nat with (S (idx - S i)) by lia. cbn [nth].
        repeat split; try lia; auto.
        intros [|q] Hq; cbn [nth]; auto. apply Zs. lia.
      * destruct H as [L Zs]. split; [cbn; lia|].
        intros [|q] Hq; cbn [nth]; auto. apply Zs. lia.
    + injection H as <-. rewrite Nat.sub_diag. cbn [nth length].
      repeat split; try lia; auto; try (intros; lia).
Qed.

Lemma find_in_row_total cnt i r :
  (cnt <= length r)%nat -> exists o, find_in_row F cnt i r = Done o.
Proof.
  revert i r; induction cnt as [|c IH]; intros i r H; cbn; eauto.
  destruct r as [|x t]; [cbn in H; lia|]. destruct (is0 R x); eauto. apply IH. cbn in H. lia.
Qed.

End Field.
