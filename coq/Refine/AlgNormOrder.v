(** * AlgNormOrder: a table returned by [Order::get_mult_table] is commutative and
    associative (C14; discharges the table hypotheses of C16 for tables that come from orders).

    From [table_mul_agrees] (TableAgrees.v): coordinates of [mul x y] are those of the product
    in Q[x]/(f); coordinates are injective because the basis matrix is invertible (the
    [solve_linear_system] calls of [get_mult_table] succeeded; for [n = 0] there is nothing to
    show).  Style: ssreflect/MathComp, polynomials over [QcRing]; the matrix fact comes in
    through the neutral statement [AlgNormMx.qdot_inj]. *)
From RNT.Model Require Import Base Poly Algebraic LinAlg MultTable Order.
From Coq Require Import QArith Qcanon.
From mathcomp Require Import all_ssreflect ssralg poly polydiv.
From mathcomp Require Import ssrZ zify ring.
From RNT.Refine Require Import QcRing PolyRefine PolyDiv PolyZ PolyQ AlgMul AlgQuot MultTableOps MultTableGet TableAgrees.
From RNT.Refine Require OrderSolve LinAlgQc AlgNormMx.
Set Implicit Arguments.
Unset Strict Implicit.
Unset Printing Implicit Defensive.
Import GRing.Theory.
Local Open Scope ring_scope.

Section OrderTable.
Variables (f : seq Z) (n : nat).
Hypothesis cf : canonZ f.
Hypothesis szf : size f = n.+1.
Variable b : seq (seq Qc).
Hypothesis sb : size b = n.
Hypothesis rb : forall i, (i < n)%N -> size (nth [::] b i) = n.
Variable t : table.
Hypothesis gt : get_mult_table b f = Done t.
Let F := Fq f.

Notation tmul := (AlgNormMx.tmul t n).

Lemma nth_map_qz (v : seq Z) k : nth 0 (map qz v) k = qz (nth 0%Z v k).
Proof.
case: (ltnP k (size v)) => hk; first by rewrite (nth_map 0%Z).
by rewrite !nth_default ?size_map.
Qed.

(** a rational coordinate vector of the zero element is zero *)
Lemma of_coords_eq0 (x : seq Qc) : (0 < n)%N -> of_coords n b x = 0 ->
  forall k, (k < n)%N -> nth 0 x k = 0.
Proof.
move=> n0 e0 k hk.
have [_ h] := get_mult_table_inv _ _ _ gt.
move: h; rewrite !Llength_eq sb => h.
have [_ [prod [inv [_ [hs _]]]]] := h 0%N 0%N (ltP n0) (ltP n0).
have := @AlgNormMx.qdot_inj b _ inv x hs.
rewrite !Llength_eq sb => hx; rewrite -Lnth_eq; apply: hx => // j hj.
by rewrite qdot_coef -/(of_coords n b x) e0 coef0.
Qed.

(** integer coordinates are determined by the element *)
Lemma of_coords_inj (x y : seq Z) : size x = n -> size y = n ->
  of_coords n b (map qz x) = of_coords n b (map qz y) -> x = y.
Proof.
move=> sx sy e.
case: (posnP n) => [n0|n0].
  by move: sx sy; rewrite n0 => /size0nil -> /size0nil ->.
apply: (@eq_from_nth _ 0%Z); rewrite sx // => k hk.
pose z : seq Qc := mkseq (fun k => qz (nth 0%Z x k) - qz (nth 0%Z y k)) n.
have ez : of_coords n b z = 0.
  rewrite -(subrr (of_coords n b (map qz y))) -{1}e /of_coords -sumrB.
  apply: eq_big_seq => i; rewrite mem_iota add0n => /andP[_ hi].
  by rewrite nth_mkseq // !nth_map_qz scalerBl.
have := of_coords_eq0 n0 ez hk; rewrite nth_mkseq // => /eqP.
by rewrite subr_eq0 => /eqP /qz_inj.
Qed.

Lemma ct : cube n t. Proof. exact: (table_cube cf szf sb rb gt). Qed.

(** the coordinates of [x * y] *)
Lemma tmul_agrees (x y : seq Z) : size x = n -> size y = n ->
  of_coords n b (map qz (tmul x y))
  = (of_coords n b (map qz x) * of_coords n b (map qz y)) %% F.
Proof.
move=> sx sy; have [z] := table_mul_agrees cf szf sb rb gt Checked sx sy.
by rewrite (AlgNormMx.mt_mul_tmul Checked ct sx sy) => -[<-] [_].
Qed.

Theorem order_tcomm : AlgNormMx.tcomm t n.
Proof.
move=> x y sx sy; apply: of_coords_inj; rewrite ?AlgNormMx.size_tmul //.
by rewrite !tmul_agrees // mulrC.
Qed.

Theorem order_tassoc : AlgNormMx.tassoc t n.
Proof.
move=> x y z sx sy sz; apply: of_coords_inj; rewrite ?AlgNormMx.size_tmul //.
rewrite !tmul_agrees ?AlgNormMx.size_tmul //.
by rewrite modp_mul2 modp_mul mulrA.
Qed.

(** [P] in terms of the model's [mul] (both build profiles) *)
Theorem order_table_comm m (x y : seq Z) : size x = n -> size y = n ->
  exists2 z, mt_mul m t x y = Done z & mt_mul m t y x = Done z.
Proof.
move=> sx sy; exists (tmul x y); rewrite (AlgNormMx.mt_mul_tmul m ct) //.
by rewrite order_tcomm.
Qed.

Theorem order_table_assoc m (x y z : seq Z) : size x = n -> size y = n -> size z = n ->
  exists xy yz r, [/\ mt_mul m t x y = Done xy, mt_mul m t xy z = Done r,
                      mt_mul m t y z = Done yz & mt_mul m t x yz = Done r].
Proof.
move=> sx sy sz; exists (tmul x y), (tmul y z), (tmul (tmul x y) z).
rewrite !(AlgNormMx.mt_mul_tmul m ct) ?AlgNormMx.size_tmul //; split=> //.
by rewrite order_tassoc.
Qed.

End OrderTable.

(** ** consequences for tables of orders: the boolean flags of C16, multiplicativity of the
    norm, the trace as the trace of the representation matrix *)
From mathcomp Require Import matrix.
From RNT.Model Require Ideal.
From RNT.Refine Require AlgNormFlags IdealLaws.

Section OrderTop.
Variables (f : seq Z) (n : nat).
Hypothesis cf : canonZ f.
Hypothesis szf : size f = n.+1.
Variable b : seq (seq Qc).
Hypothesis sb : size b = n.
Hypothesis rb : forall i, (i < n)%N -> size (nth [::] b i) = n.
Variable t : table.
Hypothesis gt : get_mult_table b f = Done t.

Let ctt : cube n t := ct cf szf sb rb gt.
Let hc : AlgNormMx.tcomm t n := order_tcomm cf szf sb rb gt.
Let ha : AlgNormMx.tassoc t n := order_tassoc cf szf sb rb gt.

Theorem order_table_flags :
  [/\ Ideal.table_shape t = true, Ideal.table_comm t = true & IdealLaws.table_assoc t = true].
Proof.
split; first exact: (AlgNormFlags.cube_table_shape ctt).
  exact: (AlgNormFlags.tcomm_flag ctt hc).
exact: (AlgNormFlags.tassoc_flag ctt ha).
Qed.

Theorem order_norm_mul m (x y : seq Z) : size x = n -> size y = n ->
  exists xy nx ny, [/\ mt_mul m t x y = Done xy, mt_norm t x = Done nx, mt_norm t y = Done ny
                     & mt_norm t xy = Done (nx * ny)].
Proof. exact: (AlgNormMx.mt_norm_mul m ctt ha). Qed.

Theorem order_trace (x : seq Z) : size x = n ->
  mt_trace t x = Done (\tr (AlgNormMx.Mrep t n x)).
Proof. exact: (AlgNormMx.mt_trace_Mrep ctt hc). Qed.

End OrderTop.
