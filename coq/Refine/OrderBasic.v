(** First facts about the order model (stdlib style). *)
From RNT.Model Require Import Base Poly Algebraic LinAlg MultTable Order.
From Coq Require Import QArith Qcanon.
Open Scope Z_scope.

(** [P] [from_basis] is [hnf_reduce]. *)
Lemma from_basis_hnf_reduce b : from_basis b = hnf_reduce b.
Proof. reflexivity. Qed.
