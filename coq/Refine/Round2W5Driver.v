(** Round 2 driver, fifth wave (C06): the theorems about [find_integral_basis] for ALL f with non-zero leading
    coefficient (monic or not), without the flag "the starting order is computed and closed under multiplication":
    that flag always holds (Round2W5Start: Dedekind's order Z[theta] cap Z[1/theta]).  stdlib + lia. *)
From RNT.Model Require Import Base Poly Algebraic LinAlg MultTable Order Round2.
From RNT.Model Require Hnf Elementary Resultant.
From RNT.Refine Require Import MatZ Round2Basic Round2Index Round2Lattice Round2Det Round2Fuel.
From RNT.Refine Require Import Round2W3Radical Round2W3Driver Round2W3Start Round2W4NoPanic Round2W4PZ Round2W4Max.
From RNT.Refine Require Round2W5Start PolyZ TrialDivProofs OrderW3Span.
From Coq Require Import Lia Znumtheory QArith Qcanon.
Open Scope Z_scope.

(** [P] non_monic_start_is_order: for every f of degree >= 1 with non-zero leading coefficient (a canonical
    coefficient list: no trailing zero), [non_monic_initial_order f] returns a stored basis of a lattice that
    contains 1 and on which [Order::get_mult_table] returns: Z + Z w_1 + .. + Z w_(n-1),
    w_i = a_n theta^i + .. + a_(n-i+1) theta, is an order *)
Theorem non_monic_start_is_order f deg :
  PolyZ.canonZ f = true -> length f = S deg -> (1 <= deg)%nat ->
  exists o0, non_monic_initial_order f = Done o0 /\ is_order f deg o0.
Proof.
  intros Cf Lf D1.
  destruct (@Round2W5Start.non_monic_total_list f deg Cf Lf D1) as [o0 N0].
  destruct (@Round2W5Start.non_monic_start_table_list f deg o0 Cf Lf D1 N0) as [T0 GT0].
  exists o0. split; [assumption|]. apply (start_is_order f deg o0 T0); assumption.
Qed.

(** the flag of the [C] theorems *)
Theorem non_monic_flag f deg :
  PolyZ.canonZ f = true -> length f = S deg -> (1 <= deg)%nat ->
  exists o0 T0, non_monic_initial_order f = Done o0 /\ get_mult_table o0 f = Done T0.
Proof.
  intros Cf Lf D1.
  destruct (@Round2W5Start.non_monic_total_list f deg Cf Lf D1) as [o0 N0].
  destruct (@Round2W5Start.non_monic_start_table_list f deg o0 Cf Lf D1 N0) as [T0 GT0]. eauto.
Qed.

Theorem non_monic_start_table f deg o0 :
  PolyZ.canonZ f = true -> length f = S deg -> (1 <= deg)%nat ->
  non_monic_initial_order f = Done o0 -> exists T0, get_mult_table o0 f = Done T0.
Proof. intros Cf Lf D1. apply (@Round2W5Start.non_monic_start_table_list f deg o0); assumption. Qed.

(** [P] find_integral_basis_order: the driver on any f, without flag.  The starting order is computed and is an
    order; if the driver returns, the result is an order; every panic of the driver is a panic of
    [o.discriminant(theta)], of the trial factorisation (discriminant 0), or the u64 overflow of the exponent
    bookkeeping. *)
Theorem find_integral_basis_order_all m f deg :
  PolyZ.canonZ f = true -> length f = S deg -> (1 <= deg)%nat ->
  exists o0, non_monic_initial_order f = Done o0 /\ is_order f deg o0 /\
    match find_integral_basis m f with
    | Done om => is_order f deg om
    | Panic t =>
        order_disc m o0 f = Panic t \/
        exists disc, order_disc m o0 f = Done disc /\
          (Elementary.trial_factorize (Z.abs disc) = Panic t \/ t = POverflow)
    | OutOfFuel => True
    end.
Proof.
  intros Cf Lf D1.
  destruct (non_monic_start_is_order f deg Cf Lf D1) as [o0 [N0 IO0]].
  exists o0. split; [assumption|]. split; [assumption|].
  pose proof (find_integral_basis_order m f deg Cf Lf D1
                (fun o N => non_monic_start_table f deg o Cf Lf D1 N)) as H.
  destruct (find_integral_basis m f) as [om|t|]; [assumption| |exact I].
  destruct H as [H|[o1 [N1 H]]]; [rewrite N0 in H; discriminate|].
  rewrite N0 in N1. injection N1 as <-. exact H.
Qed.

(** [P] find_integral_basis_no_panic: for every f of degree deg >= 1 (2 deg < 2^64) with non-zero leading
    coefficient whose starting order has a non-zero discriminant of fewer than 2^64 bits, in both build profiles
    the driver returns an order *)
Theorem find_integral_basis_no_panic m f deg :
  PolyZ.canonZ f = true -> length f = S deg -> (1 <= deg)%nat -> 2 * Z.of_nat deg < two64 ->
  (forall o0 d0, non_monic_initial_order f = Done o0 -> order_disc m o0 f = Done d0 ->
     d0 <> 0 /\ Z.log2 (Z.abs d0) < two64) ->
  exists O, find_integral_basis m f = Done O /\ is_order f deg O.
Proof.
  intros Cf Lf D1 Small Hd.
  destruct (find_integral_basis_p_maximal_flag m f deg Cf Lf D1 Small (non_monic_flag f deg Cf Lf D1) Hd)
    as [O [F [IO _]]].
  exists O. split; assumption.
Qed.

(** [P] find_integral_basis_p_maximal_all / find_integral_basis_maximal_all *)
Theorem find_integral_basis_p_maximal_all m f deg :
  PolyZ.canonZ f = true -> length f = S deg -> (1 <= deg)%nat -> 2 * Z.of_nat deg < two64 ->
  (forall o0 d0, non_monic_initial_order f = Done o0 -> order_disc m o0 f = Done d0 ->
     d0 <> 0 /\ Z.log2 (Z.abs d0) < two64) ->
  exists O, find_integral_basis m f = Done O /\ is_order f deg O /\
            forall p, prime p -> p_maximal f deg p O.
Proof.
  intros Cf Lf D1 Small Hd.
  apply find_integral_basis_p_maximal_flag; try assumption. apply (non_monic_flag f deg); assumption.
Qed.

Theorem find_integral_basis_maximal_all m f deg :
  PolyZ.canonZ f = true -> length f = S deg -> (1 <= deg)%nat -> 2 * Z.of_nat deg < two64 ->
  (forall o0 d0, non_monic_initial_order f = Done o0 -> order_disc m o0 f = Done d0 ->
     d0 <> 0 /\ Z.log2 (Z.abs d0) < two64) ->
  exists O, find_integral_basis m f = Done O /\ is_order f deg O /\
    forall o2, over_order f deg O o2 ->
      (order_index o2 O = Done 1 \/ order_index o2 O = Done (-1)) /\
      forall t, (t < deg)%nat -> in_spanQ deg (nth t o2 []) O.
Proof.
  intros Cf Lf D1 Small Hd.
  apply find_integral_basis_maximal_flag; try assumption. apply (non_monic_flag f deg); assumption.
Qed.

(** [P] the generators themselves: [Order::get_mult_table] returns on the rows written by
    [non_monic_initial_order] before [hnf_reduce] *)
Theorem nm_rows_table f deg :
  PolyZ.canonZ f = true -> length f = S deg -> (1 <= deg)%nat ->
  exists T, get_mult_table (OrderW3Span.nm_rows f deg) f = Done T.
Proof. exact (@Round2W5Start.nm_rows_table_list f deg). Qed.
