(** * Rabin-Monier, part 2: the three cases and the bound on the number of strong liars among the units of Z/n
    (MathComp style; natural numbers only, no model). *)
From mathcomp Require Import all_ssreflect all_fingroup.
From mathcomp Require Import ssralg finalg zmodp cyclic abelian pgroup.
From mathcomp Require Import zify.
From RNT.Refine Require Import RabinMonierGroup.
Set Implicit Arguments.
Unset Strict Implicit.
Unset Printing Implicit Defensive.
Import GroupScope GRing.Theory.
Local Open Scope ring_scope.

Lemma card_units_le n (A : {set {unit 'Z_n}}) : (0 < n)%N -> (#|A| <= totient n)%N.
Proof. by move=> n_gt0; rewrite -(card_units_Zp n_gt0); apply: subset_leq_card; apply: subsetT. Qed.

(** ** Case A: three pairwise coprime factors: the +-1 subgroup has index >= 4 *)

Section Three.
Variables (n n1 n2 n3 m : nat) (b : {unit 'Z_n}).
Hypothesis n_gt1 : (1 < n)%N.
Hypothesis n1_gt2 : (2 < n1)%N.
Hypothesis n2_gt2 : (2 < n2)%N.
Hypothesis n3_gt2 : (2 < n3)%N.
Hypothesis En : n = (n1 * n2 * n3)%N.
Hypothesis co12 : coprime n1 n2.
Hypothesis co13 : coprime n1 n3.
Hypothesis co23 : coprime n2 n3.
Hypothesis bm : val b ^+ m = -1.

Lemma three_card : (4 * #|Pm n n m| <= totient n)%N.
Proof.
have n1_gt1 : (1 < n1)%N := ltnW n1_gt2.
have n2_gt1 : (1 < n2)%N := ltnW n2_gt2.
have n12_gt2 : (2 < n1 * n2)%N.
  by apply: leq_trans n1_gt2 _; rewrite leq_pmulr // ltnW.
have n12_gt1 : (1 < n1 * n2)%N := ltnW n12_gt2.
have n23_gt2 : (2 < n2 * n3)%N.
  by apply: leq_trans n2_gt2 _; rewrite leq_pmulr // ltnW // ltnW.
have n23_gt1 : (1 < n2 * n3)%N := ltnW n23_gt2.
have d12 : (n1 * n2 %| n)%N by rewrite En dvdn_mulr.
have d1 : (n1 %| n)%N by rewrite En -mulnA dvdn_mulr.
have d1_12 : (n1 %| n1 * n2)%N by rewrite dvdn_mulr.
have d2_12 : (n2 %| n1 * n2)%N by rewrite dvdn_mull.
have d2_23 : (n2 %| n2 * n3)%N by rewrite dvdn_mulr.
have co12_3 : coprime (n1 * n2) n3 by rewrite coprimeMl co13 co23.
have co1_23 : coprime n1 (n2 * n3) by rewrite coprimeMr co12 co13.
(* first step: Pm n < Pm (n1 n2) *)
have [c [c12 _ _ cP]] := split_unit n_gt1 n12_gt2 n3_gt2 En co12_3 bm.
have cP12 : c \in Pm n (n1 * n2) m by rewrite inE c12 eqxx orbT.
have S1 := @index2_card _ (PmG n_gt1 m n_gt1 (dvdnn n)) (PmG n_gt1 m n12_gt1 d12) c
             (Pm_sub_dvd n m n_gt1 n12_gt1 d12) cP12 cP.
(* second step: Pm (n1 n2) < Pm n1 *)
have En' : n = (n1 * (n2 * n3))%N by rewrite mulnA.
have [c' [c'1 c'23 _ _]] := split_unit n_gt1 n1_gt2 n23_gt2 En' co1_23 bm.
have c'P1 : c' \in Pm n n1 m by rewrite inE c'1 eqxx orbT.
have c'2 : red n2 c' ^+ m = 1.
  by move: c'23; rewrite /red -!natrX; apply: natr_eq1_dvd.
have c'P12 : c' \notin Pm n (n1 * n2) m.
  rewrite inE; apply/negP=> /orP[] /eqP; rewrite /red -natrX => E.
    have := natr_eq1_dvd n12_gt1 n1_gt1 d1_12 E; rewrite natrX -/(red n1 c') c'1 => /eqP.
    by rewrite eq_sym (negbTE (one_neq_N1 n1_gt1 n1_gt2)).
  have := natr_eqN1_dvd n12_gt1 n2_gt1 d2_12 E; rewrite natrX -/(red n2 c') c'2 => /eqP.
  by rewrite (negbTE (one_neq_N1 n2_gt1 n2_gt2)).
have S2 := @index2_card _ (PmG n_gt1 m n12_gt1 d12) (PmG n_gt1 m n1_gt1 d1) c'
             (Pm_sub_dvd n m n12_gt1 n1_gt1 d1_12) c'P1 c'P12.
have S3 : (#|Pm n n1 m| <= totient n)%N by apply: card_units_le; apply: ltnW.
rewrite /= in S1 S2.
apply: leq_trans S3; apply: leq_trans S2.
by rewrite -[4%N]/(2 * 2)%N -mulnA leq_mul2l /=.
Qed.

End Three.

(** ** Case B: a prime p with p^(j+1) | n and an exponent e prime to p: the units killed by e number at most phi(n) / p^j *)

Lemma totient_pdvd n p j : prime p -> (0 < n)%N -> (p ^ j.+1 %| n)%N -> (p ^ j %| totient n)%N.
Proof.
move=> p_pr n_gt0 pjn.
have [n' cop En] := pfactor_coprime p_pr n_gt0.
have jk : (j < logn p n)%N by rewrite -pfactor_dvdn.
have k_gt0 : (0 < logn p n)%N by apply: leq_ltn_trans jk.
rewrite En totient_coprime; last by rewrite coprime_sym coprimeXl.
rewrite totient_pfactor // dvdn_mull // dvdn_mull // dvdn_exp2l //.
by rewrite -ltnS prednK.
Qed.

Lemma Rm_pprime_card n e p j : (1 < n)%N -> prime p -> coprime e p -> (p ^ j.+1 %| n)%N ->
  (#|Rm n e| * p ^ j <= totient n)%N.
Proof.
move=> n_gt1 p_pr cop pjn.
have n_gt0 : (0 < n)%N := ltnW n_gt1.
have pR : p^'.-group (RmG n e).
  rewrite -pnat_exponent; apply: (@pnat_dvd _ e).
    by apply/exponentP=> u; rewrite inE => /eqP.
  by rewrite p'natE // -prime_coprime // coprime_sym.
have copR : coprime #|Rm n e| (p ^ j).
  apply: coprimeXr; rewrite coprime_sym prime_coprime // -p'natE //.
have d1 : (#|Rm n e| %| totient n)%N.
  by rewrite -(card_units_Zp n_gt0); apply: (@cardSg _ _ (RmG n e)); apply: subsetT.
have d2 := totient_pdvd p_pr n_gt0 pjn.
by rewrite dvdn_leq ?totient_gt0 // Gauss_dvd // d1 d2.
Qed.

(** ** Case C: n = p q with p < q primes: some unit is not a Fermat liar *)

Lemma pred_mul_pred p q : (0 < p)%N -> (0 < q)%N -> (p * q).-1 = (p * q.-1 + p.-1)%N.
Proof.
case: p => // p; case: q => // q _ _.
by rewrite mulnS addSn -!pred_Sn addnC.
Qed.

Lemma nonfermat_unit p q : prime p -> prime q -> (p < q)%N ->
  exists g : {unit 'Z_(p * q)}, (g ^+ (p * q).-1 != 1)%g.
Proof.
move=> p_pr q_pr p_lt_q.
have p_gt1 := prime_gt1 p_pr; have q_gt1 := prime_gt1 q_pr.
have n_gt1 : (1 < p * q)%N by rewrite -[1%N]/(1 * 1)%N ltn_mul.
have /cyclicP[x Ex] := field_unit_group_cyclic [set: {unit 'F_q}].
have ox : #[x]%g = q.-1.
  rewrite orderE -Ex (@card_units_Zp (pdiv q)) ?pdiv_gt0 // pdiv_id //.
  by rewrite -[q in totient q]expn1 totient_pfactor // muln1.
pose g0 : nat := val (val x).
have g0E : (g0%:R : 'F_q) = val x by rewrite /g0 natr_Zp.
have co_g0 : coprime q g0 by rewrite -(unitFpE q_pr) g0E (valP x).
have En : (p * q = q * p)%N by rewrite mulnC.
have cqp : coprime q p.
  by rewrite prime_coprime // dvdn_prime2 // neq_ltn p_lt_q orbT.
have [g [gq _]] := crt_unit_nat n_gt1 q_gt1 p_gt1 En cqp co_g0.
exists g; apply/negP=> /eqP Eg.
have dq : (q %| p * q)%N by rewrite dvdn_mull.
have : red q (g ^+ (p * q).-1)%g = 1 by rewrite Eg.
rewrite redX // gq -natrX => /eqP; rewrite natr_eq1 // => /eqP E1.
have : (x ^+ (p * q).-1 == 1)%g.
  rewrite -val_eqE /= FinRing.val_unitX -g0E -natrX -val_eqE /= val_Fp_nat // E1.
  by [].
rewrite -order_dvdn ox pred_mul_pred ?prime_gt0 // dvdn_addr ?dvdn_mull //.
move/dvdn_leq => H; have : (q.-1 <= p.-1)%N by apply: H; lia.
lia.
Qed.

(** ** The shape of an odd composite number *)

Lemma odd_gt2 k : odd k -> (1 < k)%N -> (2 < k)%N.
Proof. by case: k => [|[|[|k]]]. Qed.

Lemma odd_composite_cases n : (1 < n)%N -> odd n -> ~~ prime n ->
  [\/ exists p, [/\ prime p, odd p & (p ^ 2 %| n)%N],
      exists p q, [/\ prime p, prime q, (p < q)%N, odd p /\ odd q & n = (p * q)%N] |
      exists n1 n2 n3, [/\ n = (n1 * n2 * n3)%N, [/\ (2 < n1)%N, (2 < n2)%N & (2 < n3)%N],
                           coprime n1 n2, coprime n1 n3 & coprime n2 n3]].
Proof.
move=> n_gt1 n_odd n_npr.
have n_gt0 := ltnW n_gt1.
pose p := pdiv n; have p_pr : prime p := pdiv_prime n_gt1.
have p_dvd : (p %| n)%N := pdiv_dvd n.
pose n' := (n %/ p)%N; have En : n = (p * n')%N by rewrite mulnC divnK.
have [p_odd n'_odd] : odd p /\ odd n' by apply/andP; rewrite -oddM -En.
have n'_gt1 : (1 < n')%N.
  case: n' En n'_odd => [|[|//]] //.
  by rewrite muln1 => E; move: n_npr; rewrite E p_pr.
case: (boolP (p %| n')%N) => [pn'|pn'].
  by constructor 1; exists p; split=> //; rewrite En expnS expn1 dvdn_mul.
have cop' : coprime p n' by rewrite prime_coprime.
case: (boolP (prime n')) => [n'_pr|n'_npr].
  constructor 2; exists p, n'; split=> //.
  rewrite ltn_neqAle (@pdiv_min_dvd n n') // ?andbT; last by rewrite En dvdn_mull.
  by apply: contra pn' => /eqP->.
pose q := pdiv n'; have q_pr : prime q := pdiv_prime n'_gt1.
have q_dvd : (q %| n')%N := pdiv_dvd n'.
pose n'' := (n' %/ q)%N; have En' : n' = (q * n'')%N by rewrite mulnC divnK.
have [q_odd n''_odd] : odd q /\ odd n'' by apply/andP; rewrite -oddM -En'.
have n''_gt1 : (1 < n'')%N.
  case: n'' En' n''_odd => [|[|//]] //.
  by rewrite muln1 => E; move: n'_npr; rewrite E q_pr.
case: (boolP (q %| n'')%N) => [qn''|qn''].
  constructor 1; exists q; split=> //.
  by rewrite En En' expnS expn1 dvdn_mull // dvdn_mul.
have coq'' : coprime q n'' by rewrite prime_coprime.
move: cop'; rewrite En' coprimeMr => /andP[copq cop''].
constructor 3; exists p, q, n''; split=> //; first by rewrite En En' mulnA.
by split; apply: odd_gt2 => //; apply: prime_gt1.
Qed.

(** ** Strong liars among the units, and the theorem *)

Definition uliar n d s (u : {unit 'Z_n}) : bool :=
  (val u ^+ d == 1) || [exists r : 'I_s, val u ^+ (d * 2 ^ r) == -1].

Theorem rabin_monier_units n d s : (9 < n)%N -> odd n -> ~~ prime n -> odd d -> n.-1 = (d * 2 ^ s)%N ->
  (4 * #|[set u : {unit 'Z_n} | uliar d s u]| <= totient n)%N.
Proof.
move=> n_gt9 n_odd n_npr d_odd Ends.
have n_gt1 : (1 < n)%N by apply: leq_trans n_gt9.
have n_gt0 : (0 < n)%N := ltnW n_gt1.
have s_gt0 : (0 < s)%N.
  case: s Ends => // /eqP; rewrite expn0 muln1 => /eqP E.
  by move: n_odd; rewrite -(prednK n_gt0) oddS E d_odd.
(* the largest J < s such that some unit has b^(d 2^J) = -1 *)
pose Jp r := (r < s)%N && [exists u : {unit 'Z_n}, val u ^+ (d * 2 ^ r) == -1].
have exJ : exists r, Jp r.
  exists 0%N; rewrite /Jp s_gt0; apply/existsP.
  exists (FinRing.unit 'Z_n (unitrN1 _)) => /=.
  by rewrite expn0 muln1 -signr_odd d_odd expr1.
have ubJ r : Jp r -> (r <= s)%N by case/andP=> /ltnW.
case: (ex_maxnP exJ ubJ) => J /andP[Js /existsP[b /eqP bm]] Jmax.
set m := (d * 2 ^ J)%N in bm.
have sub : [set u : {unit 'Z_n} | uliar d s u] \subset Pm n n m.
  apply/subsetP=> u; rewrite !inE red_n // => /orP[/eqP E|/existsP[r /eqP E]].
    by rewrite /m exprM E expr1n eqxx.
  have rJ : (r <= J)%N.
    by apply: Jmax; rewrite /Jp ltn_ord; apply/existsP; exists u; rewrite E.
  move: rJ; rewrite leq_eqVlt => /orP[/eqP rJ|rJ]; first by rewrite /m -rJ E eqxx orbT.
  rewrite /m -(subnKC (ltnW rJ)) expnD mulnA exprM E -signr_odd oddX.
  by rewrite subn_eq0 leqNgt rJ.
have Lcard : (#|[set u : {unit 'Z_n} | uliar d s u]| <= #|Pm n n m|)%N := subset_leq_card sub.
have dvd2m : (2 * m %| n.-1)%N.
  by rewrite Ends /m mulnCA -expnS dvdn_mul // dvdn_exp2l.
have cop2m p : (p %| n)%N -> coprime (2 * m) p.
  move=> pn; apply: (coprime_dvdl dvd2m); apply: (coprime_dvdr pn).
  by rewrite -[X in coprime _ X](prednK n_gt0) coprimenS.
have PR : (#|Pm n n m| <= #|Rm n (2 * m)|)%N := subset_leq_card (Pm_sub_Rm n m).
case: (odd_composite_cases n_gt1 n_odd n_npr).
- (* a square factor *)
  case=> p [p_pr p_odd p2n].
  have pn : (p %| n)%N by apply: dvdn_trans p2n; rewrite expnS dvdn_mulr.
  have cop := cop2m p pn.
  have B1 := @Rm_pprime_card n (2 * m) p 1 n_gt1 p_pr cop p2n.
  case: (ltnP 3 p) => [p_gt3|p_le3].
    rewrite expn1 in B1; apply: leq_trans B1.
    rewrite mulnC; apply: leq_mul; first exact: leq_trans Lcard PR.
    by [].
  have p3 : p = 3%N.
    by case: p p_pr p_odd p_le3 {p2n pn cop B1} => [|[|[|[|p]]]].
  rewrite {p_le3}p3 in p_pr p2n pn cop B1.
  case: (boolP (3 ^ 3 %| n)%N) => [p3n|p3n].
    have B2 := @Rm_pprime_card n (2 * m) 3 2 n_gt1 p_pr cop p3n.
    apply: leq_trans B2; rewrite mulnC; apply: leq_mul; first exact: leq_trans Lcard PR.
    by [].
  pose n' := (n %/ 9)%N; have En : n = (9 * n')%N by rewrite mulnC divnK.
  have n'_odd : odd n' by move: n_odd; rewrite En oddM.
  have n'_gt2 : (2 < n')%N.
    apply: odd_gt2 => //; rewrite ltnNge; apply/negP=> n'_le1.
    by move: n_gt9; rewrite En; case: n' n'_le1 {En n'_odd} => [|[|]].
  have co9 : coprime 9 n'.
    rewrite -[9%N]/(3 ^ 2)%N coprimeXl // prime_coprime //.
    by apply: contra p3n => d3; rewrite En -[(3 ^ 3)%N]/(9 * 3)%N dvdn_pmul2l.
  have S := split2_card n_gt1 (isT : (2 < 9)%N) n'_gt2 En co9 bm.
  rewrite expn1 in B1.
  apply: leq_trans B1; apply: leq_trans (leq_mul S (leqnn 3)).
  rewrite -mulnA [(#|_| * 3)%N]mulnC mulnA; apply: leq_mul => //.
- (* two distinct primes *)
  case=> p [q [p_pr q_pr p_lt_q [p_odd q_odd] En]].
  have p_gt2 := odd_gt2 p_odd (prime_gt1 p_pr).
  have q_gt2 := odd_gt2 q_odd (prime_gt1 q_pr).
  have cpq : coprime p q.
    by rewrite prime_coprime // dvdn_prime2 // neq_ltn p_lt_q.
  have S := split2_card n_gt1 p_gt2 q_gt2 En cpq bm.
  have [g gF] : exists g : {unit 'Z_n}, (g ^+ n.-1 != 1)%g.
    by rewrite En; apply: nonfermat_unit.
  have gR : g \notin Rm n (2 * m).
    by apply: contra gF => gR; have := subsetP (Rm_dvd n dvd2m) g gR; rewrite inE.
  have S2 := @index2_card _ (RmG n (2 * m)) [group of [set: {unit 'Z_n}]] g (subsetT _) (in_setT _) gR.
  rewrite /= cardsT in S2; have := card_units_Zp n_gt0; rewrite /units_Zp cardsT => E.
  rewrite -E; apply: leq_trans S2; rewrite -[4%N]/(2 * 2)%N -mulnA leq_mul2l /=.
  by apply: leq_trans S; rewrite leq_mul2l.
- (* three coprime factors *)
  case=> n1 [n2 [n3 [En [g1 g2 g3] c12 c13 c23]]].
  have T := three_card n_gt1 g1 g2 g3 En c12 c13 c23 bm.
  by apply: leq_trans T; rewrite leq_mul2l.
Qed.
