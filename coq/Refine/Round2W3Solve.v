(** Round 2 step, third wave (C06): the solution returned by [solve_linear_system] has as many entries as the
    matrix has rows.  stdlib, on LinAlgStep.solve_loop_step. *)
From RNT.Model Require Import Base Poly LinAlg.
From RNT.Refine Require Import LinAlgList LinAlgStep.
From Coq Require Import Lia List Arith.
Import ListNotations.

Section Field.
Context {T : Type} (F : field_ops T).

Lemma solve_loop_length : forall cnt row n a b x,
  solve_loop F cnt row n a b = Done (Ok x) -> (cnt + row = n)%nat -> length a = n -> length b = n ->
  length x = n.
Proof.
  induction cnt as [|c IH]; intros row n a b x H Hn La Lb.
  - cbn [solve_loop] in H. injection H as <-. assumption.
  - destruct (solve_loop_step F c row n a b (Ok x) H La Lb ltac:(lia)) as [[E _]|[nxt [a' [b' [_ [_ [_ [La' [Lb' [H' _]]]]]]]]]].
    + discriminate.
    + apply (IH (S row) n a' b' x H'); [lia|assumption|assumption].
Qed.

Lemma solve_length a b x : solve_linear_system F a b = Done (Ok x) -> length x = length a.
Proof.
  unfold solve_linear_system. intros H.
  destruct (Nat.eqb (length b) (length a)) eqn:E; cbn [assert_ bind] in H; [|discriminate].
  apply Nat.eqb_eq in E.
  apply (solve_loop_length (length a) 0 (length a) a b x H); [lia|reflexivity|assumption].
Qed.
End Field.
