(** * DetOrder (C15): the stored basis of an order (output of [hnf_reduce]) is a positive multiple
      of a square normal form, so its determinant is positive; hence for stored A, B with
      B = S A (S an integer matrix) the index returned by [Order::index] is det S = |det S| > 0.
      Style: ssreflect/MathComp. *)
From Coq Require Import ZArith List.
From mathcomp Require Import all_ssreflect ssralg zmodp matrix mxalgebra.
From mathcomp Require Import ssrZ zify.
From Coq Require Import QArith Qcanon.
From RNT.Model Require Import Base Poly Algebraic LinAlg MultTable Order.
From RNT.Model Require Hnf.
From RNT.Refine Require Import QcField LinAlgQc MatZ HnfSpec HnfMain HnfDet OrderLint OrderCanon DetBridge DetHnf.
From RNT.Refine Require OrderIndex OrderDet.
Set Implicit Arguments.
Unset Strict Implicit.
Unset Printing Implicit Defensive.
Import GRing.Theory.
Local Close Scope Z_scope.
Local Close Scope Q_scope.
Local Close Scope Qc_scope.
Local Open Scope ring_scope.

(** ** [toQm l h] = h / l as matrices *)
Lemma qmx_toQm n l (h : list (list Z)) : shape n n h -> l <> 0%Z ->
  q_of_Z l *: qmx n n (toQm l h) = mxQ n n h.
Proof.
move=> [lh wh] l0; apply/matrixP => i j; rewrite !mxE /toQm !Lnth_nth.
have hi : (i < size h)%nat by rewrite -[size h]/(length h) lh.
rewrite (nth_map [::]) //.
have hj : (j < size (seq.nth [::] h i))%nat.
  have /ltP hi' := hi.
  by have := wf_row n h i wh hi'; rewrite /MatZ.row Lnth_nth -[length _]/(size _) => ->.
rewrite (nth_map 0%Z) // /ratio_new -[Qcdiv _ _]/(q_of_Z _ / q_of_Z l) mulrC divfK //.
by rewrite q_of_Z_eq0; apply/eqP.
Qed.

Lemma toQm_square n l (h : list (list Z)) : shape n n h -> length (toQm l h) = n /\ square (toQm l h).
Proof.
move=> [lh wh]; have lr : length (toQm l h) = n by rewrite /toQm List.map_length.
split=> //; rewrite /square lr /toQm; apply/List.Forall_forall => r /List.in_map_iff [r' [<- hr']].
by rewrite List.map_length; move/List.Forall_forall: wh; apply.
Qed.

(** ** the determinant of a stored basis is a positive rational: l^n * det = p with l, p > 0 *)
Lemma stored_det n b r : (1 <= n)%coq_nat -> qshape n n b -> hnf_reduce b = Done r ->
  exists l p : Z, [/\ (0 < l)%Z, (0 < p)%Z, length r = n, square r
                    & q_of_Z l ^+ n * \det (qmx n n r) = q_of_Z p].
Proof.
move=> hn sb E.
have [h [Eh [sh er]]] := hnf_reduce_inv n b r hn sb E.
set l := lcm_den 1 b in Eh er.
have lpos : (0 < l)%Z by apply: lcm_den_pos.
have l0 : l <> 0%Z by lia.
have T := toZm_shape l n n b sb.
have [ih [wh _]] := hnf_new_correct _ n n h T hn hn Eh.
have hr := is_hnf_hnf_rows n h wh ih.
have [dh dpos] := hnf_square_det hr hn sh.1.
have [lr sr] := toQm_square l sh.
exists l, (diag_prod h); split=> //; rewrite er //.
by rewrite -detZ (qmx_toQm sh l0) det_mxQ dh.
Qed.

Lemma zexp_pos (l : Z) n : (0 < l)%Z -> (0 < l ^+ n)%Z.
Proof.
move=> lpos; elim: n => [|n IH]; first by rewrite expr0.
by rewrite exprS; apply: Z.mul_pos_pos.
Qed.

(** [index_spec] for bases of a given size n *)
Lemma order_index_spec_n n (a b : list (list Qc)) (S : 'M[Z]_n) :
  length a = n -> length b = n -> square a -> square b ->
  \det (qmx n n a) != 0 -> qmx n n b = map_mx q_of_Z S *m qmx n n a ->
  order_index a b = Done (\det S).
Proof.
move=> la; move: S; rewrite -la => S lb sa sb d0 e.
exact: (OrderDet.order_index_spec sa sb lb d0 e).
Qed.

(** ** [P] index_abs_det: for stored A, B with B = S A the index is det S = |det S| > 0 *)
Theorem order_index_abs_det n a0 b0 a b (S : 'M[Z]_n) :
  (1 <= n)%coq_nat -> qshape n n a0 -> qshape n n b0 ->
  hnf_reduce a0 = Done a -> hnf_reduce b0 = Done b ->
  qmx n n b = map_mx q_of_Z S *m qmx n n a ->
  (0 < \det S)%Z /\ order_index a b = Done (Z.abs (\det S)).
Proof.
move=> hn sa0 sb0 Ea Eb e.
have [la [pa [lapos papos lena sqa da]]] := stored_det hn sa0 Ea.
have [lb [pb [lbpos pbpos lenb sqb db]]] := stored_det hn sb0 Eb.
have la0 : q_of_Z la ^+ n != 0 :> Qc by rewrite expf_neq0 // q_of_Z_eq0; apply/eqP; lia.
have da0 : \det (qmx n n a) != 0.
  apply/eqP => d0; move: da; rewrite d0 mulr0 => /esym/eqP.
  by rewrite q_of_Z_eq0 => /eqP; lia.
have idx := order_index_spec_n lena lenb sqa sqb da0 e.
have eq : (pb * la ^+ n)%R = (lb ^+ n * \det S * pa)%R :> Z.
  apply: q_of_Z_inj; rewrite !rmorphM !rmorphX /= -db -da e det_mulmx det_map_mx.
  by rewrite -!mulrA; congr (_ * (_ * _)); rewrite mulrC.
have X := zexp_pos n lapos; have Y := zexp_pos n lbpos.
have pos : (0 < \det S)%Z.
  move: eq X Y; move: (la ^+ n) (lb ^+ n) (\det S) => x y d eq X Y.
  have : (0 < y * d * pa)%Z by rewrite -[(_ * _ * _)%Z]/(y * d * pa)%R -eq; apply: Z.mul_pos_pos.
  nia.
by split=> //; rewrite idx; congr Done; lia.
Qed.

(** ** the list product [qmmul] (integer matrix times rational matrix) is MathComp's *)
Lemma nth_map2_gen A B C (f : A -> B -> C) d1 d2 d l1 l2 j :
  length l1 = length l2 -> f d1 d2 = d ->
  List.nth j (map2 f l1 l2) d = f (List.nth j l1 d1) (List.nth j l2 d2).
Proof.
move=> + fd; elim: l1 l2 j => [|x l1 IH] [|y l2] [|j] //= [e].
exact: IH.
Qed.

Lemma nth_map_gen A B (g : A -> B) d l j : List.nth j (List.map g l) (g d) = g (List.nth j l d).
Proof. by elim: l j => [|x l IH] [|j] /=. Qed.

Lemma nth_qvzero m j : List.nth j (qvzero m) (Q2Qc 0) = 0.
Proof. by rewrite /qvzero; elim: m j => [|m IH] [|j] //=. Qed.

Lemma nth_qlincomb_sum m c (A : qmat) j : qwf m A ->
  List.nth j (qlincomb m c A) (Q2Qc 0)
  = \sum_(i < length A) q_of_Z (List.nth i c 0%Z) * (List.nth j (List.nth i A [::]) (Q2Qc 0) : Qc).
Proof.
elim: A c => [|r A IH] c wA.
  by rewrite big_ord0; case: c => [|c0 c] /=; rewrite nth_qvzero.
case: c => [|c0 c].
  rewrite [qlincomb _ _ _]/= nth_qvzero big1 // => i _.
  by rewrite nth_nil_Z (rmorph0 q_of_Z_rmorphism) mul0r.
have hr : length r = m := List.Forall_inv wA.
have wA' : qwf m A := List.Forall_inv_tail wA.
rewrite [qlincomb _ _ _]/= /qvadd /qvscale big_ord_recl /=.
rewrite (@nth_map2_gen _ _ _ Qcplus (Q2Qc 0) (Q2Qc 0)); last exact: (add0r (0 : Qc)).
  rewrite -(IH c wA'); congr (_ + _).
  have {1}-> : Q2Qc 0 = Qcmult (qz c0) (Q2Qc 0) by rewrite -[Qcmult _ _]/(q_of_Z c0 * 0) mulr0.
  by rewrite nth_map_gen.
by rewrite List.map_length qlincomb_length.
Qed.

Lemma qmx_qmmul n p m (U : list (list Z)) (A : qmat) : length U = n -> qshape p m A ->
  qmx n m (qmmul m U A) = map_mx q_of_Z (zmx n p U) *m qmx p m A.
Proof.
move=> lU [lA wA]; apply/matrixP => i j; rewrite !mxE /qmmul.
have -> : List.nth i (List.map (fun u => qlincomb m u A) U) [::] = qlincomb m (List.nth i U [::]) A.
  have hi : (i < length U)%coq_nat by apply/ltP; rewrite lU.
  rewrite (List.nth_indep _ [::] ((fun u => qlincomb m u A) [::])) ?List.map_length //.
  exact: List.map_nth.
rewrite (nth_qlincomb_sum _ _ wA) lA.
by apply: eq_bigr => k _; rewrite !mxE.
Qed.

(** [P] index_abs_det in the vocabulary of [order_canonical]: S a list matrix, B = S A as lists *)
Theorem order_index_abs_det_list n (Sl : list (list Z)) a0 b0 a b :
  (1 <= n)%coq_nat -> qshape n n a0 -> qshape n n b0 ->
  hnf_reduce a0 = Done a -> hnf_reduce b0 = Done b ->
  shape n n Sl -> b = qmmul n Sl a ->
  (0 < \det (zmx n n Sl))%Z /\ order_index a b = Done (Z.abs (\det (zmx n n Sl))).
Proof.
move=> hn sa0 sb0 Ea Eb [lS wS] eb.
apply: (order_index_abs_det hn sa0 sb0 Ea Eb).
have [la [pa [_ _ lena sqa _]]] := stored_det hn sa0 Ea.
rewrite eb; apply: qmx_qmmul => //; split=> //.
by move: sqa; rewrite /square lena.
Qed.

(** ** [from_basis] returns exactly on the non-singular bases *)
From RNT.Refine Require Import HnfTotal.
Local Close Scope Z_scope.

Lemma qmx_toZm n l (b : qmat) : qshape n n b -> all_lint l b ->
  mxQ n n (toZm l b) = q_of_Z l *: qmx n n b.
Proof.
move=> [lb wb] hl; apply/matrixP => i j; rewrite !mxE /toZm !Lnth_nth.
have hi : (i < size b)%nat by rewrite -[size b]/(length b) lb.
rewrite (nth_map [::]) //.
have inb : List.In (seq.nth [::] b i) b by rewrite -Lnth_nth; apply: List.nth_In; apply/ltP.
have hj : (j < size (seq.nth [::] b i))%nat.
  by move/List.Forall_forall: wb => /(_ _ inb); rewrite -[length _]/(size _) => ->.
rewrite (nth_map (Q2Qc 0)) //.
have lx : lint l (seq.nth (Q2Qc 0) (seq.nth [::] b i) j).
  move/List.Forall_forall: hl => /(_ _ inb) /List.Forall_forall; apply.
  by rewrite -Lnth_nth; apply: List.nth_In; apply/ltP.
set x := seq.nth _ _ j in lx *.
have -> : q_of_Z (scale_to_int l x) = Qcmult x (qz l) := lint_scale l x lx.
exact: mulrC.
Qed.

Theorem hnf_reduce_total n b : (1 <= n)%coq_nat -> qshape n n b ->
  \det (qmx n n b) != 0 -> exists r, hnf_reduce b = Done r.
Proof.
move=> hn sb d0.
rewrite (hnf_reduce_unfold n b sb); set l := lcm_den 1 b.
have lpos : (0 < l)%Z by apply: lcm_den_pos.
have T := toZm_shape l n n b sb.
have [h Eh] := hnf_new_total _ n n T hn hn.
have dz : \det (zmx n n (toZm l b)) <> 0%Z.
  move=> dz; have := det_mxQ n (toZm l b); rewrite dz (qmx_toZm sb (lcm_den_lint b)) detZ.
  rewrite (rmorph0 q_of_Z_rmorphism) => /eqP; rewrite mulf_eq0 (negbTE d0) orbF expf_eq0.
  by rewrite q_of_Z_eq0 => /andP[_ /eqP]; rewrite -/l; lia.
have [I1 _] := determinant_index T hn Eh; have [lh _] := I1 dz.
have [_ [wh _]] := hnf_new_correct _ n n h T hn hn Eh.
by rewrite Eh /= (rat_matrix_closed l n h (conj lh wh)); eexists.
Qed.

(** [P] [hnf_reduce] (= [from_basis]) returns a stored basis iff the given basis is non-singular *)
Theorem hnf_reduce_returns_iff n b : (1 <= n)%coq_nat -> qshape n n b ->
  (exists r, hnf_reduce b = Done r) <-> \det (qmx n n b) != 0.
Proof.
move=> hn sb; split; last exact: hnf_reduce_total.
case=> r E; have [l [p [lpos ppos _ _ dr]]] := stored_det hn sb E.
have [U [V [sU [sV [er eb]]]]] := hnf_reduce_equiv n b r hn sb E.
apply/eqP => b0.
have d0 : \det (qmx n n r) = 0 by rewrite {1}er (qmx_qmmul sU.1 sb) det_mulmx b0 mulr0.
by move: dr; rewrite d0 mulr0 => /esym/eqP; rewrite q_of_Z_eq0 => /eqP; lia.
Qed.
