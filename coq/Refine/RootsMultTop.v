(** * C12: the multiset clause for [find_linear_factors] at the level of coefficient lists
    (ssreflect). The statements used by Props/C12.v.

    [root_mult p f x k]: f = (X - x)^k g modulo p for some g with g(x) <> 0 modulo p, written
    with the list operations of Model/Poly.v ([lpow], [pmul], Horner value [pof]) and the list
    congruence [peqmod]. *)
From Coq Require Import ZArith List Lia Znumtheory Permutation.
From mathcomp Require Import all_ssreflect ssralg poly.
From RNT.Model Require Import Base Poly PolyModP FactorModP LinearRoots.
From RNT.Refine Require Import PolyModPArith PolyModPDivList FermatZ PolyZmod PolyModPDiv MonicZ PolyModPGcd FpPoly DrawBounds FpTotal FactorNorm HenselProofs C08Lists RootsProofs RootsComplete RootsMult RootsMultImpl.
From mathcomp Require Import ssrZ zify ring.
Set Implicit Arguments. Unset Strict Implicit. Unset Printing Implicit Defensive.
Import GRing.Theory.
Local Open Scope ring_scope.

(** ** Vocabulary *)

(** The linear polynomial X - x. *)
Definition xsub (x : Z) : list Z := [:: (- x)%ZZ; 1%ZZ].

(** x is a root of f modulo p of multiplicity exactly k. *)
Definition root_mult (p : Z) (f : list Z) (x : Z) (k : nat) : Prop :=
  exists g : list Z,
    peqmod p f (pmul opsZ (lpow (xsub x) k) g) /\ Z.modulo (pof opsZ g x) p <> Z0.

(** (X - r1) ... (X - rn). *)
Definition linprod (rs : list Z) : list Z := lprod (List.map xsub rs).

Lemma PZ_xsub x : PZ (xsub x) = 'X - x%:P.
Proof. by rewrite /xsub /PZ /= !cons_poly_def mul0r add0r mul1r polyCN. Qed.

Lemma root_multP p f x k : p <> Z0 -> root_mult p f x k <-> multm p (PZ f) x k.
Proof.
  move=> Hp0. split.
  - move=> [g [E N]]. exists (PZ g). split.
    + move/(peqmodP _ _ Hp0): E. by rewrite PZ_pmul PZ_lpow PZ_xsub.
    + by rewrite /rootm -pof_horner.
  - move=> [g [E N]]. exists (polyseq g).
    have EP : PZ (polyseq g) = g by rewrite /PZ polyseqK.
    split.
    + apply/(peqmodP _ _ Hp0). by rewrite PZ_pmul PZ_lpow PZ_xsub EP.
    + by rewrite pof_horner EP.
Qed.

Lemma PZ_linprod rs : PZ (linprod rs) = \prod_(r <- rs) ('X - r%:P).
Proof.
  rewrite /linprod. elim: rs => [|r rs IH].
  - by rewrite big_nil /= /PZ /= cons_poly_def mul0r add0r.
  - have -> : lprod (List.map xsub (r :: rs)) = pmul opsZ (xsub r) (lprod (List.map xsub rs)) by [].
    by rewrite big_cons PZ_pmul PZ_xsub IH.
Qed.

(** ** p = 2 *)

Lemma deflate_mult : forall fuel md poly val result poly' result',
  (0 <= val < 2)%ZZ -> reduced 2 poly ->
  deflate_mod2 fuel md poly val result = Done (poly', result') ->
  exists m, result' = (result ++ List.repeat val m)%list /\ reduced 2 poly' /\
            eqpm 2 (PZ poly) (('X - val%:P) ^+ m * PZ poly') /\ ~ rootm 2 (PZ poly') val.
Proof.
  have P2 := prime_2. have H2p : (0 < 2)%ZZ by [].
  elim=> [|f IH] md poly val result poly' result' Bv Rp //=.
  case Ev: (poly_of_mod md poly val 2) => [v| |] //=.
  have Hiff := poly_of_mod_zero_iff P2 Ev.
  case: (Z.eqb_spec v Z0) => [Ev0|Nv].
  - case Eq: (divide_by_x_a md poly val 2) => [q| |] //= Er.
    have Ra : rootm 2 (PZ poly) val by apply/Hiff.
    have [Rq Eqq] := divide_by_x_a_root H2p Ra Eq.
    have [m [E1 [R1 [Em Nm]]]] := IH _ _ _ _ _ _ Bv Rq Er.
    exists m.+1. split; first by rewrite E1 -List.app_assoc.
    split=> //. split=> //.
    apply: eqpm_trans Eqq _. rewrite exprS -mulrA. exact: eqpm_mull.
  - case=> <- <-. exists 0%nat. rewrite List.app_nil_r expr0 mul1r. split=> //. split=> //.
    split; first exact: eqpm_refl. by move/Hiff.
Qed.

Lemma impl_mod2_mult md poly out :
  reduced 2 poly -> find_linear_factors_impl_mod2 md poly [::] = Done out ->
  hmult 2 (PZ poly) out.
Proof.
  move=> Rp. rewrite /find_linear_factors_impl_mod2.
  case E0: (deflate_mod2 _ md poly 0%ZZ [::]) => [[poly1 result1]| |] //=.
  case E1: (deflate_mod2 _ md poly1 1%ZZ result1) => [[poly2 result2]| |] //=. case=> <-.
  have B0 : (0 <= 0 < 2)%ZZ by []. have B1 : (0 <= 1 < 2)%ZZ by [].
  have [m0 [A0 [R1 [Q0 N0]]]] := deflate_mult B0 Rp E0.
  have [m1 [A1 [R2 [Q1 N1]]]] := deflate_mult B1 R1 E1.
  move=> x Bx. rewrite A1 A0 /= cnt_app /cnt.
  have [Ex|Ex] : x = 0%ZZ \/ x = 1%ZZ by lia.
  - rewrite Ex List.count_occ_repeat_eq // List.count_occ_repeat_neq // addn0.
    by exists (PZ poly1).
  - rewrite Ex List.count_occ_repeat_neq // List.count_occ_repeat_eq // add0n.
    exists (('X - 0%ZZ%:P) ^+ m0 * PZ poly2). split.
    + apply: eqpm_trans Q0 _.
      have -> : ('X - 1%ZZ%:P) ^+ m1 * (('X - 0%ZZ%:P) ^+ m0 * PZ poly2)
              = ('X - 0%ZZ%:P) ^+ m0 * (('X - 1%ZZ%:P) ^+ m1 * PZ poly2) :> {poly Z} by ring.
      exact: eqpm_mull.
    + move=> R. case: (rootm_mul_inv prime_2 R) => // R'.
      move: R'. by rewrite /rootm horner_exp hornerXsubC subr0 expr1n.
Qed.

(** ** [find_linear_factors] *)

(** [P] [roots_complete_multiset]: for every prime p and every x of [0, p), the number of
    occurrences of x in the returned list is the multiplicity of x as a root of f modulo p. *)
Theorem roots_complete_multiset md f p r roots r' :
  Znumtheory.prime p ->
  find_linear_factors md f p r = Done (roots, r') ->
  forall x k, (0 <= x < p)%ZZ -> root_mult p f x k -> List.count_occ Z.eq_dec roots x = k.
Proof.
  move=> Hp. have Hp2 := prime_ge_2 _ Hp. have Hpp : (0 < p)%ZZ by lia. have Hp0 : p <> Z0 by lia.
  rewrite /find_linear_factors.
  case Em: (poly_mod f p) => [poly1| |] //=.
  have R1 := poly_mod_is_reduced Hpp Em.
  have E1 := PZ_poly_mod Hp0 Em.
  have Fin : forall l, hmult p (PZ poly1) l ->
     forall x k, (0 <= x < p)%ZZ -> root_mult p f x k -> List.count_occ Z.eq_dec l x = k.
  { move=> l H x k Bx /(root_multP _ _ _ Hp0) M.
    have M1 : multm p (PZ poly1) x k := multm_eqpm E1 M.
    exact: (multm_uniq Hp (H x Bx) M1). }
  case: (Z.eqb_spec p 2) => [E2|N2].
  - case Ei: (find_linear_factors_impl_mod2 md poly1 [::]) => [res| |] //=. case=> <- _.
    apply: Fin. rewrite E2 in R1 *. exact: (impl_mod2_mult R1 Ei).
  - move=> Ei. have [new [En H]] := impl_mult Hp N2 R1 Ei.
    apply: Fin. by rewrite En.
Qed.

(** The multiplicity is well defined: unique, and it exists when f <> 0 modulo p. *)
Theorem root_mult_unique p f x k k' :
  Znumtheory.prime p -> root_mult p f x k -> root_mult p f x k' -> k = k'.
Proof.
  move=> Hp. have Hp2 := prime_ge_2 _ Hp. have Hp0 : p <> Z0 by lia.
  move=> /(root_multP _ _ _ Hp0) M /(root_multP _ _ _ Hp0) M'. exact: (multm_uniq Hp M M').
Qed.

Theorem root_mult_exists p f x :
  Znumtheory.prime p -> ~ peqmod p f [::] -> exists k, root_mult p f x k.
Proof.
  move=> Hp. have Hp2 := prime_ge_2 _ Hp. have Hp0 : p <> Z0 by lia.
  move=> N. have N' : ~ eqpm p (PZ f) 0.
  { move=> E. apply: N. by apply/(peqmodP _ _ Hp0). }
  have [k M] := multm_exists Hp x N'. exists k. exact/(root_multP _ _ _ Hp0).
Qed.

(** Multiplicity 0 = not a root; positive multiplicity = root. *)
Theorem root_mult_0_iff p f x :
  Znumtheory.prime p -> (root_mult p f x 0 <-> Z.modulo (pof opsZ f x) p <> Z0).
Proof.
  move=> Hp. have Hp2 := prime_ge_2 _ Hp. have Hp0 : p <> Z0 by lia.
  rewrite pof_horner. split.
  - move/(root_multP _ _ _ Hp0). exact: multm_0_noroot.
  - move=> N. apply/(root_multP _ _ _ Hp0). exact: multm_0.
Qed.

Theorem root_mult_pos_root p f x k :
  Znumtheory.prime p -> root_mult p f x k.+1 -> Z.modulo (pof opsZ f x) p = Z0.
Proof.
  move=> Hp. have Hp2 := prime_ge_2 _ Hp. have Hp0 : p <> Z0 by lia.
  move/(root_multP _ _ _ Hp0) => M. rewrite pof_horner. exact: (multm_root Hp M).
Qed.

(** ** Planted roots: f = (X - r1) ... (X - rn) g modulo p with g without roots *)

Lemma multm_linprod p rs g x :
  Znumtheory.prime p -> (0 <= x < p)%ZZ -> ~ rootm p g x ->
  multm p (\prod_(r <- rs) ('X - r%:P) * g) x
        (List.count_occ Z.eq_dec (List.map (fun r => Z.modulo r p) rs) x).
Proof.
  move=> Hp Bx Ng. elim: rs => [|r rs IH].
  - rewrite big_nil mul1r /=. exact: multm_0.
  - rewrite big_cons -mulrA [List.map _ _]/= [List.count_occ _ _ _]/=.
    have M := multm_mul Hp (multm_XsubC Hp r Bx) IH.
    move: M. by case: (Z.eq_dec (Z.modulo r p) x).
Qed.

(** [P] [roots_planted]: if f = (X - r1) ... (X - rn) g modulo p and g has no root modulo p, the
    returned list is a permutation of [r1 mod p; ...; rn mod p]. *)
Theorem roots_planted md f p r roots r' rs g :
  Znumtheory.prime p ->
  peqmod p f (pmul opsZ (linprod rs) g) ->
  (forall x, (0 <= x < p)%ZZ -> Z.modulo (pof opsZ g x) p <> Z0) ->
  find_linear_factors md f p r = Done (roots, r') ->
  Permutation roots (List.map (fun r => Z.modulo r p) rs).
Proof.
  move=> Hp Ef Ng H. have Hp2 := prime_ge_2 _ Hp. have Hp0 : p <> Z0 by lia.
  have Hpp : (0 < p)%ZZ by lia.
  apply/(Permutation_count_occ Z.eq_dec) => x.
  case: (Z.ltb_spec x p) => Hx; last first.
  { rewrite (proj1 (List.count_occ_not_In Z.eq_dec _ _)); last first.
    { move=> I. have := proj1 (List.Forall_forall _ _) (roots_sound Hp H) x I. lia. }
    rewrite (proj1 (List.count_occ_not_In Z.eq_dec _ _)) //.
    move/List.in_map_iff => [y [Ey _]]. have := Z.mod_pos_bound y p Hpp. lia. }
  case: (Z.leb_spec 0 x) => Hx0; last first.
  { rewrite (proj1 (List.count_occ_not_In Z.eq_dec _ _)); last first.
    { move=> I. have := proj1 (List.Forall_forall _ _) (roots_sound Hp H) x I. lia. }
    rewrite (proj1 (List.count_occ_not_In Z.eq_dec _ _)) //.
    move/List.in_map_iff => [y [Ey _]]. have := Z.mod_pos_bound y p Hpp. lia. }
  have Bx : (0 <= x < p)%ZZ by lia.
  apply: (roots_complete_multiset Hp H Bx).
  apply/(root_multP _ _ _ Hp0).
  move/(peqmodP _ _ Hp0): Ef. rewrite PZ_pmul PZ_linprod => Ef.
  apply: (multm_eqpm Ef). apply: multm_linprod => //.
  rewrite /rootm -pof_horner. exact: Ng.
Qed.

(** [P] [roots_split_length]: if f = c (X - r1) ... (X - rn) modulo p with c <> 0 modulo p, exactly
    n values are returned. *)
Theorem roots_split_length md f p r roots r' rs c :
  Znumtheory.prime p ->
  peqmod p f (pmul opsZ (linprod rs) [:: c]) -> Z.modulo c p <> Z0 ->
  find_linear_factors md f p r = Done (roots, r') ->
  length roots = length rs.
Proof.
  move=> Hp Ef Nc H.
  have Ng : forall x, (0 <= x < p)%ZZ -> Z.modulo (pof opsZ [:: c] x) p <> Z0.
  { move=> x _. by rewrite pof_horner /PZ /= cons_poly_def mul0r add0r hornerC. }
  have P := roots_planted Hp Ef Ng H.
  by rewrite (Permutation_length P) List.map_length.
Qed.

(** [P] [roots_nil_iff]: the returned list is empty iff f has no root in [0, p). *)
Theorem roots_nil_iff md f p r roots r' :
  Znumtheory.prime p ->
  find_linear_factors md f p r = Done (roots, r') ->
  (roots = [::] <-> forall x, (0 <= x < p)%ZZ -> Z.modulo (pof opsZ f x) p <> Z0).
Proof.
  move=> Hp H. split.
  - move=> E x Bx R. have := roots_complete_set Hp H Bx R. by rewrite E.
  - move=> N. case: roots H => [|y l] // H. exfalso.
    have F := roots_sound Hp H. inversion F as [|? ? [By Ry] _]. exact: (N y By Ry).
Qed.

(** A small prime for the non-vacuity examples. *)
Lemma c12_prime_7 : Znumtheory.prime 7.
Proof.
  apply prime_intro; [lia|]. intros k Hk.
  assert (C : k = 1%ZZ \/ k = 2%ZZ \/ k = 3%ZZ \/ k = 4%ZZ \/ k = 5%ZZ \/ k = 6%ZZ) by lia.
  destruct C as [->|[->|[->|[->|[->| ->]]]]]; apply Zgcd_1_rel_prime; reflexivity.
Qed.
