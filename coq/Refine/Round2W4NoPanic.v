(** Round 2 driver, fourth wave (C06): the u64 bookkeeping [e -= 2 * howmany] of [find_integral_basis] never
    overflows, and for monic f with non-zero discriminant the driver returns an order (no panic, enough fuel) in
    both build profiles.  Every order met on the way has an integer discriminant ([Order::discriminant] returns:
    C15 [order_disc_trace_form]), disc(old) = disc(new) * p^(2 howmany) ([disc_index], [one_step_index]), and the
    exponent handed to the [while] loop is the exact exponent of p in disc(start) ([trial_factorize_spec]).
    stdlib + lia. *)
From RNT.Model Require Import Base Poly Algebraic LinAlg MultTable Order Round2.
From RNT.Model Require Hnf Elementary Resultant.
From RNT.Refine Require Import MatZ Round2Basic Round2Index Round2Lattice Round2Det Round2Fuel.
From RNT.Refine Require Import Round2W3Radical Round2W3Driver Round2W3Start.
From RNT.Refine Require Round2W4Disc PolyZ TrialDivProofs Round2W3Step.
From Coq Require Import Lia Znumtheory Zpow_facts QArith Qcanon Sorted.
Open Scope Z_scope.

(** ** arithmetic *)
Lemma u64_norm_in_range m x : 0 <= x < two64 -> u64_norm m x = Done x.
Proof.
  intros H. unfold u64_norm.
  destruct (0 <=? x) eqn:A; [|lia]. destruct (x <? two64) eqn:B; [|lia]. reflexivity.
Qed.

Lemma primes_rel_prime p q : prime p -> prime q -> p <> q -> rel_prime p q.
Proof.
  intros Pp Pq Ne. apply prime_rel_prime; [assumption|]. intros D.
  apply prime_divisors in D; [|assumption]. destruct Pp, Pq. lia.
Qed.

Lemma rel_prime_pow_r a b k : 0 <= k -> rel_prime a b -> rel_prime a (b ^ k).
Proof. intros Hk R. apply rel_prime_Zpower_r; assumption. Qed.

Lemma rel_prime_pow_l a b k : 0 <= k -> rel_prime a b -> rel_prime (a ^ k) b.
Proof. intros Hk R. apply rel_prime_sym, rel_prime_pow_r; [assumption|apply rel_prime_sym; assumption]. Qed.

(** passing to a quotient by a power of another prime keeps the exact exponent of q *)
Lemma exponent_transfer p q d d' s e r :
  prime p -> prime q -> p <> q -> 0 <= s -> 0 <= e ->
  d = d' * p ^ s -> d = q ^ e * r -> rel_prime q r ->
  exists r', d' = q ^ e * r' /\ rel_prime q r'.
Proof.
  intros Pp Pq Ne Hs He E1 E2 R.
  assert (Q0 : q ^ e <> 0) by (apply Z.pow_nonzero; [destruct Pq; lia|assumption]).
  assert (C : rel_prime (q ^ e) (p ^ s)).
  { apply rel_prime_pow_l; [assumption|]. apply rel_prime_pow_r; [assumption|]. apply primes_rel_prime; auto. }
  assert (D : (q ^ e | d')).
  { apply Gauss with (p ^ s); [|assumption]. exists r. rewrite Z.mul_comm, <- E1, E2. ring. }
  destruct D as [r' ->]. exists r'. split; [ring|].
  assert (Er : r = r' * p ^ s).
  { apply (Z.mul_cancel_l _ _ (q ^ e) Q0). rewrite <- E2, E1. ring. }
  apply rel_prime_sym. apply rel_prime_div with r; [apply rel_prime_sym; assumption|].
  exists (p ^ s). rewrite Er. ring.
Qed.

(** ** the trial factorisation: every listed (p, e) has e the exact exponent of p *)
Import TrialDivProofs.

Lemma fprod_rel_prime p : prime p -> forall l,
  (forall q e, In (q, e) l -> prime q /\ 0 < e) -> ~ In p (map fst l) -> rel_prime p (fprod l).
Proof.
  intros Pp. induction l as [|[q e] l IH]; intros Pl Nin.
  - cbn. apply rel_prime_sym, rel_prime_1.
  - cbn [fprod fold_right fst snd]. fold (fprod l).
    destruct (Pl q e (or_introl eq_refl)) as [Pq He].
    apply rel_prime_mult.
    + apply rel_prime_pow_r; [lia|]. apply primes_rel_prime; [assumption|assumption|].
      intros ->. apply Nin. left. reflexivity.
    + apply IH; [intros q' e' Hin; apply Pl; right; assumption|]. intros Hin. apply Nin. right. assumption.
Qed.

Lemma fprod_split : forall l p e,
  (forall q e', In (q, e') l -> prime q /\ 0 < e') -> NoDup (map fst l) -> In (p, e) l ->
  exists r, fprod l = p ^ e * r /\ rel_prime p r.
Proof.
  induction l as [|[q e'] l IH]; intros p e Pl ND Hin; [destruct Hin|].
  cbn [fprod fold_right fst snd]. fold (fprod l).
  cbn [map fst] in ND. inversion ND as [|x xs Nin ND']; subst.
  destruct Hin as [E|Hin].
  - injection E as -> ->. exists (fprod l). split; [reflexivity|].
    destruct (Pl p e (or_introl eq_refl)) as [Pp _].
    apply fprod_rel_prime; [assumption| |assumption]. intros q' e' H. apply Pl. right. assumption.
  - destruct (IH p e) as [r [Er Rr]]; [intros q' e'' H; apply Pl; right; assumption|assumption|assumption|].
    destruct (Pl p e (or_intror Hin)) as [Pp _]. destruct (Pl q e' (or_introl eq_refl)) as [Pq He'].
    exists (q ^ e' * r). split; [rewrite Er; ring|].
    apply rel_prime_mult; [|assumption]. apply rel_prime_pow_r; [lia|].
    apply primes_rel_prime; [assumption|assumption|]. intros <-. apply Nin.
    change p with (fst (p, e)). apply in_map. assumption.
Qed.

Lemma sorted_lt_nodup : forall l, StronglySorted Z.lt l -> NoDup l.
Proof.
  induction l as [|x l IH]; intros S; [constructor|]. inversion S as [|y ys S' F]; subst.
  constructor; [|apply IH; assumption]. intros Hin.
  rewrite Forall_forall in F. specialize (F x Hin). lia.
Qed.

(** what the driver's loop needs of the list of prime powers: [d] is the discriminant of the current order *)
Definition fac_ok (d : Z) (fac : list (Z * Z)) : Prop :=
  NoDup (map fst fac) /\
  forall p e, In (p, e) fac -> prime p /\ 0 <= e < two64 /\ exists r, d = p ^ e * r /\ rel_prime p r.

Lemma trial_factorize_fac_ok d fac :
  d <> 0 -> Z.log2 (Z.abs d) < two64 -> Elementary.trial_factorize (Z.abs d) = Done fac -> fac_ok d fac.
Proof.
  intros D0 Bd TF.
  destruct (trial_factorize_spec (Z.abs d) ltac:(lia)) as [l [El [Sl [Pl Fl]]]].
  rewrite TF in El. injection El as <-.
  pose proof (sorted_lt_nodup _ Sl) as ND.
  split; [assumption|]. intros p e Hin. destruct (Pl p e Hin) as [Pp He].
  destruct (fprod_split fac p e Pl ND Hin) as [r [Er Rr]]. rewrite Fl in Er.
  assert (P2 : 2 <= p) by (destruct Pp; lia).
  split; [assumption|]. split.
  - split; [lia|].
    assert (Ppos : 0 < p ^ e) by (apply Z.pow_pos_nonneg; lia).
    assert (R1 : 1 <= r) by nia.
    assert (L : 2 ^ e <= p ^ e) by (apply Z.pow_le_mono_l; lia).
    assert (L2 : 2 ^ e <= Z.abs d) by nia.
    apply Z.log2_le_pow2 in L2; lia.
  - destruct (Z_le_gt_dec 0 d) as [Dp|Dn].
    + exists r. rewrite Z.abs_eq in Er by assumption. split; assumption.
    + exists (- r). rewrite Z.abs_neq in Er by lia. split; [lia|].
      apply rel_prime_sym. apply rel_prime_div with r; [apply rel_prime_sym; assumption|].
      exists (-1). lia.
Qed.

(** ** every order has an integer discriminant; a Round 2 step divides it by p^(2 howmany) *)
Section Driver.
Variables (m : mode) (f : list Z) (deg : nat).
Hypothesis Cf : PolyZ.canonZ f = true.
Hypothesis Lf : length f = S deg.
Hypothesis D1 : (1 <= deg)%nat.
Hypothesis Small : 2 * Z.of_nat deg < two64.

Lemma is_order_disc o : is_order f deg o -> exists d, order_disc m o f = Done d.
Proof.
  intros [LO [_ [T GT]]]. destruct (lower_from_shape deg o LO) as [Lo Wo].
  apply (Round2W4Disc.order_disc_returns m (f := f) (n := deg) (b := o) (T := T)); assumption.
Qed.

Lemma step_disc o p o' h d d' :
  prime p -> is_order f deg o -> one_step f o p = Done (o', h) ->
  order_disc m o f = Done d -> order_disc m o' f = Done d' ->
  0 <= h /\ d = d' * p ^ h * p ^ h.
Proof.
  intros Pp [LO _] S Dd Dd'. assert (P0 : 0 < p) by (destruct Pp; lia).
  destruct (one_step_index f o p o' h deg Lf D1 LO P0 S) as [I [Hh _]].
  split; [assumption|].
  apply order_disc_inv in Dd, Dd'. destruct Dd as [discf [X0 Dd]], Dd' as [discf' [X1 Dd']].
  rewrite X0 in X1. injection X1 as <-.
  apply (disc_index m discf f o o' (p ^ h) d d' I Dd Dd').
Qed.

(** [P] the [while] loop at a prime p, started on an order whose discriminant is p^e * r with p not dividing r,
    0 <= e < 2^64: it never panics (in particular [e -= 2 * howmany] does not underflow), it returns when given
    the fuel [e < 2 * fuel], and the result is an order whose discriminant is that of the input divided by an even
    power of p *)
Lemma prime_loop_ok p : prime p ->
  forall fuel o e r d,
  is_order f deg o -> order_disc m o f = Done d -> d = p ^ e * r -> rel_prime p r -> 0 <= e < two64 ->
  match prime_loop fuel m f o p e with
  | Done o' => is_order f deg o' /\ exists d' s, order_disc m o' f = Done d' /\ 0 <= s /\ d = d' * p ^ s
  | Panic _ => False
  | OutOfFuel => 2 * Z.of_nat fuel <= e
  end.
Proof.
  intros Pp. assert (P2 : 2 <= p) by (destruct Pp; lia).
  induction fuel as [|fu IH]; intros o e r d IO Dd Ed Rp He; [cbn; lia|].
  cbn [prime_loop]. destruct (2 <=? e) eqn:E2.
  2:{ split; [assumption|]. exists d, 0. split; [assumption|]. split; [lia|]. rewrite Z.pow_0_r. ring. }
  apply Z.leb_le in E2.
  destruct (order_step_returns f deg o p Lf D1 Pp IO) as [o1 [h S]]. rewrite S. cbn [bind].
  pose proof (order_step_order f deg o p o1 h Cf Lf D1 Pp IO S) as IO1.
  destruct (is_order_disc o1 IO1) as [d1 Dd1].
  destruct (step_disc o p o1 h d d1 Pp IO S Dd Dd1) as [Hh DI].
  rewrite Ed in DI.
  destruct (exponent_bound p e r h d1 Pp Rp ltac:(lia) Hh DI) as [B Dd1'].
  rewrite (u64_norm_in_range m (2 * h)) by lia. cbn [bind].
  rewrite (u64_norm_in_range m (e - 2 * h)) by lia. cbn [bind].
  assert (E1 : d = d1 * p ^ (2 * h)).
  { rewrite Ed, Dd1'. replace e with ((e - 2 * h) + 2 * h) at 1 by lia. rewrite Z.pow_add_r by lia. ring. }
  destruct (h =? 0) eqn:H0.
  - split; [assumption|]. exists d1, (2 * h). split; [assumption|]. split; [lia|assumption].
  - apply Z.eqb_neq in H0.
    specialize (IH o1 (e - 2 * h) r d1 IO1 Dd1 Dd1' Rp ltac:(lia)).
    destruct (prime_loop fu m f o1 p (e - 2 * h)) as [o2|t|].
    + destruct IH as [IO2 [d2 [s [Dd2 [Hs E2']]]]]. split; [assumption|].
      exists d2, (s + 2 * h). split; [assumption|]. split; [lia|].
      rewrite E1, E2', Z.pow_add_r by lia. ring.
    + assumption.
    + lia.
Qed.

(** [P] the [for] loop over the prime powers *)
Lemma primes_loop_ok : forall fac o d,
  is_order f deg o -> order_disc m o f = Done d -> fac_ok d fac ->
  exists o', primes_loop m f fac o = Done o' /\ is_order f deg o'.
Proof.
  induction fac as [|[p e] rest IH]; intros o d IO Dd [ND FO]; cbn [primes_loop]; [eauto|].
  destruct (FO p e (or_introl eq_refl)) as [Pp [He [r [Ed Rp]]]].
  pose proof (prime_loop_ok p Pp (prime_fuel e) o e r d IO Dd Ed Rp He) as PL.
  destruct (prime_loop (prime_fuel e) m f o p e) as [o1|t|]; [|destruct PL|unfold prime_fuel in PL; lia].
  cbn [bind]. destruct PL as [IO1 [d1 [s [Dd1 [Hs E1]]]]].
  apply (IH o1 d1 IO1 Dd1).
  cbn [map fst] in ND. inversion ND as [|x xs Nin ND']; subst x xs.
  split; [assumption|]. intros q e' Hin.
  destruct (FO q e' (or_intror Hin)) as [Pq [He' [r' [Ed' Rq]]]].
  split; [assumption|]. split; [assumption|].
  apply (exponent_transfer p q d d1 s e' r'); try assumption; [|lia].
  intros ->. apply Nin. change q with (fst (q, e')). apply in_map. assumption.
Qed.
End Driver.

(** ** the starting order of a monic f is computed *)
Lemma nm_lower_monic f deg : (1 <= deg)%nat -> coef_at opsZ f deg = 1 ->
  lower_from deg 0 (map (fun i => map (fun j => nm_entry f deg i j) (seq 0 deg)) (seq 0 deg)).
Proof.
  intros D1 Mon.
  set (g := fun i => map (fun j => nm_entry f deg i j) (seq 0 deg)).
  assert (R : forall t, (t < deg)%nat -> nth t (map g (seq 0 deg)) [] = g t).
  { intros t Ht. rewrite nth_indep with (d' := g O) by (rewrite map_length, seq_length; assumption).
    rewrite (map_nth g), seq_nth by assumption. reflexivity. }
  assert (E : forall t c, (t < deg)%nat -> (c < deg)%nat -> ent_q (map g (seq 0 deg)) t c = nm_entry f deg t c).
  { intros t c Ht Hc. unfold ent_q. rewrite R by assumption. unfold g.
    set (g2 := fun j => nm_entry f deg t j).
    rewrite nth_indep with (d' := g2 O) by (rewrite map_length, seq_length; assumption).
    rewrite (map_nth g2), seq_nth by assumption. reflexivity. }
  split.
  - rewrite map_length, seq_length. reflexivity.
  - intros t Ht. rewrite R by assumption. unfold g. rewrite map_length, seq_length. reflexivity.
  - intros t Ht. rewrite E by lia. unfold nm_entry. destruct t as [|t]; [reflexivity|].
    cbn [Nat.eqb andb].
    replace ((1 <=? S t)%nat && (S t <=? S t)%nat) with true
      by (symmetry; apply andb_true_iff; split; apply Nat.leb_le; lia).
    rewrite Nat.sub_diag, Nat.sub_0_r, Mon. reflexivity.
  - intros t c Ht Hc. rewrite E by lia. unfold nm_entry.
    destruct c as [|c]; [lia|]. rewrite andb_false_r.
    replace ((1 <=? S c)%nat && (S c <=? t)%nat) with false; [reflexivity|].
    symmetry. apply andb_false_iff. right. apply Nat.leb_gt. lia.
Qed.

Lemma non_monic_total_monic f deg : length f = S deg -> (1 <= deg)%nat -> nth deg f 0 = 1 ->
  exists o0, non_monic_initial_order f = Done o0.
Proof.
  intros Lf D1 Mon. unfold non_monic_initial_order. rewrite (Round2W3Step.deg_alloc_len f deg Lf). cbn [bind].
  destruct (deg =? 0)%nat eqn:E0; [apply Nat.eqb_eq in E0; lia|].
  apply (Round2W4Disc.hnf_reduce_lower_total (n := deg)); [assumption|].
  apply nm_lower_monic; assumption.
Qed.

(** ** [P] find_integral_basis_no_panic_monic *)
Theorem find_integral_basis_no_panic_monic m f deg :
  PolyZ.canonZ f = true -> length f = S deg -> (1 <= deg)%nat -> 2 * Z.of_nat deg < two64 -> nth deg f 0 = 1 ->
  (forall o0 d0, non_monic_initial_order f = Done o0 -> order_disc m o0 f = Done d0 ->
     d0 <> 0 /\ Z.log2 (Z.abs d0) < two64) ->
  exists O, find_integral_basis m f = Done O /\ is_order f deg O.
Proof.
  intros Cf Lf D1 Small Mon Hd.
  destruct (non_monic_total_monic f deg Lf D1 Mon) as [o0 N0].
  destruct (monic_start_table f deg o0 Cf Lf D1 Mon N0) as [T0 GT0].
  pose proof (start_is_order f deg o0 T0 Lf D1 N0 GT0) as IO0.
  destruct (is_order_disc m f deg Cf Lf D1 Small o0 IO0) as [d0 Dd0].
  destruct (Hd o0 d0 N0 Dd0) as [Dn Db].
  destruct (trial_factorize_spec (Z.abs d0) ltac:(lia)) as [fac [TF _]].
  pose proof (trial_factorize_fac_ok d0 fac Dn Db TF) as FO.
  unfold find_integral_basis. rewrite N0. cbn [bind]. rewrite Dd0. cbn [bind]. rewrite TF. cbn [bind].
  apply (primes_loop_ok m f deg Cf Lf D1 Small fac o0 d0 IO0 Dd0 FO).
Qed.

(** [P] prime_loop_no_underflow: the statement of [prime_loop_no_underflow_partial] without the integrality
    hypothesis, for the orders of the driver: the [while] loop at a prime never panics *)
Theorem prime_loop_no_underflow_order m f deg p :
  PolyZ.canonZ f = true -> length f = S deg -> (1 <= deg)%nat -> 2 * Z.of_nat deg < two64 -> prime p ->
  forall fuel o e r d t,
  is_order f deg o -> order_disc m o f = Done d -> d = p ^ e * r -> rel_prime p r -> 0 <= e < two64 ->
  prime_loop fuel m f o p e <> Panic t.
Proof.
  intros Cf Lf D1 Small Pp fuel o e r d t IO Dd Ed Rp He H.
  pose proof (prime_loop_ok m f deg Cf Lf D1 Small p Pp fuel o e r d IO Dd Ed Rp He) as PL.
  rewrite H in PL. exact PL.
Qed.
