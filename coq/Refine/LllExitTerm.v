(** C20: termination of the exact LLL: for every square rational basis with linearly independent rows
    there is a fuel from which on the run returns.

    Potential: with c a common denominator of the entries, P = prod_{i<n} c^(2(i+1)) d_i, d_i the leading
    Gram determinants of the current basis. P is a positive integer ([LllExitDet.gs_prod_is_int]: a Gram
    determinant of integer vectors), unchanged by step 2 and RED, strictly smaller after every SWAP
    ([LllExitFull.swap_gd]). So the number of swaps is at most P_0, the number of outer iterations at most
    2 P_0 + n.   (stdlib; lia, ring on Qc, lra on Q.)

    NOT proved: that the particular fuel [Lll.lll_fuel] suffices. *)
From RNT.Model Require Import Base Lll.
From RNT.Refine Require Import LllMat LllGS LllSqrt LllShort LllH LllHB LllReduced
     LllExitStep2 LllExitIndep LllExitLoop LllExitGS LllExitTotal LllExitPotential LllExitFull LllExit.
From RNT.Refine Require LllExitDet.
From Coq Require Import Lia QArith Qcanon Lqa.
Open Scope Z_scope.

Local Notation F := arithQ.
Local Notation "x +q y" := (Qcplus x y) (at level 50, left associativity).
Local Notation "x *q y" := (Qcmult x y) (at level 40, left associativity).
Local Notation "x -q y" := (Qcminus x y) (at level 50, left associativity).
Local Notation q0 := (Q2Qc 0).
Local Notation q1 := (Q2Qc 1).

(** ** integers inside Qc *)
Definition is_int (x : Qc) : Prop := exists z : Z, x = Qc_of_Z z.

Lemma is_int_ofZ z : is_int (Qc_of_Z z).
Proof. exists z. reflexivity. Qed.
Lemma is_int_mul x y : is_int x -> is_int y -> is_int (x *q y).
Proof. intros [a ->] [b ->]. exists (a * b). rewrite Qc_of_Z_mul. reflexivity. Qed.
Lemma is_int_sub x y : is_int x -> is_int y -> is_int (x -q y).
Proof. intros [a ->] [b ->]. exists (a + - b). rewrite Qc_of_Z_add, Qc_of_Z_opp. reflexivity. Qed.
Lemma is_int_1 : is_int q1.
Proof. exists 1. apply Qc_is_canon. reflexivity. Qed.

Lemma ofZ_lt a b : Qclt (Qc_of_Z a) (Qc_of_Z b) <-> a < b.
Proof. unfold Qclt. rewrite !this_ofZ. unfold Qlt, inject_Z. cbn [Qnum Qden]. lia. Qed.
Lemma ofZ_le a b : Qcle (Qc_of_Z a) (Qc_of_Z b) <-> a <= b.
Proof. unfold Qcle. rewrite !this_ofZ. unfold Qle, inject_Z. cbn [Qnum Qden]. lia. Qed.

Lemma qprod_int m f : (forall j, (j < m)%nat -> is_int (f j)) -> is_int (qprod m f).
Proof.
  induction m as [|m IH]; intros H; cbn [qprod]; [exact is_int_1|].
  apply is_int_mul; [apply IH; intros; apply H; lia|apply H; lia].
Qed.

Lemma qprod_scale a f : forall m, qprod m (fun j => a *q f j) = qprod m (fun _ => a) *q qprod m f.
Proof. induction m as [|m IH]; cbn [qprod]; [ring|]. rewrite IH. ring. Qed.

Lemma qc_mul_lt_l a x y : Qclt q0 a -> Qclt x y -> Qclt (a *q x) (a *q y).
Proof. intros Ha H. to_Q. nra. Qed.
Lemma qc_mul_lt_r a x y : Qclt q0 a -> Qclt x y -> Qclt (x *q a) (y *q a).
Proof. intros Ha H. to_Q. nra. Qed.

(** one factor strictly smaller, the others equal, all positive *)
Lemma qprod_lt_one f g j : forall m, (j < m)%nat ->
  (forall i, (i < m)%nat -> Qclt q0 (f i)) -> (forall i, (i < m)%nat -> Qclt q0 (g i)) ->
  Qclt (f j) (g j) -> (forall i, (i < m)%nat -> i <> j -> f i = g i) ->
  Qclt (qprod m f) (qprod m g).
Proof.
  induction m as [|m IH]; intros Hj Pf Pg Lt Eq; [lia|]. cbn [qprod].
  destruct (Nat.eq_dec j m) as [->|Hne].
  - rewrite (qprod_ext m f g) by (intros i Hi; apply Eq; lia).
    apply qc_mul_lt_l; [apply qprod_pos; intros; apply Pg; lia|exact Lt].
  - rewrite (Eq m) by lia. apply qc_mul_lt_r; [apply Pg; lia|].
    apply IH; try assumption; try lia; intros; try apply Pf; try apply Pg; try apply Eq; lia.
Qed.

Section Term.
Variable n : nat.
Variable cz : Z.
Hypothesis Hc : 0 < cz.
Let c : Qc := Qc_of_Z cz.
Let c2 : Qc := c *q c.

Lemma c_pos : Qclt q0 c.
Proof. change q0 with (Qc_of_Z 0). apply (proj2 (ofZ_lt _ _)). exact Hc. Qed.
Lemma c2_pos : Qclt q0 c2.
Proof. apply qc_mul_pos; exact c_pos. Qed.

(** the scaled leading Gram determinants and the potential of a basis *)
Definition sgd (B : list (list Qc)) (i : nat) : Qc := qprod (S i) (fun _ => c2) *q gd B i.
Definition pot (B : list (list Qc)) : Qc := qprod n (sgd B).

Definition scaled_int (s : lstate (T:=Qc)) : Prop :=
  forall a p, (a < n)%nat -> (p < n)%nat -> is_int (c *q Bv s a p).
Definition tinv (s : lstate (T:=Qc)) : Prop := linv n s /\ scaled_int s.

Lemma tinv_with_k s k : tinv s -> tinv (with_k s k).
Proof. intros [L I]. split; [apply linv_with_k; exact L|exact I]. Qed.

Lemma gd_pos s : linv n s -> forall i, (i < n)%nat -> Qclt q0 (gd (l_basis s) i).
Proof. intros L i Hi. unfold gd. apply qprod_pos. intros j Hj. apply (dN_pos n s L). lia. Qed.

Lemma sgd_pos s : linv n s -> forall i, (i < n)%nat -> Qclt q0 (sgd (l_basis s) i).
Proof.
  intros L i Hi. unfold sgd. apply qc_mul_pos; [apply qprod_pos; intros; exact c2_pos|apply gd_pos; assumption].
Qed.

Lemma pot_pos s : linv n s -> Qclt q0 (pot (l_basis s)).
Proof. intros L. unfold pot. apply qprod_pos. intros i Hi. apply sgd_pos; assumption. Qed.

(** the scaled Gram determinants are integers *)
Lemma sgd_int s : tinv s -> forall i, (i < n)%nat -> is_int (sgd (l_basis s) i).
Proof.
  intros [L SI] i Hi.
  destruct (complete_state' n s L) as (t & Lt & Et & EB & _).
  pose proof (li_gs n t Lt) as G.
  unfold sgd. rewrite <- EB, (full_gd n t Lt Et i Hi). unfold gramdet. rewrite <- qprod_scale.
  destruct (@LllExitDet.gs_prod_is_int n i (fun a p => c *q Bv t a p) (fun a p => c *q Sv t a p) (Mu t)
              (fun j => c2 *q Nb t j)) as [z Ez]; [exact Hi| | | | |exists z; exact Ez].
  - intros a p Ha Hp. rewrite (gs1 n t G a p) by lia.
    rewrite (qsum_ext a (fun j => Mu t a j *q (c *q Sv t j p)) (fun j => c *q (Mu t a j *q Sv t j p))) by (intros; ring).
    rewrite qsum_scale. ring.
  - intros a b Ha Hb Hne.
    rewrite (qsum_ext n _ (fun p => c2 *q (Sv t a p *q Sv t b p))) by (intros; unfold c2; ring).
    rewrite qsum_scale, (gs2 n t G a b) by lia. ring.
  - intros a Ha. rewrite (gs3 n t G a) by lia. rewrite <- qsum_scale. apply qsum_ext. intros. unfold c2. ring.
  - intros a p Ha Hp. unfold Bv. rewrite EB. apply SI; lia.
Qed.

Lemma pot_int s : tinv s -> exists z, 1 <= z /\ pot (l_basis s) = Qc_of_Z z.
Proof.
  intros T. destruct (qprod_int n (sgd (l_basis s)) (sgd_int s T)) as [z Ez].
  exists z. split; [|exact Ez].
  pose proof (pot_pos s (proj1 T)) as P. unfold pot in *. rewrite Ez in P.
  change q0 with (Qc_of_Z 0) in P. apply (proj1 (ofZ_lt 0 z)) in P. lia.
Qed.

Definition bounded (s : lstate (T:=Qc)) (m : nat) : Prop := Qcle (pot (l_basis s)) (Qc_of_Z (Z.of_nat m)).

Lemma bounded_ge1 s m : tinv s -> bounded s m -> (1 <= m)%nat.
Proof.
  intros T B. destruct (pot_int s T) as (z & Hz & Ez). unfold bounded in B. rewrite Ez in B.
  apply (proj1 (ofZ_le _ _)) in B. lia.
Qed.

Lemma bounded_drop s s' m : tinv s -> tinv s' -> Qclt (pot (l_basis s')) (pot (l_basis s)) ->
  bounded s (S m) -> bounded s' m.
Proof.
  intros T T' Lt B. destruct (pot_int s T) as (z & Hz & Ez). destruct (pot_int s' T') as (z' & Hz' & Ez').
  unfold bounded in *. rewrite Ez in *. rewrite Ez' in *.
  apply (proj1 (ofZ_lt _ _)) in Lt. apply (proj1 (ofZ_le _ _)) in B. apply (proj2 (ofZ_le _ _)). lia.
Qed.

Lemma bounded_same s s' m : pot (l_basis s') = pot (l_basis s) -> bounded s m -> bounded s' m.
Proof. unfold bounded. intros ->. exact (fun H => H). Qed.

(** ** the steps *)
Lemma red_tinv s k l s' : tinv s -> (l < k)%nat -> (k <= l_kmax s)%nat -> red F n s k l = Done s' ->
  tinv s' /\ l_k s' = l_k s /\ l_kmax s' = l_kmax s /\ pot (l_basis s') = pot (l_basis s).
Proof.
  intros [L SI] Hl Hk R. pose proof (li_wf n s L) as W.
  assert (Hkn : (k < n)%nat) by (destruct W as (_ & _ & _ & _ & ? & _); lia).
  destruct (red_entries n s k l s' W Hl Hkn R) as (q & Emax & Ek & _ & _ & _ & EB & _).
  split; [split|].
  - exact (red_linv n s k l s' L Hl Hk R).
  - intros a p Ha Hp. rewrite EB. destruct (Nat.eqb_spec a k) as [->|Hne]; [|apply SI; assumption].
    replace (c *q (Bv s k p -q Qc_of_Z q *q Bv s l p)) with (c *q Bv s k p -q Qc_of_Z q *q (c *q Bv s l p)) by ring.
    apply is_int_sub; [apply SI; lia|apply is_int_mul; [apply is_int_ofZ|apply SI; lia]].
  - split; [exact Ek|]. split; [exact Emax|].
    unfold pot. apply qprod_ext. intros i Hi. unfold sgd, gd. f_equal. apply qprod_ext. intros j Hj.
    apply (red_dN n s k l s' L Hl Hk R). lia.
Qed.

Lemma swap_tinv s s' : tinv s -> (1 <= l_k s <= l_kmax s)%nat ->
  lovasz_fails F s = true -> swap F n s (l_k s - 1) = Done s' ->
  tinv s' /\ l_k s' = l_k s /\ l_kmax s' = l_kmax s /\ Qclt (pot (l_basis s')) (pot (l_basis s)).
Proof.
  intros [L SI] Hk LF SW. pose proof (li_wf n s L) as W.
  assert (Hkn : (l_kmax s < n)%nat) by (destruct W as (_ & _ & _ & _ & ? & _); lia).
  destruct (swap_linv n s (l_k s - 1)%nat s' L ltac:(lia) SW) as (L' & Emax & Ek & _).
  destruct (swap_entries n s (l_k s - 1)%nat s' W ltac:(lia) SW) as (_ & _ & _ & EB & _).
  destruct (swap_gd n s s' L Hk LF SW) as (G1 & G2 & G3).
  split; [split; [exact L'|]|split; [exact Ek|split; [exact Emax|]]].
  - intros a p Ha Hp. rewrite EB. apply SI; [apply sw_lt; lia|exact Hp].
  - unfold pot. apply (qprod_lt_one _ _ (l_k s - 1)%nat); [lia| | | |].
    + intros i Hi. apply sgd_pos; assumption.
    + intros i Hi. apply sgd_pos; assumption.
    + unfold sgd. apply qc_mul_lt_l; [apply qprod_pos; intros; exact c2_pos|exact G1].
    + intros i Hi Hne. unfold sgd. rewrite G2 by assumption. reflexivity.
Qed.

Lemma step2_tinv s : tinv s -> (1 <= l_k s < n)%nat -> (l_k s <= S (l_kmax s))%nat ->
  tinv (step2 F s) /\ l_k (step2 F s) = l_k s /\ (l_k s <= l_kmax (step2 F s))%nat /\
  l_basis (step2 F s) = l_basis s.
Proof.
  intros [L SI] Hk Hmax.
  destruct (step2_linv n s L Hk Hmax) as (L' & Ek & Hle & _).
  assert (EB : l_basis (step2 F s) = l_basis s).
  { destruct (Nat.le_gt_cases (l_k s) (l_kmax s)) as [Hle'|Hgt].
    - rewrite (step2_id s Hle'). reflexivity.
    - destruct (step2_entries n s (li_wf n s L) ltac:(lia) Hgt) as (_ & _ & EB & _). exact EB. }
  split; [split; [exact L'|]|split; [exact Ek|split; [exact Hle|exact EB]]].
  intros a p Ha Hp. unfold Bv. rewrite EB. apply SI; assumption.
Qed.

(** ** the loops *)
Lemma inner_term : forall m s, tinv s -> (1 <= l_k s <= l_kmax s)%nat -> bounded s m ->
  forall fuel, (m + 1 <= fuel)%nat ->
  exists s' j, inner_loop F fuel n s = Done s' /\ tinv s' /\ (1 <= l_k s' <= l_kmax s')%nat /\
    (j <= m)%nat /\ bounded s' (m - j) /\ (l_k s <= l_k s' + j)%nat.
Proof.
  induction m as [|m IH]; intros s T Hk B fuel Hf.
  - pose proof (bounded_ge1 s 0 T B). lia.
  - destruct fuel as [|f]; [lia|]. cbn [inner_loop].
    pose proof (li_wf n s (proj1 T)) as W.
    assert (Hkn : (l_k s < n)%nat) by (destruct W as (_ & _ & _ & _ & ? & _); lia).
    destruct (red_total n s (l_k s) (l_k s - 1)%nat W ltac:(lia) Hkn) as [s1 R]. rewrite R. cbn [bind].
    destruct (red_tinv s (l_k s) (l_k s - 1)%nat s1 T ltac:(lia) ltac:(lia) R) as (T1 & Ek1 & Emax1 & EP1).
    destruct (lovasz_fails F s1) eqn:LF.
    + destruct (swap_total n s1 (l_k s1 - 1)%nat (li_wf n s1 (proj1 T1)) ltac:(lia)) as [s2 SW]. rewrite SW. cbn [bind].
      destruct (swap_tinv s1 s2 T1 ltac:(lia) LF SW) as (T2 & Ek2 & Emax2 & LT).
      assert (B2 : bounded s2 m).
      { apply (bounded_drop s1 s2 m T1 T2 LT). apply (bounded_same s s1); assumption. }
      destruct (IH (with_k s2 (Nat.max 1 (l_k s2 - 1))) (tinv_with_k s2 _ T2)
                   ltac:(cbn [with_k l_k l_kmax]; lia) B2 f ltac:(lia)) as (s' & j & E & T' & Hk' & Hj & B' & Hkk).
      cbn [with_k l_k] in Hkk.
      exists s', (S j). split; [exact E|]. split; [exact T'|]. split; [exact Hk'|]. split; [lia|].
      split; [replace (S m - S j)%nat with (m - j)%nat by lia; exact B'|lia].
    + exists s1, 0%nat. split; [reflexivity|]. split; [exact T1|]. split; [lia|]. split; [lia|].
      split; [rewrite Nat.sub_0_r; apply (bounded_same s s1); assumption|lia].
Qed.

Lemma red_down_term : forall cnt s, tinv s -> (cnt < l_k s)%nat -> (l_k s <= l_kmax s)%nat ->
  exists s', red_down F n s cnt = Done s' /\ tinv s' /\ l_k s' = l_k s /\ l_kmax s' = l_kmax s /\
             pot (l_basis s') = pot (l_basis s).
Proof.
  induction cnt as [|cnt IH]; intros s T Hcnt Hk; cbn [red_down].
  - exists s. repeat split; try reflexivity; apply T.
  - pose proof (li_wf n s (proj1 T)) as W.
    assert (Hkn : (l_k s < n)%nat) by (destruct W as (_ & _ & _ & _ & ? & _); lia).
    destruct (red_total n s (l_k s) cnt W ltac:(lia) Hkn) as [s1 R]. rewrite R. cbn [bind].
    destruct (red_tinv s (l_k s) cnt s1 T ltac:(lia) Hk R) as (T1 & Ek1 & Emax1 & EP1).
    destruct (IH s1 T1 ltac:(lia) ltac:(lia)) as (s' & E & T' & Ek' & Emax' & EP').
    exists s'. split; [exact E|]. split; [exact T'|]. split; [lia|]. split; [lia|]. rewrite EP'. exact EP1.
Qed.

Lemma main_term : forall w s m, tinv s -> (1 <= l_k s < n)%nat -> (l_k s <= S (l_kmax s))%nat ->
  bounded s m -> (2 * m + (n - l_k s) <= w)%nat ->
  forall fuel, (w + m + 2 <= fuel)%nat -> exists s', main_loop F fuel n s = Done s'.
Proof.
  induction w as [|w IH]; intros s m T Hk Hmax B Hw fuel Hf; [lia|].
  destruct fuel as [|f]; [lia|]. cbn [main_loop].
  destruct (step2_tinv s T Hk Hmax) as (T0 & Ek0 & Hle0 & EB0).
  assert (B0 : bounded (step2 F s) m) by (apply (bounded_same s); [rewrite EB0; reflexivity|exact B]).
  destruct (inner_term m (step2 F s) T0 ltac:(lia) B0 f ltac:(lia)) as (s1 & j & E1 & T1 & Hk1 & Hj & B1 & Hkk).
  rewrite E1. cbn [bind].
  destruct (red_down_term (l_k s1 - 1)%nat s1 T1 ltac:(lia) ltac:(lia)) as (s2 & E2 & T2 & Ek2 & Emax2 & EP2).
  rewrite E2. cbn [bind].
  destruct (Nat.leb_spec n (l_k s2 + 1)) as [Hex|Hgo]; [exists s2; reflexivity|].
  pose proof (li_wf n s2 (proj1 T2)) as W2.
  apply (IH (with_k s2 (l_k s2 + 1)) (m - j)%nat).
  - apply tinv_with_k. exact T2.
  - cbn [with_k l_k]. lia.
  - cbn [with_k l_k l_kmax]. lia.
  - apply (bounded_same s1); [exact EP2|exact B1].
  - cbn [with_k l_k]. lia.
  - lia.
Qed.

End Term.

(** ** a common denominator of the entries *)
Definition row_den (r : list Qc) : Z := fold_right (fun x a => Zpos (Qden (this x)) * a) 1 r.
Definition mat_den (B : list (list Qc)) : Z := fold_right (fun r a => row_den r * a) 1 B.

Lemma row_den_pos r : 0 < row_den r.
Proof. induction r as [|x r IH]; cbn [row_den fold_right]; [lia|]. fold (row_den r). lia. Qed.
Lemma mat_den_pos B : 0 < mat_den B.
Proof.
  induction B as [|r B IH]; cbn [mat_den fold_right]; [lia|]. fold (mat_den B).
  pose proof (row_den_pos r). lia.
Qed.

Lemma row_den_div r x : In x r -> exists e, row_den r = Zpos (Qden (this x)) * e.
Proof.
  induction r as [|y r IH]; intros H; [destruct H|]. cbn [row_den fold_right]. fold (row_den r).
  destruct H as [->|H]; [exists (row_den r); reflexivity|].
  destruct (IH H) as [e E]. exists (Zpos (Qden (this y)) * e). rewrite E. ring.
Qed.
Lemma mat_den_div B r x : In r B -> In x r -> exists e, mat_den B = Zpos (Qden (this x)) * e.
Proof.
  induction B as [|r' B IH]; intros Hr Hx; [destruct Hr|]. cbn [mat_den fold_right]. fold (mat_den B).
  destruct Hr as [->|Hr].
  - destruct (row_den_div r x Hx) as [e E]. exists (e * mat_den B). rewrite E. ring.
  - destruct (IH Hr Hx) as [e E]. exists (row_den r' * e). rewrite E. ring.
Qed.

Lemma den_clears (x : Qc) e : Qc_of_Z (Zpos (Qden (this x)) * e) *q x = Qc_of_Z (e * Qnum (this x)).
Proof.
  apply Qc_is_canon. rewrite this_mult, !this_ofZ.
  destruct x as [[a d] Hx]. cbn [this Qnum Qden]. unfold Qeq, Qmult, inject_Z. cbn [Qnum Qden]. nia.
Qed.

(** [P] (exact arithmetic) termination: from some fuel on the run returns *)
Theorem lll_exact_terminates : forall B : list (list Qc),
  (2 <= length B)%nat -> Forall (fun r => length r = length B) B -> rows_independent B ->
  exists fuel0, forall fuel, (fuel0 <= fuel)%nat -> exists B' H, lll arithQ fuel B = Done (B', H).
Proof.
  intros B Hn Sq Ind. set (n := length B) in *.
  destruct (init_linv B Hn Sq Ind) as [L0 _]. fold n in L0.
  match type of L0 with linv _ ?st => set (s0 := st) in * end.
  assert (T0 : tinv n (mat_den B) s0).
  { split; [exact L0|]. intros a p Ha Hp. unfold Bv. cbn [s0 l_basis].
    assert (Hr : In (nth a B []) B) by (apply nth_In; fold n; exact Ha).
    assert (Hx : In (nth p (nth a B []) q0) (nth a B [])).
    { apply nth_In. rewrite (proj1 (Forall_forall _ _) Sq _ Hr). exact Hp. }
    destruct (mat_den_div B _ _ Hr Hx) as [e E]. rewrite E, den_clears. apply is_int_ofZ. }
  destruct (pot_int n (mat_den B) (mat_den_pos B) s0 T0) as (z & Hz & Ez).
  set (m := Z.to_nat z).
  assert (B0 : bounded n (mat_den B) s0 m).
  { unfold bounded. rewrite Ez. apply (proj2 (ofZ_le _ _)). unfold m. lia. }
  exists (2 * m + n + m + 2)%nat. intros fuel Hf.
  destruct (main_term n (mat_den B) (mat_den_pos B) (2 * m + n)%nat s0 m T0
              ltac:(cbn [s0 l_k]; lia) ltac:(cbn [s0 l_k l_kmax]; lia) B0 ltac:(cbn [s0 l_k]; lia) fuel Hf) as [s' M].
  unfold lll. fold n. destruct (Nat.ltb_spec n 2) as [|_]; [lia|].
  assert (Rect : rectangular B = true).
  { unfold rectangular. apply forallb_forall. intros r Hr. apply Nat.eqb_eq.
    rewrite (proj1 (Forall_forall _ _) Sq r Hr).
    destruct B as [|r0 B']; [cbn in Hn; lia|]. cbn [hd]. symmetry. inversion Sq; assumption. }
  rewrite Rect. cbn [negb]. fold n. fold s0. rewrite M. cbn [bind].
  exists (l_basis s'), (l_h s'). reflexivity.
Qed.

(** [P] total correctness of the exact instance from that fuel on *)
Corollary lll_exact_total : forall B : list (list Qc),
  (2 <= length B)%nat -> Forall (fun r => length r = length B) B -> rows_independent B ->
  exists fuel0, forall fuel, (fuel0 <= fuel)%nat ->
    exists B' H, lll arithQ fuel B = Done (B', H) /\
      elem_reachable (length B) H /\
      B' = qmmul (length B) (injM H) B /\
      lll_reduced_prop Qc_34 B'.
Proof.
  intros B Hn Sq Ind. destruct (lll_exact_terminates B Hn Sq Ind) as [fuel0 T].
  exists fuel0. intros fuel Hf. destruct (T fuel Hf) as (B' & H & R).
  exists B', H. split; [exact R|].
  destruct (proj2 (lll_exact_correct fuel B Hn Sq Ind) B' H R) as ((E & _) & HB & Red).
  split; [exact E|]. split; [exact HB|exact Red].
Qed.
