(** * C12: the number of returned roots against the degree of f modulo p (ssreflect).

    The returned values r1, ..., rn satisfy f = (X - r1) ... (X - rn) g modulo p for some g, hence
    n <= deg (f mod p), with equality when f splits into linear factors. *)
From Coq Require Import ZArith List Lia Znumtheory Permutation.
From mathcomp Require Import all_ssreflect ssralg poly.
From RNT.Model Require Import Base Poly PolyModP FactorModP LinearRoots.
From RNT.Refine Require Import PolyModPArith PolyModPDivList FermatZ PolyZmod PolyModPDiv MonicZ PolyModPGcd FpPoly DrawBounds FpTotal FactorNorm HenselProofs C08Lists RootsProofs RootsComplete RootsMult RootsMultImpl RootsMultTop.
From mathcomp Require Import ssrZ zify ring.
Set Implicit Arguments. Unset Strict Implicit. Unset Printing Implicit Defensive.
Import GRing.Theory.
Local Open Scope ring_scope.

Section Prime.
Variable p : Z.
Hypothesis Hp : Znumtheory.prime p.
Let Hp2 := prime_ge_2 _ Hp.
Let Hpp : (0 < p)%ZZ. Proof. lia. Qed.
Let Hp0 : p <> Z0. Proof. lia. Qed.

(** A reduced list congruent to F, whose leading coefficient is not divisible by p, has the
    length of F. *)
Lemma reduced_length_of_eqpm f1 (F : {poly Z}) :
  reduced p f1 -> eqpm p (PZ f1) F -> ~ (p | lead_coef F)%ZZ -> length f1 = size F.
Proof.
  move=> [C1 I1] E Nl.
  have NF : F != 0.
  { apply/eqP => E0. apply: Nl. rewrite E0 lead_coef0. exact: Z.divide_0_r. }
  have SF : (0 < size F)%nat by rewrite size_poly_gt0.
  have Hge : (size F <= length f1)%coq_nat.
  { case: (Nat.lt_ge_cases (length f1) (size F)) => // Hlt. exfalso. apply: Nl.
    have := eqpm_coef E (size F).-1. rewrite coefPZ List.nth_overflow; last lia.
    rewrite Z.mod_0_l // -/(lead_coef F) => E0. apply: Zmod_divide => //. }
  case: (Nat.eq_dec (length f1) (size F)) => // Hne. exfalso.
  have Hn : f1 <> [::] by move=> E0; move: Hge Hne SF; rewrite E0 /=; lia.
  have L0 := canonical_last _ C1 Hn. have B := last_in_range_aux p _ Hn I1.
  have := eqpm_coef E (length f1 - 1)%coq_nat.
  rewrite coefPZ -last_nth_len (@seq.nth_default _ _ F); last lia.
  rewrite Z.mod_0_l // Z.mod_small //.
Qed.

(** A polynomial that is not 0 modulo p has a representative whose leading coefficient is not
    divisible by p. *)
Lemma nonzero_rep (g : {poly Z}) : ~ eqpm p g 0 ->
  exists g' : {poly Z}, eqpm p g g' /\ ~ (p | lead_coef g')%ZZ.
Proof.
  move=> Ng. pose g' : {poly Z} := \poly_(i < size g) (Z.modulo g`_i p).
  have Eg : eqpm p g g'.
  { apply: eqpm_of_coef => i. rewrite coef_poly. case: ltnP => Hi; first by rewrite Z.mod_mod.
    by rewrite (seq.nth_default _ Hi). }
  exists g'. split=> //.
  have Hn : g' != 0.
  { apply/eqP => E0. apply: Ng. by rewrite -E0. }
  have Hl : lead_coef g' = Z.modulo g`_(size g').-1 p.
  { rewrite /lead_coef /g' coef_poly. case: ltnP => // Hi.
    exfalso. have : lead_coef g' = 0 by rewrite /lead_coef /g' coef_poly ltnNge Hi.
    move/eqP. by rewrite lead_coef_eq0 (negbTE Hn). }
  have B := Z.mod_pos_bound g`_(size g').-1 p ltac:(lia).
  have Nz : lead_coef g' <> Z0 by move/eqP; rewrite lead_coef_eq0 (negbTE Hn).
  move=> D. have := Zdivide_le p (lead_coef g') ltac:(lia) ltac:(lia) D. lia.
Qed.

(** If every x of [0, p) has multiplicity [cnt l x] in f, the product of the X - r, r in l,
    divides f modulo p. *)
Lemma hmult_factor : forall (l : list Z) (f : {poly Z}),
  ~ eqpm p f 0 -> List.Forall (fun x => (0 <= x < p)%ZZ) l -> hmult p f l ->
  exists g : {poly Z}, eqpm p f (\prod_(r <- l) ('X - r%:P) * g).
Proof.
  elim=> [|r l IH] f Nf Fl H.
  - exists f. rewrite big_nil mul1r. exact: eqpm_refl.
  - have [Br Fl'] : (0 <= r < p)%ZZ /\ List.Forall (fun x => (0 <= x < p)%ZZ) l by inversion Fl.
    have Cr : cnt (r :: l) r = (cnt l r).+1.
    { rewrite /cnt /=. by case: (Z.eq_dec r r). }
    have [g0 [Eg0 Ng0]] := H r Br. rewrite Cr in Eg0.
    pose f' : {poly Z} := ('X - r%:P) ^+ (cnt l r) * g0.
    have Ef : eqpm p f (('X - r%:P) * f') by rewrite /f' mulrA -exprS.
    have Nf' : ~ eqpm p f' 0.
    { move=> E0. apply: Nf. apply: eqpm_trans Ef _.
      have -> : (0 : {poly Z}) = ('X - r%:P) * 0 by rewrite mulr0. exact: eqpm_mull. }
    have H' : hmult p f' l.
    { move=> x Bx. case: (Z.eq_dec r x) => [<-|Nrx].
      - exists g0. split=> //. exact: eqpm_refl.
      - have [k' Mk'] := multm_exists Hp x Nf'.
        have M1 : multm p ('X - r%:P) x 0.
        { have := multm_XsubC Hp r Bx. rewrite Z.mod_small //. by case: (Z.eq_dec r x). }
        have M2 := multm_eqpm Ef (multm_mul Hp M1 Mk').
        have Cx : cnt (r :: l) x = cnt l x.
        { rewrite /cnt /=. by case: (Z.eq_dec r x). }
        have := multm_uniq Hp (H x Bx) M2. rewrite Cx add0n => ->. exact: Mk'. }
    have [g Eg] := IH f' Nf' Fl' H'.
    exists g. rewrite big_cons -mulrA. apply: eqpm_trans Ef _. exact: eqpm_mull.
Qed.

(** hmult never holds of the zero polynomial. *)
Lemma hmult_nonzero f l : hmult p f l -> ~ eqpm p f 0.
Proof.
  move=> H E0. have B0 : (0 <= 0 < p)%ZZ by lia.
  have [g [Eg Ng]] := H Z0 B0. apply: Ng.
  have M : ('X - 0%ZZ%:P) ^+ cnt l 0%ZZ \is @monic [ringType of Z] by apply: monic_exp; exact: monicXsubC.
  have Eg0 := monic_cancel Hp M (eqpm_trans (eqpm_sym Eg) E0).
  apply: (rootm_eqpm Eg0). exact: rootm_0.
Qed.

Lemma hmult_length f1 l :
  reduced p f1 -> List.Forall (fun x => (0 <= x < p)%ZZ) l -> hmult p (PZ f1) l ->
  (length l < length f1)%coq_nat.
Proof.
  move=> R1 Fl H. have Nf := hmult_nonzero H.
  have [g Eg] := hmult_factor Nf Fl H.
  have Ng : ~ eqpm p g 0.
  { move=> E0. apply: Nf. apply: eqpm_trans Eg _.
    have -> : (0 : {poly Z}) = \prod_(r <- l) ('X - r%:P) * 0 by rewrite mulr0. exact: eqpm_mull. }
  have [g' [Egg' Nl]] := nonzero_rep Ng.
  have Mm : \prod_(r <- l) ('X - r%:P) \is @monic [ringType of Z] by apply: monic_prod_XsubC.
  have Ng' : g' != 0.
  { apply/eqP => E0. apply: Nl. rewrite E0 lead_coef0. exact: Z.divide_0_r. }
  have EF : eqpm p (PZ f1) (\prod_(r <- l) ('X - r%:P) * g').
  { apply: eqpm_trans Eg _. exact: eqpm_mull. }
  have Nl' : ~ (p | lead_coef (\prod_(r <- l) ('X - r%:P) * g'))%ZZ by rewrite lead_coef_monicM.
  rewrite (reduced_length_of_eqpm R1 EF Nl') size_monicM // size_prod_XsubC.
  have : (0 < size g')%nat by rewrite size_poly_gt0.
  rewrite (lengthE l). move: (size g') (size l) => a b. lia.
Qed.

End Prime.

(** [find_linear_factors] appends the root multiset of [poly_mod f p]. *)
Lemma roots_hmult md f p r roots r' f1 :
  Znumtheory.prime p -> find_linear_factors md f p r = Done (roots, r') ->
  poly_mod f p = Done f1 -> hmult p (PZ f1) roots.
Proof.
  move=> Hp. rewrite /find_linear_factors => H Em. move: H. rewrite Em /=.
  have Hp2 := prime_ge_2 _ Hp. have Hpp : (0 < p)%ZZ by lia.
  have R1 := poly_mod_is_reduced Hpp Em.
  case: (Z.eqb_spec p 2) => [E2|N2].
  - case Ei: (find_linear_factors_impl_mod2 md f1 [::]) => [res| |] //=. case=> <- _.
    rewrite E2 in R1 *. exact: (impl_mod2_mult R1 Ei).
  - move=> Ei. have [new [En H]] := impl_mult Hp N2 R1 Ei. by rewrite En.
Qed.

(** [P] [roots_length_le_deg]: at most deg (f mod p) values are returned. *)
Theorem roots_length_le_deg md f p r roots r' f1 :
  Znumtheory.prime p -> find_linear_factors md f p r = Done (roots, r') ->
  poly_mod f p = Done f1 -> (Z.of_nat (length roots) <= pdeg f1)%ZZ.
Proof.
  move=> Hp H Em. have Hp2 := prime_ge_2 _ Hp. have Hpp : (0 < p)%ZZ by lia.
  have R1 := poly_mod_is_reduced Hpp Em.
  have Fl : List.Forall (fun x => (0 <= x < p)%ZZ) roots.
  { apply: List.Forall_impl (roots_sound Hp H) => x. by case. }
  have L := hmult_length Hp R1 Fl (roots_hmult Hp H Em).
  rewrite /pdeg. case: (f1) L => [|c0 l0]; first by rewrite /=; lia.
  move: (length (c0 :: l0)) => n Ln. lia.
Qed.

(** [P] [roots_split_deg]: if f = c (X - r1) ... (X - rn) modulo p with c <> 0 modulo p, the number
    of returned values is deg (f mod p). *)
Theorem roots_split_deg md f p r roots r' rs c f1 :
  Znumtheory.prime p ->
  peqmod p f (pmul opsZ (linprod rs) [:: c]) -> Z.modulo c p <> Z0 ->
  find_linear_factors md f p r = Done (roots, r') ->
  poly_mod f p = Done f1 -> Z.of_nat (length roots) = pdeg f1.
Proof.
  move=> Hp Ef Nc H Em. have Hp2 := prime_ge_2 _ Hp. have Hpp : (0 < p)%ZZ by lia.
  have Hp0 : p <> Z0 by lia.
  have R1 := poly_mod_is_reduced Hpp Em.
  have E1 := PZ_poly_mod Hp0 Em.
  rewrite (roots_split_length Hp Ef Nc H).
  move/(peqmodP _ _ Hp0): Ef. rewrite PZ_pmul PZ_linprod => Ef.
  have Ec : PZ [:: c] = c%:P by rewrite /PZ /= cons_poly_def mul0r add0r.
  rewrite Ec in Ef.
  have Mm : \prod_(r <- rs) ('X - r%:P) \is @monic [ringType of Z] by apply: monic_prod_XsubC.
  have Nc1 : c != 0.
  { apply/eqP => E0. apply: Nc. by rewrite E0. }
  have Nc0 : c%:P != 0 :> {poly Z} by rewrite polyC_eq0.
  have Nl : ~ (p | lead_coef (\prod_(r <- rs) ('X - r%:P) * c%:P))%ZZ.
  { rewrite lead_coef_monicM // lead_coefC => D. apply: Nc. exact: Zdivide_mod. }
  have L := reduced_length_of_eqpm Hp R1 (eqpm_trans E1 Ef) Nl.
  move: L. rewrite size_monicM // size_prod_XsubC size_polyC Nc1 (lengthE rs) => L.
  rewrite /pdeg. case: (f1) L => [|c0 l0]; first by rewrite /=; lia.
  move: (length (c0 :: l0)) => n Ln. lia.
Qed.
