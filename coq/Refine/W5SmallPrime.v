(** * W5SmallPrime: a non-zero integer of fewer than 2^30 bits is not divisible by all the primes below 2^31
    ([Znumtheory.prime], over [Z]; from the primorial lower bound of W5Primorial.v).
    All big numbers stay in binary [Z]; the [nat]s are opaque images of them. *)
From Coq Require Import ZArith Znumtheory Lia.
From mathcomp Require Import all_ssreflect.
From mathcomp Require Import zify.
From RNT.Refine Require Import BertrandZ W5Primorial.
Set Implicit Arguments.
Unset Strict Implicit.
Unset Printing Implicit Defensive.

Lemma Zpow_expn (a k : nat) : Z.of_nat (a ^ k) = (Z.of_nat a ^ Z.of_nat k)%Z.
Proof.
elim: k => [|k IH]; first by rewrite expn0.
by rewrite expnS Nat2Z.inj_mul IH Nat2Z.inj_succ Z.pow_succ_r //; lia.
Qed.

Lemma exists_small_prime_gen (n s k e D : Z) :
  (0 < n)%Z -> (0 <= s)%Z -> (0 <= k)%Z -> (0 <= e)%Z -> (2 * n < (s + 1) * (s + 1))%Z -> (2 * n <= 2 ^ k)%Z ->
  D <> 0%Z -> (Z.log2 (Z.abs D) < e)%Z -> (k * (s + 2) + e <= 2 * n)%Z ->
  exists p, [/\ Znumtheory.prime p, (p <= 2 * n)%Z & ~ (p | D)%Z].
Proof.
move=> n0 s0 k0 e0 lts lek D0 lg le.
have [n' En] : exists n' : nat, Z.of_nat n' = n by exists (Z.to_nat n); lia.
have [s' Es] : exists s' : nat, Z.of_nat s' = s by exists (Z.to_nat s); lia.
have [k' Ek] : exists k' : nat, Z.of_nat k' = k by exists (Z.to_nat k); lia.
have [e' Ee] : exists e' : nat, Z.of_nat e' = e by exists (Z.to_nat e); lia.
have [M EM] : exists M : nat, Z.of_nat M = Z.abs D by exists (Z.to_nat (Z.abs D)); lia.
have M0 : (0 < M)%N by lia.
have h1 : (0 < n')%N by lia.
have h2 : (n'.*2 < s'.+1 ^ 2)%N by rewrite -mulnn; nia.
have h3 : (n'.*2 <= 2 ^ k')%N.
  by apply/leP/Nat2Z.inj_le; rewrite Zpow_expn Ek -muln2 Nat2Z.inj_mul En /=; lia.
have h4 : (2 ^ (k' * s'.+2) * M < 2 ^ n'.*2)%N.
  have lM : (M < 2 ^ e')%N.
    apply/ltP/Nat2Z.inj_lt; rewrite Zpow_expn Ee EM /=.
    have a0 : (0 < Z.abs D)%Z by lia.
    have [_ hl] := Z.log2_spec _ a0.
    apply: Z.lt_le_trans hl _; apply: Z.pow_le_mono_r; lia.
  apply: (@leq_trans (2 ^ (k' * s'.+2) * 2 ^ e')); first by rewrite ltn_mul2l expn_gt0.
  rewrite -expnD leq_exp2l //.
  have : (Z.of_nat k' * (Z.of_nat s' + 2) + Z.of_nat e' <= 2 * Z.of_nat n')%Z by rewrite Ek Es Ee En.
  move: (k') (s') (e') (n') => a b c d; nia.
have [p [pP lep nd]] := small_prime_not_dividing h1 h2 h3 M0 h4.
exists (Z.of_nat p); split; [exact: prime_nat_Z | lia |].
move=> [c hc]; move/negP: nd; apply; apply/dvdnP; exists (Z.to_nat (Z.abs c)).
apply: Nat2Z.inj; rewrite EM hc Nat2Z.inj_mul Z.abs_mul Z2Nat.id; lia.
Qed.

(** the instance used by C07: fewer than 2^30 bits, primes below 2^31 *)
Theorem exists_prime_below_2_31 (D : Z) : D <> 0%Z -> (Z.log2 (Z.abs D) < 1073741824)%Z ->
  exists p, [/\ Znumtheory.prime p, (p < 2147483648)%Z & ~ (p | D)%Z].
Proof.
move=> D0 lg.
have [|||||||||p [pP lep nd]] := @exists_small_prime_gen 1073741823 46340 31 1073741824 D; try by [].
by exists p; split=> //; lia.
Qed.
