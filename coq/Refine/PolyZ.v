(** * PolyZ: instantiation of the polynomial refinement at Z (BigInt) and the BigInt-specific
    routines: pseudo-division, monic division, exact division, content / primitive part (C09). *)
From RNT.Model Require Import Base Poly.
From mathcomp Require Import all_ssreflect ssralg poly.
From mathcomp Require Import ssrZ zify.
From RNT.Refine Require Import PolyRefine PolyDiv.
Set Implicit Arguments.
Unset Strict Implicit.
Unset Printing Implicit Defensive.
Import GRing.Theory.
Local Open Scope ring_scope.

Notation idZ := (fun z : Z => z).

Lemma opsZ_eq : opsZ = ops_of idZ.
Proof. by []. Qed.

Lemma ofZ_natZ (n : nat) : Z.of_nat n = n%:R.
Proof.
elim: n => [|n IH] //; rewrite Nat2Z.inj_succ mulrS -IH.
exact: (esym (Z.add_1_l _)).
Qed.

Lemma zdiv_loop_eq quot i bdeg b tmp quo :
  zdiv_loop quot i bdeg b tmp quo = gdiv_loop opsZ quot i bdeg b tmp quo.
Proof.
elim: i tmp quo => [|i IH] tmp quo //=.
by case: (quot _) => [c|] //; rewrite IH.
Qed.

(** generic lemmas leave [GRing.Ring.sort Z_ringType] where hypotheses say [Z]; [lia] needs one spelling *)
Ltac zs := change (GRing.Ring.sort ZInstances.Z_ringType) with Z in *.

Definition canonZ (s : seq Z) : bool := canon s.

Lemma Zpow_exp (x : Z) (n : nat) : (x ^ Z.of_nat n)%Z = x ^+ n.
Proof.
elim: n => [|n IH] //; rewrite Nat2Z.inj_succ Z.pow_succ_r ?exprS ?IH //.
exact: Nat2Z.is_nonneg.
Qed.

Lemma from_mono0 : from_mono opsZ 0%Z = [::]. Proof. by []. Qed.
Lemma from_mono1 : from_mono opsZ 1%Z = [:: 1%Z]. Proof. by []. Qed.

Lemma ZmulE (x y : Z) : x * y = (x * y)%Z. Proof. by []. Qed.
Lemma ZaddE (x y : Z) : x + y = (x + y)%Z. Proof. by []. Qed.
Lemma ZoppE (x : Z) : - x = (- x)%Z. Proof. by []. Qed.
Lemma Z0E : (0 : Z) = 0%Z. Proof. by []. Qed.
Lemma Z1E : (1 : Z) = 1%Z. Proof. by []. Qed.
Lemma ZeqE (x y : Z) : (x == y) = (x =? y)%Z. Proof. by []. Qed.

(** ** pseudo-division *)
Section PseudoDiv.
Variables a b : seq Z.
Hypothesis ca : canonZ a.
Hypothesis cb : canonZ b.
Hypothesis b0 : b != [::].
Hypothesis hab : (size b <= size a)%N.
Let lcb : Z := last 0 b.
Let bdeg := (size b).-1.
Let diff := (size a - size b)%N.

Lemma lcb_neq0 : lcb != 0.
Proof. by move: cb; rewrite /canonZ canon_last. Qed.

Let Inv (i : nat) (tmp : seq Z) : Prop :=
  (i + size b <= size tmp)%N /\ forall j, exists k : Z, tmp`_j = k * lcb ^+ i.+1.

Let quot (t : Z) : option Z := Some (Z.quot t lcb).

Lemma quot_exact i tmp c : Inv i tmp -> quot tmp`_(i + bdeg) = Some c ->
  c * lcb = tmp`_(i + bdeg).
Proof.
case=> _ /(_ (i + bdeg)%N) [k ->] [<-].
rewrite exprSr mulrA !ZmulE Z.quot_mul //.
by apply/eqP; exact: lcb_neq0.
Qed.

Lemma quot_pres i tmp c : Inv i.+1 tmp -> quot tmp`_(i.+1 + bdeg) = Some c ->
  Inv i (sub_scaled_at (ops_of idZ) tmp i.+1 c b).
Proof.
case=> hsz hdiv [qc]; split; first by rewrite size_sub_scaled_at; zs; lia.
move=> j; rewrite nth_sub_scaled_at //.
have [k0 ek0] := hdiv (i.+1 + bdeg)%N.
have [kj ->] := hdiv j.
have ec : c = k0 * lcb ^+ i.+1.
  rewrite -qc ek0 [in LHS]exprSr mulrA !ZmulE Z.quot_mul //.
  by apply/eqP; exact: lcb_neq0.
case: (i < j)%N; last by exists (kj * lcb); rewrite subr0 [in LHS]exprS mulrA.
exists (kj * lcb - k0 * b`_(j - i.+1)).
by rewrite ec mulrBl [in LHS]exprS !mulrA (mulrAC k0).
Qed.

Theorem pseudo_div_rem_main q r : pseudo_div_rem a b = (q, r) ->
  [/\ canonZ q, canonZ r,
      lcb ^+ (size a - size b).+1 *: Poly a = Poly q * Poly b + Poly r
    & (size r < size b)%N].
Proof.
rewrite /pseudo_div_rem.
case ea: a => [|a0 a'] //; first by move: hab b0; rewrite ea; case: (b).
case eb: b => [|b0' b'] //; first by move: b0; rewrite eb.
rewrite -ea -eb !Llength_eq.
have -> : (size a <? size b)%N = false by apply/Nat.ltb_ge/leP.
rewrite zdiv_loop_eq opsZ_eq Llast_eq -/lcb Lmap_eq.
have -> : (size b - 1)%coq_nat = bdeg by rewrite /bdeg; lia.
rewrite -[(size a - size b)%coq_nat]/diff -/quot.
set factor := (lcb ^ _)%Z; set tmp := map _ a.
have efac : factor = lcb ^+ diff.+1.
  by rewrite /factor -Zpow_exp Nat2Z.inj_succ.
have sz_tmp : size tmp = size a by rewrite size_map.
have Ptmp : Poly tmp = factor *: Poly a.
  apply/polyP => j; rewrite coefZ !coef_Poly /tmp.
  case: (ltnP j (size a)) => hj; first by rewrite (nth_map 0) // mulrC.
  by rewrite !nth_default ?size_map // mulr0.
have I0 : Inv diff tmp.
  split; first by rewrite sz_tmp /diff; lia.
  move=> j; rewrite -efac /tmp.
  case: (ltnP j (size a)) => hj; first by exists a`_j; rewrite (nth_map 0).
  by exists 0; rewrite nth_default ?size_map // mul0r.
case run: (gdiv_loop _ _ _ _ _ _ _) => [[q' r']|]; last first.
  by case: (@gdiv_loop_total _ _ quot diff bdeg b tmp [::] _ run).
case=> <- <-.
have [||qs eqq [szq eqP szr _]] :=
  @gdiv_loop_sound _ idZ b cb b0 quot Inv quot_pres quot_exact diff tmp [::] q' r' I0 _ _ run.
- by rewrite sz_tmp /diff; zs; move: hab; clear; lia.
- by rewrite (leq_trans (size_Poly _)) // sz_tmp /diff; zs; move: hab; clear; lia.
rewrite /from_raw; split; try exact: strip_canon.
  by rewrite !Poly_strip eqq cats0 -eqP Ptmp efac.
by rewrite strip_Poly.
Qed.

End PseudoDiv.

Lemma pseudo_div_rem_ok a b q r :
  canonZ a -> canonZ b -> b != [::] -> (size b <= size a)%N ->
  pseudo_div_rem a b = (q, r) ->
  [/\ canonZ q, canonZ r,
      (last 0 b) ^+ (size a - size b).+1 *: Poly a = Poly q * Poly b + Poly r
    & (size r < size b)%N].
Proof. by move=> ca cb b0 hab; exact: pseudo_div_rem_main. Qed.

(** early-return branch *)
Lemma pseudo_div_rem_early a b :
  a = [::] \/ b = [::] \/ (size a < size b)%N -> pseudo_div_rem a b = ([::], a).
Proof.
rewrite /pseudo_div_rem; case: a => [|x a]; first by [].
case: b => [|y b]; first by [].
case=> // -[] // h; rewrite !Llength_eq.
by have -> : (size (x :: a) <? size (y :: b))%N = true by apply/Nat.ltb_lt/ltP.
Qed.

(** ** monic division: [div_rem_bigint] asserts that the divisor is monic *)
Lemma zis_monicE b : zis_monic b = (b != [::]) && (last 0 b == 1).
Proof. by case: b => [|y b] //; rewrite /zis_monic Llast_eq. Qed.

Lemma div_rem_bigint_nonmonic a b :
  zis_monic b = false -> div_rem_bigint a b = Panic PAssert.
Proof. by rewrite /div_rem_bigint => ->. Qed.

Theorem div_rem_bigint_main a b q r : canonZ a -> canonZ b -> zis_monic b ->
  div_rem_bigint a b = Done (q, r) ->
  [/\ canonZ q, canonZ r, Poly a = Poly q * Poly b + Poly r & (size r < size b)%N].
Proof.
move=> ca cb mb; rewrite /div_rem_bigint mb /= => -[].
move: mb; rewrite zis_monicE => /andP[b0 /eqP lb1].
case: (leqP (size b) (size a)) => hab.
  move/(pseudo_div_rem_main ca cb b0 hab) => [cq cr].
  by rewrite lb1 expr1n scale1r.
rewrite pseudo_div_rem_early; last by right; right.
by case=> <- <-; split=> //; rewrite /= mul0r add0r.
Qed.

(** ** exact division *)
Definition quotE (lcb t : Z) : option Z :=
  if (t mod lcb =? 0)%Z then Some (t / lcb)%Z else None.

Lemma quotE_exact lcb t c : lcb != 0 -> quotE lcb t = Some c -> c * lcb = t.
Proof.
move=> /eqP l0; rewrite /quotE; case: Z.eqb_spec => // h [<-].
rewrite ZmulE; move: h l0; rewrite Z0E; clear.
Ltac Zify.zify_post_hook ::= Z.div_mod_to_equations.
lia.
Qed.

Lemma quotE_mul lcb x : lcb != 0 -> quotE lcb (x * lcb) = Some x.
Proof.
by move=> /eqP l0; rewrite /quotE Z.mod_mul // Z.eqb_refl Z.div_mul.
Qed.

Lemma div_exact_unfold a b : a != [::] -> b != [::] -> (size b <= size a)%N ->
  div_exact a b =
  match gdiv_loop (ops_of idZ) (quotE (last 0 b)) (size a - size b) (size b).-1 b a [::] with
  | None => None
  | Some (q, r) => if all (fun c => c == 0) r then Some (strip (ops_of idZ) q) else None
  end.
Proof.
case: a => [|x a] // _; case: b => [|y b] // _ hab.
rewrite /div_exact !Llength_eq.
have -> : (size (x :: a) <? size (y :: b))%N = false by apply/Nat.ltb_ge/leP.
rewrite zdiv_loop_eq Llast_eq.
have -> : (size (y :: b) - 1)%coq_nat = (size (y :: b)).-1 by rewrite /=; lia.
by case: (gdiv_loop _ _ _ _ _ _ _) => [[q r]|] //; rewrite Lforallb_eq.
Qed.

Theorem div_exact_sound a b q : canonZ a -> canonZ b -> div_exact a b = Some q ->
  [/\ b != [::], canonZ q & Poly a = Poly q * Poly b].
Proof.
move=> ca cb.
case eb: (b == [::]); first by rewrite (eqP eb).
case ea: (a == [::]).
  rewrite (eqP ea) /div_exact; case: (b) eb => [|y b'] // _ [<-].
  by rewrite /= mul0r.
case: (leqP (size b) (size a)) => hab; last first.
  rewrite /div_exact; case: (b) eb hab => [|y b'] // _; case: (a) ea => [|x a'] // _ hab.
  rewrite !Llength_eq.
  by have -> : (size (x :: a') <? size (y :: b'))%N = true by apply/Nat.ltb_lt/ltP.
rewrite div_exact_unfold ?ea ?eb //.
case run: (gdiv_loop _ _ _ _ _ _ _) => [[q' r']|] //.
case: ifP => // r0 [<-].
have lcb0 : last 0 b != 0 by move: cb; rewrite /canonZ canon_last ?eb.
have [||||qs eqq [szq eqA szr _]] :=
  @gdiv_loop_sound _ idZ b cb (negbT eb) (quotE (last 0 b)) (fun _ _ => True) _ _
     (size a - size b)%N a [::] q' r' I _ _ run => //.
- by move=> i tmp c _; apply: quotE_exact.
- by zs; move: hab; clear; lia.
- by rewrite (leq_trans (size_Poly _)) //; zs; move: hab; clear; lia.
split=> //; first exact: strip_canon.
move: r0; rewrite -Poly_eq0_all => /eqP r0.
by rewrite Poly_strip eqq cats0 eqA r0 addr0.
Qed.

Theorem div_exact_complete a b q : canonZ a -> canonZ b -> b != [::] -> canonZ q ->
  Poly a = Poly q * Poly b -> div_exact a b = Some q.
Proof.
move=> ca cb b0 cq eqA.
have lcb0 : last 0 b != 0 by move: cb; rewrite /canonZ canon_last.
have B0 : Poly b != 0 by rewrite canon_Poly_eq0.
case q0: (q == [::]).
  move: eqA; rewrite (eqP q0) /= mul0r => /eqP; rewrite canon_Poly_eq0 // => /eqP ->.
  by rewrite /div_exact; case: (b) b0.
have Q0 : Poly q != 0 by rewrite canon_Poly_eq0 ?q0.
have sza : size a = (size q + size b).-1.
  by rewrite -(canon_size_Poly ca) eqA size_mul // !canon_size_Poly.
have szq : (0 < size q)%N by rewrite lt0n size_eq0 q0.
have szb : (0 < size b)%N by rewrite lt0n size_eq0.
have a0 : a != [::] by rewrite -size_eq0 sza; zs; move: szq szb; clear; lia.
have hab : (size b <= size a)%N by rewrite sza; zs; move: szq szb; clear; lia.
rewrite div_exact_unfold //.
have [||r [-> r0 _]] := @gdiv_loop_complete _ idZ b cb b0 (quotE (last 0 b))
   (fun x => quotE_mul x lcb0) (size a - size b)%N a [::] q _ _ eqA.
- by rewrite sza; zs; move: szq szb; clear; lia.
- by zs; move: hab; clear; lia.
by rewrite -Poly_eq0_all r0 eqxx cats0 strip_id.
Qed.

Theorem div_exact_iff a b q : canonZ a -> canonZ b ->
  div_exact a b = Some q <-> [/\ b != [::], canonZ q & Poly a = Poly q * Poly b].
Proof.
move=> ca cb; split; first exact: div_exact_sound.
by case=> b0 cq e; apply: div_exact_complete.
Qed.

(** [None] means: no quotient in Z[x]. *)
Corollary div_exact_none a b : canonZ a -> canonZ b -> b != [::] ->
  div_exact a b = None -> forall Q : {poly Z}, Poly a <> Q * Poly b.
Proof.
move=> ca cb b0 dn Q e.
have := @div_exact_complete a b Q ca cb b0 (canon_poly Q).
by rewrite polyseqK dn => /(_ e).
Qed.

(** ** content and primitive part *)
Lemma fold_gcd_spec (l : seq Z) (g : Z) :
  let r := fold_left Z.gcd l g in
  [/\ (r | g)%Z, forall x, List.In x l -> (r | x)%Z,
      forall d, (d | g)%Z -> (forall x, List.In x l -> (d | x)%Z) -> (d | r)%Z
    & (0 <= g -> 0 <= r)%Z].
Proof.
elim: l g => [|y l IH] g /=.
  by split=> //; exact: Z.divide_refl.
have [h1 h2 h3 h4] := IH (Z.gcd g y); split.
- exact: Z.divide_trans h1 (Z.gcd_divide_l _ _).
- move=> x [<-|hx]; last exact: h2.
  exact: Z.divide_trans h1 (Z.gcd_divide_r _ _).
- move=> d dg dl; apply: h3; first by apply: Z.gcd_greatest => //; apply: dl; left.
  by move=> x hx; apply: dl; right.
- by move=> _; apply: h4; exact: Z.gcd_nonneg.
Qed.

Lemma In_last (x : Z) (l : seq Z) : List.In (last x l) (x :: l).
Proof. by elim: l x => [|y l IH] x /=; [left | right; apply: IH]. Qed.

Lemma In_nth_lt (l : seq Z) j : (j < size l)%N -> List.In l`_j l.
Proof. by elim: l j => [|y l IH] [|j] //= h; [left | right; apply: IH]. Qed.

Lemma In_nthE (x : Z) (l : seq Z) : List.In x l -> exists2 j, (j < size l)%N & l`_j = x.
Proof.
elim: l => [|y l IH] //= [->|/IH [j hj <-]]; first by exists 0%N.
by exists j.+1.
Qed.

Lemma cont_sign_aux (l g k : Z) :
  (l = (if l <? 0 then - g else g) * k -> 0 < g -> l <> 0 -> 0 < k)%Z.
Proof. by case: Z.ltb_spec; nia. Qed.

Lemma cont_sign_aux2 (l g : Z) :
  (0 < g -> l <> 0 -> (0 < (if l <? 0 then - g else g) <-> 0 < l))%Z.
Proof. by case: Z.ltb_spec; lia. Qed.

Lemma cont_pp_zero : cont_pp [::] = (0%Z, [:: 1%Z]).
Proof. by []. Qed.

Theorem cont_pp_main a c pp : canonZ a -> a != [::] -> cont_pp a = (c, pp) ->
  [/\ c *: Poly pp = Poly a, canonZ pp, (0 < last 0 pp)%Z,
      forall d, (forall x, List.In x pp -> (d | x)%Z) -> (d | 1)%Z
    & ((0 < c)%Z <-> (0 < last 0 a)%Z)].
Proof.
move=> ca a0.
have lc0 : last 0 a <> 0 by apply/eqP; move: ca; rewrite /canonZ canon_last.
rewrite /cont_pp; case ea: a a0 => [|x0 a'] // _; rewrite -ea Llast_eq Lmap_eq.
set g := fold_left Z.gcd a 0%Z.
have [_ gdiv ggreat gnn] := fold_gcd_spec a 0%Z; rewrite -/g in gdiv ggreat gnn.
have lin : List.In (last 0 a) a by rewrite ea /=; exact: In_last.
have g0 : g <> 0%Z.
  by move=> e; case: (gdiv _ lin) => k; rewrite e Z.mul_0_r.
have gpos : (0 < g)%Z by have := gnn (Z.le_refl 0); lia.
set c0 := (if (last 0 a <? 0)%Z then - g else g)%Z.
have c0n : c0 <> 0%Z by rewrite /c0; case: Z.ltb_spec; lia.
have c0g : (c0 | g)%Z /\ (g | c0)%Z.
  rewrite /c0; case: Z.ltb_spec => _; split; try exact: Z.divide_refl.
    by exists (-1)%Z; lia.
  by exists (-1)%Z; lia.
have cdiv x : List.In x a -> (c0 | x)%Z.
  by move=> hx; apply: Z.divide_trans (gdiv _ hx); case: c0g.
have cmul x : List.In x a -> x = (c0 * (x / c0))%Z.
  move=> /cdiv hx; apply: Z_div_exact_full_2 => //.
  by apply/Z.mod_divide.
case=> <- <-.
set m := map (fun x => (x / c0)%Z) a.
have szm : size m = size a by rewrite size_map.
have nthm j : a`_j = c0 * m`_j.
  case: (ltnP j (size a)) => hj; last by rewrite !nth_default ?szm // mulr0.
  rewrite /m (nth_map 0) // ZmulE; apply: cmul.
  exact: In_nth_lt.
have lastm : last 0 m = (last 0 a / c0)%Z by rewrite /m ea /= (last_map (fun x => (x / c0)%Z)).
have lpos : (0 < last 0 m)%Z.
  have := cmul _ lin; rewrite lastm => ek.
  exact: (cont_sign_aux ek gpos lc0).
have cm : canonZ m.
  rewrite /canonZ canon_last; first by apply/eqP => e; move: lpos; rewrite e.
  by rewrite -size_eq0 szm size_eq0 ea.
rewrite /from_raw opsZ_eq strip_id //; split=> //.
- by apply/polyP => j; rewrite coefZ !coef_Poly nthm.
- move=> d hd.
  have dc : (d * c0 | g)%Z.
    apply: ggreat; first exact: Z.divide_0_r.
    move=> y hy; rewrite (cmul _ hy) (Z.mul_comm c0); apply: Z.mul_divide_mono_r.
    apply: hd; move/In_nthE: hy => [j hj <-].
    rewrite -(nth_map 0 0 (fun x => (x / c0)%Z)) // -/m.
    by apply: In_nth_lt; rewrite szm.
  have {}dc : (d * c0 | 1 * c0)%Z.
    by rewrite Z.mul_1_l; apply: Z.divide_trans dc _; case: c0g.
  exact/(Z.mul_divide_cancel_r _ _ _ c0n).
- exact: cont_sign_aux2.
Qed.

Lemma div_rem_bigint_done a b : zis_monic b -> exists qr, div_rem_bigint a b = Done qr.
Proof. by rewrite /div_rem_bigint => ->; eexists. Qed.
