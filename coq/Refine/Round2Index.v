(** Round 2 step: the index returned by [one_step], discriminants and the u64 exponent
    bookkeeping of the driver (stdlib + lia). *)
From RNT.Model Require Import Base Poly Algebraic LinAlg MultTable Order Round2.
From RNT.Model Require Hnf Elementary Resultant.
From RNT.Refine Require Import Round2Basic.
From Coq Require Import QArith Qcanon Lia Znumtheory.
Open Scope Z_scope.

Ltac bind_inv H :=
  match type of H with
  | bind ?x _ = Done _ => let E := fresh "E" in destruct x eqn:E; cbn [bind] in H; [|discriminate H|discriminate H]
  end.



(** the [howmany] loop: exact divisions by [p] until the quotient is <= 1 *)
Lemma howmany_loop_spec p : forall fuel index acc h,
  howmany_loop fuel index p acc = Done h ->
  acc <= h /\ exists final, final <= 1 /\ index = p ^ (h - acc) * final.
Proof.
  induction fuel as [|fu IH]; intros index acc h H; [discriminate|].
  cbn [howmany_loop] in H.
  destruct (1 <? index) eqn:E.
  - unfold zrem in H. destruct (p =? 0) eqn:P0; cbn [bind] in H; [discriminate|].
    destruct (Z.rem index p =? 0) eqn:R; cbn [assert_ bind] in H; [|discriminate].
    apply IH in H. destruct H as [A [final [F1 F2]]].
    split; [lia|]. exists final. split; [assumption|].
    apply Z.eqb_eq in R. apply Z.eqb_neq in P0.
    pose proof (Z.quot_rem' index p) as Q. rewrite R, Z.add_0_r in Q.
    replace (h - acc) with (Z.succ (h - (acc + 1))) by lia.
    rewrite Z.pow_succ_r by lia. rewrite Q, F2. ring.
  - injection H as <-. split; [lia|]. exists index. split; [lia|].
    rewrite Z.sub_diag. cbn. destruct index; reflexivity.
Qed.

Lemma howmany_of_spec index p h :
  howmany_of index p = Done h -> 0 <= h /\ exists final, final <= 1 /\ index = p ^ h * final.
Proof.
  unfold howmany_of. intros H. apply howmany_loop_spec in H.
  destruct H as [A [final [F1 F2]]]. split; [assumption|]. exists final. rewrite Z.sub_0_r in F2. auto.
Qed.

Lemma howmany_of_pos index p h :
  0 < p -> 1 <= index -> howmany_of index p = Done h -> 0 <= h /\ index = p ^ h.
Proof.
  intros Pp I H. apply howmany_of_spec in H. destruct H as [A [final [F1 F2]]].
  split; [assumption|].
  assert (0 < p ^ h) by (apply Z.pow_pos_nonneg; lia).
  assert (final = 1) by nia. subst final. lia.
Qed.

(** what [one_step] returns: the index of the new order over the old one, and its [howmany] *)
Lemma one_step_tail f o p o' h :
  one_step f o p = Done (o', h) ->
  exists index, order_index o' o = Done index /\ howmany_of index p = Done h.
Proof.
  unfold one_step. intros H.
  repeat (bind_inv H; try match goal with x : (_ * _)%type |- _ => destruct x end).
  injection H as <- <-. eexists. split; eassumption.
Qed.

(** [C] one_step_index_partial: for [p > 0], when the computed index is positive,
    [index(new, old) = p ^ howmany]. *)
Theorem one_step_index_partial f o p o' h :
  0 < p -> one_step f o p = Done (o', h) ->
  exists index, order_index o' o = Done index /\ 0 <= h /\
    (1 <= index -> index = p ^ h) /\ (index < 1 -> h = 0).
Proof.
  intros Pp H. apply one_step_tail in H. destruct H as [index [I Hh]].
  exists index. split; [assumption|].
  destruct (Z_lt_le_dec index 1) as [L|L].
  - assert (h = 0).
    { unfold howmany_of in Hh. destruct (Z.to_nat (zbits index) + 1)%nat; [discriminate|].
      cbn [howmany_loop] in Hh. destruct (1 <? index) eqn:E; [lia|]. injection Hh as <-. reflexivity. }
    subst h. split; [lia|]. split; [lia|reflexivity].
  - destruct (howmany_of_pos _ _ _ Pp L Hh) as [A B]. split; [assumption|]. split; [auto|lia].
Qed.

(** ** Integers inside [Qc] *)
Lemma qz_mul a b : qz (a * b) = Qcmult (qz a) (qz b).
Proof. apply Qc_is_canon. unfold qz, Qcmult, Q2Qc, this. rewrite !Qred_correct. unfold Qeq, Qmult, inject_Z, Qnum, Qden. lia. Qed.
Lemma qz_inj a b : qz a = qz b -> a = b.
Proof.
  unfold qz. intros H. apply (f_equal (fun q : Qc => this q)) in H. unfold Q2Qc, this in H.
  assert (E : (inject_Z a == inject_Z b)%Q) by (rewrite <- (Qred_correct (inject_Z a)), <- (Qred_correct (inject_Z b)), H; reflexivity).
  unfold Qeq, inject_Z, Qnum, Qden in E. lia.
Qed.
Lemma q_integer_qz (v : Qc) : q_is_integer v = true -> v = qz (q_to_integer v).
Proof.
  unfold q_is_integer, q_to_integer, qz. intros H. apply Pos.eqb_eq in H.
  apply Qc_is_canon. unfold Q2Qc. cbn [this]. rewrite Qred_correct.
  destruct v as [[n d] c]. cbn [this Qnum Qden] in *. subst d.
  rewrite Z.quot_1_r. reflexivity.
Qed.
Lemma q_to_integer_qz z : q_to_integer (qz z) = z /\ q_is_integer (qz z) = true.
Proof.
  unfold q_to_integer, q_is_integer, qz, Q2Qc. cbn [this].
  assert (E : Qred (inject_Z z) = inject_Z z).
  { apply Qred_identity. unfold inject_Z. cbn [Qnum Qden]. apply Z.gcd_1_r. }
  rewrite E. cbn [inject_Z Qnum Qden]. rewrite Z.quot_1_r. split; reflexivity.
Qed.

Lemma div_chk_Qc x y q : div_chk fopsQc x y = Done q -> y <> Q2Qc 0 /\ q = Qcdiv x y.
Proof.
  unfold div_chk. cbn [fopsQc fr fdiv]. unfold is0. cbn [opsQc reqb r0].
  destruct (Qeq_bool y (Q2Qc 0)) eqn:E; [discriminate|]. intros H. injection H as <-.
  split; [|reflexivity]. intros ->. cbn in E. discriminate.
Qed.

Definition disc_exp (m : mode) (f : list Z) : outcome Z :=
  do d1 <- u64_norm m (pdeg f - 1); u64_norm m (2 * d1).

Lemma order_discriminant_inv m discf o f d :
  order_discriminant m discf o f = Done d ->
  exists det e, determinant fopsQc o = Done det /\ disc_exp m f = Done e /\
    qz (coef_at opsZ f (Z.to_nat (pdeg f)) ^ e) <> Q2Qc 0 /\
    qz d = Qcdiv (Qcmult (Qcmult (qz discf) det) det) (qz (coef_at opsZ f (Z.to_nat (pdeg f)) ^ e)).
Proof.
  unfold order_discriminant, disc_exp. intros H.
  bind_inv H. bind_inv H. bind_inv H. bind_inv H. bind_inv H. bind_inv H.
  injection H as <-. exists a, a2. split; [reflexivity|]. split; [assumption|].
  apply div_chk_Qc in E3. destruct E3 as [N Q]. split; [assumption|].
  unfold assert_ in E4. destruct (q_is_integer a3) eqn:I; [|discriminate].
  apply q_integer_qz in I. rewrite <- I. assumption.
Qed.

(** [disc(old) = disc(new) * index^2] whenever the three routines return (order.rs:33-42, 185-196) *)
Lemma disc_index m discf f o1 o2 i d1 d2 :
  order_index o2 o1 = Done i ->
  order_discriminant m discf o1 f = Done d1 ->
  order_discriminant m discf o2 f = Done d2 ->
  d1 = d2 * i * i.
Proof.
  intros HI H1 H2.
  apply order_discriminant_inv in H1, H2.
  destruct H1 as [det1 [e1 [D1 [X1 [N1 Q1]]]]], H2 as [det2 [e2 [D2 [X2 [N2 Q2]]]]].
  rewrite X1 in X2. injection X2 as <-.
  unfold order_index in HI. rewrite D1, D2 in HI. cbn [bind] in HI.
  bind_inv HI. destruct (q_is_integer a) eqn:QI; [|discriminate]. injection HI as <-.
  apply div_chk_Qc in E. destruct E as [N0 Q0].
  apply q_integer_qz in QI.
  apply qz_inj. rewrite !qz_mul. rewrite <- QI, Q1, Q2. subst a.
  field. split; assumption.
Qed.

(** ** The exponent bookkeeping [e -= 2 * howmany] cannot underflow *)

Lemma exponent_bound p e r h d2 :
  prime p -> rel_prime p r -> 0 <= e -> 0 <= h ->
  p ^ e * r = d2 * p ^ h * p ^ h -> 2 * h <= e /\ d2 = p ^ (e - 2 * h) * r.
Proof.
  intros Pp Rp He Hh E.
  assert (P2 : 2 <= p) by (destruct Pp; lia).
  assert (Ppow : forall k, 0 <= k -> p ^ k <> 0) by (intros k Hk; apply Z.pow_nonzero; lia).
  destruct (Z_le_gt_dec (2 * h) e) as [L|G].
  - split; [assumption|].
    assert (E' : p ^ e = p ^ (e - 2 * h) * p ^ h * p ^ h).
    { rewrite <- !Z.pow_add_r by lia. f_equal. lia. }
    rewrite E' in E. specialize (Ppow h Hh).
    apply (Z.mul_cancel_r _ _ (p ^ h * p ^ h)); [nia|]. lia.
  - exfalso.
    assert (E' : p ^ e * r = p ^ e * (d2 * p ^ (2 * h - e))).
    { rewrite E. replace (d2 * p ^ h * p ^ h) with (d2 * (p ^ h * p ^ h)) by ring.
      rewrite <- Z.pow_add_r by lia. replace (h + h) with (e + (2 * h - e)) by lia.
      rewrite Z.pow_add_r by lia. ring. }
    apply Z.mul_cancel_l in E'; [|apply Ppow; assumption].
    assert (D : (p | r)).
    { rewrite E'. replace (2 * h - e) with (Z.succ (2 * h - e - 1)) by lia.
      rewrite Z.pow_succ_r by lia. exists (d2 * p ^ (2 * h - e - 1)). ring. }
    destruct Rp as [_ _ Rp]. specialize (Rp p (Z.divide_refl p) D).
    apply Z.divide_1_r_nonneg in Rp; lia.
Qed.

(** steps at one prime *)
Inductive reachable_at (f : list Z) (p : Z) (o : qmat) : qmat -> Prop :=
| reach_at_refl : reachable_at f p o o
| reach_at_step o1 o' h : reachable_at f p o o1 -> one_step f o1 p = Done (o', h) -> reachable_at f p o o'.

Lemma reachable_at_reachable f p o o' : reachable_at f p o o' -> reachable f o o'.
Proof. induction 1; [apply reach_refl|eapply reach_step; eassumption]. Qed.

Lemma reachable_at_first f p o o1 h o' :
  one_step f o p = Done (o1, h) -> reachable_at f p o1 o' -> reachable_at f p o o'.
Proof.
  intros S R. induction R.
  - eapply reach_at_step; [apply reach_at_refl|eassumption].
  - eapply reach_at_step; eassumption.
Qed.

Lemma u64_norm_checked_ok x : 0 <= x < two64 -> u64_norm Checked x = Done x.
Proof.
  intros H. unfold u64_norm.
  destruct (0 <=? x) eqn:A; [|lia]. destruct (x <? two64) eqn:B; [|lia]. reflexivity.
Qed.

(** [C] In the dev profile the only panics of the [while] loop at a prime [p] are those of
    [one_step] itself: the u64 updates [e -= 2 * howmany] never overflow, PROVIDED every
    lattice produced on the way has an integral discriminant (the assertion of
    [Order::discriminant] would pass: it is an order) and a positive index over its predecessor.
    [p ^ e * r] with [p] not dividing [r] is the discriminant of the order the loop starts with. *)
Theorem prime_loop_bookkeeping discf f p r :
  prime p -> rel_prime p r ->
  forall fuel o e t,
  0 <= e < two64 ->
  order_discriminant Checked discf o f = Done (p ^ e * r) ->
  (forall o1 o2 h, reachable_at f p o o1 -> one_step f o1 p = Done (o2, h) ->
     exists d2 i, order_discriminant Checked discf o2 f = Done d2 /\ order_index o2 o1 = Done i /\ 1 <= i) ->
  prime_loop fuel Checked f o p e = Panic t ->
  exists o1, reachable_at f p o o1 /\ one_step f o1 p = Panic t.
Proof.
  intros Pp Rp. assert (P2 : 2 <= p) by (destruct Pp; lia).
  induction fuel as [|fu IH]; intros o e t He D G H; [discriminate|].
  cbn [prime_loop] in H.
  destruct (2 <=? e) eqn:E2; [|discriminate].
  destruct (one_step f o p) as [[o1 h]|t'|] eqn:S; cbn [bind] in H; [| |discriminate].
  2:{ injection H as <-. exists o. split; [apply reach_at_refl|assumption]. }
  destruct (G o o1 h (reach_at_refl _ _ _) S) as [d2 [i [D2 [I Ipos]]]].
  destruct (one_step_index_partial f o p o1 h ltac:(lia) S) as [i' [I' [Hh [Hi _]]]].
  rewrite I in I'. injection I' as <-. specialize (Hi Ipos). subst i.
  pose proof (disc_index _ _ _ _ _ _ _ _ I D D2) as DI.
  destruct (exponent_bound p e r h d2 Pp Rp ltac:(lia) Hh DI) as [B Dd].
  rewrite (u64_norm_checked_ok (2 * h)) in H by lia. cbn [bind] in H.
  rewrite (u64_norm_checked_ok (e - 2 * h)) in H by lia. cbn [bind] in H.
  destruct (h =? 0); [discriminate|].
  destruct (IH o1 (e - 2 * h) t ltac:(lia) ltac:(rewrite <- Dd; exact D2)) with (2 := H) as [ox [R X]].
  - intros oa ob hb Ra Sb. apply (G oa ob hb); [|assumption]. eapply reachable_at_first; eassumption.
  - exists ox. split; [|assumption]. eapply reachable_at_first; eassumption.
Qed.
