(** * DetIdeal (C16): the norm of a principal ideal.  [principal a] is the normal form of the matrix
      M_a of multiplication by a (rows a * w_j); [Ideal::norm] is the product of its pivots, which is
      |det M_a| (DetHnf.determinant_index); [MultTable::norm a] is det M_a (MultTableNorm.mt_norm_det).
      Style: ssreflect/MathComp. *)
From Coq Require Import ZArith List.
From mathcomp Require Import all_ssreflect ssralg zmodp matrix mxalgebra.
From mathcomp Require Import ssrZ zify.
From Coq Require Import QArith Qcanon.
From RNT.Model Require Import Base Poly Algebraic LinAlg MultTable Ideal.
From RNT.Model Require Hnf.
From RNT.Refine Require Import QcField LinAlgQc MatZ HnfSpec HnfMain HnfKernel IdealMul IdealSpec DetBridge DetHnf.
From RNT.Refine Require MultTableOps MultTableNorm.
Set Implicit Arguments.
Unset Strict Implicit.
Unset Printing Implicit Defensive.
Import GRing.Theory.
Local Close Scope Z_scope.
Local Close Scope Q_scope.
Local Close Scope Qc_scope.
Local Open Scope ring_scope.

(** ** the two descriptions of the table shape agree *)
Lemma Forall_all A (P : A -> Prop) (p : pred A) (l : list A) :
  (forall x, P x -> p x) -> List.Forall P l -> all p l.
Proof. by move=> h; elim=> //= x l' /h -> _ ->. Qed.

Lemma tshape_cube t : tshape t -> MultTableOps.cube (length t) t.
Proof.
move=> ht; rewrite /MultTableOps.cube -[size t]/(length t) eqxx /=.
apply: Forall_all ht => ti [lti hti]; rewrite -[size ti]/(length ti) lti eqxx /=.
by apply: Forall_all hti => r lr; rewrite -[size r]/(length r) lr.
Qed.

(** ** [bil] in closed form *)
Lemma bil_closed n t a b : tshape t -> length t = n -> length a = n -> length b = n ->
  bil t a b = mkseq (MultTableOps.mul_coef t a b n) n.
Proof.
move=> ht lt la lb.
have ct : MultTableOps.cube n t by rewrite -lt; apply: tshape_cube.
have e1 := mt_mul_bil Checked t a b ht; rewrite lt in e1; have {e1} e1 := e1 la lb.
have := @MultTableOps.mt_mul_closed Checked n t a b ct la lb.
by rewrite e1 => -[].
Qed.

Lemma nth_unit_vec n j j' : (j' < n)%nat -> seq.nth 0%Z (unit_vec n j) j' = (j == j')%:R.
Proof.
move=> /ltP h; rewrite -Lnth_nth unit_vec_unit_from nth_unit_from //=.
by case: Nat.eqb_spec => [->|/eqP/negbTE ->]; rewrite ?eqxx.
Qed.

(** ** the generators of [principal a] form the matrix of multiplication by a *)
Definition mulmx_of (t : table) (a : list Z) (n : nat) : 'M[Z]_n :=
  \matrix_(j < n, k < n) MultTableNorm.rep_coef t a n j k.

Lemma prin_rows_mx n t a : tshape t -> length t = n -> length a = n ->
  zmx n n (prin_rows t a) = mulmx_of t a n.
Proof.
move=> ht lt la; apply/matrixP => j k; rewrite !mxE /prin_rows lt.
have /ltP hj := ltn_ord j.
set f := fun i : nat => bil t a (unit_vec n i).
rewrite (List.nth_indep _ [::] (f 0%nat)) ?List.map_length ?List.seq_length //.
rewrite (List.map_nth f (List.seq 0 n) 0%nat j) List.seq_nth // -[(0 + j)%coq_nat]/(j : nat) /f.
rewrite (bil_closed ht lt la (unit_vec_length n j)) Lnth_nth nth_mkseq //.
rewrite /MultTableOps.mul_coef /MultTableNorm.rep_coef; apply: eq_bigr => i _.
rewrite (bigD1_seq (j : nat)) ?iota_uniq ?mem_iota //= nth_unit_vec // eqxx mulr1.
rewrite big1_seq ?addr0 // => j' /andP[ne]; rewrite mem_iota add0n => /andP[_ hj'].
by rewrite nth_unit_vec // eq_sym (negbTE ne) mulr0 mul0r.
Qed.

(** ** [P] principal_norm *)
Theorem principal_norm m t a I :
  tshape t -> length a = length t -> (1 <= length t)%coq_nat -> principal m t a = Done I ->
  let n := length t in
  mt_norm t a = Done (\det (mulmx_of t a n)) /\
  (\det (mulmx_of t a n) <> 0%Z -> norm I = Done (Z.abs (\det (mulmx_of t a n)))) /\
  (\det (mulmx_of t a n) = 0%Z ->
     norm I = Done (if Nat.eqb (length (i_hnf I)) 0 then 1%Z else 0%Z) /\ (length (i_hnf I) < n)%coq_nat).
Proof.
move=> ht la hn E n.
have ct : MultTableOps.cube n t by apply: tshape_cube.
split; first exact: (MultTableNorm.mt_norm_det ct la).
move: E; rewrite (principal_unfold m t a ht la).
case Eh: (Hnf.hnf_new (prin_rows t a)) => [h| |] //= [<-] /=.
have sP : shape n n (prin_rows t a).
  by split; [apply: prin_rows_length|apply: prin_rows_wf].
have [I1 I2] := determinant_index sP hn Eh.
rewrite -(prin_rows_mx ht (erefl _) la) /norm /=.
split=> [d0|d0]; first by case: (I1 d0).
by case: (I2 d0).
Qed.

(** [P] in the form "when both return": norm (principal a) = |norm a| for a not a zero divisor *)
Corollary principal_norm_abs m t a I nm :
  tshape t -> length a = length t -> (1 <= length t)%coq_nat ->
  principal m t a = Done I -> mt_norm t a = Done nm -> nm <> 0%Z ->
  norm I = Done (Z.abs nm).
Proof.
move=> ht la hn E En nz.
have [En' [h1 _]] := principal_norm ht la hn E.
by move: En; rewrite En' => -[e]; move: nz; rewrite -e => /h1.
Qed.

(** ** [P] norm_mul_principal: norm((a)(b)) = norm((a)) norm((b)) *)
From RNT.Refine Require Import IdealLaws DetPrincipalMul.

Lemma mulmx_of_mul n t a b : tshape t -> table_assoc t = true -> length t = n ->
  length a = n -> length b = n ->
  mulmx_of t (bil t a b) n = mulmx_of t b n *m mulmx_of t a n.
Proof.
move=> ht has lt la lb; have lt' := esym lt.
have lab : length (bil t a b) = n by rewrite bil_length.
rewrite -!prin_rows_mx // (prin_rows_mul t a b ht has) ?lt //.
apply: zmx_mmul; rewrite ?prin_rows_length //.
by rewrite -lt; apply: prin_rows_wf.
Qed.

Theorem norm_mul_principal m t a b u Ia Ib P na nb :
  tshape t -> table_assoc t = true -> table_comm t = true ->
  length a = length t -> length b = length t -> (1 <= length t)%coq_nat ->
  length u = length t -> (forall y, length y = length t -> bil t y u = y) ->
  principal m t a = Done Ia -> principal m t b = Done Ib -> ideal_mul m Ia Ib = Done P ->
  mt_norm t a = Done na -> mt_norm t b = Done nb -> na <> 0%Z -> nb <> 0%Z ->
  [/\ norm Ia = Done (Z.abs na), norm Ib = Done (Z.abs nb),
      norm P = Done (Z.abs na * Z.abs nb)%Z & mt_norm t (bil t a b) = Done (na * nb)%Z].
Proof.
move=> ht has hc la lb hn lu hu Ea Eb Ep Na Nb a0 b0.
have EP := principal_mul m t a b u ht has hc la lb hn lu hu Ia Ib P Ea Eb Ep.
have lab : length (bil t a b) = length t by rewrite bil_length.
have [Nab [h1 _]] := principal_norm ht lab hn EP.
have [Na' _] := principal_norm ht la hn Ea.
have [Nb' _] := principal_norm ht lb hn Eb.
have ea : na = \det (mulmx_of t a (length t)) by move: Na; rewrite Na' => -[].
have eb : nb = \det (mulmx_of t b (length t)) by move: Nb; rewrite Nb' => -[].
have eab : \det (mulmx_of t (bil t a b) (length t)) = (na * nb)%Z.
  by rewrite (mulmx_of_mul ht has (erefl _) la lb) det_mulmx -ea -eb mulrC.
split.
- exact: (principal_norm_abs ht la hn Ea Na a0).
- exact: (principal_norm_abs ht lb hn Eb Nb b0).
- by rewrite h1 eab ?Z.abs_mul //; lia.
- by rewrite Nab eab.
Qed.
