(** * PolyZFactorMult: C07, the multiplicity loop of [poly_z::factorize] (MathComp).

    [mult_loop] divides exactly as long as possible: no panic for any multiplicity, the fuel
    supplied by [extract_all] suffices for every non-constant divisor, and the exponent returned is
    the true multiplicity, whatever its size. *)
From RNT.Model Require Import Base Poly PolyZFactor.
From mathcomp Require Import all_ssreflect ssralg poly.
From mathcomp Require Import ssrZ zify.
From RNT.Refine Require Import PolyRefine PolyDiv PolyZ.
Set Implicit Arguments.
Unset Strict Implicit.
Unset Printing Implicit Defensive.
Import GRing.Theory.
Local Open Scope ring_scope.

(** every [Some] answer of [div_exact] is a normalised vector, whatever the arguments *)
Lemma div_exact_canon (a b q : seq Z) : div_exact a b = Some q -> canonZ q.
Proof.
rewrite /div_exact; case: b => [|b0 b] //; case: a => [|a0 a].
  by case=> <-.
case: ifP => // _; case: zdiv_loop => [[q' r]|] //; case: ifP => // _ [<-].
by rewrite /canonZ /from_raw opsZ_eq; exact: strip_canon.
Qed.

Lemma div_exact_nil_r (a : seq Z) : div_exact a [::] = None.
Proof. by []. Qed.

(** ** partial correctness *)
Lemma mult_loop_spec fuel (a f : seq Z) (e : Z) a' e' : canonZ a -> canonZ f ->
  mult_loop fuel a f e = Done (a', e') ->
  [/\ canonZ a', (e <= e')%Z, Poly a = Poly a' * Poly f ^+ Z.to_nat (e' - e)
    & div_exact a' f = None].
Proof.
move=> + cf; elim: fuel a e => [|fuel IH] a e ca //=.
case ed: (div_exact a f) => [q|]; last first.
  by case=> <- <-; split=> //; [lia | rewrite Z.sub_diag expr0 mulr1].
move/(div_exact_iff q ca cf): ed => [f0 cq eq] /(IH _ _ cq) [ca' le ea' dn].
split=> //; first lia.
have -> : Z.to_nat (e' - e) = (Z.to_nat (e' - (e + 1))).+1 by lia.
by rewrite eq ea' exprSr mulrA.
Qed.

(** the loop itself never panics *)
Lemma mult_loop_no_panic fuel (a f : seq Z) e t : mult_loop fuel a f e <> Panic t.
Proof. by elim: fuel a e => [|fuel IH] a e //=; case: div_exact. Qed.

(** ** the fuel [length a + 1] suffices for a non-constant divisor *)
Lemma div_exact_size (a f q : seq Z) : canonZ a -> canonZ f -> a != [::] ->
  div_exact a f = Some q -> q != [::] /\ (size a = size q + size f - 1)%N.
Proof.
move=> ca cf a0 /(div_exact_iff q ca cf) [f0 cq eq].
have Pa0 : Poly a != 0 by rewrite canon_Poly_eq0.
have Pq0 : Poly q != 0 by apply: contraNneq Pa0 => h; rewrite eq h mul0r.
have Pf0 : Poly f != 0 by rewrite canon_Poly_eq0.
split; first by rewrite -(canon_Poly_eq0 cq).
by have := size_mul Pq0 Pf0; rewrite -eq !canon_size_Poly // => ->; rewrite subn1.
Qed.

Lemma mult_loop_fuel fuel (a f : seq Z) e : canonZ a -> canonZ f -> a != [::] ->
  (1 < size f)%N -> (size a < fuel)%N -> exists a' e', mult_loop fuel a f e = Done (a', e').
Proof.
move=> + cf + f1; elim: fuel a e => [|fuel IH] a e ca a0 // lt /=.
case ed: (div_exact a f) => [q|]; last by exists a, e.
have [q0 sz] := div_exact_size ca cf a0 ed.
apply: IH => //; first exact: div_exact_canon ed.
lia.
Qed.

(** ** the exponent is the true multiplicity, of any size *)
Lemma mult_loop_exact (a f c : seq Z) (n : nat) : canonZ a -> canonZ f -> canonZ c -> a != [::] ->
  (1 < size f)%N -> Poly a = Poly c * Poly f ^+ n -> (forall Q, Poly c <> Q * Poly f) ->
  mult_loop (length a + 1) a f 0 = Done (c, Z.of_nat n).
Proof.
move=> ca cf cc a0 f1 ea nd.
have [a' [e' ml]] : exists a' e', mult_loop (length a + 1) a f 0 = Done (a', e').
  by apply: mult_loop_fuel => //; rewrite Llength_eq addn1.
have [ca' le ea' dn] := mult_loop_spec ca cf ml.
have f0 : f != [::] by case: (f) f1.
have Pf0 : Poly f != 0 by rewrite canon_Poly_eq0.
have nd' := div_exact_none ca' cf f0 dn.
rewrite ml Z.sub_0_r in ea' *; set k := Z.to_nat e' in ea'.
have ek : e' = Z.of_nat k by lia.
have split_pow (x : {poly Z}) (i j : nat) : (i < j)%N ->
    x * Poly f ^+ j = (x * Poly f ^+ (j - i).-1 * Poly f) * Poly f ^+ i.
  move=> lt; set m := (j - i).-1; have en : j = (i + m.+1)%N by lia.
  by rewrite {1}en exprD exprSr -!mulrA; congr (_ * _); rewrite mulrC -!mulrA.
case: (ltngtP k n) => hkn.
- (* fewer divisions than the multiplicity: f would still divide a' *)
  move: ea; rewrite ea' (split_pow _ _ _ hkn) => /(mulIf (expf_neq0 _ Pf0)) e1.
  by case: (nd' _ e1).
- move: ea; rewrite ea' (split_pow _ _ _ hkn) => /(mulIf (expf_neq0 _ Pf0)) e1.
  by case: (nd _ (esym e1)).
- move: ea; rewrite ea' hkn => /(mulIf (expf_neq0 _ Pf0)) /(Poly_inj_canon ca' cc) ->.
  by rewrite ek hkn.
Qed.
