(** * MatZ: a small library of integer vectors and matrices as lists (stdlib + lia).

    Vectors are [list Z], matrices [list (list Z)] (rows first).  A coefficient (row) vector
    [c] acts on the rows of a matrix: [lincomb m c A = sum_t c[t] * A[t]] (width [m] is explicit
    so that the empty combination is the zero vector of the right length), and
    [mmul m U A] multiplies row by row.  *)
From Coq Require Import ZArith List Lia.
Import ListNotations.
Open Scope Z_scope.

Definition mat := list (list Z).

(** ** Shapes *)
Definition wf (m : nat) (A : mat) : Prop := Forall (fun r => length r = m) A.
Definition shape (n m : nat) (A : mat) : Prop := length A = n /\ wf m A.

Definition row (A : mat) (j : nat) : list Z := nth j A [].
Definition ent (A : mat) (j c : nat) : Z := nth c (row A j) 0.

Lemma wf_row m A j : wf m A -> (j < length A)%nat -> length (row A j) = m.
Proof.
  unfold wf, row. intros H Hj. rewrite Forall_forall in H. apply H. apply nth_In. exact Hj.
Qed.

Lemma wf_app m A B : wf m (A ++ B) <-> wf m A /\ wf m B.
Proof. unfold wf. apply Forall_app. Qed.

Lemma wf_cons m r A : wf m (r :: A) <-> length r = m /\ wf m A.
Proof. unfold wf. split; intros H. - inversion H; auto. - constructor; tauto. Qed.

(** ** Vectors *)
Fixpoint map2 {A B C : Type} (f : A -> B -> C) (l1 : list A) (l2 : list B) : list C :=
  match l1, l2 with
  | x :: a, y :: b => f x y :: map2 f a b
  | _, _ => []
  end.

Definition vzero (m : nat) : list Z := repeat 0 m.
Definition vadd (v w : list Z) : list Z := map2 Z.add v w.
Definition vscale (q : Z) (v : list Z) : list Z := map (Z.mul q) v.

Lemma map2_length {A B C} (f : A -> B -> C) l1 l2 :
  length l1 = length l2 -> length (map2 f l1 l2) = length l1.
Proof.
  revert l2; induction l1 as [|x a IH]; intros [|y b] H; simpl in *; try discriminate; auto.
Qed.

Lemma nth_map2 (f : Z -> Z -> Z) l1 l2 i :
  length l1 = length l2 -> f 0 0 = 0 -> nth i (map2 f l1 l2) 0 = f (nth i l1 0) (nth i l2 0).
Proof.
  revert l2 i; induction l1 as [|x a IH]; intros [|y b] i H H0; simpl in *; try discriminate.
  - destruct i; auto.
  - destruct i; auto.
Qed.

Lemma vzero_length m : length (vzero m) = m.
Proof. apply repeat_length. Qed.
Lemma vadd_length v w : length v = length w -> length (vadd v w) = length v.
Proof. apply map2_length. Qed.
Lemma vscale_length q v : length (vscale q v) = length v.
Proof. apply map_length. Qed.

Lemma nth_vzero m i : nth i (vzero m) 0 = 0.
Proof. unfold vzero. revert i; induction m; intros [|i]; simpl; auto. Qed.
Lemma nth_vadd v w i : length v = length w -> nth i (vadd v w) 0 = nth i v 0 + nth i w 0.
Proof. intros; unfold vadd; apply nth_map2; auto. Qed.
Lemma nth_vscale q v i : nth i (vscale q v) 0 = q * nth i v 0.
Proof.
  unfold vscale. revert i; induction v; intros [|i]; simpl; auto; lia.
Qed.
Lemma nth_map_Z (f : Z -> Z) v i : f 0 = 0 -> nth i (map f v) 0 = f (nth i v 0).
Proof. intros H0. revert i; induction v; intros [|i]; simpl; auto. Qed.

Lemma vec_ext m (v w : list Z) :
  length v = m -> length w = m -> (forall i, (i < m)%nat -> nth i v 0 = nth i w 0) -> v = w.
Proof.
  intros Hv Hw H. apply nth_ext with (d := 0) (d' := 0). - congruence. - intros i Hi. apply H. lia.
Qed.

Lemma vzero_all m v : length v = m -> (forall i, (i < m)%nat -> nth i v 0 = 0) -> v = vzero m.
Proof.
  intros Hl H. apply vec_ext with m; auto using vzero_length. intros. rewrite nth_vzero; auto.
Qed.

(** ** Linear combinations of rows *)
Fixpoint lincomb (m : nat) (c : list Z) (A : mat) : list Z :=
  match c, A with
  | c0 :: c', r :: A' => vadd (vscale c0 r) (lincomb m c' A')
  | _, _ => vzero m
  end.

Definition mmul (m : nat) (U A : mat) : mat := map (fun u => lincomb m u A) U.

Lemma lincomb_length m c A : wf m A -> length (lincomb m c A) = m.
Proof.
  revert A; induction c as [|c0 c IH]; intros [|r A] H; simpl; try apply vzero_length.
  apply wf_cons in H. destruct H as [Hr HA].
  rewrite vadd_length; rewrite vscale_length; auto. rewrite IH; auto.
Qed.

Lemma mmul_wf m U A : wf m A -> wf m (mmul m U A).
Proof.
  intros H. unfold wf, mmul. rewrite Forall_forall. intros r Hr.
  apply in_map_iff in Hr. destruct Hr as [u [<- _]]. apply lincomb_length; auto.
Qed.

Lemma mmul_length m U A : length (mmul m U A) = length U.
Proof. apply map_length. Qed.

Lemma mmul_shape n m U A : length U = n -> wf m A -> shape n m (mmul m U A).
Proof. intros; split; [rewrite mmul_length; auto | apply mmul_wf; auto]. Qed.

(** entry formula, used for all algebraic identities *)
Lemma nth_lincomb_cons m c0 c r A i :
  length r = m -> wf m A ->
  nth i (lincomb m (c0 :: c) (r :: A)) 0 = c0 * nth i r 0 + nth i (lincomb m c A) 0.
Proof.
  intros Hr HA. simpl. rewrite nth_vadd, nth_vscale; auto.
  rewrite vscale_length, lincomb_length; auto.
Qed.

Lemma lincomb_nil_l m A : lincomb m [] A = vzero m.
Proof. destruct A; reflexivity. Qed.
Lemma lincomb_nil_r m c : lincomb m c [] = vzero m.
Proof. destruct c; reflexivity. Qed.

Lemma lincomb_vzero m n A : wf m A -> lincomb m (vzero n) A = vzero m.
Proof.
  revert A; induction n as [|n IH]; intros A H.
  - destruct A; reflexivity.
  - change (vzero (S n)) with (0 :: vzero n).
    destruct A as [|r A]; [reflexivity|]. apply wf_cons in H; destruct H as [Hr HA].
    apply vzero_all. { apply lincomb_length. apply wf_cons; auto. }
    intros i Hi. rewrite nth_lincomb_cons; auto. rewrite IH; auto. rewrite nth_vzero. lia.
Qed.

Lemma lincomb_add m c d A :
  length c = length d -> wf m A ->
  lincomb m (vadd c d) A = vadd (lincomb m c A) (lincomb m d A).
Proof.
  revert d A; induction c as [|c0 c IH]; intros [|d0 d] A Hl HA; simpl in Hl; try discriminate.
  - simpl. rewrite ?lincomb_nil_l. apply vec_ext with m; auto using vzero_length.
    + rewrite vadd_length; auto using vzero_length.
    + intros. rewrite nth_vadd, !nth_vzero; auto.
  - destruct A as [|r A].
    + simpl. apply vec_ext with m; auto using vzero_length.
      * rewrite vadd_length; auto using vzero_length.
      * intros. rewrite nth_vadd, !nth_vzero; auto.
    + apply wf_cons in HA; destruct HA as [Hr HA].
      change (vadd (c0 :: c) (d0 :: d)) with ((c0 + d0) :: vadd c d).
      apply vec_ext with m.
      * apply lincomb_length, wf_cons; auto.
      * rewrite vadd_length; rewrite !lincomb_length; auto; apply wf_cons; auto.
      * intros i Hi. rewrite nth_vadd by (rewrite !lincomb_length; auto; apply wf_cons; auto).
        rewrite !nth_lincomb_cons; auto. rewrite IH by (auto; lia).
        rewrite nth_vadd by (rewrite !lincomb_length; auto). lia.
Qed.

Lemma lincomb_scale m q c A :
  wf m A -> lincomb m (vscale q c) A = vscale q (lincomb m c A).
Proof.
  revert A; induction c as [|c0 c IH]; intros A HA.
  - simpl. rewrite ?lincomb_nil_l. apply vec_ext with m; auto using vzero_length.
    + rewrite vscale_length; apply vzero_length.
    + intros. rewrite nth_vscale, !nth_vzero; lia.
  - destruct A as [|r A].
    + simpl. apply vec_ext with m; auto using vzero_length.
      * rewrite vscale_length; apply vzero_length.
      * intros. rewrite nth_vscale, !nth_vzero; lia.
    + apply wf_cons in HA; destruct HA as [Hr HA].
      change (vscale q (c0 :: c)) with ((q * c0) :: vscale q c).
      apply vec_ext with m.
      * apply lincomb_length, wf_cons; auto.
      * rewrite vscale_length. apply lincomb_length, wf_cons; auto.
      * intros i Hi. rewrite nth_vscale, !nth_lincomb_cons; auto. rewrite IH; auto.
        rewrite nth_vscale. lia.
Qed.

(** associativity: (c * U) * A = c * (U * A) *)
Lemma lincomb_assoc m n c U A :
  wf n U -> wf m A ->
  lincomb m (lincomb n c U) A = lincomb m c (mmul m U A).
Proof.
  intros HU HA. revert U HU; induction c as [|c0 c IH]; intros U HU.
  - simpl. rewrite ?lincomb_nil_l. apply lincomb_vzero; auto.
  - destruct U as [|u U].
    + simpl. apply lincomb_vzero; auto.
    + apply wf_cons in HU; destruct HU as [Hu HU].
      simpl. rewrite lincomb_add; auto.
      * rewrite lincomb_scale; auto. rewrite IH; auto.
      * rewrite vscale_length, lincomb_length; auto.
Qed.

Lemma mmul_assoc m n W U A :
  wf n U -> wf m A -> mmul m (mmul n W U) A = mmul m W (mmul m U A).
Proof.
  intros HU HA. unfold mmul at 1 2 3. rewrite map_map. apply map_ext. intros w.
  apply lincomb_assoc; auto.
Qed.

(** ** Identity matrix *)
Definition unit_from (s n i : nat) : list Z := map (fun j => if (i =? j)%nat then 1 else 0) (seq s n).
Definition idmat (n : nat) : mat := map (fun i => unit_from 0 n i) (seq 0 n).

Lemma unit_from_length s n i : length (unit_from s n i) = n.
Proof. unfold unit_from. rewrite map_length, seq_length; auto. Qed.

Lemma idmat_shape n : shape n n (idmat n).
Proof.
  split.
  - unfold idmat. rewrite map_length, seq_length; auto.
  - unfold wf, idmat. rewrite Forall_forall. intros r Hr. apply in_map_iff in Hr.
    destruct Hr as [i [<- _]]. apply unit_from_length.
Qed.

Lemma unit_from_S s n i :
  unit_from s (S n) i = (if (i =? s)%nat then 1 else 0) :: unit_from (S s) n i.
Proof. reflexivity. Qed.

Lemma lincomb_unit_out m s n i A :
  wf m A -> (i < s \/ s + n <= i)%nat -> lincomb m (unit_from s n i) A = vzero m.
Proof.
  revert s A; induction n as [|n IH]; intros s A HA Hi.
  - destruct A; reflexivity.
  - rewrite unit_from_S. destruct A as [|r A]; [reflexivity|].
    pose proof HA as HA'. apply wf_cons in HA; destruct HA as [Hr HA].
    destruct (Nat.eqb_spec i s); [lia|].
    apply vzero_all. { apply lincomb_length; auto. }
    intros c Hc. rewrite nth_lincomb_cons; auto.
    rewrite IH by (auto; lia). rewrite nth_vzero. lia.
Qed.

Lemma lincomb_unit m s n i A :
  wf m A -> (s <= i < s + n)%nat -> (n <= length A)%nat ->
  lincomb m (unit_from s n i) A = row A (i - s).
Proof.
  revert s A; induction n as [|n IH]; intros s A HA Hi Hn; [lia|].
  destruct A as [|r A]; [simpl in Hn; lia|].
  pose proof HA as HA'. apply wf_cons in HA; destruct HA as [Hr HA]. simpl in Hn.
  rewrite unit_from_S.
  destruct (Nat.eqb_spec i s) as [->|Hne].
  - rewrite Nat.sub_diag. unfold row; simpl nth.
    apply vec_ext with m; auto. { apply lincomb_length; auto. }
    intros c Hc. rewrite nth_lincomb_cons; auto.
    rewrite lincomb_unit_out by (auto; lia). rewrite nth_vzero. lia.
  - replace (i - s)%nat with (S (i - S s)) by lia. unfold row; simpl nth.
    assert (Hl : length (nth (i - S s) A []) = m).
    { apply (wf_row m A); auto. lia. }
    apply vec_ext with m; auto. { apply lincomb_length; auto. }
    intros c Hc. rewrite nth_lincomb_cons; auto.
    rewrite IH by (auto; lia). unfold row. lia.
Qed.

Lemma row_idmat n i : (i < n)%nat -> row (idmat n) i = unit_from 0 n i.
Proof.
  intros Hi. unfold row, idmat.
  rewrite nth_indep with (d' := unit_from 0 n 0) by (rewrite map_length, seq_length; auto).
  rewrite (map_nth (fun i => unit_from 0 n i) (seq 0 n) 0%nat i). rewrite seq_nth; auto.
Qed.

Lemma mmul_identity_l m n A : shape n m A -> mmul m (idmat n) A = A.
Proof.
  intros [Hn HA]. unfold mmul, idmat. rewrite map_map.
  apply nth_ext with (d := []) (d' := []).
  - rewrite map_length, seq_length; auto.
  - intros j Hj. rewrite map_length, seq_length in Hj.
    rewrite nth_indep with (d' := (fun i => lincomb m (unit_from 0 n i) A) 0%nat)
      by (rewrite map_length, seq_length; auto).
    rewrite (map_nth (fun i => lincomb m (unit_from 0 n i) A) (seq 0 n) 0%nat j).
    rewrite seq_nth; auto. simpl. rewrite lincomb_unit; auto; try lia.
    rewrite Nat.sub_0_r. reflexivity.
Qed.

(** ** Row span over Z *)
Definition In_rowspanZ (m : nat) (v : list Z) (A : mat) : Prop :=
  exists c : list Z, length c = length A /\ v = lincomb m c A.

Definition same_rowspanZ (m : nat) (A B : mat) : Prop :=
  forall v, In_rowspanZ m v A <-> In_rowspanZ m v B.

(** rows of [U * A] lie in the span of [A]; spans are transitive *)
Lemma lincomb_pad m c A :
  wf m A -> exists c', length c' = length A /\ lincomb m c A = lincomb m c' A.
Proof.
  revert A; induction c as [|c0 c IH]; intros A HA.
  - exists (vzero (length A)). split; [apply vzero_length|].
    rewrite lincomb_nil_l, lincomb_vzero; auto.
  - destruct A as [|r A].
    + exists []. split; auto.
    + apply wf_cons in HA; destruct HA as [Hr HA]. destruct (IH A HA) as [c' [Hl He]].
      exists (c0 :: c'). split; [simpl; congruence|]. simpl. rewrite He. reflexivity.
Qed.

Lemma rowspan_mmul m n c U A :
  wf n U -> wf m A -> length A = n ->
  In_rowspanZ m (lincomb m c (mmul m U A)) A.
Proof.
  intros HU HA Hn. rewrite <- lincomb_assoc with (n := n); auto.
  destruct (lincomb_pad m (lincomb n c U) A HA) as [c' [Hl He]].
  exists c'. split; auto.
Qed.

Lemma rowspan_sub m n U A B :
  wf n U -> wf m A -> length A = n -> B = mmul m U A ->
  forall v, In_rowspanZ m v B -> In_rowspanZ m v A.
Proof.
  intros HU HA Hn -> v [c [_ ->]]. apply rowspan_mmul with n; auto.
Qed.

(** zero rows in front do not change the span *)
Lemma lincomb_zero_rows m k c H :
  wf m H -> length c = (k + length H)%nat ->
  lincomb m c (repeat (vzero m) k ++ H) = lincomb m (skipn k c) H.
Proof.
  revert c; induction k as [|k IH]; intros c HH Hl; simpl; auto.
  destruct c as [|c0 c]; [simpl in Hl; lia|]. simpl in Hl. simpl.
  rewrite IH by (auto; lia).
  apply vec_ext with m.
  - rewrite vadd_length; rewrite vscale_length, vzero_length; auto. rewrite lincomb_length; auto.
  - apply lincomb_length; auto.
  - intros i Hi. rewrite nth_vadd, nth_vscale, nth_vzero; [lia|].
    rewrite vscale_length, vzero_length, lincomb_length; auto.
Qed.

Lemma rowspan_zero_rows m k H :
  wf m H -> same_rowspanZ m (repeat (vzero m) k ++ H) H.
Proof.
  intros HH v. split.
  - intros [c [Hl ->]]. rewrite app_length, repeat_length in Hl.
    rewrite lincomb_zero_rows; auto. exists (skipn k c). split; auto.
    rewrite skipn_length. lia.
  - intros [c [Hl ->]]. exists (vzero k ++ c). split.
    + rewrite !app_length, vzero_length, repeat_length. lia.
    + rewrite lincomb_zero_rows; auto.
      * unfold vzero at 1. rewrite skipn_app, repeat_length, Nat.sub_diag. simpl.
        rewrite skipn_all2; auto. rewrite repeat_length; auto.
      * rewrite app_length, vzero_length. lia.
Qed.
