(** * W5C08Lists: C08, the termination results for p = 2 on coefficient lists, for Props/C08.v (ssreflect). *)
From Coq Require Import ZArith List Lia Znumtheory.
From mathcomp Require Import all_ssreflect ssralg poly polydiv ssrint zmodp.
From RNT.Model Require Import Base Poly PolyModP FactorModP.
From RNT.Refine Require Import PolyModPArith PolyModPDivList FermatZ PolyZmod PolyModPDiv MonicZ PolyModPGcd FpPoly HenselProofs FactorNorm FactorProd FpTotal C08Lists FmpField FmpSqf FmpProduct FmpIrred FmpDegree FmpSplit FmpFull FmpTotal FmpSafe FmpLists.
From RNT.Refine Require Import W5Trace W5TraceLoop.
From mathcomp Require Import ssrZ zify ring.
Set Implicit Arguments. Unset Strict Implicit. Unset Printing Implicit Defensive.
Import GRing.Theory.
Local Open Scope ring_scope.

Section Prime.
Variable p : Z.
Hypothesis Hp : Znumtheory.prime p.
Let Hp2 := prime_ge_2 _ Hp.
Let Hpp : (0 < p)%ZZ. Proof. lia. Qed.
Let Hp0 : p <> Z0. Proof. lia. Qed.
Notation n := (pnat p).

(** the canonical list of a polynomial over F_p *)
Lemma liftp_reduced (g : {poly 'F_n}) : reduced p (polyseq (liftp g)).
Proof.
split; first exact: polyseq_canonical.
apply: Forall_nth_range => k _; rewrite lnthE /liftp coef_map_id0 ?(ofF0 (n_prime Hp)) //.
by have := ofF_range (n_prime Hp) g`_k; rewrite (En Hp).
Qed.

(** list-level "all irreducible factors have degree d" gives the MathComp statement *)
Lemma factors_degree_degs_all a d : (1 <= d)%ZZ -> factors_degree p a d ->
  degs_all (redp n (PZ a)) (Z.to_nat d).
Proof.
move=> Hd A g Ig Dg.
pose gl := polyseq (liftp g).
have [Cg Rg] := liftp_reduced g.
have Eg : redp n (PZ gl) = g by rewrite /gl PZ_polyseq (liftpK (n_prime Hp)).
have Sg : size g = length gl by rewrite -(reduced_size Hp (conj Cg Rg)) Eg.
have [S1 _] := Ig.
have Il : irreducible_mod p gl.
  by apply: lirred_irreducible_mod => //; [rewrite -Sg; apply/leP | rewrite /lirred Eg].
have /dvdpP [k Ek] := Dg.
have Pk : peqmod p a (pmul opsZ gl (polyseq (liftp k))).
  by apply/(peqmodP _ _ Hp0)/(eqpm_RP Hp); rewrite PZ_pmul redpM Eg PZ_polyseq (liftpK (n_prime Hp)) mulrC.
by have := A gl _ Cg Rg Il Pk; rewrite -Sg; move: (size g) S1 => x; lia.
Qed.

End Prime.

(** ** [P] the equal-degree stage for p = 2 returns: the fuel supplied by the model suffices *)
Theorem final_split_2_terminates_all poly d r :
  canonical poly -> in_range 2 poly -> (2 <= length poly)%coq_nat -> squarefree_mod 2 poly ->
  (1 <= d)%ZZ -> factors_degree 2 poly d ->
  exists out, final_split poly 2 d r = Done (out, r).
Proof.
move=> C R L S Hd A; have P2 := prime_2.
have N : poly <> [::] by move=> e; move: L; rewrite e /=; lia.
have Rp : rnz 2 poly by [].
apply: final_split_total_2 => //.
- exact: factors_degree_degs_all.
- exact: squarefree_mod_sqfreep.
- apply/Z.eqb_neq.
  have -> : pdeg poly = (Z.of_nat (length poly) - 1)%ZZ by move: N; rewrite /pdeg; case: (poly).
  by lia.
Qed.

(** ** [P] for p = 2 [factorize_mod_p] returns for every input: no fuel runs out (p = 2 draws nothing) *)
Theorem factorize_mod_2_terminates_all md f f1 pusize r :
  (Z.of_nat (length f) <= two64)%ZZ ->
  pusize = 2%ZZ \/ (Z.of_nat (length f) <= 2)%ZZ ->
  poly_mod f 2 = Done f1 -> f1 <> [::] ->
  exists out r', factorize_mod_p md f 2 pusize r = Done (out, r').
Proof. exact: factorize_total_2. Qed.
