(** * TableAgrees: the multiplication table returned by [Order::get_mult_table] makes
    [MultTable::mul] on coordinate vectors agree with the product in Q[x]/(f) (C14).
    Style: ssreflect/MathComp; polynomials over [QcRing]; the linear-algebra facts come in
    through the matrix-free statements of OrderSolve.v / MultTableGet.v. *)
From RNT.Model Require Import Base Poly Algebraic LinAlg MultTable Order.
From Coq Require Import QArith Qcanon.
From mathcomp Require Import all_ssreflect ssralg poly polydiv.
From mathcomp Require Import ssrZ zify ring.
From RNT.Refine Require Import QcRing PolyRefine PolyDiv PolyZ PolyQ AlgMul AlgQuot MultTableOps MultTableGet.
From RNT.Refine Require OrderSolve LinAlgQc.
Set Implicit Arguments.
Unset Strict Implicit.
Unset Printing Implicit Defensive.
Import GRing.Theory.
Local Open Scope ring_scope.

(** [qz : Z -> Qc] is a ring morphism *)
Lemma qzD x y : qz (x + y) = qz x + qz y.
Proof.
rewrite QcaddE /Qcplus; apply/Q2Qc_eq_iff.
by rewrite !this_Q2Qc inject_Z_plus.
Qed.
Lemma qzM x y : qz (x * y) = qz x * qz y.
Proof.
rewrite QcmulE /Qcmult; apply/Q2Qc_eq_iff.
by rewrite !this_Q2Qc inject_Z_mult.
Qed.
Lemma qz0 : qz 0 = 0. Proof. by []. Qed.
Lemma qz_sum (I : Type) (r : seq I) (F : I -> Z) : qz (\sum_(i <- r) F i) = \sum_(i <- r) qz (F i).
Proof. exact: (big_morph qz qzD qz0). Qed.

Lemma modp_sum (K : fieldType) (I : Type) (r : seq I) (F : I -> {poly K}) d :
  (\sum_(i <- r) F i) %% d = \sum_(i <- r) (F i %% d).
Proof. exact: (big_morph (fun p => p %% d) (modpD d) (mod0p d)). Qed.

(** coefficient [c] of [sum_k x_k *: Poly (row k)] is the dot product with column [c] *)
Lemma qdot_coef n (x : seq Qc) (b : seq (seq Qc)) c :
  OrderSolve.qdot n x b c = (\sum_(k <- iota 0 n) nth 0 x k *: Poly (nth [::] b k))`_c.
Proof.
rewrite /OrderSolve.qdot Lseq_eq coef_sum unlock /reducebig.
elim: (iota 0 n) => //= k s ->; congr (_ + _).
by rewrite coefZ coef_Poly !Lnth_eq.
Qed.

Section Agree.
Variables (f : seq Z) (n : nat).
Hypothesis cf : canonZ f.
Hypothesis szf : size f = n.+1.
Variable b : seq (seq Qc).
Hypothesis sb : size b = n.
Hypothesis rb : forall i, (i < n)%N -> size (nth [::] b i) = n.
Let W i : {poly Qc} := Poly (nth [::] b i).
Let F := Fq f.

Lemma size_W i : (i < n)%N -> (size (W i) <= n)%N.
Proof. by move=> hi; rewrite (leq_trans (size_Poly _)) // rb. Qed.

(** a vector of rational coordinates read as an element *)
Definition of_coords (x : seq Qc) : {poly Qc} := \sum_(k <- iota 0 n) nth 0 x k *: W k.

Lemma size_of_coords x : (size (of_coords x) <= n)%N.
Proof.
rewrite /of_coords big_seq; elim/big_ind: _ => [|p q sp sq|k]; first by rewrite size_poly0.
  by rewrite (leq_trans (size_add _ _)) // geq_max sp sq.
rewrite mem_iota add0n => /andP[_ hk].
by rewrite (leq_trans (size_scale_leq _ _)) // size_W.
Qed.

(** solving against the basis recovers the coordinates *)
Lemma solve_coords (v inv : seq Qc) : (size (Poly v) <= n)%N ->
  solve_linear_system fopsQc b (coefs_upto n (polyseq (Poly v))) = Done (Ok inv) ->
  of_coords inv = Poly v.
Proof.
move=> sv /OrderSolve.solve_dot; rewrite Llength_eq sb => h.
apply/polyP => c; case: (ltnP c n) => hc; last first.
  rewrite [RHS]nth_default ?(leq_trans sv) // nth_default //.
  exact: leq_trans (size_of_coords inv) hc.
have := h c hc; rewrite /of_coords -qdot_coef => ->.
rewrite /coefs_upto Lnth_eq Lmap_eq Lseq_eq (nth_map 0%N) ?size_iota // nth_iota // add0n.
by rewrite opsQc_eq (@coef_at_nth _ Qc_ofZ).
Qed.

(** [P] [to_z_basis_int] returns the integer coordinates of the element *)
Theorem to_z_basis_int_spec (a : seq Qc) (r : seq Z) : canonQ a -> (size a <= n)%N ->
  to_z_basis_int b a = Done r -> size r = n /\ of_coords (map qz r) = Poly a.
Proof.
move=> ca sa /to_z_basis_int_inv [inv []]; rewrite !Llength_eq sb => e1 [sr hk]; split=> //.
have <- : of_coords inv = Poly a.
  apply: solve_coords; first by rewrite (leq_trans (size_Poly _)).
  by rewrite canon_PolyK.
rewrite /of_coords; apply: eq_big_seq => k; rewrite mem_iota add0n => /andP[_ hk'].
have [qi e] := hk k (ltP hk'); rewrite (nth_map 0%Z) ?sr // -Lnth_eq e.
by rewrite [qz _](LinAlgQc.q_integer qi) Lnth_eq.
Qed.

Section WithTable.
Variable t : table.
Hypothesis gt : get_mult_table b f = Done t.

Lemma table_facts i j : (i < n)%N -> (j < n)%N ->
  [/\ size t = n, size (nth [::] t i) = n, size (nth [::] (nth [::] t i) j) = n &
      \sum_(k <- iota 0 n) qz (T3 t i j k) *: W k = (W i * W j) %% F].
Proof.
move=> hi hj; have [st h] := get_mult_table_inv _ _ _ gt.
move: st h; rewrite !Llength_eq sb => st h.
have [sti [prod [inv [e1 [e2 [stij hk]]]]]] := h i j (ltP hi) (ltP hj).
split=> //; rewrite -?Lnth_eq //.
have ei : elem n (from_raw opsQc (nth [::] b i)).
  by rewrite opsQc_eq /from_raw (@strip_Poly _ Qc_ofZ); apply: elem_polyseq; apply: size_W.
have ej : elem n (from_raw opsQc (nth [::] b j)).
  by rewrite opsQc_eq /from_raw (@strip_Poly _ Qc_ofZ); apply: elem_polyseq; apply: size_W.
move: e1; rewrite !Lnth_eq => e1.
have [r e1' [er pr]] := alg_mul_ok cf szf ei ej.
move: e1'; rewrite e1 => -[e]; subst r.
move: pr; rewrite opsQc_eq /from_raw !(@Poly_strip _ Qc_ofZ) -/(W i) -/(W j) -/F => <-.
case/andP: er => cpr spr.
have <- : of_coords inv = Poly prod.
  apply: solve_coords; first by rewrite (leq_trans (size_Poly _)).
  by rewrite canon_PolyK.
rewrite /of_coords; apply: eq_big_seq => k; rewrite mem_iota add0n => /andP[_ hk'].
have [qi e] := hk k (ltP hk'); rewrite /T3 -!Lnth_eq e.
by rewrite [qz _](LinAlgQc.q_integer qi) Lnth_eq.
Qed.

Theorem table_cube : cube n t.
Proof.
case: (posnP n) => [n0|n0].
  have [st _] := get_mult_table_inv _ _ _ gt; move: st; rewrite !Llength_eq sb n0.
  by case: (t).
have [st _ _ _] := table_facts n0 n0.
rewrite /cube st eqxx /=; apply/allP => ti /(nthP [::]) [i]; rewrite st => hi <-.
have [_ -> _ _] := table_facts hi n0; rewrite eqxx /=.
apply/allP => r /(nthP [::]) [j]; have [_ -> _ _] := table_facts hi n0 => hj <-.
by have [_ _ -> _] := table_facts hi hj.
Qed.

(** [P] table_mul_agrees: [mul] on integer coordinate vectors returns the coordinates of
    the product of the two elements in Q[x]/(f) *)
Theorem table_mul_agrees m (x y : seq Z) : size x = n -> size y = n ->
  exists2 z, mt_mul m t x y = Done z &
    size z = n /\
    of_coords (map qz z) = (of_coords (map qz x) * of_coords (map qz y)) %% F.
Proof.
move=> sx sy; rewrite (mt_mul_closed m table_cube sx sy).
exists (mkseq (mul_coef t x y n) n) => //; split; first by rewrite size_mkseq.
have nthq (v : seq Z) k : nth 0 (map qz v) k = qz (nth 0%Z v k).
  case: (ltnP k (size v)) => hk; first by rewrite (nth_map 0%Z).
  by rewrite !nth_default ?size_map.
rewrite /of_coords mulr_suml modp_sum.
under [RHS]eq_bigr do rewrite mulr_sumr modp_sum.
rewrite (eq_big_seq (fun k => \sum_(i <- iota 0 n) \sum_(j <- iota 0 n)
           (qz (nth 0%Z x i) * qz (nth 0%Z y j) * qz (T3 t i j k)) *: W k)); last first.
  move=> k; rewrite mem_iota add0n => /andP[_ hk].
  rewrite nthq nth_mkseq // /mul_coef qz_sum scaler_suml; apply: eq_bigr => i _.
  by rewrite qz_sum scaler_suml; apply: eq_bigr => j _; rewrite !qzM.
rewrite exchange_big /=; apply: eq_big_seq => i; rewrite mem_iota add0n => /andP[_ hi].
rewrite exchange_big /=; apply: eq_big_seq => j; rewrite mem_iota add0n => /andP[_ hj].
have [_ _ _ e] := table_facts hi hj.
rewrite !nthq -scalerAl -scalerAr scalerA modpZl -e scaler_sumr.
by apply: eq_bigr => k _; rewrite scalerA.
Qed.

End WithTable.
End Agree.
