(** * PolyZFactorW3Hensel: C07, uniqueness of Hensel lifts in Z[x] (MathComp).

    [n] is a prime (as a natural number), [p = Z.of_nat n]; [eqpm m] is congruence of integer
    polynomials modulo the integer [m] (Refine/PolyZmod.v), [redp n] the reduction to ['F_n[x]]
    (Refine/FmpField.v).

    [hensel_unique]: if [A B = A' B'] modulo [p^e], [A = A'] and [B = B'] modulo [p], [A] and [A']
    (resp. [B] and [B']) have the same degree and the same leading coefficient, not divisible by [p],
    and [A], [B] are coprime modulo [p], then [A = A'] and [B = B'] modulo [p^e]. *)
From Coq Require Import ZArith Lia Znumtheory.
From mathcomp Require Import all_ssreflect ssralg poly polydiv ssrint zmodp.
From RNT.Refine Require Import PolyZmod FmpField.
From mathcomp Require Import ssrZ zify ring.
Set Implicit Arguments.
Unset Strict Implicit.
Unset Printing Implicit Defensive.
Import GRing.Theory.
Local Open Scope ring_scope.

Section Hensel.
Variable n : nat.
Hypothesis n_prime : prime n.
Notation p := (Z.of_nat n).
Notation red := (redp n).

Let n_gt1 : (1 < n)%nat. Proof. exact: prime_gt1. Qed.
Let p_neq0 : p != 0. Proof. by apply/eqP; lia. Qed.

(** ** reduction modulo p *)
Lemma red_eq0 (a : {poly Z}) : red a = 0 <-> exists k, a = p%:P * k.
Proof.
rewrite -(redp0 n) -(eqpm_redp n_prime); split=> [[k ->]|[k ->]]; first by exists k; rewrite add0r.
by exists k; rewrite add0r.
Qed.

Lemma toF_neq0 (c : Z) : ~ (p | c)%ZZ -> toF n c != 0.
Proof.
move=> nd; apply/eqP => /(toF_eq0 n_prime) h; apply: nd.
have hp : p <> Z0 by lia.
exact: (proj1 (Z.mod_divide c p hp) h).
Qed.

Lemma toF_eq0_dvd (c : Z) : toF n c = 0 -> (p | c)%ZZ.
Proof.
move/(toF_eq0 n_prime) => h; have hp : p <> Z0 by lia.
exact: (proj1 (Z.mod_divide c p hp) h).
Qed.

Lemma size_red (a : {poly Z}) : ~ (p | lead_coef a)%ZZ -> size (red a) = size a.
Proof. by move=> nd; rewrite /redp size_map_poly_id0 // toF_neq0. Qed.

Lemma size_red_le (a : {poly Z}) : (size (red a) <= size a)%N.
Proof. exact: size_poly. Qed.

Lemma lead_coef_red (a : {poly Z}) : ~ (p | lead_coef a)%ZZ -> lead_coef (red a) = toF n (lead_coef a).
Proof. by move=> nd; rewrite /redp lead_coef_map_id0 // ?rmorph0 // toF_neq0. Qed.

(** same degree and same leading coefficient: the difference has smaller degree *)
Lemma size_sub_same_lead (A A' : {poly Z}) : A != 0 -> size A = size A' -> lead_coef A = lead_coef A' ->
  (size (A' - A)%R < size A)%N.
Proof.
move=> A0 es el; have sA : (0 < size A)%N by rewrite size_poly_gt0.
rewrite -(prednK sA) ltnS; apply/leq_sizeP => j; rewrite leq_eqVlt => /orP [/eqP <-|lt].
  by rewrite coefB {1}es -!lead_coefE el subrr.
rewrite coefB !nth_default ?subrr //; first by rewrite -(prednK sA).
by rewrite -es -(prednK sA).
Qed.

(** ** uniqueness of the lift *)
Lemma hensel_unique_step k (A B A' B' : {poly Z}) : (0 < k)%N ->
  eqpm (p ^+ k.+1) (A * B) (A' * B') -> eqpm (p ^+ k) A A' -> eqpm (p ^+ k) B B' ->
  lead_coef A = lead_coef A' -> size A = size A' ->
  lead_coef B = lead_coef B' -> size B = size B' ->
  ~ (p | lead_coef A)%ZZ -> ~ (p | lead_coef B)%ZZ -> coprimep (red A) (red B) ->
  eqpm (p ^+ k.+1) A A' /\ eqpm (p ^+ k.+1) B B'.
Proof.
move=> k0 eAB /eqpm_sym [al eal] /eqpm_sym [be ebe] lA sA lB sB ndA ndB cop.
have A0 : A != 0 by rewrite -lead_coef_eq0; apply/eqP => h; apply: ndA; rewrite h; exact: Z.divide_0_r.
have B0 : B != 0 by rewrite -lead_coef_eq0; apply/eqP => h; apply: ndB; rewrite h; exact: Z.divide_0_r.
have pk0 : p ^+ k != 0 by rewrite expf_neq0.
have sal : (size al < size A)%N.
  have := size_sub_same_lead A0 sA lA.
  by rewrite eal addrC addKr mul_polyC size_scale.
have sbe : (size be < size B)%N.
  have := size_sub_same_lead B0 sB lB.
  by rewrite ebe addrC addKr mul_polyC size_scale.
(* al * B + be * A vanishes modulo p *)
case: eAB => K eK.
have e1 : red (al * B + be * A) = 0.
  apply/red_eq0; exists (- (K + (p ^+ k.-1)%:P * al * be)).
  have pkP : (p ^+ k)%:P != 0 :> {poly Z} by rewrite polyC_eq0.
  apply: (mulfI pkP).
  have ek : (p ^+ k)%:P = (p ^+ k.-1)%:P * p%:P :> {poly Z} by rewrite -polyCM -exprSr prednK.
  have ek1 : (p ^+ k.+1)%:P = (p ^+ k)%:P * p%:P :> {poly Z} by rewrite -polyCM -exprSr.
  move: eK; rewrite eal ebe ek1 => eK.
  have -> : (p ^+ k)%:P * (al * B + be * A)
          = (A + (p ^+ k)%:P * al) * (B + (p ^+ k)%:P * be) - A * B - (p ^+ k)%:P * (p ^+ k)%:P * al * be by ring.
  rewrite [A * B]eK !ek; ring.
have e2 : red al * red B = - (red be * red A).
  by apply/eqP; rewrite -subr_eq0 opprK -!redpM -redpD; apply/eqP.
have sAr := size_red ndA; have sBr := size_red ndB.
have ral : red al = 0.
  apply/eqP/negPn/negP => al0.
  have : red A %| red al by rewrite -(Gauss_dvdpl _ cop) e2 dvdpNr dvdp_mull.
  move/(dvdp_leq al0); rewrite sAr leqNgt.
  by rewrite (leq_ltn_trans (size_red_le al) sal).
have rbe : red be = 0.
  apply/eqP/negPn/negP => be0.
  have : red B %| red be.
    rewrite -(Gauss_dvdpl _ (_ : coprimep (red B) (red A))) 1?coprimep_sym //.
    by rewrite -[red be * red A]opprK -e2 dvdpNr dvdp_mull.
  move/(dvdp_leq be0); rewrite sBr leqNgt.
  by rewrite (leq_ltn_trans (size_red_le be) sbe).
have [al' eal'] := (red_eq0 al).1 ral.
have [be' ebe'] := (red_eq0 be).1 rbe.
have ek1 : (p ^+ k.+1)%:P = (p ^+ k)%:P * p%:P :> {poly Z} by rewrite -polyCM -exprSr.
split; apply: eqpm_sym.
- by exists al'; rewrite eal eal' ek1 mulrA.
- by exists be'; rewrite ebe ebe' ek1 mulrA.
Qed.

Theorem hensel_unique e (A B A' B' : {poly Z}) : (0 < e)%N ->
  eqpm (p ^+ e) (A * B) (A' * B') -> eqpm p A A' -> eqpm p B B' ->
  lead_coef A = lead_coef A' -> size A = size A' ->
  lead_coef B = lead_coef B' -> size B = size B' ->
  ~ (p | lead_coef A)%ZZ -> ~ (p | lead_coef B)%ZZ -> coprimep (red A) (red B) ->
  eqpm (p ^+ e) A A' /\ eqpm (p ^+ e) B B'.
Proof.
move=> e0 eAB eA eB lA sA lB sB ndA ndB cop.
suff h k : (0 < k <= e)%N -> eqpm (p ^+ k) A A' /\ eqpm (p ^+ k) B B'.
  by apply: h; rewrite e0 leqnn.
elim: k => [|k IH] // /andP [_ ke].
case: k IH ke => [|k] IH ke; first by rewrite expr1.
have [|hA hB] := IH; first by rewrite /= ltnW.
apply: hensel_unique_step => //.
have ep : p ^+ e = (p ^+ k.+2 * p ^+ (e - k.+2))%ZZ by rewrite -{1}(subnKC ke) exprD.
by rewrite ep in eAB; exact: eqpm_weaken eAB.
Qed.

End Hensel.
