(** * W8C06Recip (C06, eighth wave): the change of generator theta |-> 1 / theta.

      F of degree n >= 1 over a field with F(0) <> 0; R = x^n F(1/x) the reversed polynomial (minimal polynomial of 1/theta).
      x is invertible modulo F: x * xinv F = 1 mod F with xinv F = -(F - F(0)) / (x F(0)).  Then R(xinv F) = 0 mod F,
      F(xinv R) = 0 mod R and (xinv F)(xinv R) = x mod R, so the matrix Phi of x |-> xinv F from K[x]/(R) to K[x]/(F) is invertible.
      Style: ssreflect/MathComp, generic field. *)
From mathcomp Require Import all_ssreflect ssralg zmodp poly polydiv matrix mxalgebra mxpoly.
From mathcomp Require Import zify.
From RNT.Refine Require Import AlgQuot AlgNormRes W8C06Alg.
Set Implicit Arguments.
Unset Strict Implicit.
Unset Printing Implicit Defensive.
Import GRing.Theory.
Local Open Scope ring_scope.

(** substitution and reduction of the inner polynomial *)
Lemma comp_poly_modr (K : fieldType) (G a p : {poly K}) : (a \Po p) %% G = (a \Po (p %% G)) %% G.
Proof.
elim/poly_ind: a => [|a c IH]; first by rewrite !comp_poly0.
rewrite !comp_polyD !comp_polyM !comp_polyX !comp_polyC modpD [in RHS]modpD; congr (_ + _).
by rewrite -modp_mul2 IH modp_mul2 modp_mul.
Qed.

Section Inverse2.
Variable K : fieldType.
Variables (F G : {poly K}) (n : nat).
Hypothesis szF : size F = n.+1.
Hypothesis szG : size G = n.+1.
Variables h h' : {poly K}.
Hypothesis Fh' : (F \Po h') %% G = 0.
Hypothesis hh' : (h \Po h') %% G = 'X %% G.

Theorem Phi_inverse_mod : Phi F n h *m Phi G n h' = 1%:M.
Proof.
apply/row_matrixP => i; rewrite !rowE mulmxA mulmx1.
apply: (@rVpoly_inj K n).
rewrite (rVpoly_Phi szG) (rVpoly_Phi szF) (comp_mod Fh') -comp_polyA comp_poly_modr hh' -comp_poly_modr comp_polyXr.
by rewrite modp_small // szG ltnS size_poly.
Qed.

Lemma Phi_unit_mod : Phi F n h \in unitmx.
Proof. by case/mulmx1_unit: Phi_inverse_mod. Qed.

End Inverse2.

Section Recip.
Variable K : fieldType.
Variable n : nat.
Hypothesis n0 : (0 < n)%N.

Definition prev (F : {poly K}) : {poly K} := \poly_(i < n.+1) F`_(n - i).
Definition xinv (F : {poly K}) : {poly K} := - (F`_0)^-1 *: \poly_(i < n) F`_i.+1.

Section One.
Variable F : {poly K}.
Hypothesis szF : size F = n.+1.
Hypothesis F00 : F`_0 != 0.

Let F0 : F != 0. Proof. by rewrite -size_poly_eq0 szF. Qed.

Lemma size_prev : size (prev F) = n.+1.
Proof. by rewrite /prev size_poly_eq // subnn. Qed.

Lemma prev_coef0 : (prev F)`_0 = lead_coef F.
Proof. by rewrite coef_poly /= subn0 lead_coefE szF. Qed.

Lemma prev_coef0_neq0 : (prev F)`_0 != 0.
Proof. by rewrite prev_coef0 lead_coef_eq0. Qed.

Lemma prev_prev : prev (prev F) = F.
Proof.
apply/polyP => i; rewrite coef_poly; case: ltnP => hi.
  by rewrite coef_poly ltnS leq_subr subKn.
by rewrite nth_default // szF.
Qed.

Lemma F_split : F = (\poly_(i < n) F`_i.+1) * 'X + (F`_0)%:P.
Proof.
apply/polyP => i; rewrite coefD coefMX coefC; case: i => [|i] /=; first by rewrite add0r.
rewrite addr0 coef_poly; case: ltnP => // hi.
by rewrite nth_default // szF.
Qed.

Lemma xinvX : xinv F * 'X = 1 - (F`_0)^-1 *: F.
Proof.
have e : (\poly_(i < n) F`_i.+1) * 'X = F - (F`_0)%:P by rewrite {2}F_split addrK.
rewrite /xinv -scalerAl e scaleNr scalerBr opprB -[_ *: _%:P]mul_polyC -polyCM mulVf //.
Qed.

Lemma xinvX_mod : (xinv F * 'X) %% F = 1.
Proof.
rewrite xinvX modpD modNp modpZl modpp scaler0 oppr0 addr0 modp_small //.
by rewrite szF size_poly1.
Qed.

Lemma xinvX_exp_mod k : ((xinv F * 'X) ^+ k) %% F = 1.
Proof.
rewrite -modp_exp xinvX_mod expr1n modp_small // szF size_poly1.
by [].
Qed.

(** R(1/x) x^n = F *)
Lemma prev_comp_Xn : ('X^n * (prev F \Po xinv F)) %% F = 0.
Proof.
rewrite comp_polyE size_prev mulr_sumr modp_bigsum.
have term (i : 'I_n.+1) : ('X^n * ((prev F)`_i *: xinv F ^+ i)) %% F = (F`_(n - i) *: 'X^(n - i)) %% F.
  have hi : (i <= n)%N by rewrite -ltnS.
  rewrite coef_poly ltn_ord -scalerAr modpZl [in RHS]modpZl; congr (_ *: _).
  rewrite -{1}(subnK hi) exprD -mulrA -exprMn [_ * xinv F]mulrC -modp_mul xinvX_exp_mod mulr1.
  by [].
rewrite (eq_bigr _ (fun i _ => term i)) -modp_bigsum.
rewrite (reindex_inj rev_ord_inj) /=.
have -> : \sum_(j < n.+1) F`_(n - (n.+1 - j.+1)) *: 'X^(n - (n.+1 - j.+1)) = F.
  rewrite [RHS](_ : F = \sum_(j < n.+1) F`_j *: 'X^j); last by rewrite -[LHS]coefK poly_def szF.
  apply: eq_bigr => j _.
  by rewrite subSS subKn // -ltnS.
exact: modpp.
Qed.

Theorem prev_comp_xinv : (prev F \Po xinv F) %% F = 0.
Proof.
have -> : (prev F \Po xinv F) %% F = ((xinv F * 'X) ^+ n * (prev F \Po xinv F)) %% F.
  by rewrite -modp_mul2 xinvX_exp_mod mul1r.
by rewrite exprMn -mulrA -modp_mul prev_comp_Xn mulr0 mod0p.
Qed.

End One.

Section Both.
Variable F : {poly K}.
Hypothesis szF : size F = n.+1.
Hypothesis F00 : F`_0 != 0.
Let R := prev F.
Let szR : size R = n.+1 := size_prev F00.
Let R00 : R`_0 != 0 := prev_coef0_neq0 szF.

Lemma F_comp_xinv : (F \Po xinv R) %% R = 0.
Proof. by have := prev_comp_xinv szR R00; rewrite /R prev_prev. Qed.

Lemma xinv_xinv : (xinv F \Po xinv R) %% R = 'X %% R.
Proof.
set h := xinv F; set h' := xinv R.
have e1 : ((h \Po h') * h') %% R = 1.
  have -> : (h \Po h') * h' = (h * 'X) \Po h' by rewrite comp_polyM comp_polyX.
  rewrite (xinvX szF F00) comp_polyB comp_polyZ -polyC1 comp_polyC polyC1 modpD modNp modpZl F_comp_xinv.
  by rewrite scaler0 oppr0 addr0 modp_small // szR size_poly1.
have e2 : (h' * 'X) %% R = 1 := xinvX_mod szR R00.
have -> : (h \Po h') %% R = ((h \Po h') * (h' * 'X)) %% R by rewrite -modp_mul e2 mulr1.
by rewrite mulrA -modp_mul2 e1 mul1r.
Qed.

Theorem Phi_recip_unit : Phi F n (xinv F) \in unitmx.
Proof. exact: (Phi_unit_mod szF szR F_comp_xinv xinv_xinv). Qed.

End Both.
End Recip.
