(** The degree of the polynomial returned by [resultant_gcd]: deg f + deg g - rank of the Sylvester matrix over Q
    (rank formula of SubresRank.v + gcd_divides). ssreflect/MathComp style. *)
From RNT.Model Require Import Base Poly Resultant.
From Coq Require Import ZArith.
From mathcomp Require Import all_ssreflect ssralg ssrnum ssrint rat poly polydiv matrix mxalgebra mxpoly.
From mathcomp Require Import ssrZ zify.
From RNT.Refine Require Import PolyRefine PolyZ ResInt SubresGaussZ SubresGauss SubresGcdDiv SubresRank.
From RNT.Refine Require ResProofs.
Set Implicit Arguments.
Unset Strict Implicit.
Unset Printing Implicit Defensive.
Import GRing.Theory.
Import Pdiv.Idomain.
Local Open Scope ring_scope.

Local Notation dg p := (size p).-1.

Definition ZtoQ (z : Z) : rat := (int_of_Z z)%:~R.
Lemma ZtoQ_is_rmorphism : rmorphism ZtoQ.
Proof.
have -> : ZtoQ = intr \o int_of_Z by [].
exact: (GRing.RMorphism.class [rmorphism of (intr : int -> rat) \o int_of_Z]).
Qed.
Canonical ZtoQ_additive := Additive ZtoQ_is_rmorphism.
Canonical ZtoQ_rmorphism := RMorphism ZtoQ_is_rmorphism.
Lemma ZtoQ_inj : injective ZtoQ.
Proof. by move=> x y /intr_inj /(can_inj int_of_ZK). Qed.

Local Notation toQ := (map_poly ZtoQ).

Lemma size_toQ (p : {poly Z}) : size (toQ p) = size p.
Proof. by rewrite (size_map_inj_poly ZtoQ_inj) // rmorph0. Qed.

Lemma toQ_eq0 (p : {poly Z}) : (toQ p == 0) = (p == 0).
Proof. by rewrite -!size_poly_eq0 size_toQ. Qed.

(** [P] the degree of the polynomial returned by [resultant_gcd] is
    deg f + deg g - rank (Sylvester matrix of f and g over Q). *)
Theorem gcd_degree (f g : seq Z) :
  ResProofs.canonb f = true -> ResProofs.canonb g = true -> f <> [::] -> g <> [::] ->
  exists d : seq Z, resultant_gcd f g = (true, Done d) /\
    (size d).-1 = ((size f).-1 + (size g).-1
                   - \rank (Sylvester_mx (toQ (Poly f)) (toQ (Poly g))))%N.
Proof.
move=> cf cg nf ng; have [d [qf [qg [G Ef Eg cop hcont]]]] := gcd_divides cf cg nf.
exists d; split=> //.
have cf' : canonZ f by rewrite -canonb_canonZ.
have cg' : canonZ g by rewrite -canonb_canonZ.
have nzF : Poly f != 0 by rewrite canon_Poly_eq0 //; apply/eqP.
have nzG : Poly g != 0 by rewrite canon_Poly_eq0 //; apply/eqP.
have nzD : Poly d != 0 by apply: contraNneq nzF => D0; rewrite Ef D0 mulr0.
have nzqf : qf != 0 by apply: contraNneq nzF => q0; rewrite Ef q0 mul0r.
have nzP : toQ (Poly f) != 0 by rewrite toQ_eq0.
have nzQ : toQ (Poly g) != 0 by rewrite toQ_eq0.
rewrite (rank_Sylvester nzP nzQ) !size_toQ !canon_size_Poly //.
(* the gcd over Q has the size of d *)
have [u [v [c [nzc Ebz]]]] := coprimep_bezoutZ cop.
have cop' : coprimep (toQ qf) (toQ qg).
  apply/Bezout_coprimepP; exists (toQ u, toQ v) => /=.
  rewrite -!rmorphM -rmorphD Ebz /= map_polyC /= -[_%:P]mulr1 mul_polyC.
  by apply: eqp_scale; rewrite -(rmorph0 ZtoQ_rmorphism) (inj_eq ZtoQ_inj).
have sgcd : size (gcdp (toQ (Poly f)) (toQ (Poly g))) = size (Poly d).
  rewrite Ef Eg !rmorphM /= (eqp_size (gcdp_mul2r _ _ _)) size_mul ?toQ_eq0 //; last first.
    by rewrite gcdp_eq0 toQ_eq0 (negPf nzqf).
  by move: cop'; rewrite coprimep_def => /eqP ->; rewrite size_toQ.
have sd : size (Poly d) = size d.
  have [d' [G' [_ _ cd]]] := SubresSpec.gcd_spec cf cg nf.
  have Ed : d' = d by move: G'; rewrite G => -[].
  have cd' : canonZ d by rewrite -canonb_canonZ -Ed.
  by rewrite canon_size_Poly.
rewrite sgcd sd.
have le : (size d <= size f)%N.
  rewrite -sd -(canon_size_Poly cf') Ef size_mul //.
  by move: (polySpred nzqf); move: (size qf) (size (Poly d)) => x y; lia.
by move: le; move: (size d) (size f) (size g) => x y z; lia.
Qed.
