(** * DecompW5Top (C17, fifth wave): the product of the ideals returned by [decompose].

    [ideal_product md t res] (DecompW5Lattice) multiplies the unit ideal by every P_i, e_i times, with the
    model's [principal] and [ideal_mul].  Under the hypotheses of [prime_above_proper]:
      - it returns, and the result lies in p O                                          ([product_below_p_std]);
      - it IS p O -- the stored form returned by [principal] on p, of norm p^n -- when the Dedekind flag
        holds: with f = prod g_i^e_i + p h in Z[x], no g_i with e_i >= 2 divides h modulo p
        ([dedekind_flag], a boolean evaluated with the model's [poly_mod] / [poly_divrem]);
        in particular when no e_i exceeds 1                                              ([product_unramified_std]).
    Style: ssreflect/MathComp. *)
From Coq Require Import ZArith List Lia Znumtheory.
From Coq Require Import QArith Qcanon.
From mathcomp Require Import all_ssreflect ssralg poly polydiv ssrint zmodp.
From RNT.Model Require Import Base Poly PolyModP LinAlg MultTable Order FactorModP Ideal PrimeDecomp.
From RNT.Model Require Hnf.
From RNT.Refine Require Import PolyModPArith PolyModPDivList FermatZ PolyZmod PolyModPDiv MonicZ PolyModPGcd FpPoly
  HenselProofs FactorNorm FactorProd FpTotal FmpField FmpSqf FmpProduct FmpIrred FmpDegree FmpSplit FmpFull FmpTotal FmpSafe FmpLists
  DecompDegree DecompW3Factors.
From RNT.Refine Require Import MatZ HnfSpec IdealBasic IdealMul IdealSpec IdealLaws IdealCapZ IdealInv.
From RNT.Refine Require Import PolyRefine PolyZ DecompW3Order DecompW3Proper DecompW3Top DecompW5Lattice.
From RNT.Refine Require DecompW3Index DecompW3Solve OrderCanon AlgNormMx AlgNormOrder.
From mathcomp Require Import ssrZ zify ring.
Set Implicit Arguments. Unset Strict Implicit. Unset Printing Implicit Defensive.
Import GRing.Theory.
Local Open Scope ring_scope.

(** ** the Dedekind flag, evaluated on lists *)
Fixpoint lpow (g : list Z) (k : nat) : list Z :=
  if k is S k' then pmul opsZ g (lpow g k') else [:: 1%Z].

Fixpoint phi_list (fs : list (list Z * Z)) : list Z :=
  if fs is ge :: fs' then pmul opsZ (lpow ge.1 (Z.to_nat ge.2)) (phi_list fs') else [:: 1%Z].

(** h = (f - prod g^e) / p, coefficient by coefficient *)
Definition ded_h (p : Z) (f : list Z) (fs : list (list Z * Z)) : list Z :=
  List.map (fun c => Z.div c p) (psub opsZ f (phi_list fs)).

(** g does not divide h modulo p: the remainder of [poly_divrem] is not the zero polynomial *)
Definition ded_test (p : Z) (hl g : list Z) : bool :=
  match (do hm <- poly_mod hl p; poly_divrem hm g p) with
  | Done (_, r) => if r is nil then false else true
  | _ => false
  end.

Definition dedekind_flag (p : Z) (f : list Z) (fs : list (list Z * Z)) : bool :=
  forallb (fun ge : list Z * Z => (snd ge <? 2)%Z || ded_test p (ded_h p f fs) (fst ge)) fs.

Lemma dedekind_flag_unramified p f fs : List.Forall (fun ge : list Z * Z => snd ge = 1%Z) fs ->
  dedekind_flag p f fs = true.
Proof.
rewrite /dedekind_flag; move: (ded_h p f fs) => hl.
by elim=> [|ge l e1 _ IH] //=; rewrite e1 IH.
Qed.

Lemma PZ_one : PZ [:: 1%Z] = 1.
Proof. by rewrite /PZ /= cons_poly_def mul0r add0r. Qed.

Lemma PZ_lpow g k : PZ (lpow g k) = PZ g ^+ k.
Proof.
elim: k => [|k IH]; first by rewrite -[lpow g 0]/[:: 1%Z] PZ_one expr0.
by rewrite -[lpow g k.+1]/(pmul opsZ g (lpow g k)) PZ_pmul IH exprS.
Qed.

Lemma PZ_phi gs : PZ (phi_list (List.map factor_of gs)) = PhiZ gs.
Proof.
rewrite /PhiZ; elim: gs => [|[[g P] e] gs IH]; first by rewrite big_nil -[phi_list _]/[:: 1%Z] PZ_one.
rewrite -[phi_list _]/(pmul opsZ (lpow g (Z.to_nat e)) (phi_list (List.map factor_of gs))).
by rewrite PZ_pmul PZ_lpow IH big_cons.
Qed.

Lemma ForallOrdPairs_of (X Y : Type) (F : X -> Y) (R : X -> X -> Prop) (l : list X) :
  (forall x y, List.In x l -> List.In y l -> F x <> F y -> R x y) ->
  List.NoDup (List.map F l) -> List.ForallOrdPairs R l.
Proof.
elim: l => [|x l IH] H /=; first by move=> _; constructor.
move=> /List.NoDup_cons_iff [nin nd]; constructor.
  apply/List.Forall_forall => y iy; apply: H => //=; [by left | by right |].
  by move=> e; apply: nin; rewrite e; apply: List.in_map.
by apply: IH => // a c ia ic; apply: H; right.
Qed.

Section Prime.
Variable p : Z.
Hypothesis Hp : Znumtheory.prime p.
Let Hp2 := prime_ge_2 _ Hp.
Let Hpp : (0 < p)%ZZ. Proof. lia. Qed.
Let Hp0 : p <> Z0. Proof. lia. Qed.

Notation pn := (pnat p).
Notation RP l := (redp pn (PZ l)).
Notation FP := (FProd p).

(** the remainder test: a monic irreducible g with a non-zero remainder is prime to h modulo p *)
Lemma ded_test_coprime hl g : lmonic g -> reduced p g -> (2 <= length g)%coq_nat -> lirred p g ->
  ded_test p hl g = true -> coprimep (RP g) (redp pn (PZ hl)).
Proof.
move=> Mg Rg Lg Ig; rewrite /ded_test.
case Em: (poly_mod hl p) => [hm| |] //=.
case Ed: (poly_divrem hm g p) => [[q r]| |] //= rn.
have Rm : reduced p hm := poly_mod_is_reduced Hpp Em.
have -> : redp pn (PZ hl) = RP hm by apply/esym/(eqpm_RP Hp); apply: PZ_poly_mod Em.
have p1 : (1 < p)%ZZ by lia.
have [D1 [C1 [_ [_ [D2 D3]]]]] := poly_divrem_spec_monic p1 Mg Ed.
have Sh := divrem_post_short (poly_divrem_spec_monic p1 Mg Ed).
have Rr : reduced p r.
  case: (Nat.lt_ge_cases (length hm) (length g)) => hh.
    by have [_ ->] := D3 hh.
  by have [_ [Cr Ir]] := D2 (or_introl hh).
apply: irred_coprime => //; apply/negP => dv.
have : RP g %| RP r.
  move/(eqpm_RP Hp): D1; rewrite redpD redpM => E.
  have -> : RP r = RP hm - RP q * RP g by rewrite E; ring.
  by apply: dvdp_sub => //; apply: dvdp_mull.
have [r0|rN0] := eqVneq (RP r) 0.
  move=> _; have := reduced_size Hp Rr; rewrite r0 size_poly0.
  by case: (r) rn.
move=> /(dvdp_leq rN0); rewrite (reduced_size Hp Rg) (reduced_size Hp Rr).
by move: Sh; clear; lia.
Qed.

(** conversely: when a monic g does not divide h modulo p the test answers true (no panic in [poly_mod], [poly_divrem]) *)
Lemma ded_test_of_ndvd hl g : lmonic g -> ~~ (RP g %| redp pn (PZ hl)) -> ded_test p hl g = true.
Proof.
move=> Mg nd; rewrite /ded_test.
have [hm Em] := poly_mod_total hl p Hp0; rewrite Em /=.
have lg : List.last g 0%Z <> 0%Z by rewrite Mg.
have [q [r Ed]] := poly_divrem_total_gen hm Hp0 lg; rewrite Ed.
case: r Ed => [|r0 r] // Ed; exfalso; move/negP: nd; apply.
have p1 : (1 < p)%ZZ by lia.
have [D1 _] := poly_divrem_spec_monic p1 Mg Ed.
have -> : redp pn (PZ hl) = RP hm by apply/esym/(eqpm_RP Hp); apply: PZ_poly_mod Em.
move/(eqpm_RP Hp): D1; rewrite redpD redpM PZ_nil redp0 addr0 => ->.
exact: dvdp_mull.
Qed.

(** ** the context of a returned run *)
Variables (f : list Z) (n : nat) (b : list (list Qc)) (t : table) (Sl : list (list Z)).
Hypothesis Hf : lmonic f.
Hypothesis Hl : (Z.of_nat (length f) <= two64)%ZZ.
Hypothesis Lf : length f = n.+1.
Hypothesis n0 : (1 <= n)%coq_nat.
Hypothesis Sb : OrderCanon.qshape n n b.
Hypothesis B0 : List.nth 0 b [::] = Q2Qc 1 :: List.repeat (Q2Qc 0) (n - 1).
Hypothesis gt : get_mult_table b f = Done t.
Hypothesis SS : shape n n Sl.
Hypothesis ES : OrderCanon.qmmul n Sl b = identity fopsQc n.

Let cf : canonZ f.
Proof.
rewrite /canonZ /canon; move: Hf; rewrite /lmonic Llast_eq.
by case: (f) Lf => [|c f'] //= _ ->.
Qed.
Let szf : size f = n.+1 := Lf.
Let monf : seq.nth 0%Z f n = 1%Z.
Proof.
by have := lmonic_nth Hf; rewrite Lf Lnth_eq subn1.
Qed.
Let sb : size b = n := proj1 Sb.
Let rb : forall i, (i < n)%nat -> size (seq.nth [::] b i) = n.
Proof.
move=> i hi; have [lb wb] := Sb.
move/List.Forall_forall: wb; apply; rewrite -Lnth_eq; apply: List.nth_In.
by rewrite lb; apply/ltP.
Qed.
Let w0 : first_is_one b.
Proof. by apply: (@first_row_one b (n - 1)); rewrite -Lnth_eq. Qed.
Let n0' : (0 < n)%nat. Proof. exact/ltP. Qed.
Let sS : forall k, (k < n)%nat -> size (seq.nth [::] Sl k) = n.
Proof.
move=> k hk; have [lS wS] := SS.
move/List.Forall_forall: wS; apply; rewrite -Lnth_eq; apply: List.nth_In.
by rewrite lS; apply/ltP.
Qed.
Let HS : forall k, (k < n)%nat ->
  OrderCanon.qlincomb n (seq.nth [::] Sl k) b = seq.nth [::] (identity fopsQc n) k.
Proof.
move=> k hk; rewrite -ES /OrderCanon.qmmul (nth_map [::]) //.
by have [lS _] := SS; rewrite -[size Sl]/(length Sl) lS.
Qed.

Notation pe0 := (p :: List.repeat 0%Z (n - 1)).

Lemma run_product md r gs r' :
  decompose_full md f b t p r = Done (gs, r') -> FP (List.map factor_of gs) = RP f.
Proof.
move=> /factors_of_full Ef.
by have [E _ _ _ _] := factor_facts Hp Hf Hl Ef.
Qed.

(** f = prod g^e + p h in Z[x], h the polynomial of [ded_h] *)
Lemma run_h gs : FP (List.map factor_of gs) = RP f ->
  PZ f = PhiZ gs + p%:P * PZ (ded_h p f (List.map factor_of gs)).
Proof.
move=> EF.
have [k ek] : eqpm p (PZ f) (PhiZ gs).
  apply/(eqpm_RP Hp); rewrite -EF; elim: (gs) => [|[[g P] e] l IH] /=.
    by rewrite /PhiZ big_nil redp1.
  by rewrite /PhiZ big_cons redpM redpX -/(PhiZ l) IH.
suff -> : PZ (ded_h p f (List.map factor_of gs)) = k by [].
apply/polyP => i; rewrite coefPZ /ded_h lnth_map0 //.
have : (PZ (psub opsZ f (phi_list (List.map factor_of gs))))`_i = (p%:P * k)`_i.
  rewrite PZ_psub PZ_phi ek.
  by have -> : PhiZ gs + p%:P * k - PhiZ gs = p%:P * k by ring.
rewrite coefPZ coefCM => ->.
by rewrite mulrC; apply: Z.div_mul.
Qed.

(** [P] the product is inside p O *)
Theorem product_sub_full md r gs r' md' :
  decompose_full md f b t p r = Done (gs, r') ->
  exists I, [/\ ideal_product md' t (List.map proj_full gs) = Done I, i_table I = t, is_hnf (i_hnf I) = true,
                wf n (i_hnf I)
              & forall v, In_rowspanZ n v (i_hnf I) -> exists2 w, length w = n & v = vscale p w].
Proof.
move=> E; have EF := run_product E.
have [d [A [Hscale nd _ Fa]]] := run_specs Hp Hf Hl Lf n0 Sb B0 gt SS ES E.
have Fa' := (List.Forall_forall _ _).1 Fa.
have HF : forall x, List.In x gs ->
    RP x.1.1 %| RP f /\ exists elem Ez, factor_spec p f n b t x.1.1 x.1.2 elem Ez.
  by move=> x /Fa' [_ _ _ Dx Sx].
have [I EI [TI HI WI SI]] := product_sub Hp cf szf monf sb rb w0 gt Hscale n0' nd sS HS md' HF EF.
by exists I; split.
Qed.

(** [P] the product is p O -- the ideal [principal] returns on p, of norm p^n -- when every repeated factor is
    prime to h modulo p (Dedekind's criterion) *)
Theorem product_ded_full md r gs r' md' :
  decompose_full md f b t p r = Done (gs, r') ->
  (forall x, List.In x gs -> (2 <= x.2)%ZZ -> ded p (PZ (ded_h p f (List.map factor_of gs))) x.1.1) ->
  exists I, [/\ ideal_product md' t (List.map proj_full gs) = Done I, principal md' t pe0 = Done I,
                norm I = Done (p ^ Z.of_nat n)%ZZ
              & forall v, In_rowspanZ n v (i_hnf I) <-> exists2 w, length w = n & v = vscale p w].
Proof.
move=> E HD; have EF := run_product E.
have [d [A [Hscale nd ND Fa]]] := run_specs Hp Hf Hl Lf n0 Sb B0 gt SS ES E.
have Fa' := (List.Forall_forall _ _).1 Fa.
have HF : forall x, List.In x gs ->
    RP x.1.1 %| RP f /\ exists elem Ez, factor_spec p f n b t x.1.1 x.1.2 elem Ez.
  by move=> x /Fa' [_ _ _ Dx Sx].
have HP : List.ForallOrdPairs (fun x y : list Z * ideal * Z => coprimep (RP x.1.1) (RP y.1.1)) gs.
  apply: ForallOrdPairs_of ND => x y /Fa' [Lx [Mx Rx] Ix _ _] /Fa' [Ly [My Ry] Iy _ _] ne.
  apply: irred_coprime; first exact: Ix.
  apply/negP => dv; apply: ne.
  exact: (dvd_same Hp Lf n0 Sb SS ES Mx Rx Lx My Ry Iy dv).
have eF := run_h EF.
have [I EI [TI HI WI pI]] := product_eq Hp cf szf monf sb rb w0 gt Hscale n0' nd sS HS md' HF HP eF HD.
have [PI NI] := pO_facts Hp cf szf sb rb w0 gt n0' md' TI HI WI pI.
by exists I; split.
Qed.

(** [C] under the Dedekind flag *)
Theorem product_flag_full md r gs r' md' :
  decompose_full md f b t p r = Done (gs, r') ->
  dedekind_flag p f (List.map factor_of gs) = true ->
  exists I, [/\ ideal_product md' t (List.map proj_full gs) = Done I, principal md' t pe0 = Done I,
                norm I = Done (p ^ Z.of_nat n)%ZZ
              & forall v, In_rowspanZ n v (i_hnf I) <-> exists2 w, length w = n & v = vscale p w].
Proof.
move=> Ed Fl; apply: (@product_ded_full _ _ _ _ md' Ed) => x ix ex.
have [d [A [Hscale nd ND Fa]]] := run_specs Hp Hf Hl Lf n0 Sb B0 gt SS ES Ed.
have [Lx [Mx Rx] Ix _ _] := (List.Forall_forall _ _).1 Fa _ ix.
apply: ded_test_coprime => //.
move/forallb_forall: Fl => /(_ (factor_of x) (List.in_map _ _ _ ix)) /=.
by case: Z.ltb_spec => //; lia.
Qed.

End Prime.

(** ** the statements about [decompose] (list vocabulary, for Props/C17.v) *)

(** [P] product_below_p *)
Theorem product_below_p_std md f b t Sl p r res r' md' :
  Znumtheory.prime p -> lmonic f -> (Z.of_nat (length f) <= two64)%ZZ ->
  let n := length b in
  length f = S n -> (1 <= n)%coq_nat -> OrderCanon.qshape n n b ->
  List.nth 0 b [::] = Q2Qc 1 :: List.repeat (Q2Qc 0) (n - 1) ->
  get_mult_table b f = Done t -> shape n n Sl -> OrderCanon.qmmul n Sl b = identity fopsQc n ->
  decompose md f b t p r = Done (res, r') ->
  exists I, ideal_product md' t res = Done I /\ i_table I = t /\ is_hnf (i_hnf I) = true /\ wf n (i_hnf I) /\
            forall v, In_rowspanZ n v (i_hnf I) -> exists w, length w = n /\ v = vscale p w.
Proof.
move=> Hp Hf Hl n Lf n0 Sb B0 gt SS ES /decompose_of_full [gs E ->].
have [I [EI TI HI WI SI]] := product_sub_full Hp Hf Hl Lf n0 Sb B0 gt SS ES md' E.
exists I; split=> //; split=> //; split=> //; split=> // v /SI [w lw ->].
by exists w.
Qed.

(** [P] product_equals_p under the Dedekind flag *)
Theorem product_dedekind_std md f b t Sl p r res r' :
  Znumtheory.prime p -> lmonic f -> (Z.of_nat (length f) <= two64)%ZZ ->
  let n := length b in
  length f = S n -> (1 <= n)%coq_nat -> OrderCanon.qshape n n b ->
  List.nth 0 b [::] = Q2Qc 1 :: List.repeat (Q2Qc 0) (n - 1) ->
  get_mult_table b f = Done t -> shape n n Sl -> OrderCanon.qmmul n Sl b = identity fopsQc n ->
  decompose md f b t p r = Done (res, r') ->
  exists gs, decompose_full md f b t p r = Done (gs, r') /\ res = List.map proj_full gs /\
    (dedekind_flag p f (List.map factor_of gs) = true ->
     forall md', exists I,
       ideal_product md' t res = Done I /\ principal md' t (p :: List.repeat 0%Z (n - 1)) = Done I /\
       norm I = Done (p ^ Z.of_nat n)%ZZ /\
       forall v, In_rowspanZ n v (i_hnf I) <-> exists w, length w = n /\ v = vscale p w).
Proof.
move=> Hp Hf Hl n Lf n0 Sb B0 gt SS ES /decompose_of_full [gs E ->].
exists gs; split=> //; split=> // Fl md'.
have [I [EI PI NI SI]] := product_flag_full Hp Hf Hl Lf n0 Sb B0 gt SS ES md' E Fl.
exists I; split=> //; split=> //; split=> // v; split.
  by move=> /SI [w lw ->]; exists w.
by move=> [w [lw ->]]; apply/SI; exists w.
Qed.

(** [P] product_equals_p for an unramified prime (every e_i = 1): no further hypothesis *)
Theorem product_unramified_std md f b t Sl p r res r' md' :
  Znumtheory.prime p -> lmonic f -> (Z.of_nat (length f) <= two64)%ZZ ->
  let n := length b in
  length f = S n -> (1 <= n)%coq_nat -> OrderCanon.qshape n n b ->
  List.nth 0 b [::] = Q2Qc 1 :: List.repeat (Q2Qc 0) (n - 1) ->
  get_mult_table b f = Done t -> shape n n Sl -> OrderCanon.qmmul n Sl b = identity fopsQc n ->
  decompose md f b t p r = Done (res, r') ->
  List.Forall (fun Pe : ideal * Z => snd Pe = 1%Z) res ->
  exists I,
    ideal_product md' t res = Done I /\ principal md' t (p :: List.repeat 0%Z (n - 1)) = Done I /\
    norm I = Done (p ^ Z.of_nat n)%ZZ /\
    forall v, In_rowspanZ n v (i_hnf I) <-> exists w, length w = n /\ v = vscale p w.
Proof.
move=> Hp Hf Hl n Lf n0 Sb B0 gt SS ES D U.
have [gs [E [eres H]]] := product_dedekind_std Hp Hf Hl Lf n0 Sb B0 gt SS ES D.
apply: H; apply: dedekind_flag_unramified.
move: U; rewrite eres; elim: (gs) => [|[[g P] e] l IH] //= /List.Forall_cons_iff [/= e1 /IH U].
by constructor.
Qed.
