(** * PolyZFactorTop: C07, the theorems about the entry point [factorize_full] / [factorize]. *)
From RNT.Model Require Import Base Poly PolyModP FactorModP Hensel PolyZFactor.
From RNT.Model Require Resultant.
From mathcomp Require Import all_ssreflect ssralg poly.
From mathcomp Require Import ssrZ zify.
From RNT.Refine Require Import PolyRefine PolyDiv PolyZ PolyZFactorMult PolyZFactorMain.
Set Implicit Arguments.
Unset Strict Implicit.
Unset Printing Implicit Defensive.
Import GRing.Theory.
Local Open Scope ring_scope.

(** ** the signed content *)
Definition signed_content (a : seq Z) (c : Z) : Prop :=
  [/\ forall x, List.In x a -> (c | x)%Z,
      forall d, (forall x, List.In x a -> (d | x)%Z) -> (d | c)%Z
    & a != [::] -> ((0 < c)%Z <-> (0 < last 0 a)%Z)].

Lemma cont_pp_signed_content (a : seq Z) : canonZ a -> signed_content a (cont_pp a).1.
Proof.
move=> ca; case: a ca => [|x0 a'] ca.
  split=> //= d _; exact: Z.divide_0_r.
set a := x0 :: a'; rewrite /cont_pp -/a /=.
have [_ gdiv ggreat _] := fold_gcd_spec a 0%Z.
set g := fold_left Z.gcd a 0%Z in gdiv ggreat *.
have [_ _ _ _ sgn] := cont_pp_main ca (isT : a != [::]) (surjective_pairing (cont_pp a)).
set c0 := (if (List.last a 0 <? 0)%Z then - g else g)%Z.
have c0g : (c0 | g)%Z /\ (g | c0)%Z.
  rewrite /c0; case: Z.ltb_spec => _; split; try exact: Z.divide_refl.
    by exists (-1)%Z; lia.
  by exists (-1)%Z; lia.
split.
- by move=> x /gdiv; apply: Z.divide_trans; case: c0g.
- move=> d hd; apply: Z.divide_trans (c0g.2).
  by apply: ggreat => //; exact: Z.divide_0_r.
- by move=> _; exact: sgn.
Qed.

(** ** [factorize_full] *)

Lemma sqfree_canon (a1 gcd s : seq Z) : canonZ a1 ->
  (if negb (pdeg gcd =? 0)%Z
   then match div_exact a1 gcd with Some q => Done q | None => Panic PUnwrap end
   else Done a1) = Done s -> canonZ s.
Proof.
move=> ca1; case: ifP => _; last by case=> <-.
by case ed: div_exact => [q|] // [<-]; exact: div_exact_canon ed.
Qed.

(** What holds of every completed run, for every draw stream. [(cont_pp a).2] is the primitive
    part of the input (the constant 1 for the zero polynomial). *)
Theorem factorize_full_spec md (a : seq Z) r c l cof r' : canonZ a ->
  factorize_full md a r = Done (c, l, cof, r') ->
  [/\ c = (cont_pp a).1, canonZ cof,
      Poly (cont_pp a).2 = Poly cof * fprod l,
      (forall fe, fe \in l -> (0 <= fe.2)%Z) /\ maximal (Poly cof) l
    & l = [::] \/
      exists pps lastf,
        [/\ map fst l = pps ++ [:: lastf], canonZ lastf & forall g, g \in pps -> prim_pos g]].
Proof.
move=> ca; rewrite /factorize_full.
case: a ca => [|x0 a'] ca.
  case=> <- <- <- _; split=> //; last by left.
  by rewrite /fprod big_nil mulr1.
set a := x0 :: a'.
have [_ cpp _ _ _] := cont_pp_main ca (isT : a != [::]) (surjective_pairing (cont_pp a)).
case ecp: (cont_pp a) cpp => [conta ppa] /= cpp.
case: ifP => _.
  case=> <- <- <- _; split=> //; last by left.
  by rewrite /fprod big_nil mulr1.
case: (Resultant.resultant_gcd _ _).2 => [gcd|t|] //=.
case esq: (if _ then _ else _) => [sqfree|t|] //=.
have csq := sqfree_canon cpp esq.
case eg: get_factors_of_squarefree => [[factors r1]|t|] //=.
have [pps [lastf [efs cl _ hp]]] := get_factors_spec csq eg.
have cfs g : g \in factors -> canonZ g.
  rewrite efs mem_cat inE => /orP [/hp [] //|/eqP -> //].
case ee: extract_all => [[cof' result]|t|] //= [<- <- <- _].
have [l' [-> emap cc ec hm]] := extract_all_spec cpp cfs ee.
split=> //; right; exists pps, lastf; split=> //.
by rewrite emap.
Qed.

(** The product clause, conditional on the ghost cofactor being 1. *)
Theorem factorize_product (md : mode) (a : seq Z) r c l r' : canonZ a ->
  factorize_full md a r = Done (c, l, [:: 1%Z], r') ->
  Poly a = c *: fprod l /\ a = c *: fprod l :> seq Z.
Proof.
move=> ca /(factorize_full_spec ca) [ec _ ep _ _].
have e : Poly a = c *: fprod l.
  move: ep; rewrite Poly1 mul1r => <-; rewrite {}ec.
  case: a ca => [|x0 a'] ca; first by rewrite /= scale0r.
  set a := x0 :: a'.
  by have [-> _ _ _ _] := cont_pp_main ca (isT : a != [::]) (surjective_pairing (cont_pp a)).
by split=> //; rewrite -e canon_PolyK.
Qed.

(** [factorize] is [factorize_full] without the ghost *)
Lemma factorize_of_full md a r c l r' :
  factorize md a r = Done (c, l, r') -> exists cof, factorize_full md a r = Done (c, l, cof, r').
Proof.
rewrite /factorize; case: factorize_full => [[[[c0 l0] cof] r0]|t|] //= [<- <- <-].
by exists cof.
Qed.

(** [f^e] divides the primitive part, for every returned entry *)
Lemma fprod_split (l1 l2 : seq (seq Z * Z)) fe :
  fprod (l1 ++ fe :: l2) = (fprod l1 * fprod l2) * fpow fe.
Proof. by rewrite /fprod big_cat big_cons /= mulrCA mulrC. Qed.

Lemma in_split (T : eqType) (x : T) (s : seq T) : x \in s -> exists s1 s2, s = s1 ++ x :: s2.
Proof.
elim: s => [|y s IH] //; rewrite inE => /orP [/eqP ->|/IH [s1 [s2 ->]]].
  by exists [::], s.
by exists (y :: s1), s2.
Qed.

Theorem factor_power_divides md (a : seq Z) r c l cof r' f e : canonZ a ->
  factorize_full md a r = Done (c, l, cof, r') -> (f, e) \in l ->
  (0 <= e)%Z /\ exists Q : {poly Z}, Poly (cont_pp a).2 = Q * Poly f ^+ Z.to_nat e.
Proof.
move=> ca /(factorize_full_spec ca) [_ _ ep [hnn _] _] hin.
split; first exact: (hnn _ hin).
have [l1 [l2 el]] := in_split hin.
by exists (Poly cof * (fprod l1 * fprod l2)); rewrite ep el fprod_split mulrA.
Qed.

(** the first component is the signed content of the input *)
Theorem factorize_content md (a : seq Z) r c l cof r' : canonZ a ->
  factorize_full md a r = Done (c, l, cof, r') -> signed_content a c.
Proof.
by move=> ca /(factorize_full_spec ca) [-> _ _ _ _]; exact: cont_pp_signed_content.
Qed.
