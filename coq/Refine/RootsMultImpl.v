(** * C12: [find_linear_factors] returns every root exactly as often as its multiplicity (ssreflect).

    Invariant of the recursion: the values appended by a call on [poly] contain every x of
    [0, p) exactly k times, where k is the multiplicity of x in [poly] modulo p
    ([hmult (PZ poly) new]). Every step of the routine writes poly = h * poly' modulo p
    (h = X - a, h = the gcd handed to the recursive call, or h = 1), multiplicities are
    additive over products, and the "no progress" exit only fires on a polynomial without
    roots (Euler's criterion). *)
From Coq Require Import ZArith List Lia Znumtheory.
From mathcomp Require Import all_ssreflect ssralg poly.
From RNT.Model Require Import Base Poly PolyModP FactorModP LinearRoots.
From RNT.Refine Require Import PolyModPArith PolyModPDivList FermatZ PolyZmod PolyModPDiv MonicZ PolyModPGcd FpPoly DrawBounds FpTotal FactorNorm RootsProofs RootsComplete RootsMult.
From mathcomp Require Import ssrZ zify ring.
Set Implicit Arguments. Unset Strict Implicit. Unset Printing Implicit Defensive.
Import GRing.Theory.
Local Open Scope ring_scope.

Definition cnt (l : list Z) (x : Z) : nat := List.count_occ Z.eq_dec l x.

Lemma cnt_app l l' x : cnt (l ++ l')%list x = (cnt l x + cnt l' x)%nat.
Proof. by rewrite /cnt List.count_occ_app. Qed.

Lemma cnt_nil x : cnt [::] x = 0%nat.
Proof. by []. Qed.

Lemma cnt_1 a x : cnt [:: a] x = if Z.eq_dec a x then 1%nat else 0%nat.
Proof. by rewrite /cnt /=; case: (Z.eq_dec a x). Qed.

(** Every x of [0, p) has multiplicity [cnt new x] in h modulo p. *)
Definition hmult (p : Z) (h : {poly Z}) (new : list Z) : Prop :=
  forall x, (0 <= x < p)%ZZ -> multm p h x (cnt new x).

Section Prime.
Variable p : Z.
Hypothesis Hp : Znumtheory.prime p.
Let Hp2 := prime_ge_2 _ Hp.
Let Hpp : (0 < p)%ZZ. Proof. lia. Qed.
Let Hp0 : p <> Z0. Proof. lia. Qed.

Lemma hmult_mul h h' new new' : hmult p h new -> hmult p h' new' -> hmult p (h * h') (new ++ new')%list.
Proof. move=> H H' x Bx. rewrite cnt_app. exact: multm_mul (H x Bx) (H' x Bx). Qed.

Lemma hmult_eqpm f f' new : eqpm p f f' -> hmult p f' new -> hmult p f new.
Proof. move=> E H x Bx. exact: multm_eqpm E (H x Bx). Qed.

Lemma hmult_1 : hmult p 1 [::].
Proof. move=> x _. exact: multm_1. Qed.

Lemma hmult_noroot f : (forall x, (0 <= x < p)%ZZ -> ~ rootm p f x) -> hmult p f [::].
Proof. move=> H x Bx. apply: multm_0 => //. exact: H. Qed.

Lemma hmult_XsubC a : (0 <= a < p)%ZZ -> hmult p ('X - a%:P) [:: a].
Proof.
  move=> Ba x Bx. rewrite cnt_1. have := multm_XsubC Hp a Bx. by rewrite Z.mod_small.
Qed.

(** ** Euler: a root other than the shift is a root of exactly one of the two gcd arguments *)
Lemma euler_split a poly1 xapow b :
  p <> 2%ZZ -> (0 <= a < p)%ZZ -> reduced p poly1 ->
  poly_modpow (from_raw opsZ [:: Z.modulo (- a) p; 1%ZZ]) (Z.quot (p - 1) 2) poly1 p = Done xapow ->
  (0 <= b < p)%ZZ -> b <> a -> rootm p (PZ poly1) b ->
  rootm p (PZ (add_const_wrap xapow 1 p)) b \/ rootm p (PZ (add_const_wrap xapow (p - 1) p)) b.
Proof.
  move=> H2 Ba R1 Exp Bb Nba Rb.
  have Hodd : (0 < Z.quot (p - 1) 2)%ZZ.
  { have H3 : (3 <= p)%ZZ by lia.
    have := Z.quot_le_mono 2 (p - 1) 2 ltac:(lia) ltac:(lia).
    have -> : Z.quot 2 2 = 1%ZZ by []. lia. }
  have [[k Hk] _] := poly_modpow_spec Hp R1 Hodd Exp.
  have E1 := eqpm_horner b Hk.
  have Xb : Z.modulo (PZ xapow).[b] p = Z.modulo (Z.pow (b - a) (Z.quot (p - 1) 2)) p.
  { rewrite E1 hornerD hornerM horner_exp.
    have -> : (PZ (from_raw opsZ [:: Z.modulo (- a) p; 1%ZZ])).[b] = (Z.modulo (- a) p + b)%ZZ.
    { rewrite PZ_from_raw /PZ /= !horner_cons horner0. lia. }
    have Rb' : Z.modulo (PZ poly1).[b] p = Z0 by exact: Rb.
    have -> : (((Z.modulo (- a) p + b)%ZZ ^+ Z.to_nat (Z.quot (p - 1) 2)) + (PZ poly1).[b] * k.[b])%R
              = (Z.pow (Z.modulo (- a) p + b) (Z.quot (p - 1) 2) + (PZ poly1).[b] * k.[b])%ZZ.
    { congr Z.add. rewrite -{2}(Z2Nat.id (Z.quot (p - 1) 2)); last lia.
      elim: (Z.to_nat _) => [|n IHn] //. rewrite exprS IHn Nat2Z.inj_succ Z.pow_succ_r; lia. }
    rewrite Z.add_mod // (Z.mul_mod (PZ poly1).[b]) // Rb' Z.mul_0_l Z.mod_0_l // Z.add_0_r Z.mod_mod //.
    apply: pow_cong => //; first lia.
    rewrite Z.add_mod // Z.mod_mod // -Z.add_mod //. congr Z.modulo. lia. }
  have Nd : ~ (p | b - a)%ZZ.
  { move=> [k' Hk'].
    have K1 : (k' < 1)%ZZ by nia. have K2 : (-1 < k')%ZZ by nia. have K0 : k' = Z0 by lia.
    rewrite K0 in Hk'. lia. }
  case: (euler_pm1 Hp H2 Nd) => E.
  - right. apply: (rootm_eqpm (add_const_wrap_eqpm p xapow (p - 1))).
    rewrite /rootm hornerD hornerC.
    have -> : ((PZ xapow).[b] + (p - 1)%ZZ)%R = ((PZ xapow).[b] + (p - 1))%ZZ by [].
    rewrite Z.add_mod // Xb E (Z.mod_small (p - 1) p); last lia.
    have -> : (1 + (p - 1) = p)%ZZ by lia. exact: Z_mod_same_full.
  - left. apply: (rootm_eqpm (add_const_wrap_eqpm p xapow 1)).
    rewrite /rootm hornerD hornerC.
    have -> : ((PZ xapow).[b] + 1)%R = ((PZ xapow).[b] + 1)%ZZ by [].
    rewrite Z.add_mod // Xb -Z.add_mod //.
Qed.

(** ** The first stage: the shift itself *)
Lemma stage1_mult md poly a v result (K : list Z -> list Z -> outcome (list Z * rng)) res :
  rnz p poly -> (0 <= a < p)%ZZ -> poly_of_mod md poly a p = Done v ->
  bind (if (v =? 0)%ZZ then bind (divide_by_x_a md poly a p) (fun q => Done (q, (result ++ [:: a])%list))
        else Done (poly, result)) (fun t => let '(poly1, result1) := t in K poly1 result1) = Done res ->
  exists poly1 new1 h, K poly1 (result ++ new1)%list = Done res /\ rnz p poly1 /\
    ((poly1 = poly /\ new1 = [::] /\ ~ rootm p (PZ poly) a) \/ (length poly1 < length poly)%coq_nat) /\
    eqpm p (PZ poly) (h * PZ poly1) /\ hmult p h new1.
Proof.
  move=> [Rpoly Npoly] Ba Ev. have Hiff := poly_of_mod_zero_iff Hp Ev.
  case: (Z.eqb_spec v Z0) => [Ev0|Nv] /=.
  - case Eq: (divide_by_x_a md poly a p) => [q| |] //= HK.
    have Ra : rootm p (PZ poly) a by apply/Hiff.
    have [Rq Eqq] := divide_by_x_a_root Hpp Ra Eq.
    have Nq : q <> [::].
    { move=> E0. apply: Npoly. apply: (reduced_eq0 Hpp Rpoly).
      apply: eqpm_trans Eqq _. rewrite E0 /PZ /= mulr0. exact: eqpm_refl. }
    exists q, [:: a], ('X - a%:P). split=> //. split=> //.
    split; first by right; exact: (divide_by_x_a_length Hp Eq).
    split=> //. exact: hmult_XsubC.
  - move=> HK. exists poly, [::], 1. rewrite List.app_nil_r. split=> //. split=> //.
    have Na : ~ rootm p (PZ poly) a by move/Hiff.
    split; first by left.
    split; last exact: hmult_1. rewrite mul1r. exact: eqpm_refl.
Qed.

(** ** One gcd stage *)
Lemma stage_mult f md x polyA resA rA (K : list Z -> list Z -> rng -> outcome (list Z * rng)) out :
  (forall g resB rB res r'', reduced p g -> find_linear_factors_impl f md g p resB rB = Done (res, r'') ->
     exists new, res = (resB ++ new)%list /\ hmult p (PZ g) new) ->
  reduced p x -> rnz p polyA ->
  bind (poly_gcd x polyA p) (fun g =>
    bind (if (0 <? pdeg g)%ZZ
          then bind (poly_divrem polyA g p) (fun t => let '(quo, _) := t in
               bind (find_linear_factors_impl f md g p resA rA) (fun t2 => let '(res, r'') := t2 in
               Done (quo, res, r'')))
          else Done (polyA, resA, rA))
         (fun t => let '(polyB, resB, rB) := t in K polyB resB rB)) = Done out ->
  exists polyB newB rB h, K polyB (resA ++ newB)%list rB = Done out /\ rnz p polyB /\
    ((polyB = polyA /\ newB = [::] /\ forall b, rootm p (PZ polyA) b -> rootm p (PZ x) b -> False)
     \/ (length polyB < length polyA)%coq_nat) /\
    eqpm p (PZ polyA) (h * PZ polyB) /\ hmult p h newB.
Proof.
  move=> IHc Rx RA. have [RAr NA] := RA.
  case Eg: (poly_gcd x polyA p) => [g| |] //=.
  have [u [w Hc]] := poly_gcd_rec_comb Hp Rx RAr Eg.
  have [Rg [[s Hs] [t Ht]]] := gcd_rnz Hp Rx RA Eg.
  case: (Z.ltb_spec 0 (pdeg g)) => Hdeg /=; last first.
  - move=> HK. exists polyA, [::], rA, 1. rewrite List.app_nil_r. split=> //. split=> //.
    split; last by split; [rewrite mul1r; exact: eqpm_refl|exact: hmult_1].
    left. split=> //. split=> // b Rb Rxb.
    have Rgb : rootm p (PZ g) b by apply: (rootm_eqpm Hc); apply: rootm_comb.
    case: (g) Hdeg Rgb Rg => [|c [|c1 l]] Hd Rgb [Rgr Ng] //.
    + exact: (const_no_root Hp (reduced_const_range Hp Rgr) Rgb).
    + move: Hd. rewrite /pdeg [length _]/=. lia.
  - case Ed: (poly_divrem polyA g p) => [[quo rem]| |] //=.
    case Er: (find_linear_factors_impl f md g p resA rA) => [[res r'']| |] //= HK.
    have [Rq Eq] := quot_rnz Hp RA Rg Ht Ed.
    have [newg [Eres Hg]] := IHc _ _ _ _ _ (proj1 Rg) Er.
    have [[Rqr Nq] [[Rgr Ng] _]] := (Rq, (Rg, tt)).
    have Lq : (length quo < length polyA)%coq_nat.
    { have S1 : size (PZ quo * PZ g) = (length quo + length g).-1.
      { rewrite size_mul.
        + by rewrite (canonical_size (proj1 Rqr)) (canonical_size (proj1 Rgr)).
        + apply/eqP => E0. apply: Nq. by rewrite -(canonical_polyseq (proj1 Rqr)) E0 polyseq0.
        + apply/eqP => E0. apply: Ng. by rewrite -(canonical_polyseq (proj1 Rgr)) E0 polyseq0. }
      have Lg2 : (2 <= length g)%coq_nat.
      { case: (g) Ng Hdeg => [|c [|c1 l]] // _. rewrite /pdeg /=. lia. }
      have Lc : lead_coef (PZ quo * PZ g) = Z.mul (List.last quo Z0) (List.last g Z0).
      { by rewrite lead_coefM (canonical_lead (proj1 Rqr)) (canonical_lead (proj1 Rgr)). }
      have Gq := reduced_good Hpp Rqr Nq. have Gg := reduced_good Hpp Rgr Ng.
      case: (Nat.lt_ge_cases (length quo) (length polyA)) => // Hge. exfalso.
      have := eqpm_coef Eq (size (PZ quo * PZ g)).-1.
      rewrite -/(lead_coef (PZ quo * PZ g)) Lc coefPZ List.nth_overflow; last by rewrite S1; lia.
      rewrite Z.mod_0_l // => D0. have D : (p | List.last quo Z0 * List.last g Z0)%ZZ by apply: Zmod_divide.
      by case: (prime_mult _ Hp _ _ D). }
    exists quo, newg, r'', (PZ g). rewrite -Eres. split=> //. split=> //. split; first by right.
    split=> //. by rewrite mulrC.
Qed.

(** ** The recursion *)
Lemma impl_mult (H2 : p <> 2%ZZ) : forall fuel md poly result r out r',
  reduced p poly ->
  find_linear_factors_impl fuel md poly p result r = Done (out, r') ->
  exists new, out = (result ++ new)%list /\ hmult p (PZ poly) new.
Proof.
  elim=> [|f IH] md poly result r out r' Rpoly // Himpl.
  have [new0 [Eo0 Fo0]] := impl_sound Hp Rpoly Himpl.
  move: Himpl.
  case: (poly =P [::]) => [->|Npoly]; first by move/impl_nil_not_done.
  rewrite [find_linear_factors_impl _ _ _ _ _ _]/=.
  case: (pdeg_reduced_cases poly) => [[-> [c0 El]]|[[-> [-> [c0 [c1 El]]]]|[D0 D1]]].
  - (* constant *)
    case=> <- _. exists [::]. rewrite List.app_nil_r. split=> //.
    apply: hmult_noroot => x _ Rx. rewrite El in Rpoly Rx.
    exact: (const_no_root Hp (reduced_const_range Hp Rpoly) Rx).
  - (* degree 1 *)
    case Ei: (modinv _ p) => [inv| |] //=.
    have -> : (p =? 0)%ZZ = false by apply/Z.eqb_neq.
    case=> Eout _. set rt := Z.modulo _ p in Eout.
    have En : new0 = [:: rt].
    { apply: (List.app_inv_head result). by rewrite -Eo0 -Eout. }
    exists [:: rt]. split=> //.
    have [Brt Rrt] : okroot p poly rt.
    { move: Fo0. rewrite En => F. by inversion F. }
    have Glc : ~ (p | c1)%ZZ.
    { have := reduced_good Hpp Rpoly. rewrite El /goodlc /=. by apply. }
    have Nc1 : Z.modulo c1 p <> Z0.
    { move=> E0. apply: Glc. exact: Zmod_divide. }
    have E : eqpm p (PZ poly) (('X - rt%:P) * c1%:P).
    { move: Rrt. rewrite El /rootm /PZ /= !horner_cons horner0.
      have -> : ((0 * rt + c1) * rt + c0)%R = (c1 * rt + c0)%ZZ by lia.
      move=> Rr. have [z Hz] := Zmod_divide _ _ Hp0 Rr.
      exists z%:P. rewrite !cons_poly_def.
      have -> : c0%:P = (z * p)%ZZ%:P - (c1 * rt)%ZZ%:P :> {poly Z}.
      { rewrite -polyCB. congr (_%:P). lia. }
      have -> : (z * p)%ZZ%:P = z%:P * p%:P :> {poly Z} by rewrite -polyCM.
      have -> : (c1 * rt)%ZZ%:P = c1%:P * rt%:P :> {poly Z} by rewrite -polyCM.
      rewrite polyC0. ring. }
    apply: (hmult_eqpm E).
    have -> : [:: rt] = ([:: rt] ++ [::])%list by [].
    apply: hmult_mul; first exact: hmult_XsubC.
    move=> x _. exact: multm_const.
  - (* degree >= 2 *)
    rewrite D0 D1.
    case Ea: (draw_below p r) => [[a r1]| |] //=.
    have Ba := draw_below_bound Ea.
    case: (modpow a p p) => [ap| |] //=.
    case: (debug_assert md _) => [_| |] //=.
    case Ev: (poly_of_mod md poly a p) => [v| |] //=.
    move/(stage1_mult (conj Rpoly Npoly) Ba Ev) => [poly1 [new1 [h1 [HK [R1 [P1 [E1 M1]]]]]]].
    move: HK. have -> : (p =? 0)%ZZ = false by apply/Z.eqb_neq.
    case Exp: (poly_modpow _ _ poly1 p) => [xapow| |] //=.
    have Rxp := poly_modpow_reduced Hp (proj1 R1) Exp.
    have Hx := fun b => @euler_split a poly1 xapow b H2 Ba (proj1 R1) Exp.
    have Rp1 : reduced p (add_const_wrap xapow 1 p) by apply: add_const_wrap_reduced => //; lia.
    move/(stage_mult (IH md) Rp1 R1) => [poly2 [new2 [r2 [h2 [HK [R2 [P2 [E2 M2]]]]]]]].
    have Rm1 : reduced p (add_const_wrap xapow (p - 1) p) by apply: add_const_wrap_reduced => //; lia.
    move: HK. move/(stage_mult (IH md) Rm1 R2) => [poly3 [new3 [r3 [h3 [HK [R3 [P3 [E3 M3]]]]]]]].
    have E123 : eqpm p (PZ poly) (h1 * (h2 * (h3 * PZ poly3))).
    { apply: eqpm_trans E1 _. apply: eqpm_mull. apply: eqpm_trans E2 _. exact: eqpm_mull. }
    move: HK. case Eeq: (zlist_eqb poly poly3) => /=.
    + case=> <- _. move/zlist_eqbP: Eeq => E3'.
      have L1 : (length poly1 <= length poly)%coq_nat by case: P1 => [[-> _]|]; lia.
      have L2 : (length poly2 <= length poly1)%coq_nat by case: P2 => [[-> _]|]; lia.
      have L3 : (length poly3 <= length poly2)%coq_nat by case: P3 => [[-> _]|]; lia.
      have LE : length poly3 = length poly by rewrite -E3'.
      case: P1 => [[Ep1 [-> Na]]|]; last lia.
      case: P2 => [[Ep2 [-> N2]]|]; last lia.
      case: P3 => [[Ep3 [-> N3]]|]; last lia.
      exists [::]. split; first by rewrite !List.app_nil_r.
      apply: hmult_noroot => x Bx Rx.
      case: (Z.eq_dec x a) => [Exa|Nxa]; first by apply: Na; rewrite -Exa.
      have Rx1 : rootm p (PZ poly1) x by rewrite Ep1.
      have Rx2 : rootm p (PZ poly2) x by rewrite Ep2.
      case: (Hx x Bx Nxa Rx1) => Rw.
      * exact: (N2 x Rx1 Rw).
      * exact: (N3 x Rx2 Rw).
    + move=> Er. have [new4 [E4 M4]] := IH _ _ _ _ _ _ (proj1 R3) Er.
      exists (new1 ++ (new2 ++ (new3 ++ new4)))%list. split; first by rewrite E4 -!List.app_assoc.
      apply: (hmult_eqpm E123).
      apply: hmult_mul => //. apply: hmult_mul => //. exact: hmult_mul.
Qed.

End Prime.
