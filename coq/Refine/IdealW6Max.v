(** * IdealW6Max (C16, sixth wave): in an order with [mult_ring_trivial] (a maximal order) every full-rank
      lattice I in normal form is invertible: [Ideal::inv] returns (a, N) with I * N = (a).
      Assembly of IdealW6Dual (N = a (O : I)), IdealW6Colon ((O : I N / a) = O), IdealW6Full ((I N / a) Nd = Nd for
      the inverse different Nd) and IdealW6Nak (Nakayama: hence I N / a = O).
      Style: ssreflect/MathComp. *)
From Coq Require Import ZArith List.
From mathcomp Require Import all_ssreflect ssralg.
From mathcomp Require Import ssrZ zify.
From RNT.Model Require Import Base LinAlg MultTable Ideal.
From RNT.Model Require Hnf.
From RNT.Refine Require Import MatZ HnfSpec IdealMul IdealSpec IdealLaws IdealInv IdealCapZ MultTableOps AlgNormMx AlgNormFlags DetIdeal.
From RNT.Refine Require Import IdealW6Dual IdealW6Prod IdealW6Colon IdealW6Full IdealW6Nak.
Set Implicit Arguments.
Unset Strict Implicit.
Unset Printing Implicit Defensive.

Lemma vscale_vscale q p (u : list Z) : MatZ.vscale q (MatZ.vscale p u) = MatZ.vscale (q * p) u.
Proof.
rewrite /MatZ.vscale List.map_map; apply: List.map_ext => x; lia.
Qed.

Lemma scalar_vec_cons d a : scalar_vec d.+1 a = a :: List.repeat 0%Z d.
Proof. by rewrite scalar_vec_scale IdealInv.p_e0. Qed.

Section Max.
Variables (d : nat) (t : table).
Local Notation n := d.+1.
Hypothesis lt : length t = n.
Hypothesis Ht : tshape t.
Hypothesis Hc : table_comm t = true.
Hypothesis Has : table_assoc t = true.
Hypothesis Hu : forall y, length y = n -> bil t y (unit_vec n 0) = y.
Variables (HI HN : list (list Z)) (a : Z).
Hypothesis Hmax : mult_ring_trivial_at t HN.
Hypothesis WI : wf n HI.
Hypothesis WN : wf n HN.
Hypothesis Ha : a <> 0%Z.
Hypothesis HNspec : forall v, In_rowspanZ n v HN <-> in_colon t a HI v.
Hypothesis HaI : In_rowspanZ n (scalar_vec n a) HI.
Variables (l : Z) (hd : list (list Z)).
Hypothesis Ed : mt_inv_diff t = Done (l, hd).

Theorem maximal_invertible : In_rowspanZ n (scalar_vec n a) (prod_rows t HI HN).
Proof.
have ct : cube n t by rewrite -lt; apply: tshape_cube.
have n0 : (0 < n)%nat by [].
have hc := flag_tcomm ct Hc.
have ha := flag_tassoc ct Has.
have hn : (1 <= n)%coq_nat by lia.
have Hu' : forall y, length y = length t -> bil t y (unit_vec (length t) 0) = y by rewrite lt.
have WI' : wf (length t) HI by rewrite lt.
have WN' : wf (length t) HN by rewrite lt.
have Sp' : forall v, In_rowspanZ (length t) v HN <-> in_colon t a HI v by rewrite lt.
have one_l y : length y = n -> bil t (unit_vec n 0) y = y.
  by move=> ly; have := @unit_l t Ht Hc Hu' y; rewrite lt; apply.
have hone x : size x = n -> tmul t n (unit_vec n 0) x = x.
  by move=> sx; rewrite -(bil_tmul ct (size_unit_vec n 0) sx); apply: one_l.
set PR := prod_rows t HI HN.
have wPR : wf n PR by have := prod_rows_wf t HI HN Ht; rewrite lt.
have [whd _] := nd_wf ct n0 Ed.
have lpos := nd_lpos ct n0 Ed.
have l0 : l <> 0%Z by lia.
have cPR : closed_mult t PR := product_closed t Ht Hc Has HI HN a WI' WN' Ha Sp'.
have dPR g : In_rowspanZ n g PR -> dvd_vec a g.
  by have := @prod_rows_dvd t Ht Hc HI HN a WI' WN' Sp' g; rewrite lt.
have aN : In_rowspanZ n (scalar_vec n a) HN.
  rewrite scalar_vec_scale.
  have := @colon_contains_scalars t Ht HI HN a Sp' (unit_vec n 0); rewrite lt; apply.
  exact: unit_vec_length.
have aaPR : In_rowspanZ n (MatZ.vscale (a * a) (unit_vec n 0)) PR.
  have := @prod_rows_member t HI HN _ _ Ht WI' WN'; rewrite lt => /(_ _ _ HaI aN).
  rewrite !scalar_vec_scale bil_scale_l // bil_scale_r // one_l ?unit_vec_length //.
  by rewrite vscale_vscale.
have full : exists s, s <> 0%Z /\ forall u, length u = n -> In_rowspanZ n (MatZ.vscale s u) (prod_rows t PR hd).
  exists (a * a * l)%Z; split; first by lia.
  move=> u lu.
  have := @prod_rows_member t PR hd _ _ Ht; rewrite lt => /(_ _ _ wPR whd aaPR (nd_contains_l ct n0 Ed lu)).
  by rewrite bil_scale_l // bil_scale_r // one_l ?MatZ.vscale_length // !vscale_vscale.
have hcolon : forall (v : list Z) (dd : Z), (0 < dd)%Z -> length v = n ->
    (forall g, In_rowspanZ n g PR -> dvd_vec (a * dd) (bil t v g)) -> dvd_vec dd v.
  have := @colon_of_product_trivial t Ht Hc Has _ Hu' HI HN a WI' WN' Ha Sp'.
  by rewrite lt; apply.
have aB := product_with_dual_contains ct n0 hc ha Ed wPR Ha full hcolon.
have lB : In_rowspanZ n (MatZ.vscale l (unit_vec n 0)) hd.
  by apply: (nd_contains_l ct n0 Ed); exact: unit_vec_length.
rewrite scalar_vec_scale.
exact: (nakayama_table ct hc ha hone wPR whd Ha l0 cPR dPR aB lB).
Qed.
End Max.

(** ** [P] inv_spec_maximal: the entry points *)
Theorem inv_spec_maximal_at m I D a N :
  let t := i_table I in let n := length t in
  tshape t -> table_comm t = true -> table_assoc t = true -> (1 <= n)%coq_nat ->
  (forall y, length y = n -> bil t y (unit_vec n 0) = y) ->
  mult_ring_trivial_at t (i_hnf N) ->
  wf n (i_hnf I) -> is_hnf (i_hnf I) = true -> length (i_hnf I) = n ->
  get_inv_diff t = Done D -> ideal_inv m I D = Done (a, N) ->
  [/\ i_table N = t, wf n (i_hnf N), is_hnf (i_hnf N) = true, cap_z I = Done a /\ (0 < a)%Z
    & (forall v, In_rowspanZ n v (prod_rows t (i_hnf I) (i_hnf N)) <->
                 exists c, length c = n /\ v = bil t (scalar_vec n a) c) /\
      inv_flag m I (a, N) = Done true].
Proof.
move=> t n Ht Hc Has Hn Hu Hmax WI II LI ED EN.
have [TN WN IN [CZ apos] Sp] := @inv_dual_spec m I D a N Ht Hc Has Hn WI II LI ED EN.
split=> //.
have a0 : a <> 0%Z by lia.
suff H : In_rowspanZ n (scalar_vec n a) (prod_rows t (i_hnf I) (i_hnf N)).
  split; first exact/(@inv_spec_iff_invertible m I D a N Ht Hc Has Hn Hu WI II LI ED EN).
  exact/(proj2 (@inv_flag_iff m I D a N Ht Hc Has Hn Hu WI II LI ED EN)).
move: ED; rewrite /get_inv_diff; case Ed: (mt_inv_diff t) => [[l hd]| |] //= _.
have [d E] : exists d, length (i_table I) = d.+1.
  by move: Hn; rewrite /n /t; case: (length _) => [|d] ?; [lia|exists d].
have lt : length t = d.+1 by [].
move: (Hu) (WI) (WN) (Sp); rewrite /n /t E -/t => Hu' WI' WN' Sp'.
have [a' [Ea' [_ ha']]] := @cap_z_spec I n WI II LI Hn.
move: Ea'; rewrite CZ => -[ea']; rewrite -{a'}ea' in ha'.
have HaI : In_rowspanZ d.+1 (scalar_vec d.+1 a) (i_hnf I).
  rewrite scalar_vec_cons; have := proj2 (ha' a) (Z.divide_refl a).
  by rewrite /n /t E /= Nat.sub_0_r.
exact: (maximal_invertible lt Ht Hc Has Hu' Hmax WI' WN' a0 Sp' HaI Ed).
Qed.

Theorem inv_spec_maximal m I D a N :
  let t := i_table I in let n := length t in
  tshape t -> table_comm t = true -> table_assoc t = true -> (1 <= n)%coq_nat ->
  (forall y, length y = n -> bil t y (unit_vec n 0) = y) ->
  mult_ring_trivial t ->
  wf n (i_hnf I) -> is_hnf (i_hnf I) = true -> length (i_hnf I) = n ->
  get_inv_diff t = Done D -> ideal_inv m I D = Done (a, N) ->
  [/\ i_table N = t, wf n (i_hnf N), is_hnf (i_hnf N) = true, cap_z I = Done a /\ (0 < a)%Z
    & (forall v, In_rowspanZ n v (prod_rows t (i_hnf I) (i_hnf N)) <->
                 exists c, length c = n /\ v = bil t (scalar_vec n a) c) /\
      inv_flag m I (a, N) = Done true].
Proof.
move=> t n Ht Hc Has Hn Hu Hmax WI II LI ED EN.
have [TN WN IN [CZ apos] Sp] := @inv_dual_spec m I D a N Ht Hc Has Hn WI II LI ED EN.
have a0 : a <> 0%Z by lia.
apply: (@inv_spec_maximal_at m I D a N) => //.
exact: (@mult_ring_trivial_colon t Ht Hc Has (i_hnf I) (i_hnf N) a WI WN a0 Sp Hmax).
Qed.
