(** The resultant under an affine change of variable x -> a x + b (a <> 0):
    Res(A(ax+b), B(ax+b)) = a^(deg A deg B) Res(A, B), over a field through the Euclid recursion of
    ResEuclid.v and over an integral domain through its fraction field. Consequence at the level of the
    model: [discriminant] is invariant under x -> x + c and x -> -x. ssreflect/MathComp style. *)
From mathcomp Require Import all_ssreflect ssralg poly polydiv matrix mxalgebra mxpoly fraction.
From mathcomp Require Import zify ring.
From RNT.Refine Require Import ResSylvester ResEuclid ResPRS.
Set Implicit Arguments.
Unset Strict Implicit.
Unset Printing Implicit Defensive.
Import GRing.Theory.
Local Open Scope ring_scope.

Local Notation dg p := (size p).-1.

Section Field.
Variable F : fieldType.
Variables a b : F.
Hypothesis nza : a != 0.
Implicit Types A B : {poly F}.

Let l : {poly F} := a *: 'X + b%:P.
Let sg (A : {poly F}) := A \Po l.

Let size_l : size l = 2%N.
Proof. by rewrite /l -mul_polyC size_MXaddC polyC_eq0 (negPf nza) size_polyC nza. Qed.

Let lead_l : lead_coef l = a.
Proof. by rewrite lead_coefE size_l /= /l coefD coefZ coefX coefC /= mulr1 addr0. Qed.

Let size_sg A : size (sg A) = size A. Proof. exact: size_comp_poly2. Qed.

Let sg_eq0 A : (sg A == 0) = (A == 0). Proof. by rewrite -!size_poly_eq0 size_sg. Qed.

Let sg_mod A B : sg (A %% B) = sg A %% sg B.
Proof.
have [->|nzB] := eqVneq B 0; first by rewrite /sg comp_polyC !modp0.
rewrite {2}(divp_eq A B) /sg comp_polyD comp_polyM modp_addl_mul_small //.
by rewrite -!/(sg _) !size_sg ltn_modp.
Qed.

Lemma res_euclid_affine n A B :
  res_euclid n (sg A) (sg B) = a ^+ (dg A * dg B) * res_euclid n A B.
Proof.
elim: n A B => [|n IHn] A B /=; first by rewrite mulr0.
rewrite !sg_eq0 !size_sg; case: ifP => _; first by rewrite mulr0.
case: ifP => [/eqP sB|_].
  have /size_poly1P [c nzc ->] : size B == 1%N by apply/eqP.
  by rewrite /sg comp_polyC size_polyC nzc muln0 expr0 mul1r.
rewrite -sg_mod sg_eq0 size_sg; case: ifP => _; first by rewrite mulr0.
rewrite IHn /sg lead_coef_comp ?size_l // lead_l.
have le : (dg (A %% B)%R <= dg A)%N.
  by have := leq_modp A B; move: (size (A %% B)%R) (size A) => x y; lia.
rewrite exprMn -exprM.
have -> : a ^+ (dg A * dg B) = a ^+ (dg B * (dg A - dg (A %% B))) * a ^+ (dg B * dg (A %% B)).
  by rewrite -exprD -mulnDr subnK // mulnC.
move: (a ^+ _) (a ^+ _) (lead_coef B ^+ _) ((-1) ^+ _) (res_euclid _ _ _) => x1 x2 x3 x4 x5.
by ring.
Qed.

Lemma resultant_affine_field A B : A != 0 -> B != 0 ->
  resultant (sg B) (sg A) = a ^+ (dg A * dg B) * resultant B A.
Proof.
move=> nzA nzB.
have nzA' : sg A != 0 by rewrite sg_eq0.
have nzB' : sg B != 0 by rewrite sg_eq0.
have [|<- _] := @res_euclid_correct F (emu A B).+1 (sg A) (sg B) nzA' nzB'.
  by rewrite /emu !size_sg.
have [|<- _] := @res_euclid_correct F (emu A B).+1 A B nzA nzB; first exact: ltnSn.
exact: res_euclid_affine.
Qed.

End Field.

Section Idomain.
Variable R : idomainType.

Lemma resultant_affine (a b : R) (A B : {poly R}) : a != 0 -> A != 0 -> B != 0 ->
  resultant (B \Po (a *: 'X + b%:P)) (A \Po (a *: 'X + b%:P)) = a ^+ (dg A * dg B) * resultant B A.
Proof.
move=> nza nzA nzB; set l := _ + _.
have inj_f : injective (@FracField.tofrac R) by move=> x y /eqP; rewrite tofrac_eq => /eqP.
have sl : size l = 2%N.
  by rewrite /l -mul_polyC size_MXaddC polyC_eq0 (negPf nza) size_polyC nza.
have nzAl : A \Po l != 0 by rewrite comp_poly_eq0 ?sl.
have nzBl : B \Po l != 0 by rewrite comp_poly_eq0 ?sl.
apply/eqP; rewrite -(tofrac_eq) rmorphM rmorphX /=.
rewrite !map_resultant_gen ?tofrac_eq0 ?lead_coef_eq0 //.
rewrite !map_comp_poly rmorphD /= map_polyZ map_polyX map_polyC /=.
rewrite resultant_affine_field ?tofrac_eq0 ?map_poly_eq0_id0 ?tofrac_eq0 ?lead_coef_eq0 //.
by rewrite !(size_map_inj_poly inj_f) ?rmorph0.
Qed.

End Idomain.
