(** C20: in exact arithmetic a run of [lll] on a square matrix with at least two rows never panics
    (every index is in range, [floor] is total): the outcome is [Done] or [OutOfFuel].
    Only shapes are needed (the input may be singular).   (stdlib; lia.) *)
From RNT.Model Require Import Base Lll.
From RNT.Refine Require Import LllMat LllGS LllH LllExitStep2.
From Coq Require Import Lia QArith Qcanon.
Open Scope Z_scope.

Local Notation F := arithQ.

Definition no_panic {A} (o : outcome A) (P : A -> Prop) : Prop :=
  match o with Done a => P a | Panic _ => False | OutOfFuel => True end.

Section Total.
Variable n : nat.

Lemma red_total s k l : wfstate n s -> (l < k)%nat -> (k < n)%nat -> exists s', red F n s k l = Done s'.
Proof.
  intros (WB & WS & WM & Wb & Wk & WH) Hl Hk. unfold red.
  destruct (fleb F (fhalf F) (fabs F (get2 F (l_mu s) k l))); [|eexists; reflexivity].
  cbn [to_int ffloor fadd fhalf F arithQ bind].
  assert (Hl' : (l < n)%nat) by lia.
  pose proof (square_row n _ k WB Hk) as Bk. pose proof (square_row n _ l WB Hl') as Bl.
  pose proof (squareZ_row n _ k WH Hk) as Hk'. pose proof (squareZ_row n _ l WH Hl') as Hl''.
  unfold row, rowZ.
  rewrite upd_prefix_ok by lia. cbn [bind].
  rewrite upd_prefix_ok by lia. cbn [bind].
  eexists; reflexivity.
Qed.

Lemma swap_total s k : wfstate n s -> (k + 1 < n)%nat -> exists s', swap F n s k = Done s'.
Proof.
  intros (WB & WS & WM & Wb & Wk & WH) Hk1. assert (Hk0 : (k < n)%nat) by lia.
  unfold swap.
  pose proof (square_row n _ k WS Hk0) as Sk. pose proof (square_row n _ (k + 1)%nat WS Hk1) as Sk1.
  unfold row.
  rewrite upd_prefix_ok by (rewrite ?nth_set_nth_eq by (rewrite (proj1 WS); lia); lia). cbn [bind].
  rewrite upd_prefix_ok.
  2:{ rewrite nth_set_nth_neq by lia. rewrite nth_set_nth_neq by lia. lia. }
  2:{ lia. }
  cbn [bind]. eexists; reflexivity.
Qed.

Definition shape (s : lstate (T:=Qc)) : Prop := wfstate n s /\ (1 <= l_k s <= l_kmax s)%nat.

Lemma red_shape s l s' : shape s -> (l < l_k s)%nat -> red F n s (l_k s) l = Done s' ->
  shape s' /\ l_k s' = l_k s.
Proof.
  intros [W Hk] Hl R.
  assert (Hkn : (l_k s < n)%nat) by (destruct W as (_ & _ & _ & _ & ? & _); lia).
  destruct (red_entries n s (l_k s) l s' W Hl Hkn R) as (q & E1 & E2 & _ & _ & W' & _).
  split; [split; [exact W'|lia]|exact E2].
Qed.

Lemma inner_loop_total : forall fuel s, shape s -> no_panic (inner_loop F fuel n s) shape.
Proof.
  induction fuel as [|f IH]; intros s Sh; [exact I|].
  cbn [inner_loop]. pose proof Sh as [W Hk].
  assert (Hkn : (l_k s < n)%nat) by (destruct W as (_ & _ & _ & _ & ? & _); lia).
  destruct (red_total s (l_k s) (l_k s - 1)%nat W ltac:(lia) Hkn) as [s1 R]. rewrite R. cbn [bind].
  destruct (red_shape s (l_k s - 1)%nat s1 Sh ltac:(lia) R) as [[W1 Hk1] E1].
  destruct (lovasz_fails F s1); [|split; assumption].
  destruct (swap_total s1 (l_k s1 - 1)%nat W1 ltac:(lia)) as [s2 SW]. rewrite SW. cbn [bind].
  destruct (swap_entries n s1 (l_k s1 - 1)%nat s2 W1 ltac:(lia) SW) as (E2 & E3 & W2 & _).
  apply IH. split; [exact W2|]. cbn [with_k l_k l_kmax]. lia.
Qed.

Lemma red_down_total : forall cnt s, shape s -> (cnt < l_k s)%nat ->
  no_panic (red_down F n s cnt) (fun s' => shape s' /\ l_k s' = l_k s).
Proof.
  induction cnt as [|c IH]; intros s Sh Hc; cbn [red_down]; [split; [exact Sh|reflexivity]|].
  pose proof Sh as [W Hk].
  assert (Hkn : (l_k s < n)%nat) by (destruct W as (_ & _ & _ & _ & ? & _); lia).
  destruct (red_total s (l_k s) c W ltac:(lia) Hkn) as [s1 R]. rewrite R. cbn [bind].
  destruct (red_shape s c s1 Sh ltac:(lia) R) as [Sh1 E1].
  specialize (IH s1 Sh1 ltac:(lia)).
  destruct (red_down F n s1 c) as [s2| |]; cbn [no_panic] in *; try exact IH.
  destruct IH as [Sh2 E2]. split; [exact Sh2|lia].
Qed.

Lemma step2_shape s : wfstate n s -> (1 <= l_k s < n)%nat -> (l_k s <= S (l_kmax s))%nat -> shape (step2 F s).
Proof.
  intros W Hk Hmax. destruct (Nat.le_gt_cases (l_k s) (l_kmax s)) as [Hle|Hgt].
  - rewrite (step2_id s Hle). split; [exact W|lia].
  - destruct (step2_entries n s W ltac:(lia) Hgt) as (E1 & E2 & _ & _ & W' & _).
    split; [exact W'|lia].
Qed.

Lemma main_loop_total : forall fuel s,
  wfstate n s -> (1 <= l_k s < n)%nat -> (l_k s <= S (l_kmax s))%nat ->
  no_panic (main_loop F fuel n s) (fun _ => True).
Proof.
  induction fuel as [|f IH]; intros s W Hk Hmax; [exact I|].
  cbn [main_loop].
  pose proof (inner_loop_total f (step2 F s) (step2_shape s W Hk Hmax)) as IL.
  destruct (inner_loop F f n (step2 F s)) as [s1| |]; cbn [no_panic bind] in *; try exact IL.
  pose proof IL as [W1 Hk1].
  pose proof (red_down_total (l_k s1 - 1)%nat s1 IL ltac:(lia)) as RD.
  destruct (red_down F n s1 (l_k s1 - 1)) as [s2| |]; cbn [no_panic bind] in *; try exact RD.
  destruct RD as [[W2 Hk2] E2].
  destruct (Nat.leb_spec n (l_k s2 + 1)); [exact I|].
  apply IH; [exact W2|cbn [with_k l_k]; lia|cbn [with_k l_k l_kmax]; lia].
Qed.

End Total.

Lemma Forall_repeat' {A} (P : A -> Prop) x m : P x -> Forall P (repeat x m).
Proof. intros H. induction m; cbn; constructor; assumption. Qed.

(** [P] (exact arithmetic) no panic on square inputs with at least two rows *)
Theorem lll_exact_no_panic : forall (fuel : nat) (B : list (list Qc)) (c : ptag),
  (2 <= length B)%nat -> Forall (fun r => length r = length B) B ->
  lll arithQ fuel B <> Panic c.
Proof.
  intros fuel B c Hn Sq. unfold lll.
  destruct (Nat.ltb_spec (length B) 2) as [|_]; [lia|].
  assert (Rect : rectangular B = true).
  { unfold rectangular. apply forallb_forall. intros r Hr. apply Nat.eqb_eq.
    rewrite (proj1 (Forall_forall _ _) Sq r Hr).
    destruct B as [|r0 B']; [cbn in Hn; lia|]. cbn [hd]. symmetry. inversion Sq; assumption. }
  rewrite Rect. cbn [negb].
  set (n := length B) in *.
  match goal with |- context [main_loop F fuel n ?st] => set (s0 := st) end.
  assert (WB : square n B) by (split; [reflexivity|exact Sq]).
  assert (W : wfstate n s0).
  { unfold wfstate, s0; cbn [l_basis l_bstar l_mu l_b l_kmax l_h].
    split; [exact WB|]. split; [exact WB|].
    split; [split; [apply repeat_length|apply Forall_repeat'; apply repeat_length]|].
    split; [rewrite length_set_nth; apply repeat_length|]. split; [lia|].
    exact (wf_identR Z 0 1 n). }
  pose proof (main_loop_total n fuel s0 W ltac:(cbn [l_k s0]; lia) ltac:(cbn [l_k l_kmax s0]; lia)) as M.
  destruct (main_loop F fuel n s0) as [s| |]; cbn [no_panic bind] in *; [discriminate|contradiction|discriminate].
Qed.
