(** * PolyZFactorW3Masks: C07, index lists of the subset enumeration as bit masks (ssreflect).

    The masks [bits_of m k] visited by the recombination loop (Refine/PolyZFactorEnum.v) select
    [mask (mkseq (bit k) m) lifted]; [remove_indices] keeps the complementary mask; every bit mask
    is visited. *)
From RNT.Model Require Import Base PolyZFactor.
From mathcomp Require Import all_ssreflect.
From RNT.Refine Require Import PolyZFactorEnum.
Set Implicit Arguments.
Unset Strict Implicit.
Unset Printing Implicit Defensive.
Local Open Scope nat_scope.

(** the bit mask of [k] on [m] positions *)
Definition bmask (m k : nat) : bitseq := mkseq (bit k) m.

Lemma size_bmask m k : size (bmask m k) = m.
Proof. by rewrite size_mkseq. Qed.

Lemma iotaS1 n : iota 1 n = [seq i.+1 | i <- iota 0 n].
Proof. by rewrite -[1]/(1 + 0) iotaDl. Qed.

(** selecting the positions that satisfy [P] *)
Lemma map_nth_filter_iota (T : Type) (x0 : T) (P : pred nat) (L : seq T) :
  [seq nth x0 L i | i <- [seq i <- iota 0 (size L) | P i]] = mask [seq P i | i <- iota 0 (size L)] L.
Proof.
elim: L P => [|x L IH] P //=.
rewrite iotaS1 filter_map -!map_comp.
have -> : [seq (P \o succn) i | i <- iota 0 (size L)] = [seq (preim succn P) i | i <- iota 0 (size L)] by [].
by rewrite -IH; case: (P 0) => /=; rewrite -map_comp.
Qed.

Lemma map_nth_bits (T : Type) (x0 : T) (L : seq T) k :
  [seq nth x0 L i | i <- bits_of (size L) k] = mask (bmask (size L) k) L.
Proof. by rewrite /bits_of map_nth_filter_iota. Qed.

Lemma remove_indices_mask (T : Type) (L : seq T) j (idx : seq nat) :
  remove_indices L j idx = mask [seq i \notin idx | i <- iota j (size L)] L.
Proof.
elim: L j => [|x L IH] j //=.
by rewrite existsb_mem; case: ifP => _ /=; rewrite IH.
Qed.

Lemma mem_bits_of m k i : (i \in bits_of m k) = (i < m) && bit k i.
Proof. by rewrite /bits_of mem_filter mem_iota add0n andbC. Qed.

Lemma remove_bits_mask (T : Type) (L : seq T) k :
  remove_indices L 0 (bits_of (size L) k) = mask (map negb (bmask (size L) k)) L.
Proof.
rewrite remove_indices_mask /bmask /mkseq -map_comp; congr (mask _ _).
apply/eq_in_map => i; rewrite mem_iota add0n /= => hi.
by rewrite mem_bits_of hi.
Qed.

Lemma popcount_bmask m k : popcount m k = count id (bmask m k).
Proof. by rewrite /popcount /bits_of size_filter /bmask /mkseq count_map. Qed.

(** every bit mask is the mask of some [k] below [2^size] *)
Lemma bmask_realize (m : bitseq) : exists2 k, k < 2 ^ size m & bmask (size m) k = m.
Proof.
elim/last_ind: m => [|m b [k lt ek]]; first by exists 0.
rewrite size_rcons; set n := size m in lt ek *.
exists (if b then 2 ^ n + k else k).
  by rewrite expnS mul2n -addnn; case: (b); rewrite ?ltn_add2l // (ltn_trans lt) // -{1}[2 ^ n]addn0 ltn_add2l expn_gt0.
rewrite /bmask mkseqS; congr rcons.
- rewrite -ek; apply/eq_in_map => i; rewrite mem_iota add0n /= => hi.
  by case: (b) => //; rewrite bit_high.
- by case: (b); rewrite ?bit_top // (bit_low lt).
Qed.

Lemma bits_of_in_masks m k : k < 2 ^ m -> bits_of m k \in masks m (popcount m k).
Proof.
move=> lt; apply/mapP; exists k => //.
by rewrite mem_filter eqxx mem_iota add0n.
Qed.

(** an element of [masks] *)
Lemma masksP m d idx : idx \in masks m d ->
  exists k, [/\ k < 2 ^ m, idx = bits_of m k & count id (bmask m k) = d].
Proof.
case/mapP => k; rewrite mem_filter mem_iota add0n => /andP [/eqP ed lt] ->.
by exists k; split=> //; rewrite -popcount_bmask.
Qed.

(** ** masks *)
Lemma mask_count0 (T : Type) (m : bitseq) (s : seq T) : count id m = 0 -> mask m s = [::].
Proof. by elim: m s => [|[] m IH] [|x s] //= /IH ->. Qed.

Lemma count_negb (m : bitseq) : count id m + count id (map negb m) = size m.
Proof. by rewrite count_map -(count_predC id m). Qed.

(** a mask of a mask is a mask *)
Lemma mask_comp (T : Type) (m : bitseq) (s : seq T) (m' : bitseq) :
  size m = size s -> size m' = count id m ->
  exists m'', [/\ size m'' = size s, mask m'' s = mask m' (mask m s) & count id m'' = count id m'].
Proof.
elim: m s m' => [|b m IH] [|x s] m' //=.
  by move=> _ /size0nil ->; exists [::].
case=> sm; case: b => /=.
- case: m' => [|b' m'] //= [sm'].
  have [m'' [s'' e'' c'']] := IH s m' sm sm'.
  by exists (b' :: m''); split=> /=; rewrite ?s'' ?e'' ?c''.
- rewrite add0n => sm'.
  have [m'' [s'' e'' c'']] := IH s m' sm sm'.
  by exists (false :: m''); split=> /=; rewrite ?s'' ?e'' ?c''.
Qed.

(** ** the search returns [None] only when every test does *)
Lemma first_success_none R (test : list nat -> outcome (option R)) l :
  first_success test l = Done None -> forall idx, idx \in l -> test idx = Done None.
Proof.
elim: l => [|i l IH] //=.
case et: (test i) => [[y|]|t|] //= /IH h idx; rewrite inE => /orP [/eqP ->|/h] //.
Qed.

Lemma find_subset_none R m d (test : list nat -> outcome (option R)) :
  find_subset m d [::] test = Done None -> forall idx, idx \in masks m d -> test idx = Done None.
Proof. by rewrite find_subset_masks; exact: first_success_none. Qed.

Lemma first_success_some R (test : list nat -> outcome (option R)) l idx x :
  first_success test l = Done (Some (idx, x)) -> test idx = Done (Some x).
Proof.
elim: l => [|i l IH] //=.
by case et: (test i) => [[y|]|t|] //=; first by case=> <- <-.
Qed.

Lemma find_subset_some R m d (test : list nat -> outcome (option R)) idx x :
  find_subset m d [::] test = Done (Some (idx, x)) -> idx \in masks m d /\ test idx = Done (Some x).
Proof.
rewrite find_subset_masks => ef; split; first exact: first_success_mem ef.
exact: first_success_some ef.
Qed.
