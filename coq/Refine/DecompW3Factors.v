(** * DecompW3Factors (C17, third wave): the mod-p factors behind the ideals returned by
      [PrimeDecomp.decompose], and the unconditional degree sum.

    [decompose_full] is [decompose] with the factor g_i kept beside each (P_i, e_i); it is a
    definition of this proof file (the model is unchanged) and [decompose_full_proj] shows that
    [decompose] is exactly its projection, outcome by outcome (values, panics, fuel).
    Style: ssreflect/MathComp on top of the C08 development (F_p[x] = {poly 'F_(pnat p)}). *)
From Coq Require Import ZArith List Lia Znumtheory.
From mathcomp Require Import all_ssreflect ssralg poly polydiv ssrint zmodp.
From RNT.Model Require Import Base Poly PolyModP LinAlg MultTable Order FactorModP Ideal PrimeDecomp.
From RNT.Refine Require Import PolyModPArith PolyModPDivList FermatZ PolyZmod PolyModPDiv MonicZ PolyModPGcd FpPoly
  HenselProofs FactorNorm FactorProd FpTotal FmpField FmpSqf FmpProduct FmpIrred FmpDegree FmpSplit FmpFull FmpTotal FmpSafe FmpLists
  DecompDegree.
From mathcomp Require Import ssrZ zify ring.
Set Implicit Arguments. Unset Strict Implicit. Unset Printing Implicit Defensive.
Import GRing.Theory.
Local Open Scope ring_scope.

(** ** the companion of [decompose] that keeps the factors *)

Definition decompose_factor_g (md : mode) (f : list Z) (b : qmat) (t : table) (p : Z)
           (pm : list Z * Z) : outcome (list Z * ideal * Z) :=
  do Pe <- decompose_factor md f b t p pm; Done (fst pm, fst Pe, snd Pe).

Definition decompose_full (md : mode) (f : list Z) (b : qmat) (t : table) (p : Z) (r : rng)
  : outcome (list (list Z * ideal * Z) * rng) :=
  do z_theta <- trivial_order_monic f;
  do index <- order_index b z_theta;
  do rm <- zrem index p;
  if (rm =? 0)%Z then Panic POther
  else
    do '(result, r') <- factorize_mod_p md f p (usize_or_0 p) r;
    do res <- mapM (decompose_factor_g md f b t p) result;
    Done (res, r').

Definition proj_full (x : list Z * ideal * Z) : ideal * Z := (snd (fst x), snd x).
Definition factor_of (x : list Z * ideal * Z) : list Z * Z := (fst (fst x), snd x).

Lemma mapM_proj (X Y Y' : Type) (F : X -> outcome Y) (G : X -> Y -> Y') (H : Y' -> Y) l :
  (forall x y, H (G x y) = y) ->
  mapM F l = match mapM (fun x => do y <- F x; Done (G x y)) l with
             | Done l' => Done (List.map H l') | Panic c => Panic c | OutOfFuel => OutOfFuel end.
Proof.
move=> HG; elim: l => [|x l IH] //=.
case: (F x) => [y| |] //=; rewrite IH.
by case: (mapM _ l) => [l'| |] //=; rewrite HG.
Qed.

(** [decompose] is the projection of [decompose_full]: same panics, same fuel, same draws *)
Theorem decompose_full_proj md f b t p r :
  decompose md f b t p r =
  match decompose_full md f b t p r with
  | Done (l, r') => Done (List.map proj_full l, r')
  | Panic c => Panic c
  | OutOfFuel => OutOfFuel
  end.
Proof.
rewrite /decompose /decompose_full.
case: (trivial_order_monic f) => [zt| |] //=.
case: (order_index b zt) => [idx| |] //=.
case: (zrem idx p) => [rm| |] //=; case: (rm =? 0)%Z => //.
case: (factorize_mod_p md f p (usize_or_0 p) r) => [[fs r1]| |] //=.
rewrite (@mapM_proj _ _ _ (decompose_factor md f b t p) (fun pm Pe => (fst pm, fst Pe, snd Pe)) proj_full).
  by rewrite /decompose_factor_g; case: (mapM _ fs).
by move=> x [P e].
Qed.

Lemma decompose_of_full md f b t p r res r' :
  decompose md f b t p r = Done (res, r') ->
  exists2 gs, decompose_full md f b t p r = Done (gs, r') & res = List.map proj_full gs.
Proof.
rewrite decompose_full_proj; case: (decompose_full md f b t p r) => [[gs r1]| |] //= [<- <-].
by exists gs.
Qed.

Lemma mapM_F2 (X Y : Type) (F : X -> outcome Y) l l' :
  mapM F l = Done l' -> List.Forall2 (fun x y => F x = Done y) l l'.
Proof.
elim: l l' => [|x l IH] l' /=; first by case=> <-; constructor.
case E: (F x) => [y| |] //=; case E2: (mapM F l) => [t| |] //= [<-].
by constructor=> //; apply: IH.
Qed.

(** what a returned run went through *)
Lemma decompose_full_inv md f b t p r gs r' :
  decompose_full md f b t p r = Done (gs, r') ->
  exists zt idx rm fs,
    [/\ trivial_order_monic f = Done zt, order_index b zt = Done idx, (zrem idx p = Done rm /\ (rm =? 0)%Z = false),
        factorize_mod_p md f p (usize_or_0 p) r = Done (fs, r')
      & List.Forall2 (fun pm x => decompose_factor md f b t p pm = Done (proj_full x) /\ factor_of x = pm) fs gs].
Proof.
rewrite /decompose_full.
case E1: (trivial_order_monic f) => [zt| |] //=.
case E2: (order_index b zt) => [idx| |] //=.
case E3: (zrem idx p) => [rm| |] //=; case E4: (rm =? 0)%Z => //.
case E5: (factorize_mod_p md f p (usize_or_0 p) r) => [[fs r1]| |] //=.
case E6: (mapM _ fs) => [res| |] //= [<- <-].
exists zt, idx, rm, fs; split=> //.
have := mapM_F2 E6; elim=> [|pm x l l' Ex _ IH]; constructor=> //.
move: Ex; rewrite /decompose_factor_g; case Ed: (decompose_factor md f b t p pm) => [[P e]| |] //= [<-].
have /= -> := decompose_factor_snd Ed.
by case: pm {Ed}.
Qed.

Lemma factors_of_full md f b t p r gs r' :
  decompose_full md f b t p r = Done (gs, r') ->
  factorize_mod_p md f p (usize_or_0 p) r = Done (List.map factor_of gs, r').
Proof.
move=> /decompose_full_inv [zt [idx [rm [fs [_ _ _ E F2]]]]].
suff -> : List.map factor_of gs = fs by [].
by elim: F2 => [|pm x l l' [_ E1] _ E2] //=; rewrite E1 E2.
Qed.

(** ** facts about the factorisation used by [decompose] *)
Section Prime.
Variable p : Z.
Hypothesis Hp : Znumtheory.prime p.
Let Hp2 := prime_ge_2 _ Hp.
Let Hpp : (0 < p)%ZZ. Proof. lia. Qed.
Let Hp0 : p <> Z0. Proof. lia. Qed.

Notation n := (pnat p).
Notation RP l := (redp n (PZ l)).
Notation FP := (FProd p).

Lemma usize_or_0_ok (f : list Z) : (Z.of_nat (length f) <= two64)%ZZ ->
  usize_or_0 p = p \/ (Z.of_nat (length f) <= p)%ZZ.
Proof.
move=> Hl; rewrite /usize_or_0.
case: (Z.leb_spec 0 p) => /= H0; last lia.
by case: (Z.ltb_spec p two64) => H1; [left | right; lia].
Qed.

Lemma RP_monic (f : list Z) : lmonic f -> RP f \is monic.
Proof. by move=> Hf; apply: monic_map; apply: lmonic_monic. Qed.

Lemma RP_monic_size (f : list Z) : lmonic f -> size (RP f) = length f.
Proof.
move=> Hf; rewrite /redp size_map_poly_id0 ?(lmonic_size Hf) //.
by rewrite (monicP (lmonic_monic Hf)) rmorph1 oner_eq0.
Qed.

Theorem factor_facts md (f : list Z) r fs r' :
  lmonic f -> (Z.of_nat (length f) <= two64)%ZZ ->
  factorize_mod_p md f p (usize_or_0 p) r = Done (fs, r') ->
  [/\ RP f = FP fs, List.Forall (ngood p md) fs, List.Forall (fun ge => (1 <= snd ge)%ZZ) fs,
      List.Forall (fun ge => lirred p ge.1) fs & List.NoDup (List.map fst fs)].
Proof.
move=> Hf Hl H.
have Hpu := usize_or_0_ok Hl.
have Hmd : md = Checked \/ (Z.of_nat (length f) <= two64)%ZZ by right.
have Em := poly_mod_eq' f p Hp0; set f1 := from_raw _ _ in Em.
have E1 : RP f1 = RP f by apply/(eqpm_RP Hp); apply: PZ_poly_mod Em.
have Mf := RP_monic Hf.
have N1 : f1 <> [::].
  move=> E0; move: E1; rewrite E0 PZ_nil redp0 => E.
  by move: (monic_neq0 Mf); rewrite -E eqxx.
have H' : factorize_mod_p md f p p r = Done (fs, r').
  case: Hpu H => [->|Hlp] H //.
  by rewrite -(@factorize_pusize_irrelevant p Hp md f (usize_or_0 p) p).
have G := factorize_normalised Hp (Z.lt_le_incl _ _ Hpp) H'.
have [I D] := factorize_irred Hp Em N1 H'.
have Pos := multiplicities_pos_all Hp Hl Hpu Em N1 H.
split=> //.
have := factorize_prod Hp Hmd Em N1 H'.
have M := FProd_monic G.
move=> E; move: (E) Mf; rewrite E mul_polyC => _ /monicP.
rewrite lead_coefZ (monicP M) mulr1 => ->.
by rewrite scale1r.
Qed.

(** degrees over F_p *)
Lemma FP_size md fs : List.Forall (ngood p md) fs -> List.Forall (fun ge => (1 <= snd ge)%ZZ) fs ->
  Z.of_nat (size (FP fs)).-1 = degree_sum fs.
Proof.
elim: fs => [|[g e] fs IH] /= G Pos; first by rewrite size_poly1.
have [[Mg [Rg [Lg _]]] G'] : ngood p md (g, e) /\ List.Forall (ngood p md) fs by move: G => /List.Forall_cons_iff.
have [Pe Pos'] : (1 <= e)%ZZ /\ List.Forall (fun ge => (1 <= snd ge)%ZZ) fs by move: Pos => /List.Forall_cons_iff.
have Mfs := FProd_monic G'.
have Mg' : RP g \is monic := RP_monic Mg.
have Mge : RP g ^+ Z.to_nat e \is monic by apply: monic_exp.
rewrite size_mul ?monic_neq0 // -(IH G' Pos').
have := size_exp (RP g) (Z.to_nat e); rewrite (reduced_size Hp Rg) => Se.
have S1 : (0 < size (RP g ^+ Z.to_nat e))%nat by rewrite size_poly_gt0 monic_neq0.
have S2 : (0 < size (FP fs))%nat by rewrite size_poly_gt0 monic_neq0.
have Dg : pdeg g = Z.of_nat (length g).-1.
  by apply: pdeg_size; case: (g) Lg => [|c g'] //=; lia.
rewrite Dg; move: S1 S2 Se.
move: (size (RP g ^+ Z.to_nat e)) (size (FP fs)) (length g) => x y lg.
have Ek : Z.of_nat (Z.to_nat e) = e by lia.
case: x => // x; case: y => // y _ _ /= ->.
rewrite -[(_ + _)%Nrec]/(_ + _)%nat addnS /= Nat2Z.inj_add Nat2Z.inj_mul Ek; lia.
Qed.

(** [P] degree_sum for the factors kept by [decompose_full] *)
Theorem degree_sum_full md f b t r gs r' :
  lmonic f -> (Z.of_nat (length f) <= two64)%ZZ ->
  decompose_full md f b t p r = Done (gs, r') ->
  degree_sum (List.map factor_of gs) = pdeg f.
Proof.
move=> Hf Hl /factors_of_full H.
have [E G Pos _ _] := factor_facts Hf Hl H.
rewrite -(FP_size G Pos) -E (RP_monic_size Hf) pdeg_size //.
by case: (f) (lmonic_nonnil Hf).
Qed.

End Prime.

(** [P] degree_sum, stated about [decompose]: the answer is the projection of a list [gs] of triples
    (g_i, P_i, e_i) produced by [decompose_full] (the same run with the factor kept), the (g_i, e_i) are
    what [factorize_mod_p] returned on the same draws, and sum e_i deg g_i = deg f. *)
Theorem degree_sum_all md f b t p r res r' :
  Znumtheory.prime p -> lmonic f -> (Z.of_nat (length f) <= two64)%ZZ ->
  decompose md f b t p r = Done (res, r') ->
  exists gs, [/\ decompose_full md f b t p r = Done (gs, r'), res = List.map proj_full gs,
                 factorize_mod_p md f p (usize_or_0 p) r = Done (List.map factor_of gs, r')
               & degree_sum (List.map factor_of gs) = pdeg f].
Proof.
move=> Hp Hf Hl /decompose_of_full [gs E ->]; exists gs; split=> //.
- exact: factors_of_full E.
- exact: (degree_sum_full Hp Hf Hl E).
Qed.

Theorem degree_sum_std md f b t p r res r' :
  Znumtheory.prime p -> lmonic f -> (Z.of_nat (length f) <= two64)%ZZ ->
  decompose md f b t p r = Done (res, r') ->
  exists gs, decompose_full md f b t p r = Done (gs, r') /\ res = List.map proj_full gs /\
             factorize_mod_p md f p (usize_or_0 p) r = Done (List.map factor_of gs, r') /\
             degree_sum (List.map factor_of gs) = pdeg f.
Proof. by move=> Hp Hf Hl /(degree_sum_all Hp Hf Hl) [gs [A B C D]]; exists gs. Qed.
