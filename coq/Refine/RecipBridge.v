(** * The laws of the Legendre symbol on [Z], for [KroneckerProofs.legendre] (Euler's criterion with [Z.pow], [Z.modulo]),
      transferred from [RecipLegendre] (MathComp, 'F_p). *)
From Coq Require Import ZArith Znumtheory Lia.
From mathcomp Require Import all_ssreflect ssralg ssrnum ssrint zmodp.
From mathcomp Require Import ssrZ zify.
From RNT.Refine Require Import FermatBridge RecipLegendre RecipEuler.
From RNT.Refine Require KroneckerProofs.
Set Implicit Arguments.
Unset Strict Implicit.
Unset Printing Implicit Defensive.
Delimit Scope Z_scope with ZZ.   (* ssrint rebinds %Z to int_scope *)

Notation legendre := KroneckerProofs.legendre.

Section Bridge.
Variable p : Z.
Hypothesis pr_p : Znumtheory.prime p.
Hypothesis p_gt2 : (2 < p)%ZZ.

Let n := Z.to_nat p.
Lemma pr_n : prime n. Proof. exact: prime_Z_nat pr_p. Qed.
Lemma n_gt2 : (2 < n)%N. Proof. rewrite /n; lia. Qed.

Lemma half_nat : Z.of_nat n./2 = ((p - 1) / 2)%ZZ.
Proof.
  have := p_odd pr_n n_gt2. have := odd_double_half n. rewrite -/n => E O. rewrite O in E.
  have -> : (p - 1 = Z.of_nat n./2 * 2)%ZZ by rewrite /n in E *; lia.
  by rewrite Z.div_mul.
Qed.

Lemma legendre_leg (a : Z) : legendre a p = Z_of_int (leg n (Z.to_nat (a mod p))).
Proof.
  have B := Z.mod_pos_bound a p ltac:(lia).
  rewrite (leg_nat _ pr_n n_gt2) /KroneckerProofs.legendre.
  set m := Z.to_nat (a mod p).
  have -> : ((a mod p) ^ ((p - 1) / 2) mod p)%ZZ = Z.of_nat ((m ^ n./2) %% n).
  { rewrite modn_Zmod; last by lia. rewrite expn_pow Nat2Z.inj_pow half_nat /m /n. congr (_ ^ _ mod _)%ZZ; lia. }
  move: ((m ^ n./2) %% n)%N => t /=.
  case: eqP => [->|N0] //=. case: (Z.eqb_spec (Z.of_nat t) 0) => [|_]; first by lia.
  case: eqP => [->|N1] //=. case: (Z.eqb_spec (Z.of_nat t) 1) => [|_] //; lia.
Qed.

Lemma to_nat_mod (a : Z) : Z.to_nat (a mod p) = (Z.to_nat (a mod p) %% n)%N.
Proof. have B := Z.mod_pos_bound a p ltac:(lia). rewrite modn_small //. rewrite /n. lia. Qed.

Lemma to_nat_modn (x : nat) : Z.to_nat (Z.of_nat x mod p) = (x %% n)%N.
Proof.
  have -> : p = Z.of_nat n by rewrite /n; lia.
  rewrite -modn_Zmod; last by lia. lia.
Qed.

(** values *)
Lemma legendre_range (a : Z) : legendre a p = (-1)%ZZ \/ legendre a p = 0%ZZ \/ legendre a p = 1%ZZ.
Proof.
  rewrite /KroneckerProofs.legendre /=.
  case: Z.eqb_spec => _; first by right; left. case: Z.eqb_spec => _; [right; right|left]; reflexivity.
Qed.

Lemma legendre_mod (a : Z) : legendre (a mod p) p = legendre a p.
Proof. by rewrite /KroneckerProofs.legendre Z.mod_mod; last lia. Qed.

Lemma legendre_eq0 (a : Z) : legendre a p = 0%ZZ <-> (p | a)%ZZ.
Proof.
  have B := Z.mod_pos_bound a p ltac:(lia).
  rewrite legendre_leg. have := leg_eq0 pr_n n_gt2 (Z.to_nat (a mod p)).
  have -> : (n %| Z.to_nat (a mod p))%N = (Z.to_nat (a mod p) == 0)%N.
  { rewrite /dvdn modn_small //. rewrite /n; lia. }
  move=> E. split.
  - move=> H. have : leg n (Z.to_nat (a mod p)) == 0%R by lia. rewrite E => /eqP H0.
    apply: Zmod_divide; lia.
  - move=> /Zdivide_mod H. have : leg n (Z.to_nat (a mod p)) == 0%R by rewrite E H.
    move/eqP => ->. reflexivity.
Qed.

Lemma legendre_mul (a b : Z) : (legendre (a * b) p = legendre a p * legendre b p)%ZZ.
Proof.
  rewrite !legendre_leg.
  have -> : Z.to_nat ((a * b) mod p) = ((Z.to_nat (a mod p) * Z.to_nat (b mod p)) %% n)%N.
  { rewrite -to_nat_modn Nat2Z.inj_mul !Z2Nat.id; try (apply Z.mod_pos_bound; lia).
    by rewrite -Zmult_mod. }
  rewrite (leg_mod pr_n) (legM pr_n n_gt2). lia.
Qed.

Lemma legendre_1 : legendre 1 p = 1%ZZ.
Proof.
  rewrite legendre_leg. have -> : Z.to_nat (1 mod p) = 1%N by rewrite Z.mod_small; lia.
  by rewrite leg_1.
Qed.

Lemma legendre_m1 : legendre (-1) p = if (p mod 4 =? 1)%ZZ then 1%ZZ else (-1)%ZZ.
Proof.
  rewrite legendre_leg.
  have -> : Z.to_nat (-1 mod p) = n.-1.
  { have -> : (-1 mod p = p - 1)%ZZ by symmetry; apply: (Z.mod_unique_pos _ _ (-1)%ZZ); lia.
    rewrite /n; lia. }
  rewrite (leg_m1_tab pr_n n_gt2).
  have -> : (n %% 4 == 1)%N = (p mod 4 =? 1)%ZZ.
  { have := modn_Zmod n (isT : 0 < 4)%N. rewrite /n Z2Nat.id; last lia. move=> /= <-.
    case: eqP; case: Z.eqb_spec => //; lia. }
  by case: Z.eqb_spec.
Qed.

Lemma legendre_2 : legendre 2 p = if ((p mod 8 =? 1) || (p mod 8 =? 7))%ZZ then 1%ZZ else (-1)%ZZ.
Proof.
  rewrite legendre_leg.
  have -> : Z.to_nat (2 mod p) = 2%N by rewrite Z.mod_small; lia.
  rewrite (leg_2_tab pr_n n_gt2).
  have -> : ((n %% 8 == 1) || (n %% 8 == 7))%N = ((p mod 8 =? 1) || (p mod 8 =? 7))%ZZ.
  { have := modn_Zmod n (isT : 0 < 8)%N. rewrite /n Z2Nat.id; last lia. move=> /= <-.
    do 2 case: eqP; do 2 case: Z.eqb_spec => //; lia. }
  by case: orb.
Qed.

End Bridge.

(** The law of quadratic reciprocity on Z. *)
Theorem legendre_reciprocity (p q : Z) : Znumtheory.prime p -> Znumtheory.prime q -> (2 < p)%ZZ -> (2 < q)%ZZ -> p <> q ->
  (legendre q p * legendre p q)%ZZ = if ((p mod 4 =? 3) && (q mod 4 =? 3))%ZZ then (-1)%ZZ else 1%ZZ.
Proof.
  move=> pr_p pr_q p2 q2 pq.
  rewrite (legendre_leg pr_p p2) (legendre_leg pr_q q2).
  have Ep : p = Z.of_nat (Z.to_nat p) by lia.
  have Eq : q = Z.of_nat (Z.to_nat q) by lia.
  have -> : Z.to_nat (q mod p) = (Z.to_nat q %% Z.to_nat p)%N by rewrite -(to_nat_modn p2) -Eq.
  have -> : Z.to_nat (p mod q) = (Z.to_nat p %% Z.to_nat q)%N by rewrite -(to_nat_modn q2) -Ep.
  have Pp := prime_Z_nat pr_p. have Pq := prime_Z_nat pr_q.
  have p2n : (2 < Z.to_nat p)%N by lia. have q2n : (2 < Z.to_nat q)%N by lia.
  have pqn : Z.to_nat p != Z.to_nat q by apply/eqP; lia.
  rewrite (leg_mod Pp) (leg_mod Pq).
  have := leg_reciprocity_tab Pp Pq p2n q2n pqn.
  have -> : ((Z.to_nat p %% 4 == 3) && (Z.to_nat q %% 4 == 3))%N = ((p mod 4 =? 3) && (q mod 4 =? 3))%ZZ.
  { have := modn_Zmod (Z.to_nat p) (isT : 0 < 4)%N. have := modn_Zmod (Z.to_nat q) (isT : 0 < 4)%N.
    rewrite !Z2Nat.id; lia. }
  case: andb; lia.
Qed.

(** Euler's criterion on Z: the symbol defined by the Euler power is 1 exactly on the non-zero squares mod p
    (so it is the Legendre symbol: 0 if p | a, 1 if a is a non-zero square mod p, -1 otherwise). *)
Theorem legendre_qr (p a : Z) : Znumtheory.prime p -> (2 < p)%ZZ ->
  legendre a p = 1%ZZ <-> (~ (p | a)%ZZ /\ exists x, ((x * x) mod p = a mod p)%ZZ).
Proof.
  move=> pr_p p2. have B := Z.mod_pos_bound a p ltac:(lia). split.
  - move=> L. split.
    + move/(legendre_eq0 pr_p p2 a). lia.
    + move: L. rewrite (legendre_leg pr_p p2) => L.
      have L1 : leg (Z.to_nat p) (Z.to_nat (a mod p)) = 1%R by lia.
      have [x _ E] := leg1_sqr (pr_n pr_p) (n_gt2 p2) L1.
      exists (Z.of_nat x). have := congr1 Z.of_nat E.
      rewrite !modn_Zmod; try lia. rewrite Nat2Z.inj_mul !Z2Nat.id; try lia.
      by rewrite Z.mod_mod; last lia.
  - move=> [Nd [x E]].
    rewrite -(legendre_mod p2 a) -E (legendre_mod p2) (legendre_mul pr_p p2).
    have T := legendre_range p x.
    have N0 : legendre x p <> 0%ZZ.
    { move/(legendre_eq0 pr_p p2 x) => D. apply: Nd. apply: Zmod_divide; first lia.
      rewrite -E. apply: Zdivide_mod. exact: Z.divide_mul_l. }
    lia.
Qed.
