(** The integer and the rational routine agree on integer inputs (conditional on the exactness flag of the
    integer run): both are the Sylvester determinant. ssreflect/MathComp style. *)
From RNT.Model Require Import Base Poly Resultant.
From Coq Require Import QArith Qcanon.
From mathcomp Require Import all_ssreflect ssralg poly polydiv matrix mxpoly.
From mathcomp Require Import ssrZ zify.
From RNT.Refine Require Import QcRing PolyRefine PolyZ PolyQ ResSylvester ResEuclid ResPRS ResQ ResInt.
From RNT.Refine Require ResProofs ResProofs3.
Set Implicit Arguments.
Unset Strict Implicit.
Unset Printing Implicit Defensive.
Import GRing.Theory.
Local Open Scope ring_scope.

Lemma Qc_ofZ_is_rmorphism : rmorphism Qc_ofZ.
Proof.
split; first move=> x y.
  rewrite QcsubE /Qc_ofZ /Qcminus /Qcplus /Qcopp; apply/Q2Qc_eq_iff.
  by rewrite !this_Q2Qc -inject_Z_opp -inject_Z_plus.
split; last by [].
move=> x y; rewrite QcmulE /Qc_ofZ /Qcmult; apply/Q2Qc_eq_iff.
by rewrite !this_Q2Qc inject_Z_mult.
Qed.
Canonical Qc_ofZ_additive := Additive Qc_ofZ_is_rmorphism.
Canonical Qc_ofZ_rmorphism := RMorphism Qc_ofZ_is_rmorphism.

Lemma Qc_ofZ_inj : injective Qc_ofZ.
Proof.
by move=> x y /Q2Qc_eq_iff /inject_Z_injective.
Qed.

Lemma Poly_map_ofZ (f : seq Z) : Poly (List.map Qc_ofZ f) = map_poly Qc_ofZ (Poly f).
Proof.
rewrite Lmap_eq; apply/polyP=> i; rewrite coef_map !coef_Poly.
case: (ltnP i (size f)) => hi; first by rewrite (nth_map 0).
by rewrite !nth_default ?size_map // rmorph0.
Qed.

Lemma canonQ_map (f : seq Z) : canonZ f -> canonQ (List.map Qc_ofZ f).
Proof.
rewrite /canonZ /canonQ Lmap_eq; case: f => [|x f] //; rewrite !canon_last //=.
by rewrite (last_map Qc_ofZ) -(rmorph0 Qc_ofZ_rmorphism) (inj_eq Qc_ofZ_inj).
Qed.

(** [C] on integer inputs the rational routine returns the image of the integer routine's value
    (whenever the integer run had exactness flag true): both equal the Sylvester determinant. *)
Theorem resultant_rational_agrees_partial m (f g : seq Z) v :
  ResProofs.canonb f = true -> ResProofs.canonb g = true ->
  ResProofs.len_ok f = true -> ResProofs.len_ok g = true ->
  f <> [::] -> g <> [::] ->
  Resultant.resultant m f g = (true, Done v) ->
  resultant_rational m (List.map Qc_ofZ f) (List.map Qc_ofZ g) = Done (Qc_ofZ v).
Proof.
move=> cbf cbg lf lg nf ng Rv.
have cf : canonZ f by rewrite -canonb_canonZ. have cg : canonZ g by rewrite -canonb_canonZ.
set fq := List.map Qc_ofZ f; set gq := List.map Qc_ofZ g.
have cfq : ResProofs.qcanonb fq = true by rewrite qcanonb_canonQ; apply: canonQ_map.
have cgq : ResProofs.qcanonb gq = true by rewrite qcanonb_canonQ; apply: canonQ_map.
have lfq : ResProofs.len_ok fq = true by move: lf; rewrite /ResProofs.len_ok /fq List.map_length.
have lgq : ResProofs.len_ok gq = true by move: lg; rewrite /ResProofs.len_ok /gq List.map_length.
have nfq : fq <> [::] by rewrite /fq; case: (f) nf.
have ngq : gq <> [::] by rewrite /gq; case: (g) ng.
have [w Ew] := ResProofs3.resultant_rational_total m fq gq cfq cgq lfq lgq.
rewrite Ew; congr Done.
rewrite (resultant_rational_spec cfq cgq lfq lgq nfq ngq Ew) !Poly_map_ofZ.
rewrite (resultant_int_partial cbf cbg lf lg nf ng Rv).
rewrite -[LHS]/(mxpoly.resultant _ _) -[X in _ = Qc_ofZ X]/(mxpoly.resultant _ _).
have nzF : Poly f != 0 by rewrite canon_Poly_eq0 //; apply/eqP.
have nzG : Poly g != 0 by rewrite canon_Poly_eq0 //; apply/eqP.
rewrite -(@map_resultant_gen _ _ Qc_ofZ_rmorphism) //.
- by rewrite -(rmorph0 Qc_ofZ_rmorphism) (inj_eq Qc_ofZ_inj) lead_coef_eq0.
- by rewrite -(rmorph0 Qc_ofZ_rmorphism) (inj_eq Qc_ofZ_inj) lead_coef_eq0.
Qed.
