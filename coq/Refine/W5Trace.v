(** * W5Trace: C08, the trace-map splitting of [final_split_2] succeeds within deg f / 2 attempts (spec level).

    Over F_2: [trk k u] = u + u^2 + ... + u^(2^(k-1)) (the value of the loop [c = c*c + t]). For a square-free f
    whose irreducible factors all have degree d, and deg f > d (at least two factors):
    there is an odd m < deg f such that neither f | trk d (x^m) nor f | trk d (x^m) + 1, i.e. gcd(f, trk d (x^m))
    is a proper divisor. Proof: the set C of the u with f | trk d u or f | trk d u + 1 is closed under addition,
    squaring and congruence modulo f and contains 1; if it contained x^m for every odd m < deg f it would contain
    every polynomial; but the trace F_2[x]/(g) -> F_2 is onto for an irreducible factor g (a polynomial of degree
    2^(d-1) has at most 2^(d-1) roots in the field F_2[x]/(g) of 2^d elements, MathComp [irredp_FAdjoin]), and
    the Chinese remainder theorem gives w with trace 1 modulo g and 0 modulo f / g. (ssreflect) *)
From mathcomp Require Import all_ssreflect all_algebra all_field.
From mathcomp Require Import zify.
From RNT.Refine Require Import FmpField FmpIrred.
Set Implicit Arguments. Unset Strict Implicit. Unset Printing Implicit Defensive.
Import GRing.Theory.
Local Open Scope ring_scope.

(** ** the iteration c -> c^2 + u *)
Fixpoint trk (R : ringType) (k : nat) (u : R) : R := if k is k'.+1 then trk k' u ^+ 2 + u else 0.

Lemma trk_morph (R S : ringType) (phi : {rmorphism R -> S}) k u : phi (trk k u) = trk k (phi u).
Proof. by elim: k => [|k IH] /=; rewrite ?rmorph0 // rmorphD rmorphX IH. Qed.

Section Char2.
Variable R : comRingType.
Hypothesis char2 : 2%N \in [char R].

Lemma add2 (a : R) : a + a = 0.
Proof. by rewrite -mulr2n (mulrn_char char2). Qed.

Lemma sqrD2 (a b : R) : (a + b) ^+ 2 = a ^+ 2 + b ^+ 2.
Proof. by rewrite sqrrD (mulrn_char char2) addr0. Qed.

Lemma trk_add k (u v : R) : trk k (u + v) = trk k u + trk k v.
Proof. by elim: k => [|k IH] /=; rewrite ?addr0 // IH sqrD2 addrACA. Qed.

Lemma trk_sq k (u : R) : trk k (u ^+ 2) = trk k u ^+ 2.
Proof. by elim: k => [|k IH] /=; rewrite ?expr0n // IH sqrD2. Qed.

Lemma trk_frob k (u : R) : trk k u ^+ 2 + trk k u = u ^+ (2 ^ k) + u.
Proof.
elim: k => [|k IH] /=; first by rewrite expr0n /= add0r expn0 expr1 add2.
rewrite sqrD2 addrACA -sqrD2 IH sqrD2 -exprM -expnSr.
by rewrite -addrA [u ^+ 2 + _]addrA add2 add0r.
Qed.

Lemma trk1 k : trk k (1 : R) = 0 \/ trk k (1 : R) = 1.
Proof.
elim: k => [|k [IH|IH]] /=; [by left | right | left]; rewrite IH.
- by rewrite expr0n /= add0r.
- by rewrite expr1n add2.
Qed.

End Char2.

(** ** the residue field of an irreducible polynomial over F_n, as an evaluation morphism *)
Section Residue.
Variable n : nat.
Hypothesis n_prime : prime n.
Let F := [finFieldType of 'F_n].
Variable g : {poly 'F_n}.
Hypothesis irr_g : irreducible_poly g.
Let m := (size g).-1.

Lemma residue_field :
  exists (L : finFieldType) (phi : {rmorphism {poly 'F_n} -> L}),
    [/\ #|L| = (n ^ m)%N, n \in [char L], forall q, (phi q == 0) = (g %| q)
      & forall a : L, exists u, a = phi u].
Proof.
have [L dimL [z rz genz]] := @irredp_FAdjoin F g irr_g.
pose FL := FinFieldExtType L.
have cardL : #|FL| = (n ^ m)%N.
{ have H := @card_vspace F FL _ (fullv : {vspace L}).
  rewrite dimL card_Fn // in H. rewrite -H. apply: eq_card => x. by rewrite memvf. }
pose phi : {rmorphism {poly 'F_n} -> FL} :=
  [rmorphism of horner_eval (z : FL) \o map_poly (in_alg L)].
have phiE q : phi q = (map_poly (in_alg L) q).[z] by [].
exists FL, phi; split=> //.
- by apply: (rmorph_char [rmorphism of in_alg L]); exact: char_Fp.
- move=> q; apply/eqP/idP => [E|/dvdpP [k ->]]; last by rewrite rmorphM [phi g]phiE (rootP rz) mulr0.
  apply/negPn/negP => N.
  have /Bezout_eq1_coprimepP [[u v] /= E1] := irred_coprime irr_g N.
  have := congr1 phi E1; rewrite rmorphD !rmorphM rmorph1 E mulr0 addr0 [phi g]phiE (rootP rz) mulr0.
  by move/eqP; rewrite eq_sym oner_eq0.
- move=> a; have : a \in <<1; z>>%VS by rewrite genz memvf.
  by case/Fadjoin_polyP => h0 /polyOver1P [h ->] ->; exists h.
Qed.

End Residue.

Lemma size_trkX (K : idomainType) k : size (trk k.+1 ('X : {poly K})) = (2 ^ k).+1.
Proof.
elim: k => [|k IH]; first by rewrite /= expr0n /= add0r size_polyX.
set T := trk k.+1 'X in IH *.
have T0 : T != 0 by rewrite -size_poly_eq0 IH.
have sT2 : size (T ^+ 2) = (2 ^ k.+1).+1.
  by rewrite (polySpred (expf_neq0 2 T0)) size_exp IH /= expnSr.
rewrite [trk _ _]/= -/T size_addl ?sT2 // size_polyX ltnS.
by rewrite -[X in (X < _)%N](expn0 2) ltn_exp2l.
Qed.

Lemma horner_trkX (K : comRingType) k (y : K) : (trk k ('X : {poly K})).[y] = trk k y.
Proof. by elim: k => [|k IH] /=; rewrite ?horner0 // hornerD horner_exp IH hornerX. Qed.

Section Split.
Variable n : nat.
Hypothesis n_prime : prime n.
Hypothesis n2 : n = 2%N.
Implicit Types (g h u v w : {poly 'F_n}).

Let char2P : 2%N \in [char {poly 'F_n}].
Proof. by rewrite -{1}n2; exact: charFX. Qed.

Lemma F2_cases (c : 'F_n) : c = 0 \/ c = 1.
Proof.
have e k : k = n -> c ^+ k = c by move=> ->; exact: Fp_exp_n.
have := e 2%N (esym n2); rewrite expr2 => h.
have : c * (c - 1) == 0 by rewrite mulrBr mulr1 h subrr.
by rewrite mulf_eq0 subr_eq0 => /orP [/eqP ->|/eqP ->]; [left | right].
Qed.

(** the trace F_2[x]/(g) -> F_2 is not identically zero *)
Lemma trace_onto g : irreducible_poly g -> exists u, ~~ (g %| trk (size g).-1 u).
Proof.
move=> irr; have [L [phi [cardL charL ker sur]]] := residue_field n_prime irr.
set m := (size g).-1 in cardL *.
have m0 : (0 < m)%N by case: irr => s1 _; rewrite /m; move: (size g) s1 => x; lia.
pose P : {poly L} := trk m 'X.
have sP : size P = (2 ^ m.-1).+1 by rewrite /P -{1}(prednK m0) size_trkX.
have P0 : P != 0 by rewrite -size_poly_eq0 sP.
case: (boolP (all (root P) (enum L))) => [Rts|/allPn [a _ nr]].
  have cardL2 : #|L| = (2 ^ m)%N by rewrite cardL; congr (_ ^ _)%N.
  have := max_poly_roots P0 Rts (enum_uniq L).
  by rewrite -cardE cardL2 sP ltnS leq_exp2l //; move: (m) m0 => x; lia.
have [u ua] := sur a; exists u.
by rewrite -ker trk_morph -ua -horner_trkX.
Qed.

Lemma trk_dvd h k u : h %| u -> h %| trk k u.
Proof. by move=> hu; elim: k => [|k IH] /=; rewrite ?dvdp0 // dvdp_add // dvdp_exp. Qed.

Variable f : {poly 'F_n}.
Variable d : nat.
Hypothesis sqf : sqfreep f.
Hypothesis degs : forall g, irreducible_poly g -> g %| f -> (size g).-1 = d.
Hypothesis big : (d < (size f).-1)%N.

Definition inC u : bool := (f %| trk d u) || (f %| trk d u + 1).

Lemma inC_add u v : inC u -> inC v -> inC (u + v).
Proof.
rewrite /inC trk_add // => /orP [hu|hu] /orP [hv|hv]; apply/orP.
- by left; rewrite dvdp_add.
- by right; rewrite -addrA dvdp_add.
- by right; rewrite addrAC dvdp_add.
- left; have := dvdp_add hu hv.
  by rewrite addrACA (add2 char2P) addr0.
Qed.

Lemma inC_sq u : inC u -> inC (u ^+ 2).
Proof.
rewrite /inC trk_sq // => /orP [hu|hu]; apply/orP; [left | right].
- by rewrite dvdp_exp.
- by have := dvdp_exp (isT : (0 < 2)%N) hu; rewrite sqrD2 // expr1n.
Qed.

Lemma inC_1 : inC 1.
Proof. by rewrite /inC; case: (trk1 char2P d) => ->; rewrite ?dvdp0 // (add2 char2P) dvdp0 orbT. Qed.

Lemma inC_0 : inC 0.
Proof. by rewrite /inC (trk_dvd _ (dvdp0 f)). Qed.

Lemma inC_mod u v : f %| u - v -> inC u -> inC v.
Proof.
move=> huv hu.
have negv : - v = v by rewrite -[LHS]addr0 -(add2 char2P v) addrA addNr add0r.
have -> : v = u + (u - v) by rewrite addrA (add2 char2P) add0r negv.
apply: inC_add => //; rewrite /inC; apply/orP; left; exact: trk_dvd.
Qed.

(** ** f divides u^(2^d) + u, hence trk d u (trk d u + 1); the two ways the gcd test can fail *)
Lemma sqfree_dvd_all (f' h : {poly 'F_n}) : sqfreep f' ->
  (forall g, irreducible_poly g -> g %| f' -> g %| h) -> f' %| h.
Proof.
move: {2}(size f') (leqnn (size f')) => k; elim: k f' => [|k IH] f' sk sq' hg.
  by have := sqfreep_neq0 sq'; rewrite -size_poly_gt0; move: (size f') sk => x; lia.
case: (leqP (size f') 1) => s1.
  have f0' := sqfreep_neq0 sq'.
  have : size f' == 1%N by move: s1 (size_poly_gt0 f'); rewrite f0'; move: (size f') => x; lia.
  by rewrite size_poly_eq1 => e; rewrite (eqp_dvdl _ e) dvd1p.
have [g irr gf] := irred_dvd_exists s1.
have /dvdpP [q ef] := gf.
have f0' := sqfreep_neq0 sq'.
have q0 : q != 0 by apply: contraNneq f0' => e; rewrite ef e mul0r.
have g0 : g != 0 by apply: contraNneq f0' => e; rewrite ef e mulr0.
have cqg : coprimep q g by apply: (@sqfreep_coprime n); rewrite -ef.
have sq : (size q <= k)%N.
  have [sg _] := irr; move: sk; rewrite ef size_mul //.
  by move: (size q) (size g) sg => x y; lia.
have qf : q %| f' by rewrite ef dvdp_mulr.
rewrite ef Gauss_dvdp //; apply/andP; split; last exact: hg.
apply: IH => //; first exact: sqfreep_dvd qf.
by move=> g' irr' gq; apply: hg => //; exact: dvdp_trans qf.
Qed.

Lemma frob_dvd u : f %| u ^+ (2 ^ d) + u.
Proof.
apply: sqfree_dvd_all => // g irr gf.
have [L [phi [cardL charL ker sur]]] := residue_field n_prime irr.
rewrite (degs irr gf) in cardL.
have cardL2 : #|L| = (2 ^ d)%N by rewrite cardL; congr (_ ^ _)%N.
have char2L : 2%N \in [char L] by move: charL; rewrite [X in X \in _]n2.
by rewrite -ker rmorphD rmorphX -cardL2 expf_card (add2 char2L).
Qed.

Lemma inC_of_coprime u : coprimep f (trk d u) -> inC u.
Proof.
move=> co; rewrite /inC; apply/orP; right.
have := frob_dvd u; rewrite -(trk_frob char2P) -{2}[trk d u]mulr1 expr2 -mulrDr.
by rewrite Gauss_dvdpr.
Qed.

Lemma inC_of_dvd u : f %| trk d u -> inC u.
Proof. by rewrite /inC => ->. Qed.

(** a polynomial with trace 1 modulo one irreducible factor and 0 modulo the cofactor *)
Lemma witness : exists w, ~~ inC w.
Proof.
have f0 := sqfreep_neq0 sqf.
have sf : (1 < size f)%N by move: big; move: (size f) => x; lia.
have [g irr gf] := irred_dvd_exists sf.
have dg := degs irr gf.
have /dvdpP [h ef] := gf.
have cgh : coprimep h g by apply: (@sqfreep_coprime n); rewrite -ef.
have h0 : h != 0 by apply: contraNneq f0 => e; rewrite ef e mul0r.
have g0 : g != 0 by apply: contraNneq f0 => e; rewrite ef e mulr0.
have sh : (1 < size h)%N.
  move: big; rewrite ef size_mul // -dg.
  by move: (size h) (size g) (size_poly_gt0 h); rewrite h0 => x y; lia.
have [u1 nu1] := trace_onto irr; rewrite dg in nu1.
have /Bezout_eq1_coprimepP [[a b] /= eab] := cgh.
pose w := u1 * (a * h).
have gw : g %| w - u1.
  have -> : w - u1 = - (u1 * b) * g.
    rewrite /w -[X in _ - X]mulr1 -eab; move: (a * h) (b * g) (mulrA u1 b g) => x y e.
    by rewrite mulrDr opprD addrA subrr add0r mulNr -e.
  exact: dvdp_mull.
have hw : h %| w by rewrite /w mulrA dvdp_mull.
exists w; rewrite /inC negb_or; apply/andP; split; apply/negP => fw.
- have gt : g %| trk d w by apply: dvdp_trans fw.
  move/negP: nu1; apply.
  have := trk_add char2P d u1 (w - u1); rewrite addrCA subrr addr0 => e.
  by move: gt; rewrite e dvdp_addl // trk_dvd.
- have ht : h %| trk d w + 1 by apply: dvdp_trans fw; rewrite ef dvdp_mulr.
  have : h %| 1 by move: ht; rewrite dvdp_addr // trk_dvd.
  by rewrite dvdp1; move: (size h) sh => x; lia.
Qed.

(** ** some odd power of x below deg f splits f *)
Theorem trace_split_exists : exists m, [/\ odd m, (m < (size f).-1)%N & ~~ inC 'X^m].
Proof.
set N := (size f).-1.
case: (boolP [forall i : 'I_N, odd i ==> inC 'X^i]) => [/forallP H|].
  exfalso.
  have Hodd m : odd m -> (m < N)%N -> inC 'X^m.
    by move=> om lt; have := H (Ordinal lt); rewrite /= om.
  have Hpow m : (m < N)%N -> inC 'X^m.
    elim/ltn_ind: m => m IH lt.
    case: (boolP (odd m)) => [om|ev]; first exact: Hodd.
    case: m IH lt ev => [|m] IH lt ev; first by rewrite expr0 inC_1.
    have e2 : m.+1 = (m.+1./2 * 2)%N by rewrite -{1}(odd_double_half m.+1) (negbTE ev) muln2.
    rewrite e2 exprM; apply: inC_sq; apply: IH; rewrite -?e2.
    - by rewrite -divn2 ltn_Pdiv.
    - by apply: leq_ltn_trans lt; rewrite -divn2 leq_div.
  have Hsmall u : (size u <= N)%N -> inC u.
    move=> su; rewrite -[u]coefK poly_def.
    elim/big_ind: _ => [||i _]; [exact: inC_0 | exact: inC_add |].
    case: (F2_cases u`_i) => ->; first by rewrite scale0r inC_0.
    by rewrite scale1r; apply: Hpow; apply: leq_trans su.
  have f0 := sqfreep_neq0 sqf.
  have Hall u : inC u.
    apply: (@inC_mod (u %% f)).
      by rewrite {2}(divp_eq u f) opprD addrCA subrr addr0 dvdpNr dvdp_mull.
    by apply: Hsmall; rewrite -ltnS /N prednK ?ltn_modp // size_poly_gt0.
  by have [w] := witness; rewrite Hall.
rewrite negb_forall => /existsP [i]; rewrite negb_imply => /andP [oi ni].
by exists i.
Qed.

End Split.

(** ** summary *)
Theorem trace_split_spec (n : nat) (f : {poly 'F_n}) (d : nat) : prime n -> n = 2%N -> sqfreep f ->
  (forall g, irreducible_poly g -> g %| f -> (size g).-1 = d) -> (d < (size f).-1)%N ->
  exists m, [/\ odd m, (m < (size f).-1)%N, ~~ coprimep f (trk d 'X^m) & ~~ (f %| trk d 'X^m)].
Proof.
move=> np n2 sq dg big; have [m [om lt ni]] := trace_split_exists np n2 sq dg big.
exists m; split=> //; apply: contra ni.
- exact: inC_of_coprime.
- exact: inC_of_dvd.
Qed.
