(** * [poly_divrem]: division with remainder modulo a prime (ssreflect + mczify + algebra-tactics). *)
From Coq Require Import ZArith List Lia Znumtheory.
From mathcomp Require Import all_ssreflect ssralg poly.
From RNT.Model Require Import Base Poly PolyModP.
From RNT.Refine Require Import PolyModPArith PolyModPDivList FermatZ PolyZmod.
From mathcomp Require Import ssrZ zify ring.
Set Implicit Arguments. Unset Strict Implicit. Unset Printing Implicit Defensive.
Import GRing.Theory.
Local Open Scope ring_scope.

(** ** modinv for a prime modulus *)

Lemma modinv_spec p x r :
  Znumtheory.prime p -> ~ (p | x)%ZZ -> modinv x p = Done r -> Z.modulo (Z.mul r x) p = 1%ZZ.
Proof.
  move=> Hp Hx H. have Hp2 := prime_ge_2 _ Hp.
  case: (Z.eq_dec p 2) => [E|E].
  - move: H. rewrite E /modinv /=. case=> <-. rewrite Z.mul_1_l.
    have B := Z.mod_pos_bound x 2 ltac:(lia).
    have : Z.modulo x 2 <> 0%ZZ.
    { move=> H0. apply: Hx. rewrite E. apply: Zmod_divide; lia. }
    lia.
  - apply: modinv_spec_cond H; first lia. exact: fermat_Z.
Qed.

(** ** One elimination step as a congruence of polynomials *)

Lemma PZ_sub_scaled_mod_at tmp i c b p :
  p <> 0%ZZ -> (i + length b <= length tmp)%coq_nat ->
  eqpm p (PZ (sub_scaled_mod_at tmp i c b p)) (PZ tmp - c%:P * 'X^i * PZ b).
Proof.
  move=> Hp Hl. apply: eqpm_of_coef => k.
  rewrite coefB -mulrA coefCM coefXnM !coefPZ sub_scaled_mod_at_nth //.
  case: (Nat.leb_spec i k) => Hik; case: (Nat.ltb_spec k (i + length b)) => Hkb /=.
  - have -> : (k < i)%nat = false by lia.
    rewrite Z.mod_mod //.
  - have -> : (k < i)%nat = false by lia.
    have -> : List.nth (k - i)%nat b Z0 = Z0 by apply: List.nth_overflow; lia.
    congr Z.modulo. lia.
  - have -> : (k < i)%nat = true by lia. congr Z.modulo. lia.
  - lia.
Qed.

(** ** The loop invariant *)

Lemma divrem_loop_eqpm i : forall b invlc p tmp quo q r,
  p <> 0%ZZ -> (i + length b <= length tmp)%coq_nat ->
  divrem_loop i (length b - 1) b invlc p tmp quo = (q, r) ->
  eqpm p (PZ tmp + PZ quo * 'X^i.+1 * PZ b) (PZ r + PZ q * PZ b).
Proof.
  elim: i => [|i IH] b invlc p tmp quo q r Hp Hl /=.
  - case=> <- <-.
    set coef := Z.modulo _ p.
    have [k Hk] := @PZ_sub_scaled_mod_at tmp 0 coef b p Hp Hl.
    rewrite Hk PZ_cons. exists (- k). rewrite expr0 expr1. ring.
  - set coef := Z.modulo _ p. move=> H.
    have Hl' : (i + length b <= length (sub_scaled_mod_at tmp i.+1 coef b p))%coq_nat.
    { rewrite sub_scaled_mod_at_length. lia. }
    have [k1 Hk1] := IH _ _ _ _ _ _ _ Hp Hl' H.
    have [k Hk] := @PZ_sub_scaled_mod_at tmp i.+1 coef b p Hp Hl.
    rewrite Hk PZ_cons in Hk1.
    exists (k1 - k).
    have E : PZ r + PZ q * PZ b
             = PZ tmp - coef%:P * 'X^i.+1 * PZ b + p%:P * k + (PZ quo * 'X + coef%:P) * 'X^i.+1 * PZ b - p%:P * k1
      by rewrite Hk1 addrK.
    rewrite E (exprS 'X i.+1). ring.
Qed.

(** ** [poly_divrem] *)

Lemma prime_not_dvd_nz p x : Znumtheory.prime p -> ~ (p | x)%ZZ -> x <> 0%ZZ.
Proof. move=> Hp Hx E. apply: Hx. rewrite E. exact: Z.divide_0_r. Qed.

(** The general branch of [poly_divrem], unfolded. *)
Lemma poly_divrem_unfold a b p :
  a <> [::] -> b <> [::] -> (length b <= length a)%coq_nat -> List.last b Z0 <> Z0 -> p <> Z0 ->
  exists invlc, modinv (List.last b Z0) p = Done invlc /\
  poly_divrem a b p =
  Done (let '(q, r) := divrem_loop (length a - length b) (length b - 1) b invlc p a [::] in
        (from_raw opsZ q, from_raw opsZ r)).
Proof.
  move=> Ha Hb Hl Hlc Hp.
  have [invlc Hi] := modinv_total (List.last b Z0) p.
  exists invlc; split => //.
  rewrite /poly_divrem.
  case: a Ha Hl => [|a0 a'] // _ Hl. case: b Hb Hl Hlc Hi => [|b0 b'] // _ Hl Hlc Hi.
  have -> : Nat.ltb (length (a0 :: a')) (length (b0 :: b')) = false by apply/Nat.ltb_ge.
  rewrite Hi. rewrite /assert_.
  have -> : (List.last (b0 :: b') Z0 =? 0)%ZZ = false by apply/Z.eqb_neq.
  rewrite /= . have -> : (p =? 0)%ZZ = false by apply/Z.eqb_neq.
  by case: (divrem_loop _ _ _ _ _ _ _).
Qed.

(** [P] [poly_divrem] never panics or runs out of fuel for a prime modulus and a canonical
    divisor whose leading coefficient is not divisible by p. *)
Lemma poly_divrem_total a b p :
  Znumtheory.prime p -> ~ (p | List.last b Z0)%ZZ -> exists q r, poly_divrem a b p = Done (q, r).
Proof.
  move=> Hp Hlc. have Hp2 := prime_ge_2 _ Hp.
  case: a => [|a0 a']; first by (do 2 eexists; reflexivity).
  case: b Hlc => [|b0 b'] Hlc; first by (do 2 eexists; reflexivity).
  case E: (Nat.ltb (length (a0 :: a')) (length (b0 :: b'))).
  - do 2 eexists. by rewrite /poly_divrem E.
  - move/Nat.ltb_ge: E => E.
    have [invlc [_ ->]] := @poly_divrem_unfold (a0 :: a') (b0 :: b') p ltac:(discriminate) ltac:(discriminate) E
                             (prime_not_dvd_nz Hp Hlc) ltac:(lia).
    case: (divrem_loop _ _ _ _ _ _ _) => q r. by do 2 eexists.
Qed.

(** [P] [poly_divrem_spec]. *)
Definition divrem_post (a b : list Z) (p : Z) (q r : list Z) : Prop :=
  eqpm p (PZ a) (PZ q * PZ b + PZ r) /\
  (canonical a -> canonical r) /\ canonical q /\ in_range p q /\
  ((length b <= length a)%coq_nat \/ a = [::] -> (length r < length b)%coq_nat /\ canonical r /\ in_range p r) /\
  ((length a < length b)%coq_nat -> q = [::] /\ r = a).

Lemma divrem_triv_post a b p :
  b <> [::] -> (length a < length b)%coq_nat \/ a = [::] -> divrem_post a b p (from_mono opsZ Z0) a.
Proof.
  move=> Hb Hl. rewrite /divrem_post PZ_from_mono /from_mono /=.
  have Lb : (0 < length b)%coq_nat by case: (b) Hb => //= *; lia.
  split; first by (exists 0; ring).
  split; first by [].
  split; first by [].
  split; first by constructor.
  split; last by [].
  case=> [H|H].
  - case: Hl => Hl; first lia. subst a. move: H => /=. lia.
  - subst a. split; first by []. split; first by []. by constructor.
Qed.

Lemma poly_divrem_spec_inv a b p q r :
  (0 < p)%ZZ -> b <> [::] -> List.last b Z0 <> Z0 ->
  (forall iv, modinv (List.last b Z0) p = Done iv -> Z.modulo (Z.mul iv (List.last b Z0)) p = 1%ZZ) ->
  poly_divrem a b p = Done (q, r) -> divrem_post a b p q r.
Proof.
  move=> Hpp Hb Hlc0 Hmi.
  have Hp0 : p <> Z0 by lia.
  case: a => [|a0 a'].
  - rewrite /poly_divrem. case=> <- <-. apply: divrem_triv_post => //. by right.
  - case E: (Nat.ltb (length (a0 :: a')) (length b)).
    + have -> : poly_divrem (a0 :: a') b p = Done (from_mono opsZ Z0, a0 :: a').
      { rewrite /poly_divrem. case: b Hb E {Hlc0 Hmi} => [|b0 b'] // _ ->. by []. }
      case=> <- <-. apply: divrem_triv_post => //. left. exact/Nat.ltb_lt.
    + move/Nat.ltb_ge: E => E.
      have [invlc [Hinv ->]] := @poly_divrem_unfold (a0 :: a') b p ltac:(discriminate) Hb E Hlc0 Hp0.
      case EL: (divrem_loop _ _ _ _ _ _ _) => [q0 r0]. case=> <- <-.
      have Hl : (length (a0 :: a') - length b + length b <= length (a0 :: a'))%coq_nat.
      { move: (length (a0 :: a')) (length b) E => x y E. lia. }
      have Hinv1 : Z.modulo (Z.mul (List.nth (length b - 1) b Z0) invlc) p = 1%ZZ.
      { rewrite -last_nth_len Z.mul_comm. exact: Hmi Hinv. }
      have I1 := @divrem_loop_eqpm _ _ _ _ _ _ _ _ Hp0 Hl EL.
      have Hz : forall k, (length (a0 :: a') - length b + length b <= k)%coq_nat -> List.nth k (a0 :: a') Z0 = Z0.
      { move=> k Hk. apply: List.nth_overflow. lia. }
      have [T1 T2] := @divrem_loop_top _ _ _ _ _ _ _ _ Hpp Hb Hinv1 Hl Hz EL.
      have [L1 L2] := divrem_loop_length _ _ _ _ _ _ _ _ _ EL.
      have Q := @divrem_loop_quo_range _ _ _ _ _ _ _ _ _ Hpp (List.Forall_nil _) EL.
      have Lb : (0 < length b)%coq_nat by case: (b) Hb => //= *; lia.
      split.
      { rewrite !PZ_from_raw. move: I1. rewrite /PZ /= -/(PZ _) mul0r mul0r addr0 => I1.
        apply: eqpm_trans I1 _. rewrite addrC. exact: eqpm_refl. }
      split; first by move=> _; exact: from_raw_canonical.
      split; first exact: from_raw_canonical.
      split; first exact: strip_Forall.
      split; last by lia.
      move=> _. split.
      { have := @strip_short r0 (length b - 1) T1. rewrite /from_raw. lia. }
      split; first exact: from_raw_canonical.
      apply: strip_Forall. apply: Forall_nth_range => k Hk.
      case: (Nat.lt_ge_cases k (length b - 1)) => Hkb; first exact: T2.
      rewrite T1 //; lia.
Qed.

Lemma poly_divrem_spec a b p q r :
  Znumtheory.prime p -> b <> [::] -> ~ (p | List.last b Z0)%ZZ ->
  poly_divrem a b p = Done (q, r) -> divrem_post a b p q r.
Proof.
  move=> Hp Hb Hlc. have Hp2 := prime_ge_2 _ Hp.
  apply: poly_divrem_spec_inv => //; first lia.
  - exact: prime_not_dvd_nz Hlc.
  - move=> iv. exact: modinv_spec.
Qed.

(** The remainder is always shorter than the divisor. *)
Lemma divrem_post_short a b p q r : divrem_post a b p q r -> (length r < length b)%coq_nat.
Proof.
  case=> _ [_ [_ [_ [H1 H2]]]].
  case: (Nat.lt_ge_cases (length a) (length b)) => H.
  - by case: (H2 H) => _ ->.
  - by case: (H1 (or_introl H)).
Qed.

(** Monic divisor, any modulus > 1. *)
Lemma modinv_1 p iv : (1 < p)%ZZ -> modinv 1%ZZ p = Done iv -> iv = 1%ZZ.
Proof.
  move=> Hp H. rewrite /modinv in H.
  case: (Z.eq_dec p 2) => [E|E]; first by move: H; rewrite E /=; case.
  have := @modpow_spec 1%ZZ (p - 2)%ZZ p iv ltac:(lia) ltac:(lia) ltac:(lia) H.
  have -> : ((p - 2)%ZZ =? 0)%ZZ = false by apply/Z.eqb_neq; lia.
  rewrite Z.pow_1_l; last lia. rewrite Z.mod_small //; lia.
Qed.

Lemma poly_divrem_spec_monic a b p q r :
  (1 < p)%ZZ -> List.last b Z0 = 1%ZZ ->
  poly_divrem a b p = Done (q, r) -> divrem_post a b p q r.
Proof.
  move=> Hp Hm. have Hb : b <> [::] by move=> E; move: Hm; rewrite E.
  apply: poly_divrem_spec_inv => //; first lia.
  - by rewrite Hm.
  - move=> iv. rewrite Hm => /(modinv_1 Hp) ->. rewrite Z.mod_small //; lia.
Qed.

Lemma poly_divrem_total_gen a b p :
  p <> Z0 -> List.last b Z0 <> Z0 -> exists q r, poly_divrem a b p = Done (q, r).
Proof.
  move=> Hp Hlc.
  case: a => [|a0 a']; first by (do 2 eexists; reflexivity).
  case: b Hlc => [|b0 b'] Hlc; first by (do 2 eexists; reflexivity).
  case E: (Nat.ltb (length (a0 :: a')) (length (b0 :: b'))).
  - do 2 eexists. by rewrite /poly_divrem E.
  - move/Nat.ltb_ge: E => E.
    have [invlc [_ ->]] := @poly_divrem_unfold (a0 :: a') (b0 :: b') p ltac:(discriminate) ltac:(discriminate) E Hlc Hp.
    case: (divrem_loop _ _ _ _ _ _ _) => q r. by do 2 eexists.
Qed.
