(** * PolyZFactorEnum: C07, the subset enumeration of the recombination loop.

    The Rust code runs [for bits in 0usize..1 << len] and skips the masks whose [count_ones()] differs
    from [d]. The model's [find_subset] does not count to [2^len]; here it is shown to try exactly the
    same masks in the same order: [find_subset m d [::] test] is the first success of [test] over
    [masks m d], the list of the bit sets of [k = 0, 1, ..., 2^m - 1] with [d] bits among the low [m]. *)
From RNT.Model Require Import Base PolyZFactor.
From mathcomp Require Import all_ssreflect.
Set Implicit Arguments.
Unset Strict Implicit.
Unset Printing Implicit Defensive.
Local Open Scope nat_scope.

(** bit [i] of [k] ([bits & (1 << i) != 0]) *)
Definition bit (k i : nat) : bool := odd (k %/ 2 ^ i).
(** the set bits below [m], ascending: the indices the inner [for i in 0..len] loop multiplies in *)
Definition bits_of (m k : nat) : seq nat := [seq i <- iota 0 m | bit k i].
(** [count_ones] (of a mask below [2^m]) *)
Definition popcount (m k : nat) : nat := size (bits_of m k).
(** what the Rust loop visits, in its order *)
Definition masks (m d : nat) : seq (seq nat) :=
  [seq bits_of m k | k <- iota 0 (2 ^ m) & popcount m k == d].

(** the list the model's recursion visits *)
Fixpoint combs (m d : nat) (acc : seq nat) : seq (seq nat) :=
  match d with
  | O => [:: acc]
  | S d' =>
    match m with
    | O => [::]
    | S m' => if m < d then [::] else combs m' d acc ++ combs m' d' (m' :: acc)
    end
  end.

Fixpoint first_success {R : Type} (test : list nat -> outcome (option R)) (l : seq (seq nat))
  : outcome (option (list nat * R)) :=
  match l with
  | [::] => Done None
  | idx :: t =>
    bind (test idx) (fun r => match r with
                              | Some x => Done (Some (idx, x))
                              | None => first_success test t
                              end)
  end.

Lemma first_success_cat R (test : list nat -> outcome (option R)) l1 l2 :
  first_success test (l1 ++ l2) =
  bind (first_success test l1) (fun r => match r with
                                         | Some x => Done (Some x)
                                         | None => first_success test l2
                                         end).
Proof.
elim: l1 => [|idx l1 IH] //=.
by case: (test idx) => [[x|]|t|] //=.
Qed.

Lemma find_subset_combs R m d acc (test : list nat -> outcome (option R)) :
  find_subset m d acc test = first_success test (combs m d acc).
Proof.
elim: m d acc => [|m IH] [|d] acc //=.
- by case: (test acc) => [[x|]|t|].
- by case: (test acc) => [[x|]|t|].
- rewrite ltnS; have -> : (m.+1 <? d.+1)%coq_nat = (m < d).
    by apply/idP/idP => [/Nat.ltb_spec0 /ltP|/ltP /Nat.ltb_spec0].
  case: ifP => // _.
  by rewrite first_success_cat !IH; case: first_success => [[x|]|t|].
Qed.

(** ** the masks below [2^(m+1)]: first those below [2^m] (bit [m] clear), then [2^m + j] *)
Lemma bit_low m k i : k < 2 ^ m -> m <= i -> bit k i = false.
Proof.
move=> lt le; rewrite /bit divn_small //.
by apply: leq_trans lt _; rewrite leq_exp2l.
Qed.

Lemma bit_high m j i : i < m -> bit (2 ^ m + j) i = bit j i.
Proof.
move=> lt; rewrite /bit divnDl ?dvdn_exp2l 1?ltnW // -expnB 1?ltnW // oddD oddX.
by rewrite subn_eq0 leqNgt lt.
Qed.

Lemma bit_top m j : j < 2 ^ m -> bit (2 ^ m + j) m = true.
Proof. by move=> lt; rewrite /bit divnDl ?dvdnn // divnn expn_gt0 /= divn_small. Qed.

Lemma bits_of_low m k : k < 2 ^ m -> bits_of m.+1 k = bits_of m k.
Proof.
by move=> lt; rewrite /bits_of -[m.+1]addn1 iotaD filter_cat /= add0n (bit_low lt) // cats0.
Qed.

Lemma bits_of_high m j : j < 2 ^ m -> bits_of m.+1 (2 ^ m + j) = bits_of m j ++ [:: m].
Proof.
move=> lt; rewrite /bits_of -[m.+1]addn1 iotaD filter_cat /= add0n bit_top //; congr (_ ++ _).
by apply: eq_in_filter => i; rewrite mem_iota add0n => /andP [_ /bit_high ->].
Qed.

Lemma map_filter_in (T U : eqType) (f g : T -> U) (p q : pred T) (s : seq T) :
  (forall x, x \in s -> f x = g x /\ p x = q x) ->
  [seq f x | x <- s & p x] = [seq g x | x <- s & q x].
Proof.
move=> h; rewrite (@eq_in_filter _ p q); last by move=> x /h [].
by apply/eq_in_map => x; rewrite mem_filter => /andP [_ /h []].
Qed.

Lemma masksS m d :
  masks m.+1 d = masks m d ++ (if d is d'.+1 then [seq idx ++ [:: m] | idx <- masks m d'] else [::]).
Proof.
rewrite /masks expnS mul2n -addnn iotaD add0n filter_cat map_cat; congr (_ ++ _).
  apply: map_filter_in => k; rewrite mem_iota add0n => /andP [_ lt].
  by rewrite /popcount bits_of_low.
rewrite -{1}[2 ^ m]addn0 iotaDl filter_map -map_comp.
case: d => [|d'].
  rewrite (@eq_in_filter _ _ pred0) ?filter_pred0 // => j; rewrite mem_iota add0n => /andP [_ lt].
  by rewrite /= /popcount bits_of_high // size_cat addn1.
rewrite -map_comp; apply: map_filter_in => j; rewrite mem_iota add0n => /andP [_ lt].
by rewrite /= /popcount bits_of_high // size_cat addn1 eqSS.
Qed.

Lemma masks0 d : masks 0 d = if d is 0 then [:: [::]] else [::].
Proof. by case: d. Qed.

Lemma masks_empty m d : m < d -> masks m d = [::].
Proof.
elim: m d => [|m IH] [|d] //; rewrite ltnS => lt.
by rewrite masksS !IH // ltnW.
Qed.

Lemma masks_d0 m : masks m 0 = [:: [::]].
Proof. by elim: m => [|m IH] //; rewrite masksS IH. Qed.

(** ** the model's recursion visits the masks of the Rust loop, in the same order *)
Lemma combs_masks m d acc : combs m d acc = [seq idx ++ acc | idx <- masks m d].
Proof.
elim: m d acc => [|m IH] [|d] acc //=.
- by rewrite masks_d0.
- case: ifP => [lt|_]; first by rewrite masks_empty.
  rewrite masksS map_cat !IH -map_comp; congr (_ ++ _).
  by apply: eq_map => idx /=; rewrite -catA.
Qed.

Theorem find_subset_masks R m d (test : list nat -> outcome (option R)) :
  find_subset m d [::] test = first_success test (masks m d).
Proof.
rewrite find_subset_combs combs_masks; congr first_success.
by rewrite -[RHS]map_id; apply: eq_map => idx; rewrite cats0.
Qed.

(** the definitions compute what they should: the masks with two of four bits, in increasing order
    3, 5, 6, 9, 10, 12 *)
Example ex_masks : masks 4 2 = [:: [:: 0; 1]; [:: 0; 2]; [:: 1; 2]; [:: 0; 3]; [:: 1; 3]; [:: 2; 3]].
Proof. by vm_compute. Qed.

(** ** the recombination loop terminates on the supplied fuel *)
From RNT.Model Require Import Poly PolyModP.
From mathcomp Require Import zify.

Lemma first_success_mem R (test : list nat -> outcome (option R)) l idx x :
  first_success test l = Done (Some (idx, x)) -> idx \in l.
Proof.
elim: l => [|i l IH] //=.
case: (test i) => [[y|]|t|] //=; first by case=> <- _; rewrite inE eqxx.
by move/IH; rewrite inE orbC => ->.
Qed.

Lemma first_success_fuel R (test : list nat -> outcome (option R)) l :
  (forall idx, test idx <> OutOfFuel) -> first_success test l <> OutOfFuel.
Proof.
move=> ht; elim: l => [|i l IH] //=.
by case et: (test i) => [[y|]|t|] //=; case: (ht i).
Qed.

Lemma eqb_eqn i j : Nat.eqb i j = (i == j).
Proof. by elim: i j => [|i IH] [|j] //=; rewrite IH. Qed.

Lemma existsb_mem i (idx : seq nat) : existsb (Nat.eqb i) idx = (i \in idx).
Proof. by elim: idx => [|j idx IH] //=; rewrite inE IH eqb_eqn. Qed.

Lemma size_remove_indices A (l : seq A) i idx :
  size (remove_indices l i idx) = count (fun j => j \notin idx) (iota i (size l)).
Proof.
elim: l i => [|x l IH] i //=.
by rewrite existsb_mem; case: ifP => _ /=; rewrite IH ?add0n ?add1n.
Qed.

(** a mask of the enumeration removes exactly [d] of the lifted factors *)
Lemma size_remove_mask A (l : seq A) d idx : idx \in masks (size l) d ->
  (size (remove_indices l 0 idx) + d = size l)%N.
Proof.
case/mapP => k; rewrite mem_filter => /andP [/eqP ed _] ->.
rewrite size_remove_indices -ed /popcount /bits_of size_filter.
rewrite -[RHS](size_iota 0) -(count_predC (fun i => bit k i)) addnC; congr (_ + _)%N.
apply: eq_in_count => j hj /=.
by rewrite mem_filter hj andbT.
Qed.

Lemma subset_prod_fuel lifted idx prod pe : subset_prod lifted idx prod pe <> OutOfFuel.
Proof.
elim: idx prod => [|i idx IH] prod //=.
rewrite /nth_chk; case: nth_error => [li|] //=.
rewrite /poly_mod; case: (pmul opsZ prod li) => [|y t] /=; first exact: IH.
by case: ifP => _ //=; exact: IH.
Qed.

Lemma try_subset_fuel md a lca pe pe2 lifted idx : try_subset md a lca pe pe2 lifted idx <> OutOfFuel.
Proof.
rewrite /try_subset.
case es: subset_prod => [prod0|t|] //=; last by case: (subset_prod_fuel es).
rewrite /PolyZFactor.symmetric /u64_norm.
case: ifP => _ /=; last case: md => //=.
- rewrite /poly_mod; case: (padd _ _ _) => [|y t] /=.
    by case: div_exact => [q|] //; case: div_exact.
  by case: ifP => _ //=; case: div_exact => [q|] //; case: div_exact.
- rewrite /poly_mod; case: (padd _ _ _) => [|y t] /=.
    by case: div_exact => [q|] //; case: div_exact.
  by case: ifP => _ //=; case: div_exact => [q|] //; case: div_exact.
Qed.

Theorem recombine_terminates fuel md pe pe2 d a lifted res : (0 < d)%N ->
  (size lifted + ((size lifted)./2 + 1 - d) < fuel)%N ->
  recombine fuel md pe pe2 d a lifted res <> OutOfFuel.
Proof.
elim: fuel d a lifted res => [|fuel IH] d a lifted res d0 hf //=.
case: Nat.leb_spec0 => [/leP le|_] //.
rewrite /assert_; case: ifP => _ //=.
rewrite find_subset_masks.
have eln : length lifted = size lifted by [].
rewrite eln in le *.
case ef: first_success => [[[idx [pp a']]|]|t|] //=.
- have es := size_remove_mask (first_success_mem ef).
  apply: IH => //; move: es hf le d0.
  set n' := size (remove_indices _ _ _); set n := size lifted; lia.
- apply: IH => //; move: hf le d0; set n := size lifted; lia.
- case: (first_success_fuel (fun idx => @try_subset_fuel md a (lead opsZ a) pe pe2 lifted idx) ef).
Qed.

Corollary recombine_fuel_suffices md pe pe2 a lifted :
  recombine (recombine_fuel lifted) md pe pe2 1 a lifted [::] <> OutOfFuel.
Proof.
apply: recombine_terminates => //; rewrite /recombine_fuel.
have -> : length lifted = size lifted by [].
set n := size lifted; lia.
Qed.
