(** * DecompW5Contain (C17, fifth wave): for monic f the order returned by [find_integral_basis] contains Z[theta]:
      there is an integer matrix Sl with Sl * O = identity (the hypothesis of the C17 theorems).
    From C06: the starting order of a monic f contains the power basis ([Round2W3Start.nm_units]) and the returned
    order contains the starting order ([find_integral_basis_contains]).  stdlib + lia. *)
From RNT.Model Require Import Base Poly Algebraic LinAlg MultTable Order Round2.
From RNT.Model Require Hnf Elementary.
From RNT.Refine Require Import MatZ HnfOps HnfSpec HnfMain HnfKernel HnfTotal HnfUnique.
From RNT.Refine Require Import Round2Basic Round2Index Round2Lattice Round2Det Round2Fuel.
From RNT.Refine Require Import Round2W3Ip Round2W3Up Round2W3Step Round2W3Total Round2W3Ring Round2W3Order Round2W3Radical Round2W3Driver Round2W3Start.
From RNT.Refine Require OrderCanon PolyZ Round2W4NoPanic.
From Coq Require Import Lia List Znumtheory QArith Qcanon.
Import ListNotations.
Open Scope Z_scope.

Lemma nth_qmap2 (v w : list Qc) j : length v = length w ->
  nth j (map2 Qcplus v w) q0 = Qcplus (nth j v q0) (nth j w q0).
Proof.
  revert w j; induction v as [|x v IH]; intros [|y w] j H; simpl in *; try discriminate.
  - destruct j; symmetry; apply Qcplus_0_l.
  - destruct j; [reflexivity|]. apply IH. lia.
Qed.

Lemma nth_qscale c (v : list Qc) j : nth j (map (Qcmult (qz c)) v) q0 = Qcmult (qz c) (nth j v q0).
Proof.
  replace q0 with (Qcmult (qz c) q0) at 1 by apply Qcmult_0_r. apply map_nth.
Qed.

(** the entries of an integer combination of rational rows *)
Lemma nth_qlincomb m c A j : OrderCanon.qwf m A -> (j < m)%nat ->
  nth j (OrderCanon.qlincomb m c A) q0 = combQ c A j.
Proof.
  revert A; induction c as [|c0 c IH]; intros [|r A] W Hj; cbn [OrderCanon.qlincomb combQ];
    try (unfold OrderCanon.qvzero; apply nth_repeat).
  inversion W as [|r' A' Lr WA]; subst.
  unfold OrderCanon.qvadd, OrderCanon.qvscale. rewrite nth_qmap2.
  - rewrite nth_qscale. rewrite (IH A WA Hj). reflexivity.
  - rewrite map_length, OrderCanon.qlincomb_length by assumption. reflexivity.
Qed.

(** the power basis lies in the starting order of a monic f (as in the proof of [monic_start_table]) *)
Lemma identity_in_start f deg o0 :
  length f = S deg -> (1 <= deg)%nat -> nth deg f 0 = 1 ->
  non_monic_initial_order f = Done o0 ->
  forall t, (t < deg)%nat -> in_spanQ deg (nth t (identity fopsQc deg) []) o0.
Proof.
  intros Lf D1 Mon N0.
  destruct (non_monic_shape f deg o0 Lf D1 N0) as [L0 W0].
  destruct (nm_rowsZ_shape f deg) as [LB WB].
  pose proof N0 as N0'. unfold non_monic_initial_order in N0'.
  rewrite (deg_alloc_len f deg Lf) in N0'. cbn [bind] in N0'.
  destruct (deg =? 0)%nat eqn:E0; [apply Nat.eqb_eq in E0; lia|].
  rewrite nm_rows_qzm in N0'.
  set (B := qzm (nm_rowsZ f deg)) in *.
  assert (LBq : length B = deg) by (unfold B, qzm; rewrite map_length; assumption).
  assert (WBq : Forall (fun r => length r = deg) B).
  { apply Forall_forall. intros r Hr. unfold B, qzm in Hr. apply in_map_iff in Hr. destruct Hr as [r' [<- Hr']].
    rewrite map_length. apply (wf_In deg (nm_rowsZ f deg)); assumption. }
  destruct (hnf_reduce_contains deg B o0 D1 LBq WBq N0') as [_ [_ BinO]].
  assert (Mon' : coef_at opsZ f deg = 1) by exact Mon.
  intros t Ht. apply in_spanQ_trans with B; try assumption.
  rewrite identity_qzm.
  replace (nth t (qzm (idmat deg)) []) with (map qz (unit_from 0 deg t)).
  - apply rowspanZ_spanQ; [assumption|]. apply nm_units; assumption.
  - unfold qzm. rewrite nth_indep with (d' := map qz []) by (rewrite map_length; destruct (idmat_shape deg); lia).
    rewrite (map_nth (map qz)). change (nth t (idmat deg) []) with (row (idmat deg) t).
    rewrite row_idmat by assumption. reflexivity.
Qed.

Lemma identity_shape deg : length (identity fopsQc deg) = deg /\
  forall t, (t < deg)%nat -> length (nth t (identity fopsQc deg) []) = deg.
Proof.
  destruct (lower_from_shape deg _ (identity_lower deg)) as [LI WI]. split; [assumption|].
  intros t Ht. rewrite Forall_forall in WI. apply WI. apply nth_In. lia.
Qed.

(** [P] for monic f, Z[theta] is inside the returned order *)
Theorem monic_contains_power_basis m f deg O :
  length f = S deg -> (1 <= deg)%nat -> nth deg f 0 = 1 ->
  find_integral_basis m f = Done O ->
  exists Sl, shape deg deg Sl /\ OrderCanon.qmmul deg Sl O = identity fopsQc deg.
Proof.
  intros Lf D1 Mon FIB.
  destruct (Round2W4NoPanic.non_monic_total_monic f deg Lf D1 Mon) as [o0 N0].
  destruct (find_integral_basis_contains m f deg O o0 Lf D1 FIB N0) as [LO [WO Cont]].
  destruct (non_monic_shape f deg o0 Lf D1 N0) as [L0 W0].
  pose proof (identity_in_start f deg o0 Lf D1 Mon N0) as H2.
  assert (H3 : forall t, (t < deg)%nat -> in_spanQ deg (nth t (identity fopsQc deg) []) O).
  { intros t Ht. apply in_spanQ_trans with o0; auto. }
  destruct (fin_choice (fun t c => length c = deg /\
              forall j, (j < deg)%nat -> nth j (nth t (identity fopsQc deg) []) q0 = combQ c O j) [] deg) as [Sl [LS NS]].
  { intros t Ht. destruct (H3 t Ht) as [c [Lc Ec]]. exists c. split; [lia|assumption]. }
  exists Sl. split.
  { split; [assumption|]. apply Forall_forall. intros r Hr. destruct (In_nth _ _ [] Hr) as [t [Ht <-]].
    apply NS. lia. }
  destruct (identity_shape deg) as [LI WI].
  unfold OrderCanon.qmmul.
  apply nth_ext with (d := OrderCanon.qlincomb deg [] O) (d' := []).
  { rewrite map_length. lia. }
  intros t Ht. rewrite map_length in Ht.
  replace (nth t (map (fun u => OrderCanon.qlincomb deg u O) Sl) (OrderCanon.qlincomb deg [] O))
    with (OrderCanon.qlincomb deg (nth t Sl []) O)
    by (symmetry; apply (map_nth (fun u => OrderCanon.qlincomb deg u O) Sl [] t)).
  destruct (NS t ltac:(lia)) as [Lc Ec].
  apply nth_ext with (d := q0) (d' := q0).
  { rewrite OrderCanon.qlincomb_length by assumption. rewrite WI by lia. reflexivity. }
  intros j Hj. rewrite OrderCanon.qlincomb_length in Hj by assumption.
  rewrite nth_qlincomb by assumption. symmetry. apply Ec. assumption.
Qed.
