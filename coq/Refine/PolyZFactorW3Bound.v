(** * PolyZFactorW3Bound: C07, the coefficient bound of [get_factors_of_squarefree] is sufficient, hence
    the returned polynomials are irreducible whenever the prime found was not wrapped by [as i32]
    (MathComp).

    The bound of mod.rs:45-55 is [B = (|lc| + sum |a_i|) * 2^(n-1) * 2 * |lc|] and the modulus satisfies
    [p^e > B]. By the Landau-Mignotte bound ([mignotte_Z]) every factorisation [q = u v] in Z[x] has
    [2 |lc(v) u_i| <= B]: [prec_ok p^e q] holds. *)
From Coq Require Import ZArith Lia Znumtheory.
From RNT.Model Require Import Base Poly PolyModP FactorModP Hensel PolyZFactor.
From RNT.Model Require Resultant.
From mathcomp Require Import all_ssreflect ssralg ssrnum poly polydiv.
From mathcomp Require Import ssrZ zify.
From RNT.Refine Require Import PolyRefine PolyDiv PolyZ.
From RNT.Refine Require Import PolyZFactorBasic PolyZFactorMult PolyZFactorMain PolyZFactorTop PolyZFactorPos.
From RNT.Refine Require Import PolyZFactorW3Run PolyZFactorW3Top PolyZFactorW3Irred PolyZFactorW3Final PolyZFactorW3Mignotte.
Set Implicit Arguments.
Unset Strict Implicit.
Unset Printing Implicit Defensive.
Import GRing.Theory.
Local Open Scope ring_scope.

(** the sum of the absolute values computed by the code *)
Lemma abs_sum_spec (a : seq Z) (init : Z) :
  abs_sum a init = (init + \sum_(j < size a) Z.abs a`_j)%Z.
Proof.
have h : forall init, abs_sum a init = (init + \sum_(c <- a) Z.abs c)%Z.
  rewrite /abs_sum; elim: a => [|x a IH] init' /=; first by rewrite big_nil Z.add_0_r.
  by rewrite IH big_cons; exact: (esym (Z.add_assoc _ _ _)).
by rewrite h (big_nth 0) big_mkord.
Qed.

Lemma sum_abs_ge0_gen (I : Type) (r : seq I) (P : pred I) (F : I -> Z) :
  (0 <= \sum_(j <- r | P j) Z.abs (F j))%Z.
Proof.
elim/big_ind: _ => [|x y hx hy|j _]; [by [] | | exact: Z.abs_nonneg].
exact: Z.add_nonneg_nonneg.
Qed.

Lemma abs_coef_le_sum (q : {poly Z}) i : (Z.abs q`_i <= \sum_(j < size q) Z.abs q`_j)%Z.
Proof.
case: (ltnP i (size q)) => hi; last by rewrite nth_default //=; exact: sum_abs_ge0_gen.
rewrite (bigD1 (Ordinal hi)) //=.
have := @sum_abs_ge0_gen _ (index_enum (ordinal_finType (size q))) (fun j => j != Ordinal hi) (fun j => q`_j).
move: (\sum_(j < size q | _) _) => t ht; rewrite -[GRing.add _ _]/(Z.add _ _); lia.
Qed.

Lemma sum_abs_ge0 (q : {poly Z}) : (0 <= \sum_(j < size q) Z.abs q`_j)%Z.
Proof. exact: sum_abs_ge0_gen. Qed.

Lemma Zexp2_nat k : (2 : Z) ^+ k = Z.of_nat (2 ^ k).
Proof.
elim: k => [|k IH] //; rewrite exprS IH expnS -[GRing.mul _ _]/(Z.mul _ _).
by move: (2 ^ k)%N => m; lia.
Qed.

(** ** the bound is sufficient *)
Theorem prec_ok_of_bound (q : seq Z) (pe : Z) : canonZ q -> (1 < size q)%N ->
  (abs_sum q (Z.abs (lead opsZ q)) * 2 ^ (Z.of_nat (length q) - 2) * 2 * Z.abs (lead opsZ q) < pe)%Z ->
  prec_ok pe q.
Proof.
move=> cq sq hB u v euv i.
have q0 : q != [::] by case: (q) sq.
have Pq0 : Poly q != 0 by rewrite canon_Poly_eq0.
have u0 : u != 0 by apply: contraNneq Pq0 => h; rewrite euv h mul0r.
have v0 : v != 0 by apply: contraNneq Pq0 => h; rewrite euv h mulr0.
have sPq : size (Poly q) = size q by rewrite canon_size_Poly.
move: hB; rewrite abs_sum_spec opsZ_eq lead_last -(lead_coef_canon cq) Llength_eq.
rewrite -[size q]sPq -[X in nth _ X]canon_PolyK //.
set N1 := (\sum_(j < size (Poly q)) Z.abs (Poly q)`_j)%Z.
set L := Z.abs (lead_coef (Poly q)).
have L1 : (1 <= L)%Z.
  have : lead_coef (Poly q) != 0 by rewrite lead_coef_eq0.
  by rewrite /L => /eqP; lia.
have N0 : (0 <= N1)%Z := @sum_abs_ge0 (Poly q).
have -> : (Z.of_nat (size (Poly q)) - 2)%Z = Z.of_nat (size q - 2) by rewrite sPq; lia.
rewrite Zpow_exp; set P := (2 : Z) ^+ (size q - 2).
have P1 : (1 <= P)%Z.
  rewrite /P; elim: (size q - 2)%N => [|k IH] //; rewrite exprS.
  by move: IH; rewrite -[GRing.mul _ _]/(Z.mul _ _); lia.
move=> hB.
have ssum : (size u + size v = (size q).+1)%N.
  have := size_mul u0 v0; rewrite -euv sPq.
  by move: (size u) (size v) (size_poly_gt0 u) (size_poly_gt0 v); rewrite u0 v0 => x y; lia.
have hmig := @mignotte_Z _ _ _ euv Pq0 i; rewrite -/N1 in hmig.
case: (ltnP 1 (size v)) => sv.
- (* a proper factor: C(deg u, i) <= 2^(n - 1) *)
  have hc : (Z.of_nat 'C((size u).-1, i) <= P)%Z.
    have h1 := bin_le_exp2 (size u).-1 i.
    have h2 : (2 ^ (size u).-1 <= 2 ^ (size q - 2))%N by rewrite leq_exp2l //; lia.
    have := leq_trans h1 h2; rewrite /P Zexp2_nat.
    by move: 'C(_, _) (2 ^ _)%N => x y; lia.
  have h3 : (Z.of_nat 'C((size u).-1, i) * N1 <= P * N1)%Z by apply: Z.mul_le_mono_nonneg_r.
  have h4 : (N1 <= (L + N1) * L)%Z by nia.
  have h5 : (P * N1 <= P * ((L + N1) * L))%Z by apply: Z.mul_le_mono_nonneg_l => //; lia.
  by move: hB hmig h3 h5; move: (Z.abs _) => x; lia.
- (* v is a constant: lc(v) u_i = q_i *)
  have /size_poly1P [c c0 ev] : size v == 1%N.
    by move: sv; move: (size v) (size_poly_gt0 v); rewrite v0 => y; lia.
  have -> : (lead_coef v * u`_i)%Z = (Poly q)`_i.
    by rewrite euv ev lead_coefC mulrC mul_polyC coefZ.
  have h1 := @abs_coef_le_sum (Poly q) i; rewrite -/N1 in h1.
  have h4 : (N1 <= (L + N1) * L)%Z by nia.
  have h5 : ((L + N1) * L <= P * ((L + N1) * L))%Z by nia.
  by move: hB h1 h4 h5; move: (Z.abs _) => x; lia.
Qed.

(** ** [get_factors_of_squarefree]: irreducible factors, conditional only on the prime not being wrapped *)
Theorem get_factors_irreducible_bound md (q : seq Z) r fs r' p :
  canonZ q -> (1 < size q)%N -> (Z.of_nat (length q) <= 4294967296)%Z ->
  find_prime (prime_fuel q) q 2 = Done (p, p) ->
  get_factors_of_squarefree md q r = Done (fs, r') ->
  forall f, f \in fs -> irreducible_poly (Poly f).
Proof.
move=> cq sq hlen efp egf.
have hmd : md = Checked \/ (Z.of_nat (length q) <= two64)%Z by right; rewrite /two64; lia.
have h2 : (2 <= length q)%coq_nat by rewrite Llength_eq; apply/leP.
have eb := PolyZFactorBasic.coef_bound_done md q h2 hlen.
have [Hp _ _] := find_prime_spec efp.
have Hp2 := prime_ge_2 _ Hp.
set bound := (abs_sum _ _ * _ * _ * _)%Z in eb.
have [e [eel [he [hlt _]]]] := PolyZFactorBasic.exp_loop_spec p bound Hp2.
apply: (get_factors_irreducible cq sq hmd eb efp eel _ egf).
exact: prec_ok_of_bound.
Qed.

(** [prime_not_wrapped q]: the prime found for [q] equals its machine-word copy (it is below 2^31) *)
Definition prime_not_wrapped (q : seq Z) : Prop :=
  forall p pu, find_prime (prime_fuel q) q 2 = Done (p, pu) -> p = pu.

Lemma run_precision_ok_of_bound md (q : seq Z) : canonZ q -> (1 < size q)%N ->
  (Z.of_nat (length q) <= 4294967296)%Z -> prime_not_wrapped q -> run_precision_ok md q.
Proof.
move=> cq sq hlen hw bound p pu pe e eb efp eel.
have epu := hw _ _ efp; split=> //.
have h2 : (2 <= length q)%coq_nat by rewrite Llength_eq; apply/leP.
move: eb; rewrite (PolyZFactorBasic.coef_bound_done md q h2 hlen) => -[eb].
have [Hp _ _] := find_prime_spec efp; rewrite -epu in Hp.
have Hp2 := prime_ge_2 _ Hp.
have [e' [eel' [he [hlt _]]]] := PolyZFactorBasic.exp_loop_spec p bound Hp2.
move: eel; rewrite eel' => -[<- _].
by apply: prec_ok_of_bound => //; rewrite eb.
Qed.

(** ** [C] [factorize_full]: every returned polynomial is irreducible, and the whole property holds, whenever
    the prime found for the square-free part was not wrapped by [as i32] *)
Theorem factorize_full_irreducible_bound md (a : seq Z) r c l cof r' : canonZ a ->
  (Z.of_nat (length a) <= 4294967296)%Z ->
  factorize_full md a r = Done (c, l, cof, r') ->
  (forall g q, (Resultant.resultant_gcd (cont_pp a).2 (pdiff opsZ (cont_pp a).2)).2 = Done g ->
               div_exact (cont_pp a).2 g = Some q -> prime_not_wrapped q) ->
  [/\ cof = [:: 1%Z], Poly a = c *: fprod l
    & forall fe, fe \in l -> irreducible_poly (Poly fe.1)].
Proof.
move=> ca hlen ef hw; case: (leqP (size a) 1) => sa.
  have [el ecof] := factorize_full_small ca sa ef; split=> //; last by rewrite el.
  by rewrite ecof in ef; have [] := factorize_product ca ef.
have hmd : md = Checked \/ (Z.of_nat (length a) <= two64)%Z by right; rewrite /two64; lia.
apply: (factorize_full_complete ca hmd ef) => g q eg ed.
have [g' [q' [fs [[_ ppp spp] [eg' [pg hg ed' e' pq]] egf ee]]]] := factorize_full_run ca sa ef.
move: eg'; rewrite eg => -[eg']; rewrite -{g'}eg' in pg hg ed' e'.
move: ed'; rewrite ed => -[eq']; rewrite -{q'}eq' in pq egf e'.
have [cq _ _] := pq; have [cpp _ _] := ppp; have [cg _ _] := pg.
have sq : (1 < size q)%N.
  rewrite ltnNge; apply/negP => /(prim_pos_const pq) eq1.
  move: egf; rewrite eq1 /get_factors_of_squarefree /coef_bound /= /u64_norm /=.
  by case: md {hmd ef}.
have hlq : (Z.of_nat (length q) <= 4294967296)%Z.
  have [q0 spq] := div_exact_size cpp cg (prim_pos_neq0 ppp) ed.
  have sg : (0 < size g)%N by have := prim_pos_neq0 pg; case: (g).
  have a0 : a != [::] by case: (a) sa.
  have [ec _ _ _ _] := cont_pp_main ca a0 (surjective_pairing (cont_pp a)).
  have c0 : (cont_pp a).1 != 0.
    by apply/eqP => c0; move: ec; rewrite c0 scale0r => /esym/eqP; rewrite canon_Poly_eq0 // (negPf a0).
  have spa : size (cont_pp a).2 = size a.
    by rewrite -(canon_size_Poly cpp) -(size_scale _ c0) ec canon_size_Poly.
  by move: hlen; rewrite !Llength_eq -spa spq; move: (size q) (size g) sg => x y; lia.
exact: run_precision_ok_of_bound (hw g q eg ed).
Qed.

(** ** non-vacuity: the condition holds for the standard runs (the primes found are 2, 5 and 3... computed) *)
Lemma prime_not_wrapped_ex (a g0 q0 : seq Z) (p0 : Z) :
  (Resultant.resultant_gcd (cont_pp a).2 (pdiff opsZ (cont_pp a).2)).2 = Done g0 ->
  div_exact (cont_pp a).2 g0 = Some q0 ->
  find_prime (prime_fuel q0) q0 2 = Done (p0, p0) ->
  forall g q, (Resultant.resultant_gcd (cont_pp a).2 (pdiff opsZ (cont_pp a).2)).2 = Done g ->
              div_exact (cont_pp a).2 g = Some q -> prime_not_wrapped q.
Proof.
move=> eg ed ef g q; rewrite eg => -[<-]; rewrite ed => -[<-] p pu.
by rewrite ef => -[<- <-].
Qed.

Lemma prime_not_wrapped_pow7 :
  let a := [:: 1; 7; 21; 35; 35; 21; 7; 1]%Z in
  forall g q, (Resultant.resultant_gcd (cont_pp a).2 (pdiff opsZ (cont_pp a).2)).2 = Done g ->
              div_exact (cont_pp a).2 g = Some q -> prime_not_wrapped q.
Proof.
by apply: (@prime_not_wrapped_ex _ [:: 1; 6; 15; 20; 15; 6; 1]%Z [:: 1; 1]%Z 2%Z); vm_compute.
Qed.

Lemma prime_not_wrapped_content :
  let a := [:: -6; -6; -18; -12; -12]%Z in
  forall g q, (Resultant.resultant_gcd (cont_pp a).2 (pdiff opsZ (cont_pp a).2)).2 = Done g ->
              div_exact (cont_pp a).2 g = Some q -> prime_not_wrapped q.
Proof.
by apply: (@prime_not_wrapped_ex _ [:: 1%Z] [:: 1; 1; 3; 2; 2]%Z 5%Z); vm_compute.
Qed.

Lemma prime_not_wrapped_sd :
  let a := [:: 1; 0; -10; 0; 1]%Z in
  forall g q, (Resultant.resultant_gcd (cont_pp a).2 (pdiff opsZ (cont_pp a).2)).2 = Done g ->
              div_exact (cont_pp a).2 g = Some q -> prime_not_wrapped q.
Proof.
by apply: (@prime_not_wrapped_ex _ [:: 1%Z] [:: 1; 0; -10; 0; 1]%Z 5%Z); vm_compute.
Qed.
