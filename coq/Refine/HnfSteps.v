(** * HnfSteps: what each checked primitive of the model does when it returns [Done]
      (in terms of the total elementary operations of [HnfOps]). *)
From Coq Require Import ZArith List Lia.
From RNT.Model Require Import Base Hnf.
From RNT.Refine Require Import MatZ HnfOps.
Import ListNotations.
Open Scope Z_scope.

Lemma bind_Done {A B} (x : outcome A) (f : A -> outcome B) r :
  bind x f = Done r -> exists a, x = Done a /\ f a = Done r.
Proof. destruct x; simpl; intros H; try discriminate. eauto. Qed.

(** destructs hypotheses of the form [bind x f = Done r] *)
Ltac inv_bind H :=
  let a := fresh "v" in let H1 := fresh "E" in
  apply bind_Done in H; destruct H as [a [H1 H]].

Lemma nth_chk_Done {A} (l : list A) i x d :
  nth_chk l i = Done x -> (i < length l)%nat /\ nth i l d = x.
Proof.
  unfold nth_chk. destruct (nth_error l i) eqn:E; intros H; inversion H; subst.
  split. - apply nth_error_Some. congruence. - apply nth_error_nth; auto.
Qed.

Lemma get_Done a j i x :
  get a j i = Done x -> (j < length a)%nat /\ (i < length (row a j))%nat /\ x = ent a j i.
Proof.
  unfold get. intros H. inv_bind H.
  apply (nth_chk_Done _ _ _ []) in E. destruct E as [Hj <-].
  apply (nth_chk_Done _ _ _ 0) in H. destruct H as [Hi <-].
  unfold ent, row. auto.
Qed.

Lemma swap_rows_Done a j k a' :
  swap_rows a j k = Done a' ->
  (j < length a)%nat /\ (k < length a)%nat /\ a' = apply_eop (ESwap j k) a.
Proof.
  unfold swap_rows. intros H. inv_bind H. inv_bind H.
  apply (nth_chk_Done _ _ _ []) in E. destruct E as [Hj <-].
  apply (nth_chk_Done _ _ _ []) in E0. destruct E0 as [Hk <-].
  inversion H; subst. auto.
Qed.

Lemma neg_row_Done a k a' :
  neg_row a k = Done a' -> (k < length a)%nat /\ a' = apply_eop (ENeg k) a.
Proof.
  unfold neg_row. intros H. inv_bind H.
  apply (nth_chk_Done _ _ _ []) in E. destruct E as [Hk <-].
  inversion H; subst. auto.
Qed.

Lemma submul_prefix_Done w rj rk q r :
  submul_prefix w rj rk q = Done r -> length rj = w -> length rk = w -> r = vsubmul q rj rk.
Proof.
  revert rj rk r; induction w as [|w IH]; intros rj rk r H Hj Hk.
  - destruct rj, rk; simpl in *; try discriminate. inversion H; auto.
  - destruct rj as [|x rj], rk as [|y rk]; simpl in *; try discriminate.
    inv_bind H. inversion H; subst. unfold vsubmul; simpl. f_equal. apply IH; auto; lia.
Qed.

Lemma row_submul_Done w a j k q a' :
  row_submul w a j k q = Done a' -> wf w a ->
  (j < length a)%nat /\ (k < length a)%nat /\ a' = apply_eop (ESubmul j k q) a.
Proof.
  unfold row_submul. intros H Hw. inv_bind H. inv_bind H. inv_bind H.
  apply (nth_chk_Done _ _ _ []) in E. destruct E as [Hk <-].
  apply (nth_chk_Done _ _ _ []) in E0. destruct E0 as [Hj <-].
  inversion H; subst. split; auto. split; auto. simpl.
  apply submul_prefix_Done in E1; try (apply (wf_row w a); auto). subst. reflexivity.
Qed.

(** [floor_div] is floor division *)
Lemma floor_div_Done a b q : floor_div a b = Done q -> b <> 0 /\ q = a / b.
Proof.
  unfold floor_div, zquot. intros H.
  destruct (Z.ltb_spec b 0) as [Hb|Hb].
  - destruct (Z.eqb_spec (- b) 0) as [E|E]; simpl in H; [discriminate|]. inversion H; subst; clear H.
    split; [lia|].
    pose proof (Z.quot_rem' (- a) (- b)) as Hq.
    pose proof (Z.rem_bound_abs (- a) (- b) ltac:(lia)) as Hr.
    assert (Hs : Z.rem (- a) (- b) = 0 \/ Z.sgn (Z.rem (- a) (- b)) = Z.sgn (- a)).
    { destruct (Z.eq_dec (Z.rem (- a) (- b)) 0); auto. right. apply Z.rem_sign_nz; auto. }
    destruct (Z.ltb_spec (- a) (Z.quot (- a) (- b) * - b)).
    + apply Z.div_unique_neg with (r := - (Z.rem (- a) (- b) + - b)); lia.
    + apply Z.div_unique_neg with (r := - Z.rem (- a) (- b)); lia.
  - destruct (Z.eqb_spec b 0) as [E|E]; simpl in H; [discriminate|]. inversion H; subst; clear H.
    split; auto.
    pose proof (Z.quot_rem' a b) as Hq.
    pose proof (Z.rem_bound_abs a b ltac:(lia)) as Hr.
    assert (Hs : Z.rem a b = 0 \/ Z.sgn (Z.rem a b) = Z.sgn a).
    { destruct (Z.eq_dec (Z.rem a b) 0); auto. right. apply Z.rem_sign_nz; auto. }
    destruct (Z.ltb_spec a (Z.quot a b * b)).
    + apply Z.div_unique_pos with (r := Z.rem a b + b); lia.
    + apply Z.div_unique_pos with (r := Z.rem a b); lia.
Qed.

(** one reduction step on both matrices *)
Lemma reduce_row_Done m n i b k j a u a' u' :
  reduce_row m n i b k j (a, u) = Done (a', u') ->
  shape n m a -> shape n n u ->
  (j < n)%nat /\ (k < n)%nat /\ b <> 0 /\
  a' = apply_eop (ESubmul j k (ent a j i / b)) a /\
  u' = apply_eop (ESubmul j k (ent a j i / b)) u.
Proof.
  unfold reduce_row. intros H [Han Haw] [Hun Huw].
  inv_bind H. inv_bind H. inv_bind H. inv_bind H. inversion H; subst; clear H.
  apply get_Done in E. destruct E as (Hj & _ & ->).
  apply floor_div_Done in E0. destruct E0 as [Hb ->].
  apply row_submul_Done in E1; auto. destruct E1 as (_ & Hk & ->).
  apply row_submul_Done in E2; auto. destruct E2 as (_ & _ & ->).
  repeat split; auto; lia.
Qed.

(** ** range *)
Lemma in_range lo hi j : In j (range lo hi) <-> (lo <= j < hi)%nat.
Proof. unfold range. rewrite in_seq. lia. Qed.
Lemma range_NoDup lo hi : NoDup (range lo hi).
Proof. apply seq_NoDup. Qed.

(** ** scanning a column *)
Lemma col_all_zero_true a i js :
  col_all_zero a i js = Done true -> forall j, In j js -> ent a j i = 0.
Proof.
  induction js as [|j0 js IH]; simpl; intros H j Hj; [tauto|].
  inv_bind H. apply get_Done in E. destruct E as (_ & _ & ->).
  destruct (Z.eqb_spec (ent a j0 i) 0); [|discriminate].
  destruct Hj as [<-|Hj]; auto.
Qed.

Lemma col_position_Some a i js ind :
  col_position a i js = Done (Some ind) -> In ind js /\ ent a ind i <> 0.
Proof.
  induction js as [|j0 js IH]; simpl; intros H; [discriminate|].
  inv_bind H. apply get_Done in E. destruct E as (_ & _ & ->).
  destruct (Z.eqb_spec (ent a j0 i) 0); simpl in H.
  - destruct (IH H); auto.
  - inversion H; subst; auto.
Qed.

Lemma min_loop_index a i js mi mi' :
  for_loop js (min_step a i) mi = Done mi' -> snd mi' = snd mi \/ In (snd mi') js.
Proof.
  revert mi; induction js as [|j js IH]; simpl; intros mi H.
  - inversion H; auto.
  - inv_bind H. unfold min_step in E. inv_bind E.
    assert (Hv : snd v = snd mi \/ snd v = j).
    { destruct (negb (v0 =? 0)); inversion E; subst; auto.
      unfold pair_min. destruct (pair_le mi (Z.abs v0, j)); auto. }
    destruct (IH _ H) as [Hs|Hs]; auto. destruct Hv; [left|right; left]; congruence.
Qed.
