(** * IdealW6Total (C16, sixth wave): [Ideal::inv] returns on every full-rank lattice in normal form, in an order with
      commutative associative table, unit element e_0 and non-singular trace form ([get_inv_diff] returned):
      no index panic (the product I * Nd has n rows), the matrix Tr * C^T is invertible, the exact division of
      [mul_inv_from_right_exact] finds an integer quotient ([assert!(is_integer)] does not fire).
      Style: ssreflect/MathComp. *)
From Coq Require Import ZArith List.
From mathcomp Require Import all_ssreflect ssralg zmodp matrix mxalgebra.
From mathcomp Require Import ssrZ zify.
From Coq Require Import QArith Qcanon.
From RNT.Model Require Import Base Poly Algebraic LinAlg MultTable Ideal.
From RNT.Model Require Hnf.
From RNT.Refine Require Import QcField LinAlgQc LinAlgList MatZ HnfSpec HnfMain HnfCanon IdealMul IdealSpec IdealLaws IdealInv IdealCapZ.
From RNT.Refine Require Import DetBridge DetHnf DetIdeal DetInvDiff OrderW3Dual AlgNormMx AlgNormFlags.
From RNT.Refine Require Import IdealW6Core IdealW6Trace IdealW6Dual IdealW6Prod IdealW6Full IdealW6Nak IdealW6Max.
From RNT.Refine Require MultTableOps.
Set Implicit Arguments.
Unset Strict Implicit.
Unset Printing Implicit Defensive.
Import GRing.Theory.
Local Close Scope Z_scope.
Local Close Scope Q_scope.
Local Close Scope Qc_scope.
Local Open Scope ring_scope.

Lemma trace_matrix_total m n t : MultTableOps.cube n t -> exists tr, trace_matrix m t = Done tr.
Proof.
move=> ct; have lt : length t = n by case/andP: ct => /eqP.
rewrite /trace_matrix /mt_deg lt.
eexists; apply: mapM_Done_map => i /List.in_seq [_ hi].
apply: (@mapM_Done_map _ _ _ (fun j => lam n t (tmul t n (unit_vec n i) (unit_vec n j)))) => j /List.in_seq [_ hj].
rewrite (mt_mul_tmul m ct (size_unit_vec n i) (size_unit_vec n j)) /=.
by rewrite (MultTableOps.mt_trace_closed ct (size_tmul _ _ _ _)).
Qed.

Lemma tnt_matrix_total n (tr c : list (list Z)) : shape n n tr -> shape n n c ->
  exists tnt, tnt_matrix n tr c = Done tnt.
Proof.
move=> str sc; rewrite /tnt_matrix.
eexists; apply: mapM_Done_map => i /List.in_seq [_ hi].
apply: (@mapM_Done_map _ _ _ (fun j => foldl (fun s k => s + ent tr i k * ent c j k) 0 (Hnf.range 0 n))) => j /List.in_seq [_ hj].
pose g (k : nat) (s : Z) := s + ent tr i k * ent c j k.
pose body (k : nat) (s : Z) := bind (Hnf.get tr i k) (fun x => bind (Hnf.get c j k) (fun y => Done (s + x * y))).
have step k s : k \in Hnf.range 0 n -> True -> body k s = Done (g k s) /\ True.
  rewrite MultTableOps.range0_eq mem_iota add0n => /andP[_ /ltP hk] _; split=> //.
  by rewrite /body (HnfTerm.get_ok tr i k n n str hi hk) (HnfTerm.get_ok c j k n n sc hj hk).
by have [-> _] := MultTableOps.for_loop_foldl (P := fun _ => True) (s := 0) step I.
Qed.

Section Total.
Variables (d : nat) (t : table).
Local Notation n := d.+1.
Hypothesis lt : length t = n.
Hypothesis Ht : tshape t.
Hypothesis Hc : table_comm t = true.
Hypothesis Has : table_assoc t = true.
Hypothesis Hu : forall y, length y = n -> bil t y (unit_vec n 0) = y.
Variables (HI : list (list Z)).
Hypothesis WI : wf n HI.
Hypothesis II : is_hnf HI = true.
Hypothesis LI : length HI = n.
Variables (l : Z) (hd : list (list Z)).
Hypothesis Ed : mt_inv_diff t = Done (l, hd).

Theorem ideal_inv_returns m : exists a N, ideal_inv m (mkIdeal HI t) (l, mkIdeal hd t) = Done (a, N).
Proof.
have ct : MultTableOps.cube n t by rewrite -lt; apply: tshape_cube.
have n0 : (0 < n)%nat by [].
have hc := flag_tcomm ct Hc.
have ha := flag_tassoc ct Has.
have hn : (1 <= n)%coq_nat by lia.
have Hu' : forall y, length y = length t -> bil t y (unit_vec (length t) 0) = y by rewrite lt.
have one_l y : length y = n -> bil t (unit_vec n 0) y = y.
  by move=> ly; have := @unit_l t Ht Hc Hu' y; rewrite lt; apply.
have [int [lpos sI Eh IT TI]] := inv_diff_scaled_inverse ct n0 Ed.
have [ihd [whd spd]] := hnf_new_correct int n n hd sI hn hn Eh.
have l0 : l <> 0%Z by lia.
(* cap_z *)
have [a [Ea [apos ha']]] := @cap_z_spec (mkIdeal HI t) n WI II LI hn.
have a0 : a <> 0%Z by lia.
have HaI : In_rowspanZ n (scalar_vec n a) HI.
  by rewrite scalar_vec_cons; have := proj2 (ha' a) (Z.divide_refl a); rewrite /= Nat.sub_0_r.
(* the product *)
have [c0 Ec0] : exists c0, ideal_mul m (mkIdeal HI t) (mkIdeal hd t) = Done c0.
  by have := @mul_total m (mkIdeal HI t) (mkIdeal hd t); rewrite /= lt; apply.
have := @mul_spec m (mkIdeal HI t) (mkIdeal hd t) c0; rewrite /= lt => /(_ Ht WI whd hn Ec0).
move=> [tc0 [ic0 [wc0 spc0]]].
have hrc0 := is_hnf_hnf_rows n (i_hnf c0) wc0 ic0.
have amem z : In_rowspanZ n z hd -> In_rowspanZ n (MatZ.vscale a z) (i_hnf c0).
  move=> hz; have lz : length z = n by apply: (span_length n z hd).
  apply/spc0; have := @prod_rows_member t HI hd _ _ Ht; rewrite lt => /(_ _ _ WI whd HaI hz).
  by rewrite scalar_vec_scale bil_scale_l // one_l.
have lc0 : length (i_hnf c0) = n.
  have al0 : (a * l)%Z <> 0%Z by lia.
  apply: (hnf_full_length hrc0 al0) => i hi.
  rewrite -vscale_vscale; apply: amem; apply: (nd_contains_l ct n0 Ed); exact: unit_vec_length.
have sc0 : shape n n (i_hnf c0) by split.
have [tr Etr] := trace_matrix_total m ct.
have [str etr] := trace_matrix_zmx ct Etr.
have [tnt Etnt] := tnt_matrix_total str sc0.
have [stnt etnt] := tnt_matrix_zmx str sc0 Etnt.
set T := trace_form t n in etr etnt IT TI.
set C := zmx n n (i_hnf c0) in etnt.
set Int := zmx n n int in IT TI.
have Tsym : T^T = T := trace_form_sym ct hc.
(* the integer quotient *)
have hrow (i : 'I_n) : exists w : 'rV[Z]_n, a *: matrix.row i Int = w *m C.
  have hi : (i < length int)%coq_nat by rewrite sI.1; apply/ltP.
  have hz : In_rowspanZ n (List.nth i int [::]) hd.
    by apply/spd; apply: span_row_in; [exact: sI.2|apply: List.nth_In].
  have [_ [w ew]] := proj1 (rowspan_mx _ wc0 lc0) (amem _ hz).
  exists w; rewrite -ew zrv_vscale; congr (_ *: _).
  by apply/rowP => j; rewrite !mxE.
have [wq hwf] := fin_choice_ord hrow.
pose W : 'M[Z]_n := \matrix_(i, j) wq i 0 j.
have eW : a *: Int = W *m C.
  apply/row_matrixP => i; rewrite row_mul linearZ /= (hwf i); congr (_ *m _).
  by apply/rowP => j; rewrite !mxE.
have al0 : (a * l)%Z <> 0%Z by lia.
have eQ : W^T *m zmx n n tnt = (a * l)%:M.
  rewrite etnt etr; apply: (scalar_mx_commute al0).
  rewrite -mulmxA -trmx_mul -eW linearZ /= -scalemxAr.
  have -> : T *m Int^T = l%:M by rewrite -{1}Tsym -trmx_mul IT tr_scalar_mx.
  by rewrite scale_scalar_mx.
have [dInt dT] := scalar_det_neq0 l0 IT.
have [dC dCpos] := hnf_square_det hrc0 hn lc0.
have dtnt : \det (zmx n n tnt) != 0.
  rewrite etnt etr det_mulmx det_tr mulf_neq0 //; first exact/eqP.
  by rewrite dC; apply/eqP; lia.
set scaled := scaled_identity n (a * l).
have lsc : length scaled = n := scaled_identity_length n (a * l).
have wsc : zrect n scaled.
  apply/List.Forall_forall => r /List.in_map_iff [i [<- _]].
  by rewrite List.map_length List.seq_length.
have := @mul_inv_complete scaled tnt; cbv zeta; rewrite lsc => /(_ wsc stnt.2 stnt.1) [_ cmp].
have [trd Er] : exists trd, mul_inv_from_right_exact scaled tnt = Done (Ok trd).
  apply: cmp => //.
  by exists W^T; rewrite eQ scaled_identity_zmx.
have wtrd : wf n trd by have := mul_inv_shape _ _ _ Er; rewrite lsc.
have [hN EhN] := hnf_new_total0 trd n wtrd hn.
exists a, (mkIdeal hN t).
rewrite /ideal_inv /ideal_deg /mt_deg /frac_numer /frac_denom /frac_new /ideal_new /= lt.
by rewrite Ea /= Ec0 /= Etr /= /Hnf.hnf_as_vecs Etnt /= -/scaled Er /= EhN.
Qed.
End Total.

(** ** [P] inv_total: the entry points *)
Theorem inv_total m I D :
  let t := i_table I in let n := length t in
  tshape t -> table_comm t = true -> table_assoc t = true -> (1 <= n)%coq_nat ->
  (forall y, length y = n -> bil t y (unit_vec n 0) = y) ->
  wf n (i_hnf I) -> is_hnf (i_hnf I) = true -> length (i_hnf I) = n ->
  get_inv_diff t = Done D ->
  exists a N, ideal_inv m I D = Done (a, N).
Proof.
case: I => HI t /= Ht Hc Has Hn Hu WI II LI.
rewrite /get_inv_diff; case Ed: (mt_inv_diff t) => [[l hd]| |] //= [<-].
have [d E] : exists d, length t = d.+1 by case: (length t) Hn => [|d] ?; [lia|exists d].
move: Hu WI LI; rewrite E => Hu WI LI.
exact: (ideal_inv_returns E Ht Hc Has Hu WI II LI Ed).
Qed.
