(** * AlgMul: [mul_with_mod] computes the remainder of the product modulo the minimal
    polynomial (C14, quotient-ring part).  Style: ssreflect/MathComp on top of
    PolyRefine/QcRing ([Poly s : {poly Qc}] is the abstract value of a coefficient list). *)
From RNT.Model Require Import Base Poly Algebraic.
From Coq Require Import QArith Qcanon.
From mathcomp Require Import all_ssreflect ssralg poly polydiv.
From mathcomp Require Import ssrZ zify ring.
From RNT.Refine Require Import QcRing PolyRefine PolyDiv PolyZ PolyQ.
Set Implicit Arguments.
Unset Strict Implicit.
Unset Printing Implicit Defensive.
Import GRing.Theory.
Local Open Scope ring_scope.

(** stdlib list functions of the model = ssreflect's *)
Lemma Lfirstn_eq A n (l : list A) : List.firstn n l = take n l.
Proof. by elim: n l => [|n IH] [|x l] //=; rewrite IH. Qed.
Lemma Lrepeat_eq A (x : A) n : List.repeat x n = nseq n x.
Proof. by elim: n => //= n ->. Qed.
Lemma Lapp_eq A (l1 l2 : list A) : List.app l1 l2 = l1 ++ l2.
Proof. by []. Qed.

Notation OQ := (ops_of Qc_ofZ).

Lemma qzE z : qz z = Qc_ofZ z. Proof. by []. Qed.
Lemma q0E : q0 = 0 :> Qc. Proof. by []. Qed.

Lemma qz_inj : injective qz.
Proof. by move=> x y /Q2Qc_eq_iff /inject_Z_injective. Qed.

Lemma qz_eq0 z : (qz z == 0) = (z == 0).
Proof. by apply/eqP/eqP => [e|->] //; apply: qz_inj. Qed.

Lemma Poly_nseq0 (R : ringType) n : Poly (nseq n (0 : R)) = 0.
Proof. by elim: n => //= n ->; rewrite cons_poly_def mul0r add0r. Qed.

Lemma Poly_cat_nseq0 (R : ringType) (s : seq R) n : Poly (s ++ nseq n 0) = Poly s.
Proof.
elim: s => [|x s IH] /=; first exact: Poly_nseq0.
by rewrite IH.
Qed.

Lemma size_zip_pad (f : Qc -> Qc -> Qc) (a b : seq Qc) :
  size (zip_pad OQ f a b) = maxn (size a) (size b).
Proof.
elim: a b => [|x a IH] [|y b] //=; rewrite ?size_map ?max0n ?maxn0 //.
by rewrite IH maxnSS.
Qed.

(** ** one shift: multiply by x and reduce by c *)
Section Step.
Variables (n : nat) (c : seq Qc).
Hypothesis szc : size c = n.+1.
Let lc := c`_n.
Hypothesis lc0 : lc != 0.

Lemma Poly_c : Poly c = Poly (take n c) + lc *: 'X^n.
Proof.
have {1}-> : c = rcons (take n c) lc.
  by rewrite /lc -take_nth ?szc // -szc take_size.
by rewrite Poly_rcons size_take szc ltnSn.
Qed.

Lemma shift_reduce_spec low : size low = n -> (0 < n)%N ->
  exists2 low', shift_reduce n lc c (low ++ [:: 0]) = low' ++ [:: 0] &
    size low' = n /\ 'X * Poly low = (low`_n.-1 / lc) *: Poly c + Poly low'.
Proof.
move=> szl n0; rewrite /shift_reduce !Lfirstn_eq !Lnth_eq q0E.
have -> : take n (low ++ [:: 0]) = low by rewrite take_cat szl ltnn subnn take0 cats0.
set sh := 0 :: low; set coef := Qcdiv _ _.
have szsh : size sh = n.+1 by rewrite /= szl.
exists (sub_scaled OQ (take n sh) coef (take n c)); first by [].
have e : coef = low`_n.-1 / lc by rewrite /coef /sh; case: (n) n0.
split; first by rewrite size_sub_scaled size_take szsh ltnSn.
have -> : Poly (sub_scaled OQ (take n sh) coef (take n c))
          = Poly (take n sh) - coef *: 'X^0 * Poly (take n c).
  have h : (0 + size (take n c) <= size (take n sh))%N by rewrite add0n !size_take szsh szc ltnSn.
  have H := @Poly_sub_scaled_at _ Qc_ofZ (take n sh) 0 coef (take n c) h.
  by move: H; case: (take n sh).
rewrite expr0 alg_polyC mul_polyC Poly_c scalerDr addrA scalerA -e.
have -> : coef * lc = sh`_n by rewrite e divfK //; rewrite /sh; case: (n) n0.
have <- : Poly sh = 'X * Poly low by rewrite /sh /= cons_poly_def addr0 commr_polyX.
have {1}-> : sh = rcons (take n sh) sh`_n by rewrite -take_nth ?szsh // -szsh take_size.
rewrite Poly_rcons size_take szsh ltnSn.
by rewrite [RHS]addrC !addrA addNr add0r [RHS]addrC.
Qed.

(** ** the loop over the coefficients of a *)
Lemma mwm_loop_step ai rest cur result :
  mwm_loop n lc c (ai :: rest) cur result
  = mwm_loop n lc c rest (shift_reduce n lc c cur)
      (zip_pad opsQc Qcplus result (pscale opsQc ai (List.firstn n cur))).
Proof. by case: rest. Qed.

Lemma mwm_loop_spec al low result : size low = n -> size result = n -> (0 < n)%N ->
  exists2 q : {poly Qc},
    size (mwm_loop n lc c al (low ++ [:: 0]) result) = n &
    Poly (mwm_loop n lc c al (low ++ [:: 0]) result)
    = Poly result + Poly al * Poly low - q * Poly c.
Proof.
move=> szl szr n0.
elim: al low result szl szr => [|ai rest IH] low result szl szr.
  by exists 0 => //=; rewrite mul0r addr0 mul0r subr0.
rewrite mwm_loop_step.
have [low' -> [szl' eql']] := shift_reduce_spec szl n0.
rewrite Lfirstn_eq take_cat szl ltnn subnn take0 cats0.
set result' := zip_pad _ _ _ _.
have szr' : size result' = n by rewrite size_zip_pad size_map szr szl maxnn.
have [q szf ->] := IH low' result' szl' szr'.
exists (q + (low`_n.-1 / lc) *: Poly rest) => //.
have -> : Poly result' = Poly result + ai *: Poly low.
  by rewrite /result' (@Poly_zip_add _ Qc_ofZ) (@Poly_pscale _ Qc_ofZ).
have -> : Poly low' = 'X * Poly low - (low`_n.-1 / lc) *: Poly c by rewrite eql' addrC addKr.
rewrite /= cons_poly_def -!mul_polyC.
ring.
Qed.

End Step.

(** ** [mul_with_mod] *)

(** the minimal polynomial as a polynomial over Q *)
Definition Fq (f : seq Z) : {poly Qc} := Poly (map qz f).

(** canonical coefficient lists of integers / rationals: [PolyZ.canonZ], [PolyQ.canonQ] *)

Section MulWithMod.
Variables (f : seq Z) (n : nat).
Hypothesis f_canon : canonZ f.
Hypothesis szf : size f = n.+1.

Let c := map qz f.

Lemma szc : size c = n.+1. Proof. by rewrite size_map. Qed.

Lemma lc_neq0 : c`_n != 0.
Proof.
rewrite /c (nth_map 0%Z) ?szf // qz_eq0.
by move: f_canon; rewrite /canonZ /canon (last_nth 0%Z) szf.
Qed.

Lemma size_Fq : size (Fq f) = n.+1.
Proof.
rewrite /Fq -/c canon_size_Poly ?szc // /canon (last_nth 0) szc.
by have := lc_neq0; case: (c) szc => //= x s [->] h.
Qed.

Lemma pdeg_f : pdeg f = Z.of_nat n.
Proof. by rewrite /pdeg; case: (f) szf => [|y s] // e; rewrite Llength_eq e; lia. Qed.

Lemma pdeg_lt (a : seq Qc) : a != [::] -> (pdeg a <? pdeg f)%Z = (size a <= n)%N.
Proof.
rewrite pdeg_f /pdeg; case: a => // x a _; rewrite Llength_eq.
move: (size (x :: a)) => k.
by apply/idP/idP => [/Z.ltb_lt|] h; [|apply/Z.ltb_lt]; lia.
Qed.

Theorem mul_with_mod_main (a b : seq Qc) :
  canonQ a -> canonQ b -> (size a <= n)%N -> (size b <= n)%N ->
  exists r, [/\ mul_with_mod a b f = Done r, canonQ r, (size r <= n)%N
              & Poly r = (Poly a * Poly b) %% Fq f].
Proof.
move=> ca cb sa sb.
case ea: a => [|x a'].
  by exists [::]; split=> //; rewrite /= mul0r mod0p.
case eb: b => [|y b'].
  by exists [::]; split=> //; rewrite /= mulr0 mod0p.
rewrite -ea -eb.
have a0 : a != [::] by rewrite ea.
have b0 : b != [::] by rewrite eb.
have n0 : (0 < n)%N by apply: leq_trans sa; rewrite ea.
have -> : mul_with_mod a b f =
    Done (from_raw opsQc (mwm_loop n c`_n c a (b ++ nseq (n - size b) 0 ++ [:: 0]) (nseq n 0))).
  rewrite /mul_with_mod ea eb -ea -eb !pdeg_lt // sa sb /=.
  case ef: f szf => [|z f'] // _; rewrite -ef pdeg_f Nat2Z.id.
  rewrite !Lrepeat_eq Lnth_eq Llength_eq q0E -/c; do 3 f_equal.
  have -> : (n + 1 - size b)%coq_nat = (n - size b).+1 by lia.
  by rewrite -[in LHS]addn1 nseqD.
set low := b ++ nseq (n - size b) 0.
have szl : size low = n by rewrite /low size_cat size_nseq; lia.
rewrite catA -/low.
have [q szr eqr] := mwm_loop_spec szc lc_neq0 a szl (size_nseq n 0) n0.
set fin := mwm_loop _ _ _ _ _ _ in szr eqr *.
exists (Poly fin); split.
- by rewrite /from_raw (@strip_Poly _ Qc_ofZ).
- exact: canon_poly.
- by rewrite (leq_trans (size_Poly _)) // szr.
rewrite polyseqK eqr Poly_nseq0 add0r /low Poly_cat_nseq0 -/(Fq f).
have -> : Poly a * Poly b = q * Fq f + (Poly a * Poly b - q * Fq f) by ring.
rewrite modp_addl_mul_small; first by congr (_ - _); ring.
rewrite size_Fq ltnS -[X in (_ <= X)%N]szr.
have <- : Poly fin = Poly a * Poly b - q * Fq f.
  by rewrite eqr Poly_nseq0 add0r /low Poly_cat_nseq0.
exact: size_Poly.
Qed.

End MulWithMod.
