(** * IdealW6Trace (C16, sixth wave): the trace form of a commutative associative table as a matrix, and the
      matrices computed on the way by [Ideal::inv] ([trace_matrix], [tnt_matrix], [scaled_identity]).
      Style: ssreflect/MathComp. *)
From Coq Require Import ZArith List.
From mathcomp Require Import all_ssreflect ssralg zmodp matrix mxalgebra.
From mathcomp Require Import ssrZ zify.
From Coq Require Import QArith Qcanon.
From RNT.Model Require Import Base Poly Algebraic LinAlg MultTable Ideal.
From RNT.Model Require Hnf.
From RNT.Refine Require Import QcField LinAlgQc LinAlgList MatZ HnfSpec HnfMain IdealMul DetBridge DetHnf DetIdeal DetInvDiff OrderW3Dual AlgNormMx.
From RNT.Refine Require MultTableOps.
Set Implicit Arguments.
Unset Strict Implicit.
Unset Printing Implicit Defensive.
Import GRing.Theory.
Local Close Scope Z_scope.
Local Close Scope Q_scope.
Local Close Scope Qc_scope.
Local Open Scope ring_scope.

Import MultTableOps.

Lemma zrv_zrow n (v : list Z) : zrv n v = zrow n v.
Proof. by apply/rowP => j; rewrite !mxE Lnth_nth. Qed.

Lemma zrv_inj n (u v : list Z) : size u = n -> size v = n -> zrv n u = zrv n v -> u = v.
Proof. by rewrite !zrv_zrow; apply: zrow_inj. Qed.

(** the (0,0) entry of x T y^T as a double sum *)
Lemma bilmx_sum n (T : 'M[Z]_n) (x y : 'rV[Z]_n) :
  (x *m T *m y^T) 0 0 = \sum_(i < n) \sum_(j < n) x 0 i * y 0 j * T i j.
Proof.
rewrite mxE exchange_big /=; apply: eq_bigr => j _.
rewrite mxE big_distrl /=; apply: eq_bigr => i _.
by rewrite mxE mulrAC.
Qed.

Section Trace.
Variables (n : nat) (t : table).
Hypothesis ct : cube n t.

Let T := trace_form t n.

(** the trace functional on coordinate vectors *)
Definition lam (x : list Z) : Z := trace_val t x n.

Definition trf (v w : list Z) : Z := (zrv n v *m T *m (zrv n w)^T) 0 0.

Lemma trf_lam (v w : list Z) : size v = n -> size w = n -> trf v w = lam (tmul t n v w).
Proof.
move=> sv sw.
have [vw [E1 _ E2]] := trace_mul_form Checked ct sv sw.
move: E1; rewrite (mt_mul_tmul Checked ct sv sw) => -[e]; move: E2; rewrite -e.
rewrite (mt_trace_closed ct (size_tmul _ _ _ _)) /lam => -[->].
rewrite /trf bilmx_sum; apply: eq_bigr => i _; apply: eq_bigr => j _.
by rewrite !mxE !Lnth_nth.
Qed.

Hypothesis hc : tcomm t n.
Hypothesis ha : tassoc t n.

Lemma trf_assoc (v y z : list Z) : size v = n -> size y = n -> size z = n ->
  trf (tmul t n v y) z = trf v (tmul t n y z).
Proof. by move=> sv sy sz; rewrite !trf_lam ?size_tmul // ha. Qed.

Lemma trf_comm (v w : list Z) : size v = n -> size w = n -> trf v w = trf w v.
Proof. by move=> sv sw; rewrite !trf_lam // hc. Qed.

Lemma trf_units (i j : 'I_n) : trf (unit_vec n i) (unit_vec n j) = T i j.
Proof.
rewrite /trf !zrv_zrow !zrow_unit_vec -rowE trmx_delta -colE.
by rewrite !mxE.
Qed.

Lemma trace_form_sym : T^T = T.
Proof.
apply/matrixP => i j; rewrite mxE -!trf_units trf_comm //; exact: size_unit_vec.
Qed.

(** ** [trace_matrix] (ideal.rs:61-70) returns the list form of T *)
Lemma trace_matrix_zmx m (tr : list (list Z)) :
  trace_matrix m t = Done tr -> shape n n tr /\ zmx n n tr = T.
Proof.
have lt : length t = n by case/andP: ct => /eqP.
rewrite /trace_matrix /mt_deg lt => E.
have [L N] := mapM_inv _ _ _ E; rewrite List.seq_length in L N.
have row i : (i < n)%coq_nat -> length (List.nth i tr [::]) = n /\
    forall j, (j < n)%coq_nat -> List.nth j (List.nth i tr [::]) 0%Z = trf (unit_vec n i) (unit_vec n j).
  move=> hi; have := N i 0%nat [::] hi; rewrite List.seq_nth // -[(0 + i)%coq_nat]/i => Ni.
  have [L2 N2] := mapM_inv _ _ _ Ni; rewrite List.seq_length in L2 N2; split=> // j hj.
  have := N2 j 0%nat 0%Z hj; rewrite List.seq_nth // -[(0 + j)%coq_nat]/j.
  rewrite (mt_mul_tmul m ct (size_unit_vec n i) (size_unit_vec n j)) /=.
  rewrite (mt_trace_closed ct (size_tmul _ _ _ _)) => -[<-].
  by rewrite trf_lam ?size_unit_vec.
split.
  split=> //; apply/List.Forall_forall => r /(List.In_nth _ _ [::]) [i [hi <-]].
  by case: (row i); rewrite -?L.
apply/matrixP => i j; rewrite mxE.
have /ltP hi := ltn_ord i; have /ltP hj := ltn_ord j.
by case: (row i hi) => _ /(_ j hj) ->; rewrite trf_units.
Qed.
End Trace.

(** ** [scaled_identity] *)
Lemma scaled_identity_zmx n x : zmx n n (scaled_identity n x) = x%:M.
Proof.
apply/matrixP => i j; rewrite !mxE /scaled_identity.
have /ltP hi := ltn_ord i; have /ltP hj := ltn_ord j.
set f := fun i0 : nat => _.
rewrite (List.nth_indep _ [::] (f 0%nat)) ?List.map_length ?List.seq_length //.
rewrite List.map_nth List.seq_nth // /f -[(0 + i)%coq_nat]/(i : nat).
set g := fun j0 : nat => _.
rewrite (List.nth_indep _ 0%Z (g 0%nat)) ?List.map_length ?List.seq_length //.
rewrite List.map_nth List.seq_nth // /g -[(0 + j)%coq_nat]/(j : nat).
case: Nat.eqb_spec => [e|ne]; case: eqP => [e'|ne']; rewrite ?mulr1n ?mulr0n //.
- by case: ne'; apply: val_inj.
- by case: ne; rewrite e'.
Qed.

(** ** [tnt_matrix] (ideal.rs:75-79): tnt = tr * c^T *)
Lemma tnt_matrix_zmx n (tr c tnt : list (list Z)) :
  shape n n tr -> shape n n c -> tnt_matrix n tr c = Done tnt ->
  shape n n tnt /\ zmx n n tnt = zmx n n tr *m (zmx n n c)^T.
Proof.
move=> str sc E.
have [L N] := mapM_inv _ _ _ E; rewrite List.seq_length in L N.
have row i : (i < n)%coq_nat -> length (List.nth i tnt [::]) = n /\
    forall j, (j < n)%coq_nat -> List.nth j (List.nth i tnt [::]) 0%Z
      = \sum_(k < n) ent tr i k * ent c j k.
  move=> hi; have := N i 0%nat [::] hi; rewrite List.seq_nth // -[(0 + i)%coq_nat]/i => Ni.
  have [L2 N2] := mapM_inv _ _ _ Ni; rewrite List.seq_length in L2 N2; split=> // j hj.
  have := N2 j 0%nat 0%Z hj; rewrite List.seq_nth // -[(0 + j)%coq_nat]/j.
  pose g (k : nat) (s : Z) := s + ent tr i k * ent c j k.
  pose body (k : nat) (s : Z) := bind (Hnf.get tr i k) (fun x => bind (Hnf.get c j k) (fun y => Done (s + x * y))).
  have step k s : k \in Hnf.range 0 n -> True -> body k s = Done (g k s) /\ True.
    rewrite range0_eq mem_iota add0n => /andP[_ /ltP hk] _; split=> //.
    by rewrite /body (HnfTerm.get_ok tr i k n n str hi hk) (HnfTerm.get_ok c j k n n sc hj hk).
  have [-> _] := for_loop_foldl (P := fun _ => True) (s := 0) step I.
  rewrite range0_eq foldl_sum add0r => -[<-].
  by rewrite -(big_mkord xpredT (fun k => ent tr i k * ent c j k)) /index_iota subn0.
split.
  split=> //; apply/List.Forall_forall => r /(List.In_nth _ _ [::]) [i [hi <-]].
  by case: (row i); rewrite -?L.
apply/matrixP => i j; rewrite !mxE.
have /ltP hi := ltn_ord i; have /ltP hj := ltn_ord j.
case: (row i hi) => _ /(_ j hj) ->; apply: eq_bigr => k _.
by rewrite !mxE.
Qed.

(** [tnt_matrix] returns only if [c] has at least n rows *)
Lemma tnt_matrix_rows n (tr c tnt : list (list Z)) :
  (0 < n)%nat -> tnt_matrix n tr c = Done tnt -> (n <= length c)%nat.
Proof.
move=> n0 E; case: (leqP n (length c)) => // /ltP lt.
have [_ N] := mapM_inv _ _ _ E; rewrite List.seq_length in N.
have /ltP h0 : (0 < n)%nat by [].
have := N 0%nat 0%nat [::] h0; rewrite List.seq_nth // => N0.
have [_ N2] := mapM_inv _ _ _ N0; rewrite List.seq_length in N2.
have := N2 (length c) 0%nat 0%Z lt; rewrite List.seq_nth //= /Hnf.range Nat.sub_0_r.
case: n n0 {E N N0 N2 h0 lt} => // n' _ /=.
rewrite /Hnf.get.
have -> : nth_chk c (length c) = Panic PIndex.
  by rewrite /nth_chk; have /List.nth_error_None -> : (length c <= length c)%coq_nat by lia.
by case: (nth_chk tr 0) => //= r; case: (nth_chk r 0).
Qed.
