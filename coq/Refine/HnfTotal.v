(** * HnfTotal: totality of the derived entry points and the equational forms of canonicity. *)
From Coq Require Import ZArith List Lia Bool Permutation.
From RNT.Model Require Import Base Hnf.
From RNT.Refine Require Import MatZ HnfOps HnfSteps HnfSpec HnfLoop HnfMain HnfUnique HnfCanon HnfTerm.
Import ListNotations.
Open Scope Z_scope.

Theorem hnf_with_ker_total A n m :
  shape n m A -> (1 <= n)%nat -> (1 <= m)%nat -> exists H K, hnf_with_ker A = Done (H, K).
Proof.
  intros HS Hn Hm. destruct (hnf_with_u_total A n m HS Hn Hm) as (H & U & k & E).
  destruct (hnf_with_u_correct A n m H U k HS Hn Hm E) as (_ & [HUn _] & _ & _ & Hcnt).
  unfold hnf_with_ker. rewrite E. cbn [bind].
  destruct (Nat.leb_spec k (length U)); [eauto|lia].
Qed.

Theorem hnf_new_total A n m :
  shape n m A -> (1 <= n)%nat -> (1 <= m)%nat -> exists H, hnf_new A = Done H.
Proof.
  intros HS Hn Hm. destruct (hnf_with_ker_total A n m HS Hn Hm) as (H & K & E).
  unfold hnf_new. rewrite E. cbn [bind]. eauto.
Qed.

Theorem hnf_kernel_total A n m :
  shape n m A -> (1 <= n)%nat -> (1 <= m)%nat -> exists K, hnf_kernel A = Done K.
Proof.
  intros HS Hn Hm. destruct (hnf_with_ker_total A n m HS Hn Hm) as (H & K & E).
  unfold hnf_kernel. rewrite E. cbn [bind]. eauto.
Qed.

(** [hnf_canonical], equational form: matrices generating the same lattice have the same HNF *)
Theorem hnf_canonical_eq A B n n' m :
  shape n m A -> shape n' m B -> (1 <= n)%nat -> (1 <= n')%nat -> (1 <= m)%nat ->
  same_rowspanZ m A B -> hnf_new A = hnf_new B.
Proof.
  intros SA SB Hn Hn' Hm Hs.
  destruct (hnf_new_total A n m SA Hn Hm) as [HA EA].
  destruct (hnf_new_total B n' m SB Hn' Hm) as [HB EB].
  rewrite EA, EB. f_equal. apply (hnf_canonical A B n n' m); auto.
Qed.

Lemma check_widths_ok m a : wf m a -> check_widths m a = Done tt.
Proof.
  induction a as [|r a IH]; simpl; intros H; auto.
  apply wf_cons in H. destruct H as [Hr Ha]. rewrite Hr, Nat.eqb_refl. auto.
Qed.

(** [union_spec], equational form *)
Theorem union_eq A B na nb m HA HB :
  shape na m A -> shape nb m B -> (1 <= na)%nat -> (1 <= nb)%nat -> (1 <= m)%nat ->
  hnf_new A = Done HA -> hnf_new B = Done HB -> HA <> [] -> HB <> [] ->
  hnf_union HA HB = hnf_new (A ++ B).
Proof.
  intros SA SB Hna Hnb Hm EA EB NA NB.
  destruct (hnf_new_correct A na m HA SA Hna Hm EA) as (_ & WA & _).
  destruct (hnf_new_correct B nb m HB SB Hnb Hm EB) as (_ & WB & _).
  assert (SAB : shape (na + nb) m (A ++ B)).
  { destruct SA, SB. split; [rewrite app_length; lia|apply wf_app; auto]. }
  destruct (hnf_new_total (A ++ B) (na + nb) m SAB ltac:(lia) Hm) as [R' ER'].
  assert (EU : exists R, hnf_union HA HB = Done R).
  { destruct HA as [|a0 HA']; [congruence|]. destruct HB as [|b0 HB']; [congruence|].
    unfold hnf_union.
    assert (La : length a0 = m) by (apply wf_cons in WA; tauto).
    assert (Lb : length b0 = m) by (apply wf_cons in WB; tauto).
    rewrite La, Lb, Nat.eqb_refl. cbn [assert_ bind].
    rewrite !check_widths_ok by auto. cbn [bind].
    apply (hnf_new_total _ (length ((a0 :: HA') ++ b0 :: HB')) m); auto.
    - split; auto. apply wf_app; auto.
    - simpl. lia. }
  destruct EU as [R EU]. rewrite EU, ER'. f_equal.
  apply (union_spec A B na nb m HA HB R R'); auto.
Qed.

(** equational forms of the corollaries *)
Corollary hnf_permutation_eq A B n m :
  shape n m A -> (1 <= n)%nat -> (1 <= m)%nat -> Permutation A B -> hnf_new A = hnf_new B.
Proof.
  intros SA Hn Hm HP.
  assert (SB : shape n m B).
  { destruct SA as [L W]. split; [rewrite <- (Permutation_length HP); auto|].
    unfold wf in *. apply (Permutation_Forall HP); auto. }
  destruct (hnf_new_total A n m SA Hn Hm) as [HA EA].
  destruct (hnf_new_total B n m SB Hn Hm) as [HB EB].
  rewrite EA, EB. f_equal. apply (hnf_permutation A B n m); auto.
Qed.

Corollary hnf_rebase_eq A T n m :
  shape n m A -> (1 <= n)%nat -> (1 <= m)%nat -> shape n n T -> unimodular n T ->
  hnf_new (mmul m T A) = hnf_new A.
Proof.
  intros SA Hn Hm ST HT.
  assert (SB : shape n m (mmul m T A)) by (apply mmul_shape; [apply ST|apply SA]).
  destruct (hnf_new_total A n m SA Hn Hm) as [HA EA].
  destruct (hnf_new_total _ n m SB Hn Hm) as [HB EB].
  rewrite EA, EB. f_equal. symmetry. apply (hnf_rebase A T n m); auto.
Qed.

Corollary hnf_append_dependent_eq A D n m :
  shape n m A -> (1 <= n)%nat -> (1 <= m)%nat ->
  Forall (fun r => In_rowspanZ m r A) D -> wf m D ->
  hnf_new (A ++ D) = hnf_new A.
Proof.
  intros SA Hn Hm HD HDw.
  assert (SB : shape (n + length D) m (A ++ D)).
  { destruct SA as [L W]. split; [rewrite app_length; lia|apply wf_app; auto]. }
  destruct (hnf_new_total A n m SA Hn Hm) as [HA EA].
  destruct (hnf_new_total _ _ m SB ltac:(lia) Hm) as [HB EB].
  rewrite EA, EB. f_equal. symmetry. apply (hnf_append_dependent A D n m); auto.
Qed.
