(** Round 2 driver: control-flow facts (stdlib + lia). *)
From RNT.Model Require Import Base Poly Algebraic LinAlg MultTable Order Round2.
From RNT.Model Require Hnf Elementary Resultant.
From Coq Require Import QArith Qcanon Lia.
Open Scope Z_scope.

Lemma disc_linear m c0 c1 : c1 <> 0 -> Resultant.discriminant m [c0; c1] = (true, Done 1).
Proof.
  intros H.
  unfold Resultant.discriminant, Resultant.resultant, Resultant.resultant_smart, pdiff.
  cbn [diff_raw from_raw strip opsZ rmul rofZ is0 reqb r0].
  rewrite Z.mul_1_r.
  destruct (c1 =? 0) eqn:E; [lia|].
  assert (L : Resultant.smart_loop m (Resultant.loop_fuel [c1]) [c0; c1] [c1] 1 1 1 true = (true, Done c1)).
  { cbn. destruct m; cbn; rewrite Z.mul_1_r, Z.quot_1_r, Z.rem_1_r; reflexivity. }
  rewrite L. cbn. rewrite E. rewrite Z.rem_same, Z.quot_same by assumption. reflexivity.
Qed.

Definition qvals (o : qmat) : list (list Q) := map (map (fun q : Qc => this q)) o.

Lemma nm_linear c0 c1 : exists o, non_monic_initial_order [c0; c1] = Done o /\ qvals o = [[1#1]]%Q.
Proof. eexists. split. vm_compute. reflexivity. reflexivity. Qed.

Theorem find_integral_basis_deg1 m c0 c1 :
  c1 <> 0 ->
  exists o, find_integral_basis m [c0; c1] = Done o /\ non_monic_initial_order [c0; c1] = Done o
            /\ qvals o = [[1#1]]%Q.
Proof.
  intros H.
  remember (non_monic_initial_order [c0; c1]) as r eqn:Hr.
  assert (Hr' := Hr). vm_compute in Hr'.
  match type of Hr' with _ = Done ?o => exists o end.
  split; [|split; [assumption | reflexivity]].
  unfold find_integral_basis. rewrite <- Hr, Hr'. cbn [bind].
  unfold order_disc. rewrite disc_linear by assumption. cbn [snd bind].
  destruct m; vm_compute; reflexivity.
Qed.

(** ** Loop structure of [find_integral_basis] *)

(** [reachable f o o']: [o'] is obtained from [o] by finitely many Round 2 steps (at any primes). *)
Inductive reachable (f : list Z) (o : qmat) : qmat -> Prop :=
| reach_refl : reachable f o o
| reach_step o1 p o' h : reachable f o o1 -> one_step f o1 p = Done (o', h) -> reachable f o o'.

Lemma reachable_trans f a b c : reachable f a b -> reachable f b c -> reachable f a c.
Proof. intros Hab Hbc. induction Hbc; [assumption|]. eapply reach_step; eassumption. Qed.

(** One run of the [while e >= 2] loop at the prime [p] (mod.rs:15-22), from [(e, o)] to the
    final [(e', o')], with the list [hs] of the values [howmany] returned by the steps:
    - [run_small]: the loop condition fails;
    - [run_break]: the step returns [howmany = 0] and the loop breaks;
    - [run_more]: the step enlarges the order, [e -= 2 * howmany] (u64 arithmetic), next turn. *)
Inductive prime_run (m : mode) (f : list Z) (p : Z) : Z -> qmat -> list Z -> Z -> qmat -> Prop :=
| run_small e o : e < 2 -> prime_run m f p e o [] e o
| run_break e o o' : 2 <= e -> one_step f o p = Done (o', 0) -> prime_run m f p e o [0] e o'
| run_more e o o1 h t e1 hs e' o' :
    2 <= e -> one_step f o p = Done (o1, h) -> h <> 0 ->
    u64_norm m (2 * h) = Done t -> u64_norm m (e - t) = Done e1 ->
    prime_run m f p e1 o1 hs e' o' -> prime_run m f p e o (h :: hs) e' o'.

Lemma u64_norm_0 m : u64_norm m 0 = Done 0.
Proof. reflexivity. Qed.

Lemma prime_loop_run m f p : forall fuel o e o',
  prime_loop fuel m f o p e = Done o' -> exists hs e', prime_run m f p e o hs e' o'.
Proof.
  induction fuel as [|fu IH]; intros o e o' H; [discriminate|].
  cbn [prime_loop] in H.
  destruct (2 <=? e) eqn:E.
  - destruct (one_step f o p) as [[o1 h]| |] eqn:S; cbn [bind] in H; try discriminate.
    destruct (u64_norm m (2 * h)) as [t| |] eqn:T; cbn [bind] in H; try discriminate.
    destruct (u64_norm m (e - t)) as [e1| |] eqn:E1; cbn [bind] in H; try discriminate.
    destruct (h =? 0) eqn:Hh.
    + injection H as <-. apply Z.eqb_eq in Hh. subst h.
      exists [0], e. apply run_break; [lia|assumption].
    + destruct (IH _ _ _ H) as [hs [e' R]].
      exists (h :: hs), e'. eapply run_more; try eassumption; lia.
  - injection H as <-. exists [], e. apply run_small. lia.
Qed.

(** every run is a chain of steps *)
Lemma prime_run_reachable m f p e o hs e' o' : prime_run m f p e o hs e' o' -> reachable f o o'.
Proof.
  induction 1.
  - apply reach_refl.
  - eapply reach_step; [apply reach_refl|eassumption].
  - eapply reachable_trans; [|eassumption]. eapply reach_step; [apply reach_refl|eassumption].
Qed.

(** the exit condition: the remaining exponent is < 2, or the last step returned [howmany = 0]
    (index 1) on an order reachable from the one the run started with *)
Lemma prime_run_exit m f p e o hs e' o' :
  prime_run m f p e o hs e' o' ->
  e' < 2 \/ (2 <= e' /\ exists ol, reachable f o ol /\ one_step f ol p = Done (o', 0)).
Proof.
  induction 1.
  - left. assumption.
  - right. split; [assumption|]. exists o. split; [apply reach_refl|assumption].
  - destruct IHprime_run as [L|[L [ol [R S]]]]; [left; assumption|].
    right. split; [assumption|]. exists ol. split; [|assumption].
    eapply reachable_trans; [|eassumption]. eapply reach_step; [apply reach_refl|eassumption].
Qed.

(** exponent bookkeeping in the dev profile: no wrap-around, [e' = e - 2 * sum hs], all [h >= 0] *)
Lemma u64_norm_checked x y : u64_norm Checked x = Done y -> y = x /\ 0 <= x < two64.
Proof.
  unfold u64_norm. destruct ((0 <=? x) && (x <? two64)) eqn:E; [|discriminate].
  intros H. injection H as <-. apply andb_prop in E. lia.
Qed.

Lemma prime_run_checked_sum f p e o hs e' o' :
  prime_run Checked f p e o hs e' o' ->
  e' = e - 2 * fold_right Z.add 0 hs /\ Forall (fun h => 0 <= h) hs /\ (0 <= e -> 0 <= e').
Proof.
  induction 1.
  - cbn. split; [lia|]. split; [constructor|lia].
  - cbn. split; [lia|]. split; [repeat constructor; lia|lia].
  - apply u64_norm_checked in H2, H3. destruct IHprime_run as [A [B C]].
    cbn [fold_right]. split; [lia|]. split; [constructor; [lia|assumption]|]. intros _. apply C. lia.
Qed.

(** The [for] loop over the factorisation (mod.rs:14-23). *)
Inductive primes_run (m : mode) (f : list Z) : list (Z * Z) -> qmat -> qmat -> Prop :=
| pr_nil o : primes_run m f [] o o
| pr_cons p e rest o hs e' o1 o' :
    prime_run m f p e o hs e' o1 -> primes_run m f rest o1 o' ->
    primes_run m f ((p, e) :: rest) o o'.

Lemma primes_loop_run m f : forall fac o o',
  primes_loop m f fac o = Done o' -> primes_run m f fac o o'.
Proof.
  induction fac as [|[p e] rest IH]; intros o o' H; cbn [primes_loop] in H.
  - injection H as <-. constructor.
  - destruct (prime_loop (prime_fuel e) m f o p e) as [o1| |] eqn:P; cbn [bind] in H; try discriminate.
    destruct (prime_loop_run _ _ _ _ _ _ _ P) as [hs [e' R]].
    econstructor; [eassumption|]. apply IH. assumption.
Qed.

Lemma primes_run_reachable m f fac o o' : primes_run m f fac o o' -> reachable f o o'.
Proof.
  induction 1; [apply reach_refl|].
  eapply reachable_trans; [eapply prime_run_reachable; eassumption|assumption].
Qed.

(** [P] find_integral_basis_fixpoint *)
Theorem find_integral_basis_fixpoint m f O :
  find_integral_basis m f = Done O ->
  exists o0 disc fac,
    non_monic_initial_order f = Done o0 /\ order_disc m o0 f = Done disc /\
    Elementary.trial_factorize (Z.abs disc) = Done fac /\
    primes_run m f fac o0 O /\ reachable f o0 O.
Proof.
  unfold find_integral_basis. intros H.
  destruct (non_monic_initial_order f) as [o0| |] eqn:E0; cbn [bind] in H; try discriminate.
  destruct (order_disc m o0 f) as [disc| |] eqn:E1; cbn [bind] in H; try discriminate.
  destruct (Elementary.trial_factorize (Z.abs disc)) as [fac| |] eqn:E2; cbn [bind] in H; try discriminate.
  exists o0, disc, fac. split; [reflexivity|]. split; [assumption|]. split; [assumption|]. split.
  - apply primes_loop_run. assumption.
  - eapply primes_run_reachable. apply primes_loop_run. eassumption.
Qed.

(** the fuel of the [while] loop suffices in the dev profile *)
Lemma prime_loop_fuel f p : (forall o, one_step f o p <> OutOfFuel) ->
  forall fuel o e, (1 <= fuel)%nat -> e < 2 * Z.of_nat fuel -> prime_loop fuel Checked f o p e <> OutOfFuel.
Proof.
  intros NF. induction fuel as [|fu IH]; intros o e F1 F2; [lia|].
  cbn [prime_loop].
  destruct (2 <=? e) eqn:E; [|discriminate].
  specialize (NF o).
  destruct (one_step f o p) as [[o1 h]| |] eqn:S; cbn [bind]; try discriminate; [|congruence].
  destruct (u64_norm Checked (2 * h)) as [t| |] eqn:T; cbn [bind]; try discriminate.
  - destruct (u64_norm Checked (e - t)) as [e1| |] eqn:E1; cbn [bind]; try discriminate.
    + destruct (h =? 0) eqn:Hh; [discriminate|].
      apply u64_norm_checked in T, E1. apply IH; lia.
    + unfold u64_norm in E1. destruct ((0 <=? e - t) && (e - t <? two64)); discriminate.
  - unfold u64_norm in T. destruct ((0 <=? 2 * h) && (2 * h <? two64)); discriminate.
Qed.

Lemma prime_loop_fuel_ok f p o e : (forall o, one_step f o p <> OutOfFuel) ->
  prime_loop (prime_fuel e) Checked f o p e <> OutOfFuel.
Proof. intros NF. apply prime_loop_fuel; [assumption| |]; unfold prime_fuel; lia. Qed.
