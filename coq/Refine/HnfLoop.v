(** * HnfLoop: the loops of [hnf_with_u]: every state is reached by elementary operations
      ([Inv]: [U * A0 = A], [U] unimodular), and the column sweep builds the normal form. *)
From Coq Require Import ZArith List Lia Bool.
From RNT.Model Require Import Base Hnf.
From RNT.Refine Require Import MatZ HnfOps HnfSteps HnfSpec.
Import ListNotations.
Open Scope Z_scope.

Tactic Notation "ibind" hyp(H) "as" ident(x) ident(Hx) :=
  apply bind_Done in H; destruct H as [x [Hx H]].

Lemma ent_row_eq a a' r c : row a' r = row a r -> ent a' r c = ent a r c.
Proof. unfold ent; intros ->; auto. Qed.

(** ** skipn / firstn on matrices *)
Lemma row_skipn (a : mat) s t : row (skipn s a) t = row a (s + t).
Proof.
  revert a; induction s as [|s IH]; intros a; simpl; auto.
  destruct a as [|r a]; simpl.
  - unfold row. destruct t; auto.
  - rewrite IH. reflexivity.
Qed.

Lemma skipn_cons_row (a : mat) k : (k < length a)%nat -> skipn k a = row a k :: skipn (S k) a.
Proof.
  revert a; induction k as [|k IH]; intros [|r a] Hk; simpl in *; try lia; auto.
  rewrite IH by lia. reflexivity.
Qed.

Lemma skipn_ext (a a' : mat) s :
  length a' = length a -> (forall r, (s <= r < length a)%nat -> row a' r = row a r) ->
  skipn s a' = skipn s a.
Proof.
  intros Hl H. apply mat_ext.
  - rewrite !skipn_length. lia.
  - intros t Ht. rewrite skipn_length in Ht. rewrite !row_skipn. apply H. lia.
Qed.

Lemma In_skipn_row (a : mat) s r : In r (skipn s a) -> exists j, (s <= j < length a)%nat /\ r = row a j.
Proof.
  intros Hin. apply In_nth with (d := []) in Hin. destruct Hin as [t [Ht <-]].
  rewrite skipn_length in Ht. exists (s + t)%nat. split; [lia|]. apply (row_skipn a s t).
Qed.

Lemma firstn_zero_rows m (a : mat) k :
  (k <= length a)%nat -> (forall j, (j < k)%nat -> row a j = vzero m) -> firstn k a = repeat (vzero m) k.
Proof.
  revert a; induction k as [|k IH]; intros a Hk H; simpl; auto.
  destruct a as [|r a]; simpl in Hk; [lia|]. f_equal.
  - apply (H 0%nat). lia.
  - apply IH; [lia|]. intros j Hj. apply (H (S j)). lia.
Qed.

(** ** the reduction loops *)
Lemma reduce_loop A0 n m i b k :
  shape n m A0 -> (k < n)%nat -> forall js a u a' u',
  Inv A0 n m a u -> ~ In k js -> NoDup js ->
  for_loop js (reduce_row m n i b k) (a, u) = Done (a', u') ->
  Inv A0 n m a' u' /\
  (forall r, (r < n)%nat -> ~ In r js -> row a' r = row a r) /\
  (forall j, In j js -> (j < n)%nat /\ b <> 0 /\
             forall c, ent a' j c = ent a j c - ent a k c * (ent a j i / b)).
Proof.
  intros HS0 Hk. induction js as [|j js IH]; intros a u a' u' HI Hnk Hnd H.
  - simpl in H. inversion H; subst. split; auto. split; auto. intros j [].
  - simpl in H. ibind H as st E. destruct st as [a1 u1].
    pose proof HI as (Ha & Hu & _ & _).
    apply reduce_row_Done in E; auto. destruct E as (Hj & _ & Hb & -> & ->).
    assert (Hjk : j <> k) by (intro; subst; apply Hnk; left; auto).
    set (q := ent a j i / b) in *.
    assert (Hv : eop_valid n (ESubmul j k q)) by (simpl; auto).
    assert (HI1 := Inv_op A0 n m _ a u HS0 Hv HI).
    inversion Hnd as [|? ? Hnj Hnd']; subst.
    destruct (IH _ _ _ _ HI1 (fun h => Hnk (or_intror h)) Hnd' H) as (HI' & Hrows & Hents).
    split; auto.
    assert (R1 : forall r, (r < n)%nat -> r <> j -> row (apply_eop (ESubmul j k q) a) r = row a r).
    { intros r Hr Hrj. rewrite (row_apply_eop n); auto; [|apply Ha].
      destruct (Nat.eqb_spec r j); [contradiction|auto]. }
    split.
    + intros r Hr Hnin. rewrite Hrows; [|auto|intro h; apply Hnin; right; auto].
      apply R1; auto. intro; subst; apply Hnin; left; auto.
    + intros j' [<-|Hj'].
      * split; auto. split; auto. intros c.
        rewrite (ent_row_eq _ _ j c (Hrows j Hj Hnj)).
        rewrite (ent_apply_eop n m); auto. rewrite Nat.eqb_refl. reflexivity.
      * destruct (Hents j' Hj') as (Hj'n & _ & He). split; auto. split; auto.
        intros c. rewrite He.
        assert (Hne : j' <> j) by (intro; subst; contradiction).
        rewrite (ent_row_eq _ _ j' c (R1 j' Hj'n Hne)), (ent_row_eq _ _ j' i (R1 j' Hj'n Hne)).
        rewrite (ent_row_eq _ _ k c (R1 k Hk (not_eq_sym Hjk))). reflexivity.
Qed.

(** ** operations among the rows [0..=k] *)
Definition zero_upto (k c : nat) (a : mat) : Prop := forall j, (j <= k)%nat -> ent a j c = 0.

Definition LeK (k n : nat) (a a' : mat) : Prop :=
  (forall r, (k < r < n)%nat -> row a' r = row a r) /\
  (forall c, zero_upto k c a -> zero_upto k c a').

Lemma LeK_refl k n a : LeK k n a a.
Proof. split; auto. Qed.

Lemma LeK_trans k n a b c : LeK k n a b -> LeK k n b c -> LeK k n a c.
Proof.
  intros [H1 H2] [H3 H4]. split.
  - intros r Hr. rewrite H3, H1; auto.
  - intros col Hz. apply H4, H2, Hz.
Qed.

Definition eop_le (k : nat) (op : eop) : Prop :=
  match op with
  | ESwap j k' => (j <= k /\ k' <= k)%nat
  | ENeg k' => (k' <= k)%nat
  | ESubmul j k' _ => (j <= k /\ k' <= k)%nat
  end.

Lemma LeK_op n m k op a :
  shape n m a -> (k < n)%nat -> eop_valid n op -> eop_le k op -> LeK k n a (apply_eop op a).
Proof.
  intros HS Hk Hv Hle. split.
  - intros r Hr. rewrite (row_apply_eop n); auto; [|apply HS|lia].
    destruct op; simpl in *;
      repeat match goal with |- context[(?x =? ?y)%nat] => destruct (Nat.eqb_spec x y); try lia end; auto.
  - intros c Hz j Hj. rewrite (ent_apply_eop n m); auto; [|lia].
    destruct op; simpl in *;
      repeat match goal with |- context[(?x =? ?y)%nat] => destruct (Nat.eqb_spec x y); try lia end;
      rewrite ?Hz by lia; lia.
Qed.

(** ** the inner loop (hnf.rs:141-188) *)
Lemma hnf_inner_spec A0 n m i k :
  shape n m A0 -> (k < n)%nat -> forall fuel a u a' u',
  Inv A0 n m a u -> hnf_inner fuel m n i k a u = Done (a', u') ->
  Inv A0 n m a' u' /\ LeK k n a a' /\ (forall j, (j < k)%nat -> ent a' j i = 0) /\ 0 <= ent a' k i.
Proof.
  intros HS0 Hk. induction fuel as [|f IH]; intros a u a' u' HI H; [discriminate|].
  cbn [hnf_inner] in H. ibind H as allzero E. destruct allzero.
  - (* Step 2: the column is finished *)
    pose proof (col_all_zero_true _ _ _ E) as Hz.
    ibind H as x Ex. apply get_Done in Ex. destruct Ex as (_ & _ & ->).
    pose proof HI as (Ha & _).
    destruct (Z.ltb_spec (ent a k i) 0) as [Hneg|Hpos].
    + ibind H as a1 E1. ibind H as u1 E2. inversion H; subst; clear H.
      apply neg_row_Done in E1. apply neg_row_Done in E2.
      destruct E1 as [_ ->]. destruct E2 as [_ ->].
      assert (Hv : eop_valid n (ENeg k)) by (simpl; auto).
      split; [apply Inv_op; auto|]. split; [apply (LeK_op n m); simpl; auto|].
      split.
      * intros j Hj. rewrite (ent_apply_eop n m); auto; [|lia].
        destruct (Nat.eqb_spec j k); [lia|]. apply Hz. apply in_range. lia.
      * rewrite (ent_apply_eop n m); auto. rewrite Nat.eqb_refl. lia.
    + inversion H; subst. split; auto. split; [apply LeK_refl|]. split; auto.
      intros j Hj; apply Hz, in_range; lia.
  - (* Steps 3 and 4 *)
    ibind H as oind Eo. destruct oind as [ind|]; [|discriminate].
    apply col_position_Some in Eo. destruct Eo as [Hind _]. apply in_range in Hind.
    ibind H as x0 Ex0. ibind H as mi Emi.
    apply min_loop_index in Emi. simpl snd in Emi.
    assert (Hj0 : (snd mi <= k)%nat).
    { destruct Emi as [->|Hin]; [lia|apply in_range in Hin; lia]. }
    cbv zeta in H.
    ibind H as a1 Ea1. ibind H as u1 Eu1.
    apply swap_rows_Done in Ea1. apply swap_rows_Done in Eu1.
    destruct Ea1 as (_ & _ & ->). destruct Eu1 as (_ & _ & ->).
    ibind H as b Eb. ibind H as t Et. ibind H as st Est. destruct st as [a2 u2].
    pose proof HI as (Ha & _).
    assert (Hv : eop_valid n (ESwap (snd mi) k)) by (simpl; lia).
    assert (HI1 := Inv_op A0 n m _ a u HS0 Hv HI).
    assert (L1 : LeK k n a (apply_eop (ESwap (snd mi) k) a)) by (apply (LeK_op n m); simpl; auto; lia).
    pose proof HI1 as (Ha1 & _).
    assert (Hnk : ~ In k (range 0 k)) by (rewrite in_range; lia).
    destruct (reduce_loop A0 n m i b k HS0 Hk _ _ _ _ _ HI1 Hnk (range_NoDup _ _) Est)
      as (HI2 & Hrows & Hents).
    assert (L2 : LeK k n (apply_eop (ESwap (snd mi) k) a) a2).
    { split.
      - intros r Hr. apply Hrows; [lia|]. rewrite in_range. lia.
      - intros c Hz j Hj. destruct (Nat.eq_dec j k) as [->|Hne].
        + rewrite (ent_row_eq _ _ k c (Hrows k Hk Hnk)). apply Hz; auto.
        + assert (Hin : In j (range 0 k)) by (apply in_range; lia).
          destruct (Hents j Hin) as (_ & _ & He). rewrite He, !Hz by lia. lia. }
    destruct (IH _ _ _ _ HI2 H) as (HI' & L3 & Hzero & Hpos).
    split; auto. split; auto.
    eapply LeK_trans; [exact L1|]. eapply LeK_trans; [exact L2|exact L3].
Qed.

(** ** the column sweep (hnf.rs:140-216) *)
Lemma hnf_cols_spec A0 n m :
  shape n m A0 -> forall i1 a u k a' u' k',
  Inv A0 n m a u -> (k < n)%nat -> (1 <= i1 <= m)%nat ->
  (forall j c, (j <= k)%nat -> (i1 <= c)%nat -> ent a j c = 0) ->
  hnf_rows m i1 (skipn (S k) a) ->
  hnf_cols i1 m n a u k = Done (a', u', k') ->
  Inv A0 n m a' u' /\ (k' <= n)%nat /\
  (forall j c, (j < k')%nat -> ent a' j c = 0) /\ hnf_rows m 0 (skipn k' a').
Proof.
  intros HS0. induction i1 as [|i IH]; intros a u k a' u' k' HI Hk Hi1 Hzero Hrows H; [lia|].
  cbn [hnf_cols] in H.
  ibind H as st1 Einner. destruct st1 as [a1 u1].
  destruct (hnf_inner_spec A0 n m i k HS0 Hk _ _ _ _ _ HI Einner) as (HI1 & [Lrows Lzero] & Hcol & Hnonneg).
  ibind H as x Ex. apply get_Done in Ex. destruct Ex as (_ & _ & ->).
  pose proof HI as ([Han Haw] & _). pose proof HI1 as ([Ha1n Ha1w] & _).
  assert (Hz1 : forall j c, (j <= k)%nat -> (S i <= c)%nat -> ent a1 j c = 0).
  { intros j c Hj Hc. apply (Lzero c); auto. intros j' Hj'. apply Hzero; auto. }
  assert (Hsk : skipn (S k) a1 = skipn (S k) a).
  { apply skipn_ext; [congruence|]. intros r Hr. apply Lrows. lia. }
  ibind H as st2 E5. destruct st2 as [[a2 u2] k2].
  destruct (Z.eqb_spec (ent a1 k i) 0) as [Hx0|Hx0].
  - (* no pivot in this column *)
    inversion E5; subst a2 u2 k2; clear E5.
    assert (Hz2 : forall j c, (j <= k)%nat -> (i <= c)%nat -> ent a1 j c = 0).
    { intros j c Hj Hc. destruct (Nat.eq_dec c i) as [->|Hne]; [|apply Hz1; auto; lia].
      destruct (Nat.eq_dec j k) as [->|Hjk]; auto. apply Hcol; lia. }
    assert (Hr2 : hnf_rows m i (skipn (S k) a1)).
    { rewrite Hsk. apply hnf_rows_weaken with (S i); auto. }
    destruct (Nat.eqb_spec i 0) as [Hi0|Hi0].
    + simpl in H. inversion H; subst a' u' k'; clear H. subst i.
      split; auto. split; [lia|]. split.
      * intros j c Hj. apply Hz2; lia.
      * exact Hr2.
    + simpl in H. rewrite Nat.sub_0_r in H.
      apply (IH _ _ _ _ _ _ HI1 Hk ltac:(lia) Hz2 Hr2 H).
  - (* pivot at (k, i): final reductions of the rows below *)
    ibind E5 as st3 Ered. destruct st3 as [a3 u3]. inversion E5; subst a3 u3 k2; clear E5.
    assert (Hnk : ~ In k (range (k + 1) n)) by (rewrite in_range; lia).
    destruct (reduce_loop A0 n m i (ent a1 k i) k HS0 Hk _ _ _ _ _ HI1 Hnk (range_NoDup _ _) Ered)
      as (HI2 & Hsame & Hents).
    pose proof HI2 as ([Ha2n Ha2w] & _).
    assert (Hxpos : 0 < ent a1 k i) by lia.
    assert (Hlow : forall r, (r <= k)%nat -> row a2 r = row a1 r).
    { intros r Hr. apply Hsame; [lia|]. rewrite in_range. lia. }
    assert (Hr3 : hnf_rows m i (skipn k a2)).
    { rewrite (skipn_cons_row a2 k) by lia.
      apply hr_cons with i.
      - lia.
      - apply (wf_row m a2); auto; lia.
      - rewrite Hlow by lia. exact Hxpos.
      - intros c Hc. rewrite Hlow by lia. apply (Hz1 k c); lia.
      - intros r' Hr'. apply In_skipn_row in Hr'. destruct Hr' as [j [Hj ->]].
        assert (Hin : In j (range (k + 1) n)) by (apply in_range; lia).
        destruct (Hents j Hin) as (_ & _ & He).
        change (nth i (row a2 j) 0) with (ent a2 j i). rewrite Hlow by lia.
        change (nth i (row a1 k) 0) with (ent a1 k i). rewrite He.
        pose proof (Z.mod_pos_bound (ent a1 j i) (ent a1 k i) Hxpos) as Hm.
        rewrite Z.mod_eq in Hm by lia. lia.
      - apply hnf_rows_agree with (skipn (S k) a).
        + exact Hrows.
        + rewrite !skipn_length. lia.
        + unfold wf in *. rewrite Forall_forall in *. intros r Hr. apply Ha2w.
          apply In_skipn_row in Hr. destruct Hr as [j [Hj ->]]. apply nth_In. lia.
        + intros t c Hc. rewrite <- Hsk. unfold ent. rewrite !row_skipn.
          change (ent a2 (S k + t) c = ent a1 (S k + t) c).
          destruct (Nat.lt_ge_cases (S k + t) n) as [Hlt|Hge].
          * assert (Hin : In (S k + t)%nat (range (k + 1) n)) by (apply in_range; lia).
            destruct (Hents _ Hin) as (_ & _ & He). rewrite He.
            rewrite (Hz1 k c) by lia. lia.
          * unfold ent, row. rewrite !(nth_overflow _ []) by lia. reflexivity. }
    assert (Hz3 : forall j c, (j < k)%nat -> (i <= c)%nat -> ent a2 j c = 0).
    { intros j c Hj Hc. rewrite (ent_row_eq _ _ j c (Hlow j ltac:(lia))).
      destruct (Nat.eq_dec c i) as [->|Hne]; [apply Hcol; auto|apply Hz1; lia]. }
    destruct ((k =? 0)%nat || (i =? 0)%nat) eqn:Hexit.
    + inversion H; subst a' u' k'; clear H.
      split; auto. split; [lia|]. split.
      * intros j c Hj. apply orb_true_iff in Hexit. destruct Hexit as [Hk0|Hi0].
        -- apply Nat.eqb_eq in Hk0. lia.
        -- apply Nat.eqb_eq in Hi0. apply Hz3; auto. lia.
      * apply hnf_rows_weaken with i; auto. lia.
    + apply orb_false_iff in Hexit. destruct Hexit as [Hk0 Hi0].
      apply Nat.eqb_neq in Hk0. apply Nat.eqb_neq in Hi0.
      eapply IH; [exact HI2| | | | |exact H].
      * lia.
      * lia.
      * intros j c Hj Hc. apply Hz3; auto; lia.
      * replace (S (k - 1)) with k by lia. exact Hr3.
Qed.
