(** C14/C15/C16: [Order::get_mult_table] returns exactly on the bases that are closed under multiplication.
    For a basis b of full rank (n rows of length n, non-zero determinant) of Q[x]/(f):
    [get_mult_table b f] returns a table iff every product b_i b_j mod f has integer coordinates on b;
    in every other case the outcome is a panic (no OutOfFuel: the function has no unbounded loop).
    Assembled from Round2W3Lift.table_returns (totality), TableAgrees.table_facts (converse) and
    LinAlgQc.solve_complete.  Style: ssreflect. *)
From RNT.Model Require Import Base Poly Algebraic LinAlg MultTable Order.
From Coq Require Import QArith Qcanon.
From mathcomp Require Import all_ssreflect ssralg poly polydiv matrix.
From mathcomp Require Import ssrZ zify.
From RNT.Refine Require Import QcRing PolyRefine PolyDiv PolyZ PolyQ AlgMul AlgQuot MultTableOps MultTableGet TableAgrees.
From RNT.Refine Require LinAlgQc Round2W3Lift.
Set Implicit Arguments.
Unset Strict Implicit.
Unset Printing Implicit Defensive.
Import GRing.Theory.
Local Open Scope ring_scope.

Section Total.
Variables (f : seq Z) (n : nat).
Hypothesis cf : canonZ f.
Hypothesis szf : size f = n.+1.
Variable b : seq (seq Qc).
Hypothesis sb : size b = n.
Hypothesis rb : forall i, (i < n)%N -> size (nth [::] b i) = n.
Hypothesis db : \det (LinAlgQc.qmx n n b) != 0.

(** "the lattice spanned by b is closed under multiplication in Q[x]/(f)" *)
Definition closed_under_mul : Prop :=
  forall i j, (i < n)%N -> (j < n)%N ->
    exists c : seq Z, size c = n /\
      (Poly (nth [::] b i) * Poly (nth [::] b j)) %% Fq f = of_coords n b (map qz c).

Lemma full_rank_solvable (v : seq Qc) : size v = n ->
  exists x, solve_linear_system fopsQc b v = Done (Ok x).
Proof.
move=> sv; apply: LinAlgQc.solve_complete.
- apply/List.Forall_forall => r /(List.In_nth _ _ [::]) [i [hi <-]].
  move: hi; rewrite !Llength_eq sb => /ltP hi.
  by rewrite Lnth_eq rb.
- by rewrite !Llength_eq sv sb.
- by rewrite /= Llength_eq sb.
Qed.

Theorem get_mult_table_total : closed_under_mul -> exists T, get_mult_table b f = Done T.
Proof. by move=> h; apply: (Round2W3Lift.table_returns cf szf sb rb full_rank_solvable h). Qed.

Theorem get_mult_table_closed T : get_mult_table b f = Done T -> closed_under_mul.
Proof.
move=> gt i j hi hj.
have [st sti stij e] := table_facts cf szf sb rb gt hi hj.
exists (nth [::] (nth [::] T i) j); split=> //.
rewrite -e /of_coords; apply: eq_big_seq => k; rewrite mem_iota add0n => /andP[_ hk].
by rewrite (nth_map 0%Z) ?stij.
Qed.

Theorem get_mult_table_iff : (exists T, get_mult_table b f = Done T) <-> closed_under_mul.
Proof. by split=> [[T]|]; [apply: get_mult_table_closed|apply: get_mult_table_total]. Qed.
End Total.
