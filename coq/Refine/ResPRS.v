(** Sub-resultant PRS at the level of determinants (MathComp): symmetry of [resultant] over an integral
    domain (through the fraction field), one pseudo-division step, and the multiplicative bookkeeping
    invariant of Cohen's Algorithm 3.3.7. ssreflect/MathComp style. *)
From mathcomp Require Import all_ssreflect ssralg poly polydiv matrix mxalgebra mxpoly fraction.
From mathcomp Require Import zify ring.
From RNT.Refine Require Import ResSylvester ResEuclid.
Set Implicit Arguments.
Unset Strict Implicit.
Unset Printing Implicit Defensive.
Import GRing.Theory.
Local Open Scope ring_scope.

Local Notation dg p := (size p).-1.

Lemma map_resultant_gen (aR rR : ringType) (f : {rmorphism aR -> rR}) (p q : {poly aR}) :
    f (lead_coef p) != 0 -> f (lead_coef q) != 0 ->
  f (resultant p q) = resultant (map_poly f p) (map_poly f q).
Proof.
move=> nz_fp nz_fq; rewrite /resultant /Sylvester_mx !size_map_poly_id0 //.
rewrite -det_map_mx /= map_col_mx; congr (\det (col_mx _ _));
  by apply: map_lin1_mx => v; rewrite map_poly_rV rmorphM /= map_rVpoly.
Qed.

Section Idomain.
Variable R : idomainType.
Implicit Types A B P Q H : {poly R}.

Lemma resultant_swap_idomain A B : A != 0 -> B != 0 ->
  resultant A B = (-1) ^+ (dg A * dg B) * resultant B A.
Proof.
move=> nzA nzB.
have inj_f : injective (@FracField.tofrac R) by move=> x y /eqP; rewrite tofrac_eq => /eqP.
apply/eqP; rewrite -(tofrac_eq) rmorphM rmorphX rmorphN1 /=.
rewrite !map_resultant_gen ?tofrac_eq0 ?lead_coef_eq0 //.
rewrite (@resultant_swap _ (map_poly _ A) (map_poly _ B)); try by rewrite map_poly_eq0_id0 // tofrac_eq0 lead_coef_eq0.
by rewrite !(size_map_inj_poly inj_f) // rmorph0.
Qed.

Lemma resultant_scaler (t : R) p q : t != 0 -> resultant p (t *: q) = t ^+ dg p * resultant p q.
Proof.
by move=> nzt; rewrite -{1}[p]scale1r resultant_scale ?oner_neq0 // expr1n mul1r.
Qed.

(** One pseudo-division step of the sub-resultant PRS, at the level of determinants. *)
Lemma prs_step A B Q P H (phi : R) :
    A != 0 -> B != 0 -> (size B <= size A)%N ->
    let c := lead_coef B in let k := (dg A - dg B).+1 in
    c ^+ k *: A = Q * B + P -> (size P < size B)%N -> P = phi *: H -> phi != 0 -> H != 0 ->
  (c ^+ k) ^+ dg B * resultant B A =
  ((-1) ^+ dg B * c) ^+ (dg A - dg H) * phi ^+ dg B * ((-1) ^+ (dg B * dg H) * resultant H B).
Proof.
move=> nzA nzB leBA c k defA ltPB defP nzphi nzH.
have nzc : c != 0 by rewrite lead_coef_eq0.
have nzck : c ^+ k != 0 by rewrite expf_neq0.
rewrite -resultant_scaler //.
have szQ : ((dg B + size Q).-1 <= dg (c ^+ k *: A))%N.
  rewrite size_scale //; have [->|nzQ] := eqVneq Q 0.
    by rewrite size_poly0 addn0; move: leBA; move: (size B) (size A) => x y; lia.
  have: (size (Q * B)%R <= size A)%N.
    have -> : Q * B = c ^+ k *: A - P by rewrite defA addrK.
    rewrite (leq_trans (size_add _ _)) // geq_max size_scale // leqnn size_opp.
    by apply: leq_trans leBA; apply: ltnW.
  rewrite size_mul //; move: (polySpred nzB); move: (size Q) (size B) (size A) => x y z.
  by lia.
have leP : (dg P <= dg (c ^+ k *: A))%N.
  by rewrite size_scale //; move: ltPB leBA; move: (size P) (size B) (size A) => x y z; lia.
rewrite (resultant_redr defA szQ leP) size_scale // defP size_scale // resultant_scaler //.
by rewrite (resultant_swap_idomain nzB nzH) -/c !mulrA.
Qed.

Lemma prs_step0 A B Q :
    A != 0 -> B != 0 -> (size B <= size A)%N -> (1 < size B)%N ->
    lead_coef B ^+ (dg A - dg B).+1 *: A = Q * B ->
  resultant B A = 0.
Proof.
move=> nzA nzB leBA ltB defA; set c := lead_coef B in defA; set k := _.+1 in defA.
have nzc : c != 0 by rewrite lead_coef_eq0.
have nzck : c ^+ k != 0 by rewrite expf_neq0.
have nzckB : (c ^+ k) ^+ dg B != 0 by rewrite expf_neq0.
apply/eqP; rewrite -(mulrI_eq0 _ (lregP nzckB)) -resultant_scaler //.
have defA0 : c ^+ k *: A = Q * B + 0 by rewrite addr0.
have szQ : ((dg B + size Q).-1 <= dg (c ^+ k *: A))%N.
  rewrite size_scale //; have [->|nzQ] := eqVneq Q 0.
    by rewrite size_poly0 addn0; move: leBA; move: (size B) (size A) => x y; lia.
  have: (size (Q * B)%R <= size A)%N by rewrite -defA size_scale.
  rewrite size_mul //; move: (polySpred nzB); move: (size Q) (size B) (size A) => x y z.
  by lia.
have le0 : (dg (0%R : {poly R}) <= dg (c ^+ k *: A))%N by rewrite size_poly0.
rewrite (resultant_redr defA0 szQ le0) resultant_0r expr0n.
by rewrite -subn1 subn_eq0 leqNgt ltB mulr0.
Qed.

End Idomain.


Ltac gen_pows :=
  repeat (let t := fresh "t" in set t := (_ ^+ _); clearbody t).

Section InvStep.
Variable R : idomainType.

(** Bookkeeping of the sub-resultant algorithm (Cohen 3.3.7), multiplicative form.
    n' = m.+1 = deg G, n = m.+1 + d = deg F, n'' = deg H, e = n - n''. *)
Lemma inv_step (rho a b c b' s X Y : R) (m d e n'' : nat) :
    a != 0 -> b != 0 -> c != 0 -> (e + n'' = m.+1 + d)%N ->
    rho * b ^+ (m + d) * a ^+ m.+1 = s * X ->
    (c ^+ d.+1) ^+ m.+1 * X =
      ((-1) ^+ m.+1 * c) ^+ e * (a * b ^+ d) ^+ m.+1 * ((-1) ^+ (m.+1 * n'') * Y) ->
    b' * b ^+ d = c ^+ d * b ->
  rho * b' ^+ m * c ^+ n'' = s * (-1) ^+ ((m.+1 + d) * m.+1) * Y.
Proof.
move=> nza nzb nzc He Hinv Hstep Hb'.
have nzK : c ^+ e * (b ^+ d) ^+ m.+1 * a ^+ m.+1 != 0.
  by rewrite !mulf_neq0 ?expf_neq0.
apply: (mulIf nzK).
have Hb'm : b' ^+ m * (b ^+ d) ^+ m = (c ^+ d) ^+ m * b ^+ m by rewrite -!exprMn Hb'.
have Hsign : (-1) ^+ ((m.+1 + d) * m.+1) = ((-1) ^+ m.+1) ^+ e * (-1) ^+ (m.+1 * n'') :> R.
  by rewrite -exprM -exprD -mulnDr He mulnC.
have Hc : c ^+ n'' * c ^+ e = c ^+ m.+1 * c ^+ d by rewrite -!exprD addnC He.
transitivity ((c ^+ d.+1) ^+ m.+1 * (rho * b ^+ (m + d) * a ^+ m.+1)); last first.
  rewrite Hinv mulrCA Hstep Hsign !exprMn; gen_pows; ring.
rewrite exprD !exprS !exprMn.
transitivity (rho * a ^+ m.+1 * (b ^+ d) * (b' ^+ m * (b ^+ d) ^+ m) * (c ^+ n'' * c ^+ e)).
  by rewrite !exprS; gen_pows; ring.
rewrite Hb'm Hc !exprS; gen_pows; ring.
Qed.

End InvStep.
