(** * DecompW3Index (C17, third wave): the index computed by [decompose] and the denominators of the
      order.  If the power basis is an integer combination of the stored basis B (Z[theta] inside the
      order: I = S B with S an integer matrix), the index [order_index B (trivial_order_monic f)] is
      +- det S, and (det S) B = adj S is an integer matrix: every element of the order times the index
      lies in Z[theta].  The conclusion is stated without matrices (for the files that work with the
      other ring structure on Qc).  Style: ssreflect/MathComp, matrices over [QcField]. *)
From Coq Require Import ZArith List.
From mathcomp Require Import all_ssreflect ssralg zmodp matrix mxalgebra.
From mathcomp Require Import ssrZ zify.
From Coq Require Import QArith Qcanon.
From RNT.Model Require Import Base Poly Algebraic LinAlg MultTable Order.
From RNT.Model Require Hnf.
From RNT.Refine Require Import QcField LinAlgQc MatZ HnfSpec HnfMain HnfDet OrderLint OrderCanon DetBridge DetHnf DetOrder.
From RNT.Refine Require OrderIndex OrderDet.
Set Implicit Arguments.
Unset Strict Implicit.
Unset Printing Implicit Defensive.
Import GRing.Theory.
Local Close Scope Z_scope.
Local Close Scope Q_scope.
Local Close Scope Qc_scope.
Local Open Scope ring_scope.

Lemma identity_qshape n : qshape n n (identity fopsQc n).
Proof.
split; first by rewrite /identity List.map_length List.seq_length.
apply/List.Forall_forall => r /List.in_map_iff [i [<- _]].
by rewrite List.map_length List.seq_length.
Qed.

Lemma nth_map_seq A (F : nat -> A) d n i : (i < n)%nat -> List.nth i (List.map F (List.seq 0 n)) d = F i.
Proof.
move=> hi; rewrite (List.nth_indep _ d (F 0%nat)); last by rewrite List.map_length List.seq_length; apply/ltP.
by rewrite List.map_nth List.seq_nth //; apply/ltP.
Qed.

Lemma qmx_identity n : qmx n n (identity fopsQc n) = 1%:M.
Proof.
apply/matrixP => i j; rewrite !mxE /identity nth_map_seq // nth_map_seq //.
case: Nat.eqb_spec => [e|ne]; case: eqP => [e'|ne'] //.
- by case: ne'; apply: val_inj.
- by case: ne; rewrite e'.
Qed.

Lemma qshape_square n b : qshape n n b -> length b = n /\ square b.
Proof. by move=> [lb wb]; split=> //; rewrite /square lb. Qed.

Theorem index_scaling m (f : list Z) (b : qmat) (Sl : list (list Z)) zt idx :
  let n := m.+1 in
  deg_alloc f = Done n -> qshape n n b -> shape n n Sl -> qmmul n Sl b = identity fopsQc n ->
  trivial_order_monic f = Done zt -> order_index b zt = Done idx ->
  exists (d : Z) (A : nat -> nat -> Z), (idx = d \/ idx = (- d)%Z) /\
    forall i j, (i < n)%nat -> (j < n)%nat ->
      Qcmult (Algebraic.qz d) (List.nth j (List.nth i b [::]) (Q2Qc 0)) = Algebraic.qz (A i j).
Proof.
move=> n Ed sb [lS wS] eS; rewrite /trivial_order_monic Ed /= => Ezt Eidx.
have hn : (1 <= n)%coq_nat by rewrite /n; lia.
have sI := identity_qshape n.
have [U [V [[lU wU] [[lV wV] [ezt eI]]]]] := hnf_reduce_equiv n _ _ hn sI Ezt.
have szt : qshape n n zt by rewrite ezt; apply: qmmul_shape => //; case: sI.
pose S := zmx n n Sl; pose Uz := zmx n n U; pose Vz := zmx n n V.
pose B := qmx n n b.
have e1 : map_mx q_of_Z S *m B = 1%:M by rewrite -(qmx_qmmul lS sb) eS qmx_identity.
have e2 : qmx n n zt = map_mx q_of_Z Uz by rewrite ezt (qmx_qmmul lU sI) qmx_identity mulmx1.
have e3 : map_mx q_of_Z (Vz *m Uz) = 1%:M.
  by rewrite map_mxM -e2 -(qmx_qmmul lV szt) -eI qmx_identity.
have dU : \det Uz = 1%Z \/ \det Uz = (-1)%Z.
  have := congr1 (fun M => \det M) e3; rewrite det_map_mx det1 det_mulmx.
  rewrite -(rmorph1 q_of_Z_rmorphism) => /q_of_Z_inj.
  move: (\det Vz) (\det Uz) => x y e.
  by case: (Z.mul_eq_1 _ _ e) => h; [left | right]; move: e; rewrite h; lia.
have dB : \det B != 0.
  have := congr1 (fun M => \det M) e1; rewrite det_mulmx det1 => e.
  by apply/eqP => B0; move: e; rewrite B0 mulr0 => /eqP; rewrite eq_sym oner_eq0.
have [lb sqb] := qshape_square sb; have [lzt sqzt] := qshape_square szt.
have ezt' : qmx n n zt = map_mx q_of_Z (Uz *m S) *m B.
  by rewrite map_mxM -mulmxA e1 mulmx1.
have := order_index_spec_n lb lzt sqb sqzt dB ezt'; rewrite Eidx => -[->].
exists (\det S), (fun i j => (\adj S) (inord i) (inord j)); split.
  by rewrite det_mulmx; case: dU => ->; [left; rewrite mul1r | right; rewrite mulN1r].
move=> i j hi hj.
have e4 : B *m map_mx q_of_Z S = 1%:M by apply: mulmx1C.
have e5 : map_mx q_of_Z (\adj S) = q_of_Z (\det S) *: B.
  rewrite -[LHS]mul1mx -e4 -mulmxA -map_mxM mul_mx_adj.
  by rewrite (map_scalar_mx q_of_Z_rmorphism) mul_mx_scalar.
have e6 : q_of_Z ((\adj S) (Ordinal hi) (Ordinal hj)) = q_of_Z (\det S) * B (Ordinal hi) (Ordinal hj).
  by have := congr1 (fun M : 'M_n => M (Ordinal hi) (Ordinal hj)) e5; rewrite [LHS]mxE [RHS]mxE.
have -> : inord i = Ordinal hi :> 'I_n by apply: val_inj; rewrite /= inordK.
have -> : inord j = Ordinal hj :> 'I_n by apply: val_inj; rewrite /= inordK.
by rewrite -[RHS]/(q_of_Z _) e6 [B _ _]mxE.
Qed.

(** ** a lattice in normal form that contains p e_j for every j (p <> 0) has n rows *)
Lemma full_rank_scalar n (H : list (list Z)) (p : Z) :
  (1 <= n)%coq_nat -> hnf_rows n 0 H -> p <> 0%Z ->
  (forall j, (j < n)%nat ->
     exists v, In_rowspanZ n v H /\
               forall k, (k < n)%nat -> List.nth k v 0%Z = if k == j then p else 0%Z) ->
  length H = n.
Proof.
move=> hn hr p0 hv.
have wH := hnf_rows_wf n 0 H hr.
set k := length H.
have hc (j : 'I_n) : exists c : 'rV[Z]_k, forall i : 'I_n, (c *m zmx k n H) 0 i = if i == j then p else 0%Z.
  have [v [/(rowspan_mx v wH (erefl _)) [lv [c ec]] ev]] := hv j (ltn_ord j).
  exists c => i; rewrite -ec mxE ev //.
have [c hcj] := fin_all_exists hc.
pose C : 'M[Z]_(n, k) := \matrix_(j, l) c j 0 l.
have eC : C *m zmx k n H = p%:M.
  apply/matrixP => j i.
  have -> : (C *m zmx k n H) j i = (c j *m zmx k n H) 0 i.
    by rewrite !mxE; apply: eq_bigr => l _; rewrite !mxE.
  by rewrite hcj mxE eq_sym; case: (j == i); rewrite ?mulr1n ?mulr0n.
have rk : (n <= \rank (mxQ k n H))%nat.
  have e : map_mx q_of_Z C *m mxQ k n H = (q_of_Z p)%:M.
    by rewrite /mxQ -map_mxM eC (map_scalar_mx q_of_Z_rmorphism).
  have rn : \rank ((q_of_Z p)%:M : 'M[Qc_fieldType]_n) = n.
    by rewrite -scalemx1 mxrank_scale_nz ?mxrank1 // q_of_Z_eq0; apply/eqP.
  by apply: leq_trans (mxrankM_maxr (map_mx q_of_Z C) (mxQ k n H)); rewrite e rn.
have := hnf_rows_row_free hr; rewrite /row_free -/k => /eqP rH.
have := hnf_rows_length n 0 H hr; rewrite -/k.
by move: rk; rewrite rH; lia.
Qed.

(** ** a lower triangular stored basis of an order containing Z[theta] has a non-zero diagonal *)
Lemma diag_nonzero m (b : qmat) (Sl : list (list Z)) :
  let n := m.+1 in
  qshape n n b -> shape n n Sl -> qmmul n Sl b = identity fopsQc n ->
  (forall i j, (i < j)%nat -> (j < n)%nat -> List.nth j (List.nth i b [::]) (Q2Qc 0) = Q2Qc 0) ->
  forall k, (k < n)%nat -> List.nth k (List.nth k b [::]) (Q2Qc 0) <> Q2Qc 0.
Proof.
move=> n sb [lS wS] eS tri k hk ek.
pose S := zmx n n Sl; pose B := qmx n n b.
have e1 : map_mx q_of_Z S *m B = 1%:M by rewrite -(qmx_qmmul lS sb) eS qmx_identity.
have dB : \det B != 0.
  have := congr1 (fun M => \det M) e1; rewrite det_mulmx det1 => e.
  by apply/eqP => B0; move: e; rewrite B0 mulr0 => /eqP; rewrite eq_sym oner_eq0.
have tB : is_trig_mx B by apply/is_trig_mxP => i j lij; rewrite mxE; apply: tri.
move: dB; rewrite (det_trig tB) (bigD1 (Ordinal hk)) //= mxE /= ek.
by rewrite -[Q2Qc 0]/(0 : Qc) mul0r eqxx.
Qed.

(** ** absence of panics: the index computation returns, and [to_z_basis_int] returns on every integer
    polynomial of degree < n (its coordinates are the integer vector g * S) *)
From RNT.Refine Require DecompW3Solve.

Lemma index_total m (f : list Z) (b : qmat) (Sl : list (list Z)) :
  let n := m.+1 in
  deg_alloc f = Done n -> qshape n n b -> shape n n Sl -> qmmul n Sl b = identity fopsQc n ->
  exists zt idx, trivial_order_monic f = Done zt /\ order_index b zt = Done idx.
Proof.
move=> n Ed sb [lS wS] eS.
have hn : (1 <= n)%coq_nat by rewrite /n; lia.
have sI := identity_qshape n.
have dI : \det (qmx n n (identity fopsQc n)) != 0 by rewrite qmx_identity det1 oner_eq0.
have [zt Ezt] := hnf_reduce_total hn sI dI.
exists zt; rewrite /trivial_order_monic Ed /= Ezt.
have [U [V [[lU wU] [[lV wV] [ezt eI]]]]] := hnf_reduce_equiv n _ _ hn sI Ezt.
have szt : qshape n n zt by rewrite ezt; apply: qmmul_shape => //; case: sI.
pose S := zmx n n Sl; pose Uz := zmx n n U; pose B := qmx n n b.
have e1 : map_mx q_of_Z S *m B = 1%:M by rewrite -(qmx_qmmul lS sb) eS qmx_identity.
have e2 : qmx n n zt = map_mx q_of_Z Uz by rewrite ezt (qmx_qmmul lU sI) qmx_identity mulmx1.
have dB : \det B != 0.
  have := congr1 (fun M => \det M) e1; rewrite det_mulmx det1 => e.
  by apply/eqP => B0; move: e; rewrite B0 mulr0 => /eqP; rewrite eq_sym oner_eq0.
have [lb sqb] := qshape_square sb; have [lzt sqzt] := qshape_square szt.
have ezt' : qmx n n zt = map_mx q_of_Z (Uz *m S) *m B by rewrite map_mxM -mulmxA e1 mulmx1.
by exists (\det (Uz *m S)); split=> //; apply: (order_index_spec_n lb lzt sqb sqzt dB ezt').
Qed.

Lemma nth_map_qz (g : list Z) k : List.nth k (List.map Algebraic.qz g) (Q2Qc 0) = q_of_Z (List.nth k g 0%Z).
Proof. by elim: g k => [|x g IH] [|k] //=. Qed.

Lemma to_z_basis_int_total m (b : qmat) (Sl : list (list Z)) (g : list Z) :
  let n := m.+1 in
  qshape n n b -> shape n n Sl -> qmmul n Sl b = identity fopsQc n ->
  exists r, to_z_basis_int b (List.map Algebraic.qz g) = Done r.
Proof.
move=> n sb [lS wS] eS.
pose S := zmx n n Sl; pose B := qmx n n b.
have e1 : map_mx q_of_Z S *m B = 1%:M by rewrite -(qmx_qmmul lS sb) eS qmx_identity.
have e4 : B *m map_mx q_of_Z S = 1%:M by apply: mulmx1C.
have dB : \det B != 0.
  have := congr1 (fun M => \det M) e1; rewrite det_mulmx det1 => e.
  by apply/eqP => B0; move: e; rewrite B0 mulr0 => /eqP; rewrite eq_sym oner_eq0.
have [lb sqb] := qshape_square sb.
set v := coefs_upto (length b) (List.map Algebraic.qz g).
have lv : length v = length b by rewrite /v /coefs_upto List.map_length List.seq_length.
have dB' : \det (qmx (length b) (length b) b) != 0 by rewrite lb.
have [x Hs] := solve_complete sqb lv dB'.
apply: (DecompW3Solve.to_z_basis_int_intro b _ x Hs) => k; rewrite lb => /ltP hk.
have := solve_ok Hs; rewrite /= lb -/B => ex.
have ex' : qrv n x = qrv n v *m map_mx q_of_Z S by rewrite -ex -mulmxA e4 mulmx1.
have ek : List.nth k x (Q2Qc 0) = q_of_Z (\sum_(j < n) List.nth j g 0%Z * S j (Ordinal hk)).
  have := congr1 (fun M : 'rV_n => M 0 (Ordinal hk)) ex'; rewrite [LHS]mxE [RHS]mxE /= => ->.
  rewrite (rmorph_sum q_of_Z_rmorphism); apply: eq_bigr => j _.
  rewrite !mxE /v /coefs_upto lb nth_map_seq // /coef_at /= nth_map_qz.
  by rewrite (rmorphM q_of_Z_rmorphism).
by rewrite -[q0]/(Q2Qc 0) ek; exact: OrderIndex.q_is_integer_qz.
Qed.
