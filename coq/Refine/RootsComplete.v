(** * C12: every root of f modulo p is returned by [find_linear_factors] (set completeness; ssreflect).

    Together with [roots_sound]: the set of returned values is exactly the set of roots of f in
    F_p. (Multiplicities are not covered.) The "no progress => discard" exit is justified by
    Euler's criterion: for y <> 0, y^((p-1)/2) = +-1 modulo p. *)
From Coq Require Import ZArith List Lia Znumtheory.
From mathcomp Require Import all_ssreflect ssralg poly.
From RNT.Model Require Import Base Poly PolyModP FactorModP LinearRoots.
From RNT.Refine Require Import PolyModPArith PolyModPDivList FermatZ PolyZmod PolyModPDiv MonicZ PolyModPGcd FpPoly DrawBounds FpTotal FactorNorm RootsProofs.
From mathcomp Require Import ssrZ zify ring.
Set Implicit Arguments. Unset Strict Implicit. Unset Printing Implicit Defensive.
Import GRing.Theory.
Local Open Scope ring_scope.

Lemma zlist_eqbP (a b : list Z) : zlist_eqb a b = true <-> a = b.
Proof.
  elim: a b => [|x a IH] [|y b] //=. split.
  - move/andP => [/Z.eqb_eq -> /IH ->]. by [].
  - case=> -> <-. apply/andP; split; first exact/Z.eqb_eq. exact/IH.
Qed.

Section Prime.
Variable p : Z.
Hypothesis Hp : Znumtheory.prime p.
Let Hp2 := prime_ge_2 _ Hp.
Let Hpp : (0 < p)%ZZ. Proof. lia. Qed.
Let Hp0 : p <> Z0. Proof. lia. Qed.

(** ** Euler's criterion (the easy half) *)

Lemma euler_pm1 y : p <> 2%ZZ -> ~ (p | y)%ZZ ->
  Z.modulo (Z.pow y (Z.quot (p - 1) 2)) p = 1%ZZ \/ Z.modulo (Z.pow y (Z.quot (p - 1) 2) + 1) p = Z0.
Proof.
  move=> H2 Hy. set h := Z.quot (p - 1) 2.
  have Hodd : (p - 1 = 2 * h)%ZZ.
  { rewrite /h. have Ho : Z.odd p = true.
    { case Eo: (Z.odd p) => //. exfalso.
      have Hev : Z.even p = true by rewrite -Z.negb_odd Eo.
      move/Z.even_spec: Hev => [k Hk]. have D : (2 | p)%ZZ by exists k; lia.
      case: (prime_divisors _ Hp _ D); lia. }
    move/Z.odd_spec: Ho => [k Hk]. rewrite Hk.
    have -> : (2 * k + 1 - 1 = k * 2)%ZZ by lia. rewrite Z.quot_mul //; lia. }
  have Hh : (0 <= h)%ZZ by lia.
  have F := fermat_Z Hp Hy. rewrite Hodd Z.mul_comm Z.pow_mul_r // Z.pow_2_r in F.
  set z := Z.pow y h in F *.
  have D : (p | (z - 1) * (z + 1))%ZZ.
  { apply: Zmod_divide => //. have -> : ((z - 1) * (z + 1) = z * z - 1)%ZZ by lia.
    rewrite Zminus_mod F (Z.mod_small 1 p); last lia. by rewrite Z.sub_diag Z.mod_0_l. }
  case: (prime_mult _ Hp _ _ D) => D1.
  - left. case: D1 => k Hk. have -> : z = (1 + k * p)%ZZ by lia.
    rewrite Z.mod_add // Z.mod_small; lia.
  - right. exact: Zdivide_mod.
Qed.

(** ** gcd as a combination; roots of products *)

Lemma poly_gcd_rec_comb fuel : forall a b g,
  reduced p a -> reduced p b -> poly_gcd_rec fuel a b p = Done g ->
  exists u v, eqpm p (PZ g) (PZ a * u + PZ b * v).
Proof.
  elim: fuel => [|f IH] a b g Ra Rb //=.
  have [q [r [E [Rr [_ [_ D1]]]]]] := divrem_reduced_total Hp Ra Rb.
  rewrite E /=. case: r E Rr D1 => [|r0 r] E Rr D1.
  - case=> <-. exists 0, 1. rewrite mulr0 add0r mulr1. exact: eqpm_refl.
  - move=> H. have [u' [v' [k Hk]]] := IH _ _ _ Rb Rr H.
    have [k1 Hk1] := D1.
    exists v', (u' - PZ q * v'). exists (k - k1 * v').
    move: Hk Hk1. move: (PZ (r0 :: r)) => R Hk Hk1.
    rewrite Hk Hk1. ring.
Qed.

Lemma rootm_mul_inv (f g : {poly Z}) x : rootm p (f * g) x -> rootm p f x \/ rootm p g x.
Proof.
  rewrite /rootm hornerM => H.
  have D : (p | f.[x] * g.[x])%ZZ by apply: Zmod_divide.
  case: (prime_mult _ Hp _ _ D) => D1; [left|right]; exact: Zdivide_mod.
Qed.

Lemma rootm_comb (a b u v : {poly Z}) x : rootm p a x -> rootm p b x -> rootm p (a * u + b * v) x.
Proof.
  rewrite /rootm hornerD !hornerM => Ha Hb.
  have -> : (a.[x] * u.[x] + b.[x] * v.[x])%R = (a.[x] * u.[x] + b.[x] * v.[x])%ZZ by [].
  by rewrite Z.add_mod // Z.mul_mod // Ha Z.mul_0_l Z.mod_0_l // (Z.mul_mod b.[x]) // Hb Z.mul_0_l Z.mod_0_l.
Qed.

Lemma add_const_wrap_eqpm x c : eqpm p (PZ (add_const_wrap x c p)) (PZ x + c%:P).
Proof.
  rewrite /add_const_wrap. case: (Z.leb_spec p _) => _.
  - rewrite PZ_psub PZ_padd !PZ_from_mono. exists (-1). ring.
  - rewrite PZ_padd PZ_from_mono. exact: eqpm_refl.
Qed.

Lemma const_no_root (c : Z) x : (0 < c < p)%ZZ -> rootm p (PZ [:: c]) x -> False.
Proof.
  move=> Hc. rewrite /rootm /PZ /= cons_poly_def mul0r add0r hornerC Z.mod_small; lia.
Qed.

Lemma reduced_const_range (c : Z) : reduced p [:: c] -> (0 < c < p)%ZZ.
Proof.
  move=> [C R]. have B := last_in_range_aux p [:: c] ltac:(by []) R.
  have N := canonical_last _ C ltac:(by []). move: B N => /=. lia.
Qed.

(** ** Completeness of the recursion *)

Definition inr (b : Z) : Prop := (0 <= b < p)%ZZ.

Lemma poly_of_mod_zero_iff md f a v :
  poly_of_mod md f a p = Done v -> (v = Z0 <-> rootm p (PZ f) a).
Proof.
  move=> Ev. have Hv := poly_of_mod_spec Hp0 Ev.
  have Bv : (Z.abs v < p)%ZZ.
  { move: Ev. rewrite /poly_of_mod. case: (u64_norm md _) => [_| |] //=.
    case: f {Hv} => [|c l]; first by case=> <-; lia.
    have -> : (p =? 0)%ZZ = false by apply/Z.eqb_neq.
    case=> <-. rewrite [List.fold_right _ _ _]/=. set w := Z.add _ c.
    have := Z.rem_bound_abs w p Hp0. lia. }
  rewrite /rootm -Hv. split; first by move=> ->.
  move=> E. have [k Hk] := Zmod_divide _ _ Hp0 E.
  have Bv' : (- p < v < p)%ZZ by lia.
  have K1 : (k < 1)%ZZ by nia. have K2 : (-1 < k)%ZZ by nia.
  have K0 : k = Z0 by lia. by rewrite Hk K0.
Qed.

Lemma divide_by_x_a_length md f a q : divide_by_x_a md f a p = Done q -> (length q < length f)%coq_nat.
Proof.
  rewrite /divide_by_x_a. case: f => [|c0 rest] //.
  have -> : (p =? 0)%ZZ = false by apply/Z.eqb_neq.
  case E: (dxa_loop rest a p) => [coefs carry]. case: (debug_assert md _) => [_| |] //=. case=> <-.
  have L1 : length coefs = length rest.
  { elim: rest coefs carry E => [|c t IHt] cs cy /=; first by case=> <-.
    case E': (dxa_loop t a p) => [cs' cy']. case=> <- _ /=. by rewrite (IHt _ _ E'). }
  have := strip_length coefs. rewrite /from_raw /=. lia.
Qed.

Lemma stage1_complete md poly a v result (K : list Z -> list Z -> outcome (list Z * rng)) res :
  rnz p poly -> inr a -> poly_of_mod md poly a p = Done v ->
  bind (if (v =? 0)%ZZ then bind (divide_by_x_a md poly a p) (fun q => Done (q, result ++ [:: a]))
        else Done (poly, result)) (fun t => let '(poly1, result1) := t in K poly1 result1) = Done res ->
  exists poly1 new1, K poly1 (result ++ new1) = Done res /\ rnz p poly1 /\
    ((poly1 = poly /\ new1 = [::] /\ ~ rootm p (PZ poly) a) \/ (length poly1 < length poly)%coq_nat) /\
    (forall b, inr b -> rootm p (PZ poly) b -> List.In b new1 \/ (b <> a /\ rootm p (PZ poly1) b)).
Proof.
  move=> [Rpoly Npoly] Ba Ev. have Hiff := poly_of_mod_zero_iff Ev.
  case: (Z.eqb_spec v Z0) => [Ev0|Nv] /=.
  - case Eq: (divide_by_x_a md poly a p) => [q| |] //= HK.
    have Ra : rootm p (PZ poly) a by apply/Hiff.
    have [Rq Eqq] := divide_by_x_a_root Hpp Ra Eq.
    have Nq : q <> [::].
    { move=> E0. apply: Npoly. apply: (reduced_eq0 Hpp Rpoly).
      apply: eqpm_trans Eqq _. rewrite E0 /PZ /= mulr0. exact: eqpm_refl. }
    exists q, [:: a]. split=> //. split=> //. split; first by right; exact: divide_by_x_a_length Eq.
    move=> b Bb Rb. case: (Z.eq_dec b a) => [->|Nba]; first by left; left.
    right. split=> //.
    have R' : rootm p (('X - a%:P) * PZ q) b by apply: (rootm_eqpm (eqpm_sym Eqq)).
    case: (rootm_mul_inv R') => // Rx. exfalso.
    move: Rx. rewrite /rootm hornerD hornerN hornerX hornerC => Rx.
    have [k Hk] := Zmod_divide _ _ Hp0 Rx.
    have Hk' : (b - a = k * p)%ZZ by exact: Hk.
    move: Bb Ba. rewrite /inr => Bb Ba'.
    have K1 : (k < 1)%ZZ by nia. have K2 : (-1 < k)%ZZ by nia. have K0 : k = Z0 by lia.
    rewrite K0 in Hk'. lia.
  - move=> HK. exists poly, [::]. rewrite List.app_nil_r. split=> //. split=> //.
    have Na : ~ rootm p (PZ poly) a by move/Hiff.
    split; first by left.
    move=> b Bb Rb. right. split=> //. by move=> E; apply: Na; rewrite -E.
Qed.

Lemma stage_complete f md x polyA resA rA (K : list Z -> list Z -> rng -> outcome (list Z * rng)) out :
  (forall g resB rB res r'', reduced p g -> find_linear_factors_impl f md g p resB rB = Done (res, r'') ->
     forall b, inr b -> rootm p (PZ g) b -> List.In b res) ->
  reduced p x -> rnz p polyA ->
  bind (poly_gcd x polyA p) (fun g =>
    bind (if (0 <? pdeg g)%ZZ
          then bind (poly_divrem polyA g p) (fun t => let '(quo, _) := t in
               bind (find_linear_factors_impl f md g p resA rA) (fun t2 => let '(res, r'') := t2 in
               Done (quo, res, r'')))
          else Done (polyA, resA, rA))
         (fun t => let '(polyB, resB, rB) := t in K polyB resB rB)) = Done out ->
  exists polyB newB rB, K polyB (resA ++ newB) rB = Done out /\ rnz p polyB /\
    ((polyB = polyA /\ newB = [::] /\ forall b, rootm p (PZ polyA) b -> rootm p (PZ x) b -> False)
     \/ (length polyB < length polyA)%coq_nat) /\
    (forall b, inr b -> rootm p (PZ polyA) b -> List.In b (resA ++ newB) \/ rootm p (PZ polyB) b).
Proof.
  move=> IHc Rx RA. have [RAr NA] := RA.
  case Eg: (poly_gcd x polyA p) => [g| |] //=.
  have [u [w Hc]] := poly_gcd_rec_comb Rx RAr Eg.
  have [Rg [[s Hs] [t Ht]]] := gcd_rnz Hp Rx RA Eg.
  case: (Z.ltb_spec 0 (pdeg g)) => Hdeg /=; last first.
  - move=> HK. exists polyA, [::], rA. rewrite List.app_nil_r. split=> //. split=> //.
    split; last by move=> b _ Rb; right.
    left. split=> //. split=> // b Rb Rxb.
    have Rgb : rootm p (PZ g) b by apply: (rootm_eqpm Hc); apply: rootm_comb.
    case: (g) Hdeg Rgb Rg => [|c [|c1 l]] Hd Rgb [Rgr Ng] //.
    + exact: (const_no_root (reduced_const_range Rgr) Rgb).
    + move: Hd. rewrite /pdeg [length _]/=. lia.
  - case Ed: (poly_divrem polyA g p) => [[quo rem]| |] //=.
    case Er: (find_linear_factors_impl f md g p resA rA) => [[res r'']| |] //= HK.
    have [Rq Eq] := quot_rnz Hp RA Rg Ht Ed.
    have [newg [Eres _]] := impl_sound Hp (proj1 Rg) Er.
    have Cg := IHc _ _ _ _ _ (proj1 Rg) Er.
    have [[Rqr Nq] [[Rgr Ng] _]] := (Rq, (Rg, tt)).
    have Lq : (length quo < length polyA)%coq_nat.
    { have S1 : size (PZ quo * PZ g) = (length quo + length g).-1.
      { rewrite size_mul.
        + by rewrite (canonical_size (proj1 Rqr)) (canonical_size (proj1 Rgr)).
        + apply/eqP => E0. apply: Nq. by rewrite -(canonical_polyseq (proj1 Rqr)) E0 polyseq0.
        + apply/eqP => E0. apply: Ng. by rewrite -(canonical_polyseq (proj1 Rgr)) E0 polyseq0. }
      have Lg2 : (2 <= length g)%coq_nat.
      { case: (g) Ng Hdeg => [|c [|c1 l]] // _. rewrite /pdeg /=. lia. }
      have Lc : lead_coef (PZ quo * PZ g) = Z.mul (List.last quo Z0) (List.last g Z0).
      { by rewrite lead_coefM (canonical_lead (proj1 Rqr)) (canonical_lead (proj1 Rgr)). }
      have Gq := reduced_good Hpp Rqr Nq. have Gg := reduced_good Hpp Rgr Ng.
      case: (Nat.lt_ge_cases (length quo) (length polyA)) => // Hge. exfalso.
      have := eqpm_coef Eq (size (PZ quo * PZ g)).-1.
      rewrite -/(lead_coef (PZ quo * PZ g)) Lc coefPZ List.nth_overflow; last by rewrite S1; lia.
      rewrite Z.mod_0_l // => D0. have D : (p | List.last quo Z0 * List.last g Z0)%ZZ by apply: Zmod_divide.
      by case: (prime_mult _ Hp _ _ D). }
    exists quo, newg, r''. rewrite -Eres. split=> //. split=> //. split; first by right.
    move=> b Bb Rb.
    have R' : rootm p (PZ quo * PZ g) b by apply: (rootm_eqpm (eqpm_sym Eq)).
    case: (rootm_mul_inv R') => Rx'; first by right.
    left. have := Cg b Bb Rx'. by rewrite Eres.
Qed.

Lemma impl_complete (H2 : p <> 2%ZZ) : forall fuel md poly result r out r',
  reduced p poly ->
  find_linear_factors_impl fuel md poly p result r = Done (out, r') ->
  forall b, inr b -> rootm p (PZ poly) b -> List.In b out.
Proof.
  elim=> [|f IH] md poly result r out r' Rpoly //.
  case: (poly =P [::]) => [->|Npoly]; first by move/impl_nil_not_done.
  rewrite [find_linear_factors_impl _ _ _ _ _ _]/=.
  case: (pdeg_reduced_cases poly) => [[-> [c0 El]]|[[-> [-> [c0 [c1 El]]]]|[D0 D1]]].
  - (* constant *)
    case=> _ _ b Bb Rb. exfalso. rewrite El in Rpoly Rb.
    exact: (const_no_root (reduced_const_range Rpoly) Rb).
  - (* degree 1 *)
    case Ei: (modinv _ p) => [inv| |] //=.
    have -> : (p =? 0)%ZZ = false by apply/Z.eqb_neq.
    case=> <- _ b Bb Rb. apply/List.in_app_iff; right; left.
    rewrite El /coef_at /= in Ei Rb *.
    have Glc : ~ (p | c1)%ZZ.
    { have := reduced_good Hpp Rpoly. rewrite El /goodlc /=. by apply. }
    have Hinv := modinv_spec Hp Glc Ei.
    move: Rb. rewrite /rootm /PZ /= !horner_cons horner0.
    have -> : ((0 * b + c1) * b + c0)%R = (c1 * b + c0)%ZZ by lia.
    move=> Rb.
    have E : Z.modulo b p = Z.modulo (- c0 * inv) p.
    { have -> : (- c0 * inv)%ZZ = (inv * (- c0))%ZZ by lia.
      have X : Z.modulo (- c0) p = Z.modulo (c1 * b) p.
      { apply: mod_sub_0 => //. have -> : (- c0 - c1 * b = - (c1 * b + c0))%ZZ by lia.
        have [k Hk] := Zmod_divide _ _ Hp0 Rb. rewrite Hk. have -> : (- (k * p) = (- k) * p)%ZZ by lia.
        exact: Z.mod_mul. }
      rewrite -Z.mul_mod_idemp_r // X Z.mul_mod_idemp_r //.
      have -> : (inv * (c1 * b) = (inv * c1) * b)%ZZ by lia.
      by rewrite -Z.mul_mod_idemp_l // Hinv Z.mul_1_l. }
    rewrite -E Z.mod_small //.
  - (* degree >= 2 *)
    rewrite D0 D1.
    case Ea: (draw_below p r) => [[a r1]| |] //=.
    have Ba := draw_below_bound Ea.
    case: (modpow a p p) => [ap| |] //=.
    case: (debug_assert md _) => [_| |] //=.
    case Ev: (poly_of_mod md poly a p) => [v| |] //=.
    move/(stage1_complete (conj Rpoly Npoly) Ba Ev) => [poly1 [new1 [HK [R1 [P1 C1]]]]].
    move: HK. have -> : (p =? 0)%ZZ = false by apply/Z.eqb_neq.
    case Exp: (poly_modpow _ _ poly1 p) => [xapow| |] //=.
    have Rxp := poly_modpow_reduced Hp (proj1 R1) Exp.
    have Hodd : (0 < Z.quot (p - 1) 2)%ZZ.
    { have H3 : (3 <= p)%ZZ by lia.
      have := Z.quot_le_mono 2 (p - 1) 2 ltac:(lia) ltac:(lia).
      have -> : Z.quot 2 2 = 1%ZZ by []. lia. }
    have Hx : forall b, inr b -> b <> a -> rootm p (PZ poly1) b ->
       rootm p (PZ (add_const_wrap xapow 1 p)) b \/ rootm p (PZ (add_const_wrap xapow (p - 1) p)) b.
    { move=> b Bb Nba Rb.
      have [[k Hk] _] := poly_modpow_spec Hp (proj1 R1) Hodd Exp.
      have E1 := eqpm_horner b Hk.
      have Xb : Z.modulo (PZ xapow).[b] p = Z.modulo (Z.pow (b - a) (Z.quot (p - 1) 2)) p.
      { rewrite E1 hornerD hornerM horner_exp.
        have -> : (PZ (from_raw opsZ [:: Z.modulo (- a) p; 1%ZZ])).[b] = (Z.modulo (- a) p + b)%ZZ.
        { rewrite PZ_from_raw /PZ /= !horner_cons horner0. lia. }
        have Rb' : Z.modulo (PZ poly1).[b] p = Z0 by exact: Rb.
        have -> : (((Z.modulo (- a) p + b)%ZZ ^+ Z.to_nat (Z.quot (p - 1) 2)) + (PZ poly1).[b] * k.[b])%R
                  = (Z.pow (Z.modulo (- a) p + b) (Z.quot (p - 1) 2) + (PZ poly1).[b] * k.[b])%ZZ.
        { congr Z.add. rewrite -{2}(Z2Nat.id (Z.quot (p - 1) 2)); last lia.
          elim: (Z.to_nat _) => [|n IHn] //. rewrite exprS IHn Nat2Z.inj_succ Z.pow_succ_r; lia. }
        rewrite Z.add_mod // (Z.mul_mod (PZ poly1).[b]) // Rb' Z.mul_0_l Z.mod_0_l // Z.add_0_r Z.mod_mod //.
        apply: pow_cong => //; first lia.
        rewrite Z.add_mod // Z.mod_mod // -Z.add_mod //. congr Z.modulo. lia. }
      have Nd : ~ (p | b - a)%ZZ.
      { move=> [k' Hk']. move: Bb Ba. rewrite /inr => Bb Ba'.
        have K1 : (k' < 1)%ZZ by nia. have K2 : (-1 < k')%ZZ by nia. have K0 : k' = Z0 by lia.
        rewrite K0 in Hk'. lia. }
      case: (euler_pm1 H2 Nd) => E.
      - right. apply: (rootm_eqpm (add_const_wrap_eqpm xapow (p - 1))).
        rewrite /rootm hornerD hornerC.
        have -> : ((PZ xapow).[b] + (p - 1)%ZZ)%R = ((PZ xapow).[b] + (p - 1))%ZZ by [].
        rewrite Z.add_mod // Xb E (Z.mod_small (p - 1) p); last lia.
        have -> : (1 + (p - 1) = p)%ZZ by lia. exact: Z_mod_same_full.
      - left. apply: (rootm_eqpm (add_const_wrap_eqpm xapow 1)).
        rewrite /rootm hornerD hornerC.
        have -> : ((PZ xapow).[b] + 1)%R = ((PZ xapow).[b] + 1)%ZZ by [].
        rewrite Z.add_mod // Xb -Z.add_mod //. }
    have Rp1 : reduced p (add_const_wrap xapow 1 p) by apply: add_const_wrap_reduced => //; lia.
    move/(stage_complete (IH md) Rp1 R1) => [poly2 [new2 [r2 [HK [R2 [P2 C2]]]]]].
    have Rm1 : reduced p (add_const_wrap xapow (p - 1) p) by apply: add_const_wrap_reduced => //; lia.
    move: HK. move/(stage_complete (IH md) Rm1 R2) => [poly3 [new3 [r3 [HK [R3 [P3 C3]]]]]].
    move=> b Bb Rb.
    have Goal1 : List.In b (((result ++ new1) ++ new2) ++ new3) \/
                 (b <> a /\ rootm p (PZ poly3) b /\ rootm p (PZ poly2) b /\ rootm p (PZ poly1) b).
    { case: (C1 b Bb Rb) => [Hin|[Nba Rb1]].
      - left. rewrite !List.in_app_iff. tauto.
      - case: (C2 b Bb Rb1) => [Hin|Rb2].
        + left. rewrite !List.in_app_iff. move: Hin. rewrite !List.in_app_iff. tauto.
        + case: (C3 b Bb Rb2) => [Hin|Rb3]; first by left.
          by right. }
    move: HK. case Eeq: (zlist_eqb poly poly3) => /=.
    + case=> <- _. case: Goal1 => [//|[Nba [Rb3 [Rb2 Rb1]]]].
      exfalso. move/zlist_eqbP: Eeq => E3.
      (* lengths: poly3 <= poly2 <= poly1 <= poly, with equality forced *)
      have L1 : (length poly1 <= length poly)%coq_nat by case: P1 => [[-> _]|]; lia.
      have L2 : (length poly2 <= length poly1)%coq_nat by case: P2 => [[-> _]|]; lia.
      have L3 : (length poly3 <= length poly2)%coq_nat by case: P3 => [[-> _]|]; lia.
      have LE : length poly3 = length poly by rewrite E3.
      case: P1 => [[E1 [_ Na]]|]; last lia.
      case: P2 => [[E2 [_ N2]]|]; last lia.
      case: P3 => [[E3' [_ N3]]|]; last lia.
      case: (Hx b Bb Nba Rb1) => Rx.
      * exact: (N2 b Rb1 Rx).
      * exact: (N3 b Rb2 Rx).
    + move=> Er. case: Goal1 => [Hin|[Nba [Rb3 _]]].
      * have [new4 [E4 _]] := impl_sound Hp (proj1 R3) Er. rewrite E4.
        apply/List.in_app_iff. by left.
      * exact: (IH _ _ _ _ _ _ (proj1 R3) Er b Bb Rb3).
Qed.

End Prime.

(** ** p = 2 *)

Lemma deflate_mod2_complete : forall fuel md poly val result poly' result',
  (0 <= val < 2)%ZZ -> reduced 2 poly ->
  deflate_mod2 fuel md poly val result = Done (poly', result') ->
  exists new, result' = result ++ new /\ (rootm 2 (PZ poly) val -> List.In val new) /\
              reduced 2 poly' /\
              (forall b, (0 <= b < 2)%ZZ -> b <> val -> rootm 2 (PZ poly) b -> rootm 2 (PZ poly') b).
Proof.
  have P2 := prime_2. have H2p : (0 < 2)%ZZ by [].
  elim=> [|f IH] md poly val result poly' result' Bv Rp //=.
  case Ev: (poly_of_mod md poly val 2) => [v| |] //=.
  have Hiff := poly_of_mod_zero_iff P2 Ev.
  case: (Z.eqb_spec v Z0) => [Ev0|Nv].
  - case Eq: (divide_by_x_a md poly val 2) => [q| |] //= Er.
    have Ra : rootm 2 (PZ poly) val by apply/Hiff.
    have [Rq Eqq] := divide_by_x_a_root H2p Ra Eq.
    have [new [E1 [_ [R1 T1]]]] := IH _ _ _ _ _ _ Bv Rq Er.
    exists (val :: new). split; first by rewrite E1 -List.app_assoc.
    split; first by move=> _; left. split=> //.
    move=> b Bb Nb Rb. apply: T1 => //.
    have R' : rootm 2 (('X - val%:P) * PZ q) b by apply: (rootm_eqpm (eqpm_sym Eqq)).
    case: (rootm_mul_inv P2 R') => // Rx. exfalso.
    move: Rx. rewrite /rootm hornerD hornerN hornerX hornerC => Rx.
    have H20 : 2%ZZ <> Z0 by [].
    have [k Hk] := Zmod_divide _ _ H20 Rx.
    have Hk' : (b - val = k * 2)%ZZ by exact: Hk. lia.
  - case=> <- <-. exists [::]. rewrite List.app_nil_r. split=> //. split; first by move/Hiff.
    by [].
Qed.

Lemma impl_mod2_complete md poly result out :
  reduced 2 poly -> find_linear_factors_impl_mod2 md poly result = Done out ->
  forall b, (0 <= b < 2)%ZZ -> rootm 2 (PZ poly) b -> List.In b out.
Proof.
  move=> Rp. rewrite /find_linear_factors_impl_mod2.
  case E0: (deflate_mod2 _ md poly 0%ZZ result) => [[poly1 result1]| |] //=.
  case E1: (deflate_mod2 _ md poly1 1%ZZ result1) => [[poly2 result2]| |] //=. case=> <-.
  have B0 : (0 <= 0 < 2)%ZZ by []. have B1 : (0 <= 1 < 2)%ZZ by [].
  have [n0 [A0 [I0 [R1 T0]]]] := deflate_mod2_complete B0 Rp E0.
  have [n1 [A1 [I1 _]]] := deflate_mod2_complete B1 R1 E1.
  move=> b Bb Rb. rewrite A1 A0 !List.in_app_iff.
  have [Eb|Eb] : b = 0%ZZ \/ b = 1%ZZ by lia.
  - left; right. rewrite Eb in Rb *. exact: (I0 Rb).
  - right. rewrite Eb in Rb *. apply: I1. exact: (T0 1%ZZ B1 ltac:(by []) Rb).
Qed.

(** ** [find_linear_factors] *)

(** [P] [roots_complete_set]: every root of f modulo p lying in [0, p) is returned. *)
Theorem roots_complete_set md f p r roots r' :
  Znumtheory.prime p ->
  find_linear_factors md f p r = Done (roots, r') ->
  forall b, (0 <= b < p)%ZZ -> Z.modulo (pof opsZ f b) p = Z0 -> List.In b roots.
Proof.
  move=> Hp. have Hp2 := prime_ge_2 _ Hp. have Hpp : (0 < p)%ZZ by lia. have Hp0 : p <> Z0 by lia.
  rewrite /find_linear_factors.
  case Em: (poly_mod f p) => [poly1| |] //=.
  have R1 := poly_mod_is_reduced Hpp Em.
  have E1 := PZ_poly_mod Hp0 Em.
  have Conv : forall b, Z.modulo (pof opsZ f b) p = Z0 -> rootm p (PZ poly1) b.
  { move=> b. rewrite pof_horner => H. exact: (rootm_eqpm E1 H). }
  case: (Z.eqb_spec p 2) => [E2|N2].
  - case Ei: (find_linear_factors_impl_mod2 md poly1 [::]) => [res| |] //=. case=> <- _ b Bb Rb.
    rewrite E2 in R1 Bb Conv Rb. exact: (impl_mod2_complete R1 Ei Bb (Conv b Rb)).
  - move=> Ei b Bb Rb. exact: (impl_complete Hp N2 R1 Ei Bb (Conv b Rb)).
Qed.
