(** [resultant_gcd] returns a divisor of both inputs in Z[x]; the cofactors are coprime as polynomials
    and have coprime contents (Gauss's lemma on top of ResGcd.v). ssreflect/MathComp style. *)
From RNT.Model Require Import Base Poly Resultant.
From Coq Require Import ZArith.
From mathcomp Require Import all_ssreflect ssralg poly polydiv.
From mathcomp Require Import ssrZ zify.
From RNT.Refine Require Import PolyRefine PolyDiv PolyZ ResInt ResGcd SubresFlag SubresSpec SubresGaussZ SubresGauss.
From RNT.Refine Require ResProofs ResProofs2.
Set Implicit Arguments.
Unset Strict Implicit.
Unset Printing Implicit Defensive.
Import GRing.Theory.
Import Pdiv.Idomain.
Local Open Scope ring_scope.

Lemma prim_list_poly (pp : seq Z) :
  (forall d, (forall x, List.In x pp -> Z.divide d x) -> Z.divide d 1) -> zprim (Poly pp).
Proof.
move=> h d hd; apply: h => x /(List.In_nth _ _ 0) [n [_ <-]].
by rewrite Lnth_eq -coef_Poly.
Qed.

Lemma zprim_factor (A B : {poly Z}) : zprim (A * B) -> zprim A.
Proof.
move=> h d hd; apply: h => k; rewrite coefM.
elim/big_ind: _ => [|x y hx hy|i _]; first exact: Z.divide_0_r.
- exact: Z.divide_add_r.
- exact: Z.divide_mul_l.
Qed.

(** content and primitive part as computed by [content_chk] / [poly_div], with primitivity *)
Lemma content_pp_prim (p : seq Z) : canonZ p -> p != [::] ->
  exists c pp, [/\ content_chk p = Done c, poly_div p c = Done pp, c != 0 &
                   [/\ c *: Poly pp = Poly p, canonZ pp, pp != [::], (0 < last 0 pp)%Z & zprim (Poly pp)]].
Proof.
move=> cp np; case E: (cont_pp p) => [c pp].
have [H1 H2 H3 H4 _] := cont_pp_main cp np E.
have nzP : Poly p != 0 by rewrite canon_Poly_eq0.
have nzc : c != 0 by apply: contraNneq nzP => c0; rewrite -H1 c0 scale0r.
have npp : pp != [::] by apply: contraNneq nzP => e; rewrite -H1 e /= scaler0.
exists c, pp; split=> //.
- rewrite /content_chk /content E /=; case: (p) np => // x t _.
  by move/eqP/Z.eqb_neq: nzc => ->.
- rewrite /poly_div; case ep: p np E => [|x t] // _; rewrite -ep.
  move/eqP/Z.eqb_neq: (nzc) => ->; rewrite /cont_pp ep -ep => -[ec <-].
  by rewrite ec.
- by split=> //; apply: prim_list_poly.
Qed.

Lemma coprimep_cofactors (D qf qg : {poly Z}) : D != 0 -> qf != 0 ->
  D %= gcdp (qf * D) (qg * D) -> coprimep qf qg.
Proof.
move=> nzD nzq h.
have nzg : gcdp qf qg != 0 by rewrite gcdp_eq0 (negPf nzq).
have := eqp_size (eqp_trans h (gcdp_mul2r qf qg D)).
have sD : (0 < size D)%N by rewrite size_poly_gt0.
have sg : (0 < size (gcdp qf qg))%N by rewrite size_poly_gt0.
rewrite size_mul // /coprimep => h2; apply/eqP; move: h2 sD sg.
by move: (size D) (size (gcdp qf qg)) => x y; lia.
Qed.

(** [P] [gcd_divides]: canonical inputs, f <> 0. The polynomial d returned by [resultant_gcd] divides f and g
    in Z[x]; the cofactors are coprime polynomials and no integer other than +-1 divides all coefficients
    of both cofactors (coprime contents). *)
Theorem gcd_divides (f g : seq Z) :
  ResProofs.canonb f = true -> ResProofs.canonb g = true -> f <> [::] ->
  exists (d : seq Z) (qf qg : {poly Z}),
    [/\ resultant_gcd f g = (true, Done d), Poly f = qf * Poly d, Poly g = qg * Poly d, coprimep qf qg
      & forall e : Z, (forall i, Z.divide e qf`_i) -> (forall i, Z.divide e qg`_i) -> Z.divide e 1].
Proof.
move=> cbf cbg nf'; have [d [G [Hd lcd cd]]] := gcd_spec cbf cbg nf'.
exists d.
suff: exists qf qg : {poly Z}, [/\ Poly f = qf * Poly d, Poly g = qg * Poly d, coprimep qf qg
      & forall e : Z, (forall i, Z.divide e qf`_i) -> (forall i, Z.divide e qg`_i) -> Z.divide e 1].
  by case=> qf [qg [H1 H2 H3 H4]]; exists qf, qg; split.
move: (G) cbf cbg nf'.
rewrite !canonb_canonZ => G0 cf cg /eqP nf; move: G0; rewrite /resultant_gcd /resultant_smart_gcd.
case ef: f nf => [|f0 f'] // _; rewrite -ef.
have nf : f != [::] by rewrite ef.
have [cf0 [f1 [E1 E2 nzcf [Hf cf1 nf1 _ pf1]]]] := content_pp_prim cf nf.
have [cg0 [g1 [Hcg Hdg [Hg cg1 pg1]]]] : exists cg0 g1,
    [/\ content_chk g = Done cg0, poly_div g cg0 = Done g1 &
        [/\ cg0 *: Poly g1 = Poly g, canonZ g1 & g != [::] -> zprim (Poly g1)]].
  case eg: g cg => [|g0 g'] cg; first by exists 0, [::]; split=> //; split=> //=; rewrite scaler0.
  rewrite -eg in cg *; have ng : g != [::] by rewrite eg.
  have [c [pp [Ec Ep nzc [H cpp _ _ ppp]]]] := content_pp_prim cg ng.
  by exists c, pp; split.
rewrite E1 /= Hcg /= E2 /= Hdg /=.
case L: (gcd_loop _ _ _ _ _ _) => [e1 [ff| |]] //=.
case C1: (content_chk ff) => [c'| |] //=; case C2: (poly_div ff c') => [pf| |] //= [e1t ed].
rewrite e1t in L.
have one0 : (1 : Z) != 0 by [].
have [cff nff Hff] := gcd_loop_poly cf1 nf1 cg1 one0 one0 (eqpxx _) L.
have [c'' [pf' [C1' C2' nzc' [Hpf cpf npf lpf ppf]]]] := content_pp_prim cff nff.
move: C1 C2; rewrite C1' => -[ec']; rewrite -ec' C2' => -[epf]; rewrite -epf in ed.
set dd := Z.gcd cf0 cg0 in ed.
have ddpos : (0 < dd)%Z.
  have := Z.gcd_nonneg cf0 cg0; have := Z.gcd_eq_0 cf0 cg0; rewrite -/dd.
  by move/eqP: nzcf; clear; lia.
have nzdd : dd != 0 by apply/eqP; move: ddpos; clear; lia.
have ePd : Poly d = dd *: Poly pf'.
  rewrite -ed /poly_mul; case: (pf') npf => // x t _.
  by rewrite /from_raw opsZ_eq Poly_strip Poly_map_mulr.
set F1 := Poly f1 in Hf pf1; set G1 := Poly g1 in Hg pg1; set Pf := Poly pf' in Hpf ppf ePd.
have nzPf : Pf != 0 by rewrite /Pf canon_Poly_eq0.
have Hgam : Pf %= gcdp F1 G1.
  by apply: eqp_trans Hff; rewrite -Hpf eqp_sym eqp_scale.
have [Q1 EQ1] : exists Q1, F1 = Q1 * Pf.
  have : Pf %| F1 by rewrite (eqp_dvdl _ Hgam) dvdp_gcdl.
  by case/dvdpP=> -[c q] /= nzc Ec; apply: gauss_dvd Ec.
have [Q2 EQ2] : exists Q2, G1 = Q2 * Pf.
  have : Pf %| G1 by rewrite (eqp_dvdl _ Hgam) dvdp_gcdr.
  by case/dvdpP=> -[c q] /= nzc Ec; apply: gauss_dvd Ec.
have [kf Hkf] : Z.divide dd cf0 by apply: Z.gcd_divide_l.
have [kg Hkg] : Z.divide dd cg0 by apply: Z.gcd_divide_r.
have Ef : Poly f = (kf *: Q1) * Poly d.
  by rewrite -Hf EQ1 ePd Hkf -scalerAl -scalerAr scalerA.
have Eg : Poly g = (kg *: Q2) * Poly d.
  by rewrite -Hg EQ2 ePd Hkg -scalerAl -scalerAr scalerA.
exists (kf *: Q1), (kg *: Q2); split=> //.
- have nzD : Poly d != 0 by rewrite ePd -mul_polyC mulf_neq0 ?polyC_eq0.
  have nzq : kf *: Q1 != 0.
    have nzF : Poly f != 0 by rewrite canon_Poly_eq0.
    by apply: contraNneq nzF => q0; rewrite Ef q0 mul0r.
  by apply: (coprimep_cofactors nzD nzq); rewrite -Ef -Eg.
- move=> e he1 he2.
  have pQ1 : zprim Q1 by apply: (@zprim_factor Q1 Pf); rewrite -EQ1.
  have ekf : Z.divide e kf by apply: zprim_scale_dvd he1.
  have ekg : Z.divide e kg.
    case eg: g => [|g0 g'].
      have : cg0 = 0 by move: Hcg; rewrite eg /= => -[].
      rewrite Hkg => /eqP; rewrite mulf_eq0 (negPf nzdd) orbF => /eqP ->.
      exact: Z.divide_0_r.
    have pQ2 : zprim Q2 by apply: (@zprim_factor Q2 Pf); rewrite -EQ2; apply: pg1; rewrite eg.
    exact: zprim_scale_dvd he2.
  have cop : Z.gcd kf kg = 1%Z.
    have nzdd' : dd <> 0%Z by apply/eqP.
    have := Z.gcd_div_gcd cf0 cg0 dd nzdd' erefl.
    by rewrite {1}Hkf {1}Hkg !Z.div_mul.
  by rewrite -cop; apply: Z.gcd_greatest.
Qed.

(** [P] every common divisor of f and g in Z[x] divides the polynomial returned by [resultant_gcd]. *)
Theorem gcd_greatest (f g : seq Z) :
  ResProofs.canonb f = true -> ResProofs.canonb g = true -> f <> [::] ->
  exists d : seq Z, resultant_gcd f g = (true, Done d) /\
    forall h : {poly Z}, (exists u, Poly f = u * h) -> (exists v, Poly g = v * h) ->
      exists w, Poly d = w * h.
Proof.
move=> cf cg nf; have [d [qf [qg [G Ef Eg cop hcont]]]] := gcd_divides cf cg nf.
exists d; split=> // h Hu Hv.
have nzD : Poly d != 0.
  have cf' : canonZ f by rewrite -canonb_canonZ.
  have nzF : Poly f != 0 by rewrite canon_Poly_eq0 //; apply/eqP.
  by apply: contraNneq nzF => D0; rewrite Ef D0 mulr0.
exact: (gcd_greatest_Z nzD Ef Eg cop hcont Hu Hv).
Qed.
