(** * DecompW3Solve (C17, third wave): plumbing for the absence of panics: the solution returned by
      [solve_linear_system] has the length of the right-hand side; [to_int_vec] / [to_z_basis_int] return
      when the solution has integer entries; [mapM] returns when every call does.  Style: stdlib + lia. *)
From RNT.Model Require Import Base Poly Algebraic LinAlg MultTable Order.
From RNT.Refine Require Import LinAlgList LinAlgStep OrderIndex.
From Coq Require Import Lia List Arith QArith Qcanon.
Import ListNotations.

Section Field.
Context {T : Type} (F : field_ops T).

Lemma solve_loop_length cnt : forall row n a b x,
  solve_loop F cnt row n a b = Done (Ok x) -> length a = n -> length b = n -> (row + cnt = n)%nat ->
  length x = n.
Proof.
  induction cnt as [|cnt IH]; intros row n a b x H La Lb Hr.
  - cbn in H. injection H as <-. exact Lb.
  - destruct (solve_loop_step F cnt row n a b (Ok x) H La Lb ltac:(lia)) as [[E _]|(nxt & a' & b' & _ & _ & _ & La' & Lb' & H' & _)].
    + discriminate E.
    + apply (IH (S row) n a' b' x H' La' Lb'). lia.
Qed.

Lemma solve_length a b x : solve_linear_system F a b = Done (Ok x) -> length x = length a.
Proof.
  unfold solve_linear_system. intros H.
  destruct (Nat.eqb (length b) (length a)) eqn:E; cbn in H; [|discriminate].
  apply Nat.eqb_eq in E. apply (solve_loop_length (length a) 0 (length a) a b x H); auto.
Qed.
End Field.

Lemma mapM_total {A B} (f : A -> outcome B) l :
  (forall x, In x l -> exists y, f x = Done y) -> exists l', mapM f l = Done l'.
Proof.
  induction l as [|x l IH]; intros H; cbn.
  - eauto.
  - destruct (H x (or_introl eq_refl)) as [y ->]. cbn.
    destruct IH as [l' ->]; [intros z Hz; apply H; right; auto|]. cbn. eauto.
Qed.

Lemma nth_chk_ok {A} (l : list A) i d : (i < length l)%nat -> nth_chk l i = Done (nth i l d).
Proof.
  intros H. unfold nth_chk. destruct (nth_error l i) eqn:E.
  - f_equal. symmetry. now apply nth_error_nth.
  - apply nth_error_None in E. lia.
Qed.

Lemma to_int_vec_total deg v :
  (deg <= length v)%nat -> (forall k, (k < deg)%nat -> q_is_integer (nth k v q0) = true) ->
  exists r, to_int_vec deg v = Done r.
Proof.
  intros L Hq. unfold to_int_vec. apply mapM_total. intros k Hk. apply in_seq in Hk.
  rewrite (nth_chk_ok v k q0) by lia. cbn [bind]. rewrite Hq by lia. cbn. eauto.
Qed.

Lemma to_z_basis_int_intro b a inv :
  solve_linear_system fopsQc b (coefs_upto (length b) a) = Done (Ok inv) ->
  (forall k, (k < length b)%nat -> q_is_integer (nth k inv q0) = true) ->
  exists r, to_z_basis_int b a = Done r.
Proof.
  intros Hs Hq. unfold to_z_basis_int, to_z_basis. rewrite Hs. cbn.
  apply to_int_vec_total; auto. rewrite (solve_length fopsQc _ _ _ Hs). lia.
Qed.
