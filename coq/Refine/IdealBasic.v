(** Definitional facts about the models of src/ideal.rs and src/prime_decomp/simple.rs
    (stdlib only). *)
From Coq Require Import ZArith List Bool Lia.
From RNT.Model Require Import Base Poly Algebraic LinAlg MultTable Order FactorModP Ideal PrimeDecomp.
From RNT.Model Require Hnf.
Import ListNotations.
Open Scope Z_scope.

Lemma norm_is_determinant : forall I, norm I = Hnf.hnf_determinant (i_hnf I).
Proof. reflexivity. Qed.

Lemma cap_z_is_corner : forall I, cap_z I = Hnf.get (i_hnf I) 0 0.
Proof. reflexivity. Qed.

Lemma cap_z_zero_ideal : forall t, cap_z (mkIdeal [] t) = Panic PIndex.
Proof. reflexivity. Qed.

(** the index test of [decompose] precedes every random draw *)
Lemma decompose_refuses_index : forall md f b t p r zt idx,
  trivial_order_monic f = Done zt -> order_index b zt = Done idx ->
  p <> 0 -> Z.rem idx p = 0 ->
  decompose md f b t p r = Panic POther.
Proof.
  intros md f b t p r zt idx Hz Hi Hp Hr.
  unfold decompose. rewrite Hz. cbn [bind]. rewrite Hi. cbn [bind].
  unfold zrem. destruct (p =? 0) eqn:E; [apply Z.eqb_eq in E; contradiction|].
  cbn [bind]. rewrite Hr. reflexivity.
Qed.
