(** * DecompW3Order (C17, third wave): elements of the order as polynomials, scaled into Z[x].

    Setting: [f] monic of degree n, [b] the stored basis of the order (n rows of length n, first basis
    element w_0 = 1), [t] the table returned by [get_mult_table b f], and an integer [d] with
    [d * b] integral ([A i j = d * b_ij], from DecompW3Index: d = +- the index when Z[theta] is inside
    the order).  [E v] is the element with coordinate vector [v], a polynomial over Qc of size <= n.
      [zelem x X]: the element with coordinates x is X(theta), X an integer polynomial;
      [repr v V]:  d times the element with coordinates v is V(theta), V an integer polynomial.
    Exported facts mention only integer lists and {poly Z}: every vector has a [repr]; [repr] is
    functional and additive; the table product of a [zelem] with a [repr] is the remainder of the
    product modulo f (division by the monic f stays in Z[x]).  Also: what [decompose_factor] computes.
    Style: ssreflect/MathComp, polynomials over [QcRing]. *)
From RNT.Model Require Import Base Poly Algebraic LinAlg MultTable Order Ideal PrimeDecomp.
From Coq Require Import QArith Qcanon.
From mathcomp Require Import all_ssreflect ssralg poly polydiv.
From mathcomp Require Import ssrZ zify ring.
From RNT.Refine Require Import QcRing PolyRefine PolyDiv PolyZ PolyQ AlgMul AlgQuot MultTableOps MultTableGet TableAgrees ResAgree AlgNormOrder.
From RNT.Refine Require OrderSolve LinAlgQc AlgNormMx OrderCanon MatZ.
From RNT.Refine Require Import AlgNormRes.
Set Implicit Arguments.
Unset Strict Implicit.
Unset Printing Implicit Defensive.
Import GRing.Theory Pdiv.CommonRing Pdiv.RingMonic.
Local Open Scope ring_scope.

Notation qZ := (map_poly Qc_ofZ).

Lemma qZ_inj : injective qZ.
Proof. by apply: map_inj_poly; [exact: Qc_ofZ_inj | exact: rmorph0]. Qed.

Lemma Poly_map_qz (g : seq Z) : Poly (map qz g) = qZ (Poly g).
Proof.
apply/polyP=> i; rewrite coef_map !coef_Poly nth_map_qz.
by [].
Qed.

Lemma nth_Lrepeat (x : Z) m k : nth 0%Z (List.repeat x m) k = if (k < m)%N then x else 0%Z.
Proof. by elim: m k => [|m IH] [|k] //=; rewrite IH. Qed.

Lemma size_Lrepeat (x : Z) m : size (List.repeat x m) = m.
Proof. by elim: m => //= m ->. Qed.

(** ** integer combinations of rational rows ([OrderCanon.qlincomb]) as polynomials *)
Lemma Poly_map2_add (u v : seq Qc) : size u = size v ->
  Poly (MatZ.map2 Qcplus u v) = Poly u + Poly v.
Proof.
elim: u v => [|x u IH] [|y v] //= => [_|[suv]]; first by rewrite add0r.
by rewrite IH // !cons_poly_def mulrDl polyCD addrACA.
Qed.

Lemma Poly_map_scale (a : Qc) (r : seq Qc) : Poly (List.map (Qcmult a) r) = a *: Poly r.
Proof.
elim: r => [|x r IH] /=; first by rewrite scaler0.
by rewrite IH !cons_poly_def scalerDr -scalerAl -[Qcmult a x]/(a * x) polyCM mul_polyC.
Qed.

Lemma Poly_Lrepeat0 m : Poly (List.repeat q0 m) = 0 :> {poly Qc}.
Proof. by elim: m => //= m ->; rewrite cons_poly_def mul0r add0r. Qed.

Lemma Poly_qlincomb m (c : seq Z) (A : seq (seq Qc)) : OrderCanon.qwf m A ->
  Poly (OrderCanon.qlincomb m c A) = \sum_(i <- iota 0 (size A)) qz (nth 0%Z c i) *: Poly (nth [::] A i).
Proof.
elim: A c => [|r A IH] c wA.
  by case: c => [|c0 c] /=; rewrite Poly_Lrepeat0 big_nil.
case: c => [|c0 c].
  by rewrite [LHS]/= Poly_Lrepeat0 big1_seq // => i _; rewrite nth_nil scale0r.
rewrite [OrderCanon.qlincomb _ _ _]/=.
have hr : size r = m := List.Forall_inv wA.
have wA' : OrderCanon.qwf m A := List.Forall_inv_tail wA.
rewrite /OrderCanon.qvadd /OrderCanon.qvscale Poly_map2_add; last first.
  by rewrite size_map hr -Llength_eq OrderCanon.qlincomb_length.
rewrite Poly_map_scale IH // [size (r :: A)]/= -[iota 0 (size A).+1]/(0%N :: iota 1 (size A)) big_cons /=; congr (_ + _).
by rewrite -[1%N]add1n iotaDl big_map.
Qed.

Section Order.
Variables (f : seq Z) (n : nat).
Hypothesis cf : canonZ f.
Hypothesis szf : size f = n.+1.
Hypothesis monf : nth 0%Z f n = 1%Z.
Variable b : seq (seq Qc).
Hypothesis sb : size b = n.
Hypothesis rb : forall i, (i < n)%N -> size (nth [::] b i) = n.
Hypothesis w0 : Poly (nth [::] b 0) = 1 :> {poly Qc}.
Variable t : table.
Hypothesis gt : get_mult_table b f = Done t.
Variables (d : Z) (A : nat -> nat -> Z).
Hypothesis Hscale : forall i j, (i < n)%N -> (j < n)%N ->
  Qcmult (qz d) (List.nth j (List.nth i b [::]) (Q2Qc 0)) = qz (A i j).
Hypothesis n0 : (0 < n)%N.

Let Fz : {poly Z} := Poly f.
Let F : {poly Qc} := Fq f.
Let W i : {poly Qc} := Poly (nth [::] b i).
Notation tmul := (AlgNormMx.tmul t n).
Definition E (v : seq Z) : {poly Qc} := of_coords n b (map qz v).

Lemma size_Fz : size Fz = n.+1.
Proof. by rewrite /Fz canon_PolyK. Qed.

Lemma Fz_monic : Fz \is monic.
Proof. by apply/monicP; rewrite /lead_coef size_Fz /= coef_Poly. Qed.

Lemma F_qZ : F = qZ Fz.
Proof. exact: Poly_map_qz. Qed.

Lemma size_F : size F = n.+1.
Proof. exact: (size_Fq cf szf). Qed.

Lemma size_E v : (size (E v) <= n)%N.
Proof. exact: size_of_coords. Qed.

Lemma E_modp v : E v %% F = E v.
Proof. by rewrite modp_small // size_F ltnS size_E. Qed.

(** division by the monic f stays in Z[x] *)
Lemma qZ_modp (X : {poly Z}) : qZ X %% F = qZ (rmodp X Fz).
Proof.
rewrite {1}(rdivp_eq Fz_monic X) rmorphD rmorphM /= -F_qZ modp_addl_mul_small //.
rewrite size_F (leq_ltn_trans (size_poly _ _)) //.
by rewrite -size_Fz ltn_rmodpN0 // monic_neq0 // Fz_monic.
Qed.

Definition zelem (x : seq Z) (X : {poly Z}) : Prop := size x = n /\ E x = qZ X.
Definition repr (v : seq Z) (V : {poly Z}) : Prop := size v = n /\ qZ V = Qc_ofZ d *: E v.

(** every element of the order times d is an integer polynomial in theta *)
Lemma repr_exists v : size v = n ->
  exists2 V, repr v V & V = \poly_(j < n) \sum_(k <- iota 0 n) nth 0%Z v k * A k j.
Proof.
move=> sv; exists (\poly_(j < n) \sum_(k <- iota 0 n) nth 0%Z v k * A k j) => //; split=> //.
apply/polyP => j; rewrite coef_map coef_poly coefZ.
case: (ltnP j n) => hj; last first.
  by rewrite raddf0 nth_default ?mulr0 // (leq_trans (size_E v)).
rewrite /E /of_coords coef_sum mulr_sumr raddf_sum.
apply: eq_big_seq => k; rewrite mem_iota add0n => /andP[_ hk].
rewrite -[LHS]/(Qc_ofZ (_ * _)) rmorphM /= coefZ coef_Poly nth_map_qz mulrCA; congr (_ * _).
by have := Hscale hk hj; rewrite !Lnth_eq.
Qed.

Lemma repr_fun v V V' : repr v V -> repr v V' -> V = V'.
Proof. by move=> [_ e1] [_ e2]; apply: qZ_inj; rewrite e1 e2. Qed.

Lemma repr_size v V : repr v V -> size v = n.
Proof. by case. Qed.

(** the unit vector e_0 is 1, (p, 0, .., 0) is p, the zero vector is 0 *)
Lemma E_first (x : Z) (v : seq Z) : (forall k, nth 0%Z v k = if k == 0%N then x else 0%Z) -> E v = (Qc_ofZ x)%:P.
Proof.
move=> hv; rewrite /E /of_coords; case: (n) n0 => // m _.
rewrite -[iota 0 m.+1]/(0%N :: iota 1 m) big_cons big1_seq ?addr0.
  by rewrite nth_map_qz hv /= w0 -mul_polyC mulr1.
move=> k; rewrite mem_iota => /andP[_ /andP[k0 _]].
by rewrite nth_map_qz hv; case: k k0 => // k _; rewrite scale0r.
Qed.

Lemma zelem_unit0 : zelem (unit_vec n 0) 1.
Proof.
split; first exact: AlgNormMx.size_unit_vec.
rewrite rmorph1 -[1]/((Qc_ofZ 1)%:P); apply: E_first => k.
case: (ltnP k n) => hk; first by rewrite AlgNormMx.nth_unit_vec //; case: k hk.
by rewrite nth_default ?AlgNormMx.size_unit_vec //; case: k hk => //; rewrite leqn0 => /eqP e; move: n0; rewrite e.
Qed.

Lemma zelem_p0 (p : Z) : zelem (p :: List.repeat 0%Z (n - 1)) p%:P.
Proof.
split; first by rewrite /= size_Lrepeat; move: n0; clear; lia.
rewrite map_polyC /=; apply: E_first => -[|k] //=.
by rewrite nth_Lrepeat; case: ifP.
Qed.

Lemma zelem_zero : zelem (List.repeat 0%Z n) 0.
Proof.
split; first exact: size_Lrepeat.
rewrite rmorph0 /E /of_coords big1_seq // => k _.
by rewrite nth_map_qz nth_Lrepeat; case: ifP => _; rewrite scale0r.
Qed.

Lemma zelem_size x X : zelem x X -> size x = n.
Proof. by case. Qed.

Lemma zelem_repr x X : zelem x X -> repr x (d%:P * X).
Proof. by move=> [sx ex]; split=> //; rewrite rmorphM /= map_polyC /= mul_polyC ex. Qed.

Lemma zelem_inj x y X : zelem x X -> zelem y X -> x = y.
Proof.
move=> [sx ex] [sy ey]; apply: (of_coords_inj sb gt) => //.
by rewrite -/(E x) -/(E y) ex ey.
Qed.

(** additivity *)
Lemma E_add u v w : (forall k, nth 0%Z w k = (nth 0%Z u k + nth 0%Z v k)%Z) -> E w = E u + E v.
Proof.
move=> hw; rewrite /E /of_coords -big_split /=; apply: eq_bigr => k _.
by rewrite !nth_map_qz hw -scalerDl -[qz (_ + _)]/(Qc_ofZ (_ + _)) rmorphD.
Qed.

Lemma repr_add u v w U V : size w = n ->
  (forall k, nth 0%Z w k = (nth 0%Z u k + nth 0%Z v k)%Z) -> repr u U -> repr v V -> repr w (U + V).
Proof.
move=> sw hw [_ eu] [_ ev]; split=> //.
by rewrite rmorphD /= eu ev (E_add hw) scalerDr.
Qed.

(** the table product *)
Lemma size_tmul x y : size (tmul x y) = n.
Proof. exact: AlgNormMx.size_tmul. Qed.

Lemma E_tmul x y : size x = n -> size y = n -> E (tmul x y) = (E x * E y) %% F.
Proof. exact: (tmul_agrees cf szf sb rb gt). Qed.

Lemma repr_tmul x X y Y : zelem x X -> repr y Y -> repr (tmul x y) (rmodp (X * Y) Fz).
Proof.
move=> [sx ex] [sy ey]; split; first exact: size_tmul.
by rewrite -qZ_modp rmorphM /= -ex ey -scalerAr modpZl E_tmul.
Qed.

Lemma tmul_unit x : size x = n -> tmul x (unit_vec n 0) = x.
Proof.
move=> sx; apply: (of_coords_inj sb gt) => //; first exact: size_tmul.
have [su eu] := zelem_unit0.
by rewrite -!/(E _) E_tmul // eu rmorph1 mulr1 E_modp.
Qed.

Lemma tmul_unit_l x : size x = n -> tmul (unit_vec n 0) x = x.
Proof.
move=> sx; apply: (of_coords_inj sb gt) => //; first exact: size_tmul.
have [su eu] := zelem_unit0.
by rewrite -!/(E _) E_tmul // eu rmorph1 mul1r E_modp.
Qed.

(** multiplication by the rational integer p = p w_0 scales the coordinates *)
Lemma E_scale (p : Z) y : E (map (Z.mul p) y) = Qc_ofZ p *: E y.
Proof.
rewrite /E /of_coords scaler_sumr; apply: eq_bigr => k _.
rewrite !nth_map_qz scalerA; congr (_ *: _).
rewrite -[qz (nth _ _ _)]/(Qc_ofZ _) -[qz (nth _ _ _)]/(Qc_ofZ _) -rmorphM /=; congr Qc_ofZ.
case: (ltnP k (size y)) => hk; first by rewrite (nth_map 0%Z).
by rewrite !nth_default ?size_map // mulr0.
Qed.

Lemma tmul_p0 (p : Z) y : size y = n -> tmul (p :: List.repeat 0%Z (n - 1)) y = map (Z.mul p) y.
Proof.
move=> sy; have [sp ep] := zelem_p0 p.
apply: (of_coords_inj sb gt); rewrite ?size_tmul ?size_map //.
by rewrite -!/(E _) E_tmul // ep map_polyC /= mul_polyC modpZl E_modp E_scale.
Qed.

(** [zelem] is closed under sums, integer multiples and the table product *)
Lemma zelem_add x X y Y w : size w = n ->
  (forall k, nth 0%Z w k = (nth 0%Z x k + nth 0%Z y k)%Z) -> zelem x X -> zelem y Y -> zelem w (X + Y).
Proof. by move=> sw hw [_ ex] [_ ey]; split=> //; rewrite (E_add hw) ex ey rmorphD. Qed.

Lemma zelem_scale (c : Z) x X : zelem x X -> zelem (map (Z.mul c) x) (c *: X).
Proof.
move=> [sx ex]; split; first by rewrite size_map.
by rewrite E_scale ex -!mul_polyC rmorphM /= map_polyC.
Qed.

Lemma zelem_tmul x X y Y : zelem x X -> zelem y Y -> zelem (tmul x y) (rmodp (X * Y) Fz).
Proof.
move=> [sx ex] [sy ey]; split; first exact: size_tmul.
by rewrite -qZ_modp rmorphM /= -ex -ey E_tmul.
Qed.

(** the relation between the [repr] of a product and the [repr]s of the factors *)
Lemma repr_mul x X y Y Z' : repr x X -> repr y Y -> repr (tmul x y) Z' -> d%:P * Z' = rmodp (X * Y) Fz.
Proof.
move=> [sx ex] [sy ey] [_ ez]; apply: qZ_inj.
rewrite -qZ_modp !rmorphM /= map_polyC /= mul_polyC ez ex ey E_tmul //.
by rewrite -scalerAl -scalerAr modpZl modpZl scalerA.
Qed.

(** d times a vector: [repr] of v is [zelem] of d v *)
Lemma repr_zelem v V : repr v V -> zelem (map (Z.mul d) v) V.
Proof. by move=> [sv ev]; split; rewrite ?size_map // E_scale. Qed.

(** every integer polynomial of size <= n is an element of the order, when the rows of an integer
    matrix [Sl] are the coordinates of the powers of theta *)
Section Powers.
Variable Sl : seq (seq Z).
Hypothesis sS : forall k, (k < n)%N -> size (nth [::] Sl k) = n.
Hypothesis HS : forall k, (k < n)%N ->
  OrderCanon.qlincomb n (nth [::] Sl k) b = nth [::] (identity fopsQc n) k.

Lemma zelem_power k : (k < n)%N -> zelem (nth [::] Sl k) 'X^k.
Proof.
move=> hk; split; first exact: sS.
have wb : OrderCanon.qwf n b.
  apply/List.Forall_forall => r /(List.In_nth _ _ [::]) [i [hi <-]].
  by rewrite Llength_eq Lnth_eq rb //; apply/ltP; rewrite -sb.
have := Poly_qlincomb (nth [::] Sl k) wb; rewrite (HS hk) sb.
have [_ _ ipb] := identity_power_basis n.
rewrite (ipb _ hk) map_polyXn => ->.
by rewrite /E /of_coords; apply: eq_bigr => i _; rewrite nth_map_qz.
Qed.

Lemma zelem_poly (a : nat -> Z) k : (k <= n)%N -> exists x, zelem x (\poly_(j < k) a j).
Proof.
elim: k => [|k IH] hk.
  exists (List.repeat 0%Z n); have -> : \poly_(j < 0) a j = 0 :> {poly Z}.
    by apply/polyP => j; rewrite coef_poly coef0.
  exact: zelem_zero.
have [x zx] := IH (ltnW hk).
have zk := zelem_scale (a k) (zelem_power hk).
move: zk; set y := map _ _ => zk.
pose w := mkseq (fun j => (nth 0%Z x j + nth 0%Z y j)%Z) n.
have sw : size w = n by rewrite size_mkseq.
exists w.
have -> : \poly_(j < k.+1) a j = \poly_(j < k) a j + a k *: 'X^k :> {poly Z}.
  by rewrite !poly_def big_ord_recr.
apply: (zelem_add sw _ zx zk).
move=> j; case: (ltnP j n) => hj; first by rewrite nth_mkseq.
by rewrite !nth_default ?sw ?(zelem_size zx) ?(zelem_size zk).
Qed.

Lemma zelem_exists (X : {poly Z}) : (size X <= n)%N -> exists x, zelem x X.
Proof.
move=> sX; have [x zx] := zelem_poly (fun j => X`_j) (leqnn n); exists x.
suff -> : X = \poly_(j < n) X`_j by [].
apply/polyP => j; rewrite coef_poly; case: ltnP => // hj.
by rewrite nth_default // (leq_trans sX).
Qed.

End Powers.

(** ** a lower triangular basis: leading coordinates and leading coefficients *)
Section Triangular.
Hypothesis tri : forall i j, (i < j)%N -> (j < n)%N -> List.nth j (List.nth i b [::]) (Q2Qc 0) = Q2Qc 0.
Hypothesis dnz : forall k, (k < n)%N -> List.nth k (List.nth k b [::]) (Q2Qc 0) <> Q2Qc 0.

Let bb i j : Qc := nth 0 (nth [::] b i) j.

Lemma bb_tri i j : (i < j)%N -> bb i j = 0.
Proof.
move=> hij; case: (ltnP j n) => hj; first by rewrite /bb -!Lnth_eq tri.
case: (ltnP i n) => hi; first by rewrite /bb nth_default // rb.
by rewrite /bb [nth [::] b i]nth_default ?sb // nth_nil.
Qed.

Lemma coef_E x c : (E x)`_c = \sum_(k <- iota 0 n) qz (nth 0%Z x k) * bb k c.
Proof.
rewrite /E /of_coords coef_sum; apply: eq_bigr => k _.
by rewrite coefZ coef_Poly nth_map_qz.
Qed.

Lemma E_lead x j : (j < n)%N -> (forall c, (j < c)%N -> nth 0%Z x c = 0%Z) ->
  (E x)`_j = qz (nth 0%Z x j) * bb j j /\ forall c, (j < c)%N -> (E x)`_c = 0.
Proof.
move=> hj hx; split.
  rewrite coef_E (bigD1_seq j) ?iota_uniq ?mem_iota //= big1_seq ?addr0 // => k /andP[kj _].
  case: (ltnP k j) => hk; first by rewrite bb_tri // mulr0.
  have hjk : (j < k)%N by rewrite ltn_neqAle eq_sym kj.
  by rewrite hx // mul0r.
move=> c hc; rewrite coef_E big1_seq // => k _.
case: (leqP k j) => hk; first by rewrite bb_tri ?mulr0 // (leq_ltn_trans hk).
by rewrite hx // mul0r.
Qed.

Lemma A_diag j : (j < n)%N -> Qc_ofZ d * bb j j = Qc_ofZ (A j j).
Proof. by move=> hj; have := Hscale hj hj; rewrite !Lnth_eq. Qed.

Lemma repr_lead v V j : (j < n)%N -> repr v V -> (forall c, (j < c)%N -> nth 0%Z v c = 0%Z) ->
  V`_j = (nth 0%Z v j * A j j)%Z /\ (size V <= j.+1)%N.
Proof.
move=> hj [sv eV] hv; have [e1 e2] := E_lead hj hv; split.
  apply: Qc_ofZ_inj; have := congr1 (fun q : {poly Qc} => q`_j) eV.
  rewrite coef_map coefZ e1 /= => ->.
  by rewrite mulrCA A_diag // -[qz _]/(Qc_ofZ _) -rmorphM.
apply/leq_sizeP => c hc; apply: Qc_ofZ_inj.
have := congr1 (fun q : {poly Qc} => q`_c) eV.
by rewrite coef_map coefZ e2 //= mulr0 => ->.
Qed.

Lemma monic_coords x X j : (j < n)%N -> zelem x X -> X \is monic -> size X = j.+1 ->
  (forall c, (j < c)%N -> nth 0%Z x c = 0%Z) /\ (nth 0%Z x j * A j j)%Z = d.
Proof.
move=> hj [sx eX] mX sX.
have sup m c : (n - m <= c)%N -> (j < c)%N -> nth 0%Z x c = 0%Z.
  elim: m c => [|m IH] c; first by rewrite subn0 => hc _; rewrite nth_default ?sx.
  move=> hc hjc; case: (ltnP c n) => hcn; last by rewrite nth_default ?sx.
  case: (ltnP (n - m.+1) c) => hc'; first by apply: IH => //; move: hc' hcn; clear; lia.
  have hx c' : (c < c')%N -> nth 0%Z x c' = 0%Z.
    by move=> h; apply: IH; [move: h hc hcn; clear; lia | exact: ltn_trans h].
  have [e1 _] := E_lead hcn hx.
  have : (E x)`_c = 0 by rewrite eX coef_map nth_default ?rmorph0 // sX.
  rewrite e1 => /eqP; rewrite mulf_eq0 => /orP[/eqP e|/eqP e].
    by apply: Qc_ofZ_inj; rewrite rmorph0.
  by case: (dnz hcn); rewrite Lnth_eq Lnth_eq.
have hx : forall c, (j < c)%N -> nth 0%Z x c = 0%Z by move=> c; apply: (sup n); rewrite subnn.
split=> //.
have [e1 _] := E_lead hj hx.
apply: Qc_ofZ_inj; rewrite rmorphM /= -A_diag // mulrCA -[Qc_ofZ (nth _ _ _)]/(qz _) -e1 eX coef_map.
have -> : X`_j = 1 by move/monicP: mX; rewrite /lead_coef sX.
by rewrite -[Qc_ofZ_additive 1]/(Qc_ofZ 1) rmorph1 mulr1.
Qed.

End Triangular.

Lemma mt_mul_tmul md x y : size x = n -> size y = n -> mt_mul md t x y = Done (tmul x y).
Proof. exact: (AlgNormMx.mt_mul_tmul md (ct cf szf sb rb gt)). Qed.

(** ** what [decompose_factor] computes for a factor g: the coordinates [elem] of g(theta) when
    deg g < n, the zero vector otherwise; then (elem) + (p) *)
Lemma factor_elem md p (g : seq Z) e P e' : canonZ g -> g != [::] ->
  decompose_factor md f b t p (g, e) = Done (P, e') ->
  exists elem,
    [/\ (zelem elem (Poly g) /\ (size g <= n)%N) \/ (elem = List.repeat 0%Z n /\ (n < size g)%N)
      & exists anc pz, [/\ principal md t elem = Done anc,
                           principal md t (p :: List.repeat 0%Z (n - 1)) = Done pz
                         & ideal_add md anc pz = Done P]].
Proof.
move=> cg g0; rewrite /decompose_factor.
have df : pdeg f = Z.of_nat n.
  by rewrite /pdeg; case: (f) szf => [|c f'] // sf; rewrite Llength_eq sf; lia.
have -> : deg_alloc f = Done n.
  by rewrite /deg_alloc df Nat2Z.id; case: (f) szf.
rewrite [bind (Done n) _]/=.
set polyq := from_raw opsQc _.
have epq : polyq = map qz g.
  rewrite /polyq opsQc_eq /from_raw (@strip_id _ Qc_ofZ) //.
  exact: (canonQ_map cg).
have dq : pdeg polyq = (Z.of_nat (size g) - 1)%Z.
  by rewrite epq /pdeg; case: (g) g0 => [|c g'] // _; rewrite Llength_eq size_map.
rewrite dq df.
case: Z.leb_spec => hdeg.
  rewrite [bind (Done _) _]/=.
  case E1: (principal md t _) => [anc| |] //=.
  have -> : match n with O => Panic PIndex | S d0 => Done (p :: List.repeat 0%Z d0) end
            = Done (p :: List.repeat 0%Z (n - 1)).
    by case: (n) n0 => // m _; rewrite subn1.
  rewrite [bind (Done _) _]/=.
  case E2: (principal md t _) => [pz| |] //=.
  case E3: (ideal_add md anc pz) => [s| |] //= [<- _].
  exists (List.repeat 0%Z n); split; last by exists anc, pz.
  by right; split=> //; lia.
case: (debug_assert md _) => [[]| |] //=.
case E0: (to_z_basis_int b polyq) => [elem| |] //=.
case E1: (principal md t elem) => [anc| |] //=.
have -> : match n with O => Panic PIndex | S d0 => Done (p :: List.repeat 0%Z d0) end
          = Done (p :: List.repeat 0%Z (n - 1)).
  by case: (n) n0 => // m _; rewrite subn1.
rewrite [bind (Done _) _]/=.
case E2: (principal md t _) => [pz| |] //=.
case E3: (ideal_add md anc pz) => [s| |] //= [<- _].
have sg : (size g <= n)%N by lia.
exists elem; split; last by exists anc, pz.
left; split=> //.
have cq : canonQ polyq by rewrite /polyq opsQc_eq /from_raw; apply: strip_canon.
have sq : (size polyq <= n)%N by rewrite epq size_map.
have [se ee] := to_z_basis_int_spec sb rb cq sq E0.
by split=> //; rewrite /E ee epq Poly_map_qz.
Qed.

End Order.

Lemma from_raw_map_qz (g : seq Z) : canonZ g -> from_raw opsQc (List.map qz g) = List.map qz g.
Proof.
move=> cg; rewrite opsQc_eq /from_raw (@strip_id _ Qc_ofZ) //.
exact: (canonQ_map cg).
Qed.

(** the hypothesis [w_0 = 1] from the first stored row *)
Definition first_is_one (b : seq (seq Qc)) : Prop := Poly (nth [::] b 0) = 1 :> {poly Qc}.

Lemma first_row_one (b : seq (seq Qc)) m :
  nth [::] b 0 = Q2Qc 1 :: List.repeat (Q2Qc 0) m -> first_is_one b.
Proof.
rewrite /first_is_one => ->; apply/polyP => k; rewrite coef_Poly coef1.
case: k => [|k] //=.
by elim: m k => [|m IH] [|k] //=; rewrite ?nth_nil.
Qed.
