(** * PolyZFactorW3Unwrap: C07, the [expect("This division will always succeed")] of the subset
    recombination (mod.rs:109) never fires (MathComp).

    When [prod] divides [lc(a) * a] in Z[x], the primitive part of [prod] divides [a] over Q, hence
    (Gauss's lemma) in Z[x]: [div_exact a pp(prod)] succeeds. *)
From RNT.Model Require Import Base Poly PolyModP FactorModP Hensel PolyZFactor.
From RNT.Model Require Resultant.
From mathcomp Require Import all_ssreflect ssralg poly polydiv.
From mathcomp Require Import ssrZ zify.
From RNT.Refine Require Import PolyRefine PolyDiv PolyZ SubresGaussZ SubresGauss SubresGcdDiv.
From RNT.Refine Require Import PolyZFactorMult PolyZFactorMain PolyZFactorEnum PolyZFactorW3Run.
Set Implicit Arguments.
Unset Strict Implicit.
Unset Printing Implicit Defensive.
Import GRing.Theory.
Local Open Scope ring_scope.

Lemma Poly_poly_mul (a : seq Z) (c : Z) : Poly (PolyModP.poly_mul a c) = c *: Poly a.
Proof.
rewrite /PolyModP.poly_mul; case: a => [|x a]; first by rewrite /= scaler0.
rewrite /from_raw opsZ_eq Poly_strip; apply/polyP => i.
rewrite coefZ !coef_Poly Lmap_eq.
case: (ltnP i (size (x :: a))) => hi; first by rewrite (nth_map 0) // mulrC.
by rewrite !nth_default ?size_map // mulr0.
Qed.

Lemma subset_prod_not_unwrap lifted idx prod pe : subset_prod lifted idx prod pe <> Panic PUnwrap.
Proof.
elim: idx prod => [|i idx IH] prod //=.
rewrite /nth_chk; case: nth_error => [li|] //=.
rewrite /poly_mod; case: (pmul opsZ prod li) => [|y t] /=; first exact: IH.
by case: ifP => _ //=; exact: IH.
Qed.

Lemma symmetric_not_unwrap md prod pe pe2 : PolyZFactor.symmetric md prod pe pe2 <> Panic PUnwrap.
Proof.
rewrite /PolyZFactor.symmetric /u64_norm.
case: ifP => _ /=; last case: md => //=.
- by rewrite /poly_mod; case: (padd _ _ _) => [|y t] //=; case: ifP.
- by rewrite /poly_mod; case: (padd _ _ _) => [|y t] //=; case: ifP.
Qed.

(** [P] one subset test never ends in the [expect] *)
Theorem try_subset_no_unwrap md (a : seq Z) lca pe pe2 lifted idx : canonZ a -> lca != 0 ->
  try_subset md a lca pe pe2 lifted idx <> Panic PUnwrap.
Proof.
move=> ca lca0; rewrite /try_subset.
case es: subset_prod => [prod0|t|] //=; last by move=> [et]; case: (@subset_prod_not_unwrap lifted idx (from_mono opsZ lca) pe); rewrite es et.
case ey: PolyZFactor.symmetric => [prod|t|] //=; last by move=> [et]; case: (@symmetric_not_unwrap md prod0 pe pe2); rewrite ey et.
case ed: div_exact => [q|] //.
case ed2: div_exact => [a'|] // _.
have cprod := symmetric_canon ey.
have prod0' : prod != [::] by apply: contra_eqN ed => /eqP ->; rewrite div_exact_nil_r.
have [ec cpp lpos prim _] := cont_pp_main cprod prod0' (surjective_pairing (cont_pp prod)).
have calca : canonZ (PolyModP.poly_mul a lca).
  by rewrite /PolyModP.poly_mul; case: (a) => [|x s] //; exact: from_rawZ_canon.
have [_ cq eq] := (div_exact_iff q calca cprod).1 ed.
have ppp : prim_pos (cont_pp prod).2 by split.
have [Q eQ] : exists Q, Poly a = Q * Poly (cont_pp prod).2.
  apply: (@gauss_dvd (Poly a) ((cont_pp prod).1 *: Poly q) _ lca) => //.
    exact: prim_pos_zprim.
  by rewrite -Poly_poly_mul eq -ec -scalerAl -scalerAr.
exact: (div_exact_none ca cpp (prim_pos_neq0 ppp) ed2 eQ).
Qed.

Lemma first_success_no_unwrap R (test : list nat -> outcome (option R)) l :
  (forall idx, test idx <> Panic PUnwrap) -> first_success test l <> Panic PUnwrap.
Proof.
move=> ht; elim: l => [|i l IH] //=.
by case et: (test i) => [[y|]|t|] //= [e]; case: (ht i); rewrite et e.
Qed.

(** [P] the recombination loop never ends in the [expect]: its only possible panics are the
    [assert!(lifted.len() <= 25)], an index/overflow/division-by-zero panic of the helpers *)
Theorem recombine_no_unwrap fuel md pe pe2 d (a : seq Z) lifted res : canonZ a -> a != [::] ->
  recombine fuel md pe pe2 d a lifted res <> Panic PUnwrap.
Proof.
elim: fuel d a lifted res => [|fuel IH] d a lifted res ca a0 //=.
case: ifP => _ //.
rewrite /assert_; case: ifP => _ //=.
rewrite find_subset_masks.
have lca0 : lead opsZ a != 0.
  by rewrite opsZ_eq lead_last; move: ca; rewrite /canonZ canon_last.
case ef: first_success => [[[idx [pp a']]|]|t|] //=.
- have et := first_success_mem ef.
  have et' := find_subset_spec (etrans (find_subset_masks _ _ _) ef).
  have [ppp ca' ea] := try_subset_spec ca et'.
  apply: IH => //.
  have : Poly a != 0 by rewrite canon_Poly_eq0.
  by rewrite ea -(canon_Poly_eq0 ca'); apply: contraNneq => ->; rewrite mul0r.
- exact: IH.
- move=> [e]; rewrite e in ef.
  by case: (first_success_no_unwrap (fun idx => @try_subset_no_unwrap md a (lead opsZ a) pe pe2 lifted idx ca lca0) ef).
Qed.
