(** Round 2 step, third wave (C06): the exact table of the input order ([Order::get_mult_table]) is
    n x n x n, commutative and associative (C14: AlgNormOrder), restated for users of [length] /
    [Forall].  Style: ssreflect. *)
From RNT.Model Require Import Base Poly Algebraic LinAlg MultTable Order.
From Coq Require Import QArith Qcanon.
From mathcomp Require Import all_ssreflect ssralg.
From mathcomp Require Import ssrZ zify.
From RNT.Refine Require Import PolyZ MultTableOps.
From RNT.Refine Require AlgNormMx AlgNormOrder.
Set Implicit Arguments.
Unset Strict Implicit.
Unset Printing Implicit Defensive.

Theorem order_table_laws (f : list Z) (n : nat) (o : list (list Qc)) (T : table) :
  canonZ f -> length f = n.+1 -> length o = n -> List.Forall (fun r => length r = n) o ->
  get_mult_table o f = Done T ->
  [/\ cube n T, AlgNormMx.tcomm T n & AlgNormMx.tassoc T n].
Proof.
move=> cf szf sb wo gt.
have rb : forall i, (i < n)%N -> size (nth [::] o i) = n.
  move=> i hi; move/List.Forall_forall: (wo); apply.
  have -> : nth [::] o i = List.nth i o [::].
    by elim: (o) i {hi} => [|x o' IH] [|i] //=.
  by apply: List.nth_In; rewrite sb; apply/ltP.
split.
- exact: (AlgNormOrder.ct cf szf sb rb gt).
- exact: (AlgNormOrder.order_tcomm cf szf sb rb gt).
- exact: (AlgNormOrder.order_tassoc cf szf sb rb gt).
Qed.

(** ** the table reduced mod q gives the same products mod q *)
From RNT.Refine Require Round2W3Mul.

Lemma T3_map3 n (g : Z -> Z) (T : table) i j k : cube n T -> (i < n)%N -> (j < n)%N -> (k < n)%N ->
  T3 (List.map (List.map (List.map g)) T) i j k = g (T3 T i j k).
Proof.
move=> ct hi hj hk; rewrite /T3.
have st : size T = n by case/andP: ct => /eqP.
rewrite (nth_map [::]) ?st // (nth_map [::]) ?(cube_row ct) // (nth_map 0%Z) ?(cube_cell ct) //.
Qed.

Lemma tmul_red_congr n (T : table) (q : Z) a b k : cube n T ->
  (q | List.nth k (AlgNormMx.tmul T n a b) 0%Z
       - List.nth k (AlgNormMx.tmul (List.map (List.map (List.map (fun x => Z.rem x q))) T) n a b) 0%Z)%Z.
Proof.
move=> ct; apply: Round2W3Mul.tmul_congr_table => i j k' hi hj hk.
rewrite (T3_map3 _ ct) //.
exists (Z.quot (T3 T i j k') q); have := Z.quot_rem' (T3 T i j k') q; lia.
Qed.
