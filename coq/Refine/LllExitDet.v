(** C20: the product |b*_0|^2 ... |b*_i|^2 of an integer basis is an integer (it is the determinant of the
    Gram matrix of the rows 0..i).  The only MathComp file of the LLL proofs: determinants.  Style: ssreflect. *)
From mathcomp Require Import all_ssreflect ssralg matrix.
From mathcomp Require Import ssrZ zify.
From Coq Require Import QArith Qcanon.
From RNT.Model Require Import Base Lll.
From RNT.Refine Require Import QcField LllGS LllHB LllExitPotential.

Set Implicit Arguments.
Unset Strict Implicit.
Unset Printing Implicit Defensive.
Import GRing.Theory.
Local Close Scope Z_scope.
Local Close Scope Q_scope.
Local Open Scope ring_scope.

(** the sums and products of the stdlib files as big operators *)
Lemma qsum_big k (f : nat -> Qc) : qsum k f = \sum_(j < k) f j.
Proof. by elim: k => [|k IH] /=; [rewrite big_ord0|rewrite big_ord_recr /= -IH]. Qed.

Lemma qprod_big k (f : nat -> Qc) : qprod k f = \prod_(j < k) f j.
Proof. by elim: k => [|k IH] /=; [rewrite big_ord0|rewrite big_ord_recr /= -IH]. Qed.

Lemma qsum_widen a m (g : nat -> Qc) : (a <= m)%nat ->
  qsum a g = \sum_(j < m) (if (j < a)%nat then g j else 0).
Proof.
elim: m a => [|m IH] a; first by rewrite leqn0 => /eqP ->; rewrite big_ord0.
rewrite leq_eqVlt => /orP [/eqP ->|]; last first.
  rewrite ltnS => le_am; rewrite big_ord_recr /= -IH // ltnNge le_am /=.
  by rewrite addr0.
rewrite big_ord_recr /= ltnSn [qsum _ _]/=; congr (_ + _).
rewrite qsum_big; apply: eq_bigr => j _.
by rewrite ltnS ltnW.
Qed.

(** [Qc_of_Z] is a ring morphism *)
Fact Qc_of_Z_is_rmorphism : rmorphism (Qc_of_Z : Z -> Qc).
Proof.
do ?split.
- move=> x y.
  change (Qc_of_Z (Z.add x (Z.opp y)) = Qcplus (Qc_of_Z x) (Qcopp (Qc_of_Z y))).
  by rewrite Qc_of_Z_add Qc_of_Z_opp.
- move=> x y. change (Qc_of_Z (Z.mul x y) = Qcmult (Qc_of_Z x) (Qc_of_Z y)).
  by rewrite Qc_of_Z_mul.
Qed.
Canonical Qc_of_Z_additive := Additive Qc_of_Z_is_rmorphism.
Canonical Qc_of_Z_rmorphism := RMorphism Qc_of_Z_is_rmorphism.

Lemma int_num (x : Qc) : (exists z, x = Qc_of_Z z) -> x = Qc_of_Z (Qnum (this x)).
Proof.
case=> z ->; congr Qc_of_Z.
have -> : this (Qc_of_Z z) = inject_Z z; last by [].
change (Qred (inject_Z z) = inject_Z z). apply: Qred_identity. exact: Z.gcd_1_r.
Qed.

Section Det.
Variables (n i : nat) (Bf Sf mu : nat -> nat -> Qc) (N : nat -> Qc).

Hypothesis H1 : forall (a : 'I_i.+1) (p : 'I_n),
  Bf a p = Sf a p + \sum_(j < i.+1) (if (j < a)%nat then mu a j * Sf j p else 0).
Hypothesis H2 : forall a b : 'I_i.+1, \sum_(p < n) Sf a p * Sf b p = if a == b then N a else 0.
Hypothesis H3 : forall (a : 'I_i.+1) (p : 'I_n), Bf a p = Qc_of_Z (Qnum (this (Bf a p))).

Let Bm : 'M[Qc]_(i.+1, n) := \matrix_(a, p) Bf a p.
Let Sm : 'M[Qc]_(i.+1, n) := \matrix_(a, p) Sf a p.
Let Mm : 'M[Qc]_(i.+1) := \matrix_(a, b) if (b < a)%nat then mu a b else (a == b)%:R.
Let ZB : 'M[Z]_(i.+1, n) := \matrix_(a, p) Qnum (this (Bf a p)).

Lemma BMS : Bm = Mm *m Sm.
Proof.
apply/matrixP => a p; rewrite !mxE H1.
rewrite [RHS](eq_bigr (fun j : 'I_i.+1 => (if (j < a)%nat then mu a j * Sf j p else 0)
                                      + (if j == a then Sf j p else 0))).
  by rewrite big_split /= -[X in _ = _ + X]big_mkcond /= big_pred1_eq addrC.
move=> j _; rewrite !mxE -!val_eqE /=.
case: ltngtP => [lt_ja|lt_aj|eq_ja].
- by rewrite addr0.
- by rewrite mul0r addr0.
- by rewrite mul1r add0r.
Qed.

Lemma SST : Sm *m Sm^T = diag_mx (\row_a N a).
Proof.
apply/matrixP => a b; rewrite !mxE.
rewrite (eq_bigr (fun p : 'I_n => Sf a p * Sf b p)); last by move=> p _; rewrite !mxE.
by rewrite H2; case: eqP => _; rewrite ?mulr1n ?mulr0n.
Qed.

Lemma Mm_trig : is_trig_mx Mm.
Proof.
apply/is_trig_mxP => a b lt_ab; rewrite mxE.
by rewrite ltnNge (ltnW lt_ab) /= (negbTE (_ : a != b)) // neq_ltn lt_ab.
Qed.

Lemma det_Mm : \det Mm = 1.
Proof.
rewrite (det_trig Mm_trig). apply: big1 => a _. by rewrite mxE ltnn eqxx.
Qed.

Lemma det_gram : \det (Bm *m Bm^T) = \prod_(a < i.+1) N a.
Proof.
rewrite BMS trmx_mul mulmxA -(mulmxA Mm) SST !det_mulmx det_tr det_Mm mul1r mulr1 det_diag.
by apply: eq_bigr => a _; rewrite mxE.
Qed.

Lemma gram_int : Bm *m Bm^T = map_mx Qc_of_Z (ZB *m ZB^T).
Proof.
have -> : Bm = map_mx Qc_of_Z ZB by apply/matrixP => a p; rewrite !mxE -H3.
by rewrite map_mxM map_trmx.
Qed.

Lemma prod_int : exists z : Z, \prod_(a < i.+1) N a = Qc_of_Z z.
Proof. by exists (\det (ZB *m ZB^T)); rewrite -det_gram gram_int det_map_mx. Qed.
End Det.

(** [P] in the vocabulary of the stdlib files *)
Theorem gs_prod_is_int (n i : nat) (Bf Sf mu : nat -> nat -> Qc) (N : nat -> Qc) :
  (i < n)%coq_nat ->
  (forall a p, (a <= i)%coq_nat -> (p < n)%coq_nat ->
     Bf a p = Qcplus (Sf a p) (qsum a (fun j => Qcmult (mu a j) (Sf j p)))) ->
  (forall a b, (a <= i)%coq_nat -> (b <= i)%coq_nat -> a <> b ->
     qsum n (fun p => Qcmult (Sf a p) (Sf b p)) = Q2Qc 0) ->
  (forall a, (a <= i)%coq_nat -> N a = qsum n (fun p => Qcmult (Sf a p) (Sf a p))) ->
  (forall a p, (a <= i)%coq_nat -> (p < n)%coq_nat -> exists z, Bf a p = Qc_of_Z z) ->
  exists z : Z, qprod (S i) N = Qc_of_Z z.
Proof.
move=> lt_in G1 G2 G3 G4. rewrite qprod_big.
apply: (@prod_int n i Bf Sf mu N).
- move=> a p. have le_a : (a <= i)%coq_nat by apply/leP; rewrite -ltnS.
  have lt_p : (p < n)%coq_nat by apply/ltP.
  rewrite (G1 a p le_a lt_p). congr (_ + _).
  by rewrite (@qsum_widen a i.+1) // ltnW.
- move=> a b. have le_a : (a <= i)%coq_nat by apply/leP; rewrite -ltnS.
  have le_b : (b <= i)%coq_nat by apply/leP; rewrite -ltnS.
  rewrite -(qsum_big n (fun p => Sf a p * Sf b p)). case: eqP => [->|ne_ab].
    by rewrite (G3 b le_b).
  by apply: G2 => // eq_ab; apply: ne_ab; apply/val_inj.
- move=> a p. apply: int_num. apply: G4; first by apply/leP; rewrite -ltnS.
  exact/ltP.
Qed.
