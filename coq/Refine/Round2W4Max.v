(** Round 2 driver, fourth wave (C06): the order returned by [find_integral_basis] is p-maximal at every prime p,
    hence it is the maximal order: it has index 1 (or -1, for a basis of negative orientation) in every
    over-order, which therefore has the same lattice.
    - a prime whose square does not divide the discriminant of an order: p-maximal (disc(O) = disc(O'') [O'':O]^2
      with disc(O'') an integer: C15 [order_disc_trace_form]);
    - p-maximality is inherited by a larger order whose index is prime to p;
    - the [while] loop at p ends on a p-maximal order: either p^2 does not divide the discriminant any more, or the
      last step returned howmany = 0 (Pohst-Zassenhaus, [Round2W4PZ.step_zero_p_maximal]).
    stdlib + lia. *)
From RNT.Model Require Import Base Poly Algebraic LinAlg MultTable Order Round2.
From RNT.Model Require Hnf Elementary Resultant.
From RNT.Refine Require Import MatZ Round2Basic Round2Index Round2Lattice Round2Det Round2Fuel.
From RNT.Refine Require Import Round2W3Radical Round2W3Driver Round2W3Start Round2W4NoPanic Round2W4PZ.
From RNT.Refine Require Round2W4Disc Round2W4Index PolyZ TrialDivProofs Round2W3Step.
From Coq Require Import Lia Znumtheory Zpow_facts QArith Qcanon Sorted.
Open Scope Z_scope.

Section Max.
Variables (m : mode) (f : list Z) (deg : nat).
Hypothesis Cf : PolyZ.canonZ f = true.
Hypothesis Lf : length f = S deg.
Hypothesis D1 : (1 <= deg)%nat.
Hypothesis Small : 2 * Z.of_nat deg < two64.

(** the discriminant of an over-order: an integer d2 with disc(O) = d2 * index^2 *)
Lemma over_disc o o2 i d :
  over_order f deg o o2 -> order_index o2 o = Done i -> order_disc m o f = Done d ->
  exists d2, order_disc m o2 f = Done d2 /\ d = d2 * i * i.
Proof.
  intros [Lo2 [Wo2 [[T2 GT2] _]]] IDX Dd.
  destruct (Round2W4Disc.order_disc_returns m (f := f) (n := deg) (b := o2) (T := T2) Cf Lf D1 Small Lo2 Wo2 GT2)
    as [d2 Dd2].
  exists d2. split; [assumption|].
  apply order_disc_inv in Dd, Dd2. destruct Dd as [discf [X0 Dd]], Dd2 as [discf' [X1 Dd2]].
  rewrite X0 in X1. injection X1 as <-.
  apply (disc_index m discf f o o2 i d d2 IDX Dd Dd2).
Qed.

(** [P] p^2 does not divide the discriminant => p-maximal *)
Theorem small_disc_p_maximal o p d :
  order_disc m o f = Done d -> ~ (p * p | d) -> p_maximal f deg p o.
Proof.
  intros Dd ND o2 i OO IDX [q ->].
  destruct (over_disc o o2 (q * p) d OO IDX Dd) as [d2 [_ E]].
  apply ND. exists (d2 * q * q). rewrite E. ring.
Qed.

Lemma over_order_trans o1 o2 o3 :
  length o2 = deg -> over_order f deg o1 o2 -> over_order f deg o2 o3 -> over_order f deg o1 o3.
Proof.
  intros Lo2 [_ [_ [_ C12]]] [Lo3 [Wo3 [GT3 C23]]].
  split; [assumption|]. split; [assumption|]. split; [assumption|].
  intros t Ht. apply in_spanQ_trans with o2; auto.
Qed.

(** [P] p-maximality passes to a larger order whose index is prime to p *)
Theorem p_maximal_transfer o1 o2 p d1 d2 c :
  prime p -> is_order f deg o1 -> is_order f deg o2 ->
  (forall t, (t < deg)%nat -> in_spanQ deg (nth t o1 []) o2) ->
  order_disc m o1 f = Done d1 -> order_disc m o2 f = Done d2 -> d1 <> 0 -> d1 = d2 * c -> rel_prime p c ->
  p_maximal f deg p o1 -> p_maximal f deg p o2.
Proof.
  intros Pp [LO1 _] [LO2 [_ GT2]] C12 Dd1 Dd2 Dn E Rc PM o3 i OO3 IDX DV.
  destruct (lower_from_shape deg o2 LO2) as [Lo2 Wo2].
  assert (OO12 : over_order f deg o1 o2) by (split; [assumption|]; split; [assumption|]; split; assumption).
  pose proof (over_order_trans o1 o2 o3 Lo2 OO12 OO3) as OO13.
  destruct OO13 as [Lo3 [Wo3 [GT3 C13]]].
  destruct (Round2W4Index.over_package (n := deg) (o := o1) (o2 := o3) LO1 Lo3 Wo3 C13) as [S [D [_ _ [_ IDX13] _ _]]].
  assert (OO13 : over_order f deg o1 o3) by (split; [assumption|]; split; [assumption|]; split; assumption).
  destruct (over_disc o2 o3 i d2 OO3 IDX Dd2) as [d3 [Dd3 E23]].
  destruct (over_disc o1 o3 D d1 OO13 IDX13 Dd1) as [d3' [Dd3' E13]].
  rewrite Dd3 in Dd3'. injection Dd3' as <-.
  apply (PM o3 D OO13 IDX13).
  assert (d3n : d3 <> 0) by (intros ->; lia).
  assert (EE : D * D = i * i * c).
  { apply (Z.mul_cancel_l _ _ d3 d3n). rewrite Z.mul_assoc, <- E13, E, E23. ring. }
  destruct DV as [q ->].
  assert (DD : (p | D * D)) by (rewrite EE; exists (q * q * p * c); ring).
  apply prime_mult in DD; [|assumption]. destruct DD; assumption.
Qed.

(** [P] the [while] loop at p, on an order with non-zero discriminant p^e r (p not dividing r, 0 <= e < 2^64):
    never panics; the result is an order containing the input, its discriminant is that of the input divided by a
    power of p, and it is p-maximal *)
Lemma prime_loop_pmax p : prime p ->
  forall fuel o e r d,
  is_order f deg o -> order_disc m o f = Done d -> d = p ^ e * r -> r <> 0 -> rel_prime p r -> 0 <= e < two64 ->
  match prime_loop fuel m f o p e with
  | Done o' => is_order f deg o' /\ (forall t, (t < deg)%nat -> in_spanQ deg (nth t o []) o') /\
               (exists d' s, order_disc m o' f = Done d' /\ 0 <= s /\ d = d' * p ^ s) /\
               p_maximal f deg p o'
  | Panic _ => False
  | OutOfFuel => 2 * Z.of_nat fuel <= e
  end.
Proof.
  intros Pp. assert (P2 : 2 <= p) by (destruct Pp; lia).
  induction fuel as [|fu IH]; intros o e r d IO Dd Ed Rn Rp He; [cbn; lia|].
  assert (LO : lower_from deg 0 o) by (destruct IO; assumption).
  destruct (lower_from_shape deg o LO) as [Lo Wo].
  cbn [prime_loop]. destruct (2 <=? e) eqn:E2.
  2:{ apply Z.leb_gt in E2. split; [assumption|]. split; [intros t Ht; apply in_spanQ_refl; assumption|].
      split; [exists d, 0; split; [assumption|]; split; [lia|]; rewrite Z.pow_0_r; ring|].
      apply (small_disc_p_maximal o p d Dd). intros [q Hq].
      assert (E01 : e = 0 \/ e = 1) by lia. destruct E01 as [->| ->].
      - rewrite Z.pow_0_r, Z.mul_1_l in Ed. subst r.
        destruct Rp as [_ _ G]. specialize (G p (Z.divide_refl p) ltac:(exists (q * p); lia)).
        apply Z.divide_1_r_nonneg in G; lia.
      - rewrite Z.pow_1_r in Ed. assert (Er : r = q * p) by nia.
        destruct Rp as [_ _ G]. specialize (G p (Z.divide_refl p) ltac:(exists q; lia)).
        apply Z.divide_1_r_nonneg in G; lia. }
  apply Z.leb_le in E2.
  destruct (order_step_returns f deg o p Lf D1 Pp IO) as [o1 [h S]]. rewrite S. cbn [bind].
  pose proof (order_step_order f deg o p o1 h Cf Lf D1 Pp IO S) as IO1.
  destruct (one_step_contains f o p o1 h deg Lf D1 Lo Wo S) as [Lo1 [Wo1 C1]].
  destruct (is_order_disc m f deg Cf Lf D1 Small o1 IO1) as [d1 Dd1].
  destruct (step_disc m f deg Lf D1 o p o1 h d d1 Pp IO S Dd Dd1) as [Hh DI].
  rewrite Ed in DI.
  destruct (exponent_bound p e r h d1 Pp Rp ltac:(lia) Hh DI) as [B Dd1'].
  rewrite (u64_norm_in_range m (2 * h)) by lia. cbn [bind].
  rewrite (u64_norm_in_range m (e - 2 * h)) by lia. cbn [bind].
  assert (E1 : d = d1 * p ^ (2 * h)).
  { rewrite Ed, Dd1'. replace e with ((e - 2 * h) + 2 * h) at 1 by lia. rewrite Z.pow_add_r by lia. ring. }
  assert (Ppos : forall k, 0 <= k -> 0 < p ^ k) by (intros k Hk; apply Z.pow_pos_nonneg; lia).
  assert (Dn : d <> 0) by (rewrite Ed; pose proof (Ppos e ltac:(lia)); nia).
  destruct (h =? 0) eqn:H0.
  - apply Z.eqb_eq in H0. subst h.
    split; [assumption|]. split; [assumption|].
    split; [exists d1, (2 * 0); split; [assumption|]; split; [lia|assumption]|].
    (* the last step returned 0: the input is p-maximal, and the result has the same discriminant *)
    pose proof (step_zero_p_maximal f deg o p o1 Cf Lf D1 Pp IO S) as PM.
    apply (p_maximal_transfer o o1 p d d1 1 Pp IO IO1 C1 Dd Dd1 Dn).
    + rewrite E1. change (2 * 0) with 0. rewrite Z.pow_0_r. reflexivity.
    + apply rel_prime_sym, rel_prime_1.
    + assumption.
  - apply Z.eqb_neq in H0.
    specialize (IH o1 (e - 2 * h) r d1 IO1 Dd1 Dd1' Rn Rp ltac:(lia)).
    destruct (prime_loop fu m f o1 p (e - 2 * h)) as [o2|t|].
    + destruct IH as [IO2 [C2 [[d2 [s [Dd2 [Hs E2']]]] PM2]]]. split; [assumption|].
      split.
      { intros t Ht. apply in_spanQ_trans with o1; auto. destruct IO2 as [LO2 _].
        destruct (lower_from_shape deg o2 LO2); assumption. }
      split; [|assumption].
      exists d2, (s + 2 * h). split; [assumption|]. split; [lia|].
      rewrite E1, E2', Z.pow_add_r by lia. ring.
    + assumption.
    + lia.
Qed.

(** [P] the [for] loop over the prime powers: the result is p-maximal at every prime of the list, and at every
    other prime at which the input was *)
Lemma primes_loop_pmax : forall fac o d,
  is_order f deg o -> order_disc m o f = Done d -> d <> 0 -> fac_ok d fac ->
  exists o' d', primes_loop m f fac o = Done o' /\ is_order f deg o' /\
    order_disc m o' f = Done d' /\ (d' | d) /\
    (forall p, In p (map fst fac) -> p_maximal f deg p o') /\
    (forall p, prime p -> ~ In p (map fst fac) -> p_maximal f deg p o -> p_maximal f deg p o').
Proof.
  induction fac as [|[q e] rest IH]; intros o d IO Dd Dn [ND FO]; cbn [primes_loop].
  { exists o, d. split; [reflexivity|]. split; [assumption|]. split; [assumption|].
    split; [apply Z.divide_refl|]. split; [intros p []|auto]. }
  destruct (FO q e (or_introl eq_refl)) as [Pq [He [r [Ed Rq]]]].
  assert (Rn : r <> 0) by (intros ->; lia).
  pose proof (prime_loop_pmax q Pq (prime_fuel e) o e r d IO Dd Ed Rn Rq He) as PL.
  destruct (prime_loop (prime_fuel e) m f o q e) as [o1|t|]; [|destruct PL|unfold prime_fuel in PL; lia].
  cbn [bind]. destruct PL as [IO1 [C1 [[d1 [s [Dd1 [Hs E1]]]] PM1]]].
  cbn [map fst] in ND. inversion ND as [|x xs Nin ND']; subst x xs.
  assert (D1n : d1 <> 0) by (intros ->; lia).
  assert (FO1 : fac_ok d1 rest).
  { split; [assumption|]. intros q' e' Hin.
    destruct (FO q' e' (or_intror Hin)) as [Pq' [He' [r' [Ed' Rq']]]].
    split; [assumption|]. split; [assumption|].
    apply (exponent_transfer q q' d d1 s e' r'); try assumption; [|lia].
    intros ->. apply Nin. change q' with (fst (q', e')). apply in_map. assumption. }
  destruct (IH o1 d1 IO1 Dd1 D1n FO1) as [o' [d' [PLr [IO' [Dd' [DV' [PMin PMout]]]]]]].
  exists o', d'. split; [assumption|]. split; [assumption|]. split; [assumption|].
  split; [apply Z.divide_trans with d1; [assumption|exists (q ^ s); lia]|].
  assert (Tr : forall p, prime p -> p <> q -> p_maximal f deg p o -> p_maximal f deg p o1).
  { intros p Pp Ne PM.
    apply (p_maximal_transfer o o1 p d d1 (q ^ s) Pp IO IO1 C1 Dd Dd1 Dn E1); [|assumption].
    apply rel_prime_Zpower_r; [assumption|]. apply primes_rel_prime; assumption. }
  split.
  - intros p [<-|Hin]; [|apply PMin; assumption].
    apply PMout; assumption.
  - intros p Pp Nin' PM. apply PMout; [assumption| |].
    + intros Hin. apply Nin'. right. assumption.
    + apply Tr; [assumption| |assumption]. intros ->. apply Nin'. left. reflexivity.
Qed.
End Max.

(** a prime dividing a product of prime powers is one of the primes *)
Import TrialDivProofs.

Lemma prime_in_fprod p : prime p -> forall l,
  (forall q e, In (q, e) l -> prime q /\ 0 < e) -> (p | fprod l) -> In p (map fst l).
Proof.
  intros Pp. induction l as [|[q e] l IH]; intros Pl DV.
  - cbn in DV. apply Z.divide_1_r_nonneg in DV; destruct Pp; lia.
  - cbn [fprod fold_right fst snd] in DV. fold (fprod l) in DV.
    destruct (Pl q e (or_introl eq_refl)) as [Pq He].
    apply prime_mult in DV; [|assumption]. destruct DV as [DV|DV].
    + left. cbn [fst]. symmetry. apply (prime_power_prime p q e); [lia|assumption|assumption|assumption].
    + right. apply IH; [intros q' e' H; apply Pl; right; assumption|assumption].
Qed.

(** every integer of absolute value > 1 has a prime divisor *)
Lemma prime_divisor i : 1 < Z.abs i -> exists p, prime p /\ (p | i).
Proof.
  intros Hi. destruct (trial_factorize_spec (Z.abs i) ltac:(lia)) as [l [_ [_ [Pl Fl]]]].
  destruct l as [|[q e] l]; [cbn in Fl; lia|].
  destruct (Pl q e (or_introl eq_refl)) as [Pq He]. exists q. split; [assumption|].
  apply Z.divide_abs_r. rewrite <- Fl. cbn [fprod fold_right fst snd].
  apply Z.divide_mul_l. exists (q ^ (e - 1)). replace e with (Z.succ (e - 1)) at 1 by lia. rewrite Z.pow_succ_r by lia. ring.
Qed.

(** ** [C] the driver, PROVIDED the starting order is computed and closed under multiplication *)
Theorem find_integral_basis_p_maximal_flag m f deg :
  PolyZ.canonZ f = true -> length f = S deg -> (1 <= deg)%nat -> 2 * Z.of_nat deg < two64 ->
  (exists o0 T0, non_monic_initial_order f = Done o0 /\ get_mult_table o0 f = Done T0) ->
  (forall o0 d0, non_monic_initial_order f = Done o0 -> order_disc m o0 f = Done d0 ->
     d0 <> 0 /\ Z.log2 (Z.abs d0) < two64) ->
  exists O, find_integral_basis m f = Done O /\ is_order f deg O /\
            forall p, prime p -> p_maximal f deg p O.
Proof.
  intros Cf Lf D1 Small [o0 [T0 [N0 GT0]]] Hd.
  pose proof (start_is_order f deg o0 T0 Lf D1 N0 GT0) as IO0.
  destruct (is_order_disc m f deg Cf Lf D1 Small o0 IO0) as [d0 Dd0].
  destruct (Hd o0 d0 N0 Dd0) as [Dn Db].
  destruct (trial_factorize_spec (Z.abs d0) ltac:(lia)) as [fac [TF [_ [Pl Fl]]]].
  pose proof (trial_factorize_fac_ok d0 fac Dn Db TF) as FO.
  destruct (primes_loop_pmax m f deg Cf Lf D1 Small fac o0 d0 IO0 Dd0 Dn FO)
    as [O [d' [PL [IO [Dd' [DV' [PMin PMout]]]]]]].
  exists O. split.
  { unfold find_integral_basis. rewrite N0. cbn [bind]. rewrite Dd0. cbn [bind]. rewrite TF. cbn [bind]. exact PL. }
  split; [assumption|]. intros p Pp.
  destruct (in_dec Z.eq_dec p (map fst fac)) as [Hin|Nin]; [apply PMin; assumption|].
  (* p does not divide the discriminant of the starting order *)
  assert (ND : ~ (p | d0)).
  { intros DV. apply Nin. apply (prime_in_fprod p Pp fac Pl). rewrite Fl. apply Z.divide_abs_r. assumption. }
  apply PMout; [assumption|assumption|].
  apply (small_disc_p_maximal m f deg Cf Lf D1 Small o0 p d0 Dd0).
  intros [q Hq]. apply ND. exists (q * p). lia.
Qed.

(** an order that is p-maximal at every prime has index 1 or -1 in each of its over-orders, which have the same lattice *)
Theorem all_p_maximal_maximal f deg O :
  is_order f deg O -> (forall p, prime p -> p_maximal f deg p O) ->
  forall o2, over_order f deg O o2 ->
    (order_index o2 O = Done 1 \/ order_index o2 O = Done (-1)) /\
    forall t, (t < deg)%nat -> in_spanQ deg (nth t o2 []) O.
Proof.
  intros IO PM o2 OO.
  pose proof OO as [Lo2 [Wo2 [GT2 C2]]]. destruct IO as [LO _].
  destruct (Round2W4Index.over_package (n := deg) (o := O) (o2 := o2) LO Lo2 Wo2 C2) as [S [D [_ _ [Dn IDX] _ _]]].
  assert (E : D = 1 \/ D = -1).
  { destruct (Z_le_gt_dec (Z.abs D) 1) as [L|G]; [lia|].
    destruct (prime_divisor D ltac:(lia)) as [p [Pp DV]].
    exfalso. apply (PM p Pp o2 D OO IDX DV). }
  split.
  - destruct E as [<-| <-]; [left|right]; assumption.
  - apply (Round2W4Index.over_unit_equal (n := deg) (o := O) (o2 := o2) (i := D)); assumption.
Qed.

Theorem find_integral_basis_maximal_flag m f deg :
  PolyZ.canonZ f = true -> length f = S deg -> (1 <= deg)%nat -> 2 * Z.of_nat deg < two64 ->
  (exists o0 T0, non_monic_initial_order f = Done o0 /\ get_mult_table o0 f = Done T0) ->
  (forall o0 d0, non_monic_initial_order f = Done o0 -> order_disc m o0 f = Done d0 ->
     d0 <> 0 /\ Z.log2 (Z.abs d0) < two64) ->
  exists O, find_integral_basis m f = Done O /\ is_order f deg O /\
    forall o2, over_order f deg O o2 ->
      (order_index o2 O = Done 1 \/ order_index o2 O = Done (-1)) /\
      forall t, (t < deg)%nat -> in_spanQ deg (nth t o2 []) O.
Proof.
  intros Cf Lf D1 Small Flag Hd.
  destruct (find_integral_basis_p_maximal_flag m f deg Cf Lf D1 Small Flag Hd) as [O [F [IO PM]]].
  exists O. split; [assumption|]. split; [assumption|].
  apply all_p_maximal_maximal; assumption.
Qed.

(** ** [P] monic f: find_integral_basis_p_maximal, find_integral_basis_maximal *)
Lemma monic_flag f deg :
  PolyZ.canonZ f = true -> length f = S deg -> (1 <= deg)%nat -> nth deg f 0 = 1 ->
  exists o0 T0, non_monic_initial_order f = Done o0 /\ get_mult_table o0 f = Done T0.
Proof.
  intros Cf Lf D1 Mon.
  destruct (non_monic_total_monic f deg Lf D1 Mon) as [o0 N0].
  destruct (monic_start_table f deg o0 Cf Lf D1 Mon N0) as [T0 GT0]. eauto.
Qed.

Theorem find_integral_basis_p_maximal m f deg :
  PolyZ.canonZ f = true -> length f = S deg -> (1 <= deg)%nat -> 2 * Z.of_nat deg < two64 -> nth deg f 0 = 1 ->
  (forall o0 d0, non_monic_initial_order f = Done o0 -> order_disc m o0 f = Done d0 ->
     d0 <> 0 /\ Z.log2 (Z.abs d0) < two64) ->
  exists O, find_integral_basis m f = Done O /\ is_order f deg O /\
            forall p, prime p -> p_maximal f deg p O.
Proof.
  intros Cf Lf D1 Small Mon Hd.
  apply find_integral_basis_p_maximal_flag; try assumption. apply (monic_flag f deg); assumption.
Qed.

Theorem find_integral_basis_maximal m f deg :
  PolyZ.canonZ f = true -> length f = S deg -> (1 <= deg)%nat -> 2 * Z.of_nat deg < two64 -> nth deg f 0 = 1 ->
  (forall o0 d0, non_monic_initial_order f = Done o0 -> order_disc m o0 f = Done d0 ->
     d0 <> 0 /\ Z.log2 (Z.abs d0) < two64) ->
  exists O, find_integral_basis m f = Done O /\ is_order f deg O /\
    forall o2, over_order f deg O o2 ->
      (order_index o2 O = Done 1 \/ order_index o2 O = Done (-1)) /\
      forall t, (t < deg)%nat -> in_spanQ deg (nth t o2 []) O.
Proof.
  intros Cf Lf D1 Small Mon Hd.
  apply find_integral_basis_maximal_flag; try assumption. apply (monic_flag f deg); assumption.
Qed.
