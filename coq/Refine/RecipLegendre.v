(** * Legendre symbol over 'F_p: Euler's criterion, multiplicativity, Gauss's lemma, supplementary laws,
      Eisenstein's lemma and the law of quadratic reciprocity. MathComp style (nat arguments). *)
From mathcomp Require Import all_ssreflect ssralg ssrnum ssrint zmodp.
From mathcomp Require Import zify.
Set Implicit Arguments.
Unset Strict Implicit.
Unset Printing Implicit Defensive.
Import GRing.Theory.
Local Open Scope ring_scope.

(** ** Signs in a ring *)

Lemma prod_sign (R : comRingType) (s : seq nat) (e : nat -> nat) :
  \prod_(x <- s) ((-1 : R) ^+ e x) = (-1) ^+ (\sum_(x <- s) e x).
Proof. by elim: s => [|x s IH]; rewrite ?big_nil ?expr0 // !big_cons exprD IH. Qed.

(** ** Counting helpers *)

Lemma sum_ind_le m N : (N <= m)%N -> (\sum_(1 <= y < m.+1) (y <= N) = N)%N.
Proof.
  move=> le. rewrite (@big_cat_nat _ _ _ N.+1) //=.
  have -> : (\sum_(1 <= y < N.+1) (y <= N) = \sum_(1 <= y < N.+1) 1)%N
    by apply: eq_big_nat => y /andP [_]; rewrite ltnS => ->.
  have -> : (\sum_(N.+1 <= y < m.+1) (y <= N) = \sum_(N.+1 <= y < m.+1) 0)%N
    by apply: eq_big_nat => y /andP [H _]; rewrite leqNgt H.
  rewrite !sum_nat_const_nat. lia.
Qed.

Lemma sum_ind_gt m N : (N <= m)%N -> (\sum_(1 <= y < m.+1) (N < y) = m - N)%N.
Proof.
  move=> le. rewrite (@big_cat_nat _ _ _ N.+1) //=.
  have -> : (\sum_(1 <= y < N.+1) (N < y) = \sum_(1 <= y < N.+1) 0)%N
    by apply: eq_big_nat => y /andP [_]; rewrite ltnS leqNgt => /negbTE ->.
  have -> : (\sum_(N.+1 <= y < m.+1) (N < y) = \sum_(N.+1 <= y < m.+1) 1)%N
    by apply: eq_big_nat => y /andP [-> _].
  rewrite !sum_nat_const_nat. lia.
Qed.

Lemma sgv_sign n : [|| (-1) ^+ n == 0 :> int, (-1) ^+ n == 1 :> int | (-1) ^+ n == -1 :> int].
Proof. by rewrite -signr_odd; case: (odd n). Qed.

Section Legendre.
Variable p : nat.
Hypothesis pr_p : prime p.
Hypothesis p_gt2 : (2 < p)%N.

Let h := p./2.

Lemma p_odd : odd p.
Proof. by have := even_prime pr_p; case: (odd p) => // -[] // E; move: p_gt2; rewrite E. Qed.

Lemma p_eq : p = h.*2.+1.
Proof. by rewrite -[LHS]odd_double_half p_odd. Qed.

Lemma h_gt0 : (0 < h)%N.
Proof. have := p_eq; have := p_gt2; lia. Qed.

Lemma natFp_eq0 (n : nat) : (n%:R == 0 :> 'F_p) = (p %| n)%N.
Proof. by rewrite -(dvdn_charf (char_Fp pr_p)). Qed.

Lemma natFp_eq (m n : nat) : (m%:R == n%:R :> 'F_p) = (m == n %[mod p])%N.
Proof.
  apply/eqP/eqP => [E|E].
  - by have := congr1 (@nat_of_ord _) E; rewrite !val_Fp_nat.
  - by rewrite -(Fp_nat_mod pr_p m) E Fp_nat_mod.
Qed.

Lemma two_neq0 : (2%:R != 0 :> 'F_p).
Proof. rewrite natFp_eq0. apply/negP => /(dvdn_leq (isT : 0 < 2)%N). move: p_gt2; lia. Qed.

Lemma m1_neq1 : (-1 != 1 :> 'F_p).
Proof. by rewrite eq_sym -subr_eq0 opprK -(natrD _ 1%N 1%N) two_neq0. Qed.

(** Euler's power a^((p-1)/2) in F_p. *)
Definition eul (a : nat) : 'F_p := a%:R ^+ h.

(** The Legendre symbol by Euler's criterion. *)
Definition leg (a : nat) : int :=
  if eul a == 0 then 0 else if eul a == 1 then 1 else -1.

Lemma eul_eq0 a : (eul a == 0) = (p %| a)%N.
Proof. by rewrite /eul expf_eq0 h_gt0 natFp_eq0. Qed.

Lemma fermatFp a : ~~ (p %| a)%N -> (a%:R : 'F_p) ^+ p.-1 = 1.
Proof.
  move=> Ha. have a0 : (a%:R != 0 :> 'F_p) by rewrite natFp_eq0.
  apply: (mulfI a0). rewrite -exprS (prednK (prime_gt0 pr_p)) mulr1 -natrX.
  by apply/eqP; rewrite natFp_eq; apply/eqP; apply: fermat_little.
Qed.

Lemma eul_sq a : ~~ (p %| a)%N -> eul a ^+ 2 = 1.
Proof.
  move=> Ha. rewrite /eul -exprM muln2. have -> : h.*2 = p.-1 by have := p_eq; lia.
  exact: fermatFp.
Qed.

Lemma eul_pm1 a : ~~ (p %| a)%N -> (eul a == 1) || (eul a == -1).
Proof. by move=> Ha; rewrite -sqrf_eq1 eul_sq. Qed.

Lemma legE a : (leg a)%:~R = eul a.
Proof.
  rewrite /leg. case: (boolP (p %| a)%N) => Ha.
  - by move: (Ha); rewrite -eul_eq0 => /eqP ->; rewrite eqxx.
  - move: (Ha); rewrite -eul_eq0 => /negbTE ->.
    have := eul_pm1 Ha. case: eqP => [-> _|_ /= /eqP ->]; first by [].
    by rewrite mulrN1z.
Qed.

Definition sgv (x : int) : bool := [|| x == 0, x == 1 | x == -1].

Lemma leg_sgv a : sgv (leg a).
Proof. by rewrite /leg /sgv; case: (eul a == 0) => //; case: (eul a == 1). Qed.

Lemma sgvM x y : sgv x -> sgv y -> sgv (x * y).
Proof. by rewrite /sgv => /or3P [] /eqP -> /or3P [] /eqP ->. Qed.

Lemma sgv_inj x y : sgv x -> sgv y -> x%:~R = y%:~R :> 'F_p -> x = y.
Proof.
  have n10 : (1 != 0 :> 'F_p) by apply: oner_neq0.
  have m10 : (-1 != 0 :> 'F_p) by rewrite oppr_eq0.
  have := m1_neq1.
  rewrite /sgv => N /or3P [] /eqP -> /or3P [] /eqP -> //; rewrite ?mulrN1z ?mulr1z ?mulr0z => /eqP;
    rewrite ?(negbTE n10) ?(negbTE m10) ?(negbTE N) // eq_sym ?(negbTE n10) ?(negbTE m10) ?(negbTE N) //.
Qed.

Lemma leg_eq0 a : (leg a == 0) = (p %| a)%N.
Proof. by rewrite -eul_eq0 /leg; case: (eul a == 0) => //; case: (eul a == 1). Qed.

Lemma leg_mod a : leg (a %% p) = leg a.
Proof. by rewrite /leg /eul Fp_nat_mod. Qed.

(** Multiplicativity in the top argument. *)
Lemma legM a b : leg (a * b) = leg a * leg b.
Proof.
  apply: sgv_inj; [exact: leg_sgv|apply: sgvM; exact: leg_sgv|].
  by rewrite intrM !legE /eul natrM exprMn.
Qed.

Lemma leg_1 : leg 1 = 1.
Proof. by rewrite /leg /eul expr1n oner_eq0 eqxx. Qed.

(** Euler's criterion, easy half: a non-zero square has symbol 1. *)
Lemma leg_sqr x : ~~ (p %| x)%N -> leg (x * x) = 1.
Proof.
  move=> Hx. rewrite legM. have := leg_sgv x. rewrite /sgv leg_eq0 (negbTE Hx) /=.
  by case/orP => /eqP ->.
Qed.

(** ** Gauss's lemma *)

Section Gauss.
Variable a : nat.
Hypothesis Ha : ~~ (p %| a)%N.

Definition gbig (x : nat) : bool := (h < (a * x) %% p)%N.
Definition gres (x : nat) : nat := if gbig x then (p - (a * x) %% p)%N else ((a * x) %% p)%N.
Definition gmu : nat := (\sum_(1 <= x < h.+1) gbig x)%N.

Let s := index_iota 1 h.+1.

Lemma in_s x : (x \in s) = (0 < x <= h)%N.
Proof. by rewrite mem_index_iota ltnS. Qed.

Lemma s_ndvd x : x \in s -> ~~ (p %| x)%N.
Proof.
  rewrite in_s => /andP [x0 xh]. apply/negP => /(dvdn_leq x0). have := p_eq. lia.
Qed.

Lemma ax_ndvd x : x \in s -> ((a * x) %% p != 0)%N.
Proof. by move=> xs; rewrite -/(dvdn p (a * x)) Euclid_dvdM // negb_or Ha s_ndvd. Qed.

Lemma gres_in x : x \in s -> gres x \in s.
Proof.
  move=> xs. have := ax_ndvd xs. have := ltn_pmod (a * x) (prime_gt0 pr_p).
  rewrite in_s /gres /gbig. have := p_eq. move: ((a * x) %% p)%N => t. case: (ltnP h t); lia.
Qed.

Lemma gresE x : ((a * x)%:R : 'F_p) = (-1) ^+ gbig x * (gres x)%:R.
Proof.
  rewrite /gres. case: (gbig x).
  - rewrite expr1 mulN1r natrB; last by apply: ltnW; apply: ltn_pmod; apply: prime_gt0.
    by rewrite char_Fp_0 // sub0r opprK Fp_nat_mod.
  - by rewrite expr0 mul1r Fp_nat_mod.
Qed.

Lemma a_neq0 : (a%:R != 0 :> 'F_p).
Proof. by rewrite natFp_eq0. Qed.

Lemma small_eq x y : x \in s -> y \in s -> (x%:R : 'F_p) = y%:R -> x = y.
Proof.
  rewrite !in_s => Hx Hy /eqP. rewrite natFp_eq => /eqP.
  have := p_eq. rewrite !modn_small; lia.
Qed.

Lemma small_neq_opp x y : x \in s -> y \in s -> (x%:R : 'F_p) <> - y%:R.
Proof.
  rewrite !in_s => Hx Hy /eqP. rewrite -subr_eq0 opprK -natrD natFp_eq0 => /dvdn_leq.
  have := p_eq. lia.
Qed.

Lemma gres_inj : {in s &, injective gres}.
Proof.
  move=> x y xs ys E.
  have Ex := gresE x. have Ey := gresE y. rewrite E in Ex.
  have : (a%:R * x%:R : 'F_p) = (-1) ^+ gbig x * (-1) ^+ gbig y * (a%:R * y%:R).
  { rewrite -!natrM Ex Ey mulrA; congr (_ * _). rewrite -mulrA -exprD addnn -mul2n exprM.
    by rewrite sqrrN expr1n expr1n mulr1. }
  rewrite mulrCA => /(mulfI a_neq0).
  case: (gbig x); case: (gbig y); rewrite ?expr1 ?expr0 ?mulrNN ?mul1r ?mulN1r.
  - exact: small_eq.
  - by move/small_neq_opp; case.
  - by move/small_neq_opp; case.
  - exact: small_eq.
Qed.

Lemma gres_perm : perm_eq [seq gres x | x <- s] s.
Proof.
  have U : uniq [seq gres x | x <- s] by rewrite map_inj_in_uniq ?iota_uniq //; exact: gres_inj.
  apply: uniq_perm => //; first by apply: iota_uniq.
  have Sub : {subset [seq gres x | x <- s] <= s} by move=> y /mapP [x xs ->]; apply: gres_in.
  by have [] := uniq_min_size U Sub; rewrite ?size_map.
Qed.

Lemma fact_neq0 : (\prod_(x <- s) (x%:R : 'F_p) != 0).
Proof.
  rewrite prodf_seq_neq0. apply/allP => x xs /=. by rewrite natFp_eq0 s_ndvd.
Qed.

(** Gauss's lemma: a^((p-1)/2) = (-1)^mu in F_p. *)
Lemma gauss_eul : eul a = (-1) ^+ gmu.
Proof.
  apply: (mulIf fact_neq0).
  have -> : eul a * \prod_(x <- s) (x%:R : 'F_p) = \prod_(x <- s) ((a * x)%:R : 'F_p).
  { rewrite /eul. under [RHS]eq_bigr do rewrite natrM. rewrite big_split /=.
    by rewrite prodr_const_nat subn1. }
  under eq_bigr do rewrite gresE. rewrite big_split /= prod_sign.
  congr (_ * _). rewrite -(big_map gres xpredT (fun y => y%:R : 'F_p)).
  exact: perm_big gres_perm.
Qed.

Lemma gauss_leg : leg a = (-1) ^+ gmu.
Proof.
  apply: sgv_inj; first exact: leg_sgv.
  - by rewrite /sgv -signr_odd; case: (odd gmu); rewrite ?expr1 ?expr0 ?eqxx ?orbT.
  - by rewrite legE gauss_eul rmorphX rmorphN1.
Qed.

(** ** Eisenstein's lemma: the parity of mu is that of sum floor(a x / p) when a is odd *)

Definition gfl : nat := (\sum_(1 <= x < h.+1) (a * x) %/ p)%N.
Definition gS : nat := (\sum_(1 <= x < h.+1) x)%N.

Lemma eis1 : (a * gS = p * gfl + (\sum_(1 <= x < h.+1) (a * x) %% p))%N.
Proof.
  rewrite /gS /gfl !big_distrr /= -big_split /=. apply: eq_bigr => x _.
  by rewrite {1}(divn_eq (a * x) p) mulnC.
Qed.

Lemma sum_gres : (\sum_(x <- s) gres x = gS)%N.
Proof. rewrite -(big_map gres xpredT id). exact: perm_big gres_perm. Qed.

Lemma eis2 : ((\sum_(1 <= x < h.+1) (a * x) %% p) + 2 * (\sum_(1 <= x < h.+1) gbig x * gres x) = gS + p * gmu)%N.
Proof.
  rewrite -sum_gres /gmu !big_distrr /= -!big_split /=.
  rewrite [LHS]big_seq_cond [RHS]big_seq_cond. apply: eq_bigr => x /andP [xs _].
  have := ltn_pmod (a * x) (prime_gt0 pr_p). rewrite /gres.
  case: (gbig x); move: ((a * x) %% p)%N => t; lia.
Qed.

Lemma eis_parity : odd a -> odd gmu = odd gfl.
Proof.
  move=> oa. have := eis1. have := eis2.
  move: (\sum_(1 <= x < h.+1) (a * x) %% p)%N (\sum_(1 <= x < h.+1) gbig x * gres x)%N => T B E2 E1.
  have E : (a * gS + 2 * B = p * gfl + gS + p * gmu)%N by rewrite E1 -addnA E2; lia.
  have := congr1 odd E.
  rewrite !oddD !oddM oa p_odd /=. by case: (odd B); case: (odd gS); case: (odd gfl); case: (odd gmu).
Qed.

End Gauss.

(** ** Supplementary laws *)

Lemma leg_m1 : leg p.-1 = (-1) ^+ h.
Proof.
  apply: sgv_inj; [exact: leg_sgv|exact: sgv_sign|].
  rewrite legE /eul rmorphX rmorphN1. congr (_ ^+ _).
  by rewrite -subn1 natrB ?prime_gt0 // char_Fp_0 // sub0r.
Qed.

Lemma p_ndvd2 : ~~ (p %| 2)%N.
Proof. apply/negP => /(dvdn_leq (isT : 0 < 2)%N). move: p_gt2; lia. Qed.

Lemma gmu2 : gmu 2 = (h - h./2)%N.
Proof.
  rewrite /gmu -(@sum_ind_gt h h./2); last by lia.
  apply: eq_big_nat => x Hx. congr nat_of_bool. rewrite /gbig modn_small; have := p_eq; lia.
Qed.

Lemma leg_2 : leg 2 = (-1) ^+ (h - h./2)%N.
Proof. by rewrite (gauss_leg p_ndvd2) gmu2. Qed.

End Legendre.

(** ** The law of quadratic reciprocity (Eisenstein's lattice-point count) *)

Section Reciprocity.
Variables p q : nat.
Hypotheses (pr_p : prime p) (pr_q : prime q) (p_gt2 : (2 < p)%N) (q_gt2 : (2 < q)%N) (pq : p != q).

Lemma ndvd_pq : ~~ (p %| q)%N.
Proof. by rewrite dvdn_prime2. Qed.

Lemma lattice_neq x y : (0 < x <= p./2)%N -> (p * y != q * x)%N.
Proof.
  move=> Hx. apply/negP => /eqP E.
  have : (p %| q * x)%N by rewrite -E dvdn_mulr.
  rewrite Euclid_dvdM // (negbTE ndvd_pq) /= => /dvdn_leq. have := p_eq pr_p p_gt2. lia.
Qed.

Lemma gfl_count : gfl p q = (\sum_(1 <= x < p./2.+1) \sum_(1 <= y < q./2.+1) (p * y < q * x))%N.
Proof.
  rewrite /gfl. apply: eq_big_nat => x Hx.
  have p0 : (0 < p)%N by apply: prime_gt0.
  rewrite -(@sum_ind_le q./2 ((q * x) %/ p)).
  - apply: eq_big_nat => y Hy. congr nat_of_bool.
    rewrite leq_divRL // mulnC [RHS]ltn_neqAle lattice_neq //.
  - rewrite -ltnS ltn_divLR //. have := p_eq pr_p p_gt2. have := p_eq pr_q q_gt2. nia.
Qed.

End Reciprocity.

Theorem leg_reciprocity p q : prime p -> prime q -> (2 < p)%N -> (2 < q)%N -> p != q ->
  leg q p * leg p q = (-1) ^+ (p./2 * q./2)%N.
Proof.
  move=> pr_p pr_q p2 q2 pq. have qp : q != p by rewrite eq_sym.
  rewrite (gauss_leg pr_p p2 (ndvd_pq pr_p pr_q pq)) (gauss_leg pr_q q2 (ndvd_pq pr_q pr_p qp)).
  rewrite -exprD -signr_odd oddD.
  rewrite (eis_parity pr_p p2 (ndvd_pq pr_p pr_q pq) (p_odd pr_q q2)).
  rewrite (eis_parity pr_q q2 (ndvd_pq pr_q pr_p qp) (p_odd pr_p p2)).
  rewrite -oddD signr_odd. congr (_ ^+ _).
  rewrite (gfl_count pr_p pr_q p2 q2 pq) (gfl_count pr_q pr_p q2 p2 qp).
  rewrite [X in (_ + X)%N]exchange_big /= -big_split /=.
  have -> : (p./2 * q./2 = \sum_(1 <= y < q./2.+1) \sum_(1 <= x < p./2.+1) 1)%N
    by rewrite !sum_nat_const_nat !subn1 /= !muln1 mulnC.
  apply: eq_big_nat => y Hy. rewrite -big_split /=. apply: eq_big_nat => x Hx.
  have := lattice_neq pr_p pr_q p2 q2 pq y Hx. by case: ltngtP.
Qed.

(** ** Table forms (residues of p mod 4 and mod 8) and the computational characterisation *)

Lemma sign_if n : (-1) ^+ n = (if odd n then -1 else 1) :> int.
Proof. by rewrite -signr_odd; case: (odd n). Qed.

Lemma leg_m1_tab p : prime p -> (2 < p)%N -> leg p p.-1 = if (p %% 4 == 1)%N then 1 else -1.
Proof.
  move=> pr_p p2. rewrite (leg_m1 pr_p p2) sign_if. have := p_odd pr_p p2.
  have -> : odd p./2 = ~~ (p %% 4 == 1)%N by have := p_odd pr_p p2; lia.
  by case: (p %% 4 == 1)%N.
Qed.

Lemma leg_2_tab p : prime p -> (2 < p)%N ->
  leg p 2 = if ((p %% 8 == 1) || (p %% 8 == 7))%N then 1 else -1.
Proof.
  move=> pr_p p2. rewrite (leg_2 pr_p p2) sign_if.
  have -> : odd (p./2 - p./2./2) = ~~ ((p %% 8 == 1) || (p %% 8 == 7))%N by have := p_odd pr_p p2; lia.
  by case: ((p %% 8 == 1) || (p %% 8 == 7))%N.
Qed.

Lemma leg_reciprocity_tab p q : prime p -> prime q -> (2 < p)%N -> (2 < q)%N -> p != q ->
  leg q p * leg p q = if ((p %% 4 == 3) && (q %% 4 == 3))%N then -1 else 1.
Proof.
  move=> pr_p pr_q p2 q2 pq. rewrite (leg_reciprocity pr_p pr_q p2 q2 pq) sign_if oddM.
  have -> : odd p./2 = (p %% 4 == 3)%N by have := p_odd pr_p p2; lia.
  have -> : odd q./2 = (q %% 4 == 3)%N by have := p_odd pr_q q2; lia.
  by [].
Qed.

(** [leg] computed on naturals: Euler's power a^((p-1)/2) mod p mapped 0 -> 0, 1 -> 1, else -1. *)
Lemma leg_nat p a : prime p -> (2 < p)%N ->
  leg p a = let t := ((a ^ p./2) %% p)%N in if (t == 0)%N then 0 else if (t == 1)%N then 1 else -1.
Proof.
  move=> pr_p p2. rewrite /leg /eul -natrX /= natFp_eq0 // /dvdn.
  have -> : ((a ^ p./2)%:R == 1 :> 'F_p) = ((a ^ p./2) %% p == 1)%N.
  { rewrite -[1]/(1%:R) natFp_eq // [(1 %% p)%N]modn_small //. lia. }
  by [].
Qed.
