(** * PrimeDecomp: src/prime_decomp/simple.rs, src/prime_decomp/mod.rs (C17)

    [theta] enters only through its minimal polynomial [f]; [int_basis] is the stored basis of
    the order, [t] the multiplication table handed in by the caller (the code does not check that
    it is the table of [int_basis]).  The random draws of [factorize_mod_p] come from the draw
    stream [r]; the stream after the call is returned with the answer. *)
From RNT.Model Require Import Base Poly Algebraic LinAlg MultTable Order FactorModP Ideal.
From RNT.Model Require Hnf.
From Coq Require Import QArith Qcanon.
Open Scope Z_scope.

(** [p.try_into().unwrap_or(0)] with target type [usize] (the third parameter of
    [factorize_mod_p]): the value when [0 <= p < 2^64], otherwise 0. *)
Definition usize_or_0 (p : Z) : Z := if (0 <=? p) && (p <? two64) then p else 0.

(** body of the closure of [.map(|(poly, mul)| ...)] (simple.rs:27-45) *)
Definition decompose_factor (md : mode) (f : list Z) (int_basis : qmat) (t : table) (p : Z)
           (pm : list Z * Z) : outcome (ideal * Z) :=
  let '(poly, mul) := pm in
  (* Polynomial::from_raw(poly.into_vec().into_iter().map(BigRational::from_integer).collect()) *)
  let polyq := from_raw opsQc (map qz poly) in
  (* theta.deg() as a [nat]; for the zero polynomial [vec![..; usize::MAX]] aborts with "capacity
     overflow" (class other) -- unreachable from [decompose], where [trivial_order_monic] has
     already aborted in that way *)
  do deg <- deg_alloc f;
  do elem <-
    (if pdeg f <=? pdeg polyq then Done (repeat 0 deg)
     else
       (* Algebraic::with_expr: debug_assert!(expr.deg() < minimal_poly.deg()) *)
       do _ <- debug_assert md (pdeg polyq <? pdeg f);
       to_z_basis_int int_basis polyq);
  do ancilla <- principal md t elem;
  (* let mut pelem = vec![BigInt::from(0); theta.deg()]; pelem[0] = p.clone(); *)
  do pelem <- (match deg with O => Panic PIndex | S d => Done (p :: repeat 0 d) end);
  do pz <- principal md t pelem;
  do s <- ideal_add md ancilla pz;
  Done (s, mul).

(** [simple::decompose] (simple.rs:15-48) = [prime_decomp::decompose] (mod.rs:8-16) *)
Definition decompose (md : mode) (f : list Z) (int_basis : qmat) (t : table) (p : Z) (r : rng)
  : outcome (list (ideal * Z) * rng) :=
  do z_theta <- trivial_order_monic f;
  do index <- order_index int_basis z_theta;
  do rm <- zrem index p;
  if rm =? 0 then Panic POther   (* panic!("not (p | (Z_K : Z[theta])) must hold") *)
  else
    do '(result, r') <- factorize_mod_p md f p (usize_or_0 p) r;
    do res <- mapM (decompose_factor md f int_basis t p) result;
    Done (res, r').
