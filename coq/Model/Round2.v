(** * Round2: src/integral_basis/mod.rs, src/integral_basis/round2.rs (C06)

    The Round 2 step and the driver [find_integral_basis], composed from the models of
    [HNF::new] / [HNF::kernel] (Hnf.v), [solve_linear_system] / [determinant] (LinAlg.v),
    [Order::from_basis] / [index] / [discriminant] / [non_monic_initial_order] (Order.v),
    the product in Q[x]/(f) (Algebraic.v), [discriminant] of a polynomial (Resultant.v) and
    [factorize::factorize] (Elementary.v).

    An order is its stored rational basis ([Order.qmat]); [theta] enters only through its
    minimal polynomial [f : list Z] ([theta.deg()] = [f.deg()], [create_num] copies
    [theta.min_poly]).  All vector accesses are bounds-checked ([Panic PIndex]) so that
    ill-shaped orders panic in the model where the code does. *)
From RNT.Model Require Import Base Poly Algebraic LinAlg MultTable Order.
From RNT.Model Require Hnf Elementary Resultant.
From Coq Require Import QArith Qcanon.
Open Scope Z_scope.

(** ** [mul_mod_p] (round2.rs:172-191), [Int = BigInt]
    [n = a.len()]; [coef = &a[i] * &b[j]]; [result[k] += &coef * &table[i][j][k]];
    then [result[i] %= p] (truncating remainder, panics for [p = 0]). *)
Definition mul_mod_p (a b : list Z) (t : table) (p : Z) : outcome (list Z) :=
  let n := length a in
  do result <-
    Hnf.for_loop (Hnf.range 0 n) (fun i result =>
      Hnf.for_loop (Hnf.range 0 n) (fun j result =>
        do ai <- nth_chk a i;
        do bj <- nth_chk b j;
        let coef := ai * bj in
        do ti <- nth_chk t i;
        do tij <- nth_chk ti j;
        addmul_prefix n result tij coef) result) (repeat 0 n);
  mapM (fun x => zrem x p) result.

(** ** [pow_mod_p] (round2.rs:149-168)
    [e = e - 1; prod = a; cur = a; while e > 0 { if e % 2 == 1 { prod = prod * cur }
     cur = cur * cur; e /= 2 }]: computes [a^e] for [e >= 1] without naming the identity. *)
Fixpoint pow_loop (fuel : nat) (e : Z) (prod cur : list Z) (t : table) (p : Z) : outcome (list Z) :=
  match fuel with
  | O => OutOfFuel
  | S fu =>
    if 0 <? e then
      do prod' <- (if Z.rem e 2 =? 1 then mul_mod_p prod cur t p else Done prod);
      do cur' <- mul_mod_p cur cur t p;
      pow_loop fu (Z.quot e 2) prod' cur' t p
    else Done prod
  end.

Definition pow_mod_p (a : list Z) (e : Z) (t : table) (p : Z) : outcome (list Z) :=
  pow_loop (Z.to_nat (zbits (e - 1)) + 1) (e - 1) a a t p.

(** ** Pieces of [one_step] (round2.rs:12-140) *)

(** [let mut pow = 1; while pow < BigInt::from(deg) { pow *= p }] (round2.rs:17-20).
    For [|p| >= 2] at most [bits(deg) + 1] iterations (the sign alternates for negative [p]);
    for [p] in {-1, 0, 1} and [deg >= 2] the code does not terminate ([OutOfFuel]). *)
Fixpoint pow_ge_loop (fuel : nat) (pow deg p : Z) : outcome Z :=
  match fuel with
  | O => OutOfFuel
  | S fu => if pow <? deg then pow_ge_loop fu (pow * p) deg p else Done pow
  end.

Definition pow_ge (deg p : Z) : outcome Z :=
  pow_ge_loop (Z.to_nat (zbits deg) + 2) 1 deg p.

(** [for k in 0..deg { assert!(inv[k].is_integer()); table2[i][j][k] = inv[k].to_integer() % &p2;
     table[i][j][k] = &table2[i][j][k] % p }] (round2.rs:39-43): pairs [(table2 entry, table entry)].
    [%] truncates: the entries have the sign of the coordinate. *)
Definition table_entries (deg : nat) (inv : list Qc) (p p2 : Z) : outcome (list (Z * Z)) :=
  mapM (fun k =>
    do x <- nth_chk inv k;
    do _ <- assert_ (q_is_integer x);
    do t2 <- zrem (q_to_integer x) p2;
    do t1 <- zrem t2 p;
    Done (t2, t1)) (seq 0 deg).

(** The two multiplication tables (round2.rs:26-45): returns [(table, table2)], coordinates of
    [o[i] * o[j]] in the basis [o], reduced mod [p] and mod [p^2].  As in
    [Order::get_mult_table], but over [deg = theta.deg()] indices. *)
Definition mult_tables (f : list Z) (o : qmat) (deg : nat) (p p2 : Z) : outcome (table * table) :=
  do cells <- mapM (fun i =>
    do bi <- nth_chk o i;
    let oi := from_raw opsQc bi in
    mapM (fun j =>
      do bj <- nth_chk o j;
      let oj := from_raw opsQc bj in
      do prod <- alg_mul f oi oj;
      do r <- solve_linear_system fopsQc o (coefs_upto deg prod);
      do inv <- unwrap_ok r;
      table_entries deg inv p p2) (seq 0 deg)) (seq 0 deg);
  Done (map (map (map snd)) cells, map (map (map fst)) cells).

(** [val = vec![0; deg]; val[i] = 1] (round2.rs:51-52) *)
Definition unit_vec (deg i : nat) : list Z :=
  map (fun j => if (j =? i)%nat then 1 else 0) (seq 0 deg).

(** rows [i + deg] of [basis] (round2.rs:63-65) and the last [deg] rows of [new_o_basis]
    (round2.rs:114-116): [p] on the diagonal *)
Definition p_rows (deg : nat) (p : Z) : Hnf.mat :=
  map (fun i => map (fun j => if (j =? i)%nat then p else 0) (seq 0 deg)) (seq 0 deg).

(** [for i in 0..deg { for j in 0..deg { out[i][j] = m[i][j] } }] (round2.rs:57-62) *)
Definition copy_block (deg : nat) (m : Hnf.mat) : outcome Hnf.mat :=
  mapM (fun i => do r <- nth_chk m i; mapM (fun j => nth_chk r j) (seq 0 deg)) (seq 0 deg).

(** [HNF::new(&HNF::kernel(&m)).into_vecs()] followed by [row.truncate(w)] on every row
    (round2.rs:67-71, 91-94) *)
Definition kernel_hnf_trunc (m : Hnf.mat) (w : nat) : outcome Hnf.mat :=
  do ker <- Hnf.hnf_kernel m;
  do h <- Hnf.hnf_new ker;
  Done (map (firstn w) h).

(** rows [i + u_p.len()] of [tmp_basis] (round2.rs:84-89): [i_p[i][j] * p] for [j] in [0..deg] *)
Definition scale_rows (deg : nat) (p : Z) (i_p : Hnf.mat) : outcome Hnf.mat :=
  mapM (fun r => mapM (fun j => do x <- nth_chk r j; Done (x * p)) (seq 0 deg)) i_p.

(** [for j in 0..u_p.len() { for k in 0..deg { acc[k] += &u_p[j][k] * &row[j] } }]
    (round2.rs:97-103), for one row [row = new_u_p[i]] *)
Definition recombine_row (deg : nat) (u_p : Hnf.mat) (row : list Z) : outcome (list Z) :=
  Hnf.for_loop (Hnf.range 0 (length u_p)) (fun j acc =>
    do upj <- nth_chk u_p j;
    do c <- nth_chk row j;
    addmul_prefix deg acc upj c) (repeat 0 deg).

(** body of [for i in 0..i_p_len] (round2.rs:76-106): the new [u_p] *)
Definition up_step (deg : nat) (p p2 : Z) (table2 : table) (i_p : Hnf.mat) (i : nat) (u_p : Hnf.mat)
  : outcome Hnf.mat :=
  do ipi <- nth_chk i_p i;
  (* U_p eta[i] + p I_p in terms of O's basis *)
  do prods <- mapM (fun upj => mul_mod_p ipi upj table2 p2) u_p;
  do scaled <- scale_rows deg p i_p;
  (* new_u_p in terms of U_p + p I_p, rows cut to u_p.len() *)
  do new_u_p <- kernel_hnf_trunc (prods ++ scaled) (length u_p);
  (* in terms of O's basis *)
  do tmp <- mapM (recombine_row deg u_p) new_u_p;
  Hnf.hnf_new tmp.

(** [for k in 0..deg { acc[k] += r * &orow[k] }] on a rational row of length [deg] *)
Fixpoint addmulq_prefix (n : nat) (acc orow : list Qc) (r : Qc) : outcome (list Qc) :=
  match n with
  | O => Done acc
  | S n' =>
    match acc, orow with
    | x :: acc', y :: orow' => do t <- addmulq_prefix n' acc' orow' r; Done (Qcplus x (Qcmult r y) :: t)
    | _, _ => Panic PIndex
    end
  end.

(** [new_o_basis[i][k] += BigRational::new(u_p[i][j], p) * &o.basis_coef(j, k)] (round2.rs:122-130);
    [BigRational::new] panics on a zero denominator. *)
Definition new_basis (deg : nat) (p : Z) (u_p : Hnf.mat) (o : qmat) : outcome qmat :=
  mapM (fun i =>
    Hnf.for_loop (Hnf.range 0 deg) (fun j acc =>
      do x <- Hnf.get u_p i j;
      do _ <- (if p =? 0 then Panic PDiv0 else Done tt);
      do oj <- nth_chk o j;
      addmulq_prefix deg acc oj (ratio_new x p)) (repeat q0 deg)) (seq 0 deg).

(** [while index > 1 { assert_eq!(&index % p, 0); index /= p; howmany += 1 }] (round2.rs:135-139);
    [howmany : u64] counts at most [bits(index)] iterations.  For [p = 1] the code does not
    terminate ([OutOfFuel]). *)
Fixpoint howmany_loop (fuel : nat) (index p howmany : Z) : outcome Z :=
  match fuel with
  | O => OutOfFuel
  | S fu =>
    if 1 <? index then
      do r <- zrem index p;
      do _ <- assert_ (r =? 0);
      howmany_loop fu (Z.quot index p) p (howmany + 1)
    else Done howmany
  end.

Definition howmany_of (index p : Z) : outcome Z :=
  howmany_loop (Z.to_nat (zbits index) + 1) index p 0.

(** The ideal [I_p] (round2.rs:47-71): kernel of [x -> x^pow] on [O/pO], as the first [deg]
    coordinates of the HNF of the kernel of the stacked [2 deg x deg] matrix [phi(w_i); p e_i]. *)
Definition compute_i_p (deg : nat) (p pow : Z) (tbl : table) : outcome Hnf.mat :=
  do phiw <- mapM (fun i => pow_mod_p (unit_vec deg i) pow tbl p) (seq 0 deg);
  do top <- copy_block deg phiw;
  kernel_hnf_trunc (top ++ p_rows deg p) deg.

(** ** [one_step] (round2.rs:12-140): returns the new order and [howmany] *)
Definition one_step (f : list Z) (o : qmat) (p : Z) : outcome (qmat * Z) :=
  (* let deg = theta.deg(); while pow < deg { pow *= p } *)
  do pow <- pow_ge (pdeg f) p;
  let p2 := p * p in
  (* vec![vec![vec![0; deg]; deg]; deg] *)
  do deg <- deg_alloc f;
  do '(tbl, tbl2) <- mult_tables f o deg p p2;
  (* I_p in terms of O's basis *)
  do i_p <- compute_i_p deg p pow tbl;
  let i_p_len := length i_p in
  (* U_p *)
  do u_p <- Hnf.for_loop (Hnf.range 0 i_p_len) (up_step deg p p2 tbl2 i_p) i_p;
  do _ <- assert_ (length u_p <=? deg)%nat;
  (* new_o_basis[i].clone_from_slice(&u_p[i]) *)
  do _ <- Hnf.check_widths deg u_p;
  do h <- Hnf.hnf_new (u_p ++ p_rows deg p);
  do _ <- assert_ (Hnf.hnf_dim h =? deg)%nat;
  (* new O in terms of the power basis *)
  do nb <- new_basis deg p h o;
  do new_o <- from_basis nb;
  do index <- order_index new_o o;
  do howmany <- howmany_of index p;
  Done (new_o, howmany).

(** ** [find_integral_basis] (mod.rs:10-25) *)

(** [o.discriminant(theta)] (order.rs:29-42) with the polynomial discriminant of Resultant.v:
    [determinant(&self.basis)] is evaluated before [discriminant(min_poly)]. *)
Definition order_disc (m : mode) (b : qmat) (f : list Z) : outcome Z :=
  do _ <- determinant fopsQc b;
  do discf <- snd (Resultant.discriminant m f);
  order_discriminant m discf b f.

(** [while e >= 2 { (new_o, howmany) = one_step(theta, &o, p); e -= 2 * howmany; o = new_o;
     if howmany == 0 { break } }] (mod.rs:15-22); [e], [howmany] are [u64]. *)
Fixpoint prime_loop (fuel : nat) (m : mode) (f : list Z) (o : qmat) (p e : Z) : outcome qmat :=
  match fuel with
  | O => OutOfFuel
  | S fu =>
    if 2 <=? e then
      do '(new_o, howmany) <- one_step f o p;
      do t <- u64_norm m (2 * howmany);
      do e' <- u64_norm m (e - t);
      if howmany =? 0 then Done new_o
      else prime_loop fu m f new_o p e'
    else Done o
  end.

(** Every iteration that does not [break] lowers [e] by at least 2 (dev profile): at most
    [e / 2 + 1] iterations. *)
Definition prime_fuel (e : Z) : nat := Z.to_nat e + 2.

(** [for &(ref p, mut e) in &disc_fac] (mod.rs:14-23) *)
Fixpoint primes_loop (m : mode) (f : list Z) (fac : list (Z * Z)) (o : qmat) : outcome qmat :=
  match fac with
  | [] => Done o
  | (p, e) :: rest =>
    do o' <- prime_loop (prime_fuel e) m f o p e;
    primes_loop m f rest o'
  end.

Definition find_integral_basis (m : mode) (f : list Z) : outcome qmat :=
  do o <- non_monic_initial_order f;
  do disc <- order_disc m o f;
  do fac <- Elementary.trial_factorize (Z.abs disc);
  primes_loop m f fac o.

(** ** Entry points of the correspondence check *)

(** [ib_find f]: the basis, its discriminant, and its index over the starting order
    ([o.discriminant(theta)], [index(&o, &non_monic_initial_order(theta))]). *)
Definition ib_find (m : mode) (f : list Z) : outcome (qmat * Z * Z) :=
  do o <- find_integral_basis m f;
  do d <- order_disc m o f;
  do o0 <- non_monic_initial_order f;
  do i <- order_index o o0;
  Done (o, d, i).
