(** * LinAlg: number-theory-linear/src/{determinant,matrix,solve_linear_system,subspace,triangular}.rs (C18)

    Matrices are [list (list T)], rows first, exactly as the Rust [Vec<Vec<_>>]; nothing
    is assumed about their shape: rows may be ragged, the routines index them with Rust's
    bounds checks, and the model reproduces where those checks fire ([Panic PIndex]).

    The rational routines are generic over [Ratio<Int>]; the model is written once over a
    record of field operations and instantiated at [Qc] (BigRational): [fopsQc].

    Granularity. Outer loops (over pivots and over rows) are structural recursions on a
    counter, statement by statement. An innermost loop that performs one uniform update
    [x[k] = g(x[k], y[k])] for [k] in a range of column indices of one or two rows is
    modelled by walking the row(s) once over that range ([zip_range]); it panics with
    [PIndex] exactly when a row ends inside the range, as the Rust loop does, and the
    updates of one such loop are independent of each other (exact arithmetic, no aliasing
    between the row read and the row written), so the result is the same.

    [Ratio::inv] and [Ratio / Ratio] panic on a zero divisor ("division by zero",
    "denominator == 0"): [inv_chk], [div_chk]. *)
From RNT.Model Require Import Base Poly.
From Coq Require Import QArith Qcanon.
Open Scope Z_scope.

Record field_ops (T : Type) : Type := mkFOps {
  fr : ring_ops T;
  finv : T -> T;            (* [Inv::inv], argument non-zero *)
  fdiv : T -> T -> T        (* [Div::div], divisor non-zero *)
}.
Arguments fr {T}. Arguments finv {T}. Arguments fdiv {T}.

Definition fopsQc : field_ops Qc := mkFOps Qc opsQc Qcinv Qcdiv.

(** [Result<A, E>] *)
Inductive result (E A : Type) : Type := Ok (a : A) | Err (e : E).
Arguments Ok {E A} a.
Arguments Err {E A} e.

Inductive not_invertible : Type := MatrixNotInvertible.
Inductive iim_error : Type := LinearlyDependent | NotInImage.
Inductive supplement_error : Type := InsufficientRank.

(** ** Vec helpers *)
Section Lists.
Context {A : Type}.

(** [l[i] = x] for an index known to be in range (no-op otherwise) *)
Fixpoint upd (l : list A) (i : nat) (x : A) : list A :=
  match l with
  | [] => []
  | y :: t => match i with O => x :: t | S i' => y :: upd t i' x end
  end.

(** [l[i] = x] with the bounds check *)
Definition set_chk (l : list A) (i : nat) (x : A) : outcome (list A) :=
  if (i <? length l)%nat then Done (upd l i x) else Panic PIndex.

(** [l.swap(i, j)]: panics unless both indices are in range *)
Definition swap_chk (l : list A) (i j : nat) : outcome (list A) :=
  do x <- nth_chk l i; do y <- nth_chk l j; Done (upd (upd l i y) j x).

(** a loop body run on the elements of a list in order, first panic wins *)
Fixpoint mapM {B : Type} (f : A -> outcome B) (l : list A) : outcome (list B) :=
  match l with
  | [] => Done []
  | x :: t => do y <- f x; do t' <- mapM f t; Done (y :: t')
  end.

End Lists.

Section Field.
Context {T : Type} (F : field_ops T).
Let R := fr F.

Definition mat := list (list T).

Definition inv_chk (x : T) : outcome T :=
  if is0 R x then Panic PDiv0 else Done (finv F x).
Definition div_chk (x y : T) : outcome T :=
  if is0 R y then Panic PDiv0 else Done (fdiv F x y).

(** [for k in lo..lo+cnt { r[k] = g(k, r[k], s[k]) }], [s] and [r] being the suffixes
    of the two rows from index [k] on; a row that ends inside the range is an
    out-of-bounds index. *)
Fixpoint zip_from (cnt k : nat) (g : nat -> T -> T -> T) (s r : list T) : outcome (list T) :=
  match cnt with
  | O => Done r
  | S c =>
    match s, r with
    | y :: s', x :: r' => do t <- zip_from c (S k) g s' r'; Done (g k x y :: t)
    | _, _ => Panic PIndex
    end
  end.

Definition zip_range (lo cnt : nat) (g : nat -> T -> T -> T) (s r : list T) : outcome (list T) :=
  match cnt with
  | O => Done r
  | _ => do t <- zip_from cnt lo g (skipn lo s) (skipn lo r); Done (firstn lo r ++ t)
  end.

(** [for k in lo..lo+cnt { r[k] = f(r[k]) }] *)
Definition upd_range (lo cnt : nat) (f : T -> T) (r : list T) : outcome (list T) :=
  zip_range lo cnt (fun _ x _ => f x) r r.

(** [vec![vec![zero; n]; n]] with [b[i][i] = one] *)
Definition identity (n : nat) : mat :=
  map (fun i => map (fun j => if Nat.eqb i j then r1 R else r0 R) (seq 0 n)) (seq 0 n).

(** pivot search down a column, [for j in i..n { if a[j][c] != 0 { idx = Some(j); break } }];
    [rows] are the rows from index [j] on *)
Fixpoint find_in_col (c j : nat) (rows : mat) : outcome (option nat) :=
  match rows with
  | [] => Done None
  | r :: rs => do x <- nth_chk r c; if is0 R x then find_in_col c (S j) rs else Done (Some j)
  end.

(** pivot search along a row, [for i in lo..lo+cnt { if row[i] != 0 { .. break } }];
    [r] is the suffix of the row from index [i] on *)
Fixpoint find_in_row (cnt i : nat) (r : list T) : outcome (option nat) :=
  match cnt with
  | O => Done None
  | S c =>
    match r with
    | [] => Panic PIndex
    | x :: t => if is0 R x then find_in_row c (S i) t else Done (Some i)
    end
  end.

(** ** determinant (determinant.rs:8-39) *)

(** body of [for j in i + 1..n] (determinant.rs:29-35):
    [factor = &a[j][i] / &a[i][i]; for k in i..n { a[j][k] -= &factor * &a[i][k] }] *)
Definition det_elim_row (i n : nat) (ai aj : list T) : outcome (list T) :=
  do x <- nth_chk aj i;
  do p <- nth_chk ai i;
  do f <- div_chk x p;
  zip_range i (n - i) (fun _ u v => rsub R u (rmul R f v)) ai aj.

(** [for i in 0..n] (determinant.rs:12-37); [cnt = n - i] *)
Fixpoint det_loop (cnt i n : nat) (a : mat) (result : T) : outcome T :=
  match cnt with
  | O => Done result
  | S cnt' =>
    do idx <- find_in_col i i (skipn i a);
    match idx with
    | None => Done (r0 R)
    | Some idx =>
      do a <- swap_chk a i idx;
      let result := if Nat.eqb i idx then result else ropp R result in
      do ai <- nth_chk a i;
      do rest <- mapM (det_elim_row i n ai) (skipn (S i) a);
      let a := firstn (S i) a ++ rest in
      do ai <- nth_chk a i;
      do p <- nth_chk ai i;
      det_loop cnt' (S i) n a (rmul R result p)
    end
  end.

Definition determinant (a : mat) : outcome T :=
  let n := length a in det_loop n 0 n a (r1 R).

(** ** matrix::inv (matrix.rs:9-51) *)

(** [for j in 0..n { if i == j { continue } factor = a[j][i];
      for k in 0..n { a[j][k] -= factor * a[i][k]; b[j][k] -= factor * b[i][k] } }]
    (matrix.rs:37-48); [a], [b] are the rows from index [j] on; [ai], [bi] the pivot rows *)
Fixpoint inv_elim (i n : nat) (ai bi : list T) (j : nat) (a b : mat) : outcome (mat * mat) :=
  match a, b with
  | aj :: a', bj :: b' =>
    do '(aj1, bj1) <-
      (if Nat.eqb i j then Done (aj, bj)
       else
         do f <- nth_chk aj i;
         do aj1 <- zip_range 0 n (fun _ u v => rsub R u (rmul R f v)) ai aj;
         do bj1 <- zip_range 0 n (fun _ u v => rsub R u (rmul R f v)) bi bj;
         Done (aj1, bj1));
    do '(a1, b1) <- inv_elim i n ai bi (S j) a' b';
    Done (aj1 :: a1, bj1 :: b1)
  | [], [] => Done ([], [])
  | _, _ => Panic PIndex
  end.

(** [for i in 0..n] (matrix.rs:18-49) *)
Fixpoint inv_loop (cnt i n : nat) (a b : mat) : outcome (result not_invertible mat) :=
  match cnt with
  | O => Done (Ok b)
  | S cnt' =>
    do idx <- find_in_col i i (skipn i a);
    match idx with
    | None => Done (Err MatrixNotInvertible)
    | Some idx =>
      do a <- swap_chk a i idx;
      do b <- swap_chk b i idx;
      do ai <- nth_chk a i;
      do bi <- nth_chk b i;
      do p <- nth_chk ai i;
      do f <- inv_chk p;
      do ai <- upd_range 0 n (fun x => rmul R x f) ai;
      do bi <- upd_range 0 n (fun x => rmul R x f) bi;
      let a := upd a i ai in
      let b := upd b i bi in
      do '(a, b) <- inv_elim i n ai bi 0 a b;
      inv_loop cnt' (S i) n a b
    end
  end.

Definition inv (a : mat) : outcome (result not_invertible mat) :=
  let n := length a in inv_loop n 0 n a (identity n).

(** ** solve_linear_system (solve_linear_system.rs:12-58): solves x * a = b by column operations *)

(** [for i in 0..n { if i == col { continue } coef = a[row][i];
      for r in a.iter_mut() { r[i] -= &coef * &r[col] }  b[i] -= &coef * &b[col] }]
    (solve_linear_system.rs:43-55) *)
Fixpoint solve_elim (cnt i col row : nat) (a : mat) (b : list T) : outcome (mat * list T) :=
  match cnt with
  | O => Done (a, b)
  | S c =>
    if Nat.eqb i col then solve_elim c (S i) col row a b
    else
      do arow <- nth_chk a row;
      do coef <- nth_chk arow i;
      do a <- mapM (fun r => do x <- nth_chk r col; do y <- nth_chk r i;
                             Done (upd r i (rsub R y (rmul R coef x)))) a;
      do bc <- nth_chk b col;
      do bi <- nth_chk b i;
      solve_elim c (S i) col row a (upd b i (rsub R bi (rmul R coef bc)))
  end.

(** [for row in 0..n] (solve_linear_system.rs:23-56); [col == row] throughout *)
Fixpoint solve_loop (cnt row n : nat) (a : mat) (b : list T)
  : outcome (result not_invertible (list T)) :=
  match cnt with
  | O => Done (Ok b)
  | S c =>
    let col := row in
    do arow <- nth_chk a row;
    do nxt <- find_in_row (n - col) col (skipn col arow);
    match nxt with
    | None => Done (Err MatrixNotInvertible)
    | Some nxt =>
      do a <- mapM (fun r => swap_chk r col nxt) a;
      do b <- swap_chk b col nxt;
      do arow <- nth_chk a row;
      do arc <- nth_chk arow col;
      do a <- mapM (fun r => do x <- nth_chk r col; do q <- div_chk x arc; Done (upd r col q)) a;
      do bc <- nth_chk b col;
      do q <- div_chk bc arc;
      let b := upd b col q in
      do '(a, b) <- solve_elim n 0 col row a b;
      solve_loop c (S row) n a b
    end
  end.

Definition solve_linear_system (a : mat) (b : list T) : outcome (result not_invertible (list T)) :=
  let n := length a in
  do _ <- assert_ (Nat.eqb (length b) n);
  solve_loop n 0 n a b.

(** ** subspace::iim (subspace.rs:104-167) *)

(** [for k in j + 1..m { row[k] -= &c[k] * &row[j] }] (subspace.rs:133-144). [row[j]] is
    read only inside the loop, after [row[k]], [k > j], was found in range, so the
    default of [nth] is never used. *)
Definition iim_row (j m : nat) (c row : list T) : outcome (list T) :=
  let x := nth j row (r0 R) in
  zip_range (S j) (m - S j) (fun _ u ck => rsub R u (rmul R ck x)) c row.

(** [for j in 0..n] (subspace.rs:114-145); [None] = [Err(LinearlyDependent)] *)
Fixpoint iim_elim (cnt j n m : nat) (mmat bmat : mat) : outcome (option (mat * mat)) :=
  match cnt with
  | O => Done (Some (mmat, bmat))
  | S cnt' =>
    do mj <- nth_chk mmat j;
    do i <- find_in_row (m - j) j (skipn j mj);
    match i with
    | None => Done None
    | Some i =>
      do '(mmat, bmat) <-
        (if (j <? i)%nat then
           do mm <- mapM (fun r => swap_chk r i j) mmat;
           do bm <- mapM (fun r => swap_chk r i j) bmat;
           Done (mm, bm)
         else Done (mmat, bmat));
      do mj <- nth_chk mmat j;
      do p <- nth_chk mj j;
      do d <- inv_chk p;
      do c <- zip_range (S j) (m - S j) (fun _ _ v => rmul R d v) mj (repeat (r0 R) m);
      do rest <- mapM (iim_row j m c) (skipn (S j) mmat);
      let mmat := firstn (S j) mmat ++ rest in
      do bmat <- mapM (iim_row j m c) bmat;
      iim_elim cnt' (S j) n m mmat bmat
    end
  end.

(** [for j in i + 1..n { tmp -= &mmat[j][i] * &xmat[k][j] }] (subspace.rs:152-154) *)
Fixpoint iim_dot (cnt j i : nat) (mmat : mat) (xk : list T) (tmp : T) : outcome T :=
  match cnt with
  | O => Done tmp
  | S c =>
    do mj <- nth_chk mmat j;
    do mji <- nth_chk mj i;
    do x <- nth_chk xk j;
    iim_dot c (S j) i mmat xk (rsub R tmp (rmul R mji x))
  end.

(** [for k in 0..r] (subspace.rs:150-156), for a fixed [i] *)
Fixpoint iim_solve_col (i n : nat) (mmat bmat xmat : mat) : outcome mat :=
  match bmat, xmat with
  | bk :: bs, xk :: xs =>
    do t <- nth_chk bk i;
    do t <- iim_dot (n - S i) (S i) i mmat xk t;
    do mi <- nth_chk mmat i;
    do mii <- nth_chk mi i;
    do q <- div_chk t mii;
    do xs' <- iim_solve_col i n mmat bs xs;
    Done (upd xk i q :: xs')
  | [], [] => Done []
  | _, _ => Panic PIndex
  end.

(** [for i in (0..n).rev()] (subspace.rs:149-157) *)
Fixpoint iim_solve (cnt n : nat) (mmat bmat xmat : mat) : outcome mat :=
  match cnt with
  | O => Done xmat
  | S i => do x <- iim_solve_col i n mmat bmat xmat; iim_solve i n mmat bmat x
  end.

(** [for i in 0..r { if !bmat[i][k].is_zero() { return Err(NotInImage) } }] *)
Fixpoint iim_check_col (k : nat) (bmat : mat) : outcome bool :=
  match bmat with
  | [] => Done true
  | b :: bs => do x <- nth_chk b k; if is0 R x then iim_check_col k bs else Done false
  end.

(** [for k in n..m] (subspace.rs:159-165) *)
Fixpoint iim_check (cnt k : nat) (bmat : mat) : outcome bool :=
  match cnt with
  | O => Done true
  | S c => do ok <- iim_check_col k bmat; if ok then iim_check c (S k) bmat else Done false
  end.

Definition iim (mmat vmat : mat) : outcome (result iim_error mat) :=
  let n := length mmat in
  let r := length vmat in
  do m0 <- nth_chk mmat 0;
  let m := length m0 in
  do v0 <- nth_chk vmat 0;
  do _ <- assert_ (Nat.eqb (length v0) m);
  do e <- iim_elim n 0 n m mmat vmat;
  match e with
  | None => Done (Err LinearlyDependent)
  | Some (mmat, bmat) =>
    do xmat <- iim_solve n n mmat bmat (repeat (repeat (r0 R) n) r);
    do ok <- iim_check (m - n) n bmat;
    if ok then Done (Ok xmat) else Done (Err NotInImage)
  end.

(** ** subspace::supplement_basis (subspace.rs:173-210) *)

(** body of [for j in s + 1..k] (subspace.rs:198-207) *)
Definition supp_row (s t n : nat) (d : T) (ms rj : list T) : outcome (list T) :=
  do rj <- swap_chk rj s t;
  do x <- nth_chk rj s;
  let coef := rmul R x d in
  zip_range 0 n (fun i u v => if Nat.eqb i s || Nat.eqb i t then u
                              else rsub R u (rmul R v coef)) ms rj.

(** [for s in 0..k] (subspace.rs:184-208) *)
Fixpoint supp_loop (cnt s n : nat) (orig mmat bmat : mat) : outcome (result supplement_error mat) :=
  match cnt with
  | O => Done (Ok bmat)
  | S c =>
    do ms <- nth_chk mmat s;
    do t <- find_in_row (n - s) s (skipn s ms);
    match t with
    | None => Done (Err InsufficientRank)
    | Some t =>
      do p <- nth_chk ms t;
      do d <- inv_chk p;
      do bs <- nth_chk bmat s;
      do bmat <- set_chk bmat t bs;
      do os <- nth_chk orig s;
      do bmat <- set_chk bmat s os;
      do rest <- mapM (supp_row s t n d ms) (skipn (S s) mmat);
      supp_loop c (S s) n orig (firstn (S s) mmat ++ rest) bmat
    end
  end.

Definition supplement_basis (mmat : mat) : outcome (result supplement_error mat) :=
  let k := length mmat in
  do m0 <- nth_chk mmat 0;
  let n := length m0 in
  supp_loop k 0 n mmat mmat (identity n).

End Field.

(** ** subspace::image_mod_p (subspace.rs:40-90), [Int = BigInt] *)

Definition zmat := list (list Z).

(** [modpow] (subspace.rs:18-31): the loop [while e > 0 { .. e = e.div_floor(2) }] runs once
    per binary digit of [e]; structural recursion on the digits ([e.is_odd()] = low digit). *)
Fixpoint modpow_pos (e : positive) (product current modulus : Z) : outcome Z :=
  match e with
  | xH =>
    do product <- zrem (product * current) modulus;
    do _ <- zrem (current * current) modulus;
    Done product
  | xO e' =>
    do current <- zrem (current * current) modulus;
    modpow_pos e' product current modulus
  | xI e' =>
    do product <- zrem (product * current) modulus;
    do current <- zrem (current * current) modulus;
    modpow_pos e' product current modulus
  end.

Definition modpow (x e modulus : Z) : outcome Z :=
  match e with
  | Zpos q => modpow_pos q 1 x modulus
  | _ => Done 1
  end.

(** [modinv] (subspace.rs:33-36) *)
Definition modinv (x p : Z) : outcome Z := modpow x (p - 2) p.

(** [(0..m).position(|j| !mat[k][j].is_zero() && c[j].is_zero())] (subspace.rs:52);
    [rk], [c] are the suffixes from index [j] on ([c] has length [m]) *)
Fixpoint img_find (cnt j : nat) (rk : list Z) (c : list nat) : outcome (option nat) :=
  match cnt with
  | O => Done None
  | S cn =>
    match rk, c with
    | x :: rk', cj :: c' =>
      if negb (x =? 0) && Nat.eqb cj 0 then Done (Some j) else img_find cn (S j) rk' c'
    | _, _ => Panic PIndex
    end
  end.

(** [mat[s][i] = (mat[s][j] * dd + mem::replace(&mut mat[s][i], 0)) % p] (subspace.rs:66-71) *)
Definition img_row_i (i j : nat) (dd p : Z) (rs : list Z) : outcome (list Z) :=
  do x <- nth_chk rs j;
  do y <- nth_chk rs i;
  do z <- zrem (x * dd + y) p;
  Done (upd rs i z).

(** [for i in 0..m { if i == j { continue } dd = mem::replace(&mut mat[k][i], 0);
      for s in k + 1..n { .. } }] (subspace.rs:61-72) *)
Fixpoint img_cols (cnt i j k : nat) (p : Z) (mat : zmat) : outcome zmat :=
  match cnt with
  | O => Done mat
  | S c =>
    if Nat.eqb i j then img_cols c (S i) j k p mat
    else
      do rk <- nth_chk mat k;
      do dd <- nth_chk rk i;
      let mat := upd mat k (upd rk i 0) in
      do rest <- mapM (img_row_i i j dd p) (skipn (S k) mat);
      img_cols c (S i) j k p (firstn (S k) mat ++ rest)
  end.

(** [for k in 0..n] (subspace.rs:50-79). The vector [d] of the Rust code is written and never
    read; it is not modelled. Returns [(c, r)]. *)
Fixpoint img_loop (cnt k m : nat) (p : Z) (mat : zmat) (c : list nat) (r : nat)
  : outcome (list nat * nat) :=
  match cnt with
  | O => Done (c, r)
  | S cn =>
    do rk <- nth_chk mat k;
    do j <- img_find m 0 rk c;
    match j with
    | Some j =>
      do x <- nth_chk rk j;
      do iv <- modinv x p;
      let dd := p - iv in
      let mat := upd mat k (upd rk j (p - 1)) in
      do rest <- mapM (fun rs => do y <- nth_chk rs j; do z <- zrem (y * dd) p; Done (upd rs j z))
                      (skipn (S k) mat);
      let mat := firstn (S k) mat ++ rest in
      do mat <- img_cols m 0 j k p mat;
      img_loop cn (S k) m p mat (upd c j (S k)) r
    | None => img_loop cn (S k) m p mat c (S r)
    end
  end.

(** [for i in 0..m { if c[i] != 0 { out.push(matcp[c[i] - 1].clone()) } }] (subspace.rs:84-88) *)
Fixpoint img_out (c : list nat) (matcp : zmat) : outcome zmat :=
  match c with
  | [] => Done []
  | ci :: c' =>
    match ci with
    | O => img_out c' matcp
    | S i => do row <- nth_chk matcp i; do t <- img_out c' matcp; Done (row :: t)
    end
  end.

Definition image_mod_p (matcp : zmat) (p : Z) : outcome zmat :=
  let n := length matcp in
  do m0 <- nth_chk matcp 0;
  let m := length m0 in
  do '(c, r) <- img_loop n 0 m p matcp (repeat O m) O;
  do _ <- assert_ (Nat.eqb (length (filter (fun v => negb (Nat.eqb v 0)) c)) (n - r));
  img_out c matcp.

(** ** triangular::mul_inv_from_right_exact (triangular.rs:9-33), [Int = BigInt] *)

Definition q_of_Z (z : Z) : Qc := Q2Qc (inject_Z z).
Definition q_is_integer (q : Qc) : bool := Pos.eqb (Qden (this q)) 1.
(** [to_integer] = [trunc().numer] *)
Definition q_to_integer (q : Qc) : Z := Z.quot (Qnum (this q)) (Zpos (Qden (this q))).

(** [for k in 0..n { sum += &invb[k][j] * &a[i][k] }] (triangular.rs:25-27); [invb] has [n] rows,
    walked together with [a[i]] *)
Fixpoint mi_dot (invb : list (list Qc)) (ai : list Z) (j : nat) (sum : Qc) : outcome Qc :=
  match invb with
  | [] => Done sum
  | row :: rest =>
    match ai with
    | [] => Panic PIndex
    | x :: ai' =>
      do y <- nth_chk row j;
      mi_dot rest ai' j (Qcplus sum (Qcmult y (q_of_Z x)))
    end
  end.

Definition mul_inv_from_right_exact (a b : zmat) : outcome (result not_invertible zmat) :=
  let n := length a in
  do brat <- mapM (fun i => do bi <- nth_chk b i;
                            mapM (fun j => do x <- nth_chk bi j; Done (q_of_Z x)) (seq 0 n))
                  (seq 0 n);
  do r <- inv fopsQc brat;
  match r with
  | Err e => Done (Err e)
  | Ok invb =>
    do ans <- mapM (fun ai =>
                mapM (fun j => do s <- mi_dot invb ai j (Q2Qc 0);
                               do _ <- assert_ (q_is_integer s);
                               Done (q_to_integer s)) (seq 0 n)) a;
    Done (Ok ans)
  end.
