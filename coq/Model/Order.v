(** * Order: src/order.rs (C15; [get_mult_table], [to_z_basis(_int)] belong to C14)

    An [Order] is its stored [basis : Vec<Vec<BigRational>>] (rows = basis vectors written
    in the power basis of theta).  The element [theta] enters only through its minimal
    polynomial [f : list Z] (and, for [singly_gen], its [expr]).

    The discriminant of the minimal polynomial ([discriminant::discriminant], via
    [resultant]) is modelled elsewhere (Resultant.v, not available here): its value is the
    explicit argument [discf] of [order_discriminant]; only the first statement of
    [discriminant], [assert!(!f.is_zero())], is reproduced here. *)
From RNT.Model Require Import Base Poly Algebraic LinAlg MultTable.
From RNT.Model Require Hnf.
From Coq Require Import QArith Qcanon.
Open Scope Z_scope.

Definition qmat := list (list Qc).

(** [deg] (order.rs:24-26) *)
Definition order_deg (b : qmat) : nat := length b.

(** [for row in basis { for elem in row { lcm = num::integer::lcm(lcm, elem.denom().clone()) } }]
    (order.rs:66-72, 229-241); [num::integer::lcm] on BigInt is non-negative: [Z.lcm]. *)
Definition lcm_den (l0 : Z) (b : qmat) : Z :=
  fold_left (fun l row => fold_left (fun l x => Z.lcm l (q_den x)) row l) b l0.

(** [(&x * &lcm).to_integer()] *)
Definition scale_to_int (l : Z) (x : Qc) : Z := q_to_integer (Qcmult x (qz l)).

(** [BigRational::new(n, lcm)] for [lcm >= 1] (reduces to lowest terms; the value [n / lcm]) *)
Definition ratio_new (n l : Z) : Qc := Qcdiv (qz n) (qz l).

(** [for i in 0..rows { for j in 0..cols { out[i][j] = (&b[i][j] * &lcm).to_integer() } }]
    (order.rs:74-78, 244-255) *)
Definition int_matrix (rows cols : nat) (l : Z) (b : qmat) : outcome Hnf.mat :=
  mapM (fun i => mapM (fun j => do r <- nth_chk b i; do x <- nth_chk r j;
                                Done (scale_to_int l x)) (seq 0 cols)) (seq 0 rows).

(** [for i in 0..rows { for j in 0..cols { out[i][j] = BigRational::new(hnf[i][j].clone(), lcm.clone()) } }]
    (order.rs:81-85, 259-263) *)
Definition rat_matrix (rows cols : nat) (l : Z) (h : Hnf.mat) : outcome qmat :=
  mapM (fun i => mapM (fun j => do r <- nth_chk h i; do x <- nth_chk r j;
                                Done (ratio_new x l)) (seq 0 cols)) (seq 0 rows).

(** [hnf_reduce] (order.rs:65-87).  A rank-deficient basis gives an HNF with fewer than
    [deg] rows and the read-back loop panics with an out-of-bounds index. *)
Definition hnf_reduce (b : qmat) : outcome qmat :=
  let l := lcm_den 1 b in
  let deg := length b in
  do bi <- int_matrix deg deg l b;
  do h <- Hnf.hnf_new bi;
  rat_matrix deg deg l h.

(** [from_basis] (order.rs:44-49) *)
Definition from_basis (b : qmat) : outcome qmat := hnf_reduce b.

(** [vec![vec![zero; deg]; deg]] with [deg = usize::MAX] (zero minimal polynomial) aborts
    with "capacity overflow" (class other); otherwise [deg] as a [nat]. *)
Definition deg_alloc (f : list Z) : outcome nat :=
  match f with [] => Panic POther | _ => Done (Z.to_nat (pdeg f)) end.

(** loop of [singly_gen] (order.rs:57-60):
    [row[..cur.expr.dat.len()].clone_from_slice(&cur.expr.dat); cur = &cur * theta;] *)
Fixpoint sg_loop (cnt deg : nat) (f : list Z) (theta cur : list Qc) : outcome qmat :=
  match cnt with
  | O => Done []
  | S c =>
    if (length cur <=? deg)%nat then
      let row := cur ++ repeat q0 (deg - length cur) in
      do cur' <- alg_mul f cur theta;
      do rest <- sg_loop c deg f theta cur';
      Done (row :: rest)
    else Panic PIndex
  end.

(** [singly_gen] (order.rs:52-62); [theta] is any element (its [expr]), not only the root. *)
Definition singly_gen (f : list Z) (theta : list Qc) : outcome qmat :=
  do deg <- deg_alloc f;
  do b <- sg_loop deg deg f theta (alg_const (Q2Qc 1));
  hnf_reduce b.

(** [trivial_order_monic] (order.rs:199-206) *)
Definition trivial_order_monic (f : list Z) : outcome qmat :=
  do deg <- deg_alloc f;
  hnf_reduce (identity fopsQc deg).

(** entries written by [non_monic_initial_order] (order.rs:212-217):
    [basis[0][0] = 1]; [basis[i][j] = coef_at(deg - (i - j))] for [1 <= j <= i < deg]
    ([i - j] and [deg - (i - j)] are usize subtractions that cannot underflow there). *)
Definition nm_entry (f : list Z) (deg i j : nat) : Qc :=
  if (i =? 0)%nat && (j =? 0)%nat then Q2Qc 1
  else if (1 <=? j)%nat && (j <=? i)%nat then qz (coef_at opsZ f (deg - (i - j)))
  else q0.

(** [non_monic_initial_order] (order.rs:209-219); [basis[0][0]] is out of bounds for [deg = 0]. *)
Definition non_monic_initial_order (f : list Z) : outcome qmat :=
  do deg <- deg_alloc f;
  if (deg =? 0)%nat then Panic PIndex
  else hnf_reduce (map (fun i => map (fun j => nm_entry f deg i j) (seq 0 deg)) (seq 0 deg)).

(** [for k in 0..deg { b[k] = p.coef_at(k) }] (order.rs:99-102, 125-128) *)
Definition coefs_upto (deg : nat) (p : list Qc) : list Qc :=
  map (fun k => coef_at opsQc p k) (seq 0 deg).

(** [for k in 0..deg { assert!(inv[k].is_integer()); out[k] = inv[k].to_integer() }]
    (order.rs:105-108, 136-139) *)
Definition to_int_vec (deg : nat) (v : list Qc) : outcome (list Z) :=
  mapM (fun k => do x <- nth_chk v k; do _ <- assert_ (q_is_integer x);
                 Done (q_to_integer x)) (seq 0 deg).

(** [get_mult_table] (order.rs:89-112); [create_num] (order.rs:115-120) is [from_raw] on the row. *)
Definition get_mult_table (b : qmat) (f : list Z) : outcome table :=
  let deg := length b in
  mapM (fun i =>
    do bi <- nth_chk b i;
    let oi := from_raw opsQc bi in
    mapM (fun j =>
      do bj <- nth_chk b j;
      let oj := from_raw opsQc bj in
      do prod <- alg_mul f oi oj;
      do r <- solve_linear_system fopsQc b (coefs_upto deg prod);
      do inv <- unwrap_ok r;
      to_int_vec deg inv) (seq 0 deg)) (seq 0 deg).

(** [to_z_basis] (order.rs:123-130) *)
Definition to_z_basis (b : qmat) (a : list Qc) : outcome (list Qc) :=
  let deg := length b in
  do r <- solve_linear_system fopsQc b (coefs_upto deg a);
  unwrap_ok r.

(** [to_z_basis_int] (order.rs:132-141) *)
Definition to_z_basis_int (b : qmat) (a : list Qc) : outcome (list Z) :=
  let deg := length b in
  do inv <- to_z_basis b a;
  to_int_vec deg inv.

(** [index] (order.rs:185-196): [determinant(b) / determinant(a)], explicit [panic!] when not an integer *)
Definition order_index (a b : qmat) : outcome Z :=
  do db <- determinant fopsQc b;
  do da <- determinant fopsQc a;
  do quot <- div_chk fopsQc db da;
  if q_is_integer quot then Done (q_to_integer quot) else Panic POther.

(** [union] (order.rs:222-265).  Note [n = hnf[0].len()] (the number of columns) is used as the
    number of rows of the result. *)
Definition order_union (a b : qmat) : outcome qmat :=
  do a0 <- nth_chk a 0;
  do b0 <- nth_chk b 0;
  do _ <- assert_ (Nat.eqb (length a0) (length b0));
  let m := length a0 in
  let na := length a in
  let nb := length b in
  let l := lcm_den (lcm_den 1 a) b in
  do ia <- int_matrix na m l a;
  do ib <- int_matrix nb m l b;
  do ha <- Hnf.hnf_new ia;
  do hb <- Hnf.hnf_new ib;
  do h <- Hnf.hnf_union ha hb;
  do h0 <- nth_chk h 0;
  let n := length h0 in
  do nw <- rat_matrix n m l h;
  hnf_reduce nw.

(** [discriminant_with_min_poly] (order.rs:33-42); [discf] is the value of
    [discriminant(min_poly)].  [2 * (deg - 1)] is usize arithmetic. *)
Definition order_discriminant (m : mode) (discf : Z) (b : qmat) (f : list Z) : outcome Z :=
  let deg := pdeg f in
  do det <- determinant fopsQc b;
  (* discriminant(min_poly): assert!(!f.is_zero()) (discriminant.rs:6) *)
  do _ <- assert_ (match f with [] => false | _ => true end);
  let lc := coef_at opsZ f (Z.to_nat deg) in
  let value := Qcmult (Qcmult (qz discf) det) det in
  do d1 <- u64_norm m (deg - 1);
  do e <- u64_norm m (2 * d1);
  do value <- div_chk fopsQc value (qz (lc ^ e));
  do _ <- assert_ (q_is_integer value);
  Done (q_to_integer value).

(** derived [PartialEq] on [Order] = equality of [Vec<Vec<BigRational>>] *)
Definition order_eqb (a b : qmat) : bool :=
  Hnf.list_eqb (Hnf.list_eqb (fun x y : Qc => Qeq_bool x y)) a b.
