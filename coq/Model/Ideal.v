(** * Ideal: src/ideal.rs (C16)

    An [Ideal<'mul>] is its [hnf : HNF] (the inner matrix, rows = Z-basis vectors written in the
    integral basis w_0 .. w_{n-1} of the order) together with the multiplication table it refers
    to.  Nothing is assumed about either: the HNF may have fewer than [n] rows (the zero ideal has
    none), the table may be ragged; every index is taken with Rust's bounds check.

    A [FracIdeal] is the pair [(denom, numer)].

    [debug_assert_eq!] fires in mode [Checked] (dev profile) only. *)
From RNT.Model Require Import Base Poly Algebraic LinAlg MultTable.
From RNT.Model Require Hnf.
Open Scope Z_scope.

Record ideal : Type := mkIdeal { i_hnf : Hnf.mat; i_table : table }.

Definition frac_ideal : Type := (Z * ideal)%type.

(** [FracIdeal::new / denom / numer] (ideal.rs:132-144) *)
Definition frac_new (denom : Z) (numer : ideal) : frac_ideal := (denom, numer).
Definition frac_denom (f : frac_ideal) : Z := fst f.
Definition frac_numer (f : frac_ideal) : ideal := snd f.

(** derived [PartialEq] on [MultTable] = equality of [Vec<Vec<Vec<BigInt>>>] *)
Definition table_eqb (s t : table) : bool :=
  Hnf.list_eqb (Hnf.list_eqb (Hnf.list_eqb Z.eqb)) s t.

(** derived [PartialEq] on [Ideal]: [hnf == hnf && *mult_table == *mult_table] *)
Definition ideal_eqb (a b : ideal) : bool :=
  Hnf.hnf_eqb (i_hnf a) (i_hnf b) && table_eqb (i_table a) (i_table b).

(** [Ideal::new] (ideal.rs:19-21) *)
Definition ideal_new (h : Hnf.mat) (t : table) : ideal := mkIdeal h t.

(** [norm] (ideal.rs:22-24) *)
Definition norm (a : ideal) : outcome Z := Hnf.hnf_determinant (i_hnf a).

(** [let mut wi = vec![BigInt::zero(); deg]; wi[i] = BigInt::one();] for [i < deg] *)
Definition unit_vec (n i : nat) : list Z :=
  map (fun j => if (i =? j)%nat then 1 else 0) (seq 0 n).

(** [principal] (ideal.rs:26-39) *)
Definition principal (m : mode) (t : table) (elem : list Z) : outcome ideal :=
  let deg := mt_deg t in
  do _ <- debug_assert m (Nat.eqb (length elem) deg);
  do rows <- mapM (fun i => mt_mul m t elem (unit_vec deg i)) (seq 0 deg);
  do h <- Hnf.hnf_new rows;
  Done (mkIdeal h t).

(** [deg] (ideal.rs:41-43) *)
Definition ideal_deg (a : ideal) : nat := mt_deg (i_table a).

(** [cap_z] (ideal.rs:46-48): [self.hnf.as_ref()[0][0].clone()] *)
Definition cap_z (a : ideal) : outcome Z := Hnf.get (i_hnf a) 0 0.

(** [impl Add for &Ideal] (ideal.rs:85-98) *)
Definition ideal_add (m : mode) (a b : ideal) : outcome ideal :=
  do _ <- debug_assert m (table_eqb (i_table a) (i_table b));
  let res := Hnf.hnf_as_vecs (i_hnf a) ++ Hnf.hnf_as_vecs (i_hnf b) in
  do h <- Hnf.hnf_new res;
  Done (mkIdeal h (i_table a)).

(** [impl Mul for &Ideal] (ideal.rs:101-121): [for v in &basis_a { for w in &basis_b { res.push(mul(v, w)) } }];
    [list_prod] enumerates the pairs in exactly that order. *)
Definition ideal_mul (m : mode) (a b : ideal) : outcome ideal :=
  do _ <- debug_assert m (table_eqb (i_table a) (i_table b));
  let basis_a := Hnf.hnf_as_vecs (i_hnf a) in
  let basis_b := Hnf.hnf_as_vecs (i_hnf b) in
  do res <- mapM (fun vw => mt_mul m (i_table a) (fst vw) (snd vw)) (list_prod basis_a basis_b);
  do h <- Hnf.hnf_new res;
  Done (mkIdeal h (i_table a)).

(** [contains] (ideal.rs:76-82) *)
Definition contains (m : mode) (a : ideal) (num : list Z) : outcome bool :=
  do num_ideal <- principal m (i_table a) num;
  do new_ideal <- ideal_add m a num_ideal;
  Done (ideal_eqb new_ideal a).

(** [tr[i][j] = self.mult_table.trace(&self.mult_table.mul(&unit[i], &unit[j]))] (ideal.rs:61-70) *)
Definition trace_matrix (m : mode) (t : table) : outcome Hnf.mat :=
  let n := mt_deg t in
  mapM (fun i => mapM (fun j =>
          do prod <- mt_mul m t (unit_vec n i) (unit_vec n j);
          mt_trace t prod) (seq 0 n)) (seq 0 n).

(** [scaled[i][i] = &a * inv_diff.denom()] (ideal.rs:71, 74) *)
Definition scaled_identity (n : nat) (x : Z) : Hnf.mat :=
  map (fun i => map (fun j => if (i =? j)%nat then x else 0) (seq 0 n)) (seq 0 n).

(** [for k in 0..n { tnt[i][j] += &tr[i][k] * &c[j][k] }] (ideal.rs:75-79); [c] is the HNF of the
    product and has fewer than [n] rows when that lattice is not of full rank: [c[j]] is then
    out of bounds. *)
Definition tnt_matrix (n : nat) (tr c : Hnf.mat) : outcome Hnf.mat :=
  mapM (fun i => mapM (fun j =>
          Hnf.for_loop (Hnf.range 0 n) (fun k s =>
            do x <- Hnf.get tr i k; do y <- Hnf.get c j k; Done (s + x * y)) 0) (seq 0 n)) (seq 0 n).

(** [inv] (ideal.rs:52-74 in the numbering of the property; the body as it is now) *)
Definition ideal_inv (m : mode) (a : ideal) (inv_diff : frac_ideal) : outcome frac_ideal :=
  let t := i_table a in
  let n := ideal_deg a in
  do az <- cap_z a;
  do c0 <- ideal_mul m a (frac_numer inv_diff);
  let c := Hnf.hnf_as_vecs (i_hnf c0) in
  do tr <- trace_matrix m t;
  let scaled := scaled_identity n (az * frac_denom inv_diff) in
  do tnt <- tnt_matrix n tr c;
  do r <- mul_inv_from_right_exact scaled tnt;
  do trd <- unwrap_ok r;
  do h <- Hnf.hnf_new trd;
  Done (frac_new az (ideal_new h t)).

(** [MultTable::get_inv_diff] (mult_table.rs:86-110) as a [FracIdeal] *)
Definition get_inv_diff (t : table) : outcome frac_ideal :=
  do '(l, h) <- mt_inv_diff t;
  Done (frac_new l (ideal_new h t)).

(** ** Flags evaluated by the model for the conditional theorems (not part of the code) *)

(** [e_0] scaled: the coordinate vector of the rational integer [d] when [w_0 = 1] *)
Definition scalar_vec (n : nat) (d : Z) : list Z :=
  map (fun j => if (j =? 0)%nat then d else 0) (seq 0 n).

(** [I * numer == principal(denom * e_0)] for the answer [(denom, numer)] of [inv] *)
Definition inv_flag (m : mode) (a : ideal) (r : frac_ideal) : outcome bool :=
  do prod <- ideal_mul m a (frac_numer r);
  do pd <- principal m (i_table a) (scalar_vec (ideal_deg a) (frac_denom r));
  Done (ideal_eqb prod pd).

(** the table is commutative on the unit vectors: [w_i w_j = w_j w_i] *)
Definition table_entry (t : table) (i j : nat) : list Z := nth j (nth i t []) [].
Definition table_comm (t : table) : bool :=
  let n := mt_deg t in
  forallb (fun i => forallb (fun j =>
    Hnf.list_eqb Z.eqb (table_entry t i j) (table_entry t j i)) (seq 0 n)) (seq 0 n).

(** the table is well shaped: [n] rows of [n] vectors of length [n] *)
Definition table_shape (t : table) : bool :=
  let n := mt_deg t in
  forallb (fun ti => Nat.eqb (length ti) n && forallb (fun tij => Nat.eqb (length tij) n) ti) t.
