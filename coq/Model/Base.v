(** * Base: outcomes of modelled Rust computations, machine-integer modes, draw streams.

    Every Rust routine is modelled as a total Gallina function returning an
    [outcome]: [Done v] for a normal return, [Panic tag] for a Rust panic of the
    given class (the classes are the ones the harness maps panic messages to),
    [OutOfFuel] when the explicit recursion fuel ran out (excluded by every
    theorem; never a normal-looking value). *)
From Coq Require Export ZArith List Bool.
Export ListNotations.
Open Scope Z_scope.

Inductive ptag : Type :=
| POverflow   (* attempt to add/subtract/multiply with overflow (dev profile) *)
| PDiv0       (* division or remainder by zero *)
| PAssert     (* assert!/debug_assert! failed *)
| PIndex      (* index out of bounds *)
| PUnwrap     (* unwrap()/expect() on None/Err *)
| POther.     (* explicit panic!() and anything else *)

Inductive outcome (A : Type) : Type :=
| Done (a : A)
| Panic (t : ptag)
| OutOfFuel.
Arguments Done {A} a.
Arguments Panic {A} t.
Arguments OutOfFuel {A}.

Definition bind {A B} (x : outcome A) (f : A -> outcome B) : outcome B :=
  match x with
  | Done a => f a
  | Panic t => Panic t
  | OutOfFuel => OutOfFuel
  end.

Definition omap {A B} (f : A -> B) (x : outcome A) : outcome B :=
  bind x (fun a => Done (f a)).

Declare Scope outcome_scope.
Delimit Scope outcome_scope with outcome.
Notation "'do' x <- e ; f" := (bind e (fun x => f))
  (at level 200, x pattern, e at level 100, f at level 200, right associativity) : outcome_scope.
Notation "'do' ' p <- e ; f" := (bind e (fun x => match x with p => f end))
  (at level 200, p pattern, e at level 100, f at level 200, right associativity) : outcome_scope.
Open Scope outcome_scope.

(** Build profile: [Checked] = dev (overflow checks and debug assertions on),
    [Wrapping] = release (two's-complement wrap-around, debug assertions off). *)
Inductive mode := Checked | Wrapping.

Definition two64 : Z := 18446744073709551616.
Definition two63 : Z := 9223372036854775808.
Definition two32 : Z := 4294967296.

(** u64 / usize result normalisation. *)
Definition u64_norm (m : mode) (x : Z) : outcome Z :=
  if (0 <=? x) && (x <? two64) then Done x
  else match m with Checked => Panic POverflow | Wrapping => Done (x mod two64) end.

Definition i64_norm (m : mode) (x : Z) : outcome Z :=
  if (- two63 <=? x) && (x <? two63) then Done x
  else match m with
       | Checked => Panic POverflow
       | Wrapping => Done ((x + two63) mod two64 - two63)
       end.

(** Rust's [assert!] / [debug_assert!]. *)
Definition assert_ (b : bool) : outcome unit := if b then Done tt else Panic PAssert.
Definition debug_assert (m : mode) (b : bool) : outcome unit :=
  match m with Checked => assert_ b | Wrapping => Done tt end.

(** Truncating division as on BigInt and machine integers, with the div-by-zero panic. *)
Definition zquot (a b : Z) : outcome Z := if b =? 0 then Panic PDiv0 else Done (Z.quot a b).
Definition zrem (a b : Z) : outcome Z := if b =? 0 then Panic PDiv0 else Done (Z.rem a b).

(** Indexing with Rust's bounds check. *)
Definition nth_chk {A} (l : list A) (i : nat) : outcome A :=
  match nth_error l i with Some x => Done x | None => Panic PIndex end.

(** Byte streams of random draws (what the scripted generator hands out). When the
    list is exhausted the draw is 0 and the [exhausted] flag of the state is set;
    correspondence runs always supply the bytes the implementation consumed. *)
Record rng := mkRng { rng_bytes : list Z; rng_exhausted : bool }.
Definition rng_of (l : list Z) : rng := mkRng l false.

Definition next_byte (r : rng) : Z * rng :=
  match rng_bytes r with
  | b :: t => (b mod 256, mkRng t (rng_exhausted r))
  | [] => (0, mkRng [] true)
  end.

(** [k] little-endian bytes as a number. *)
Fixpoint take_le (k : nat) (r : rng) : Z * rng :=
  match k with
  | O => (0, r)
  | S k' => let '(b, r1) := next_byte r in
            let '(v, r2) := take_le k' r1 in (b + 256 * v, r2)
  end.

(** num-bigint 0.4 [gen_biguint(bits)]: ceil(bits/32) little-endian u32 digits taken
    with one [fill_bytes] call; the top digit is shifted right by 32 - bits%32. *)
Definition gen_biguint (bits : Z) (r : rng) : Z * rng :=
  let digits := bits / 32 in
  let rem := bits mod 32 in
  let len := if rem =? 0 then digits else digits + 1 in
  let '(v, r1) := take_le (Z.to_nat (4 * len)) r in
  if rem =? 0 then (v, r1)
  else
    let lowbits := 32 * (len - 1) in
    let low := v mod 2 ^ lowbits in
    let top := v / 2 ^ lowbits in
    (low + 2 ^ lowbits * (top / 2 ^ (32 - rem)), r1).

Definition zbits (n : Z) : Z := if n <=? 0 then 0 else Z.log2 n + 1.

(** [gen_biguint_below(bound)]: rejection sampling; [bound > 0] (num panics on 0). *)
Fixpoint gen_below (fuel : nat) (bound : Z) (r : rng) : outcome (Z * rng) :=
  match fuel with
  | O => OutOfFuel
  | S f =>
    let '(v, r1) := gen_biguint (zbits bound) r in
    if v <? bound then Done (v, r1)
    else gen_below f bound r1
  end.

(** [rng.gen_bigint_range(lo, hi)] = lo + gen_biguint_below(hi - lo); panics unless lo < hi. *)
Definition gen_range (fuel : nat) (lo hi : Z) (r : rng) : outcome (Z * rng) :=
  if lo <? hi then
    do '(v, r1) <- gen_below fuel (hi - lo) r; Done (lo + v, r1)
  else Panic PAssert.

Definition draw_fuel : nat := 4096.
