(** * Algebraic: src/algebraic.rs (C14, quotient-ring part)

    An element of Q[x]/(f) is its representative [expr : list Qc] (a polynomial over
    BigRational, canonical, of degree < deg f); the minimal polynomial [f : list Z] is
    carried along unchanged. *)
From RNT.Model Require Import Base Poly.
From Coq Require Import QArith Qcanon.
Open Scope Z_scope.

Definition qz (z : Z) : Qc := Q2Qc (inject_Z z).
Definition q0 : Qc := Q2Qc 0.

(** [Algebraic::new] (algebraic.rs:12-31): expr = x, or the constant -c0/c1 when f = c1 x + c0 is linear. *)
Definition alg_new (f : list Z) : list Qc :=
  if pdeg f =? 1 then from_raw opsQc [Qcdiv (qz (- nth 0 f 0)) (qz (nth 1 f 0))]
  else from_raw opsQc [qz 0; qz 1].
Definition alg_const (x : Qc) : list Qc := from_raw opsQc [x].
Definition alg_from_int (z : Z) : list Qc := from_raw opsQc [qz z].

(** [as_coefs] (algebraic.rs:47-52): pad with zeros to length deg; [deg - expr.len()] is a usize subtraction. *)
Definition as_coefs (m : mode) (f : list Z) (e : list Qc) : outcome (list Qc) :=
  do k <- u64_norm m (pdeg f - Z.of_nat (length e));
  Done (e ++ repeat q0 (Z.to_nat k)).

Definition alg_add (a b : list Qc) : list Qc := padd opsQc a b.
Definition alg_sub (a b : list Qc) : list Qc := psub opsQc a b.

(** One shift of [cur] (algebraic.rs:112-123): multiply by x and reduce by c.
    [cur] has length n + 1 (index n is the overflow slot, zero on entry).
    After the swaps cur = [0; old_0; ...; old_{n-1}] with old_{n-1} in slot n. *)
Definition shift_reduce (n : nat) (lc : Qc) (c : list Qc) (cur : list Qc) : list Qc :=
  let shifted := q0 :: firstn n cur in                      (* length n + 1 *)
  let coef := Qcdiv (nth n shifted q0) lc in
  let low := sub_scaled opsQc (firstn n shifted) coef (firstn n c) in
  low ++ [q0].

(** Loop [for i in 0..a_deg+1] of mul_with_mod: [al] = coefficients of a still to process. *)
Fixpoint mwm_loop (n : nat) (lc : Qc) (c : list Qc) (al : list Qc) (cur result : list Qc) : list Qc :=
  match al with
  | [] => result
  | ai :: rest =>
    let result' := zip_pad opsQc Qcplus result (pscale opsQc ai (firstn n cur)) in
    match rest with
    | [] => result'
    | _ => mwm_loop n lc c rest (shift_reduce n lc c cur) result'
    end
  end.

(** [mul_with_mod] (algebraic.rs:94-127). [c] is the minimal polynomial over Z. *)
Definition mul_with_mod (a b : list Qc) (c : list Z) : outcome (list Qc) :=
  match a, b with
  | [], _ => Done []
  | _, [] => Done []
  | _, _ =>
    let n := pdeg c in
    do _ <- assert_ (pdeg a <? n);
    do _ <- assert_ (pdeg b <? n);
    (* n = usize::MAX (c = 0) would make vec![..; n] abort; c = [] never occurs with a, b non-zero and the asserts *)
    match c with
    | [] => Panic POther
    | _ =>
      let nn := Z.to_nat n in
      let cq := map qz c in
      let lc := nth nn cq q0 in
      let cur := b ++ repeat q0 (nn + 1 - length b) in
      let result := repeat q0 nn in
      (* division by lc: BigRational division by zero panics; lc <> 0 for canonical c *)
      Done (from_raw opsQc (mwm_loop nn lc cq a cur result))
    end
  end.

Definition alg_mul (f : list Z) (a b : list Qc) : outcome (list Qc) := mul_with_mod a b f.

(** [Pow<u64>] / [Pow<BigInt>] (algebraic.rs:147-178): square-and-multiply; the loop body
    squares [cur] once more after the last multiplication, exactly as coded. *)
Fixpoint alg_pow_loop (fuel : nat) (f : list Z) (e : Z) (cur prod : list Qc) : outcome (list Qc) :=
  match fuel with
  | O => OutOfFuel
  | S fu =>
    if e <=? 0 then Done prod
    else
      do prod' <- (if Z.rem e 2 =? 1 then alg_mul f prod cur else Done prod);
      do cur' <- alg_mul f cur cur;
      alg_pow_loop fu f (Z.quot e 2) cur' prod'
  end.

Definition alg_pow (f : list Z) (a : list Qc) (e : Z) : outcome (list Qc) :=
  alg_pow_loop (Z.to_nat (zbits e) + 1) f e a (alg_from_int 1).
