(** * MultTable: src/mult_table.rs (C14, multiplication-table part)

    A [MultTable] is its [table : Vec<Vec<Vec<BigInt>>>]; [table[i][j][k]] is the [k]-th
    coordinate of [w_i * w_j].  Nothing is assumed about the shape: every index is taken
    with Rust's bounds check ([Panic PIndex]).  All panics that a loop nest can raise here
    are of class [PIndex], and a loop nest that does not panic visits its whole index box,
    so the order in which the independent cells of one nest are visited is not observable.

    [norm] and [inv] go through [LinAlg.determinant] / [LinAlg.inv] over [Qc];
    [BigRational::to_integer] is [LinAlg.q_to_integer] (truncation toward zero: a
    non-integer is silently truncated, no assertion in the code). *)
From RNT.Model Require Import Base Poly Algebraic LinAlg.
From RNT.Model Require Hnf.
From Coq Require Import QArith Qcanon.
Open Scope Z_scope.

Definition table := list (list (list Z)).

(** [deg] (mult_table.rs:16-18) *)
Definition mt_deg (t : table) : nat := length t.

(** [for k in 0..n { result[k] += &prod * &row[k] }]; [result] has length [n]; a [row]
    shorter than [n] is an out-of-bounds index. *)
Fixpoint addmul_prefix (n : nat) (result row : list Z) (prod : Z) : outcome (list Z) :=
  match n with
  | O => Done result
  | S n' =>
    match result, row with
    | x :: r', y :: row' => do t <- addmul_prefix n' r' row' prod; Done ((x + prod * y) :: t)
    | _, _ => Panic PIndex
    end
  end.

(** [mul] (mult_table.rs:20-34) *)
Definition mt_mul (m : mode) (t : table) (a b : list Z) : outcome (list Z) :=
  do _ <- debug_assert m (Nat.eqb (length a) (length b));
  let n := length a in
  do _ <- debug_assert m (Nat.eqb n (mt_deg t));
  Hnf.for_loop (Hnf.range 0 n) (fun i result =>
    Hnf.for_loop (Hnf.range 0 n) (fun j result =>
      do ai <- nth_chk a i;
      do bj <- nth_chk b j;
      let prod := ai * bj in
      do ti <- nth_chk t i;
      do tij <- nth_chk ti j;
      addmul_prefix n result tij prod) result) (repeat 0 n).

(** [trace] (mult_table.rs:37-46): [sum += &a[i] * &self.table[j][i][j]] *)
Definition mt_trace (t : table) (a : list Z) : outcome Z :=
  let n := mt_deg t in
  Hnf.for_loop (Hnf.range 0 n) (fun i sum =>
    Hnf.for_loop (Hnf.range 0 n) (fun j sum =>
      do ai <- nth_chk a i;
      do tj <- nth_chk t j;
      do tji <- nth_chk tj i;
      do x <- nth_chk tji j;
      Done (sum + ai * x)) sum) 0.

(** [for k in 0..n { sum[j][k] += BigRational::from(&a[i] * &self.table[i][j][k]) }] on row
    [sum[j]] (length [n]) *)
Fixpoint addq_prefix (n : nat) (srow : list Qc) (trow : list Z) (ai : Z) : outcome (list Qc) :=
  match n with
  | O => Done srow
  | S n' =>
    match srow, trow with
    | x :: s', y :: t' => do r <- addq_prefix n' s' t' ai; Done (Qcplus x (qz (ai * y)) :: r)
    | _, _ => Panic PIndex
    end
  end.

(** The matrix [sum] built identically in [norm] (mult_table.rs:51-58) and [inv]
    (mult_table.rs:67-74): [sum[j][k] = sum_i a[i] * table[i][j][k]], the matrix of
    multiplication by [a] (row [j] = coordinates of [a * w_j]). *)
Definition mt_rep (t : table) (a : list Z) : outcome (list (list Qc)) :=
  let n := mt_deg t in
  Hnf.for_loop (Hnf.range 0 n) (fun i sum =>
    do ai <- nth_chk a i;
    do ti <- nth_chk t i;
    Hnf.for_loop (Hnf.range 0 n) (fun j sum =>
      do tij <- nth_chk ti j;
      do sj <- nth_chk sum j;
      do sj' <- addq_prefix n sj tij ai;
      Done (Hnf.set_row sum j sj')) sum) (repeat (repeat q0 n) n).

(** [norm] (mult_table.rs:49-60): [determinant(&sum).to_integer()] *)
Definition mt_norm (t : table) (a : list Z) : outcome Z :=
  do s <- mt_rep t a;
  do d <- determinant fopsQc s;
  Done (q_to_integer d).

(** [Result::unwrap] / [expect] on the result of [matrix::inv] / [solve_linear_system] *)
Definition unwrap_ok {E A : Type} (r : result E A) : outcome A :=
  match r with Ok x => Done x | Err _ => Panic PUnwrap end.

(** [inv] (mult_table.rs:64-82): returns [(ans, norm)] with [ans[i] = (inv[0][i] * |norm|).to_integer()] *)
Definition mt_inv (t : table) (a : list Z) : outcome (list Z * Z) :=
  do nm <- mt_norm t a;
  let norm := Z.abs nm in
  let n := mt_deg t in
  do s <- mt_rep t a;
  do r <- inv fopsQc s;
  do iv <- unwrap_ok r;
  do ans <- mapM (fun i => do r0 <- nth_chk iv 0; do x <- nth_chk r0 i;
                           Done (q_to_integer (Qcmult x (qz norm)))) (seq 0 n);
  Done (ans, norm).

(** denominator of a [BigRational] (always positive) *)
Definition q_den (x : Qc) : Z := Zpos (Qden (this x)).

(** [get_inv_diff] (mult_table.rs:86-110), up to the arguments of [FracIdeal::new]:
    [(denom_lcm, HNF::new(&int))].  [num::integer::lcm] on [BigInt] is non-negative: [Z.lcm]. *)
Definition mt_inv_diff (t : table) : outcome (Z * Hnf.mat) :=
  let n := mt_deg t in
  do tr_mat <- mapM (fun i => mapM (fun j =>
                  do ti <- nth_chk t i; do v <- nth_chk ti j;
                  do x <- mt_trace t v; Done (qz x)) (seq 0 n)) (seq 0 n);
  do r <- inv fopsQc tr_mat;
  do d <- unwrap_ok r;
  do l <- Hnf.for_loop (Hnf.range 0 n) (fun i l =>
            Hnf.for_loop (Hnf.range 0 n) (fun j l =>
              do di <- nth_chk d i; do x <- nth_chk di j; Done (Z.lcm l (q_den x))) l) 1;
  do int <- mapM (fun i => mapM (fun j =>
              do di <- nth_chk d i; do x <- nth_chk di j;
              Done (q_to_integer (Qcmult x (qz l)))) (seq 0 n)) (seq 0 n);
  do h <- Hnf.hnf_new int;
  Done (l, h).
