(** * FactorModP: src/poly_mod/factorize_mod_p.rs  (C08; [Int = BigInt])

    [squarefree] (Cohen 3.4.2 with p-th root extraction), [degree] (distinct degrees),
    [final_split] (Cantor-Zassenhaus for odd p with random polynomials drawn from the
    byte stream, trace-like map for p = 2), [factorize_mod_p]. [usize] values are [Z]
    normalised through [u64_norm]; the random generator is the thread-local scripted one,
    so the stream is threaded through consecutive [final_split] calls in program order. *)
From RNT.Model Require Import Base Poly PolyModP.
Open Scope Z_scope.

(** ** squarefree *)

(** [raw[i] = t.coef_at(pusize * i)] for [i = i0 .. i0 + cnt - 1]. *)
Fixpoint pth_root_raw (cnt : nat) (i : Z) (pusize : Z) (t : list Z) : list Z :=
  match cnt with
  | O => []
  | S c => coef_at opsZ t (Z.to_nat (pusize * i)) :: pth_root_raw c (i + 1) pusize t
  end.

(** Result of the inner [loop] of [squarefree]: [break 'outer] or [continue 'outer]
    with the new [t0] and [e]. *)
Inductive sqf_exit :=
| SqBreak (result : list (list Z * Z))
| SqContinue (t0 : list Z) (e : Z) (result : list (list Z * Z)).

(** The inner [loop] (factorize_mod_p.rs:66-87). *)
Fixpoint sqf_inner (fuel : nat) (md : mode) (p pusize e : Z) (t v : list Z) (k : Z)
         (result : list (list Z * Z)) : outcome sqf_exit :=
  match fuel with
  | O => OutOfFuel
  | S f =>
    if pdeg v =? 0 then
      if pdeg t =? 0 then Done (SqBreak result)
      else
        if pusize =? 0 then Panic PDiv0
        else
          let q := pdeg t / pusize in
          match t with
          | [] =>
            (* t.deg() = usize::MAX: [vec![0; q + 1]] of at least 2^58 BigInts panics with
               "capacity overflow"; a smaller request exhausts the memory (no return). *)
            if 288230376151711744 <=? q + 1 then Panic POther else OutOfFuel
          | _ =>
            let raw := pth_root_raw (Z.to_nat (q + 1)) 0 pusize t in
            do e' <- u64_norm md (e * pusize);
            Done (SqContinue (from_raw opsZ raw) e' result)
          end
    else
      let k1 := k + 1 in
      do w <- poly_gcd t v p;
      do '(aek, _) <- poly_divrem v w p;
      do '(t', _) <- poly_divrem t w p;
      do result' <- (if negb (pdeg aek =? 0)
                     then do ek <- u64_norm md (e * k1); Done (result ++ [(aek, ek)])
                     else Done result);
      sqf_inner f md p pusize e t' w k1 result'
  end.

(** The ['outer] loop (factorize_mod_p.rs:61-88). *)
Fixpoint sqf_outer (fuel : nat) (md : mode) (p pusize e : Z) (t0 : list Z)
         (result : list (list Z * Z)) : outcome (list (list Z * Z)) :=
  match fuel with
  | O => OutOfFuel
  | S f =>
    if pdeg t0 =? 0 then Done result
    else
      do der <- differential t0 p;
      do t <- poly_gcd t0 der p;
      do '(v, _) <- poly_divrem t0 t p;
      do ex <- sqf_inner (2 * length t0 + 4) md p pusize e t v 0 result;
      match ex with
      | SqBreak result' => Done result'
      | SqContinue t0' e' result' => sqf_outer f md p pusize e' t0' result'
      end
  end.

(** [squarefree] (factorize_mod_p.rs:47-90). *)
Definition squarefree (md : mode) (poly : list Z) (p pusize : Z) : outcome (list (list Z * Z)) :=
  match poly with
  | [] => Panic POther
  | _ =>
    do t0 <- poly_mod poly p;
    sqf_outer (length poly + 2) md p pusize 1 t0 []
  end.

(** ** degree *)

Definition poly_x : list Z := from_raw opsZ [0; 1].

(** The [while] loop of [degree] (factorize_mod_p.rs:108-117); returns (v, result). *)
Fixpoint degree_loop (fuel : nat) (p : Z) (x v w : list Z) (d : Z) (result : list (list Z * Z))
  : outcome (list Z * list (list Z * Z)) :=
  match fuel with
  | O => OutOfFuel
  | S f =>
    if 2 * d + 2 <=? pdeg v then
      let d1 := d + 1 in
      do w1 <- poly_modpow w p v p;
      do wx <- poly_mod_sub w1 x p;
      do ad <- poly_gcd wx v p;
      if 0 <? pdeg ad then
        do '(v', _) <- poly_divrem v ad p;
        do '(_, w2) <- poly_divrem w1 v' p;
        degree_loop f p x v' w2 d1 (result ++ [(ad, d1)])
      else degree_loop f p x v w1 d1 result
    else Done (v, result)
  end.

(** [degree] (factorize_mod_p.rs:96-122). *)
Definition degree (poly : list Z) (p : Z) : outcome (list (list Z * Z)) :=
  do '(v, result) <- degree_loop (length poly + 1) p poly_x poly poly_x 0 [];
  if 0 <? pdeg v then Done (result ++ [(v, pdeg v)]) else Done result.

(** ** final_split *)

(** [rng.gen_range(0..p)] for BigInt = [gen_bigint_range(0, p)]; rand panics with
    "cannot sample empty range" unless [0 < p]. *)
Definition draw_below (p : Z) (r : rng) : outcome (Z * rng) :=
  if 0 <? p then gen_range draw_fuel 0 p r else Panic POther.

(** [for i in 0..n { raw[i] = rng.gen_range(0..p) }]. *)
Fixpoint draw_coeffs (n : nat) (p : Z) (r : rng) : outcome (list Z * rng) :=
  match n with
  | O => Done ([], r)
  | S n' =>
    do '(c, r1) <- draw_below p r;
    do '(cs, r2) <- draw_coeffs n' p r1;
    Done (c :: cs, r2)
  end.

(** [k = poly.deg() / d] on [usize]. *)
Definition deg_div (poly : list Z) (d : Z) : outcome Z :=
  if d =? 0 then Panic PDiv0 else Done (pdeg poly / d).

(** Retries of one [loop]: the exit probability is at least about 1/2 per iteration on a
    product of distinct irreducibles of degree d. *)
Definition split_retries : nat := 400.

(** [final_split_odd] (factorize_mod_p.rs:144-188). [fuel] bounds the recursion depth,
    the inner fixpoint is the [loop] (one iteration per drawn polynomial). *)
Fixpoint final_split_odd (fuel : nat) (poly : list Z) (p d : Z) (result : list (list Z)) (r : rng)
  : outcome (list (list Z) * rng) :=
  match fuel with
  | O => OutOfFuel
  | S f =>
    do k <- deg_div poly d;
    if k =? 0 then Panic POther
    else if k =? 1 then Done (result ++ [poly], r)
    else
      (fix loop (lf : nat) (r : rng) {struct lf} : outcome (list (list Z) * rng) :=
         match lf with
         | O => OutOfFuel
         | S lf' =>
           do '(raw, r1) <- draw_coeffs (Z.to_nat (2 * d)) p r;
           let t := from_raw opsZ raw in
           let e := Z.quot (p ^ d - 1) 2 in
           do tpow <- poly_modpow t e poly p;
           do tpow1 <- poly_mod_sub tpow (from_mono opsZ 1) p;
           do b <- poly_gcd tpow1 poly p;
           match b with
           | [] => loop lf' r1
           | _ =>
             if (pdeg b =? 0) || (pdeg b =? pdeg poly) then loop lf' r1
             else
               do '(res1, r2) <- final_split_odd f b p d result r1;
               do '(dv, _) <- poly_divrem poly b p;
               final_split_odd f dv p d res1 r2
           end
         end) split_retries r
  end.

(** [for _ in 0..d - 1 { c = c * c + t; c = poly_mod(c, 2); c = poly_divrem(c, poly, 2).1 }]. *)
Fixpoint trace_loop (n : nat) (c t poly : list Z) : outcome (list Z) :=
  match n with
  | O => Done c
  | S n' =>
    do c1 <- poly_mod (padd opsZ (pmul opsZ c c) t) 2;
    do '(_, c2) <- poly_divrem c1 poly 2;
    trace_loop n' c2 t poly
  end.

(** [final_split_2] (factorize_mod_p.rs:190-225). The [loop] tries t = x, x^3, x^5, ... *)
Fixpoint final_split_2 (fuel : nat) (poly : list Z) (d : Z) (result : list (list Z))
  : outcome (list (list Z)) :=
  match fuel with
  | O => OutOfFuel
  | S f =>
    do k <- deg_div poly d;
    if k =? 0 then Panic POther
    else if k =? 1 then Done (result ++ [poly])
    else
      let x2 := from_raw opsZ [0; 0; 1] in
      (fix loop (lf : nat) (t : list Z) {struct lf} : outcome (list (list Z)) :=
         match lf with
         | O => OutOfFuel
         | S lf' =>
           do c <- trace_loop (Z.to_nat (d - 1)) t t poly;
           do b <- poly_gcd poly c 2;
           if (pdeg b =? 0) || (pdeg b =? pdeg poly) then loop lf' (pmul opsZ t x2)
           else
             do res1 <- final_split_2 f b d result;
             do '(dv, _) <- poly_divrem poly b 2;
             final_split_2 f dv d res1
         end) (length poly + 2)%nat poly_x
  end.

(** [final_split] (factorize_mod_p.rs:124-142). *)
Definition final_split (poly : list Z) (p d : Z) (r : rng) : outcome (list (list Z) * rng) :=
  if Z.odd p then final_split_odd (length poly + 1) poly p d [] r
  else do res <- final_split_2 (length poly + 1) poly d []; Done (res, r).

(** ** factorize_mod_p *)

(** [for factor in spl] (factorize_mod_p.rs:34-39). *)
Fixpoint normalise_factors (spl : list (list Z)) (p d e : Z) (result : list (list Z * Z))
  : outcome (list (list Z * Z)) :=
  match spl with
  | [] => Done result
  | factor :: rest =>
    do _ <- assert_ (pdeg factor =? d);
    let leading := coef_at opsZ factor (Z.to_nat d) in
    do inv <- modinv leading p;
    do factor' <- poly_mod (pmul opsZ factor (from_mono opsZ inv)) p;
    normalise_factors rest p d e (result ++ [(factor', e)])
  end.

(** [for (prod, d) in degrees] (factorize_mod_p.rs:29-40). *)
Fixpoint split_degrees (degrees : list (list Z * Z)) (p e : Z) (result : list (list Z * Z)) (r : rng)
  : outcome (list (list Z * Z) * rng) :=
  match degrees with
  | [] => Done (result, r)
  | (prod, d) :: rest =>
    if pdeg prod =? 0 then split_degrees rest p e result r
    else
      do '(spl, r1) <- final_split prod p d r;
      do result' <- normalise_factors spl p d e result;
      split_degrees rest p e result' r1
  end.

(** [for (sqfree, e) in sqfree] (factorize_mod_p.rs:27-41). *)
Fixpoint split_sqfree (sq : list (list Z * Z)) (p : Z) (result : list (list Z * Z)) (r : rng)
  : outcome (list (list Z * Z) * rng) :=
  match sq with
  | [] => Done (result, r)
  | (s, e) :: rest =>
    do degrees <- degree s p;
    do '(result', r1) <- split_degrees degrees p e result r;
    split_sqfree rest p result' r1
  end.

(** [factorize_mod_p] (factorize_mod_p.rs:14-43). *)
Definition factorize_mod_p (md : mode) (poly : list Z) (p pusize : Z) (r : rng)
  : outcome (list (list Z * Z) * rng) :=
  do poly1 <- poly_mod poly p;
  do sq <- squarefree md poly1 p pusize;
  split_sqfree sq p [] r.
