(** * LinearRoots: src/poly_mod/linear.rs  (C12; [Int = BigInt])

    Roots of a polynomial modulo a prime p, with multiplicity. The random shifts come from
    the byte stream ([rng.gen_range(0..p)]), in program order. *)
From RNT.Model Require Import Base Poly PolyModP FactorModP.
Open Scope Z_scope.

(** [xapow + c], then [if coef_at(0) >= p { - p }] (linear.rs:69-72, 79-82). *)
Definition add_const_wrap (xapow : list Z) (c p : Z) : list Z :=
  let s := padd opsZ xapow (from_mono opsZ c) in
  if p <=? coef_at opsZ s 0 then psub opsZ s (from_mono opsZ p) else s.

(** [find_linear_factors_impl] (linear.rs:39-93); [fuel] bounds the recursion depth. *)
Fixpoint find_linear_factors_impl (fuel : nat) (md : mode) (poly : list Z) (p : Z)
         (result : list Z) (r : rng) : outcome (list Z * rng) :=
  match fuel with
  | O => OutOfFuel
  | S f =>
    if pdeg poly =? 0 then Done (result, r)
    else if pdeg poly =? 1 then
      do inv <- modinv (coef_at opsZ poly 1) p;
      if p =? 0 then Panic PDiv0
      else Done (result ++ [((- coef_at opsZ poly 0) * inv) mod p], r)
    else
      do '(a, r1) <- draw_below p r;
      do ap <- modpow a p p;
      do _ <- debug_assert md (ap =? a);
      let poly_orig := poly in
      do v <- poly_of_mod md poly a p;
      do '(poly1, result1) <-
         (if v =? 0 then do q <- divide_by_x_a md poly a p; Done (q, result ++ [a])
          else Done (poly, result));
      if p =? 0 then Panic PDiv0
      else
        let xa := from_raw opsZ [(- a) mod p; 1] in
        let p1 := Z.quot (p - 1) 2 in
        do xapow <- poly_modpow xa p1 poly1 p;
        let xapowp1 := add_const_wrap xapow 1 p in
        do g1 <- poly_gcd xapowp1 poly1 p;
        do '(poly2, result2, r2) <-
           (if 0 <? pdeg g1 then
              do '(quo, _) <- poly_divrem poly1 g1 p;
              do '(res, r') <- find_linear_factors_impl f md g1 p result1 r1;
              Done (quo, res, r')
            else Done (poly1, result1, r1));
        let xapowm1 := add_const_wrap xapow (p - 1) p in
        do g2 <- poly_gcd xapowm1 poly2 p;
        do '(poly3, result3, r3) <-
           (if 0 <? pdeg g2 then
              do '(quo, _) <- poly_divrem poly2 g2 p;
              do '(res, r') <- find_linear_factors_impl f md g2 p result2 r2;
              Done (quo, res, r')
            else Done (poly2, result2, r2));
        if negb (zlist_eqb poly_orig poly3)
        then find_linear_factors_impl f md poly3 p result3 r3
        else Done (result3, r3)
  end.

(** [while poly_of_mod(&poly, &val, &two).is_zero() { poly = divide_by_x_a(..); result.push(val) }]
    (linear.rs:103-106). *)
Fixpoint deflate_mod2 (fuel : nat) (md : mode) (poly : list Z) (val : Z) (result : list Z)
  : outcome (list Z * list Z) :=
  match fuel with
  | O => OutOfFuel
  | S f =>
    do v <- poly_of_mod md poly val 2;
    if v =? 0 then
      do q <- divide_by_x_a md poly val 2;
      deflate_mod2 f md q val (result ++ [val])
    else Done (poly, result)
  end.

(** [find_linear_factors_impl_mod2] (linear.rs:95-108). *)
Definition find_linear_factors_impl_mod2 (md : mode) (poly : list Z) (result : list Z)
  : outcome (list Z) :=
  do '(poly1, result1) <- deflate_mod2 (length poly + 1) md poly 0 result;
  do '(_, result2) <- deflate_mod2 (length poly1 + 1) md poly1 1 result1;
  Done result2.

(** Depth of the recursion of [find_linear_factors_impl]: every level either removes a
    factor or retries with a new shift (probability of a retry at most about 1/2). *)
Definition roots_fuel (poly : list Z) : nat := (4 * length poly + 200)%nat.

(** [find_linear_factors] (linear.rs:15-37). *)
Definition find_linear_factors (md : mode) (poly : list Z) (p : Z) (r : rng)
  : outcome (list Z * rng) :=
  do poly1 <- poly_mod poly p;
  if p =? 2 then
    do res <- find_linear_factors_impl_mod2 md poly1 []; Done (res, r)
  else find_linear_factors_impl (roots_fuel poly1) md poly1 p [] r.
