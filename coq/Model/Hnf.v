(** * Hermite normal form: number-theory-linear/src/hnf.rs  (C02, C03)

    Matrices are [list (list Z)], rows first, exactly the Rust [Vec<Vec<BigInt>>].
    An [HNF] value is its inner matrix.  All row/column indices are [usize] values that
    the code never lets underflow or exceed the number of rows, so they are [nat] here
    ([k] starts at [n - 1] with [n >= 1], is only decremented when non-zero and only
    incremented up to [n]).  Every indexing operation is bounds-checked ([Panic PIndex]),
    so ragged input panics in the model exactly where the code does. *)
From RNT.Model Require Import Base.
Open Scope Z_scope.

Definition mat := list (list Z).

(** ** Generic pieces *)

(** [for j in js { s = body(j, s) }] with early exit on panic. *)
Fixpoint for_loop {S : Type} (js : list nat) (body : nat -> S -> outcome S) (s : S) : outcome S :=
  match js with
  | [] => Done s
  | j :: t => do s' <- body j s; for_loop t body s'
  end.

(** [lo..hi] *)
Definition range (lo hi : nat) : list nat := seq lo (hi - lo).

(** [a[j][i]] *)
Definition get (a : mat) (j i : nat) : outcome Z :=
  do r <- nth_chk a j; nth_chk r i.

(** [l[j] = x] for [j] in range (callers have already read [l[j]]). *)
Fixpoint set_row {A : Type} (l : list A) (j : nat) (x : A) : list A :=
  match l, j with
  | [], _ => []
  | _ :: t, O => x :: t
  | h :: t, S j' => h :: set_row t j' x
  end.

(** [a.swap(j, k)] *)
Definition swap_rows (a : mat) (j k : nat) : outcome mat :=
  do rj <- nth_chk a j;
  do rk <- nth_chk a k;
  Done (set_row (set_row a j rk) k rj).

(** [for entry in a[k].iter_mut() { *entry *= -1 }] (hnf.rs:148-153) *)
Definition neg_row (a : mat) (k : nat) : outcome mat :=
  do r <- nth_chk a k;
  Done (set_row a k (map (fun x => x * -1) r)).

(** [for v in 0..w { let val = &rk[v] * &q; rj[v] -= val }] on two distinct rows:
    the first [w] entries are updated, the rest of [rj] is untouched; either row
    shorter than [w] panics. *)
Fixpoint submul_prefix (w : nat) (rj rk : list Z) (q : Z) : outcome (list Z) :=
  match w with
  | O => Done rj
  | S w' =>
    match rj, rk with
    | x :: rj', y :: rk' => do t <- submul_prefix w' rj' rk' q; Done ((x - y * q) :: t)
    | _, _ => Panic PIndex
    end
  end.

(** [A_j -= q * A_k] over the first [w] columns (hnf.rs:177-180, 182-185, 199-202, 204-207); [j <> k]. *)
Definition row_submul (w : nat) (a : mat) (j k : nat) (q : Z) : outcome mat :=
  do rk <- nth_chk a k;
  do rj <- nth_chk a j;
  do rj' <- submul_prefix w rj rk q;
  Done (set_row a j rj').

(** ** floor_div (hnf.rs:223-232) *)
Definition floor_div (a b : Z) : outcome Z :=
  let '(a, b) := if b <? 0 then (- a, - b) else (a, b) in
  do q <- zquot a b;
  Done (if a <? q * b then q - 1 else q).

(** ** Pieces of the inner loop of [hnf_with_u] *)

(** [(0..k).all(|j| a[j][i] == 0)] (hnf.rs:143), short-circuiting. *)
Fixpoint col_all_zero (a : mat) (i : nat) (js : list nat) : outcome bool :=
  match js with
  | [] => Done true
  | j :: t => do x <- get a j i; if x =? 0 then col_all_zero a i t else Done false
  end.

(** [(0..k).position(|j| a[j][i] != zero)] (hnf.rs:158) *)
Fixpoint col_position (a : mat) (i : nat) (js : list nat) : outcome (option nat) :=
  match js with
  | [] => Done None
  | j :: t => do x <- get a j i; if negb (x =? 0) then Done (Some j) else col_position a i t
  end.

(** [Ord] on [(BigInt, usize)] and [std::cmp::min] (first argument when not greater). *)
Definition pair_le (p q : Z * nat) : bool :=
  (fst p <? fst q) || ((fst p =? fst q) && (snd p <=? snd q)%nat).
Definition pair_min (p q : Z * nat) : Z * nat := if pair_le p q then p else q.

(** body of [for j in ind + 1..k + 1] (hnf.rs:161-165) *)
Definition min_step (a : mat) (i : nat) (j : nat) (mi : Z * nat) : outcome (Z * nat) :=
  do x <- get a j i;
  if negb (x =? 0) then Done (pair_min mi (Z.abs x, j)) else Done mi.

(** body of the reduction loops (hnf.rs:172-186 and 194-208): [m] columns of A, [n] of U *)
Definition reduce_row (m n i : nat) (b : Z) (k : nat) (j : nat) (st : mat * mat) : outcome (mat * mat) :=
  let '(a, u) := st in
  do x <- get a j i;
  do q <- floor_div x b;
  do a' <- row_submul m a j k q;
  do u' <- row_submul n u j k q;
  Done (a', u').

(** The [loop { ... }] of hnf.rs:141-188 for column [i] and current row [k]. *)
Fixpoint hnf_inner (fuel : nat) (m n i k : nat) (a u : mat) : outcome (mat * mat) :=
  match fuel with
  | O => OutOfFuel
  | S f =>
    (* Step 2 *)
    do allzero <- col_all_zero a i (range 0 k);
    if allzero then
      do x <- get a k i;
      if x <? 0 then
        do a' <- neg_row a k;
        do u' <- neg_row u k;
        Done (a', u')
      else Done (a, u)
    else
      (* Step 3 *)
      do oind <- col_position a i (range 0 k);
      match oind with
      | None => Panic PUnwrap
      | Some ind =>
        do x0 <- get a ind i;
        do mi <- for_loop (range (ind + 1) (k + 1)) (min_step a i) (Z.abs x0, ind);
        let j0 := snd mi in
        do a1 <- swap_rows a j0 k;
        do u1 <- swap_rows u j0 k;
        (* Step 4 *)
        do b <- get a1 k i;
        do _ <- assert_ (negb (b =? 0));
        do '(a2, u2) <- for_loop (range 0 k) (reduce_row m n i b k) (a1, u1);
        hnf_inner f m n i k a2 u2
      end
  end.

(** Fuel of the inner loop: from the second iteration on all entries of rows [0..=k] in the
    column have one sign and the product of two consecutive pivots at least halves per
    iteration, so [2 * bits + O(1)] iterations suffice, where [bits] bounds the bit length of
    every entry of the current matrix. *)
Definition bits (x : Z) : nat :=
  match x with Z0 => O | Zpos p => Pos.size_nat p | Zneg p => Pos.size_nat p end.
Definition row_bits (r : list Z) : nat := fold_right (fun x acc => Nat.max (bits x) acc) O r.
Definition mat_bits (a : mat) : nat := fold_right (fun r acc => Nat.max (row_bits r) acc) O a.
Definition inner_fuel (a : mat) : nat := (2 * mat_bits a + 5)%nat.

(** One pass of [for i in (0..m).rev()] (hnf.rs:140-216); [i1 = i + 1] counts the columns left.
    Returns when the range is exhausted or at the [break] of Step 6. *)
Fixpoint hnf_cols (i1 : nat) (m n : nat) (a u : mat) (k : nat) : outcome (mat * mat * nat) :=
  match i1 with
  | O => Done (a, u, k)
  | S i =>
    do '(a1, u1) <- hnf_inner (inner_fuel a) m n i k a u;
    (* Step 5 *)
    do x <- get a1 k i;
    do '(a2, u2, k2) <-
      (if x =? 0 then Done (a1, u1, S k)
       else
         do '(a2, u2) <- for_loop (range (k + 1) n) (reduce_row m n i x k) (a1, u1);
         Done (a2, u2, k));
    (* Step 6 *)
    if (k2 =? 0)%nat || (i =? 0)%nat then Done (a2, u2, k2)
    else hnf_cols i m n a2 u2 (k2 - 1)
  end.

(** [u = 0; u[i][i] = 1] (hnf.rs:135-139) *)
Definition identity (n : nat) : mat :=
  map (fun i => map (fun j => if (i =? j)%nat then 1 else 0) (seq 0 n)) (seq 0 n).

(** ** hnf_with_u (hnf.rs:125-220) *)
Definition hnf_with_u (a : mat) : outcome (mat * mat * nat) :=
  match a with
  | [] => Done ([], [], O)
  | a0 :: _ =>
    let n := length a in
    let m := length a0 in
    do '(a', u', k) <- hnf_cols m m n a (identity n) (n - 1);
    (* a[k..] *)
    if (k <=? length a')%nat then Done (skipn k a', u', k) else Panic PIndex
  end.

(** ** hnf_with_ker (hnf.rs:114-118) *)
Definition hnf_with_ker (a : mat) : outcome (mat * mat) :=
  do '(w, u, k) <- hnf_with_u a;
  (* u[..k] *)
  if (k <=? length u)%nat then Done (w, firstn k u) else Panic PIndex.

(** ** impl HNF *)

(** [HNF::new] (hnf.rs:46-48) *)
Definition hnf_new (a : mat) : outcome mat :=
  do '(w, _) <- hnf_with_ker a; Done w.

(** [HNF::kernel] (hnf.rs:52-54) *)
Definition hnf_kernel (a : mat) : outcome mat :=
  do '(_, ker) <- hnf_with_ker a; Done ker.

(** [as_vecs] / [into_vecs] (hnf.rs:56-62) *)
Definition hnf_as_vecs (h : mat) : mat := h.

(** [dim] (hnf.rs:76-78) *)
Definition hnf_dim (h : mat) : nat := length h.

(** [deg] (hnf.rs:80-86) *)
Definition hnf_deg (h : mat) : nat :=
  if (hnf_dim h =? 0)%nat then O else length (hd [] h).

(** [determinant] (hnf.rs:64-74) *)
Definition hnf_determinant (h : mat) : outcome Z :=
  if negb (hnf_dim h =? hnf_deg h)%nat then Done 0
  else for_loop (range 0 (length h)) (fun i prod => do x <- get h i i; Done (prod * x)) 1.

(** [mat[i].clone_from_slice(&row)] with [mat[i]] of length [m]: panics (message
    "destination and source slices have different lengths", class other) unless equal. *)
Fixpoint check_widths (m : nat) (rows : mat) : outcome unit :=
  match rows with
  | [] => Done tt
  | r :: t => if (length r =? m)%nat then check_widths m t else Panic POther
  end.

(** [HNF::union] (hnf.rs:19-41) *)
Definition hnf_union (a b : mat) : outcome mat :=
  match a with
  | [] => Done b
  | a0 :: _ =>
    match b with
    | [] => Done a
    | b0 :: _ =>
      do _ <- assert_ (length a0 =? length b0)%nat;
      let m := length a0 in
      do _ <- check_widths m a;
      do _ <- check_widths m b;
      hnf_new (a ++ b)
    end
  end.

(** derived [PartialEq] on [HNF] = equality of [Vec<Vec<BigInt>>] *)
Fixpoint list_eqb {A : Type} (eqb : A -> A -> bool) (x y : list A) : bool :=
  match x, y with
  | [], [] => true
  | a :: x', b :: y' => eqb a b && list_eqb eqb x' y'
  | _, _ => false
  end.
Definition hnf_eqb (a b : mat) : bool := list_eqb (list_eqb Z.eqb) a b.
