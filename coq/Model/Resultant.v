(** * Resultant: src/resultant.rs, src/discriminant.rs (C04, C05, C10)

    The sub-resultant routines divide BigInts with the truncating [/]. The divisions are
    modelled as [Z.quot] exactly as coded, and every routine additionally returns a boolean
    *exactness flag*: [true] iff every such division performed so far had remainder zero.
    The flag is paired with the outcome (and not stored inside [Done]) so that it is also
    available when the run panics: a division by zero can only happen after an inexact
    division has corrupted the remainder sequence.

    All functions accept arbitrary coefficient lists (also with trailing zeros): the
    remainders [g] are *not* re-normalised by the Rust code after [g.dat[i] /= factor]. *)
From RNT.Model Require Import Base Poly.
From Coq Require Import QArith Qcanon.
Open Scope Z_scope.

(** Outcome paired with the exactness flag. *)
Definition flagged (A : Type) : Type := (bool * outcome A)%type.

Definition fbind {A B} (x : flagged A) (k : bool -> A -> flagged B) : flagged B :=
  match x with
  | (e, Done a) => k e a
  | (e, Panic t) => (e, Panic t)
  | (e, OutOfFuel) => (e, OutOfFuel)
  end.

(** lifts an outcome that performs no flagged division *)
Definition flift {A B} (e : bool) (x : outcome A) (k : A -> flagged B) : flagged B :=
  match x with
  | Done a => k a
  | Panic t => (e, Panic t)
  | OutOfFuel => (e, OutOfFuel)
  end.

Definition zlast (p : list Z) : Z := last p 0.
Definition zodd (n : Z) : bool := n mod 2 =? 1.

(** ** Pieces shared by [resultant_smart] and [resultant_smart_gcd] *)

(** The call [pseudo_div_rem_bigint(&f, &g)] (polynomial.rs:318-348) at a point where
    [f], [g] are non-empty and [deg f >= deg g]: [&tmp[i + b_deg] / &lcb] panics when the
    stored leading coefficient of [g] is zero (only possible for a non-normalised [g]). *)
Definition pseudo_rem_chk (f g : list Z) : outcome (list Z) :=
  if zlast g =? 0 then Panic PDiv0 else Done (snd (pseudo_div_rem f g)).

(** [for i in 0..g.dat.len() { g.dat[i] /= &factor; }] (resultant.rs:63-65, 105-107):
    no division happens when [g] is empty; no re-normalisation afterwards. *)
Definition div_coeffs (h : list Z) (factor : Z) (ex : bool) : flagged (list Z) :=
  match h with
  | [] => (ex, Done [])
  | _ => if factor =? 0 then (ex, Panic PDiv0)
         else (ex && forallb (fun c => Z.rem c factor =? 0) h,
               Done (map (fun c => Z.quot c factor) h))
  end.

(** One sub-resultant step (resultant.rs:58-68 and 100-110), entered with [deg f >= deg g],
    [g] non-empty and of degree >= 1. Returns the new [(f, g, a, b)]. *)
Definition sub_step (f g : list Z) (a b : Z) (ex : bool) : flagged (list Z * list Z * Z * Z) :=
  let delta := pdeg f - pdeg g in
  flift ex (pseudo_rem_chk f g) (fun h =>
  let factor := a * b ^ delta in
  fbind (div_coeffs h factor ex) (fun ex1 g' =>
  let a' := zlast g in                       (* a = f.dat[f.deg()] with f = old g *)
  let bd := b ^ delta in
  if bd =? 0 then (ex1, Panic PDiv0)
  else (ex1 && (Z.rem (a' ^ delta * b) bd =? 0),
        Done (g, g', a', Z.quot (a' ^ delta * b) bd)))).

(** ** [resultant_smart] (resultant.rs:76-121) *)

(** After the loop (resultant.rs:112-120). *)
Definition smart_finish (m : mode) (f g : list Z) (b s : Z) (ex : bool) : flagged Z :=
  flift ex (debug_assert m (pdeg g =? 0)) (fun _ =>
  if pdeg f =? 0 then (ex, Done 1)
  else
  flift ex (debug_assert m (1 <=? pdeg f)) (fun _ =>
  match g with
  | [] => (ex, Panic PIndex)                 (* swap_remove(0) on an empty vector *)
  | g0 :: _ =>
    let result := g0 ^ pdeg f in
    flift ex (u64_norm m (pdeg f - 1)) (fun e =>
    let bd := b ^ e in
    if bd =? 0 then (ex, Panic PDiv0)
    else
      let q := Z.quot result bd in
      (ex && (Z.rem result bd =? 0), Done (if s =? -1 then - q else q)))
  end)).

Fixpoint smart_loop (m : mode) (fuel : nat) (f g : list Z) (a b s : Z) (ex : bool) : flagged Z :=
  match fuel with
  | O => (ex, OutOfFuel)
  | S k =>
    match g with
    | [] => (ex, Done 0)
    | _ =>
      let fd := pdeg f in
      let gd := pdeg g in
      let s := if zodd fd && zodd gd then - s else s in
      if gd =? 0 then smart_finish m f g b s ex
      else if fd <? gd then smart_loop m k g f a b s ex
      else fbind (sub_step f g a b ex)
                 (fun ex1 '(f1, g1, a1, b1) => smart_loop m k f1 g1 a1 b1 s ex1)
    end
  end.

(** At most one swap, then the length of [g] strictly decreases. *)
Definition loop_fuel {A} (g : list A) : nat := (2 * length g + 3)%nat.

Definition resultant_smart (m : mode) (f g : list Z) : flagged Z :=
  match f with
  | [] => (true, Done 0)
  | _ => smart_loop m (loop_fuel g) f g 1 1 1 true
  end.

(** [resultant] (resultant.rs:123-125). *)
Definition resultant (m : mode) (a b : list Z) : flagged Z := resultant_smart m a b.

(** ** [resultant_smart_gcd] (resultant.rs:34-73) *)

(** [content()] = [cont_pp().0] (polynomial.rs:76-101): also computes the primitive part with
    [div_floor(&gcd)], which panics when all stored coefficients are zero. *)
Definition content_chk (p : list Z) : outcome Z :=
  match p with
  | [] => Done 0
  | _ => let c := content p in if c =? 0 then Panic PDiv0 else Done c
  end.

(** [poly_div] (poly_mod/prim.rs:88-102): floor division of every coefficient. *)
Definition poly_div (f : list Z) (d : Z) : outcome (list Z) :=
  match f with
  | [] => Done []
  | _ => if d =? 0 then Panic PDiv0 else Done (from_raw opsZ (map (fun c => Z.div c d) f))
  end.

(** [poly_mul] (poly_mod/prim.rs:104-118). *)
Definition poly_mul (f : list Z) (d : Z) : list Z :=
  match f with
  | [] => []
  | _ => from_raw opsZ (map (fun c => c * d) f)
  end.

(** The loop (resultant.rs:45-70); returns the final [f]. *)
Fixpoint gcd_loop (fuel : nat) (f g : list Z) (a b : Z) (ex : bool) : flagged (list Z) :=
  match fuel with
  | O => (ex, OutOfFuel)
  | S k =>
    match g with
    | [] => (ex, Done f)
    | _ =>
      let fd := pdeg f in
      let gd := pdeg g in
      if gd =? 0 then (ex, Done (from_mono opsZ 1))
      else if fd <? gd then gcd_loop k g f a b ex
      else fbind (sub_step f g a b ex)
                 (fun ex1 '(f1, g1, a1, b1) => gcd_loop k f1 g1 a1 b1 ex1)
    end
  end.

Definition resultant_smart_gcd (f g : list Z) : flagged (list Z) :=
  match f with
  | [] => (true, Done g)
  | _ =>
    flift true (content_chk f) (fun contf =>
    flift true (content_chk g) (fun contg =>
    let d := Z.gcd contf contg in
    flift true (poly_div f contf) (fun f1 =>
    flift true (poly_div g contg) (fun g1 =>
    fbind (gcd_loop (loop_fuel g1) f1 g1 1 1 true) (fun ex ff =>
    flift ex (content_chk ff) (fun contf' =>
    flift ex (poly_div ff contf') (fun pf =>
    (ex, Done (poly_mul pf d)))))))))
  end.

(** [resultant_gcd] (resultant.rs:127-129). *)
Definition resultant_gcd (a b : list Z) : flagged (list Z) := resultant_smart_gcd a b.

(** ** [resultant_rational] (resultant.rs:10-31) *)

Definition qc0 : Qc := Q2Qc 0.
Definition qlast (p : list Qc) : Qc := last p qc0.

(** [num::pow(x, n)] for a [usize] exponent. *)
Definition qcpow (x : Qc) (n : Z) : Qc := Qcpower x (Z.to_nat n).

(** The remainder of [div_rem_bigrational] (polynomial.rs:386-414) with its
    [assert!(!b.dat[b_deg].is_zero())], for non-empty [a], [b]. *)
Definition qrem_chk (a b : list Qc) : outcome (list Qc) :=
  if (length a <? length b)%nat then Done a
  else if qc_is0 (qlast b) then Panic PAssert
  else Done (snd (div_rem_q a b)).

Fixpoint resultant_rational_fuel (m : mode) (fuel : nat) (a b : list Qc) : outcome Qc :=
  match fuel with
  | O => OutOfFuel
  | S k =>
    match a, b with
    | [], _ => Done qc0
    | _, [] => Done qc0
    | _, b0 :: _ =>
      let ad := pdeg a in
      let bd := pdeg b in
      if bd =? 0 then Done (qcpow b0 ad)
      else
        do r <- qrem_chk a b;
        match r with
        | [] => Done qc0                (* [r_deg == usize::MAX] *)
        | _ =>
          let rd := pdeg r in
          do sub <- resultant_rational_fuel m k b r;
          do e <- u64_norm m (ad - rd);
          let sub := Qcmult sub (qcpow (qlast b) e) in
          Done (if zodd ad && zodd bd then Qcopp sub else sub)
        end
    end
  end.

Definition resultant_rational (m : mode) (a b : list Qc) : outcome Qc :=
  resultant_rational_fuel m (loop_fuel b) a b.

(** ** [discriminant] (discriminant.rs:5-13) *)

Definition discriminant (m : mode) (f : list Z) : flagged Z :=
  match f with
  | [] => (true, Panic PAssert)
  | _ =>
    fbind (resultant m f (pdiff opsZ f)) (fun ex res =>
    let mm := pdeg f in
    let res := if (mm mod 4 =? 2) || (mm mod 4 =? 3) then - res else res in
    let lc := zlast f in                      (* f.dat[m] *)
    if lc =? 0 then (ex, Panic PDiv0)
    else (ex && (Z.rem res lc =? 0), Done (Z.quot res lc)))
  end.
