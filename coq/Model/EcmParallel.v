(** * ECM, batched: src/ecm_parallel.rs  (C01) *)
From RNT.Model Require Import Base Elementary Ecm.
Open Scope Z_scope.

(** [struct Point], [struct Ell], [inf], [is_inf] of ecm_parallel.rs:166-181, 258-267 are
    textually the ones of ecm.rs; the model shares [Ecm.Point], [Ecm.Ell]. *)

(** First loop of [many_simplify] (ecm_parallel.rs:270-277): product of the non-zero z, not reduced. *)
Fixpoint zprod_from (acc : Z) (zs : list Z) : Z :=
  match zs with
  | [] => acc
  | z :: t => zprod_from (if z =? 0 then acc else acc * z) t
  end.

(** [zacc_l] (ecm_parallel.rs:278, 280-286): [l_0 = cur; l_{i+1} = l_i * z_i % n] skipping zeros;
    returns the k+1 entries. *)
Fixpoint acc_l (cur : Z) (zs : list Z) (n : Z) : outcome (list Z) :=
  match zs with
  | [] => Done [cur]
  | z :: t =>
    do nxt <- (if z =? 0 then Done cur else zrem (cur * z) n);
    do rest <- acc_l nxt t n;
    Done (cur :: rest)
  end.

(** [zacc_r] (ecm_parallel.rs:279, 287-293): [r_k = 1; r_i = r_{i+1} * z_i % n] skipping zeros. *)
Fixpoint acc_r (zs : list Z) (n : Z) : outcome (list Z) :=
  match zs with
  | [] => Done [1]
  | z :: t =>
    do rest <- acc_r t n;
    let r1 := hd 1 rest in
    do v <- (if z =? 0 then Done r1 else zrem (r1 * z) n);
    Done (v :: rest)
  end.

(** Last loop (ecm_parallel.rs:296-309); [ls] = zacc_l[i..], [rs1] = zacc_r[i+1..]. *)
Fixpoint simp_results (pts : list Point) (ls rs1 : list Z) (invzprod n : Z) : outcome (list Point) :=
  match pts with
  | [] => Done []
  | p :: pt =>
    match ls, rs1 with
    | l :: lt, r :: rt =>
      do o <- (if pz p =? 0 then Done inf
               else
                 do invz <- zrem (l * r * invzprod) n;
                 do x <- zrem (px p * invz) n;
                 do y <- zrem (py p * invz) n;
                 Done (mkPoint x y 1));
      do rest <- simp_results pt lt rt invzprod n;
      Done (o :: rest)
    | _, _ => Panic PIndex
    end
  end.

(** [Point::many_simplify] (ecm_parallel.rs:268-311). *)
Definition many_simplify (pts : list Point) (n : Z) : outcome (res (list Point)) :=
  let zarr := map pz pts in
  let zprod := zprod_from 1 zarr in
  do ls <- acc_l 1 zarr n;
  do rs <- acc_r zarr n;
  do iv <- inv zprod n;
  match iv with
  | InvErr g => Done (RErr g)
  | InvOk invzprod =>
    do out <- simp_results pts ls (tl rs) invzprod n;
    Done (ROk out)
  end.

(** The [for (p1, p2, curve) in pts] loop of [many_adds] (ecm_parallel.rs:186-228). *)
Fixpoint many_adds_raw (pts : list (Point * Point * Ell)) : outcome (list Point) :=
  match pts with
  | [] => Done []
  | (p1, p2, c) :: t =>
    do s <- (if is_inf p1 then Done p2
             else if is_inf p2 then Done p1
             else do r <- add_raw p1 p2 c;
                  Done (match r with None => inf | Some s => s end));
    do rest <- many_adds_raw t;
    Done (s :: rest)
  end.

(** [Point::many_adds] (ecm_parallel.rs:184-230); [pts[0]] panics on the empty slice. *)
Definition many_adds (pts : list (Point * Point * Ell)) : outcome (res (list Point)) :=
  do points <- many_adds_raw pts;
  match pts with
  | [] => Panic PIndex
  | (_, _, c) :: _ => many_simplify points (en c)
  end.

(** [for i in 0..k { dat.push((sum[i], cur[i].0, cur[i].1)) }] (ecm_parallel.rs:238-240). *)
Fixpoint zip_sum (sum : list Point) (cur : list (Point * Ell)) {struct cur} : outcome (list (Point * Point * Ell)) :=
  match cur with
  | [] => Done []
  | (p, c) :: ct =>
    match sum with
    | [] => Panic PIndex
    | s :: st => do r <- zip_sum st ct; Done ((s, p, c) :: r)
    end
  end.

(** [for i in 0..k { cur[i].0 = tmp[i] }] (ecm_parallel.rs:252-254, 124-126, 148-150). *)
Fixpoint set_fst (cur : list (Point * Ell)) (tmp : list Point) : outcome (list (Point * Ell)) :=
  match cur with
  | [] => Done []
  | (_, c) :: ct =>
    match tmp with
    | [] => Panic PIndex
    | s :: st => do r <- set_fst ct st; Done ((s, c) :: r)
    end
  end.

Definition dup_fst (cur : list (Point * Ell)) : list (Point * Point * Ell) :=
  map (fun '(p, c) => (p, p, c)) cur.

(** [Point::many_muls] (ecm_parallel.rs:231-257). *)
Fixpoint many_muls_loop (fuel : nat) (sum : list Point) (cur : list (Point * Ell)) (e : Z)
  : outcome (res (list Point)) :=
  match fuel with
  | O => OutOfFuel
  | S f =>
    if 0 <? e then
      dor sum1 <- (if Z.rem e 2 =? 1
                   then do dat <- zip_sum sum cur; many_adds dat
                   else Done (ROk sum));
      let e1 := Z.quot e 2 in
      if e1 =? 0 then Done (ROk sum1)
      else
        dor tmp <- many_adds (dup_fst cur);
        do cur1 <- set_fst cur tmp;
        many_muls_loop f sum1 cur1 e1
    else Done (ROk sum)
  end.

Definition many_muls (pts : list (Point * Ell)) (e : Z) : outcome (res (list Point)) :=
  many_muls_loop (mul_fuel e) (repeat inf (length pts)) pts e.

(** Stage 1 (ecm_parallel.rs:122-127): no early exit here. *)
Fixpoint pstage1 (cnt : nat) (k : Z) (joint : list (Point * Ell)) : outcome (res (list (Point * Ell))) :=
  match cnt with
  | O => Done (ROk joint)
  | S cnt' =>
    dor tmp <- many_muls joint k;
    do joint1 <- set_fst joint tmp;
    pstage1 cnt' (k + 1) joint1
  end.

(** [for i in 0..k { tmp[i].0 = result[i] }] on (p, q, curve) triples (ecm_parallel.rs:158-160). *)
Fixpoint set_fst3 (cur : list (Point * Point * Ell)) (tmp : list Point) : outcome (list (Point * Point * Ell)) :=
  match cur with
  | [] => Done []
  | (_, q, c) :: ct =>
    match tmp with
    | [] => Panic PIndex
    | s :: st => do r <- set_fst3 ct st; Done ((s, q, c) :: r)
    end
  end.

(** [while cur_e <= b2 { cur_e += 6; result = many_adds(&tmp)?; ... }] (ecm_parallel.rs:155-161). *)
Fixpoint pstage2_loop (fuel : nat) (m : mode) (cur_e b2 : Z) (tmp : list (Point * Point * Ell))
  : outcome (res unit) :=
  match fuel with
  | O => OutOfFuel
  | S f =>
    if cur_e <=? b2 then
      do cur1 <- u64_norm m (cur_e + 6);
      dor result <- many_adds tmp;
      do tmp1 <- set_fst3 tmp result;
      pstage2_loop f m cur1 b2 tmp1
    else Done (ROk tt)
  end.

(** [tmp.push((p2[i], p4[i], curve))] etc.: zip of two point vectors with the curves of [joint]. *)
Fixpoint zip_pq (ps qs : list Point) (joint : list (Point * Ell)) {struct joint} : outcome (list (Point * Point * Ell)) :=
  match joint with
  | [] => Done []
  | (_, c) :: jt =>
    match ps, qs with
    | p :: pt, q :: qt => do r <- zip_pq pt qt jt; Done ((p, q, c) :: r)
    | _, _ => Panic PIndex
    end
  end.

(** Body of [for &init in ...] (ecm_parallel.rs:129-162). The points reached by the [while] loop
    live in the local [tmp] and are dropped: the second round restarts from [joint]. *)
Definition pstage2_one (m : mode) (init b2 : Z) (joint : list (Point * Ell))
  : outcome (res (list (Point * Ell))) :=
  dor p2 <- many_adds (dup_fst joint);
  do t2 <- zip_pq p2 p2 joint;
  dor p4 <- many_adds t2;
  do t4 <- zip_pq p2 p4 joint;
  dor p6 <- many_adds t4;
  dor tmp <- many_muls joint init;
  do joint1 <- set_fst joint tmp;
  do t <- zip_pq (map fst joint1) p6 joint1;
  dor _ <- pstage2_loop (stage2_fuel init b2) m init b2 t;
  Done (ROk joint1).

(** [ecm_oneshot_parallel] (ecm_parallel.rs:116-164); [joint] = zip of [pts] and [curves]. *)
Definition ecm_oneshot_parallel (m : mode) (joint : list (Point * Ell)) (b1 b2 : Z) : outcome (res unit) :=
  do hi <- u64_norm m (b1 + 1);
  dor j1 <- pstage1 (Z.to_nat (hi - 1)) 1 joint;
  do '(i1, i2) <- stage2_inits m b1;
  dor j2 <- pstage2_one m i1 b2 j1;
  dor j3 <- pstage2_one m i2 b2 j2;
  Done (ROk tt).

(** [for _ in 0..parallel_count { a = gen_bigint_range(1, n) }] (ecm_parallel.rs:84-89). *)
Fixpoint draw_curves (k : nat) (n : Z) (r : rng) : outcome (list Ell * rng) :=
  match k with
  | O => Done ([], r)
  | S k' =>
    do '(a, r1) <- gen_range draw_fuel 1 n r;
    do '(rest, r2) <- draw_curves k' n r1;
    Done (mkEll a n :: rest, r2)
  end.

(** (ecm_parallel.rs:92-102). *)
Fixpoint draw_points (k : nat) (n : Z) (r : rng) : outcome (list Point * rng) :=
  match k with
  | O => Done ([], r)
  | S k' =>
    do '(x, r1) <- gen_range draw_fuel 1 n r;
    do '(y, r2) <- gen_range draw_fuel 1 n r1;
    do '(rest, r3) <- draw_points k' n r2;
    Done (mkPoint x y 1 :: rest, r3)
  end.

(** [(conf.b1 as f64).sqrt() as usize] (ecm_parallel.rs:73): the integer square root for
    b1 < 2^52 (the conversion and the correctly rounded sqrt are then exact enough); checked
    against the code by the number of draws and the returned count. *)
Definition parallel_count (b1 : Z) : Z := Z.sqrt b1.

(** The curve loop (ecm_parallel.rs:75-113). *)
Fixpoint pecm_loop (fuel : nat) (m : mode) (n b1 b2 : Z) (pc : nat) (count : Z) (r : rng)
  : outcome (Z * Z * rng) :=
  match fuel with
  | O => OutOfFuel
  | S f =>
    let count := count + 1 in
    do '(curves, r1) <- draw_curves pc n r;
    do '(points, r2) <- draw_points pc n r1;
    do o <- ecm_oneshot_parallel m (combine points curves) b1 b2;
    match o with
    | RErr fac =>
      if (fac =? 1) || (fac =? n) then pecm_loop f m n b1 b2 pc count r2
      else
        do rm <- match m with Checked => zrem n fac | Wrapping => Done 0 end;
        do _ <- debug_assert m (rm =? 0);
        Done (fac, count * Z.of_nat pc, r2)
    | ROk _ => pecm_loop f m n b1 b2 pc count r2
    end
  end.

(** [ecm_parallel::ecm] (ecm_parallel.rs:65-114). *)
Definition ecm (fuel : nat) (m : mode) (n b1 b2 : Z) (r : rng) : outcome (Z * Z * rng) :=
  do r0 <- ecm_precheck m n r;
  pecm_loop fuel m n b1 b2 (Z.to_nat (parallel_count b1)) 0 r0.

(** [ecm_parallel::factorize_verbose] (ecm_parallel.rs:16-61): the same driver text as ecm.rs. *)
Definition factorize_verbose (cfuel : nat) (m : mode) (x b1 : Z) (r : rng)
  : outcome (list (Z * Z) * Z * rng) :=
  factorize_gen (fun n b1 b2 r => ecm cfuel m n b1 b2 r) x b1 r.
