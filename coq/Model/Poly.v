(** * Poly: src/polynomial.rs (C09; used by C04-C08, C10-C12, C14)

    [Polynomial<R>] is a vector of coefficients, lowest degree first, whose last
    entry is non-zero (the zero polynomial is the empty vector). The generic part
    is written once over a record of ring operations, as the Rust code is generic
    over [num] traits, and instantiated at [Z] (BigInt) and [Qc] (BigRational). *)
From RNT.Model Require Import Base.
From Coq Require Import QArith Qcanon.
Open Scope Z_scope.

Record ring_ops (T : Type) : Type := mkOps {
  r0 : T; r1 : T;
  radd : T -> T -> T; rsub : T -> T -> T; rmul : T -> T -> T; ropp : T -> T;
  reqb : T -> T -> bool;
  rofZ : Z -> T            (* [Int::from(i32)] *)
}.
Arguments r0 {T}. Arguments r1 {T}. Arguments radd {T}. Arguments rsub {T}.
Arguments rmul {T}. Arguments ropp {T}. Arguments reqb {T}. Arguments rofZ {T}.

Definition opsZ : ring_ops Z := mkOps Z 0 1 Z.add Z.sub Z.mul Z.opp Z.eqb (fun z => z).
Definition opsQc : ring_ops Qc :=
  mkOps Qc (Q2Qc 0) (Q2Qc 1) Qcplus Qcminus Qcmult Qcopp
        (fun a b => Qeq_bool a b) (fun z => Q2Qc (inject_Z z)).

Definition usize_max : Z := 18446744073709551615.

Section Generic.
Context {T : Type} (R : ring_ops T).

Definition is0 (x : T) : bool := reqb R x (r0 R).

(** [Polynomial::from_raw] (polynomial.rs:33-44): drop trailing zeros. *)
Fixpoint strip (l : list T) : list T :=
  match l with
  | [] => []
  | x :: t => match strip t with
              | [] => if is0 x then [] else [x]
              | t' => x :: t'
              end
  end.
Definition from_raw := strip.

(** [deg] (polynomial.rs:18-24): [usize::MAX] for the zero polynomial. *)
Definition pdeg (p : list T) : Z :=
  match p with [] => usize_max | _ => Z.of_nat (length p) - 1 end.

Definition coef_at (p : list T) (i : nat) : T := nth i p (r0 R).

Definition from_mono (c : T) : list T := from_raw [c].

(** Pointwise combination with zero padding ([tmp[i] += a[i]; tmp[i] op= b[i]]). *)
Fixpoint zip_pad (f : T -> T -> T) (a b : list T) : list T :=
  match a with
  | [] => map (f (r0 R)) b
  | x :: a' =>
    match b with
    | [] => map (fun x => f x (r0 R)) a
    | y :: b' => f x y :: zip_pad f a' b'
    end
  end.

(** [Add for &Polynomial] (polynomial.rs:135-160). *)
Definition padd (a b : list T) : list T :=
  match a, b with
  | [], _ => b
  | _, [] => a
  | _, _ => from_raw (zip_pad (radd R) a b)
  end.

(** [Neg] (polynomial.rs:174-188): no re-normalisation needed. *)
Definition pneg (a : list T) : list T := map (ropp R) a.

(** [Sub for &Polynomial] (polynomial.rs:197-222). *)
Definition psub (a b : list T) : list T :=
  match a, b with
  | [], _ => pneg b
  | _, [] => a
  | _, _ => from_raw (zip_pad (rsub R) a b)
  end.

Definition pscale (c : T) (a : list T) : list T := map (rmul R c) a.

(** Schoolbook product, [result[i + j] += a[i] * b[j]]. *)
Fixpoint pmul_raw (a b : list T) : list T :=
  match a with
  | [] => []
  | x :: a' => zip_pad (radd R) (pscale x b) (r0 R :: pmul_raw a' b)
  end.

(** [Mul for &Polynomial] (polynomial.rs:237-257). *)
Definition pmul (a b : list T) : list T :=
  match a, b with
  | [], _ => []
  | _, [] => []
  | _, _ => from_raw (pmul_raw a b)
  end.

(** Horner evaluation [of] (polynomial.rs:122-132), for a non-zero polynomial:
    [for i in (0..deg+1).rev() { sum *= x; sum += coef_at(i) }]. *)
Definition horner (p : list T) (x : T) : T :=
  fold_right (fun c acc => radd R (rmul R acc x) c) (r0 R) p.

(** [of]: the loop runs over the stored coefficients, so the zero polynomial gives 0. *)
Definition pof (p : list T) (x : T) : T := horner p x.

(** [differential] (polynomial.rs:58-71): [tmp[i] = dat[i+1] * (i+1)]. *)
Fixpoint diff_raw (k : Z) (p : list T) : list T :=
  match p with
  | [] => []
  | c :: t => rmul R c (rofZ R k) :: diff_raw (k + 1) t
  end.
Definition pdiff (p : list T) : list T :=
  match p with
  | [] => []
  | _ :: t => from_raw (diff_raw 1 t)
  end.

(** [tmp[j] -= c * b[j]] for all j < len b. *)
Fixpoint sub_scaled (tmp : list T) (c : T) (b : list T) : list T :=
  match tmp, b with
  | t :: tmp', y :: b' => rsub R t (rmul R c y) :: sub_scaled tmp' c b'
  | _, _ => tmp
  end.

(** [tmp[i + j] -= c * b[j]] for all j: subtract [c * b] shifted by [i]. *)
Fixpoint sub_scaled_at (tmp : list T) (i : nat) (c : T) (b : list T) : list T :=
  match i with
  | O => sub_scaled tmp c b
  | S i' => match tmp with
            | t :: tmp' => t :: sub_scaled_at tmp' i' c b
            | [] => []
            end
  end.

Definition lead (p : list T) : T := last p (r0 R).

End Generic.

(** ** BigInt-specific routines *)

Definition zis_monic (p : list Z) : bool :=
  match p with [] => false | _ => last p 0 =? 1 end.

(** Common division loop: [i] runs from [diff] down to 0; [quot] computes the
    quotient coefficient from [tmp[i + b_deg]] or aborts. Returns (quo, tmp). *)
Fixpoint zdiv_loop (quot : Z -> option Z) (i : nat) (bdeg : nat) (b tmp quo : list Z)
  : option (list Z * list Z) :=
  match quot (nth (i + bdeg) tmp 0) with
  | None => None
  | Some c =>
    let tmp' := sub_scaled_at opsZ tmp i c b in
    match i with
    | O => Some (c :: quo, tmp')
    | S i' => zdiv_loop quot i' bdeg b tmp' (c :: quo)
    end
  end.

(** [pseudo_div_rem_bigint] (polynomial.rs:318-348). *)
Definition pseudo_div_rem (a b : list Z) : list Z * list Z :=
  match a, b with
  | [], _ => (from_mono opsZ 0, a)
  | _, [] => (from_mono opsZ 0, a)
  | _, _ =>
    if (length a <? length b)%nat then (from_mono opsZ 0, a)
    else
      let bdeg := (length b - 1)%nat in
      let diff := (length a - length b)%nat in
      let lcb := last b 0 in
      let factor := lcb ^ (Z.of_nat diff + 1) in
      let tmp := map (fun c => c * factor) a in
      match zdiv_loop (fun t => Some (Z.quot t lcb)) diff bdeg b tmp [] with
      | Some (q, r) => (from_raw opsZ q, from_raw opsZ r)
      | None => ([], [])  (* unreachable: the quotient function never aborts *)
      end
  end.

(** [div_rem_bigint] (polynomial.rs:307-315): asserts that b is monic. *)
Definition div_rem_bigint (a b : list Z) : outcome (list Z * list Z) :=
  do _ <- assert_ (zis_monic b); Done (pseudo_div_rem a b).

(** [div_exact] (polynomial.rs:351-384). *)
Definition div_exact (a b : list Z) : option (list Z) :=
  match b with
  | [] => None
  | _ =>
    match a with
    | [] => Some (from_mono opsZ 0)
    | _ =>
      if (length a <? length b)%nat then None
      else
        let bdeg := (length b - 1)%nat in
        let diff := (length a - length b)%nat in
        let lcb := last b 0 in
        match zdiv_loop (fun t => if Z.modulo t lcb =? 0 then Some (Z.div t lcb) else None) diff bdeg b a [] with
        | None => None
        | Some (q, r) => if forallb (fun c => c =? 0) r then Some (from_raw opsZ q) else None
        end
    end
  end.

(** [cont_pp] (polynomial.rs:80-101): signed content and primitive part. *)
Definition cont_pp (p : list Z) : Z * list Z :=
  match p with
  | [] => (0, from_mono opsZ 1)
  | _ =>
    let g := fold_left Z.gcd p 0 in
    let g := if last p 0 <? 0 then - g else g in
    (g, from_raw opsZ (map (fun c => Z.div c g) p))
  end.
Definition content (p : list Z) : Z := fst (cont_pp p).

(** ** BigRational-specific *)

Definition qc_is0 (x : Qc) : bool := Qeq_bool x (Q2Qc 0).

Fixpoint qdiv_loop (i : nat) (bdeg : nat) (lc : Qc) (b tmp quo : list Qc) : list Qc * list Qc :=
  let c := Qcdiv (nth (i + bdeg) tmp (Q2Qc 0)) lc in
  let tmp' := sub_scaled_at opsQc tmp i c b in
  match i with
  | O => (c :: quo, tmp')
  | S i' => qdiv_loop i' bdeg lc b tmp' (c :: quo)
  end.

(** [div_rem_bigrational] (polynomial.rs:386-414). *)
Definition div_rem_q (a b : list Qc) : list Qc * list Qc :=
  match a, b with
  | [], _ => (from_mono opsQc (Q2Qc 0), a)
  | _, [] => (from_mono opsQc (Q2Qc 0), a)
  | _, _ =>
    if (length a <? length b)%nat then (from_mono opsQc (Q2Qc 0), a)
    else
      let '(q, r) := qdiv_loop (length a - length b) (length b - 1) (last b (Q2Qc 0)) b a [] in
      (from_raw opsQc q, from_raw opsQc r)
  end.
