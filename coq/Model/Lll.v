(** * Lll: number-theory-linear/src/lll.rs and cholesky.rs (C20)

    The Rust code computes in [f64] with [BigInt] transformation matrices and
    [i64] coordinate vectors. The model is written ONCE over a record [arith] of
    the arithmetic operations the code uses, and instantiated
    - in [LllFloat.v] with Coq's primitive binary64 floats (bit-exact with the
      code; evaluated by [vm_compute] inside [coqc], never extracted), and
    - here with exact rationals [Qc] ("the code run in exact arithmetic"): the
      instance the exact theorems are about, also extracted.

    No proofs in this file. *)
From RNT.Model Require Import Base.
From Coq Require Import QArith Qcanon Qround.
Open Scope Z_scope.

(** The arithmetic the two files use. [ffloor] is [BigInt::from_f64(x.floor()).unwrap()]
    ([None] for NaN and infinities, hence the outcome); [fofZ] is [BigInt::to_f64().unwrap()]
    and [i64 as f64]; [fup t u] is [((t.sqrt()) - u).floor() as i64] and [fdown t u] is
    [(-(t.sqrt()) - u).ceil() as i64] (cholesky.rs:91-93): the square root only ever
    occurs in these two compositions, which is what lets the exact instance exist. *)
Record arith (T : Type) : Type := mkArith {
  f0 : T; fhalf : T; f34 : T;
  fadd : T -> T -> T; fsub : T -> T -> T; fmul : T -> T -> T; fdiv : T -> T -> T;
  fopp : T -> T; fabs : T -> T;
  fltb : T -> T -> bool; fleb : T -> T -> bool;
  fofZ : Z -> T;
  ffloor : T -> outcome Z;
  fup : T -> T -> Z; fdown : T -> T -> Z
}.
Arguments f0 {T}. Arguments fhalf {T}. Arguments f34 {T}.
Arguments fadd {T}. Arguments fsub {T}. Arguments fmul {T}. Arguments fdiv {T}.
Arguments fopp {T}. Arguments fabs {T}. Arguments fltb {T}. Arguments fleb {T}.
Arguments fofZ {T}. Arguments ffloor {T}. Arguments fup {T}. Arguments fdown {T}.

(** ** Vectors and matrices as lists (rows first, as [Vec<Vec<_>>]) *)
Section Lists.
Context {A : Type}.

(** [v[i] = x] on an index known to be in range (out of range: unchanged). *)
Fixpoint set_nth (l : list A) (i : nat) (x : A) : list A :=
  match l, i with
  | [], _ => []
  | _ :: t, O => x :: t
  | y :: t, S i' => y :: set_nth t i' x
  end.

(** [v.swap(i, j)]. *)
Definition swap_nth (d : A) (l : list A) (i j : nat) : list A :=
  set_nth (set_nth l i (nth j l d)) j (nth i l d).

(** [for u in 0..n { rk[u] = f(rk[u], rl[u]) }] on the part of the range that exists. *)
Fixpoint pre_upd (f : A -> A -> A) (n : nat) (rk rl : list A) : list A :=
  match n, rk, rl with
  | S n', x :: rk', y :: rl' => f x y :: pre_upd f n' rk' rl'
  | _, _, _ => rk
  end.

(** The same loop with Rust's bounds checks. *)
Definition upd_prefix (f : A -> A -> A) (n : nat) (rk rl : list A) : outcome (list A) :=
  if (Nat.leb n (length rk) && Nat.leb n (length rl))%bool then Done (pre_upd f n rk rl)
  else Panic PIndex.

(** [for i in lo..hi { s = f(i, s) }]. *)
Definition for_range {St : Type} (lo hi : nat) (f : nat -> St -> St) (s : St) : St :=
  fold_left (fun s i => f i s) (seq lo (hi - lo)) s.
End Lists.

Definition identity_row (n i : nat) : list Z :=
  map (fun j => if Nat.eqb i j then 1 else 0) (seq 0 n).
Definition identity (n : nat) : list (list Z) := map (identity_row n) (seq 0 n).

Section Generic.
Context {T : Type} (F : arith T).

Definition row (m : list (list T)) (i : nat) : list T := nth i m [].
Definition get2 (m : list (list T)) (i j : nat) : T := nth j (nth i m []) (f0 F).
Definition set2 (m : list (list T)) (i j : nat) (x : T) : list (list T) :=
  set_nth m i (set_nth (nth i m []) j x).
Definition get1 (v : list T) (i : nat) : T := nth i v (f0 F).
Definition rowZ (m : list (list Z)) (i : nat) : list Z := nth i m [].

(** [inner] (lll.rs:10-17); the lengths are equal on every call (rows of a rectangular matrix). *)
Definition inner (a b : list T) : T :=
  fold_left (fun s xy => fadd F s (fmul F (fst xy) (snd xy))) (combine a b) (f0 F).
(** [norm_sqr] (lll.rs:18-24). *)
Definition norm_sqr (a : list T) : T := inner a a.
(** [to_int] (lll.rs:25-27): [floor(a + 0.5)], the addition in the arithmetic of the instance. *)
Definition to_int (a : T) : outcome Z := ffloor F (fadd F a (fhalf F)).
(** [to_real] (lll.rs:28-30). *)
Definition to_real (q : Z) : T := fofZ F q.

(** The mutable locals of [lll] (lll.rs:37-48). *)
Record lstate : Type := mkL {
  l_k : nat; l_kmax : nat;
  l_basis : list (list T); l_bstar : list (list T);
  l_b : list T; l_mu : list (list T); l_h : list (list Z)
}.

(** [red!(k, l)] (lll.rs:79-97). [n] = number of rows: the [u] loop runs to [n] although the
    rows of [basis] have [m] entries (index panic if [n > m], partial update if [n < m]). *)
Definition red (n : nat) (s : lstate) (k l : nat) : outcome lstate :=
  let mukl := get2 (l_mu s) k l in
  if fleb F (fhalf F) (fabs F mukl) then
    do q <- to_int mukl;
    let qr := to_real q in
    do bk <- upd_prefix (fun x y => fsub F x (fmul F qr y)) n (row (l_basis s) k) (row (l_basis s) l);
    do hk <- upd_prefix (fun x y => x - q * y) n (rowZ (l_h s) k) (rowZ (l_h s) l);
    let mu1 := set2 (l_mu s) k l (fsub F mukl qr) in
    let muk := pre_upd (fun x y => fsub F x (fmul F qr y)) l (row mu1 k) (row mu1 l) in
    Done (mkL (l_k s) (l_kmax s) (set_nth (l_basis s) k bk) (l_bstar s) (l_b s)
              (set_nth mu1 k muk) (set_nth (l_h s) k hk))
  else Done s.

(** [swap!(k)] (lll.rs:51-77); the [l] loops also run to [n]. *)
Definition swap (n : nat) (s : lstate) (k : nat) : outcome lstate :=
  let basis := swap_nth [] (l_basis s) k (k + 1) in
  let h := swap_nth [] (l_h s) k (k + 1) in
  let mu0 := swap_nth [] (l_mu s) k (k + 1) in
  let tmpmu := get2 mu0 k k in
  let mu1 := set2 mu0 k k (f0 F) in
  let bk := get1 (l_b s) k in
  let bk1 := get1 (l_b s) (k + 1) in
  let tmpb := fadd F bk1 (fmul F (fmul F tmpmu tmpmu) bk) in
  let munew := fdiv F (fmul F tmpmu bk) tmpb in
  let mu2 := set2 mu1 (k + 1) k munew in
  let tmpbasis := row (l_bstar s) k in
  let bstar1 := set_nth (l_bstar s) k (row (l_bstar s) (k + 1)) in
  do r1 <- upd_prefix (fun x y => fadd F x (fmul F tmpmu y)) n (row bstar1 k) tmpbasis;
  let bstar2 := set_nth bstar1 k r1 in
  do r2 <- upd_prefix (fun x y => fadd F (fmul F (fopp F munew) x) (fmul F (fdiv F bk1 tmpb) y)) n
                      (row bstar2 (k + 1)) tmpbasis;
  let bstar3 := set_nth bstar2 (k + 1) r2 in
  let b1 := set_nth (l_b s) (k + 1) (fdiv F (fmul F bk1 bk) tmpb) in
  let b2 := set_nth b1 k tmpb in
  let mu3 := for_range (k + 2) (l_kmax s + 1) (fun i mu =>
               let t := get2 mu i (k + 1) in
               let mu' := set2 mu i (k + 1) (fsub F (get2 mu i k) (fmul F tmpmu t)) in
               set2 mu' i k (fadd F t (fmul F munew (get2 mu' i (k + 1))))) mu2 in
  Done (mkL (l_k s) (l_kmax s) basis bstar3 b2 mu3 h).

(** Step 2 (lll.rs:102-112): incremental Gram-Schmidt of row [k] when it is reached for the first time. *)
Definition step2 (s : lstate) : lstate :=
  let k := l_k s in
  if Nat.ltb (l_kmax s) k then
    let basisk := row (l_basis s) k in
    let bstar0 := set_nth (l_bstar s) k basisk in
    let '(mu, bstar) :=
      for_range 0 k (fun j '(mu, bstar) =>
        let mukj := fdiv F (inner basisk (row bstar j)) (get1 (l_b s) j) in
        let rk := pre_upd (fun x y => fsub F x (fmul F y mukj)) (length (row bstar k)) (row bstar k) (row bstar j) in
        (set2 mu k j mukj, set_nth bstar k rk)) (l_mu s, bstar0) in
    mkL k k (l_basis s) bstar (set_nth (l_b s) k (norm_sqr (row bstar k))) mu (l_h s)
  else s.

(** The Lovasz test (lll.rs:115), [true] = the pair has to be swapped. *)
Definition lovasz_fails (s : lstate) : bool :=
  let k := l_k s in
  let m := get2 (l_mu s) k (k - 1) in
  fltb F (get1 (l_b s) k) (fmul F (fsub F (f34 F) (fmul F m m)) (get1 (l_b s) (k - 1))).

Definition with_k (s : lstate) (k : nat) : lstate :=
  mkL k (l_kmax s) (l_basis s) (l_bstar s) (l_b s) (l_mu s) (l_h s).

(** The inner [loop] (lll.rs:113-121). *)
Fixpoint inner_loop (fuel n : nat) (s : lstate) : outcome lstate :=
  match fuel with
  | O => OutOfFuel
  | S f =>
    do s1 <- red n s (l_k s) (l_k s - 1);
    if lovasz_fails s1 then
      do s2 <- swap n s1 (l_k s1 - 1);
      inner_loop f n (with_k s2 (Nat.max 1 (l_k s2 - 1)))
    else Done s1
  end.

(** [for l in (0..k - 1).rev() { red!(k, l) }] (lll.rs:122-124): [cnt] = number of values left, next is [cnt - 1]. *)
Fixpoint red_down (n : nat) (s : lstate) (cnt : nat) : outcome lstate :=
  match cnt with
  | O => Done s
  | S c => do s1 <- red n s (l_k s) c; red_down n s1 c
  end.

(** The outer [loop] (lll.rs:100-129). *)
Fixpoint main_loop (fuel n : nat) (s : lstate) : outcome lstate :=
  match fuel with
  | O => OutOfFuel
  | S f =>
    do s1 <- inner_loop f n (step2 s);
    do s2 <- red_down n s1 (l_k s1 - 1);
    let k' := (l_k s2 + 1)%nat in
    if Nat.leb n k' then Done s2 else main_loop f n (with_k s2 k')
  end.

Definition rectangular (basis : list (list T)) : bool :=
  let m := length (hd [] basis) in forallb (fun r => Nat.eqb (length r) m) basis.

(** [lll] (lll.rs:36-131). [basis[0]] panics for the empty matrix, [basis[1]] (step 2 with
    k = 1) for a single row. A ragged "matrix" is not a matrix: not modelled (and never generated);
    the model answers [Panic POther] for it, so that it cannot be mistaken for a result. *)
Definition lll (fuel : nat) (basis : list (list T)) : outcome (list (list T) * list (list Z)) :=
  let n := length basis in
  if Nat.ltb n 2 then Panic PIndex
  else if negb (rectangular basis) then Panic POther
  else
    let zero_row := repeat (f0 F) n in
    let s0 := mkL 1 0 basis basis (set_nth zero_row 0 (norm_sqr (row basis 0)))
                  (repeat zero_row n) (identity n) in
    do s <- main_loop fuel n s0;
    Done (l_basis s, l_h s).

(** ** cholesky.rs *)

(** [Cholesky::find] (cholesky.rs:7-32). Reads [matrix[i][j]] for [i <= j < n]. *)
Definition cholesky_find (matrix : list (list T)) : outcome (list (list T)) :=
  let n := length matrix in
  if negb (forallb (fun r => Nat.leb n (length r)) matrix) then Panic PIndex
  else
    let q0 := repeat (repeat (f0 F) n) n in
    let q1 := for_range 0 n (fun i q => for_range i n (fun j q => set2 q i j (get2 matrix i j)) q) q0 in
    let q2 := for_range 0 n (fun i q =>
                let qa := for_range (i + 1) n (fun j q =>
                            let q' := set2 q j i (get2 q i j) in
                            set2 q' i j (fdiv F (get2 q' i j) (get2 q' i i))) q in
                for_range (i + 1) n (fun k q =>
                  for_range k n (fun l q =>
                    set2 q k l (fsub F (get2 q k l) (fmul F (get2 q k i) (get2 q i l)))) q) qa) q1 in
    let q3 := for_range 0 n (fun i q => for_range 0 i (fun j q => set2 q i j (f0 F)) q) q2 in
    Done q3.

(** [find_value] (cholesky.rs:34-46). *)
Definition find_value (q : list (list T)) (x : list T) : outcome T :=
  let n := length q in
  if negb (Nat.eqb (length x) n) then Panic PAssert
  else
    Done (for_range 0 n (fun i val =>
            let tmp := for_range (i + 1) n (fun j tmp => fadd F tmp (fmul F (get2 q i j) (get1 x j))) (get1 x i) in
            fadd F val (fmul F (fmul F (get2 q i i) tmp) tmp)) (f0 F)).

(** [dfs] (cholesky.rs:67-100). Returns ([true] iff [Err(())], i.e. the zero vector was reached and
    the enumeration stops; the results pushed so far). The coordinate vector is passed down
    functionally: the entries below [idx] that the Rust code leaves stale in [x] are overwritten
    before they are read (level [j] writes [x[j]] before any level below reads it), so they are
    not threaded back. *)
Fixpoint dfs (q : list (list T)) (c rem : T) (idx : nat) (x : list Z)
             (res : list (T * list Z)) {struct idx} : bool * list (T * list Z) :=
  if fltb F rem (f0 F) then (false, res)
  else
    match idx with
    | O => if forallb (Z.eqb 0) x then (true, res) else (false, res ++ [(fsub F c rem, x)])
    | S i =>
      let n := length q in
      let u := for_range (i + 1) n (fun j u => fadd F u (fmul F (get2 q i j) (fofZ F (nth j x 0)))) (f0 F) in
      let qii := get2 q i i in
      let t := fdiv F rem qii in
      let up := fup F t u in
      let down := fdown F t u in
      (fix loop (cnt : nat) (xi : Z) (res : list (T * list Z)) {struct cnt} : bool * list (T * list Z) :=
         match cnt with
         | O => (false, res)
         | S cnt' =>
           let xu := fadd F (fofZ F xi) u in
           let new_rem := fsub F rem (fmul F (fmul F qii xu) xu) in
           let '(stop, res') := dfs q c new_rem i (set_nth x i xi) res in
           if stop then (true, res') else loop cnt' (xi + 1) res'
         end) (Z.to_nat (up - down + 1)) down res
    end.

(** [find_short_vectors] (cholesky.rs:54-66): [unwrap_err] panics (class "other" in the harness's
    classification of panic messages) when the zero vector was never
    reached (c < 0, or NaN in the decomposition). *)
Definition find_short_vectors (q : list (list T)) (c : T) : outcome (list (T * list Z)) :=
  let n := length q in
  let '(stop, res) := dfs q c c n (repeat 0 n) [] in
  if stop then Done res else Panic POther.

End Generic.

(** ** The exact instance

    [f64 -> Qc], [BigInt], [i64 -> Z] (no saturation, no NaN). Rounding to the nearest integer is
    the code's own [floor(a + 1/2)] with an exact addition, i.e. round-half-UP: on an exact half
    [a = n + 1/2] the float code computes [a + 0.5 = n + 1] exactly and agrees. [x / 0 = 0]
    (Coq's convention; only singular inputs get there). *)
Definition Qc_of_Z (z : Z) : Qc := Q2Qc (inject_Z z).
Definition Qc_leb (a b : Qc) : bool := Qle_bool a b.
Definition Qc_ltb (a b : Qc) : bool := negb (Qle_bool b a).
Definition Qc_abs (a : Qc) : Qc := if Qle_bool 0%Q a then a else Qcopp a.
Definition Qc_floor (a : Qc) : Z := Qfloor a.
Definition Qc_half : Qc := Q2Qc (1 # 2).
Definition Qc_34 : Qc := Q2Qc (3 # 4).

(** [x + u <= sqrt t] for an integer [x]. *)
Definition sq_le (t u : Qc) (x : Z) : bool :=
  let y := Qcplus (Qc_of_Z x) u in
  (Qc_leb y (Q2Qc 0) || Qc_leb (Qcmult y y) t)%bool.
(** [floor (sqrt t)] for [t = p/q >= 0]: [floor (floor (sqrt (p q)) / q)]. *)
Definition Qc_isqrt (t : Qc) : Z := Z.sqrt (Qnum t * Zpos (Qden t)) / Zpos (Qden t).
(** [floor (sqrt t - u)]: the largest [x] with [x + u <= sqrt t]; it is [floor (s - u)] or that plus one,
    where [s = floor (sqrt t)]. *)
Definition Qc_up (t u : Qc) : Z :=
  let x1 := Qc_floor (Qcminus (Qc_of_Z (Qc_isqrt t)) u) + 1 in
  if sq_le t u x1 then x1 else x1 - 1.
(** [ceil (- sqrt t - u) = - floor (sqrt t - (-u))]. *)
Definition Qc_down (t u : Qc) : Z := - Qc_up t (Qcopp u).

Definition arithQ : arith Qc :=
  mkArith Qc (Q2Qc 0) Qc_half Qc_34 Qcplus Qcminus Qcmult Qcdiv Qcopp Qc_abs Qc_ltb Qc_leb
          Qc_of_Z (fun x => Done (Qc_floor x)) Qc_up Qc_down.

(** Fuel for the two nested loops: each iteration but the last [n] performs a swap, and in exact
    arithmetic the number of swaps is at most [log_{4/3}] of the product of the Gram determinants,
    bounded here from the bit size of the entries (never from their value). *)
Definition lll_fuel (n : nat) (bits : Z) : nat :=
  (n * n * Z.to_nat (4 * bits + 16) * 2 + 16)%nat.
Definition Qc_bits (x : Qc) : Z := Z.log2 (Z.abs (Qnum x)) + Z.log2 (Zpos (Qden x)) + 2.
Definition mat_bits (b : list (list Qc)) : Z :=
  fold_left (fun a r => fold_left (fun a x => Z.max a (Qc_bits x)) r a) b 1.

Definition lll_exact (basis : list (list Qc)) : outcome (list (list Qc) * list (list Z)) :=
  lll arithQ (lll_fuel (length basis) (mat_bits basis)) basis.

(** ** Reducedness, by the textbook formulas (exact arithmetic only)

    [gram_schmidt B] = the list of (b*_i, [mu_i0 .. mu_i,i-1]) with
    mu_ij = <b_i, b*_j> / <b*_j, b*_j>,  b*_i = b_i - sum_{j<i} mu_ij b*_j. *)
Definition qdot (a b : list Qc) : Qc :=
  fold_right (fun xy s => Qcplus (Qcmult (fst xy) (snd xy)) s) (Q2Qc 0) (combine a b).
Definition qaxpy (c : Qc) (a b : list Qc) : list Qc :=   (* b - c a *)
  map (fun xy => Qcminus (snd xy) (Qcmult c (fst xy))) (combine a b).

(** One row against the orthogonal vectors found so far (in order 0..i-1). *)
Fixpoint gs_row (prev : list (list Qc)) (bi : list Qc) (acc : list Qc) : list Qc * list Qc :=
  match prev with
  | [] => (acc, [])
  | bs :: prev' =>
    let mu := Qcdiv (qdot bi bs) (qdot bs bs) in
    let '(r, mus) := gs_row prev' bi (qaxpy mu bs acc) in
    (r, mu :: mus)
  end.
Fixpoint gs_from (prev : list (list Qc)) (rows : list (list Qc)) : list (list Qc * list Qc) :=
  match rows with
  | [] => []
  | bi :: rest =>
    let '(bs, mus) := gs_row prev bi bi in
    (bs, mus) :: gs_from (prev ++ [bs]) rest
  end.
Definition gram_schmidt (b : list (list Qc)) : list (list Qc * list Qc) := gs_from [] b.

(** |mu_ij| <= 1/2 + eps for j < i and |b*_i|^2 >= (delta - eps - mu_{i,i-1}^2) |b*_{i-1}|^2. *)
Fixpoint lovasz_ok (delta eps : Qc) (g : list (list Qc * list Qc)) : bool :=
  match g with
  | (bs0, _) :: (((bs1, mus1) :: _) as g') =>
    let m := last mus1 (Q2Qc 0) in
    (Qc_leb (Qcmult (Qcminus (Qcminus delta eps) (Qcmult m m)) (qdot bs0 bs0)) (qdot bs1 bs1)
     && lovasz_ok delta eps g')%bool
  | _ => true
  end.
Definition size_ok (eps : Qc) (g : list (list Qc * list Qc)) : bool :=
  forallb (fun r => forallb (fun m => Qc_leb (Qc_abs m) (Qcplus Qc_half eps)) (snd r)) g.
Definition nondegenerate (g : list (list Qc * list Qc)) : bool :=
  forallb (fun r => negb (Qc_leb (qdot (fst r) (fst r)) (Q2Qc 0))) g.

Definition is_lll_reduced_eps (delta eps : Qc) (b : list (list Qc)) : bool :=
  let g := gram_schmidt b in (nondegenerate g && size_ok eps g && lovasz_ok delta eps g)%bool.
Definition is_lll_reduced (b : list (list Qc)) : bool := is_lll_reduced_eps Qc_34 (Q2Qc 0) b.

(** The run together with the flag the conditional theorem is about. *)
Definition lll_exact_checked (basis : list (list Qc)) : outcome (list (list Qc) * list (list Z) * bool) :=
  do r <- lll_exact basis; Done (fst r, snd r, is_lll_reduced (fst r)).

(** Entry points of the extracted exact model. *)
Definition cholesky_find_exact := cholesky_find arithQ.
Definition find_value_exact := find_value arithQ.
Definition find_short_vectors_exact := find_short_vectors arithQ.
