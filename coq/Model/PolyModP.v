(** * PolyModP: src/poly_mod/prim.rs  (C08, C11, C12; [Int = BigInt])

    Polynomials over Z handled modulo an integer [p]. Every routine mirrors the Rust
    function of the same name. The only panics of this file are: division by zero when
    the modulus is 0 ([%], [mod_floor], [div_floor] of BigInt), the explicit [panic!] of
    [poly_coprime_witness], the [usize] overflow of [0..deg + 1] in [poly_of_mod] on the
    zero polynomial (dev profile), the allocation of [usize::MAX] elements in
    [divide_by_x_a] on the zero polynomial, and the [debug_assert!] of [divide_by_x_a].
    [assert!(!b.dat[b_deg].is_zero())] of [poly_divrem] is kept although it cannot fire on
    a canonical list. Non-terminating recursions of the Rust code ([poly_gcd] when the
    leading coefficient of a divisor is not invertible) run out of fuel here. *)
From RNT.Model Require Import Base Poly.
Open Scope Z_scope.

(** ** Scalars *)

(** The loop of [modpow] (prim.rs:14-20) for [e > 0], by recursion on the binary digits of
    [e] ([e.is_odd()], [e = e.div_floor(2)]); [%] truncates. The modulus is non-zero here. *)
Fixpoint modpow_loop (e : positive) (product current m : Z) : Z :=
  match e with
  | xH => Z.rem (product * current) m
  | xO e' => modpow_loop e' product (Z.rem (current * current) m) m
  | xI e' => modpow_loop e' (Z.rem (product * current) m) (Z.rem (current * current) m) m
  end.

(** [modpow] (prim.rs:9-22): the result is [1] (not reduced) when [e <= 0]; with [e > 0]
    the first iteration already reduces modulo [modulus], hence the div-by-zero panic. *)
Definition modpow (x e m : Z) : outcome Z :=
  match e with
  | Zpos pe => if m =? 0 then Panic PDiv0 else Done (modpow_loop pe 1 x m)
  | _ => Done 1
  end.

(** [modinv] (prim.rs:24-27). *)
Definition modinv (x p : Z) : outcome Z := modpow x (p - 2) p.

(** [num_integer::Integer::extended_gcd] (default method, used by BigInt):
    [r = (other, self)], [s = (0,1)], [t = (1,0)], step [q = r.1 / r.0] (truncating),
    [(r.0, r.1) <- (r.1 - q * r.0, r.0)]; the result is normalised to [gcd >= 0]. *)
Fixpoint num_egcd_loop (fuel : nat) (r0 r1 s0 s1 t0 t1 : Z) : outcome (Z * Z * Z) :=
  match fuel with
  | O => OutOfFuel
  | S f =>
    if r0 =? 0 then
      if 0 <=? r1 then Done (r1, s1, t1) else Done (0 - r1, 0 - s1, 0 - t1)
    else
      let q := Z.quot r1 r0 in
      num_egcd_loop f (r1 - q * r0) r0 (s1 - q * s0) s0 (t1 - q * t0) t0
  end.

Definition num_egcd_fuel (b : Z) : nat := (2 * Z.to_nat (Z.log2 (Z.abs b) + 1) + 5)%nat.

(** [self.extended_gcd(other)] = (gcd, x, y) with [gcd = self * x + other * y]. *)
Definition num_extended_gcd (self other : Z) : outcome (Z * Z * Z) :=
  num_egcd_loop (num_egcd_fuel other) other self 0 1 1 0.

(** ** Coefficientwise maps *)

(** [poly_mod] (prim.rs:75-86): [mod_floor] of every coefficient, then [from_raw]. *)
Definition poly_mod (f : list Z) (p : Z) : outcome (list Z) :=
  match f with
  | [] => Done []
  | _ => if p =? 0 then Panic PDiv0 else Done (from_raw opsZ (map (fun c => c mod p) f))
  end.

(** [poly_div] (prim.rs:88-102): [div_floor]. *)
Definition poly_div (f : list Z) (d : Z) : outcome (list Z) :=
  match f with
  | [] => Done []
  | _ => if d =? 0 then Panic PDiv0 else Done (from_raw opsZ (map (fun c => c / d) f))
  end.

(** [poly_mul] (prim.rs:104-118). *)
Definition poly_mul (f : list Z) (m : Z) : list Z :=
  match f with
  | [] => []
  | _ => from_raw opsZ (map (fun c => c * m) f)
  end.

(** [poly_mod_sub] (prim.rs:189-195). *)
Definition poly_mod_sub (a b : list Z) (p : Z) : outcome (list Z) := poly_mod (psub opsZ a b) p.

(** [differential] (prim.rs:30-39). *)
Definition differential (f : list Z) (p : Z) : outcome (list Z) :=
  match f with
  | [] => Done []
  | _ => poly_mod (pdiff opsZ f) p
  end.

(** [poly_of_mod] (prim.rs:41-50): Horner with the truncating [%=]. [0..deg + 1] overflows
    for the zero polynomial ([deg = usize::MAX]); in release the range is empty. *)
Definition poly_of_mod (md : mode) (f : list Z) (a p : Z) : outcome Z :=
  do _ <- u64_norm md (pdeg f + 1);
  match f with
  | [] => Done 0
  | _ => if p =? 0 then Panic PDiv0
         else Done (fold_right (fun c sum => Z.rem (sum * a + c) p) 0 f)
  end.

(** ** Division with remainder modulo p *)

(** [tmp[j] -= coef * b[j]; tmp[j] = tmp[j].mod_floor(p)] for all [j < len b]. *)
Fixpoint sub_scaled_mod (tmp : list Z) (c : Z) (b : list Z) (p : Z) : list Z :=
  match tmp, b with
  | t :: tmp', y :: b' => ((t - c * y) mod p) :: sub_scaled_mod tmp' c b' p
  | _, _ => tmp
  end.

(** The same at offset [i]: [tmp[i + j]]. *)
Fixpoint sub_scaled_mod_at (tmp : list Z) (i : nat) (c : Z) (b : list Z) (p : Z) : list Z :=
  match i with
  | O => sub_scaled_mod tmp c b p
  | S i' => match tmp with
            | t :: tmp' => t :: sub_scaled_mod_at tmp' i' c b p
            | [] => []
            end
  end.

(** [for i in (0..a_deg - b_deg + 1).rev()] of [poly_divrem] (prim.rs:142-149);
    returns (quo, tmp). *)
Fixpoint divrem_loop (i : nat) (bdeg : nat) (b : list Z) (invlc p : Z) (tmp quo : list Z)
  : list Z * list Z :=
  let coef := (nth (i + bdeg) tmp 0 * invlc) mod p in
  let tmp' := sub_scaled_mod_at tmp i coef b p in
  match i with
  | O => (coef :: quo, tmp')
  | S i' => divrem_loop i' bdeg b invlc p tmp' (coef :: quo)
  end.

(** [poly_divrem] (prim.rs:122-151). *)
Definition poly_divrem (a b : list Z) (p : Z) : outcome (list Z * list Z) :=
  match a, b with
  | [], _ => Done (from_mono opsZ 0, a)
  | _, [] => Done (from_mono opsZ 0, a)
  | _, _ =>
    if (length a <? length b)%nat then Done (from_mono opsZ 0, a)
    else
      let lc := last b 0 in
      do _ <- assert_ (negb (lc =? 0));
      do invlc <- modinv lc p;
      if p =? 0 then Panic PDiv0
      else
        let '(q, r) := divrem_loop (length a - length b) (length b - 1) b invlc p a [] in
        Done (from_raw opsZ q, from_raw opsZ r)
  end.

(** Fuel for the Euclidean recursions: after at most one swap the degree of the second
    argument decreases strictly (when leading coefficients are invertible modulo p). *)
Definition gcd_fuel (a b : list Z) : nat := (length a + length b + 3)%nat.

(** [poly_gcd] (prim.rs:153-166). *)
Fixpoint poly_gcd_rec (fuel : nat) (a b : list Z) (p : Z) : outcome (list Z) :=
  match fuel with
  | O => OutOfFuel
  | S f =>
    do '(_, rem) <- poly_divrem a b p;
    match rem with
    | [] => Done b
    | _ => poly_gcd_rec f b rem p
    end
  end.
Definition poly_gcd (a b : list Z) (p : Z) : outcome (list Z) := poly_gcd_rec (gcd_fuel a b) a b p.

(** [poly_ext_gcd] (prim.rs:171-187): (g, u, v). *)
Fixpoint poly_ext_gcd_rec (fuel : nat) (a b : list Z) (p : Z)
  : outcome (list Z * list Z * list Z) :=
  match fuel with
  | O => OutOfFuel
  | S f =>
    do '(quo, rem) <- poly_divrem a b p;
    match rem with
    | [] => Done (b, rem, from_mono opsZ 1)
    | _ =>
      do '(g, u0, v0) <- poly_ext_gcd_rec f b rem p;
      do qv <- poly_mod (pmul opsZ quo v0) p;
      do v <- poly_mod_sub u0 qv p;
      Done (g, v0, v)
    end
  end.
Definition poly_ext_gcd (a b : list Z) (p : Z) : outcome (list Z * list Z * list Z) :=
  poly_ext_gcd_rec (gcd_fuel a b) a b p.

(** [poly_coprime_witness] (prim.rs:198-216). *)
Definition poly_coprime_witness (a b : list Z) (p : Z) : outcome (list Z * list Z) :=
  do '(g, u, v) <- poly_ext_gcd a b p;
  if negb (pdeg g =? 0) then Panic POther
  else
    do '(_, x, _) <- num_extended_gcd (coef_at opsZ g 0) p;
    if p =? 0 then Panic PDiv0
    else
      let inv := x mod p in
      do u' <- poly_mod (poly_mul u inv) p;
      do v' <- poly_mod (poly_mul v inv) p;
      Done (u', v').

(** ** Modular exponentiation of polynomials *)

(** One reduction [poly_divrem(&poly_mod(&(x * y), modulus), g, modulus).1]. *)
Definition mulmod (x y g : list Z) (m : Z) : outcome (list Z) :=
  do xy <- poly_mod (pmul opsZ x y) m;
  do '(_, r) <- poly_divrem xy g m;
  Done r.

(** The loop of [poly_modpow] (prim.rs:65-71) for [e > 0]. *)
Fixpoint poly_modpow_loop (e : positive) (product current g : list Z) (m : Z) : outcome (list Z) :=
  match e with
  | xH =>
    do product' <- mulmod product current g m;
    do _ <- mulmod current current g m;
    Done product'
  | xO e' =>
    do current' <- mulmod current current g m;
    poly_modpow_loop e' product current' g m
  | xI e' =>
    do product' <- mulmod product current g m;
    do current' <- mulmod current current g m;
    poly_modpow_loop e' product' current' g m
  end.

(** [poly_modpow] (prim.rs:52-73). *)
Definition poly_modpow (x : list Z) (e : Z) (g : list Z) (m : Z) : outcome (list Z) :=
  match e with
  | Zpos pe => poly_modpow_loop pe (from_mono opsZ 1) x g m
  | _ => Done (from_mono opsZ 1)
  end.

(** ** Synthetic division *)

(** The loop of [divide_by_x_a] (prim.rs:226-231) over the coefficients of index >= 1,
    highest first; returns the quotient coefficients and the carry (already multiplied by a). *)
Fixpoint dxa_loop (l : list Z) (a p : Z) : list Z * Z :=
  match l with
  | [] => ([], 0)
  | c :: t =>
    let '(cs, carry) := dxa_loop t a p in
    let carry1 := (carry + c) mod p in
    (carry1 :: cs, carry1 * a)
  end.

(** [divide_by_x_a] (prim.rs:218-236). On the zero polynomial [vec![0; usize::MAX]]
    panics with "capacity overflow". *)
Definition divide_by_x_a (md : mode) (f : list Z) (a p : Z) : outcome (list Z) :=
  match f with
  | [] => Panic POther
  | c0 :: rest =>
    if p =? 0 then Panic PDiv0
    else
      let '(coefs, carry) := dxa_loop rest a p in
      let carry' := (carry + c0) mod p in
      do _ <- debug_assert md (carry' =? 0);
      Done (from_raw opsZ coefs)
  end.

(** Equality of stored vectors ([PartialEq] of [Polynomial]). *)
Fixpoint zlist_eqb (a b : list Z) : bool :=
  match a, b with
  | [], [] => true
  | x :: a', y :: b' => (x =? y) && zlist_eqb a' b'
  | _, _ => false
  end.
