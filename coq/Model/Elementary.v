(** * Elementary helpers: src/inverse.rs, src/perfect_power.rs, src/prime.rs, src/factorize.rs,
      number-theory-elementary/src/{kronecker,primes}.rs  (C19, C13, C01 trial division) *)
From RNT.Model Require Import Base.
Open Scope Z_scope.

(** ** src/inverse.rs *)

(** [extgcd_division] (inverse.rs:15-23): recursive Euclid with truncating div_rem. *)
Fixpoint extgcd_division (fuel : nat) (a b : Z) : outcome (Z * Z * Z) :=
  match fuel with
  | O => OutOfFuel
  | S f =>
    if b =? 0 then Done (a, 1, 0)
    else
      let q := Z.quot a b in
      let r := Z.rem a b in
      do '(g, x, y) <- extgcd_division f b r;
      Done (g, y, x - q * y)
  end.

(** Enough fuel: the absolute value of the second argument at least halves every two calls. *)
Definition extgcd_fuel (b : Z) : nat := (2 * Z.to_nat (Z.log2 (Z.abs b) + 1) + 3)%nat.

Definition extgcd (a b : Z) : outcome (Z * Z * Z) := extgcd_division (extgcd_fuel b) a b.

(** [zmod] (inverse.rs:97-109): [x % mo] truncating, plus [mo] when negative. *)
Definition zmod (x mo : Z) : outcome Z :=
  do r <- zrem x mo;
  Done (if r <? 0 then r + mo else r).

Inductive inv_result := InvOk (x : Z) | InvErr (g : Z).

(** [inv] (inverse.rs:88-94). *)
Definition inv (a mo : Z) : outcome inv_result :=
  do '(g, x, _) <- extgcd a mo;
  if negb (Z.abs g =? 1) then Done (InvErr (Z.abs g))
  else do r <- zmod (x * g) mo; Done (InvOk r).

(** ** src/perfect_power.rs *)

(** Floor k-th root, built bit by bit from the top; stands for [BigInt::nth_root]
    (num's Newton iteration is not modelled; it is specified by r^k <= n < (r+1)^k). *)
Fixpoint iroot_loop (i : nat) (k n r : Z) : Z :=
  match i with
  | O => r
  | S i' =>
    let c := r + 2 ^ Z.of_nat i' in
    iroot_loop i' k n (if c ^ k <=? n then c else r)
  end.

Definition iroot (k n : Z) : Z := iroot_loop (Z.to_nat (zbits n / k + 1)) k n 0.

(** [is_perfect_power] (perfect_power.rs:20-27); [k >= 1], [n >= 0]. *)
Definition is_perfect_power (n k : Z) : option Z :=
  let x := iroot k n in if x ^ k =? n then Some x else None.

(** The downward search [for k in (2..=numbits).rev()]: [i] counts the exponents left, k = i + 1. *)
Fixpoint pp_search (i : nat) (n : Z) : Z * Z :=
  match i with
  | O => (n, 1)
  | S i' =>
    let k := Z.of_nat i' + 2 in
    match is_perfect_power n k with
    | Some b => (b, k)
    | None => pp_search i' n
    end
  end.

(** [perfect_power] (perfect_power.rs:3-18); the result exponent is a u32. *)
Definition perfect_power (n : Z) : outcome (Z * Z) :=
  if n <? 0 then Panic POther
  else if n <=? 1 then Done (n, 1)
  else Done (pp_search (Z.to_nat (zbits n - 1)) n).

(** ** number-theory-elementary/src/kronecker.rs (i64 arithmetic) *)

Definition recip_table (i : Z) : Z :=
  match i with 1 => 1 | 3 => -1 | 5 => -1 | 7 => 1 | _ => 0 end.

(** [while (x & 1) == 0 { v += 1; x /= 2 }] for x <> 0; returns (v, x). *)
Fixpoint strip2 (fuel : nat) (v x : Z) : outcome (Z * Z) :=
  match fuel with
  | O => OutOfFuel
  | S f => if Z.land x 1 =? 0 then strip2 f (v + 1) (Z.quot x 2) else Done (v, x)
  end.

(** Main loop (kronecker.rs:34-52). *)
Fixpoint kron_loop (fuel : nat) (m : mode) (a b k : Z) : outcome Z :=
  match fuel with
  | O => OutOfFuel
  | S f =>
    if a =? 0 then Done (if b =? 1 then k else 0)
    else
      do '(v, a1) <- strip2 65 0 a;
      let k1 := if Z.rem v 2 =? 1 then k * recip_table (Z.land b 7) else k in
      let k2 := if negb (Z.land (Z.land a1 b) 2 =? 0) then - k1 else k1 in
      do r <- i64_norm m (Z.abs a1);          (* a.abs(): overflows for i64::MIN *)
      do a2 <- zrem b r;
      kron_loop f m a2 r k2
  end.

Definition kronecker (m : mode) (a b : Z) : outcome Z :=
  if b =? 0 then Done (if (a =? 1) || (a =? -1) then 1 else 0)
  else if Z.land (Z.lor a b) 1 =? 0 then Done 0
  else
    do '(v, b1) <- strip2 65 0 b;
    let k := if Z.rem v 2 =? 1 then recip_table (Z.land a 7) else 1 in
    do '(b2, k1) <- (if b1 <? 0
                     then do nb <- i64_norm m (- b1); Done (nb, if a <? 0 then - k else k)
                     else Done (b1, k));
    kron_loop 200 m a b2 k1.

(** ** number-theory-elementary/src/primes.rs *)

(** [is_prime[idx] = false]. *)
Fixpoint clear_at (l : list bool) (idx : nat) : list bool :=
  match l, idx with
  | [], _ => []
  | _ :: t, O => false :: t
  | h :: t, S i => h :: clear_at t i
  end.

(** [for j in j0 .. j0 + cnt { arr[i * j] = false }]. *)
Fixpoint mark_multiples (cnt : nat) (i j : nat) (arr : list bool) : list bool :=
  match cnt with
  | O => arr
  | S c => mark_multiples c i (S j) (clear_at arr (i * j))
  end.

(** [for i in i0 .. i0 + cnt] of the sieve (primes.rs:8-15). *)
Fixpoint sieve_loop (cnt : nat) (bound i : nat) (arr : list bool) : list bool :=
  match cnt with
  | O => arr
  | S c =>
    let arr' := if nth i arr false
                then mark_multiples (bound / i - 1) i 2 arr
                else arr in
    sieve_loop c bound (S i) arr'
  end.

Definition sieve (bound : nat) : list bool :=
  let arr := repeat true (S bound) in
  let arr := clear_at arr 0 in
  let arr := if (1 <=? bound)%nat then clear_at arr 1 else arr in
  sieve_loop (bound - 1) bound 2 arr.

(** [primes] (primes.rs:1-17): indices 2..=bound whose flag is still set. *)
Definition primes (bound : nat) : list nat :=
  let arr := sieve bound in
  filter (fun i => nth i arr false) (seq 2 (bound - 1)).

(** Trial-division [is_prime] (primes.rs:19-32). *)
Fixpoint td_loop (fuel : nat) (a d : Z) : outcome bool :=
  match fuel with
  | O => OutOfFuel
  | S f =>
    if d * d <=? a then
      if Z.rem a d =? 0 then Done false else td_loop f a (d + 1)
    else Done true
  end.

Definition td_is_prime (a : Z) : outcome bool :=
  if a <=? 1 then Done false else td_loop (Z.to_nat (Z.sqrt a) + 1) a 2.

(** [Primes::next] (primes.rs:50-59): returns (item, new state). *)
Fixpoint primes_next (fuel : nat) (now : Z) : outcome (Z * Z) :=
  match fuel with
  | O => OutOfFuel
  | S f =>
    do b <- td_is_prime now;
    if b then Done (now, now + 1) else primes_next f (now + 1)
  end.

(** [Primes::new().take(k)]. Fuel for one [next]: a prime exists below 2*now (Bertrand),
    the model simply supplies [now + 2] steps. *)
Fixpoint primes_take (k : nat) (now : Z) : outcome (list Z) :=
  match k with
  | O => Done []
  | S k' =>
    do '(p, now') <- primes_next (Z.to_nat now + 2) now;
    do rest <- primes_take k' now';
    Done (p :: rest)
  end.

(** ** src/prime.rs: Miller-Rabin with 20 random bases *)

(** [BigInt::modpow] for a positive modulus: binary exponentiation. *)
Fixpoint modpow_pos (b : Z) (e : positive) (m : Z) : Z :=
  match e with
  | xH => b mod m
  | xO e' => let h := modpow_pos b e' m in (h * h) mod m
  | xI e' => let h := modpow_pos b e' m in (((h * h) mod m) * b) mod m
  end.

Definition modpow (b e m : Z) : Z :=
  match e with
  | Z0 => 1 mod m
  | Zpos p => modpow_pos b p m
  | Zneg _ => 0
  end.

(** [while !d.bit(0) { d >>= 1; c += 1 }] for d > 0. *)
Fixpoint split_pow2 (fuel : nat) (d c : Z) : Z * Z :=
  match fuel with
  | O => (d, c)
  | S f => if Z.even d then split_pow2 f (d / 2) (c + 1) else (d, c)
  end.

(** Inner loop of one round (prime.rs:36-46): [Some true] = this round passed
    ("aborted" at n-1), [Some false] = composite found, [None] = loop ran out. *)
Fixpoint mr_inner (c : nat) (tmp n : Z) : bool + Z :=
  match c with
  | O => inr tmp
  | S c' =>
    if tmp =? n - 1 then inl true
    else
      let tmp' := modpow tmp 2 n in
      if tmp' =? 1 then inl false else mr_inner c' tmp' n
  end.

Fixpoint mr_rounds (k : nat) (n d : Z) (c : nat) (r : rng) : outcome (bool * rng) :=
  match k with
  | O => Done (true, r)
  | S k' =>
    do '(a, r1) <- gen_range draw_fuel 1 n r;
    let tmp := modpow a d n in
    if tmp =? 1 then mr_rounds k' n d c r1
    else match mr_inner c tmp n with
         | inl true => mr_rounds k' n d c r1
         | inl false => Done (false, r1)
         | inr t => if negb (t =? 1) then Done (false, r1) else mr_rounds k' n d c r1
         end
  end.

(** [is_prime] (prime.rs:4-54). *)
Definition is_prime (n : Z) (r : rng) : outcome (bool * rng) :=
  if n <=? 1 then Done (false, r)
  else if n =? 2 then Done (true, r)
  else if Z.even n then Done (false, r)
  else
    let '(d, c) := split_pow2 (Z.to_nat (zbits n)) (n - 1) 0 in
    mr_rounds 20 n d (Z.to_nat c) r.

(** ** src/factorize.rs: trial division *)

(** [while n % p == 0 { e += 1; n /= p }]. *)
Fixpoint divide_out (fuel : nat) (n p e : Z) : outcome (Z * Z) :=
  match fuel with
  | O => OutOfFuel
  | S f => if Z.rem n p =? 0 then divide_out f (Z.quot n p) p (e + 1) else Done (n, e)
  end.

Fixpoint trial_loop (fuel : nat) (n p : Z) (acc : list (Z * Z)) : outcome (list (Z * Z)) :=
  match fuel with
  | O => OutOfFuel
  | S f =>
    if p * p <=? n then
      do '(n1, e) <- divide_out (Z.to_nat (zbits n) + 1) n p 0;
      trial_loop f n1 (p + 1) (if 0 <? e then acc ++ [(p, e)] else acc)
    else Done (if 1 <? n then acc ++ [(n, 1)] else acc)
  end.

(** [factorize] (factorize.rs:5-24); exponents are u64 (never near the limit). *)
Definition trial_factorize (n : Z) : outcome (list (Z * Z)) :=
  do _ <- assert_ (1 <=? n);
  trial_loop (Z.to_nat (Z.sqrt n) + 2) n 2 [].
