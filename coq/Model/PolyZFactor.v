(** * PolyZFactor: src/poly_z/mod.rs  (C07)

    [factorize] (content, squarefree part through [resultant_gcd(a, a')], the factors of the
    squarefree part, multiplicities by repeated exact division) and
    [get_factors_of_squarefree] (coefficient bound, first good prime from the [Primes]
    iterator, exponent loop, factorisation modulo p with the draw stream, Hensel lifting,
    subset recombination with symmetric residues).

    Besides what the Rust routine returns, [factorize_full] also returns the *final
    cofactor*: the polynomial left in the variable [a] after all exact divisions of the
    multiplicity loops (a ghost result, used by the conditional product theorem of C07). *)
From RNT.Model Require Import Base Poly PolyModP FactorModP Hensel.
From RNT.Model Require Elementary Resultant.
Open Scope Z_scope.

(** ** The coefficient bound (mod.rs:45-55) *)

(** [sum = |a_n|; for i in 0..n + 1 { sum += |a_i| }]; [bound = sum; for _ in 0..n - 1
    { bound *= 2 }; bound = bound * 2 * |a_n|]. [n = a.deg()] is [usize::MAX] for the zero
    polynomial: [n + 1] overflows (dev profile) or wraps to an empty range (release);
    [n - 1] underflows for a constant. A wrapped count of 2^32 or more doublings of a
    BigInt does not return in any reasonable time (or exhausts the memory): out of fuel. *)
Definition abs_sum (a : list Z) (init : Z) : Z := fold_left (fun s c => s + Z.abs c) a init.

Definition coef_bound (md : mode) (a : list Z) : outcome Z :=
  let n := pdeg a in
  let lc := lead opsZ a in                 (* a.coef_at(n): 0 when n is past the end *)
  do _ <- u64_norm md (n + 1);
  let sum := abs_sum a (Z.abs lc) in
  do nm1 <- u64_norm md (n - 1);
  if 4294967296 <=? nm1 then OutOfFuel
  else Done (sum * 2 ^ nm1 * 2 * Z.abs lc).

(** ** The prime search (mod.rs:57-73) *)

(** [now as i32] *)
Definition as_i32 (x : Z) : Z := (x + 2147483648) mod 4294967296 - 2147483648.

(** [BigInt::is_multiple_of] (num-bigint 0.4.4): [x.is_multiple_of(0)] is [x == 0]. *)
Definition is_multiple_of (x m : Z) : bool :=
  if m =? 0 then x =? 0 else Z.rem x m =? 0.

(** [for now in Primes::new()]: [state] is the iterator's field [now]. Returns [(p, pusize)]. *)
Fixpoint find_prime (fuel : nat) (a : list Z) (state : Z) : outcome (Z * Z) :=
  match fuel with
  | O => OutOfFuel
  | S f =>
    do '(now, state') <- Elementary.primes_next (Z.to_nat state + 2) state;
    let nowint := as_i32 now in
    if is_multiple_of (lead opsZ a) nowint then find_prime f a state'
    else
      do am <- poly_mod a nowint;
      do amp <- differential am nowint;
      do g <- poly_gcd am amp nowint;
      if pdeg g =? 0 then Done (nowint, now) else find_prime f a state'
  end.

(** Number of primes tried: the primes dividing [lc(a) * disc(a)] are fewer than
    [log2 |lc(a) * disc(a)| <= (2n - 1) log2 ||a||_1 + n log2 n] (Hadamard). *)
Definition prime_fuel (a : list Z) : nat :=
  (2 * length a * (Z.to_nat (Z.log2 (abs_sum a 0))
                   + Z.to_nat (Z.log2 (Z.of_nat (length a))) + 2) + 8)%nat.

(** ** The exponent loop (mod.rs:74-79): [while pe <= bound { pe *= p; e += 1 }] *)
Fixpoint exp_loop (fuel : nat) (pe p bound e : Z) : outcome (Z * Z) :=
  match fuel with
  | O => OutOfFuel
  | S f => if pe <=? bound then exp_loop f (pe * p) p bound (e + 1) else Done (pe, e)
  end.

(** [p >= 2]: at most [log2 bound + 1] multiplications. *)
Definition exp_fuel (bound : Z) : nat := (Z.to_nat (Z.log2 bound) + 3)%nat.

(** ** Subset recombination (mod.rs:85-122) *)

(** [for i in 0..lifted.len() { if bit i { prod = poly_mod(&(&prod * &lifted[i]), &pe) } }]
    for the set bits [idx] (ascending). *)
Fixpoint subset_prod (lifted : list (list Z)) (idx : list nat) (prod : list Z) (pe : Z)
  : outcome (list Z) :=
  match idx with
  | [] => Done prod
  | i :: rest =>
    do li <- nth_chk lifted i;
    do prod' <- poly_mod (pmul opsZ prod li) pe;
    subset_prod lifted rest prod' pe
  end.

(** [bias = from_raw(vec![pe2; prod.deg() + 1]); prod = poly_mod(&(&prod + &bias), &pe) - bias]
    (mod.rs:104-105): coefficients moved to [-pe/2, pe/2). [prod.deg() + 1] overflows for the
    zero polynomial (dev profile; an empty vector in release). *)
Definition symmetric (md : mode) (prod : list Z) (pe pe2 : Z) : outcome (list Z) :=
  do _ <- u64_norm md (pdeg prod + 1);
  let bias := from_raw opsZ (repeat pe2 (length prod)) in
  do t <- poly_mod (padd opsZ prod bias) pe;
  Done (psub opsZ t bias).

(** The body of the [for bits] loop for one mask with [d] bits set (mod.rs:96-113):
    [None] = [continue]; [Some (ppprod, a')] = a factor was split off. *)
Definition try_subset (md : mode) (a : list Z) (lca pe pe2 : Z) (lifted : list (list Z))
           (idx : list nat) : outcome (option (list Z * list Z)) :=
  do prod0 <- subset_prod lifted idx (from_mono opsZ lca) pe;
  do prod <- symmetric md prod0 pe pe2;
  let alca := PolyModP.poly_mul a lca in
  match div_exact alca prod with
  | None => Done None
  | Some _ =>
    let ppprod := snd (cont_pp prod) in
    match div_exact a ppprod with
    | None => Panic PUnwrap                 (* expect("This division will always succeed") *)
    | Some a' => Done (Some (ppprod, a'))
    end
  end.

(** [for bits in 0usize..1 << len { if bits.count_ones() != d { continue } ... }]: the masks
    with exactly [d] of the bits [0..m) set, in increasing numerical order, are enumerated
    without a counter running to [2^len]: all masks without bit [m-1] come before all masks
    with bit [m-1]. [acc] holds the (larger) indices already chosen, ascending. The first mask
    on which [test] answers [Some] (or panics) ends the search. The [m < d] test only prunes
    branches that contain no mask. *)
Fixpoint find_subset {R : Type} (m d : nat) (acc : list nat)
         (test : list nat -> outcome (option R)) {struct m} : outcome (option (list nat * R)) :=
  match d with
  | O => do r <- test acc;
         Done (match r with Some x => Some (acc, x) | None => None end)
  | S d' =>
    match m with
    | O => Done None
    | S m' =>
      if (m <? d)%nat then Done None
      else
        do r <- find_subset m' d acc test;
        match r with
        | Some x => Done (Some x)
        | None => find_subset m' d' (m' :: acc) test
        end
    end
  end.

(** [for i in (0..lifted.len()).rev() { if bit i { lifted.remove(i) } }] *)
Fixpoint remove_indices {A : Type} (l : list A) (i : nat) (idx : list nat) : list A :=
  match l with
  | [] => []
  | x :: t => if existsb (Nat.eqb i) idx then remove_indices t (S i) idx
              else x :: remove_indices t (S i) idx
  end.

(** ['outer: while 2 * d <= lifted.len()] (mod.rs:89-122) followed by [result.push(a)]. *)
Fixpoint recombine (fuel : nat) (md : mode) (pe pe2 : Z) (d : nat) (a : list Z)
         (lifted result : list (list Z)) : outcome (list (list Z)) :=
  match fuel with
  | O => OutOfFuel
  | S f =>
    if (2 * d <=? length lifted)%nat then
      do _ <- assert_ (length lifted <=? 25)%nat;
      let lca := lead opsZ a in               (* a.coef_at(a.deg()) *)
      do r <- find_subset (length lifted) d [] (try_subset md a lca pe pe2 lifted);
      match r with
      | Some (idx, (ppprod, a')) =>
        recombine f md pe pe2 d a' (remove_indices lifted 0 idx) (result ++ [ppprod])
      | None => recombine f md pe pe2 (S d) a lifted result
      end
    else Done (result ++ [a])
  end.

(** Every iteration either removes at least one lifted factor or increments [d <= len / 2]. *)
Definition recombine_fuel (lifted : list (list Z)) : nat := (2 * length lifted + 2)%nat.

(** ** [get_factors_of_squarefree] (mod.rs:43-125) *)
Definition get_factors_of_squarefree (md : mode) (a : list Z) (r : rng)
  : outcome (list (list Z) * rng) :=
  do bound <- coef_bound md a;
  do '(p, pusize) <- find_prime (prime_fuel a) a 2;
  do '(pe, e) <- exp_loop (exp_fuel bound) 1 p bound 0;
  let pe2 := Z.quot pe 2 in
  do '(factors, r1) <- factorize_mod_p md a p pusize r;
  do _ <- assert_ (forallb (fun fe => snd fe =? 1) factors);
  let factors := map fst factors in
  do lifted <- lift_factorization p e a factors;
  do res <- recombine (recombine_fuel lifted) md pe pe2 1 a lifted [];
  Done (res, r1).

(** ** [factorize] (mod.rs:11-40) *)

(** [while let Some(quo) = div_exact(&a, &factor) { a = quo; e += 1 }]: returns the new [a]
    and [e]. A non-constant [factor] divides at most [deg a] times; a constant one divides
    for ever (the Rust loop does not terminate): out of fuel. *)
Fixpoint mult_loop (fuel : nat) (a factor : list Z) (e : Z) : outcome (list Z * Z) :=
  match fuel with
  | O => OutOfFuel
  | S f =>
    match div_exact a factor with
    | Some quo => mult_loop f quo factor (e + 1)
    | None => Done (a, e)
    end
  end.

(** [for factor in factors] (mod.rs:31-38): returns the final [a] and [result]. *)
Fixpoint extract_all (factors : list (list Z)) (a : list Z) (result : list (list Z * Z))
  : outcome (list Z * list (list Z * Z)) :=
  match factors with
  | [] => Done (a, result)
  | factor :: rest =>
    do '(a', e) <- mult_loop (length a + 1) a factor 0;
    extract_all rest a' (result ++ [(factor, e)])
  end.

(** [factorize] with the ghost cofactor: (content, factors, final cofactor, draw stream). The
    exactness flag of [resultant_gcd] (a ghost of the C10 model) is dropped. *)
Definition factorize_full (md : mode) (a : list Z) (r : rng)
  : outcome (Z * list (list Z * Z) * list Z * rng) :=
  match a with
  | [] => Done (0, [], from_mono opsZ 1, r)
  | _ =>
    let '(conta, ppa) := cont_pp a in
    if pdeg a =? 0 then Done (conta, [], ppa, r)
    else
      let a1 := ppa in
      let a_p := pdiff opsZ a1 in
      do gcd <- snd (Resultant.resultant_gcd a1 a_p);
      do sqfree <- (if negb (pdeg gcd =? 0) then
                      match div_exact a1 gcd with
                      | Some q => Done q
                      | None => Panic PUnwrap   (* expect("This division cannot fail") *)
                      end
                    else Done a1);
      do '(factors, r1) <- get_factors_of_squarefree md sqfree r;
      do '(cof, result) <- extract_all factors a1 [];
      Done (conta, result, cof, r1)
  end.

Definition factorize (md : mode) (a : list Z) (r : rng)
  : outcome (Z * list (list Z * Z) * rng) :=
  do '(c, l, _, r1) <- factorize_full md a r;
  Done (c, l, r1).
