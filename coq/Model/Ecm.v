(** * ECM, sequential: src/ecm.rs  (C01) *)
From RNT.Model Require Import Base Elementary.
Open Scope Z_scope.

(** [Result<T, BigInt>]: the error value is the divisor candidate produced by a failed inversion. *)
Inductive res (A : Type) : Type :=
| ROk (a : A)
| RErr (g : Z).
Arguments ROk {A} a.
Arguments RErr {A} g.

(** Rust's [?] inside a function returning [Result<_, BigInt>]. *)
Definition rbind {A B} (e : outcome (res A)) (f : A -> outcome (res B)) : outcome (res B) :=
  bind e (fun r => match r with ROk a => f a | RErr g => Done (RErr g) end).
Notation "'dor' x <- e ; f" := (rbind e (fun x => f))
  (at level 200, x pattern, e at level 100, f at level 200, right associativity) : outcome_scope.

(** Projective point (ecm.rs:156-162). *)
Record Point := mkPoint { px : Z; py : Z; pz : Z }.

(** [struct Ell] (ecm.rs:164-171). *)
Record Ell := mkEll { ea : Z; en : Z }.

(** [Point::inf] (ecm.rs:230-236), [is_inf] (ecm.rs:237-239). *)
Definition inf : Point := mkPoint 0 1 0.
Definition is_inf (p : Point) : bool := pz p =? 0.

(** [Point::simplify] (ecm.rs:240-253). *)
Definition simplify (p : Point) (c : Ell) : outcome (res Point) :=
  if pz p =? 0 then Done (ROk inf)
  else
    let n := en c in
    do r <- inv (pz p) n;
    match r with
    | InvErr g => Done (RErr g)
    | InvOk invz =>
      do x <- zrem (px p * invz) n;
      do y <- zrem (py p * invz) n;
      Done (ROk (mkPoint x y 1))
    end.

(** The un-normalised sum of two finite points (ecm.rs:181-212 without the final
    [simplify]; the same text appears in ecm_parallel.rs:195-226). [None] = the
    "y1 + y2 = 0 mod n" exit to the point at infinity. *)
Definition add_raw (p q : Point) (c : Ell) : outcome (option Point) :=
  let xdif := px p - px q in
  let n := en c in
  if xdif =? 0 then
    do s <- zrem (py p + py q) n;
    if s =? 0 then Done None
    else
      let lambda := px p * px p * 3 + ea c in
      do lambda <- zrem lambda n;
      do den <- zrem (py p * 2) n;
      do den2 <- zrem (den * den) n;
      do den3 <- zrem (den2 * den) n;
      let x3 := lambda * lambda - (px p * 2) * den2 in
      let y3 := lambda * (px p * den2 - x3) in
      let y3 := y3 - py p * den3 in
      do x <- zmod (x3 * den) n;
      do y <- zmod y3 n;
      Done (Some (mkPoint x y den3))
  else
    do lambda <- zmod (py p - py q) n;
    do xdif2 <- zrem (xdif * xdif) n;
    do xdif3 <- zrem (xdif2 * xdif) n;
    let x3 := lambda * lambda - (px p + px q) * xdif2 in
    let y3 := lambda * (px p * xdif2 - x3) in
    let y3 := y3 - py p * xdif3 in
    do x <- zmod (x3 * xdif) n;
    do y <- zmod y3 n;
    Done (Some (mkPoint x y xdif3)).

(** [Point::add] (ecm.rs:174-214). *)
Definition add (p q : Point) (c : Ell) : outcome (res Point) :=
  if is_inf p then Done (ROk q)
  else if is_inf q then Done (ROk p)
  else
    do r <- add_raw p q c;
    match r with
    | None => Done (ROk inf)
    | Some s => simplify s c
    end.

(** [Point::mul] (ecm.rs:215-229): [while e > 0] with the early break. *)
Fixpoint mul_loop (fuel : nat) (sum cur : Point) (e : Z) (c : Ell) : outcome (res Point) :=
  match fuel with
  | O => OutOfFuel
  | S f =>
    if 0 <? e then
      dor sum1 <- (if Z.rem e 2 =? 1 then add sum cur c else Done (ROk sum));
      let e1 := Z.quot e 2 in
      if e1 =? 0 then Done (ROk sum1)
      else
        dor cur1 <- add cur cur c;
        mul_loop f sum1 cur1 e1 c
    else Done (ROk sum)
  end.

Definition mul_fuel (e : Z) : nat := Z.to_nat (zbits e + 1).

Definition mul (p : Point) (e : Z) (c : Ell) : outcome (res Point) :=
  mul_loop (mul_fuel e) inf p e c.

(** Stage 1 (ecm.rs:127-132): [for k in 1..b1 + 1]; [cnt] iterations left, current multiplier [k].
    [ROk (Some pt)] = loop ran to its end, [ROk None] = [return Ok(())] at infinity. *)
Fixpoint stage1 (cnt : nat) (k : Z) (pt : Point) (c : Ell) : outcome (res (option Point)) :=
  match cnt with
  | O => Done (ROk (Some pt))
  | S cnt' =>
    dor pt1 <- mul pt k c;
    if is_inf pt1 then Done (ROk None)
    else stage1 cnt' (k + 1) pt1 c
  end.

(** [b1.saturating_sub(1) / 6 * 6 + 1] and [((b1 + 1) / 6 * 6).max(6) - 1] (ecm.rs:134), u64. *)
Definition stage2_inits (m : mode) (b1 : Z) : outcome (Z * Z) :=
  let s := if b1 - 1 <? 0 then 0 else b1 - 1 in            (* saturating_sub *)
  do t1 <- u64_norm m (Z.quot s 6 * 6);
  do i1 <- u64_norm m (t1 + 1);
  do s2 <- u64_norm m (b1 + 1);
  do t2 <- u64_norm m (Z.quot s2 6 * 6);
  do i2 <- u64_norm m (Z.max t2 6 - 1);
  Done (i1, i2).

(** [while cur_e <= b2 { cur_e += 6; pt = pt.add(&p6)?; if inf return }] (ecm.rs:145-151). *)
Fixpoint stage2_loop (fuel : nat) (m : mode) (cur_e b2 : Z) (pt p6 : Point) (c : Ell)
  : outcome (res (option Point)) :=
  match fuel with
  | O => OutOfFuel
  | S f =>
    if cur_e <=? b2 then
      do cur1 <- u64_norm m (cur_e + 6);
      dor pt1 <- add pt p6 c;
      if is_inf pt1 then Done (ROk None)
      else stage2_loop f m cur1 b2 pt1 p6 c
    else Done (ROk (Some pt))
  end.

(** Iterations of the stage-2 loop when nothing wraps: cur_e = init, init+6, ... while <= b2. *)
Definition stage2_fuel (init b2 : Z) : nat := Z.to_nat (Z.max 0 ((b2 - init) / 6) + 3).

(** Body of [for &init in ...] (ecm.rs:135-151). *)
Definition stage2_one (m : mode) (init b2 : Z) (pt : Point) (c : Ell) : outcome (res (option Point)) :=
  dor p2 <- add pt pt c;
  dor p4 <- add p2 p2 c;
  dor p6 <- add p2 p4 c;
  dor pt1 <- mul pt init c;
  if is_inf pt1 then Done (ROk None)
  else stage2_loop (stage2_fuel init b2) m init b2 pt1 p6 c.

(** [ecm_oneshot] (ecm.rs:126-154). [ROk tt] = no divisor from this curve. *)
Definition ecm_oneshot (m : mode) (pt : Point) (c : Ell) (b1 b2 : Z) : outcome (res unit) :=
  do hi <- u64_norm m (b1 + 1);
  dor s1 <- stage1 (Z.to_nat (hi - 1)) 1 pt c;
  match s1 with
  | None => Done (ROk tt)
  | Some pt1 =>
    do '(i1, i2) <- stage2_inits m b1;
    dor s2 <- stage2_one m i1 b2 pt1 c;
    match s2 with
    | None => Done (ROk tt)
    | Some pt2 =>
      dor s3 <- stage2_one m i2 b2 pt2 c;
      Done (ROk tt)
    end
  end.

(** [debug_assert!(!prime::is_prime(n))] (ecm.rs:88): runs (and draws) only in the dev profile. *)
Definition ecm_precheck (m : mode) (n : Z) (r : rng) : outcome rng :=
  match m with
  | Checked => do '(b, r1) <- is_prime n r; do _ <- assert_ (negb b); Done r1
  | Wrapping => Done r
  end.

(** The curve loop (ecm.rs:96-123); [count] is a u64 that counts curves (never near 2^64). *)
Fixpoint ecm_loop (fuel : nat) (m : mode) (n b1 b2 : Z) (count : Z) (r : rng)
  : outcome (Z * Z * rng) :=
  match fuel with
  | O => OutOfFuel
  | S f =>
    let count := count + 1 in
    do '(a, r1) <- gen_range draw_fuel 1 n r;
    do '(x, r2) <- gen_range draw_fuel 1 n r1;
    do '(y, r3) <- gen_range draw_fuel 1 n r2;
    do o <- ecm_oneshot m (mkPoint x y 1) (mkEll a n) b1 b2;
    match o with
    | RErr fac =>
      if (fac =? 1) || (fac =? n) then ecm_loop f m n b1 b2 count r3
      else
        do rm <- match m with Checked => zrem n fac | Wrapping => Done 0 end;
        do _ <- debug_assert m (rm =? 0);
        Done (fac, count, r3)
    | ROk _ => ecm_loop f m n b1 b2 count r3
    end
  end.

(** [ecm] (ecm.rs:87-124): returns (divisor, number of curves, remaining draws). *)
Definition ecm (fuel : nat) (m : mode) (n b1 b2 : Z) (r : rng) : outcome (Z * Z * rng) :=
  do r0 <- ecm_precheck m n r;
  ecm_loop fuel m n b1 b2 0 r0.

(** [*map.entry(now).or_insert(0) += multiplicity] on a HashMap that is sorted at the end
    (ecm.rs:34, 61-62): association list kept sorted by key. *)
Fixpoint map_add (p e : Z) (l : list (Z * Z)) : list (Z * Z) :=
  match l with
  | [] => [(p, e)]
  | (q, f) :: t =>
    if p <? q then (p, e) :: l
    else if p =? q then (q, f + e) :: t
    else (q, f) :: map_add p e t
  end.

(** [b.saturating_mul(100)] (ecm.rs:48). *)
Definition sat_mul100 (b : Z) : Z := if b * 100 <? two64 then b * 100 else two64 - 1.

(** The work-stack loop (ecm.rs:29-60), generic in the [ecm] routine so that ecm_parallel.rs:26-57
    (the same text) shares it. The stack is a list whose head is the top. Multiplicities and the
    curve count are u64; they are bounded by the bit length of x resp. the work done and are kept
    as plain integers. *)
Section Driver.
  Variable ecm_fn : Z -> Z -> Z -> rng -> outcome (Z * Z * rng).   (* n b1 b2 draws *)

  Fixpoint driver_loop (fuel : nat) (b1 : Z) (stack : list (Z * Z)) (map : list (Z * Z))
           (count : Z) (r : rng) : outcome (list (Z * Z) * Z * rng) :=
    match fuel with
    | O => OutOfFuel
    | S f =>
      match stack with
      | [] => Done (map, count, r)
      | (now, mult) :: rest =>
        if now <=? 1 then driver_loop f b1 rest map count r
        else
          do '(isp, r1) <- is_prime now r;
          if isp then driver_loop f b1 rest (map_add now mult map) count r1
          else
            do '(b, k) <- perfect_power now;
            if 2 <=? k then driver_loop f b1 ((b, mult * k) :: rest) map count r1
            else
              do '(fac, nowcount, r2) <- ecm_fn now b1 (sat_mul100 b1) r1;
              let count := count + nowcount in
              if fac =? 1 then driver_loop f b1 ((now, mult) :: rest) map count r2
              else
                do other <- zquot now fac;
                driver_loop f b1 ((other, mult) :: (fac, mult) :: rest) map count r2
      end
    end.

  (** Pops of the work stack: every split strictly shrinks the entries; 4 per bit is ample. *)
  Definition driver_fuel (x : Z) : nat := Z.to_nat (4 * zbits x + 8).

  (** [factorize_verbose] (ecm.rs:19-64) with B1 = [select_b x] supplied by the caller
      ([select_b] uses f64 ln/exp/sqrt and is not modelled). *)
  Definition factorize_gen (x b1 : Z) (r : rng) : outcome (list (Z * Z) * Z * rng) :=
    if x <=? 0 then Panic POther
    else driver_loop (driver_fuel x) b1 [(x, 1)] [] 0 r.
End Driver.

(** [ecm::factorize_verbose]; [cfuel] bounds the number of curves tried per call of [ecm]. *)
Definition factorize_verbose (cfuel : nat) (m : mode) (x b1 : Z) (r : rng)
  : outcome (list (Z * Z) * Z * rng) :=
  factorize_gen (fun n b1 b2 r => ecm cfuel m n b1 b2 r) x b1 r.
