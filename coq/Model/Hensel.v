(** * Hensel: src/poly_mod/hensel.rs  (C11; [Int = BigInt]) *)
From RNT.Model Require Import Base Poly PolyModP.
Open Scope Z_scope.

(** [hensel_lift] (hensel.rs:21-44), Cohen 3.5.5; returns (a1, b1, q * r). [p.gcd(q)] of
    BigInt is the non-negative gcd. *)
Definition hensel_lift (p q : Z) (c a b u v : list Z) : outcome (list Z * list Z * Z) :=
  let r := Z.gcd p q in
  do cq <- poly_div (psub opsZ c (pmul opsZ a b)) q;
  do f <- poly_mod cq r;
  do '(t, _) <- poly_divrem (pmul opsZ v f) a r;
  let a0 := psub opsZ (pmul opsZ v f) (pmul opsZ a t) in
  let b0 := padd opsZ (pmul opsZ u f) (pmul opsZ b t) in
  let qr := q * r in
  do a1 <- poly_mod (padd opsZ a (poly_mul a0 q)) qr;
  do b1 <- poly_mod (padd opsZ b (poly_mul b0 q)) qr;
  Done (a1, b1, qr).

(** [for factor in factors { current = poly_mod(current * factor, q); accumulated.push(current) }]
    (hensel.rs:63-68). *)
Fixpoint accumulate (factors : list (list Z)) (current : list Z) (q : Z) : outcome (list (list Z)) :=
  match factors with
  | [] => Done []
  | f :: rest =>
    do cur <- poly_mod (pmul opsZ current f) q;
    do acc <- accumulate rest cur q;
    Done (cur :: acc)
  end.

(** [for i in (1..n).rev()] (hensel.rs:71-76): [i = cnt] down to 1; returns (result, product),
    [result] in push order. *)
Fixpoint lift_down (cnt : nat) (p q : Z) (accumulated factors : list (list Z)) (product : list Z)
         (result : list (list Z)) : outcome (list (list Z) * list Z) :=
  match cnt with
  | O => Done (result, product)
  | S i' =>
    do acc <- nth_chk accumulated i';
    do fi <- nth_chk factors (S i');
    do '(u, v) <- poly_coprime_witness acc fi p;
    do '(a1, b1, _) <- hensel_lift p q product acc fi u v;
    lift_down i' p q accumulated factors a1 (result ++ [b1])
  end.

(** [hensel_lift_multiple] (hensel.rs:49-81). *)
Definition hensel_lift_multiple (p q : Z) (c : list Z) (factors : list (list Z))
  : outcome (list (list Z) * Z) :=
  match factors with
  | [] => Done ([], q * Z.gcd p q)
  | _ =>
    do accumulated <- accumulate factors (from_mono opsZ 1) q;
    do '(result, product) <- lift_down (length factors - 1) p q accumulated factors c [];
    Done (rev (result ++ [product]), q * Z.gcd p q)
  end.

(** [for _ in 1..e] (hensel.rs:101-108). *)
Fixpoint lift_loop (n : nat) (p : Z) (c : list Z) (lc cur : Z) (res : list (list Z))
  : outcome (list (list Z)) :=
  match n with
  | O => Done res
  | S n' =>
    let next_cur := cur * p in
    do '(_, x, _) <- num_extended_gcd lc next_cur;
    if next_cur =? 0 then Panic PDiv0
    else
      let invlc := x mod next_cur in
      do divided <- poly_mod (poly_mul c invlc) next_cur;
      do '(sub, _) <- hensel_lift_multiple p cur divided res;
      lift_loop n' p c lc next_cur sub
  end.

(** [lift_factorization] (hensel.rs:88-110); [e : u32]. [c.coef_at(c.deg())] is 0 for the
    zero polynomial (index [usize::MAX] is past the end). *)
Definition lift_factorization (p e : Z) (c : list Z) (factors : list (list Z))
  : outcome (list (list Z)) :=
  let lc := lead opsZ c in
  lift_loop (Z.to_nat (e - 1)) p c lc p factors.
