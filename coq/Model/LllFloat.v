(** * LllFloat: the binary64 instance of the C20 model

    [PrimFloat.float] is IEEE 754 binary64 with round-to-nearest-even for + - * / sqrt and the
    IEEE comparisons (false on NaN): the same operations the Rust code performs on [f64] (rustc
    does not contract a*b+c into fma). Evaluated with [vm_compute] inside [coqc] by the
    correspondence check; NOT extracted, and no theorem in Props/ mentions this file. *)
From RNT.Model Require Import Base Lll.
From Coq Require Import Floats.
Open Scope Z_scope.

(** The value of a finite float as an integer times a power of two. *)
Definition fl_floor_Z (x : float) : option Z :=
  match Prim2SF x with
  | S754_zero _ => Some 0
  | S754_finite s m e =>
    let v := if s then Zneg m else Zpos m in
    Some (if 0 <=? e then v * 2 ^ e else v / 2 ^ (- e))     (* Z.div rounds towards -infinity *)
  | _ => None
  end.
Definition fl_ceil_Z (x : float) : option Z :=
  match fl_floor_Z (PrimFloat.opp x) with Some v => Some (- v) | None => None end.

(** [BigInt::from_f64(x.floor()).unwrap()]: [None] for NaN and the infinities. *)
Definition fl_floor (x : float) : outcome Z :=
  match fl_floor_Z x with Some v => Done v | None => Panic PUnwrap end.

(** [y as i64] for an integral-valued [y = floor/ceil x]: saturating, NaN to 0. *)
Definition sat_i64 (ofin : option Z) (x : float) : Z :=
  match ofin with
  | Some v => Z.max (- two63) (Z.min (two63 - 1) v)
  | None => match Prim2SF x with
            | S754_infinity s => if s then - two63 else two63 - 1
            | _ => 0
            end
  end.

(** [BigInt::to_f64], [i64 as f64]: correctly rounded (nearest, ties to even). *)
Definition fl_ofZ (z : Z) : float := SF2Prim (SpecFloat.binary_normalize 53 1024 z 0 false).

Definition fl_up (t u : float) : Z :=
  let y := PrimFloat.sub (PrimFloat.sqrt t) u in sat_i64 (fl_floor_Z y) y.
Definition fl_down (t u : float) : Z :=
  let y := PrimFloat.sub (PrimFloat.opp (PrimFloat.sqrt t)) u in sat_i64 (fl_ceil_Z y) y.

Definition arithF : arith float :=
  mkArith float 0%float 0.5%float 0.75%float PrimFloat.add PrimFloat.sub PrimFloat.mul PrimFloat.div
          PrimFloat.opp PrimFloat.abs PrimFloat.ltb PrimFloat.leb fl_ofZ fl_floor fl_up fl_down.

(** ** Printing: a float as (mantissa, exponent); (0, 0) zero, (+-1, 9999) infinities, (0, 9999) NaN. *)
Definition show_f (x : float) : Z * Z :=
  match Prim2SF x with
  | S754_zero _ => (0, 0)
  | S754_finite s m e => (if s then Zneg m else Zpos m, e)
  | S754_infinity s => (if s then -1 else 1, 9999)
  | S754_nan => (0, 9999)
  end.
Definition show_v (v : list float) := map show_f v.
Definition show_m (m : list (list float)) := map show_v m.

Definition of_ints (m : list (list Z)) : list (list float) := map (map fl_ofZ) m.
Definition max_bits (m : list (list Z)) : Z :=
  fold_left (fun a r => fold_left (fun a x => Z.max a (Z.log2 (Z.abs x) + 2)) r a) m 1.

(** Entry points evaluated by the check (integer-valued inputs). *)
Definition lll_float (m : list (list Z)) :=
  do r <- lll arithF (lll_fuel (length m) (max_bits m)) (of_ints m);
  Done (show_m (fst r), snd r).
(** entries num / 2^e (|num| < 2^53: both exactly representable, the quotient is exact) *)
Definition of_dyadic (ne : Z * Z) : float := PrimFloat.div (fl_ofZ (fst ne)) (fl_ofZ (2 ^ snd ne)).
Definition max_bits_dy (m : list (list (Z * Z))) : Z :=
  fold_left (fun a r => fold_left (fun a x => Z.max a (Z.log2 (Z.abs (fst x)) + 2)) r a) m 1.
Definition lll_float_dy (m : list (list (Z * Z))) :=
  do r <- lll arithF (lll_fuel (length m) (max_bits_dy m)) (map (map of_dyadic) m);
  Done (show_m (fst r), snd r).
Definition cholesky_float (m : list (list Z)) :=
  do q <- cholesky_find arithF (of_ints m); Done (show_m q).
(** c = cnum / 2^cexp, both exactly representable *)
Definition bound_float (cnum cexp : Z) : float := PrimFloat.div (fl_ofZ cnum) (fl_ofZ (2 ^ cexp)).
Definition short_float (m : list (list Z)) (cnum cexp : Z) :=
  do q <- cholesky_find arithF (of_ints m);
  do l <- find_short_vectors arithF q (bound_float cnum cexp);
  Done (map (fun vx => (show_f (fst vx), snd vx)) l).
Definition value_float (m : list (list Z)) (x : list Z) :=
  do q <- cholesky_find arithF (of_ints m);
  do v <- find_value arithF q (map fl_ofZ x);
  Done (show_f v).
