From RNT.Model Require Import Base Hnf.
Theorem placeholder_c02 : True. Proof. exact I. Qed.
