From RNT.Model Require Import Base Hnf.
Theorem placeholder_c03 : True. Proof. exact I. Qed.
