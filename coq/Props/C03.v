(** C03: the HNF transformation matrix is unimodular and its first k rows are a Z-basis of the
    left kernel {x : x * A = 0}.  All statements for ALL integer matrices with n, m >= 1. *)
From Coq Require Import ZArith List.
From RNT.Model Require Import Base Hnf.
From RNT.Refine Require Import MatZ HnfOps HnfSpec HnfMain HnfTerm HnfTotal HnfKernel.
Import ListNotations.
Open Scope Z_scope.

(** [P] the kernel routines terminate without panic on rectangular input *)
Theorem kernel_terminates : forall A n m,
  shape n m A -> (1 <= n)%nat -> (1 <= m)%nat -> exists K, hnf_kernel A = Done K.
Proof. exact hnf_kernel_total. Qed.

Theorem hnf_with_ker_terminates : forall A n m,
  shape n m A -> (1 <= n)%nat -> (1 <= m)%nat -> exists H K, hnf_with_ker A = Done (H, K).
Proof. exact hnf_with_ker_total. Qed.

(** [P] U is n x n, has a two-sided integer inverse (unimodular), U * A = [0_k ; H],
    k = n - #rows H (and #rows H is the rank: C02.hnf_rows_independent + hnf_lattice). *)
Theorem hnf_U_unimodular : forall A n m H U k,
  shape n m A -> (1 <= n)%nat -> (1 <= m)%nat -> hnf_with_u A = Done (H, U, k) ->
  shape n n U /\
  (exists V, shape n n V /\ mmul n V U = idmat n /\ mmul n U V = idmat n) /\
  mmul m U A = repeat (vzero m) k ++ H /\ (k + length H = n)%nat.
Proof.
  intros A n m H U k HS Hn Hm E.
  destruct (hnf_with_u_correct A n m H U k HS Hn Hm E) as (_ & H1 & H2 & H3 & H4).
  exact (conj H1 (conj H2 (conj H3 H4))).
Qed.

(** [P] kernel_annihilates: HNF::kernel returns exactly the first k rows of U, k = n - #rows H,
    and each of them is annihilated by A. *)
Theorem kernel_annihilates : forall A n m K,
  shape n m A -> (1 <= n)%nat -> (1 <= m)%nat -> hnf_kernel A = Done K ->
  exists H U k, hnf_with_u A = Done (H, U, k) /\ K = firstn k U /\
    length K = k /\ (k + length H = n)%nat /\ wf n K /\
    mmul m K A = repeat (vzero m) k.
Proof. exact HnfMain.kernel_annihilates. Qed.

(** [P] kernel_basis: the kernel rows are Z-linearly independent and generate every integer
    solution of x * A = 0 (saturated basis of the left kernel). *)
Theorem kernel_basis : forall A n m H U k,
  shape n m A -> (1 <= n)%nat -> (1 <= m)%nat -> hnf_with_u A = Done (H, U, k) ->
  (forall c, length c = k -> lincomb n c (firstn k U) = vzero n -> c = vzero k) /\
  (forall x, length x = n -> lincomb m x A = vzero m -> In_rowspanZ n x (firstn k U)).
Proof. exact HnfKernel.kernel_basis. Qed.

(** [P] empty kernel when the rows of A are independent: if H has n rows then k = 0. *)
Theorem kernel_empty_when_independent : forall A n m H U k,
  shape n m A -> (1 <= n)%nat -> (1 <= m)%nat -> hnf_with_u A = Done (H, U, k) ->
  length H = n -> firstn k U = [].
Proof.
  intros A n m H U k HS Hn Hm E HL.
  destruct (hnf_with_u_correct A n m H U k HS Hn Hm E) as (_ & _ & _ & _ & Hc).
  assert (k = 0%nat) by (rewrite HL in Hc; apply (Nat.add_cancel_r _ _ n); simpl; exact Hc).
  subst k. reflexivity.
Qed.

Definition exA : mat := [[-2; -4; -6]; [-1; -2; -3]; [0; -3; -5]; [-3; -3; -4]].
Example exA_shape : shape 4 3 exA.
Proof. split; [reflexivity|repeat constructor]. Qed.
Example exA_kernel : hnf_kernel exA = Done [[1; -2; 0; 0]; [0; -3; 1; 1]].
Proof. vm_compute. reflexivity. Qed.
Example exA_kernel_annihilated : mmul 3 [[1; -2; 0; 0]; [0; -3; 1; 1]] exA = [[0; 0; 0]; [0; 0; 0]].
Proof. vm_compute. reflexivity. Qed.
Example exA_solution : lincomb 3 [2; -7; 1; 1] exA = vzero 3
                       /\ [2; -7; 1; 1] = lincomb 4 [2; 1] [[1; -2; 0; 0]; [0; -3; 1; 1]].
Proof. vm_compute. auto. Qed.
Example ex_independent : hnf_with_u [[2; 1]; [0; 3]] = Done ([[6; 0]; [2; 1]], [[3; -1]; [1; 0]], 0%nat).
Proof. vm_compute. reflexivity. Qed.

(** ** determinant and rank statements (MathComp: [\det] Leibniz determinant, [\rank] rank over a field)

    [zmx n m a] (C18) reads a list of integer rows as an n x m MathComp matrix over Z; [mxQ n m a :=
    map_mx q_of_Z (zmx n m a)] is the same matrix with entries in BigRational = Qc (coq/Refine/DetBridge.v,
    which proves [zmx (mmul m U A) = zmx U *m zmx A], [zmx (idmat n) = 1%:M], row stacking, and
    [In_rowspanZ] <-> integer row vector times the matrix). *)
From mathcomp Require Import all_ssreflect ssralg matrix mxalgebra.
From mathcomp Require Import ssrZ.
From RNT.Refine Require Import QcField LinAlgQc DetBridge DetHnf.
Local Open Scope ring_scope.

(** [P] hnf_U_det: the transformation matrix has determinant +1 or -1 *)
Theorem hnf_U_det : forall A n m H U k,
  MatZ.shape n m A -> (1 <= n)%coq_nat -> (1 <= m)%coq_nat -> hnf_with_u A = Done (H, U, k) ->
  \det (zmx n n U) = 1%Z \/ \det (zmx n n U) = (-1)%Z.
Proof. exact DetHnf.hnf_U_det. Qed.

(** [P] kernel_rank: the number k of kernel rows is n - rank(A), rank taken over Q; #rows H = rank(A) *)
Theorem kernel_rank : forall A n m H U k,
  MatZ.shape n m A -> (1 <= n)%coq_nat -> (1 <= m)%coq_nat -> hnf_with_u A = Done (H, U, k) ->
  \rank (mxQ n m A) = length H /\ k = (n - \rank (mxQ n m A))%nat.
Proof. exact DetHnf.hnf_rank_Q. Qed.

Theorem kernel_rank_count : forall A n m K,
  MatZ.shape n m A -> (1 <= n)%coq_nat -> (1 <= m)%coq_nat -> hnf_kernel A = Done K ->
  length K = (n - \rank (mxQ n m A))%nat.
Proof. exact DetHnf.kernel_rank_count. Qed.

(** non-vacuity: the 4 x 3 example of rank 2 above; its U has determinant +-1 and its kernel 4 - 2 rows *)
Example exA_U_det :
  let U := [[1; -2; 0; 0]; [0; -3; 1; 1]; [0; 4; 0; -3]; [0; -3; 0; 2]]%Z in
  hnf_with_u exA = Done ([[5; 1; 0]; [-3; 0; 1]]%Z, U, 2%nat) /\
  (\det (zmx 4 4 U) = 1%Z \/ \det (zmx 4 4 U) = (-1)%Z) /\ \rank (mxQ 4 3 exA) = 2%nat.
Proof.
have E : hnf_with_u exA = Done ([[5; 1; 0]; [-3; 0; 1]]%Z,
           [[1; -2; 0; 0]; [0; -3; 1; 1]; [0; 4; 0; -3]; [0; -3; 0; 2]]%Z, 2%nat) by vm_compute.
have h1 : (1 <= 4)%coq_nat by repeat constructor.
have h3 : (1 <= 3)%coq_nat by repeat constructor.
split; first exact: E.
split; first exact: (hnf_U_det _ _ _ _ _ _ exA_shape h1 h3 E).
by case: (kernel_rank _ _ _ _ _ _ exA_shape h1 h3 E).
Qed.
