(** * C15: orders as canonical lattices: equality, index, union, discriminant.

    An order is its stored basis [b : qmat = list (list Qc)] (rows = basis vectors).  The
    statements about canonicity use the vocabulary of C02 (MatZ.v): [qshape n n b] (n rows of
    length n), integer matrices [U : list (list Z)] with [shape n n U], and
    [qmmul n U b] = the rational matrix U * b (each row an integer combination of the rows of b).
    Statements about [index] and the discriminant are in terms of the outcomes of the calls the
    code makes ([determinant fopsQc] is LinAlg's determinant, proved equal to [\det] in C18);
    [order_index_spec] uses MathComp matrices ([qmx n n a] reads a list of rows as a matrix).
    The discriminant of the minimal polynomial enters [order_discriminant] as the argument [discf];
    the section "wired discriminant" at the end of this file connects it to [Resultant.discriminant]
    ([Round2.order_disc], the function the correspondence check runs): nothing is assumed about it any more. *)
From RNT.Model Require Import Base Poly Algebraic LinAlg MultTable Order.
From RNT.Refine Require Import MatZ OrderBasic OrderIndex OrderLint OrderCanon OrderUnion.
From Coq Require Import List QArith Qcanon.
Import ListNotations.
Open Scope Z_scope.

(** ** canonical form *)

(** [P] lcm_den_invariant: the lcm of the denominators is the least positive d with d * b integral,
    so it only depends on the set of such d *)
Theorem lcm_den_multiplier : forall b, all_lint (lcm_den 1 b) b /\ 0 < lcm_den 1 b.
Proof. intros b. split; [apply lcm_den_lint|apply lcm_den_pos; reflexivity]. Qed.
Theorem lcm_den_least : forall b d, all_lint d b -> (lcm_den 1 b | d).
Proof. exact OrderLint.lcm_den_least. Qed.
Theorem lcm_den_invariant : forall b1 b2,
  (forall d, all_lint d b1 <-> all_lint d b2) -> lcm_den 1 b1 = lcm_den 1 b2.
Proof. exact lcm_den_eq. Qed.

(** [P] order_canonical: two n x n rational bases each of which is an integer combination of the
    other (they generate the same Z-module) are stored identically: [from_basis] has the same
    outcome on both (the same basis, or the same panic when they are singular) *)
Theorem order_canonical : forall n U V b1 b2, (1 <= n)%nat ->
  qshape n n b1 -> shape n n U -> shape n n V ->
  b2 = qmmul n U b1 -> b1 = qmmul n V b2 -> from_basis b1 = from_basis b2.
Proof. exact OrderCanon.order_canonical. Qed.

(** [P] the stored form is a fixed point: reducing a stored basis again returns it unchanged *)
Theorem hnf_reduce_idempotent : forall n b r, (1 <= n)%nat -> qshape n n b ->
  hnf_reduce b = Done r -> hnf_reduce r = Done r.
Proof. exact hnf_reduce_idem. Qed.

Theorem from_basis_hnf_reduce : forall b, from_basis b = hnf_reduce b.
Proof. exact OrderBasic.from_basis_hnf_reduce. Qed.

Definition qhalf : Qc := Qcdiv (qz 1) (qz 2).

(** Z[3i] inside Q(i) (theta = 1 + 6i) from two bases related by the unimodular U = V = [[1 0] [1 -1]]
    (rationals compared through their reduced fractions [this]) *)
Example order_canonical_ex :
  let b1 := [[qz 1; qz 0]; [qhalf; qhalf]] in
  let U := [[1; 0]; [1; -1]] in
  let b2 := qmmul 2 U b1 in
  map (map this) (qmmul 2 U b2) = map (map this) b1 /\
  map (map this) b2 = [[1 # 1; 0 # 1]; [1 # 2; -1 # 2]]%Q /\
  omap (map (map this)) (from_basis b1) = Done [[1 # 1; 0 # 1]; [1 # 2; 1 # 2]]%Q /\
  omap (map (map this)) (from_basis b2) = Done [[1 # 1; 0 # 1]; [1 # 2; 1 # 2]]%Q.
Proof. vm_compute. repeat split; reflexivity. Qed.

(** ** index *)

(** [P] the index of a (non-singular) lattice in itself is 1 *)
Theorem index_self : forall a d,
  determinant fopsQc a = Done d -> d <> Q2Qc 0 -> order_index a a = Done 1.
Proof. exact order_index_self. Qed.

(** [P] index_chain: (A:C) = (A:B)(B:C) whenever the two indices on the right are returned *)
Theorem index_chain : forall a b c i1 i2,
  order_index a b = Done i1 -> order_index b c = Done i2 -> order_index a c = Done (i1 * i2).
Proof. exact order_index_chain. Qed.

(** [P] disc_index: disc(B) = (A:B)^2 disc(A); in particular the integrality assertion passes for B
    when it passes for A *)
Theorem disc_index : forall m discf a b f i dA,
  order_index a b = Done i -> order_discriminant m discf a f = Done dA ->
  order_discriminant m discf b f = Done (i * i * dA).
Proof. exact OrderIndex.disc_index. Qed.

Definition qthird : Qc := Qcdiv (qz 1) (qz 3).

(** order.rs tests1: Z[3i] and Z[2i] inside Q(i), theta = 1 + 6i; their union has index 6 over Z[theta] *)
Example union_index_6 :
  (do o <- trivial_order_monic [37; -2; 1];
   do o1 <- from_basis [[qz 1; qz 0]; [qhalf; qhalf]];
   do o2 <- from_basis [[qz 1; qz 0]; [Qcmult (qz 2) qthird; qthird]];
   do u <- order_union o1 o2;
   order_index u o) = Done 6.
Proof. vm_compute. reflexivity. Qed.

Example disc_union :
  (do o1 <- from_basis [[qz 1; qz 0]; [qhalf; qhalf]];
   do o2 <- from_basis [[qz 1; qz 0]; [Qcmult (qz 2) qthird; qthird]];
   do u <- order_union o1 o2;
   order_discriminant Checked (-144) u [37; -2; 1]) = Done (-4).
Proof. vm_compute. reflexivity. Qed.

(** non-vacuity of index_chain / disc_index: Z[6i] < Z[3i] < Z[i]-ish chain in Q(i) *)
Example index_chain_ex :
  let a := [[qz 1; qz 0]; [qhalf; qhalf]] in let b := [[qz 1; qz 0]; [qz 0; qz 1]] in
  let c := [[qz 1; qz 0]; [qz 0; qz 3]] in
  order_index a b = Done 2 /\ order_index b c = Done 3 /\ order_index a c = Done 6 /\
  order_discriminant Checked (-144) a [37; -2; 1] = Done (-36) /\
  order_discriminant Checked (-144) b [37; -2; 1] = Done (-144).
Proof. vm_compute. repeat split; reflexivity. Qed.

(** ** union *)

(** [P] union_spec: whenever [union] returns, the stored result r contains both arguments (each is an
    integer combination of the rows of r) and is contained in their sum (the rows of r are integer
    combinations of the stacked rows of a and b): r is a basis of the smallest module containing both *)
Theorem union_spec : forall n a b r, (1 <= n)%nat -> qshape n n a -> qshape n n b ->
  order_union a b = Done r ->
  qshape n n r /\
  (exists Ua, shape n n Ua /\ a = qmmul n Ua r) /\
  (exists Ub, shape n n Ub /\ b = qmmul n Ub r) /\
  (exists W, shape n (n + n) W /\ r = qmmul n W (a ++ b)).
Proof. exact order_union_spec. Qed.

(** [P] commutative (same outcome, including panics) *)
Theorem union_comm : forall n a b, (1 <= n)%nat -> qshape n n a -> qshape n n b ->
  order_union a b = order_union b a.
Proof. exact order_union_comm. Qed.

(** [P] absorbs sub-modules: if B = U A for an integer matrix U, the union is the stored form of A *)
Theorem union_absorbs : forall n U a b r, (1 <= n)%nat -> qshape n n a -> shape n n U ->
  b = qmmul n U a -> hnf_reduce a = Done r -> order_union a b = Done r.
Proof. exact order_union_absorbs. Qed.

(** [P] idempotent *)
Theorem union_self : forall n a r, (1 <= n)%nat -> qshape n n a ->
  hnf_reduce a = Done r -> order_union a a = Done r.
Proof. exact order_union_self. Qed.

Example union_ex :
  let a := [[qz 1; qz 0]; [qhalf; qhalf]] in let b := [[qz 1; qz 0]; [Qcmult (qz 2) qthird; qthird]] in
  qshape 2 2 a /\ qshape 2 2 b /\
  omap (map (map this)) (order_union a b) = Done [[1 # 1; 0 # 1]; [5 # 6; 1 # 6]]%Q /\
  omap (map (map this)) (order_union b a) = Done [[1 # 1; 0 # 1]; [5 # 6; 1 # 6]]%Q /\
  omap (map (map this)) (order_union a a) = Done [[1 # 1; 0 # 1]; [1 # 2; 1 # 2]]%Q.
Proof. repeat split; try (vm_compute; reflexivity); repeat constructor. Qed.

(** ** index = determinant of the change of basis (MathComp matrices; C18's [qmx], [square]) *)
From mathcomp Require Import all_ssreflect ssralg matrix.
From mathcomp Require Import ssrZ.
From RNT.Refine Require Import QcField LinAlgQc OrderDet.
Local Open Scope ring_scope.

(** [P] index_spec: if B = S A for an integer matrix S and A is non-singular, [index A B] returns det S;
    together with [index_chain] this is multiplicativity of the index in chains A > B > C *)
Theorem index_spec (a b : list (list Qc)) (S : 'M[Z]_(length a)) :
  square a -> square b -> length b = length a ->
  let n := length a in
  \det (qmx n n a) != 0 ->
  qmx n n b = map_mx q_of_Z S *m qmx n n a ->
  order_index a b = Done (\det S).
Proof. exact (@order_index_spec a b S). Qed.

(** non-vacuity of [index_spec]: S = 1, A = B = Z[3i] (its determinant is 1/2 by C18's [determinant_ok]) *)
Example index_spec_ex :
  let a := [:: [:: qz 1; qz 0]; [:: qhalf; qhalf]] in
  [/\ square a, \det (qmx 2 2 a) != 0 & qmx 2 2 a = map_mx q_of_Z (1%:M : 'M[Z]_2) *m qmx 2 2 a].
Proof.
split.
- by repeat constructor.
- have e : LinAlg.determinant fopsQc [:: [:: qz 1; qz 0]; [:: qhalf; qhalf]] = Done qhalf by vm_compute.
  by rewrite -(determinant_ok e).
- by rewrite map_mx1 mul1mx.
Qed.

(** ** positivity of the index: index = |det S| > 0 for stored bases *)
From RNT.Refine Require Import OrderCanon DetBridge DetOrder.
Local Open Scope ring_scope.

(** [P] index_abs_det: for STORED bases a, b (outputs of [hnf_reduce] = [from_basis] on n x n rational
    bases a0, b0) with b = S a for an integer matrix S, [index a b] returns det S, and det S > 0, i.e. the
    index is |det S| and positive: a stored basis is a positive multiple of a square normal form
    (lower triangular, positive diagonal), so its determinant is positive *)
Theorem index_abs_det (n : nat) (a0 b0 a b : list (list Qc)) (S : 'M[Z]_n) :
  (1 <= n)%coq_nat -> qshape n n a0 -> qshape n n b0 ->
  hnf_reduce a0 = Done a -> hnf_reduce b0 = Done b ->
  qmx n n b = map_mx q_of_Z S *m qmx n n a ->
  (0 < \det S)%Z /\ order_index a b = Done (Z.abs (\det S)).
Proof. exact (@order_index_abs_det n a0 b0 a b S). Qed.

(** [P] the same with S a list matrix and b = S a written with [qmmul] (the vocabulary of [order_canonical]);
    [qmx (qmmul n S a) = map_mx q_of_Z (zmx S) *m qmx a] is [DetOrder.qmx_qmmul] *)
Theorem index_abs_det_list (n : nat) (Sl : list (list Z)) (a0 b0 a b : list (list Qc)) :
  (1 <= n)%coq_nat -> qshape n n a0 -> qshape n n b0 ->
  hnf_reduce a0 = Done a -> hnf_reduce b0 = Done b ->
  MatZ.shape n n Sl -> b = qmmul n Sl a ->
  (0 < \det (zmx n n Sl))%Z /\ order_index a b = Done (Z.abs (\det (zmx n n Sl))).
Proof. exact (@order_index_abs_det_list n Sl a0 b0 a b). Qed.

(** [P] the determinant of a stored basis is a positive rational: l^n * det = p with integers l, p > 0 *)
Theorem stored_basis_det_pos (n : nat) (b r : list (list Qc)) :
  (1 <= n)%coq_nat -> qshape n n b -> hnf_reduce b = Done r ->
  exists l p : Z, [/\ (0 < l)%Z, (0 < p)%Z, length r = n, square r
                    & q_of_Z l ^+ n * \det (qmx n n r) = q_of_Z p].
Proof. exact (@stored_det n b r). Qed.

(** non-vacuity: Z[i]-ish (stored) > Z + 3 Z i (stored), S = [[1 0] [-1 6]]... the stored forms of
    a0 = [[1 0] [1/2 1/2]] and b0 = [[1 0] [0 3]] are themselves, b0 = S a0 with S = [[1 0] [-3 6]], index 6 *)
Example index_abs_det_ex :
  let a := [:: [:: qz 1; qz 0]; [:: qhalf; qhalf]] in
  let b := [:: [:: qz 1; qz 0]; [:: qz 0; qz 3]] in
  let Sl := [:: [:: 1; 0]; [:: -3; 6]]%Z in
  [/\ qshape 2 2 a, qshape 2 2 b & MatZ.shape 2 2 Sl] /\
  [/\ Base.omap (List.map (List.map this)) (hnf_reduce a) = Done (List.map (List.map this) a),
      Base.omap (List.map (List.map this)) (hnf_reduce b) = Done (List.map (List.map this) b),
      List.map (List.map this) b = List.map (List.map this) (qmmul 2 Sl a)
    & order_index a b = Done 6%Z].
Proof.
split; last by split; vm_compute.
by split; split=> //; repeat constructor.
Qed.

(** ** the stored form keeps the determinant up to sign; the power-basis order has discriminant disc f *)
From RNT.Refine Require Import DetSinglyGen.

(** [P] hnf_reduce_det: the stored basis has the determinant of the given basis up to a sign s = +-1
    (the change of basis is unimodular); by [stored_basis_det_pos] the sign makes it positive *)
Theorem hnf_reduce_det (n : nat) (b r : list (list Qc)) :
  (1 <= n)%coq_nat -> qshape n n b -> hnf_reduce b = Done r ->
  exists s : Z, (s = 1%Z \/ s = (-1)%Z) /\ \det (qmx n n r) = q_of_Z s * \det (qmx n n b).
Proof. exact (@DetSinglyGen.hnf_reduce_det n b r). Qed.

(** [P] singly_gen_disc: for a monic minimal polynomial f of degree n >= 2 and its root theta
    ([Algebraic::new], expr = x), the order Z[theta] returned by [singly_gen] has discriminant disc f:
    whenever [discriminant_with_min_poly] returns d, d is the value [discf] of disc(min_poly); the rows
    built by [singly_gen] are the unit vectors ([DetSinglyGenA.singly_gen_power_basis]), so the stored basis has
    determinant 1 *)
Theorem singly_gen_disc (m : mode) (f : list Z) (n : nat) (discf : Z) (o : list (list Qc)) (d : Z) :
  length f = n.+1 -> (2 <= n)%coq_nat -> List.nth n f 0%Z = 1%Z ->
  singly_gen f (alg_new f) = Done o -> order_discriminant m discf o f = Done d ->
  d = discf.
Proof. exact (@DetSinglyGen.singly_gen_disc m f n discf o d). Qed.

(** [P] ... and it does return (the usize product 2 * (deg - 1) does not overflow) *)
Theorem singly_gen_disc_returns (m : mode) (f : list Z) (n : nat) (discf : Z) (o : list (list Qc)) :
  length f = n.+1 -> (2 <= n)%coq_nat -> List.nth n f 0%Z = 1%Z -> (2 * Z.of_nat n < two64)%Z ->
  singly_gen f (alg_new f) = Done o -> order_discriminant m discf o f = Done discf.
Proof. exact (@DetSinglyGen.singly_gen_disc_returns m f n discf o). Qed.

(** non-vacuity: f = x^3 - x^2 - 2x - 8 (Dedekind's cubic, disc f = -2012 = 4 * (-503)), theta its root *)
Example singly_gen_disc_ex :
  let f := [:: -8; -2; -1; 1]%Z in
  [/\ List.nth 3 f 0%Z = 1%Z,
      Base.omap (List.map (List.map this)) (singly_gen f (alg_new f))
        = Done [:: [:: 1 # 1; 0 # 1; 0 # 1]; [:: 0 # 1; 1 # 1; 0 # 1]; [:: 0 # 1; 0 # 1; 1 # 1]]%Q
    & (do o <- singly_gen f (alg_new f); order_discriminant Checked (-2012) o f) = Done (-2012)%Z].
Proof. by split; vm_compute. Qed.

(** [P] from_basis_returns_iff: on an n x n rational basis, [from_basis] (= [hnf_reduce]) returns a stored
    basis exactly when the basis is non-singular (otherwise the normal form has fewer than n rows and the
    read-back loop panics): totality of [from_basis] on full-rank input, and only there *)
Theorem from_basis_returns_iff (n : nat) (b : list (list Qc)) :
  (1 <= n)%coq_nat -> qshape n n b ->
  ((exists r, from_basis b = Done r) <-> \det (qmx n n b) != 0).
Proof. exact (@hnf_reduce_returns_iff n b). Qed.

Example from_basis_singular_ex :
  from_basis [:: [:: qz 1; qz 2]; [:: qz 2; qz 4]] = Panic PIndex.
Proof. by vm_compute. Qed.

(** ** third wave (T1): the polynomial discriminant is computed by the model itself

    [Round2.order_disc m b f] is [Order::discriminant] as the correspondence check runs it since the third
    wave: [determinant(&self.basis)], then [discriminant(min_poly)] by the model of src/discriminant.rs
    ([Resultant.discriminant], specified in Props/C05.v), then the rest of [discriminant_with_min_poly]
    ([order_discriminant] at that value).  No value is handed over from the implementation. *)
From RNT.Model Require Resultant Round2.
From RNT.Refine Require OrderW3Disc.
From mathcomp Require Import poly mxpoly.

(** [P] order_disc_spec: a value returned by the wired discriminant is the value [order_discriminant] returns
    at discf = the value returned by [discriminant(min_poly)] *)
Theorem order_disc_spec (m : mode) (b : list (list Qc)) (f : list Z) (d : Z) :
  Round2.order_disc m b f = Done d ->
  exists discf, snd (Resultant.discriminant m f) = Done discf /\ order_discriminant m discf b f = Done d.
Proof. exact (@OrderW3Disc.order_disc_spec m b f d). Qed.

(** [P] ... and conversely (so every [order_discriminant] theorem with discf := the value of [discriminant] transfers) *)
Theorem order_disc_iff (m : mode) (b : list (list Qc)) (f : list Z) (d : Z) :
  Round2.order_disc m b f = Done d <->
  exists discf, snd (Resultant.discriminant m f) = Done discf /\ order_discriminant m discf b f = Done d.
Proof. exact (@OrderW3Disc.order_disc_iff m b f d). Qed.

(** [P] disc_index for the wired discriminant: disc(B) = (A:B)^2 disc(A), incl. the integrality assertion *)
Theorem disc_index_wired (m : mode) (a b : list (list Qc)) (f : list Z) (i dA : Z) :
  order_index a b = Done i -> Round2.order_disc m a f = Done dA ->
  Round2.order_disc m b f = Done (i * i * dA)%Z.
Proof. exact (@OrderW3Disc.disc_index_wired m a b f i dA). Qed.

Example disc_index_wired_ex :
  let a := [:: [:: qz 1; qz 0]; [:: qhalf; qhalf]] in let b := [:: [:: qz 1; qz 0]; [:: qz 0; qz 1]] in
  [/\ order_index a b = Done 2%Z, Resultant.discriminant Checked [:: 37; -2; 1]%Z = (true, Done (-144)%Z),
      Round2.order_disc Checked a [:: 37; -2; 1]%Z = Done (-36)%Z
    & Round2.order_disc Checked b [:: 37; -2; 1]%Z = Done (-144)%Z].
Proof. by split; vm_compute. Qed.

(** [P] singly_gen_disc for the wired discriminant: for monic f of degree n >= 2 and its root theta, whenever
    [discriminant] of the order Z[theta] = [singly_gen] returns d, d is exactly the value [discriminant(f)] returns *)
Theorem singly_gen_disc_wired (m : mode) (f : list Z) (n : nat) (o : list (list Qc)) (d : Z) :
  length f = n.+1 -> (2 <= n)%coq_nat -> List.nth n f 0%Z = 1%Z ->
  singly_gen f (alg_new f) = Done o -> Round2.order_disc m o f = Done d ->
  snd (Resultant.discriminant m f) = Done d.
Proof. exact (@OrderW3Disc.singly_gen_disc_wired m f n o d). Qed.

(** [P] ... and it returns (2n < 2^64): [discriminant(f)] returns some d with all divisions exact, the order's
    discriminant is that d, and d lc f = (-1)^(n(n-1)/2) det Sylvester(f, f') (C05's [discriminant_spec]; lc f = 1) *)
Theorem singly_gen_disc_wired_returns (m : mode) (f : list Z) (n : nat) (o : list (list Qc)) :
  length f = n.+1 -> (2 <= n)%coq_nat -> List.nth n f 0%Z = 1%Z -> (2 * Z.of_nat n < two64)%Z ->
  singly_gen f (alg_new f) = Done o ->
  exists d, [/\ Resultant.discriminant m f = (true, Done d), Round2.order_disc m o f = Done d
              & d * lead_coef (Poly f) =
                (-1) ^+ (((size f).-1 * (size f).-1.-1) %/ 2) * \det (Sylvester_mx (Poly f)^`() (Poly f))].
Proof. exact (@OrderW3Disc.singly_gen_disc_wired_returns m f n o). Qed.

(** non-vacuity: Dedekind's cubic again, nothing supplied from outside *)
Example singly_gen_disc_wired_ex :
  let f := [:: -8; -2; -1; 1]%Z in
  [/\ List.nth 3 f 0%Z = 1%Z, Resultant.discriminant Checked f = (true, Done (-2012)%Z)
    & (do o <- singly_gen f (alg_new f); Round2.order_disc Checked o f) = Done (-2012)%Z].
Proof. by split; vm_compute. Qed.

(** ** third wave (T2): the constructors store bases of the intended Z-modules

    [In_qrowspan m v A] (OrderW3Span.v): v = sum_t c_t A_t for an integer vector c (one coefficient per row of A);
    [same_qrowspan m A B]: the rows of A and of B have the same integer span.  Coordinates are rational
    coordinates in the power basis 1, x, ..., x^(n-1) of Q[x]/(f), as everywhere in [Order]. *)
From RNT.Refine Require Import PolyZ AlgMul AlgQuot OrderW3Span OrderW3Gen.

(** [P] [from_basis] (= [hnf_reduce]) keeps the module: the stored basis and the given basis have the same
    integer row span (the stored basis is U * given with U unimodular) *)
Theorem from_basis_same_module (n : nat) (b r : list (list Qc)) :
  (1 <= n)%coq_nat -> qshape n n b -> from_basis b = Done r ->
  qshape n n r /\ same_qrowspan n r b.
Proof. exact (OrderW3Span.hnf_reduce_same_span n b r). Qed.

(** [P] [trivial_order_monic f], n = deg f >= 1: it is [from_basis] of the identity rows, and the stored
    basis spans exactly Z^n = Z + Z x + ... + Z x^(n-1): the vectors with integer coordinates *)
Theorem trivial_order_rows (f : list Z) (r : list (list Qc)) : trivial_order_monic f = Done r ->
  let n := Z.to_nat (pdeg f) in (1 <= n)%coq_nat ->
  from_basis (identity fopsQc n) = Done r /\ qshape n n r /\ same_qrowspan n r (identity fopsQc n).
Proof. exact (OrderW3Span.trivial_order_span f r). Qed.

Theorem trivial_order_module (f : list Z) (r : list (list Qc)) : trivial_order_monic f = Done r ->
  let n := Z.to_nat (pdeg f) in (1 <= n)%coq_nat ->
  forall v : list Qc, In_qrowspan n v r <-> exists c : list Z, length c = n /\ v = List.map qz c.
Proof. exact (@OrderW3Gen.trivial_order_module f r). Qed.

Example trivial_order_module_ex :
  Base.omap (List.map (List.map this)) (trivial_order_monic [:: 37; -2; 1]%Z) = Done [:: [:: 1 # 1; 0 # 1]; [:: 0 # 1; 1 # 1]]%Q
  /\ Z.to_nat (pdeg [:: 37; -2; 1]%Z) = 2%nat.
Proof. by split; vm_compute. Qed.

(** [P] [non_monic_initial_order f], n = deg f: whenever it returns, n >= 1, it is [from_basis] of the rows
    [nm_rows f n] (row 0 = the vector of 1; row i >= 1 = a_n x^i + a_(n-1) x^(i-1) + ... + a_(n-i+1) x, where
    f = sum a_k x^k: see [nm_rows_entry]), the stored basis spans the same module, and 1 lies in it *)
Theorem non_monic_order_module (f : list Z) (r : list (list Qc)) : non_monic_initial_order f = Done r ->
  let n := Z.to_nat (pdeg f) in
  (1 <= n)%coq_nat /\ from_basis (nm_rows f n) = Done r /\ qshape n n r /\
  same_qrowspan n r (nm_rows f n) /\ In_qrowspan n (qe0 n) r.
Proof. exact (OrderW3Span.non_monic_order_span f r). Qed.

Theorem nm_rows_entry (f : list Z) (n i j : nat) : (i < n)%coq_nat -> (j < n)%coq_nat ->
  List.nth j (List.nth i (nm_rows f n) [::]) q0 =
  if (i =? 0)%nat && (j =? 0)%nat then Q2Qc 1
  else if (1 <=? j)%nat && (j <=? i)%nat then qz (coef_at opsZ f (n - (i - j))%coq_nat) else q0.
Proof. exact (OrderW3Span.nm_rows_entry f n i j). Qed.

(** f = 2x^3 + 5x^2 - x + 3: rows 1, 2x, 2x^2 + 5x *)
Example non_monic_order_module_ex :
  let f := [:: 3; -1; 5; 2]%Z in
  List.map (List.map this) (nm_rows f 3) = [:: [:: 1 # 1; 0 # 1; 0 # 1]; [:: 0 # 1; 2 # 1; 0 # 1]; [:: 0 # 1; 5 # 1; 2 # 1]]%Q /\
  Base.omap (List.map (List.map this)) (non_monic_initial_order f)
    = Done [:: [:: 1 # 1; 0 # 1; 0 # 1]; [:: 0 # 1; 2 # 1; 0 # 1]; [:: 0 # 1; 1 # 1; 2 # 1]]%Q.
Proof. by split; vm_compute. Qed.

(** [P] [singly_gen f theta] for a canonical f of degree n >= 1 and an element theta of Q[x]/(f) given by a
    canonical coefficient list of length <= n ([elem n theta]): it is [from_basis] of the n rows
    [pow_row f n theta k] = coordinates of theta^k mod f (k < n) -- same outcome, so it returns exactly when the
    powers 1, theta, ..., theta^(n-1) are independent ([from_basis_returns_iff]) -- and then the stored basis
    spans Z + Z theta + ... + Z theta^(n-1); each power, and 1, lies in it *)
Theorem singly_gen_rows (f : list Z) (n : nat) (theta : list Qc) :
  canonZ f -> size f = n.+1 -> (0 < n)%nat -> elem n theta ->
  singly_gen f theta = from_basis (power_rows f n theta).
Proof. exact (@OrderW3Gen.singly_gen_rows f n theta). Qed.

Theorem singly_gen_module (f : list Z) (n : nat) (theta : list Qc) (r : list (list Qc)) :
  canonZ f -> size f = n.+1 -> (0 < n)%nat -> elem n theta ->
  singly_gen f theta = Done r ->
  [/\ from_basis (power_rows f n theta) = Done r, qshape n n r,
      same_qrowspan n r (power_rows f n theta),
      forall k, (k < n)%coq_nat -> In_qrowspan n (pow_row f n theta k) r
    & In_qrowspan n (qe0 n) r].
Proof. exact (@OrderW3Gen.singly_gen_module f n theta r). Qed.

(** non-vacuity: Dedekind's cubic, theta = x^2 + x (its powers are independent; Z[theta] has index 8 in Z[x]/(f)) *)
Example singly_gen_module_ex :
  let f := [:: -8; -2; -1; 1]%Z in let theta := [:: qz 0; qz 1; qz 1] in
  [/\ canonZ f, elem 3 theta
    & Base.omap (List.map (List.map this)) (singly_gen f theta)
      = Done [:: [:: 1 # 1; 0 # 1; 0 # 1]; [:: 0 # 1; 8 # 1; 0 # 1]; [:: 0 # 1; 1 # 1; 1 # 1]]%Q].
Proof. by split; vm_compute. Qed.

(** ** third wave (T3): [union] is total on full-rank input *)
From RNT.Refine Require OrderW3Union.
Local Open Scope ring_scope.

(** [P] union_total: on two n x n bases, n >= 1, the first of which is non-singular, [union] returns (no bounds
    failure in the read-back loop: the normal form of the stacked generators has exactly n rows; no panic in the
    normal-form computations: C02 totality).  By [union_comm] the same holds when the second one is non-singular. *)
Theorem union_total (n : nat) (a b : list (list Qc)) :
  (1 <= n)%coq_nat -> qshape n n a -> qshape n n b -> \det (qmx n n a) != 0 ->
  exists r, order_union a b = Done r.
Proof. exact (@OrderW3Union.order_union_total n a b). Qed.

(** [P] ... in particular on two stored orders (outputs of [from_basis] = [hnf_reduce] on n x n bases) of the same
    dimension; with [union_spec] the result is the stored basis of the smallest module containing both *)
Theorem union_total_stored (n : nat) (a0 b0 a b : list (list Qc)) :
  (1 <= n)%coq_nat -> qshape n n a0 -> qshape n n b0 ->
  from_basis a0 = Done a -> from_basis b0 = Done b ->
  exists r, order_union a b = Done r.
Proof. exact (@OrderW3Union.order_union_total_stored n a0 b0 a b). Qed.

(** non-vacuity: the two stored orders Z[3i], Z[2i] of [union_ex] *)
Example union_total_ex :
  let a := [:: [:: qz 1; qz 0]; [:: qhalf; qhalf]] in let b := [:: [:: qz 1; qz 0]; [:: Qcmult (qz 2) qthird; qthird]] in
  [/\ qshape 2 2 a, qshape 2 2 b,
      Base.omap (List.map (List.map this)) (from_basis a) = Done (List.map (List.map this) a),
      Base.omap (List.map (List.map this)) (from_basis b) = Done (List.map (List.map this) b)
    & Base.omap (List.map (List.map this)) (order_union a b) = Done [:: [:: 1 # 1; 0 # 1]; [:: 5 # 6; 1 # 6]]%Q].
Proof. by split; try (by vm_compute); split=> //; repeat constructor. Qed.

(** ** third wave (T5): the discriminant of an order is the determinant of its trace form -- an integer

    Hypothesis "the module is an order with an integral table" = [get_mult_table b f = Done t]: every product
    w_i w_j has integer coordinates in the basis (the rows of b), which is what the code itself checks when it
    builds the table.  [DetInvDiff.trace_form t n] is the integer matrix Tr_ij = trace(w_i w_j) computed from the
    table (the matrix of [inv_diff_dual] in C14).  Proof without roots: Euler's formula
    lc * tr(mult. by g) = coefficient n-1 of (g f' mod f), the dual basis of the power basis (Horner polynomials),
    and [AlgNormRes.resultant_redmx]; see OrderW3Trace.v, OrderW3TraceTable.v, OrderW3DiscInt.v. *)
From RNT.Refine Require DetInvDiff OrderW3DiscInt.
Local Open Scope ring_scope.

(** [P] order_disc_trace_form: for canonical f of degree n >= 1 (2n < 2^64) and an n x n basis b with
    [get_mult_table b f = Done t], [Order::discriminant] returns det Tr: [discriminant(min_poly)] returns, the
    usize arithmetic does not overflow, the division is by a non-zero number and [assert!(value.is_integer())] holds *)
Theorem order_disc_trace_form (m : mode) (f : list Z) (n : nat) :
  canonZ f -> size f = n.+1 -> (0 < n)%nat -> (2 * Z.of_nat n < two64)%Z ->
  forall b : list (list Qc), size b = n -> (forall i, (i < n)%nat -> size (seq.nth [::] b i) = n) ->
  forall t : table, get_mult_table b f = Done t ->
  Round2.order_disc m b f = Done (\det (DetInvDiff.trace_form t n)).
Proof. exact (@OrderW3DiscInt.order_disc_trace_form m f n). Qed.

(** [P] the same for [order_discriminant] at any d with d * lc f = (-1)^(n(n-1)/2) Res(f', f) *)
Theorem order_discriminant_trace_form (m : mode) (f : list Z) (n : nat) :
  canonZ f -> size f = n.+1 -> (0 < n)%nat -> (2 * Z.of_nat n < two64)%Z ->
  forall b : list (list Qc), size b = n -> (forall i, (i < n)%nat -> size (seq.nth [::] b i) = n) ->
  forall t : table, get_mult_table b f = Done t ->
  forall d : Z, d * lead_coef (Poly f) = (-1) ^+ ((n * n.-1) %/ 2) * resultant (Poly f)^`() (Poly f) ->
  order_discriminant m d b f = Done (\det (DetInvDiff.trace_form t n)).
Proof. exact (@OrderW3DiscInt.order_discriminant_trace_form m f n). Qed.

(** non-vacuity: the maximal order Z[(1 + sqrt 5)/2] of Q(sqrt 5) (f = x^2 - 5, disc 5 = det [[2 1] [1 3]]) *)
Example order_disc_trace_form_ex :
  let f := [:: -5; 0; 1]%Z in
  let b := [:: [:: qz 1; qz 0]; [:: qhalf; qhalf]] in
  [/\ canonZ f, get_mult_table b f = Done [:: [:: [:: 1; 0]; [:: 0; 1]]; [:: [:: 0; 1]; [:: 1; 1]]]%Z
    & Round2.order_disc Checked b f = Done 5%Z].
Proof. by split; vm_compute. Qed.

(** ** seventh wave: [singly_gen_disc] in degree 1

    For a LINEAR minimal polynomial f = c1 x + c0 (c1 <> 0: monic or not), [Algebraic::new] stores theta = -c0 / c1 as a
    rational constant; [singly_gen] builds the single row "1" and returns the order [[1]] = Z for every c0, c1;
    [discriminant_with_min_poly] on it returns the value of [discriminant(min_poly)] unchanged (the exponent 2 (deg - 1)
    is 0); and [discriminant] of a linear polynomial returns 1 with all divisions exact (Res(f, f') = c1, divided by
    lc f = c1).  So disc Z[theta] = disc f = 1 also in degree 1, both profiles, and nothing panics. *)
From RNT.Refine Require W7MiscSinglyGenLin.

(** [P] singly_gen_disc_linear: same shape as [singly_gen_disc] / [singly_gen_disc_returns] with n = 1 *)
Theorem singly_gen_disc_linear (m : mode) (f : list Z) (discf : Z) :
  length f = 2%N -> List.nth 1 f 0%Z <> 0%Z ->
  singly_gen f (alg_new f) = Done [:: [:: Q2Qc 1]] /\
  order_discriminant m discf [:: [:: Q2Qc 1]] f = Done discf.
Proof. exact (@W7MiscSinglyGenLin.singly_gen_disc_linear m f discf). Qed.

(** [P] singly_gen_disc_linear_wired: with the model's own [discriminant]: the order is Z, disc f = 1 (exactness flag
    true), and the discriminant of the order is 1 *)
Theorem singly_gen_disc_linear_wired (m : mode) (f : list Z) :
  length f = 2%N -> List.nth 1 f 0%Z <> 0%Z ->
  [/\ singly_gen f (alg_new f) = Done [:: [:: Q2Qc 1]],
      Resultant.discriminant m f = (true, Done 1%Z)
    & Round2.order_disc m [:: [:: Q2Qc 1]] f = Done 1%Z].
Proof. exact (@W7MiscSinglyGenLin.singly_gen_disc_linear_wired m f). Qed.

(** non-vacuity: x + 5 (theta = -5) and 3 x + 5 (theta = -5/3) *)
Example singly_gen_disc_linear_ex :
  [/\ Base.omap (List.map this) (Done (alg_new [:: 5; 3]%Z)) = Done [:: (-5 # 3)%Q],
      Base.omap (List.map (List.map this)) (singly_gen [:: 5; 1]%Z (alg_new [:: 5; 1]%Z)) = Done [:: [:: 1 # 1]]%Q,
      (do o <- singly_gen [:: 5; 1]%Z (alg_new [:: 5; 1]%Z); Round2.order_disc Checked o [:: 5; 1]%Z) = Done 1%Z
    & (do o <- singly_gen [:: 5; 3]%Z (alg_new [:: 5; 3]%Z); Round2.order_disc Wrapping o [:: 5; 3]%Z) = Done 1%Z].
Proof. by split; vm_compute. Qed.
