(** * C15: orders as canonical lattices: equality, index, union, discriminant.

    An order is its stored basis [b : qmat = list (list Qc)] (rows = basis vectors).  The
    statements about canonicity use the vocabulary of C02 (MatZ.v): [qshape n n b] (n rows of
    length n), integer matrices [U : list (list Z)] with [shape n n U], and
    [qmmul n U b] = the rational matrix U * b (each row an integer combination of the rows of b).
    Statements about [index] and the discriminant are in terms of the outcomes of the calls the
    code makes ([determinant fopsQc] is LinAlg's determinant, proved equal to [\det] in C18);
    [order_index_spec] uses MathComp matrices ([qmx n n a] reads a list of rows as a matrix).
    The discriminant of the minimal polynomial enters [order_discriminant] as the argument
    [discf] (see ASSUMPTIONS in vp/props/c15.py). *)
From RNT.Model Require Import Base Poly Algebraic LinAlg MultTable Order.
From RNT.Refine Require Import MatZ OrderBasic OrderIndex OrderLint OrderCanon OrderUnion.
From Coq Require Import List QArith Qcanon.
Import ListNotations.
Open Scope Z_scope.

(** ** canonical form *)

(** [P] lcm_den_invariant: the lcm of the denominators is the least positive d with d * b integral,
    so it only depends on the set of such d *)
Theorem lcm_den_multiplier : forall b, all_lint (lcm_den 1 b) b /\ 0 < lcm_den 1 b.
Proof. intros b. split; [apply lcm_den_lint|apply lcm_den_pos; reflexivity]. Qed.
Theorem lcm_den_least : forall b d, all_lint d b -> (lcm_den 1 b | d).
Proof. exact OrderLint.lcm_den_least. Qed.
Theorem lcm_den_invariant : forall b1 b2,
  (forall d, all_lint d b1 <-> all_lint d b2) -> lcm_den 1 b1 = lcm_den 1 b2.
Proof. exact lcm_den_eq. Qed.

(** [P] order_canonical: two n x n rational bases each of which is an integer combination of the
    other (they generate the same Z-module) are stored identically: [from_basis] has the same
    outcome on both (the same basis, or the same panic when they are singular) *)
Theorem order_canonical : forall n U V b1 b2, (1 <= n)%nat ->
  qshape n n b1 -> shape n n U -> shape n n V ->
  b2 = qmmul n U b1 -> b1 = qmmul n V b2 -> from_basis b1 = from_basis b2.
Proof. exact OrderCanon.order_canonical. Qed.

(** [P] the stored form is a fixed point: reducing a stored basis again returns it unchanged *)
Theorem hnf_reduce_idempotent : forall n b r, (1 <= n)%nat -> qshape n n b ->
  hnf_reduce b = Done r -> hnf_reduce r = Done r.
Proof. exact hnf_reduce_idem. Qed.

Theorem from_basis_hnf_reduce : forall b, from_basis b = hnf_reduce b.
Proof. exact OrderBasic.from_basis_hnf_reduce. Qed.

Definition qhalf : Qc := Qcdiv (qz 1) (qz 2).

(** Z[3i] inside Q(i) (theta = 1 + 6i) from two bases related by the unimodular U = V = [[1 0] [1 -1]]
    (rationals compared through their reduced fractions [this]) *)
Example order_canonical_ex :
  let b1 := [[qz 1; qz 0]; [qhalf; qhalf]] in
  let U := [[1; 0]; [1; -1]] in
  let b2 := qmmul 2 U b1 in
  map (map this) (qmmul 2 U b2) = map (map this) b1 /\
  map (map this) b2 = [[1 # 1; 0 # 1]; [1 # 2; -1 # 2]]%Q /\
  omap (map (map this)) (from_basis b1) = Done [[1 # 1; 0 # 1]; [1 # 2; 1 # 2]]%Q /\
  omap (map (map this)) (from_basis b2) = Done [[1 # 1; 0 # 1]; [1 # 2; 1 # 2]]%Q.
Proof. vm_compute. repeat split; reflexivity. Qed.

(** ** index *)

(** [P] the index of a (non-singular) lattice in itself is 1 *)
Theorem index_self : forall a d,
  determinant fopsQc a = Done d -> d <> Q2Qc 0 -> order_index a a = Done 1.
Proof. exact order_index_self. Qed.

(** [P] index_chain: (A:C) = (A:B)(B:C) whenever the two indices on the right are returned *)
Theorem index_chain : forall a b c i1 i2,
  order_index a b = Done i1 -> order_index b c = Done i2 -> order_index a c = Done (i1 * i2).
Proof. exact order_index_chain. Qed.

(** [P] disc_index: disc(B) = (A:B)^2 disc(A); in particular the integrality assertion passes for B
    when it passes for A *)
Theorem disc_index : forall m discf a b f i dA,
  order_index a b = Done i -> order_discriminant m discf a f = Done dA ->
  order_discriminant m discf b f = Done (i * i * dA).
Proof. exact OrderIndex.disc_index. Qed.

Definition qthird : Qc := Qcdiv (qz 1) (qz 3).

(** order.rs tests1: Z[3i] and Z[2i] inside Q(i), theta = 1 + 6i; their union has index 6 over Z[theta] *)
Example union_index_6 :
  (do o <- trivial_order_monic [37; -2; 1];
   do o1 <- from_basis [[qz 1; qz 0]; [qhalf; qhalf]];
   do o2 <- from_basis [[qz 1; qz 0]; [Qcmult (qz 2) qthird; qthird]];
   do u <- order_union o1 o2;
   order_index u o) = Done 6.
Proof. vm_compute. reflexivity. Qed.

Example disc_union :
  (do o1 <- from_basis [[qz 1; qz 0]; [qhalf; qhalf]];
   do o2 <- from_basis [[qz 1; qz 0]; [Qcmult (qz 2) qthird; qthird]];
   do u <- order_union o1 o2;
   order_discriminant Checked (-144) u [37; -2; 1]) = Done (-4).
Proof. vm_compute. reflexivity. Qed.

(** non-vacuity of index_chain / disc_index: Z[6i] < Z[3i] < Z[i]-ish chain in Q(i) *)
Example index_chain_ex :
  let a := [[qz 1; qz 0]; [qhalf; qhalf]] in let b := [[qz 1; qz 0]; [qz 0; qz 1]] in
  let c := [[qz 1; qz 0]; [qz 0; qz 3]] in
  order_index a b = Done 2 /\ order_index b c = Done 3 /\ order_index a c = Done 6 /\
  order_discriminant Checked (-144) a [37; -2; 1] = Done (-36) /\
  order_discriminant Checked (-144) b [37; -2; 1] = Done (-144).
Proof. vm_compute. repeat split; reflexivity. Qed.

(** ** union *)

(** [P] union_spec: whenever [union] returns, the stored result r contains both arguments (each is an
    integer combination of the rows of r) and is contained in their sum (the rows of r are integer
    combinations of the stacked rows of a and b): r is a basis of the smallest module containing both *)
Theorem union_spec : forall n a b r, (1 <= n)%nat -> qshape n n a -> qshape n n b ->
  order_union a b = Done r ->
  qshape n n r /\
  (exists Ua, shape n n Ua /\ a = qmmul n Ua r) /\
  (exists Ub, shape n n Ub /\ b = qmmul n Ub r) /\
  (exists W, shape n (n + n) W /\ r = qmmul n W (a ++ b)).
Proof. exact order_union_spec. Qed.

(** [P] commutative (same outcome, including panics) *)
Theorem union_comm : forall n a b, (1 <= n)%nat -> qshape n n a -> qshape n n b ->
  order_union a b = order_union b a.
Proof. exact order_union_comm. Qed.

(** [P] absorbs sub-modules: if B = U A for an integer matrix U, the union is the stored form of A *)
Theorem union_absorbs : forall n U a b r, (1 <= n)%nat -> qshape n n a -> shape n n U ->
  b = qmmul n U a -> hnf_reduce a = Done r -> order_union a b = Done r.
Proof. exact order_union_absorbs. Qed.

(** [P] idempotent *)
Theorem union_self : forall n a r, (1 <= n)%nat -> qshape n n a ->
  hnf_reduce a = Done r -> order_union a a = Done r.
Proof. exact order_union_self. Qed.

Example union_ex :
  let a := [[qz 1; qz 0]; [qhalf; qhalf]] in let b := [[qz 1; qz 0]; [Qcmult (qz 2) qthird; qthird]] in
  qshape 2 2 a /\ qshape 2 2 b /\
  omap (map (map this)) (order_union a b) = Done [[1 # 1; 0 # 1]; [5 # 6; 1 # 6]]%Q /\
  omap (map (map this)) (order_union b a) = Done [[1 # 1; 0 # 1]; [5 # 6; 1 # 6]]%Q /\
  omap (map (map this)) (order_union a a) = Done [[1 # 1; 0 # 1]; [1 # 2; 1 # 2]]%Q.
Proof. repeat split; try (vm_compute; reflexivity); repeat constructor. Qed.

(** ** index = determinant of the change of basis (MathComp matrices; C18's [qmx], [square]) *)
From mathcomp Require Import all_ssreflect ssralg matrix.
From mathcomp Require Import ssrZ.
From RNT.Refine Require Import QcField LinAlgQc OrderDet.
Local Open Scope ring_scope.

(** [P] index_spec: if B = S A for an integer matrix S and A is non-singular, [index A B] returns det S;
    together with [index_chain] this is multiplicativity of the index in chains A > B > C *)
Theorem index_spec (a b : list (list Qc)) (S : 'M[Z]_(length a)) :
  square a -> square b -> length b = length a ->
  let n := length a in
  \det (qmx n n a) != 0 ->
  qmx n n b = map_mx q_of_Z S *m qmx n n a ->
  order_index a b = Done (\det S).
Proof. exact (@order_index_spec a b S). Qed.

(** non-vacuity of [index_spec]: S = 1, A = B = Z[3i] (its determinant is 1/2 by C18's [determinant_ok]) *)
Example index_spec_ex :
  let a := [:: [:: qz 1; qz 0]; [:: qhalf; qhalf]] in
  [/\ square a, \det (qmx 2 2 a) != 0 & qmx 2 2 a = map_mx q_of_Z (1%:M : 'M[Z]_2) *m qmx 2 2 a].
Proof.
split.
- by repeat constructor.
- have e : LinAlg.determinant fopsQc [:: [:: qz 1; qz 0]; [:: qhalf; qhalf]] = Done qhalf by vm_compute.
  by rewrite -(determinant_ok e).
- by rewrite map_mx1 mul1mx.
Qed.

(** ** positivity of the index: index = |det S| > 0 for stored bases *)
From RNT.Refine Require Import OrderCanon DetBridge DetOrder.
Local Open Scope ring_scope.

(** [P] index_abs_det: for STORED bases a, b (outputs of [hnf_reduce] = [from_basis] on n x n rational
    bases a0, b0) with b = S a for an integer matrix S, [index a b] returns det S, and det S > 0, i.e. the
    index is |det S| and positive: a stored basis is a positive multiple of a square normal form
    (lower triangular, positive diagonal), so its determinant is positive *)
Theorem index_abs_det (n : nat) (a0 b0 a b : list (list Qc)) (S : 'M[Z]_n) :
  (1 <= n)%coq_nat -> qshape n n a0 -> qshape n n b0 ->
  hnf_reduce a0 = Done a -> hnf_reduce b0 = Done b ->
  qmx n n b = map_mx q_of_Z S *m qmx n n a ->
  (0 < \det S)%Z /\ order_index a b = Done (Z.abs (\det S)).
Proof. exact (@order_index_abs_det n a0 b0 a b S). Qed.

(** [P] the same with S a list matrix and b = S a written with [qmmul] (the vocabulary of [order_canonical]);
    [qmx (qmmul n S a) = map_mx q_of_Z (zmx S) *m qmx a] is [DetOrder.qmx_qmmul] *)
Theorem index_abs_det_list (n : nat) (Sl : list (list Z)) (a0 b0 a b : list (list Qc)) :
  (1 <= n)%coq_nat -> qshape n n a0 -> qshape n n b0 ->
  hnf_reduce a0 = Done a -> hnf_reduce b0 = Done b ->
  MatZ.shape n n Sl -> b = qmmul n Sl a ->
  (0 < \det (zmx n n Sl))%Z /\ order_index a b = Done (Z.abs (\det (zmx n n Sl))).
Proof. exact (@order_index_abs_det_list n Sl a0 b0 a b). Qed.

(** [P] the determinant of a stored basis is a positive rational: l^n * det = p with integers l, p > 0 *)
Theorem stored_basis_det_pos (n : nat) (b r : list (list Qc)) :
  (1 <= n)%coq_nat -> qshape n n b -> hnf_reduce b = Done r ->
  exists l p : Z, [/\ (0 < l)%Z, (0 < p)%Z, length r = n, square r
                    & q_of_Z l ^+ n * \det (qmx n n r) = q_of_Z p].
Proof. exact (@stored_det n b r). Qed.

(** non-vacuity: Z[i]-ish (stored) > Z + 3 Z i (stored), S = [[1 0] [-1 6]]... the stored forms of
    a0 = [[1 0] [1/2 1/2]] and b0 = [[1 0] [0 3]] are themselves, b0 = S a0 with S = [[1 0] [-3 6]], index 6 *)
Example index_abs_det_ex :
  let a := [:: [:: qz 1; qz 0]; [:: qhalf; qhalf]] in
  let b := [:: [:: qz 1; qz 0]; [:: qz 0; qz 3]] in
  let Sl := [:: [:: 1; 0]; [:: -3; 6]]%Z in
  [/\ qshape 2 2 a, qshape 2 2 b & MatZ.shape 2 2 Sl] /\
  [/\ Base.omap (List.map (List.map this)) (hnf_reduce a) = Done (List.map (List.map this) a),
      Base.omap (List.map (List.map this)) (hnf_reduce b) = Done (List.map (List.map this) b),
      List.map (List.map this) b = List.map (List.map this) (qmmul 2 Sl a)
    & order_index a b = Done 6%Z].
Proof.
split; last by split; vm_compute.
by split; split=> //; repeat constructor.
Qed.

(** ** the stored form keeps the determinant up to sign; the power-basis order has discriminant disc f *)
From RNT.Refine Require Import DetSinglyGen.

(** [P] hnf_reduce_det: the stored basis has the determinant of the given basis up to a sign s = +-1
    (the change of basis is unimodular); by [stored_basis_det_pos] the sign makes it positive *)
Theorem hnf_reduce_det (n : nat) (b r : list (list Qc)) :
  (1 <= n)%coq_nat -> qshape n n b -> hnf_reduce b = Done r ->
  exists s : Z, (s = 1%Z \/ s = (-1)%Z) /\ \det (qmx n n r) = q_of_Z s * \det (qmx n n b).
Proof. exact (@DetSinglyGen.hnf_reduce_det n b r). Qed.

(** [P] singly_gen_disc: for a monic minimal polynomial f of degree n >= 2 and its root theta
    ([Algebraic::new], expr = x), the order Z[theta] returned by [singly_gen] has discriminant disc f:
    whenever [discriminant_with_min_poly] returns d, d is the value [discf] of disc(min_poly); the rows
    built by [singly_gen] are the unit vectors ([DetSinglyGenA.singly_gen_power_basis]), so the stored basis has
    determinant 1 *)
Theorem singly_gen_disc (m : mode) (f : list Z) (n : nat) (discf : Z) (o : list (list Qc)) (d : Z) :
  length f = n.+1 -> (2 <= n)%coq_nat -> List.nth n f 0%Z = 1%Z ->
  singly_gen f (alg_new f) = Done o -> order_discriminant m discf o f = Done d ->
  d = discf.
Proof. exact (@DetSinglyGen.singly_gen_disc m f n discf o d). Qed.

(** [P] ... and it does return (the usize product 2 * (deg - 1) does not overflow) *)
Theorem singly_gen_disc_returns (m : mode) (f : list Z) (n : nat) (discf : Z) (o : list (list Qc)) :
  length f = n.+1 -> (2 <= n)%coq_nat -> List.nth n f 0%Z = 1%Z -> (2 * Z.of_nat n < two64)%Z ->
  singly_gen f (alg_new f) = Done o -> order_discriminant m discf o f = Done discf.
Proof. exact (@DetSinglyGen.singly_gen_disc_returns m f n discf o). Qed.

(** non-vacuity: f = x^3 - x^2 - 2x - 8 (Dedekind's cubic, disc f = -2012 = 4 * (-503)), theta its root *)
Example singly_gen_disc_ex :
  let f := [:: -8; -2; -1; 1]%Z in
  [/\ List.nth 3 f 0%Z = 1%Z,
      Base.omap (List.map (List.map this)) (singly_gen f (alg_new f))
        = Done [:: [:: 1 # 1; 0 # 1; 0 # 1]; [:: 0 # 1; 1 # 1; 0 # 1]; [:: 0 # 1; 0 # 1; 1 # 1]]%Q
    & (do o <- singly_gen f (alg_new f); order_discriminant Checked (-2012) o f) = Done (-2012)%Z].
Proof. by split; vm_compute. Qed.

(** [P] from_basis_returns_iff: on an n x n rational basis, [from_basis] (= [hnf_reduce]) returns a stored
    basis exactly when the basis is non-singular (otherwise the normal form has fewer than n rows and the
    read-back loop panics): totality of [from_basis] on full-rank input, and only there *)
Theorem from_basis_returns_iff (n : nat) (b : list (list Qc)) :
  (1 <= n)%coq_nat -> qshape n n b ->
  ((exists r, from_basis b = Done r) <-> \det (qmx n n b) != 0).
Proof. exact (@hnf_reduce_returns_iff n b). Qed.

Example from_basis_singular_ex :
  from_basis [:: [:: qz 1; qz 2]; [:: qz 2; qz 4]] = Panic PIndex.
Proof. by vm_compute. Qed.
