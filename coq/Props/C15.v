(** * C15: orders as canonical lattices: equality, index, union, discriminant.

    An order is its stored basis [b : qmat = list (list Qc)] (rows = basis vectors).  The
    statements about canonicity use the vocabulary of C02 (MatZ.v): [qshape n n b] (n rows of
    length n), integer matrices [U : list (list Z)] with [shape n n U], and
    [qmmul n U b] = the rational matrix U * b (each row an integer combination of the rows of b).
    Statements about [index] and the discriminant are in terms of the outcomes of the calls the
    code makes ([determinant fopsQc] is LinAlg's determinant, proved equal to [\det] in C18);
    [order_index_spec] uses MathComp matrices ([qmx n n a] reads a list of rows as a matrix).
    The discriminant of the minimal polynomial enters [order_discriminant] as the argument
    [discf] (see ASSUMPTIONS in vp/props/c15.py). *)
From RNT.Model Require Import Base Poly Algebraic LinAlg MultTable Order.
From RNT.Refine Require Import MatZ OrderBasic OrderIndex OrderLint OrderCanon OrderUnion.
From Coq Require Import List QArith Qcanon.
Import ListNotations.
Open Scope Z_scope.

(** ** canonical form *)

(** [P] lcm_den_invariant: the lcm of the denominators is the least positive d with d * b integral,
    so it only depends on the set of such d *)
Theorem lcm_den_multiplier : forall b, all_lint (lcm_den 1 b) b /\ 0 < lcm_den 1 b.
Proof. intros b. split; [apply lcm_den_lint|apply lcm_den_pos; reflexivity]. Qed.
Theorem lcm_den_least : forall b d, all_lint d b -> (lcm_den 1 b | d).
Proof. exact OrderLint.lcm_den_least. Qed.
Theorem lcm_den_invariant : forall b1 b2,
  (forall d, all_lint d b1 <-> all_lint d b2) -> lcm_den 1 b1 = lcm_den 1 b2.
Proof. exact lcm_den_eq. Qed.

(** [P] order_canonical: two n x n rational bases each of which is an integer combination of the
    other (they generate the same Z-module) are stored identically: [from_basis] has the same
    outcome on both (the same basis, or the same panic when they are singular) *)
Theorem order_canonical : forall n U V b1 b2, (1 <= n)%nat ->
  qshape n n b1 -> shape n n U -> shape n n V ->
  b2 = qmmul n U b1 -> b1 = qmmul n V b2 -> from_basis b1 = from_basis b2.
Proof. exact OrderCanon.order_canonical. Qed.

(** [P] the stored form is a fixed point: reducing a stored basis again returns it unchanged *)
Theorem hnf_reduce_idempotent : forall n b r, (1 <= n)%nat -> qshape n n b ->
  hnf_reduce b = Done r -> hnf_reduce r = Done r.
Proof. exact hnf_reduce_idem. Qed.

Theorem from_basis_hnf_reduce : forall b, from_basis b = hnf_reduce b.
Proof. exact OrderBasic.from_basis_hnf_reduce. Qed.

Definition qhalf : Qc := Qcdiv (qz 1) (qz 2).

(** Z[3i] inside Q(i) (theta = 1 + 6i) from two bases related by the unimodular U = V = [[1 0] [1 -1]]
    (rationals compared through their reduced fractions [this]) *)
Example order_canonical_ex :
  let b1 := [[qz 1; qz 0]; [qhalf; qhalf]] in
  let U := [[1; 0]; [1; -1]] in
  let b2 := qmmul 2 U b1 in
  map (map this) (qmmul 2 U b2) = map (map this) b1 /\
  map (map this) b2 = [[1 # 1; 0 # 1]; [1 # 2; -1 # 2]]%Q /\
  omap (map (map this)) (from_basis b1) = Done [[1 # 1; 0 # 1]; [1 # 2; 1 # 2]]%Q /\
  omap (map (map this)) (from_basis b2) = Done [[1 # 1; 0 # 1]; [1 # 2; 1 # 2]]%Q.
Proof. vm_compute. repeat split; reflexivity. Qed.

(** ** index *)

(** [P] the index of a (non-singular) lattice in itself is 1 *)
Theorem index_self : forall a d,
  determinant fopsQc a = Done d -> d <> Q2Qc 0 -> order_index a a = Done 1.
Proof. exact order_index_self. Qed.

(** [P] index_chain: (A:C) = (A:B)(B:C) whenever the two indices on the right are returned *)
Theorem index_chain : forall a b c i1 i2,
  order_index a b = Done i1 -> order_index b c = Done i2 -> order_index a c = Done (i1 * i2).
Proof. exact order_index_chain. Qed.

(** [P] disc_index: disc(B) = (A:B)^2 disc(A); in particular the integrality assertion passes for B
    when it passes for A *)
Theorem disc_index : forall m discf a b f i dA,
  order_index a b = Done i -> order_discriminant m discf a f = Done dA ->
  order_discriminant m discf b f = Done (i * i * dA).
Proof. exact OrderIndex.disc_index. Qed.

Definition qthird : Qc := Qcdiv (qz 1) (qz 3).

(** order.rs tests1: Z[3i] and Z[2i] inside Q(i), theta = 1 + 6i; their union has index 6 over Z[theta] *)
Example union_index_6 :
  (do o <- trivial_order_monic [37; -2; 1];
   do o1 <- from_basis [[qz 1; qz 0]; [qhalf; qhalf]];
   do o2 <- from_basis [[qz 1; qz 0]; [Qcmult (qz 2) qthird; qthird]];
   do u <- order_union o1 o2;
   order_index u o) = Done 6.
Proof. vm_compute. reflexivity. Qed.

Example disc_union :
  (do o1 <- from_basis [[qz 1; qz 0]; [qhalf; qhalf]];
   do o2 <- from_basis [[qz 1; qz 0]; [Qcmult (qz 2) qthird; qthird]];
   do u <- order_union o1 o2;
   order_discriminant Checked (-144) u [37; -2; 1]) = Done (-4).
Proof. vm_compute. reflexivity. Qed.

(** non-vacuity of index_chain / disc_index: Z[6i] < Z[3i] < Z[i]-ish chain in Q(i) *)
Example index_chain_ex :
  let a := [[qz 1; qz 0]; [qhalf; qhalf]] in let b := [[qz 1; qz 0]; [qz 0; qz 1]] in
  let c := [[qz 1; qz 0]; [qz 0; qz 3]] in
  order_index a b = Done 2 /\ order_index b c = Done 3 /\ order_index a c = Done 6 /\
  order_discriminant Checked (-144) a [37; -2; 1] = Done (-36) /\
  order_discriminant Checked (-144) b [37; -2; 1] = Done (-144).
Proof. vm_compute. repeat split; reflexivity. Qed.

(** ** union *)

(** [P] union_spec: whenever [union] returns, the stored result r contains both arguments (each is an
    integer combination of the rows of r) and is contained in their sum (the rows of r are integer
    combinations of the stacked rows of a and b): r is a basis of the smallest module containing both *)
Theorem union_spec : forall n a b r, (1 <= n)%nat -> qshape n n a -> qshape n n b ->
  order_union a b = Done r ->
  qshape n n r /\
  (exists Ua, shape n n Ua /\ a = qmmul n Ua r) /\
  (exists Ub, shape n n Ub /\ b = qmmul n Ub r) /\
  (exists W, shape n (n + n) W /\ r = qmmul n W (a ++ b)).
Proof. exact order_union_spec. Qed.

(** [P] commutative (same outcome, including panics) *)
Theorem union_comm : forall n a b, (1 <= n)%nat -> qshape n n a -> qshape n n b ->
  order_union a b = order_union b a.
Proof. exact order_union_comm. Qed.

(** [P] absorbs sub-modules: if B = U A for an integer matrix U, the union is the stored form of A *)
Theorem union_absorbs : forall n U a b r, (1 <= n)%nat -> qshape n n a -> shape n n U ->
  b = qmmul n U a -> hnf_reduce a = Done r -> order_union a b = Done r.
Proof. exact order_union_absorbs. Qed.

(** [P] idempotent *)
Theorem union_self : forall n a r, (1 <= n)%nat -> qshape n n a ->
  hnf_reduce a = Done r -> order_union a a = Done r.
Proof. exact order_union_self. Qed.

Example union_ex :
  let a := [[qz 1; qz 0]; [qhalf; qhalf]] in let b := [[qz 1; qz 0]; [Qcmult (qz 2) qthird; qthird]] in
  qshape 2 2 a /\ qshape 2 2 b /\
  omap (map (map this)) (order_union a b) = Done [[1 # 1; 0 # 1]; [5 # 6; 1 # 6]]%Q /\
  omap (map (map this)) (order_union b a) = Done [[1 # 1; 0 # 1]; [5 # 6; 1 # 6]]%Q /\
  omap (map (map this)) (order_union a a) = Done [[1 # 1; 0 # 1]; [1 # 2; 1 # 2]]%Q.
Proof. repeat split; try (vm_compute; reflexivity); repeat constructor. Qed.

(** ** index = determinant of the change of basis (MathComp matrices; C18's [qmx], [square]) *)
From mathcomp Require Import all_ssreflect ssralg matrix.
From mathcomp Require Import ssrZ.
From RNT.Refine Require Import QcField LinAlgQc OrderDet.
Local Open Scope ring_scope.

(** [P] index_spec: if B = S A for an integer matrix S and A is non-singular, [index A B] returns det S;
    together with [index_chain] this is multiplicativity of the index in chains A > B > C *)
Theorem index_spec (a b : list (list Qc)) (S : 'M[Z]_(length a)) :
  square a -> square b -> length b = length a ->
  let n := length a in
  \det (qmx n n a) != 0 ->
  qmx n n b = map_mx q_of_Z S *m qmx n n a ->
  order_index a b = Done (\det S).
Proof. exact (@order_index_spec a b S). Qed.

(** non-vacuity of [index_spec]: S = 1, A = B = Z[3i] (its determinant is 1/2 by C18's [determinant_ok]) *)
Example index_spec_ex :
  let a := [:: [:: qz 1; qz 0]; [:: qhalf; qhalf]] in
  [/\ square a, \det (qmx 2 2 a) != 0 & qmx 2 2 a = map_mx q_of_Z (1%:M : 'M[Z]_2) *m qmx 2 2 a].
Proof.
split.
- by repeat constructor.
- have e : LinAlg.determinant fopsQc [:: [:: qz 1; qz 0]; [:: qhalf; qhalf]] = Done qhalf by vm_compute.
  by rewrite -(determinant_ok e).
- by rewrite map_mx1 mul1mx.
Qed.
