(** C15: orders as canonical lattices (first version). *)
From RNT.Model Require Import Base Poly Algebraic LinAlg MultTable Order.
From RNT.Refine Require Import OrderBasic.
From Coq Require Import QArith Qcanon.
Open Scope Z_scope.

Theorem from_basis_hnf_reduce : forall b, from_basis b = hnf_reduce b.
Proof. exact OrderBasic.from_basis_hnf_reduce. Qed.

Definition half : Qc := Qcdiv (qz 1) (qz 2).
Definition third : Qc := Qcdiv (qz 1) (qz 3).

(** order.rs tests1: Z[3i] and Z[2i] inside Q(i), theta = 1 + 6i; their union has index 6 over Z[theta] *)
Example union_index_6 :
  (do o <- trivial_order_monic [37; -2; 1];
   do o1 <- from_basis [[qz 1; qz 0]; [half; half]];
   do o2 <- from_basis [[qz 1; qz 0]; [Qcmult (qz 2) third; third]];
   do u <- order_union o1 o2;
   order_index u o) = Done 6.
Proof. vm_compute. reflexivity. Qed.

Example disc_union :
  (do o1 <- from_basis [[qz 1; qz 0]; [half; half]];
   do o2 <- from_basis [[qz 1; qz 0]; [Qcmult (qz 2) third; third]];
   do u <- order_union o1 o2;
   order_discriminant Checked (-144) u [37; -2; 1]) = Done (-4).
Proof. vm_compute. reflexivity. Qed.
