(** * C01: integer factorisation (ecm.rs, ecm_parallel.rs; inverse.rs, prime.rs, perfect_power.rs through Elementary).
    Statements only; proofs in Refine/Ecm*.v. Entry points are the functions the correspondence check runs
    ([Ecm.ecm], [EcmParallel.ecm], the two [factorize_verbose], [ecm_oneshot], [ecm_oneshot_parallel], [many_simplify]).
    [m] ranges over the two build profiles, [r] over all draw streams, [cfuel]/[fuel] over all curve budgets;
    [OutOfFuel] (the curve loop has no bound in the code) is excluded by the [= Done _] hypotheses. *)
From Coq Require Import ZArith List Znumtheory Sorted.
From RNT.Model Require Import Base Elementary Ecm EcmParallel.
From RNT.Refine Require Import EcmSound EcmDriver EcmOverflow EcmBatch EcmRefute EcmExamples.
Open Scope Z_scope.

(** ** [P] ecm_divisor_sound: whatever [ecm] returns is a proper divisor. *)
Theorem ecm_divisor_sound : forall fuel m n b1 b2 r d c r',
  1 < n -> Ecm.ecm fuel m n b1 b2 r = Done (d, c, r') -> 1 < d < n /\ (d | n).
Proof. exact EcmSound.ecm_divisor_sound. Qed.

Theorem ecm_parallel_divisor_sound : forall fuel m n b1 b2 r d c r',
  1 < n -> EcmParallel.ecm fuel m n b1 b2 r = Done (d, c, r') -> 1 < d < n /\ (d | n).
Proof. exact EcmSound.ecm_parallel_divisor_sound. Qed.

Example ecm_divisor_sound_nonvacuous :
  Ecm.ecm 5 Checked 91 4 400 (rng_of demo_ecm_bytes) = Done (13, 1, rng_of []).
Proof. vm_compute. reflexivity. Qed.
Example ecm_parallel_divisor_sound_nonvacuous :
  EcmParallel.ecm 5 Checked 91 4 400 (rng_of demo_ecm_par_bytes) = Done (13, 2, rng_of []).
Proof. vm_compute. reflexivity. Qed.

(** ** [P] driver_exact: strictly increasing bases, positive exponents, exact product, every base
    accepted by [is_prime] on some draws ([accepted p := exists r r', is_prime p r = Done (true, r')]). *)
Theorem driver_exact : forall cfuel m x b1 r l c r',
  Ecm.factorize_verbose cfuel m x b1 r = Done (l, c, r') ->
  Sorted Z.lt (map fst l) /\ Forall (fun pe => 0 < snd pe) l /\
  Forall (fun pe => accepted (fst pe)) l /\ fprod l = x.
Proof. exact EcmDriver.driver_exact. Qed.

Theorem driver_parallel_exact : forall cfuel m x b1 r l c r',
  EcmParallel.factorize_verbose cfuel m x b1 r = Done (l, c, r') ->
  Sorted Z.lt (map fst l) /\ Forall (fun pe => 0 < snd pe) l /\
  Forall (fun pe => accepted (fst pe)) l /\ fprod l = x.
Proof. exact EcmDriver.driver_parallel_exact. Qed.

Example driver_exact_nonvacuous :
  Ecm.factorize_verbose 5 Checked 91 4 (rng_of demo_driver_bytes) = Done ([(7, 1); (13, 1)], 1, rng_of []).
Proof. vm_compute. reflexivity. Qed.
Example driver_parallel_exact_nonvacuous :
  EcmParallel.factorize_verbose 5 Checked 91 4 (rng_of demo_driver_par_bytes) = Done ([(7, 1); (13, 1)], 2, rng_of []).
Proof. vm_compute. reflexivity. Qed.
Example fprod_example : fprod [(2, 3); (3, 2); (5, 1)] = 360.
Proof. reflexivity. Qed.

(** n = 1 gives the empty list (no draw consumed); n <= 0 is the documented panic. *)
Theorem driver_one : forall cfuel m b1 r, Ecm.factorize_verbose cfuel m 1 b1 r = Done ([], 0, r).
Proof. exact EcmDriver.driver_one. Qed.
Theorem driver_parallel_one : forall cfuel m b1 r, EcmParallel.factorize_verbose cfuel m 1 b1 r = Done ([], 0, r).
Proof. exact EcmDriver.driver_parallel_one. Qed.
Theorem driver_nonpos : forall cfuel m x b1 r, x <= 0 -> Ecm.factorize_verbose cfuel m x b1 r = Panic POther.
Proof. exact EcmDriver.driver_nonpos. Qed.
Theorem driver_parallel_nonpos : forall cfuel m x b1 r, x <= 0 -> EcmParallel.factorize_verbose cfuel m x b1 r = Panic POther.
Proof. exact EcmDriver.driver_parallel_nonpos. Qed.

(** ** [C] driver_prime_factorisation_partial: conditional on the accepted bases being prime
    (full statement: every accepted base IS prime -- false for adversarial draws, see below; C13 bounds
    the probability), the list is the prime factorisation: exactly the prime divisors, product x. *)
Corollary driver_prime_factorisation_partial : forall cfuel m x b1 r l c r',
  Ecm.factorize_verbose cfuel m x b1 r = Done (l, c, r') ->
  Forall (fun pe => prime (fst pe)) l ->
  Sorted Z.lt (map fst l) /\ Forall (fun pe => 0 < snd pe) l /\ fprod l = x /\
  forall q, prime q -> ((q | x) <-> In q (map fst l)).
Proof. exact EcmDriver.driver_prime_factorisation. Qed.

Corollary driver_parallel_prime_factorisation_partial : forall cfuel m x b1 r l c r',
  EcmParallel.factorize_verbose cfuel m x b1 r = Done (l, c, r') ->
  Forall (fun pe => prime (fst pe)) l ->
  Sorted Z.lt (map fst l) /\ Forall (fun pe => 0 < snd pe) l /\ fprod l = x /\
  forall q, prime q -> ((q | x) <-> In q (map fst l)).
Proof. exact EcmDriver.driver_parallel_prime_factorisation. Qed.

(** ... and it is THE prime factorisation: any strictly increasing list of primes with positive exponents
    and product x ([prime_fact]) equals it. *)
Corollary driver_unique_factorisation_partial : forall cfuel m x b1 r l c r',
  Ecm.factorize_verbose cfuel m x b1 r = Done (l, c, r') ->
  Forall (fun pe => prime (fst pe)) l ->
  prime_fact l /\ fprod l = x /\ forall l', prime_fact l' -> fprod l' = x -> l' = l.
Proof. exact EcmDriver.driver_unique_factorisation. Qed.

Corollary driver_parallel_unique_factorisation_partial : forall cfuel m x b1 r l c r',
  EcmParallel.factorize_verbose cfuel m x b1 r = Done (l, c, r') ->
  Forall (fun pe => prime (fst pe)) l ->
  prime_fact l /\ fprod l = x /\ forall l', prime_fact l' -> fprod l' = x -> l' = l.
Proof. exact EcmDriver.driver_parallel_unique_factorisation. Qed.

(** ** [P] no_overflow_panic (dev profile): no arithmetic-overflow panic from the stage-2 start values,
    [cur_e += 6] or [1..b1 + 1] when b1 <= 2^64 - 2 and b2 <= 2^64 - 7; b1 = 0 and b1 = 4 (the value
    select_b returns for every n <= 1000, where the unrepaired code underflowed) included. *)
Theorem oneshot_no_overflow : forall pt c b1 b2, 0 <= b1 <= two64 - 2 -> b2 <= two64 - 7 ->
  ecm_oneshot Checked pt c b1 b2 <> Panic POverflow.
Proof. exact EcmOverflow.oneshot_no_overflow. Qed.

Theorem oneshot_parallel_no_overflow : forall joint b1 b2, 0 <= b1 <= two64 - 2 -> b2 <= two64 - 7 ->
  ecm_oneshot_parallel Checked joint b1 b2 <> Panic POverflow.
Proof. exact EcmOverflow.oneshot_parallel_no_overflow. Qed.

Theorem no_overflow_panic : forall cfuel x b1 r, 0 <= b1 -> b1 * 100 <= two64 - 7 ->
  Ecm.factorize_verbose cfuel Checked x b1 r <> Panic POverflow.
Proof. exact EcmOverflow.no_overflow_panic. Qed.

Theorem no_overflow_panic_parallel : forall cfuel x b1 r, 0 <= b1 -> b1 * 100 <= two64 - 7 ->
  EcmParallel.factorize_verbose cfuel Checked x b1 r <> Panic POverflow.
Proof. exact EcmOverflow.no_overflow_panic_parallel. Qed.

(** The bound on b1 is sharp. *)
Theorem oneshot_overflow_b1_max : forall pt c b2, ecm_oneshot Checked pt c (two64 - 1) b2 = Panic POverflow.
Proof. exact EcmOverflow.oneshot_overflow_b1_max. Qed.

Example no_overflow_nonvacuous : (0 <= 4 <= two64 - 2) /\ 4 * 100 <= two64 - 7 /\
  ecm_oneshot Checked (mkPoint 1 1 1) (mkEll 5 91) 4 400 = Done (RErr 13).
Proof. vm_compute. repeat split; discriminate. Qed.

(** ** [P] many_simplify_spec: the batched inversion agrees point by point with the sequential
    [simplify] ([agrees n p o]: o = inf when z = 0, else z(o) = 1 and whenever [simplify p] returns it
    returns a point -- not a divisor -- with coordinates congruent to those of o mod n). *)
Theorem many_simplify_spec : forall pts n out, 0 < n ->
  many_simplify pts n = Done (ROk out) -> Forall2 (agrees n) pts out.
Proof. exact EcmBatch.many_simplify_spec. Qed.

Example many_simplify_nonvacuous :
  many_simplify [mkPoint 2 1 4; inf; mkPoint 1 4 3; mkPoint 2 3 2] 5
  = Done (ROk [mkPoint 3 4 1; inf; mkPoint 2 3 1; mkPoint 1 4 1]).
Proof. vm_compute. reflexivity. Qed.

(** [P] For non-negative z-coordinates the representatives coincide: the batch returns literally
    what the sequential [simplify] returns. *)
Theorem many_simplify_exact : forall pts n out c, 0 < n -> en c = n ->
  Forall (fun p => 0 <= pz p) pts ->
  many_simplify pts n = Done (ROk out) ->
  Forall2 (fun p o => forall r, simplify p c = Done r -> r = ROk o) pts out.
Proof. exact EcmBatch.many_simplify_exact. Qed.

(** Why the general statement is up to congruence: with a negative z (they do arise, z = xdif^3 % n with the
    truncating remainder) the batch returns the representative -2 where the sequential routine returns 3 (mod 5). *)
Example many_simplify_negative_z_representative :
  many_simplify [mkPoint 1 1 (-1); mkPoint 1 1 2] 5 = Done (ROk [mkPoint 4 4 1; mkPoint (-2) (-2) 1]) /\
  simplify (mkPoint 1 1 2) (mkEll 1 5) = Done (ROk (mkPoint 3 3 1)).
Proof. vm_compute. split; reflexivity. Qed.

(** ** Refuted readings of the property (witnesses by computation; replayed on the real code). *)
(** "whatever bases the generator draws": with all Miller-Rabin bases equal to 1 the driver returns 9^1. *)
Theorem driver_all_draws_refuted :
  exists x r cfuel m b1 l c r', 1 <= x /\
    Ecm.factorize_verbose cfuel m x b1 r = Done (l, c, r') /\ exists pe, In pe l /\ ~ prime (fst pe).
Proof. exact EcmRefute.driver_all_draws_refuted. Qed.

Theorem driver_parallel_all_draws_refuted :
  exists x r cfuel m b1 l c r', 1 <= x /\
    EcmParallel.factorize_verbose cfuel m x b1 r = Done (l, c, r') /\ exists pe, In pe l /\ ~ prime (fst pe).
Proof. exact EcmRefute.driver_parallel_all_draws_refuted. Qed.

(** dev profile: [debug_assert!(!is_prime(n))] inside [ecm] repeats the randomised test and can fail on a composite. *)
Theorem driver_dev_assert_refuted :
  exists x r cfuel b1, 1 <= x /\ Ecm.factorize_verbose cfuel Checked x b1 r = Panic PAssert.
Proof. exact EcmRefute.driver_dev_assert_refuted. Qed.

Theorem driver_parallel_dev_assert_refuted :
  exists x r cfuel b1, 1 <= x /\ EcmParallel.factorize_verbose cfuel Checked x b1 r = Panic PAssert.
Proof. exact EcmRefute.driver_parallel_dev_assert_refuted. Qed.
