(** C12: roots modulo p (first version: executable-model milestone). *)
From RNT.Model Require Import Base Poly PolyModP LinearRoots.
From RNT.Refine Require Import PolyModStart.
Open Scope Z_scope.

(** [P] a non-zero constant has no root. *)
Theorem roots_of_constant : forall md c p r,
  p <> 0 -> p <> 2 -> c mod p <> 0 -> find_linear_factors md [c] p r = Done ([], r).
Proof. exact roots_of_constant. Qed.
