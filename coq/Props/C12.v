(** C12: root finding modulo p.

    [pof opsZ f x] is Horner evaluation of f at x over Z (Model/Poly.v). *)
From Coq Require Import ZArith List Lia Znumtheory.
From RNT.Model Require Import Base Poly PolyModP LinearRoots.
From RNT.Refine Require Import RootsProofs RootsComplete PolyModStart.
Import ListNotations.
Open Scope Z_scope.

(** [P] [roots_sound]: for every prime p, every build profile, every f (also f = 0 mod p) and
    every stream of random bytes: if [find_linear_factors] returns, every returned value lies
    in [0, p) and is a root of f modulo p. *)
Theorem roots_sound : forall md f p r roots r',
  prime p -> find_linear_factors md f p r = Done (roots, r') ->
  Forall (fun x => 0 <= x < p /\ (pof opsZ f x) mod p = 0) roots.
Proof. exact roots_sound. Qed.

(** Non-vacuity: x (x - 1)^2 (x^2 + 1) = x^5 - 2x^4 + 2x^3 - 2x^2 + x modulo 3 with three scripted
    draws (12 bytes); the run returns the roots 0, 1, 1. *)
Example roots_sound_nonvacuous :
  prime 3 /\
  exists r', find_linear_factors Checked [0; 1; -2; 2; -2; 1] 3 (rng_of [1; 0; 0; 0; 0; 0; 0; 0; 1; 0; 0; 0]) = Done ([0; 1; 1], r').
Proof. split; [exact prime_3|]. eexists. vm_compute. reflexivity. Qed.

(** [P] [roots_complete_set]: conversely every root of f modulo p in [0, p) is returned (for every
    prime p, profile and draw stream on which the run returns; f = 0 mod p never returns). With
    [roots_sound]: the set of returned values is exactly the set of roots of f in F_p; in
    particular the list is empty iff f has no root. The "no progress => discard" exit is justified
    by Euler's criterion. Multiplicities are not covered. *)
Theorem roots_complete_set : forall md f p r roots r',
  prime p -> find_linear_factors md f p r = Done (roots, r') ->
  forall b, 0 <= b < p -> (pof opsZ f b) mod p = 0 -> In b roots.
Proof. exact roots_complete_set. Qed.

(** [P] a non-zero constant has no root. *)
Theorem roots_of_constant : forall md c p r,
  p <> 0 -> p <> 2 -> c mod p <> 0 -> find_linear_factors md [c] p r = Done ([], r).
Proof. exact roots_of_constant. Qed.
