(** C12: root finding modulo p.

    [pof opsZ f x] is Horner evaluation of f at x over Z (Model/Poly.v). *)
From Coq Require Import ZArith List Lia Znumtheory.
From RNT.Model Require Import Base Poly PolyModP LinearRoots.
From RNT.Refine Require Import RootsProofs RootsComplete PolyModStart.
Import ListNotations.
Open Scope Z_scope.

(** [P] [roots_sound]: for every prime p, every build profile, every f (also f = 0 mod p) and
    every stream of random bytes: if [find_linear_factors] returns, every returned value lies
    in [0, p) and is a root of f modulo p. *)
Theorem roots_sound : forall md f p r roots r',
  prime p -> find_linear_factors md f p r = Done (roots, r') ->
  Forall (fun x => 0 <= x < p /\ (pof opsZ f x) mod p = 0) roots.
Proof. exact roots_sound. Qed.

(** Non-vacuity: x (x - 1)^2 (x^2 + 1) = x^5 - 2x^4 + 2x^3 - 2x^2 + x modulo 3 with three scripted
    draws (12 bytes); the run returns the roots 0, 1, 1. *)
Example roots_sound_nonvacuous :
  prime 3 /\
  exists r', find_linear_factors Checked [0; 1; -2; 2; -2; 1] 3 (rng_of [1; 0; 0; 0; 0; 0; 0; 0; 1; 0; 0; 0]) = Done ([0; 1; 1], r').
Proof. split; [exact prime_3|]. eexists. vm_compute. reflexivity. Qed.

(** [P] [roots_complete_set]: conversely every root of f modulo p in [0, p) is returned (for every
    prime p, profile and draw stream on which the run returns; f = 0 mod p never returns). With
    [roots_sound]: the set of returned values is exactly the set of roots of f in F_p; in
    particular the list is empty iff f has no root. The "no progress => discard" exit is justified
    by Euler's criterion. Multiplicities are not covered. *)
Theorem roots_complete_set : forall md f p r roots r',
  prime p -> find_linear_factors md f p r = Done (roots, r') ->
  forall b, 0 <= b < p -> (pof opsZ f b) mod p = 0 -> In b roots.
Proof. exact roots_complete_set. Qed.

(** [P] a non-zero constant has no root. *)
Theorem roots_of_constant : forall md c p r,
  p <> 0 -> p <> 2 -> c mod p <> 0 -> find_linear_factors md [c] p r = Done ([], r).
Proof. exact roots_of_constant. Qed.

(** ** Multiplicities (second wave)

    Vocabulary (coq/Refine/RootsMultTop.v, C08Lists.v, HenselProofs.v, PolyZmod.v):
    [peqmod p a b] = "poly_mod (a - b) p is the zero polynomial"; [lprod] = product of a list of
    coefficient lists; [lpow a k] = a^k; [xsub x] = [-x; 1] = X - x; [linprod rs] = product of
    the X - r, r in rs; [root_mult p f x k] = "f = (X - x)^k g modulo p for some g with
    g(x) <> 0 modulo p", i.e. x is a root of f modulo p of multiplicity exactly k (k = 0: not a
    root). *)
From Coq Require Import Permutation.
From RNT.Refine Require Import PolyZmod HenselProofs C08Lists RootsMultTop.

(** The definition, unfolded (so that the statements below can be read without the Refine files). *)
Example root_mult_unfold : forall p f x k,
  root_mult p f x k <->
  exists g, peqmod p f (pmul opsZ (lpow [- x; 1] k) g) /\ (pof opsZ g x) mod p <> 0.
Proof. intros. reflexivity. Qed.

(** [P] [root_mult_unique], [root_mult_exists], [root_mult_0_iff], [root_mult_pos_root]: for a
    prime p the multiplicity is unique, exists whenever f is not 0 modulo p, is 0 exactly when x
    is not a root, and a positive multiplicity means x is a root. *)
Theorem root_mult_unique : forall p f x k k',
  prime p -> root_mult p f x k -> root_mult p f x k' -> k = k'.
Proof. exact root_mult_unique. Qed.

Theorem root_mult_exists : forall p f x,
  prime p -> ~ peqmod p f [] -> exists k, root_mult p f x k.
Proof. exact root_mult_exists. Qed.

Theorem root_mult_0_iff : forall p f x,
  prime p -> (root_mult p f x 0 <-> (pof opsZ f x) mod p <> 0).
Proof. exact root_mult_0_iff. Qed.

Theorem root_mult_pos_root : forall p f x k,
  prime p -> root_mult p f x (S k) -> (pof opsZ f x) mod p = 0.
Proof. exact root_mult_pos_root. Qed.

(** [P] [roots_complete_multiset]: for every prime p (2 included), every build profile, every f and
    every stream of random bytes: if [find_linear_factors] returns, then every x of [0, p) occurs in
    the returned list exactly as often as its multiplicity as a root of f modulo p. (Values
    outside [0, p) never occur, by [roots_sound]; f = 0 modulo p never returns and has no
    multiplicity.) Invariant of the recursion: the values appended by a call on a polynomial g
    are the root multiset of g; every step writes g = h * g' modulo p with h = X - a, h = a gcd
    handed to a recursive call, or h = 1, and multiplicities add over products; the "no
    progress" exit only fires on a polynomial without roots (Euler's criterion). *)
Theorem roots_complete_multiset : forall md f p r roots r',
  prime p -> find_linear_factors md f p r = Done (roots, r') ->
  forall x k, 0 <= x < p -> root_mult p f x k -> count_occ Z.eq_dec roots x = k.
Proof. exact roots_complete_multiset. Qed.

(** Non-vacuity: f = (x - 1)^2 (x - 3) = x^3 - 5x^2 + 7x - 3 modulo 7, one scripted draw (4 bytes,
    the shift is itself a root); the run returns 3, 1, 1; the multiplicities of 1, 3, 0 in f are
    2, 1, 0 (cofactors x - 3, (x - 1)^2, f). *)
Example roots_complete_multiset_nonvacuous :
  prime 7 /\
  (exists r', find_linear_factors Checked [-3; 7; -5; 1] 7 (rng_of [1; 0; 0; 0]) = Done ([3; 1; 1], r')) /\
  root_mult 7 [-3; 7; -5; 1] 1 2 /\ root_mult 7 [-3; 7; -5; 1] 3 1 /\ root_mult 7 [-3; 7; -5; 1] 0 0.
Proof.
  split; [exact c12_prime_7|]. split; [eexists; vm_compute; reflexivity|].
  split; [exists [-3; 1]; split; [vm_compute; reflexivity|vm_compute; discriminate]|].
  split; [exists [1; -2; 1]; split; [vm_compute; reflexivity|vm_compute; discriminate]|].
  exists [-3; 7; -5; 1]; split; [vm_compute; reflexivity|vm_compute; discriminate].
Qed.

(** The same modulo 2 (no draws): x^2 (x + 1) has the roots 0, 0, 1. *)
Example roots_complete_multiset_mod2 :
  find_linear_factors Checked [0; 0; 1; 1] 2 (rng_of []) = Done ([0; 0; 1], rng_of []) /\
  root_mult 2 [0; 0; 1; 1] 0 2 /\ root_mult 2 [0; 0; 1; 1] 1 1.
Proof.
  split; [vm_compute; reflexivity|].
  split; [exists [1; 1]; split; [vm_compute; reflexivity|vm_compute; discriminate]|].
  exists [0; 0; 1]; split; [vm_compute; reflexivity|vm_compute; discriminate].
Qed.

(** [P] [roots_planted]: if f = (X - r1) ... (X - rn) g modulo p where g has no root modulo p, the
    returned list is a permutation of [r1 mod p; ...; rn mod p] (every f that is not 0 modulo p
    has such a decomposition). *)
Theorem roots_planted : forall md f p r roots r' rs g,
  prime p -> peqmod p f (pmul opsZ (linprod rs) g) ->
  (forall x, 0 <= x < p -> (pof opsZ g x) mod p <> 0) ->
  find_linear_factors md f p r = Done (roots, r') ->
  Permutation roots (map (fun r => r mod p) rs).
Proof. exact roots_planted. Qed.

(** Non-vacuity: 3 (x - 1) (x - 8) (x - 3) (x^2 + 1) modulo 7 (8 = 1 modulo 7; x^2 + 1 has no root
    modulo 7), three scripted draws (12 bytes). *)
Example roots_planted_nonvacuous :
  prime 7 /\
  peqmod 7 [-72; 105; -108; 108; -36; 3] (pmul opsZ (linprod [1; 8; 3]) [3; 0; 3]) /\
  forallb (fun x => negb ((pof opsZ [3; 0; 3] x) mod 7 =? 0)) [0; 1; 2; 3; 4; 5; 6] = true /\
  (exists r', find_linear_factors Checked [-72; 105; -108; 108; -36; 3] 7
                (rng_of [5; 0; 0; 0; 2; 0; 0; 0; 6; 0; 0; 0]) = Done ([3; 1; 1], r')) /\
  Permutation [3; 1; 1] (map (fun r => r mod 7) [1; 8; 3]).
Proof.
  split; [exact c12_prime_7|].
  split; [vm_compute; reflexivity|]. split; [vm_compute; reflexivity|].
  split; [eexists; vm_compute; reflexivity|].
  exact (Permutation_app_comm [3] [1; 1]).
Qed.

(** [P] [roots_split_length]: if f = c (X - r1) ... (X - rn) modulo p with c <> 0 modulo p (f splits
    into linear factors), exactly n = deg (f mod p) values are returned. *)
Theorem roots_split_length : forall md f p r roots r' rs c,
  prime p -> peqmod p f (pmul opsZ (linprod rs) [c]) -> c mod p <> 0 ->
  find_linear_factors md f p r = Done (roots, r') -> length roots = length rs.
Proof. exact roots_split_length. Qed.

(** [P] [roots_nil_iff]: the returned list is empty exactly when f has no root in [0, p). *)
Theorem roots_nil_iff : forall md f p r roots r',
  prime p -> find_linear_factors md f p r = Done (roots, r') ->
  (roots = [] <-> forall x, 0 <= x < p -> (pof opsZ f x) mod p <> 0).
Proof. exact roots_nil_iff. Qed.

(** Non-vacuity: x^2 + 1 has no root modulo 7; the run (one draw) returns the empty list. *)
Example roots_nil_nonvacuous :
  exists r', find_linear_factors Checked [1; 0; 1] 7 (rng_of [5; 0; 0; 0]) = Done ([], r').
Proof. eexists. vm_compute. reflexivity. Qed.

(** ** Number of returned values against the degree *)
From RNT.Refine Require Import RootsMultDeg.

(** [P] [roots_length_le_deg]: at most deg (f mod p) values are returned ([pdeg] of the reduced
    polynomial [poly_mod f p]; the returned values r1..rn satisfy f = (X - r1)...(X - rn) g mod p). *)
Theorem roots_length_le_deg : forall md f p r roots r' f1,
  prime p -> find_linear_factors md f p r = Done (roots, r') ->
  poly_mod f p = Done f1 -> Z.of_nat (length roots) <= pdeg f1.
Proof. exact roots_length_le_deg. Qed.

(** [P] [roots_split_deg]: if f splits into linear factors modulo p (f = c (X - r1) ... (X - rn) with
    c <> 0 modulo p), the number of returned values equals deg (f mod p). *)
Theorem roots_split_deg : forall md f p r roots r' rs c f1,
  prime p -> peqmod p f (pmul opsZ (linprod rs) [c]) -> c mod p <> 0 ->
  find_linear_factors md f p r = Done (roots, r') ->
  poly_mod f p = Done f1 -> Z.of_nat (length roots) = pdeg f1.
Proof. exact roots_split_deg. Qed.

(** Non-vacuity: 3 (x - 1) (x - 8) (x - 3) modulo 7 (degree 3), one scripted draw; three values. *)
Example roots_split_nonvacuous :
  peqmod 7 [-72; 105; -36; 3] (pmul opsZ (linprod [1; 8; 3]) [3]) /\ 3 mod 7 <> 0 /\
  (exists r', find_linear_factors Checked [-72; 105; -36; 3] 7 (rng_of [4; 0; 0; 0]) = Done ([3; 1; 1], r')) /\
  poly_mod [-72; 105; -36; 3] 7 = Done [5; 0; 6; 3] /\ pdeg [5; 0; 6; 3] = 3.
Proof.
  split; [vm_compute; reflexivity|]. split; [vm_compute; discriminate|].
  split; [eexists; vm_compute; reflexivity|]. split; vm_compute; reflexivity.
Qed.
