From RNT.Model Require Import Base Elementary.
Theorem placeholder_c19 : True. Proof. exact I. Qed.
