(** C19: elementary helpers (inverse.rs, perfect_power.rs, kronecker.rs, primes.rs). Statements only; proofs in Refine/. *)
From Coq Require Import ZArith List Bool Znumtheory Sorted.
From RNT.Model Require Import Base Elementary.
From RNT.Refine Require Import ElemProofs KroneckerProofs.
From RNT.Refine Require RecipBridge RecipJacobi RecipKronecker.
Open Scope Z_scope.

(** [P] the fuel the model gives to the recursive Euclid always suffices. *)
Theorem extgcd_fuel_suffices : forall a b, exists r, extgcd a b = Done r.
Proof. exact ElemProofs.extgcd_fuel_suffices. Qed.

(** [P] modular inverse, all a, all m >= 1. *)
Theorem inv_spec : forall a m, 1 <= m ->
  (Z.gcd a m = 1 -> exists x, inv a m = Done (InvOk x) /\ 0 <= x < m /\ (a * x) mod m = 1 mod m) /\
  (Z.gcd a m <> 1 -> inv a m = Done (InvErr (Z.gcd a m))).
Proof. exact ElemProofs.inv_spec. Qed.
Example inv_ex : inv (-7) 30 = Done (InvOk 17) /\ inv 21 30 = Done (InvErr 3) /\ inv 5 1 = Done (InvOk 0).
Proof. vm_compute. auto. Qed.

(** [P] zmod is the floor remainder for a positive modulus. *)
Theorem zmod_spec : forall x mo, 0 < mo -> zmod x mo = Done (x mod mo).
Proof. exact ElemProofs.zmod_spec. Qed.
Example zmod_ex : zmod (-7) 5 = Done 3. Proof. reflexivity. Qed.

(** [P] the model of BigInt::nth_root is the floor root. *)
Theorem iroot_spec : forall k n, 1 <= k -> 0 <= n ->
  0 <= iroot k n /\ iroot k n ^ k <= n < (iroot k n + 1) ^ k.
Proof. exact ElemProofs.iroot_spec. Qed.
Example iroot_ex : iroot 3 1000 = 10 /\ iroot 3 999 = 9 /\ iroot 2 0 = 0. Proof. vm_compute. auto. Qed.

(** [P] perfect_power: n >= 0 gives (b, k), b^k = n, k >= 1; for n >= 2 no larger exponent has an exact integer
    root (n = 0, 1 are k-th powers for every k; the code answers k = 1). n < 0 is the documented panic. *)
Theorem perfect_power_spec : forall n, 0 <= n ->
  exists b k, perfect_power n = Done (b, k) /\ b ^ k = n /\ 1 <= k /\
              (2 <= n -> forall k' x, k < k' -> x ^ k' <> n).
Proof. exact ElemProofs.perfect_power_spec. Qed.
Theorem perfect_power_negative : forall n, n < 0 -> perfect_power n = Panic POther.
Proof. exact ElemProofs.perfect_power_negative. Qed.
Example perfect_power_ex : perfect_power 1024 = Done (2, 10) /\ perfect_power 1000 = Done (10, 3) /\ perfect_power 12 = Done (12, 1).
Proof. vm_compute. auto. Qed.

(** [P] sieve: [primes bound] is exactly the strictly increasing list of the primes <= bound
    (primality is [Znumtheory.prime] of the index). *)
Theorem primes_spec : forall bound,
  StronglySorted lt (primes bound) /\
  forall p, In p (primes bound) <-> (p <= bound)%nat /\ prime (Z.of_nat p).
Proof. exact ElemProofs.primes_spec. Qed.
Example primes_ex : primes 30 = [2; 3; 5; 7; 11; 13; 17; 19; 23; 29]%nat. Proof. reflexivity. Qed.

(** [P] trial-division [is_prime] of primes.rs decides [Znumtheory.prime] (fuel suffices). *)
Theorem td_is_prime_spec : forall a, exists b, td_is_prime a = Done b /\ (b = true <-> prime a).
Proof. exact ElemProofs.td_is_prime_spec. Qed.

(** [P] prime iterator, partial correctness: a result of [take k] started at [now] has length k, is strictly
    increasing and consists exactly of the primes from [now] up to its last element (now = 2: the first k primes).
    Sufficiency of the fuel of one [next] (now + 2 candidates) is Bertrand's postulate: not proved. *)
Theorem primes_take_spec : forall k now l, primes_take k now = Done l ->
  length l = k /\ StronglySorted Z.lt l /\
  (forall p, In p l -> now <= p /\ prime p) /\
  (forall q p, prime q -> now <= q -> In p l -> q <= p -> In q l).
Proof. exact ElemProofs.primes_take_spec. Qed.
Example primes_take_ex : primes_take 8 2 = Done [2; 3; 5; 7; 11; 13; 17; 19]. Proof. reflexivity. Qed.

(** Kronecker symbol routine (i64 arithmetic on Z; mode = build profile). *)

(** [P] whenever it returns, the result is -1, 0 or 1 (all integers, both profiles). *)
Theorem kronecker_range : forall m a b r, kronecker m a b = Done r -> r = -1 \/ r = 0 \/ r = 1.
Proof. exact KroneckerProofs.kronecker_range. Qed.

(** [P] (a/0) = 1 if |a| = 1, else 0. *)
Theorem kronecker_b0 : forall m a, kronecker m a 0 = Done (if Z.abs a =? 1 then 1 else 0).
Proof. exact KroneckerProofs.kronecker_b0. Qed.

(** [P] both arguments even: 0. *)
Theorem kronecker_both_even : forall m a b, Z.even a = true -> Z.even b = true -> kronecker m a b = Done 0.
Proof. exact KroneckerProofs.kronecker_both_even. Qed.

(** [P] on the whole i64 x i64 range, in both profiles, the routine returns: no overflow panic is reachable
    (negation and abs are only applied to odd values, never to i64::MIN) and the model's fuel suffices. *)
Theorem kronecker_total : forall m a b, - two63 <= a < two63 -> - two63 <= b < two63 ->
  exists r, kronecker m a b = Done r.
Proof. exact KroneckerProofs.kronecker_total. Qed.
Example kronecker_total_ex : kronecker Checked (- two63) (- two63 + 1) = Done 1 /\ kronecker Checked 3 (- two63) = Done (-1).
Proof. vm_compute. auto. Qed.

(** [B] for |a|, |b| <= 2^7 the routine equals the reference symbol [KroneckerProofs.kron_ref]: (a/0) = [|a| = 1], else
    (a/sign b) * prod over the primes p | b of (a/p)^(v_p b), with (a/p) by Euler's criterion for odd p, the (a/2)
    table and (a/-1) = sign a. Closed by vm_compute over the 257 x 257 box; the unbounded equality is not proved. *)
Theorem kronecker_bounded : forall m a b, -128 <= a <= 128 -> -128 <= b <= 128 ->
  kronecker m a b = Done (kron_ref a b).
Proof. exact KroneckerProofs.kronecker_bounded. Qed.
Theorem kron_ref_factorisation_bounded : forall b, 1 <= b <= 128 ->
  fold_right (fun p acc => p ^ Z.of_nat (pval 8 p b) * acc) 1 primes128 = b.
Proof. exact KroneckerProofs.kron_ref_factorisation_bounded. Qed.
Example kronecker_bounded_ex : kronecker Checked (-1) 3 = Done (-1) /\ kron_ref (-1) 3 = -1 /\ kron_ref 2 (-15) = 1 /\ kron_ref (-5) (-12) = -1
  /\ primes128 = map Z.of_nat (primes 128).
Proof. vm_compute. repeat split; reflexivity. Qed.

(** *** The routine computes the Kronecker symbol (second wave; quadratic reciprocity is proved in
    Refine/RecipLegendre.v: Euler, Gauss's lemma, Eisenstein; lifted to Z in RecipBridge.v, to the Jacobi symbol in
    RecipJacobi.v and to the algorithm in RecipKronecker.v).

    [RecipKronecker.K a b] is the symbol from the definition: K a 0 = [|a| = 1]; for b <> 0,
    K a b = (a/sign b) * prod over the prime factors p of |b| with multiplicity (smallest first) of the local symbol
    (a/p) = [KroneckerProofs.local_symbol a p] (p = 2: 0 / 1 / -1 for a even / = +-1 / = +-3 mod 8; odd p: Euler's
    criterion (a mod p)^((p-1)/2) mod p in {0, 1, other} -> {0, 1, -1}), with (a/-1) = -1 for a < 0, else 1. *)

(** [P] the model of kronecker_symbol_i64 equals the Kronecker symbol for ALL a, b in the i64 range, both profiles. *)
Theorem kronecker_spec : forall m a b, - two63 <= a < two63 -> - two63 <= b < two63 ->
  kronecker m a b = Done (RecipKronecker.K a b).
Proof. exact RecipKronecker.kronecker_spec. Qed.
Example kronecker_spec_ex :
  RecipKronecker.K (-1) 3 = -1 /\ RecipKronecker.K 2 15 = 1 /\ RecipKronecker.K 2 (-15) = 1 /\ RecipKronecker.K (-5) (-12) = -1 /\
  RecipKronecker.K 7 0 = 0 /\ RecipKronecker.K 6 4 = 0 /\ RecipKronecker.K 1001 907 = 1 /\ RecipKronecker.pfactors 360 = [2; 2; 2; 3; 3; 5].
Proof. vm_compute. repeat split; reflexivity. Qed.
(** K(1001, 9907) = -1 (9907 is prime), obtained through the theorem from a run of the model. *)
Example kronecker_spec_ex2 : RecipKronecker.K 1001 9907 = -1 /\ RecipKronecker.K (two63 - 1) (- two63 + 1) = 0.
Proof.
  assert (E1 : kronecker Checked 1001 9907 = Done (-1)) by (vm_compute; reflexivity).
  assert (E2 : kronecker Checked (two63 - 1) (- two63 + 1) = Done 0) by (vm_compute; reflexivity).
  rewrite (kronecker_spec Checked 1001 9907) in E1 by (vm_compute; split; congruence).
  rewrite (kronecker_spec Checked (two63 - 1) (- two63 + 1)) in E2 by (vm_compute; split; congruence).
  split; [exact (RecipKronecker.done_inj _ _ _ E1)|exact (RecipKronecker.done_inj _ _ _ E2)].
Qed.

(** [P] K is "the" multiplicative extension: for ANY sign u and ANY list of primes ps (any order, repetitions allowed)
    K a (u * p1 ... pk) = (a/u) * (a/p1) ... (a/pk); every b <> 0 has such a factorisation. With K a 0 above these
    equations determine K, so the smallest-factor-first recursion in the definition is no restriction. *)
Theorem K_factorisation : forall a u ps, u = 1 \/ u = -1 -> Forall prime ps ->
  RecipKronecker.K a (u * RecipJacobi.prodl ps) =
  (if u <? 0 then kron_at_m1 a else 1) * fold_right (fun p acc => local_symbol a p * acc) 1 ps.
Proof. exact RecipKronecker.K_factorisation. Qed.
Theorem K_b0 : forall a, RecipKronecker.K a 0 = if Z.abs a =? 1 then 1 else 0.
Proof. exact RecipKronecker.K_b0. Qed.
Theorem factorisation_exists : forall b, b <> 0 ->
  exists u ps, (u = 1 \/ u = -1) /\ Forall prime ps /\ b = u * RecipJacobi.prodl ps.
Proof. exact RecipKronecker.factorisation_exists. Qed.
Example K_factorisation_ex : RecipJacobi.prodl [5; 3; 2; 3] = 90 /\ RecipKronecker.K 7 (-90) = -1 /\ local_symbol 7 5 = -1.
Proof. vm_compute. repeat split; reflexivity. Qed.

(** [P] the reference symbol of the bounded theorem is K on its box. *)
Theorem kron_ref_K : forall a b, -128 <= a <= 128 -> -128 <= b <= 128 -> kron_ref a b = RecipKronecker.K a b.
Proof. exact RecipKronecker.kron_ref_K. Qed.

(** [P] the laws used (all proved, none assumed). p, q odd primes ([Znumtheory.prime], > 2). *)
(** multiplicativity of the Legendre symbol in the top argument (from Euler's criterion) *)
Theorem legendre_mul : forall p, prime p -> 2 < p -> forall a b, legendre (a * b) p = legendre a p * legendre b p.
Proof. exact RecipBridge.legendre_mul. Qed.
Theorem legendre_eq0 : forall p, prime p -> 2 < p -> forall a, legendre a p = 0 <-> (p | a).
Proof. exact RecipBridge.legendre_eq0. Qed.
(** Euler's criterion, both halves: the symbol defined by the Euler power is the quadratic-residue symbol *)
Theorem legendre_qr : forall p a, prime p -> 2 < p ->
  legendre a p = 1 <-> (~ (p | a) /\ exists x, (x * x) mod p = a mod p).
Proof. exact RecipBridge.legendre_qr. Qed.
Example legendre_qr_ex : legendre 2 7 = 1 /\ (3 * 3) mod 7 = 2 mod 7 /\ legendre 3 7 = -1 /\ legendre 14 7 = 0.
Proof. vm_compute. repeat split; reflexivity. Qed.
(** first and second supplementary laws (the second through Gauss's lemma) *)
Theorem legendre_m1 : forall p, prime p -> 2 < p -> legendre (-1) p = if p mod 4 =? 1 then 1 else -1.
Proof. exact RecipBridge.legendre_m1. Qed.
Theorem legendre_2 : forall p, prime p -> 2 < p -> legendre 2 p = if (p mod 8 =? 1) || (p mod 8 =? 7) then 1 else -1.
Proof. exact RecipBridge.legendre_2. Qed.
(** the law of quadratic reciprocity (Gauss's lemma + Eisenstein's lattice-point count) *)
Theorem legendre_reciprocity : forall p q, prime p -> prime q -> 2 < p -> 2 < q -> p <> q ->
  legendre q p * legendre p q = if (p mod 4 =? 3) && (q mod 4 =? 3) then -1 else 1.
Proof. exact RecipBridge.legendre_reciprocity. Qed.
Example legendre_reciprocity_ex : legendre 3 7 = -1 /\ legendre 7 3 = 1 /\ legendre 5 13 = -1 /\ legendre 13 5 = -1 /\ legendre 2 7 = 1 /\ legendre (-1) 7 = -1.
Proof. vm_compute. repeat split; reflexivity. Qed.
(** Jacobi symbol for odd n >= 1 (K with a positive odd lower argument): reciprocity, coprime or not *)
Theorem jacobi_reciprocity : forall m n, 1 <= m -> 1 <= n -> m mod 2 = 1 -> n mod 2 = 1 ->
  RecipKronecker.Kpos m n = RecipJacobi.eps n m * RecipKronecker.Kpos n m.
Proof. exact RecipKronecker.J_recip. Qed.
Example jacobi_reciprocity_ex : RecipKronecker.Kpos 15 77 = 1 /\ RecipKronecker.Kpos 77 15 = 1 /\ RecipJacobi.eps 77 15 = 1
  /\ RecipKronecker.Kpos 7 15 = -1 /\ RecipKronecker.Kpos 15 7 = 1 /\ RecipJacobi.eps 15 7 = -1 /\ RecipKronecker.Kpos 15 21 = 0.
Proof. vm_compute. repeat split; reflexivity. Qed.

(** *** Bertrand's postulate and total correctness of the prime iterator (fourth wave).
    Erdos' proof, all in Coq, nothing assumed: Refine/BertrandBin.v (4^n <= 2n C(2n,n); C(2k+1,k) <= 4^k; the product of
    the primes <= m is at most 4^m), Refine/BertrandVal.v (Legendre's formula for v_p(C(2n,n)): p^v_p <= 2n, v_p <= 1 above
    sqrt(2n), v_p = 0 on (2n/3, n]), Refine/BertrandMain.v (the contradiction for n >= 1024 in integer arithmetic, the prime
    chain 2, 3, 5, 7, 13, 23, 43, 83, 163, 317, 631, 1259 below), all MathComp over nat; Refine/BertrandZ.v moves the
    statement to Z and [Znumtheory.prime]; Refine/BertrandIter.v applies it to the iterator model. *)
From RNT.Refine Require BertrandZ BertrandIter.

(** [P] Bertrand's postulate: for every n >= 1 there is a prime p with n < p <= 2n. *)
Theorem bertrand : forall n, 1 <= n -> exists p, prime p /\ n < p <= 2 * n.
Proof. exact BertrandZ.bertrand_Z. Qed.
Example bertrand_ex : td_is_prime 1259 = Done true /\ 631 < 1259 <= 2 * 631 /\ td_is_prime 2 = Done true /\ 1 < 2 <= 2 * 1.
Proof. vm_compute. repeat split; congruence. Qed.

(** [P] one [next()] of the iterator, started at any now >= 1 (the code starts at 2 and continues at p + 1), returns
    within the now + 2 candidates the model allows: it yields the least prime p >= now, p <= 2 now, new state p + 1. *)
Theorem primes_next_total : forall now, 1 <= now ->
  exists p, primes_next (Z.to_nat now + 2) now = Done (p, p + 1) /\
            now <= p /\ p <= 2 * now /\ prime p /\ (forall q, now <= q < p -> ~ prime q).
Proof. exact BertrandIter.primes_next_total. Qed.
Example primes_next_total_ex : primes_next (Z.to_nat 114 + 2) 114 = Done (127, 128) /\ primes_next (Z.to_nat 2 + 2) 2 = Done (2, 3).
Proof. vm_compute. split; reflexivity. Qed.

(** [P] total correctness of [Primes::new().take(k)], every k: the model returns (never OutOfFuel, never a panic) a list of
    length k, strictly increasing, all prime, and containing every prime below any of its elements: the first k primes. *)
Theorem primes_take_total : forall k, exists l, primes_take k 2 = Done l /\
  length l = k /\ StronglySorted Z.lt l /\
  (forall p, In p l -> prime p) /\
  (forall q p, prime q -> In p l -> q <= p -> In q l).
Proof. exact BertrandIter.primes_take_total. Qed.
Example primes_take_total_ex : primes_take 12 2 = Done [2; 3; 5; 7; 11; 13; 17; 19; 23; 29; 31; 37]. Proof. reflexivity. Qed.

(** [P] the iterator enumerates ALL primes: every prime q occurs among its first q outputs ... *)
Theorem primes_iter_complete : forall q, prime q -> exists l, primes_take (Z.to_nat q) 2 = Done l /\ In q l.
Proof. exact BertrandIter.primes_iter_complete. Qed.
(** ... and the outputs for different k are consistent: [take k] is a prefix of [take (k + 1)], so with
    [primes_take_total] the k-th output of the iterator is the k-th prime, in increasing order. *)
Theorem primes_take_snoc : forall k now l l', primes_take k now = Done l -> primes_take (S k) now = Done l' ->
  exists x, l' = l ++ [x].
Proof. exact BertrandIter.primes_take_snoc. Qed.
Example primes_iter_complete_ex : td_is_prime 31 = Done true /\
  primes_take (Z.to_nat 31) 2 = Done ([2; 3; 5; 7; 11; 13; 17; 19; 23; 29; 31] ++ [37; 41; 43; 47; 53; 59; 61; 67; 71; 73; 79; 83; 89; 97; 101; 103; 107; 109; 113; 127]) /\
  primes_take 3 2 = Done [2; 3; 5] /\ primes_take 4 2 = Done ([2; 3; 5] ++ [7]).
Proof. vm_compute. repeat split; reflexivity. Qed.
