(** C17: decomposition of a rational prime (src/prime_decomp/simple.rs).  Theorems about the model
    entry point [PrimeDecomp.decompose md f int_basis table p draws] for ALL inputs of the stated
    shape and ALL draw streams.

    Status (later sections supersede the first-wave list): the degree sum, properness, distinctness,
    primality and norms p^f_i of the returned ideals are proved for every index prime to p (third wave);
    prod P_i^e_i = (p) is proved under p-maximality, and for the whole pipeline find_integral_basis ->
    decompose (fifth wave). NOT proved (see vp/props/c17.py): termination of the Cantor-Zassenhaus loop
    for all draw streams (false); the converse of Dedekind's criterion. *)
From Coq Require Import ZArith List QArith Qcanon.
From RNT.Model Require Import Base Poly LinAlg MultTable Order Ideal PrimeDecomp.
From RNT.Model Require Hnf.
From RNT.Model Require Import FactorModP.
From RNT.Refine Require Import MatZ HnfSpec IdealBasic IdealMul IdealSpec IdealInv DecompDegree.
Import ListNotations.
Open Scope Z_scope.

(** [P] decompose_refuses: when p divides the index (O : Z[theta]) the routine panics with the
    documented message (class other) before any random draw, whatever the draw stream. *)
Theorem decompose_refuses : forall md f b t p r zt idx,
  trivial_order_monic f = Done zt -> order_index b zt = Done idx ->
  p <> 0 -> Z.rem idx p = 0 ->
  decompose md f b t p r = Panic POther.
Proof. exact decompose_refuses_index. Qed.

(** [P] above_p: whenever the routine returns, every returned ideal is a lattice in normal form over the
    given table and contains the vector p e_0 -- the rational integer p when w_0 = 1, which for the
    table is the hypothesis [w_0 w_0 = w_0] -- so P_i meet Z contains pZ.  Hypotheses: the table is
    n x n x n, the order has n basis vectors and deg f = n. *)
Theorem above_p : forall md f b t p r res r',
  tshape t -> (1 <= length t)%nat -> length b = length t -> Z.to_nat (pdeg f) = length t ->
  table_entry t 0 0 = unit_vec (length t) 0 ->
  decompose md f b t p r = Done (res, r') ->
  Forall (fun Pe => i_table (fst Pe) = t /\ is_hnf (i_hnf (fst Pe)) = true /\ wf (length t) (i_hnf (fst Pe)) /\
                    In_rowspanZ (length t) (p :: repeat 0 (length t - 1)) (i_hnf (fst Pe))) res.
Proof. exact decompose_above_p. Qed.

(** each P_i is the sum of two principal ideals, (g_i(theta)) + (p): with [principal_is_ideal] and
    [add_is_ideal] of C16 it is closed under multiplication by the order when the table is associative *)

(** [C] degree_sum_partial.  Full statement: sum e_i f_i = deg f with f_i the residue degree of P_i
    (needs norm P_i = p^f_i and the correctness of the mod-p factoriser, C08: not proved).
    Proved: the multiplicities returned are those of [factorize_mod_p] on the same draws (which are all
    consumed there), and whenever the model-evaluated flag [factor_flag f p fs] holds -- every g_i is a
    non-zero canonical polynomial, e_i >= 0, and prod g_i^e_i agrees with f coefficientwise mod p --
    then sum e_i deg g_i = deg f. *)
Theorem degree_sum_partial : forall md f b t p r res r',
  decompose md f b t p r = Done (res, r') ->
  exists fs, factorize_mod_p md f p (usize_or_0 p) r = Done (fs, r') /\
             (map snd res = map snd fs) /\
             ((factor_flag f p fs = true) -> (degree_sum fs = pdeg f)).
Proof. exact degree_sum_partial_std. Qed.

(** Non-vacuity: Z[i] (5 splits with the logged draws of a real run, 2 ramifies, 3 is inert),
    Q(sqrt 5) with maximal order Z[(1+sqrt 5)/2] of index 2 in Z[sqrt 5] (2 is refused, 11 splits). *)
Definition fZi : list Z := [1; 0; 1].
Definition bZi : qmat := [[Q2Qc 1; Q2Qc 0]; [Q2Qc 0; Q2Qc 1]].
Definition tZi : table := [[[1; 0]; [0; 1]]; [[0; 1]; [-1; 0]]].
Definition draws5 : rng := rng_of [160; 17; 209; 169; 88; 130; 17; 34; 237; 248; 19; 247; 229; 220; 110; 52].

Example ex_table : get_mult_table bZi fZi = Done tZi /\ table_shape tZi = true
                   /\ table_entry tZi 0 0 = unit_vec 2 0 /\ Z.to_nat (pdeg fZi) = 2%nat.
Proof. vm_compute. repeat split; reflexivity. Qed.
Example ex_split : exists r', decompose Checked fZi bZi tZi 5 draws5
                   = Done ([(mkIdeal [[5; 0]; [2; 1]] tZi, 1); (mkIdeal [[5; 0]; [3; 1]] tZi, 1)], r')
                   /\ rng_bytes r' = [] /\ rng_exhausted r' = false.
Proof. eexists. vm_compute. repeat split; reflexivity. Qed.
Example ex_flag : exists r', factorize_mod_p Checked fZi 5 5 draws5 = Done ([([2; 1], 1); ([3; 1], 1)], r')
                  /\ factor_flag fZi 5 [([2; 1], 1); ([3; 1], 1)] = true
                  /\ degree_sum [([2; 1], 1); ([3; 1], 1)] = 2 /\ pdeg fZi = 2
                  /\ factor_flag fZi 2 [([1; 1], 2)] = true /\ factor_flag fZi 3 [([1; 0; 1], 1)] = true.
Proof. eexists. vm_compute. repeat split; reflexivity. Qed.
Example ex_ramified : decompose Checked fZi bZi tZi 2 (rng_of []) = Done ([(mkIdeal [[2; 0]; [1; 1]] tZi, 2)], rng_of []).
Proof. vm_compute. reflexivity. Qed.
Example ex_inert : decompose Checked fZi bZi tZi 3 (rng_of []) = Done ([(mkIdeal [[3; 0]; [0; 3]] tZi, 1)], rng_of []).
Proof. vm_compute. reflexivity. Qed.

Definition fS5 : list Z := [-5; 0; 1].
Definition bS5 : qmat := [[Q2Qc 1; Q2Qc 0]; [Q2Qc (1 # 2); Q2Qc (1 # 2)]].
Definition tS5 : table := [[[1; 0]; [0; 1]]; [[0; 1]; [1; 1]]].
Example ex_index : get_mult_table bS5 fS5 = Done tS5
                   /\ (do zt <- trivial_order_monic fS5; order_index bS5 zt) = Done 2.
Proof. vm_compute. split; reflexivity. Qed.
Example ex_refused : forall r, decompose Checked fS5 bS5 tS5 2 r = Panic POther.
Proof. intros r. vm_compute. reflexivity. Qed.
Example ex_split11 : exists r', decompose Checked fS5 bS5 tS5 11
                       (rng_of [160; 17; 209; 169; 88; 130; 17; 34; 237; 248; 19; 247; 229; 220; 110; 52; 29; 114; 230; 128])
                     = Done ([(mkIdeal [[11; 0]; [7; 1]] tS5, 1); (mkIdeal [[11; 0]; [3; 1]] tS5, 1)], r').
Proof. eexists. vm_compute. reflexivity. Qed.

(** ** Third wave: the factors behind the ideals, the unconditional degree sum

    [DecompW3Factors.decompose_full] (a definition of the proof development, not of the model) is
    [decompose] with the mod-p factor g_i kept beside each (P_i, e_i); [proj_full (g, P, e) = (P, e)],
    [factor_of (g, P, e) = (g, e)]. *)
From Coq Require Import Znumtheory Lia.
From RNT.Refine Require Import MonicZ DecompW3Factors.

(** [P] companion_projection: [decompose] is exactly the projection of the companion, outcome by outcome
    (values, panic classes, fuel, remaining draws), for all inputs. *)
Theorem companion_projection : forall md f b t p r,
  decompose md f b t p r =
  match decompose_full md f b t p r with
  | Done (l, r') => Done (map proj_full l, r')
  | Panic c => Panic c
  | OutOfFuel => OutOfFuel
  end.
Proof. exact decompose_full_proj. Qed.

(** [P] degree_sum (replaces the conditional degree_sum_partial): for p prime, f monic ([lmonic f]: the last
    coefficient is 1) with at most 2^64 coefficients, both build profiles and every draw stream: whenever
    [decompose] returns [res], it is the projection of the triples (g_i, P_i, e_i) of the companion run, the
    (g_i, e_i) are what [factorize_mod_p] returned on the same draws, and sum e_i deg g_i = deg f.
    No flag: the product clause of C08 ([factorize_mod_p_product], with the g_i monic) gives the degrees. *)
Theorem degree_sum : forall md f b t p r res r',
  prime p -> lmonic f -> Z.of_nat (length f) <= two64 ->
  decompose md f b t p r = Done (res, r') ->
  exists gs, decompose_full md f b t p r = Done (gs, r') /\ res = map proj_full gs /\
             factorize_mod_p md f p (usize_or_0 p) r = Done (map factor_of gs, r') /\
             DecompDegree.degree_sum (map factor_of gs) = pdeg f.
Proof. exact degree_sum_std. Qed.

(** Non-vacuity: Z[i] at 5 (split), 3 (inert), 2 (ramified); Dedekind's cubic x^3 - x^2 - 2x - 8 with its
    maximal order Z[theta, (theta^2 + theta)/2] (index 2) at p = 3 (inert). *)
Definition fD : list Z := [-8; -2; -1; 1].
Definition bD : qmat := [[Q2Qc 1; Q2Qc 0; Q2Qc 0]; [Q2Qc 0; Q2Qc 1; Q2Qc 0]; [Q2Qc 0; Q2Qc (1 # 2); Q2Qc (1 # 2)]].
Definition tD : table := [[[1; 0; 0]; [0; 1; 0]; [0; 0; 1]];
                          [[0; 1; 0]; [0; -1; 2]; [4; 0; 2]];
                          [[0; 0; 1]; [4; 0; 2]; [6; 2; 3]]].
Example ex_dedekind : get_mult_table bD fD = Done tD /\ lmonic fD /\ lmonic fZi
                      /\ (do zt <- trivial_order_monic fD; order_index bD zt) = Done 2.
Proof. vm_compute. repeat split; reflexivity. Qed.
Example ex_full_split : exists r', decompose_full Checked fZi bZi tZi 5 draws5
    = Done ([([2; 1], mkIdeal [[5; 0]; [2; 1]] tZi, 1); ([3; 1], mkIdeal [[5; 0]; [3; 1]] tZi, 1)], r')
    /\ DecompDegree.degree_sum [([2; 1], 1); ([3; 1], 1)] = pdeg fZi.
Proof. eexists. vm_compute. split; reflexivity. Qed.
Example ex_full_inert_ramified :
  decompose_full Checked fZi bZi tZi 3 (rng_of []) = Done ([([1; 0; 1], mkIdeal [[3; 0]; [0; 3]] tZi, 1)], rng_of [])
  /\ decompose_full Checked fZi bZi tZi 2 (rng_of []) = Done ([([1; 1], mkIdeal [[2; 0]; [1; 1]] tZi, 2)], rng_of [])
  /\ DecompDegree.degree_sum [([1; 0; 1], 1)] = pdeg fZi /\ DecompDegree.degree_sum [([1; 1], 2)] = pdeg fZi.
Proof. vm_compute. repeat split; reflexivity. Qed.
Example ex_full_dedekind :
  decompose_full Checked fD bD tD 3 (rng_of [])
  = Done ([([1; 1; 2; 1], mkIdeal [[3; 0; 0]; [0; 3; 0]; [0; 0; 3]] tD, 1)], rng_of [])
  /\ DecompDegree.degree_sum [([1; 1; 2; 1], 1)] = pdeg fD.
Proof. vm_compute. split; reflexivity. Qed.

(** ** Third wave: the returned ideals are proper, meet Z in pZ, and are pairwise distinct

    Hypotheses (all in list vocabulary, n = number of rows of the stored basis b): p prime; f monic with
    n + 1 <= 2^64 coefficients; b is n x n ([qshape]) with first row (1, 0, .., 0), i.e. w_0 = 1;
    t is the table [get_mult_table b f] of that order; Z[theta] lies in the order: the power basis is an integer
    combination of b, [qmmul n Sl b = identity] for an n x n integer matrix Sl.  That p does not divide the
    index is not a hypothesis: it is the test [decompose] performs before it returns.
    [In_rowspanZ n v (i_hnf P)] is membership of the coordinate vector v in the ideal; [unit_vec n 0] is the
    coordinate vector of 1. *)
From RNT.Refine Require Import OrderCanon DecompW3Top.

(** [P] prime_above_proper: every returned P_i = (g_i(theta)) + (p) is a proper ideal (1 is not in P_i) and
    [cap_z P_i] returns p, and [Ideal::contains] on P_i and the coordinate vector of 1 returns false (both
    profiles), for the order of any index prime to p (not only the equation order), both profiles,
    every draw stream.  Proof: the index d times any element of the order lies in Z[theta]; for v in P_i this gives
    d v = g_i A + p A' - Q f in Z[x] (division by the monic f stays in Z[x]), so g_i divides d v modulo p; for
    v = 1 that is impossible (d is a unit mod p, deg g_i >= 1).  P_i contains p w_j for all j, so its normal form
    has n rows and the top-left entry divides p; it is not 1. *)
Theorem prime_above_proper : forall md f b t Sl p r res r',
  prime p -> lmonic f -> Z.of_nat (length f) <= two64 ->
  let n := length b in
  length f = S n -> (1 <= n)%nat -> qshape n n b ->
  nth 0 b [] = Q2Qc 1 :: repeat (Q2Qc 0) (n - 1) ->
  get_mult_table b f = Done t -> shape n n Sl -> qmmul n Sl b = identity fopsQc n ->
  decompose md f b t p r = Done (res, r') ->
  Forall (fun Pe : ideal * Z =>
            ~ In_rowspanZ n (unit_vec n 0) (i_hnf (fst Pe)) /\ cap_z (fst Pe) = Done p /\
            forall md', contains md' (fst Pe) (unit_vec n 0) = Done false) res.
Proof. exact prime_above_proper_std. Qed.

(** [P] primes_distinct: the returned ideals are pairwise different (as stored normal forms): P_i = P_j puts
    g_j(theta) in P_i, so g_i divides g_j modulo p; both are monic irreducible (C08 factorize_mod_p_irreducible),
    hence equal, and the factors returned by [factorize_mod_p] are pairwise distinct. *)
Theorem primes_distinct : forall md f b t Sl p r res r',
  prime p -> lmonic f -> Z.of_nat (length f) <= two64 ->
  let n := length b in
  length f = S n -> (1 <= n)%nat -> qshape n n b ->
  nth 0 b [] = Q2Qc 1 :: repeat (Q2Qc 0) (n - 1) ->
  get_mult_table b f = Done t -> shape n n Sl -> qmmul n Sl b = identity fopsQc n ->
  decompose md f b t p r = Done (res, r') ->
  NoDup (map (fun Pe : ideal * Z => i_hnf (fst Pe)) res).
Proof. exact primes_distinct_std. Qed.

(** Non-vacuity: the hypotheses hold for Z[i] (Sl = identity; runs ex_split (p = 5), ex_inert (3), ex_ramified (2)),
    for Z[(1+sqrt 5)/2] over x^2 - 5 (index 2; sqrt 5 = -w_0 + 2 w_1; run ex_split11) and for the maximal order
    of Dedekind's cubic (index 2; theta^2 = -w_1 + 2 w_2; p = 3 inert).  The conclusion is not trivially true:
    the unit ideal contains 1, and [cap_z] of the unit ideal is 1. *)
Definition SlZi : list (list Z) := [[1; 0]; [0; 1]].
Definition SlS5 : list (list Z) := [[1; 0]; [-1; 2]].
Definition SlD : list (list Z) := [[1; 0; 0]; [0; 1; 0]; [0; -1; 2]].
Example ex_hyps_Zi :
  lmonic fZi /\ length fZi = S (length bZi) /\ qshape 2 2 bZi /\ nth 0 bZi [] = Q2Qc 1 :: repeat (Q2Qc 0) (2 - 1)
  /\ get_mult_table bZi fZi = Done tZi /\ shape 2 2 SlZi /\ qmmul 2 SlZi bZi = identity fopsQc 2.
Proof. repeat split; try reflexivity; repeat constructor. Qed.
Example ex_hyps_S5 :
  lmonic fS5 /\ length fS5 = S (length bS5) /\ qshape 2 2 bS5 /\ nth 0 bS5 [] = Q2Qc 1 :: repeat (Q2Qc 0) (2 - 1)
  /\ get_mult_table bS5 fS5 = Done tS5 /\ shape 2 2 SlS5 /\ qmmul 2 SlS5 bS5 = identity fopsQc 2.
Proof. repeat split; try (vm_compute; reflexivity); repeat constructor. Qed.
Example ex_hyps_D :
  lmonic fD /\ length fD = S (length bD) /\ qshape 3 3 bD /\ nth 0 bD [] = Q2Qc 1 :: repeat (Q2Qc 0) (3 - 1)
  /\ get_mult_table bD fD = Done tD /\ shape 3 3 SlD /\ qmmul 3 SlD bD = identity fopsQc 3.
Proof. repeat split; try (vm_compute; reflexivity); repeat constructor. Qed.
Example ex_dedekind_inert :
  decompose Checked fD bD tD 3 (rng_of []) = Done ([(mkIdeal [[3; 0; 0]; [0; 3; 0]; [0; 0; 3]] tD, 1)], rng_of [])
  /\ cap_z (mkIdeal [[3; 0; 0]; [0; 3; 0]; [0; 0; 3]] tD) = Done 3
  /\ cap_z (mkIdeal [[5; 0]; [2; 1]] tZi) = Done 5 /\ cap_z (mkIdeal [[2; 0]; [1; 1]] tZi) = Done 2
  /\ contains Checked (mkIdeal [[5; 0]; [2; 1]] tZi) (unit_vec 2 0) = Done false
  /\ contains Checked (mkIdeal [[1; 0]; [0; 1]] tZi) (unit_vec 2 0) = Done true.
Proof. vm_compute. repeat split; reflexivity. Qed.
Example ex_unit_ideal_not_proper :
  In_rowspanZ 2 (unit_vec 2 0) [[1; 0]; [0; 1]] /\ cap_z (mkIdeal [[1; 0]; [0; 1]] tZi) = Done 1
  /\ ~ NoDup (map (fun Pe : ideal * Z => i_hnf (fst Pe)) [(mkIdeal [[5; 0]; [2; 1]] tZi, 1); (mkIdeal [[5; 0]; [2; 1]] tZi, 1)]).
Proof.
  split; [exists [1; 0]; split; reflexivity|]. split; [reflexivity|].
  intros H. inversion H as [|x l Hn _]; subst. apply Hn. left. reflexivity.
Qed.

(** ** Third wave: the returned ideals are prime ideals, and pairwise comaximal

    Same hypotheses as [prime_above_proper].  [bil t u v] is the product of the elements with coordinate
    vectors u, v ([MultTable::mul]; C16 [mt_mul_bilinear]).  Proof: with the rows of Sl every integer polynomial
    of degree < n has coordinates in the order, so the converse of the membership criterion holds:
    v is in P_i  iff  g_i divides (index * v) modulo p.  Since g_i is irreducible modulo p (C08), a product lies
    in P_i only if a factor does; and for g_i <> g_j a Bezout relation u g_i + w g_j = 1 mod p gives
    1 = a + b with a in P_i, b in P_j. *)

(** [P] primes_prime: every returned P_i is a prime ideal of the order: it is proper ([prime_above_proper]) and
    whenever the product of two elements of the order lies in P_i, one of them does. *)
Theorem primes_prime : forall md f b t Sl p r res r',
  prime p -> lmonic f -> Z.of_nat (length f) <= two64 ->
  let n := length b in
  length f = S n -> (1 <= n)%nat -> qshape n n b ->
  nth 0 b [] = Q2Qc 1 :: repeat (Q2Qc 0) (n - 1) ->
  get_mult_table b f = Done t -> shape n n Sl -> qmmul n Sl b = identity fopsQc n ->
  decompose md f b t p r = Done (res, r') ->
  Forall (fun Pe : ideal * Z =>
    forall u v, length u = n -> length v = n ->
      In_rowspanZ n (bil t u v) (i_hnf (fst Pe)) ->
      In_rowspanZ n u (i_hnf (fst Pe)) \/ In_rowspanZ n v (i_hnf (fst Pe))) res.
Proof. exact primes_prime_std. Qed.

(** [P] primes_comaximal: for two different positions i, j of the answer, whenever [P_i + P_j] (the model's
    [ideal_add], either profile) returns K, K is the whole order: it contains every coordinate vector. *)
Theorem primes_comaximal : forall md f b t Sl p r res r',
  prime p -> lmonic f -> Z.of_nat (length f) <= two64 ->
  let n := length b in
  length f = S n -> (1 <= n)%nat -> qshape n n b ->
  nth 0 b [] = Q2Qc 1 :: repeat (Q2Qc 0) (n - 1) ->
  get_mult_table b f = Done t -> shape n n Sl -> qmmul n Sl b = identity fopsQc n ->
  decompose md f b t p r = Done (res, r') ->
  forall i j dflt md' K, i <> j -> (i < length res)%nat -> (j < length res)%nat ->
    ideal_add md' (fst (nth i res dflt)) (fst (nth j res dflt)) = Done K ->
    forall v, length v = n -> In_rowspanZ n v (i_hnf K).
Proof. exact primes_comaximal_std. Qed.

(** Non-vacuity: in Z[i] the two primes above 5 add up to the unit ideal; the primality predicate is not
    trivially true: (5) contains (2 + i)(2 - i) = 5 but neither factor. *)
Example ex_comaximal :
  ideal_add Checked (mkIdeal [[5; 0]; [2; 1]] tZi) (mkIdeal [[5; 0]; [3; 1]] tZi) = Done (mkIdeal [[1; 0]; [0; 1]] tZi).
Proof. vm_compute. reflexivity. Qed.
Example ex_not_prime :
  bil tZi [2; 1] [2; -1] = [5; 0] /\ In_rowspanZ 2 [5; 0] [[5; 0]; [0; 5]]
  /\ ~ In_rowspanZ 2 [2; 1] [[5; 0]; [0; 5]] /\ ~ In_rowspanZ 2 [2; -1] [[5; 0]; [0; 5]].
Proof.
  split; [reflexivity|]. split; [exists [1; 0]; split; reflexivity|].
  split; intros [c [Hc E]]; destruct c as [|c0 [|c1 [|c2 c]]]; try discriminate Hc;
    cbn in E; injection E; intros; lia.
Qed.

(** ** Third wave: the norms (residue degrees)

    One more hypothesis: the stored basis is lower triangular (b[i][j] = 0 for j > i), as every basis produced
    by [Order::from_basis] / [hnf_reduce] is.  Any index prime to p. *)

(** [P] residue_degrees: whenever [decompose] returns, [Ideal::norm] of every returned P_i returns p^(deg g_i),
    g_i the factor of f mod p behind P_i, and sum e_i deg g_i = n: the residue degrees f_i = deg g_i read off the
    norms satisfy sum e_i f_i = n.  Proof: the j-th diagonal entry of the normal form generates the leading
    coefficients at j of the lattice; by the membership criterion (v in P_i iff g_i | index * v mod p) these are
    the multiples of p for j < deg g_i and everything for j >= deg g_i. *)
Theorem residue_degrees : forall md f b t Sl p r res r',
  prime p -> lmonic f -> Z.of_nat (length f) <= two64 ->
  let n := length b in
  length f = S n -> (1 <= n)%nat -> qshape n n b ->
  nth 0 b [] = Q2Qc 1 :: repeat (Q2Qc 0) (n - 1) ->
  (forall i j, (i < j)%nat -> (j < n)%nat -> nth j (nth i b []) (Q2Qc 0) = Q2Qc 0) ->
  get_mult_table b f = Done t -> shape n n Sl -> qmmul n Sl b = identity fopsQc n ->
  decompose md f b t p r = Done (res, r') ->
  exists gs, decompose_full md f b t p r = Done (gs, r') /\ res = map proj_full gs /\
             Forall (fun x : list Z * ideal * Z => norm (snd (fst x)) = Done (p ^ pdeg (fst (fst x)))) gs /\
             DecompDegree.degree_sum (map factor_of gs) = pdeg f.
Proof. exact residue_degrees_std. Qed.

(** Non-vacuity: the three bases are lower triangular; norms 5, 5 (split), 9 (inert), 2 (ramified) in Z[i],
    11, 11 over x^2 - 5 (index 2), 27 for Dedekind's cubic at 3 (index 2). *)
Example ex_triangular :
  (forall i j, (i < j)%nat -> (j < 2)%nat -> nth j (nth i bZi []) (Q2Qc 0) = Q2Qc 0) /\
  (forall i j, (i < j)%nat -> (j < 2)%nat -> nth j (nth i bS5 []) (Q2Qc 0) = Q2Qc 0) /\
  (forall i j, (i < j)%nat -> (j < 3)%nat -> nth j (nth i bD []) (Q2Qc 0) = Q2Qc 0).
Proof.
  repeat split; intros i j Hi Hj;
    destruct i as [|[|[|i]]]; destruct j as [|[|[|j]]]; try lia; reflexivity.
Qed.
Example ex_norms :
  norm (mkIdeal [[5; 0]; [2; 1]] tZi) = Done (5 ^ pdeg [2; 1]) /\ norm (mkIdeal [[5; 0]; [3; 1]] tZi) = Done (5 ^ pdeg [3; 1])
  /\ norm (mkIdeal [[3; 0]; [0; 3]] tZi) = Done (3 ^ pdeg [1; 0; 1]) /\ norm (mkIdeal [[2; 0]; [1; 1]] tZi) = Done (2 ^ pdeg [1; 1])
  /\ norm (mkIdeal [[11; 0]; [7; 1]] tS5) = Done 11
  /\ norm (mkIdeal [[3; 0; 0]; [0; 3; 0]; [0; 0; 3]] tD) = Done (3 ^ pdeg [1; 1; 2; 1]).
Proof. vm_compute. repeat split; reflexivity. Qed.

(** ** Third wave: absence of panics *)

(** [P] decompose_no_panic: for p prime, f monic, b the n x n stored basis of an order containing Z[theta] with
    its table ([get_mult_table b f]), both profiles, every draw stream: the index computation returns some idx;
    if p | idx the documented panic ([decompose_refuses]); otherwise [decompose] does not panic: it returns, or
    the model runs out of the fuel of the randomised equal-degree loop of the factoriser (C08
    factorize_mod_p_no_panic: in the code that loop ends with probability 1).  In particular the assertion
    [assert!(inv[k].is_integer())] of [to_z_basis_int] never fires: g_i(theta) lies in Z[theta], inside the order,
    and the debug assertions of [Algebraic::with_expr], [Ideal::principal] and [Add] hold. *)
Theorem decompose_no_panic : forall md f b t Sl p r,
  prime p -> lmonic f -> Z.of_nat (length f) <= two64 ->
  let n := length b in
  length f = S n -> (1 <= n)%nat -> qshape n n b ->
  get_mult_table b f = Done t -> shape n n Sl -> qmmul n Sl b = identity fopsQc n ->
  exists zt idx,
    trivial_order_monic f = Done zt /\ order_index b zt = Done idx /\
    ((p | idx) -> decompose md f b t p r = Panic POther) /\
    (~ (p | idx) ->
       (exists res r', decompose md f b t p r = Done (res, r')) \/ decompose md f b t p r = OutOfFuel).
Proof. exact decompose_no_panic_std. Qed.

(** Non-vacuity: all three alternatives occur (ex_refused: p = 2 | index 2 of Z[sqrt 5]; ex_split11: returned;
    an empty draw stream on a splitting prime makes the model give up after 400 rejected draws). *)
Example ex_out_of_fuel : decompose Checked fZi bZi tZi 5 (rng_of []) = OutOfFuel.
Proof. vm_compute. reflexivity. Qed.

(** ** The product formula needs more than these hypotheses

    prod P_i^e_i = (p) is NOT proved.  It is false of the model (and of the code) under the hypotheses above:
    they do not say that the order is maximal at p.  Z[sqrt 5] (index 1 in itself, so p = 2 passes the index test)
    gives P = (2, 1 + sqrt 5) with e = 2, and P * P = (4, 2 + 2 sqrt 5) is not (2).  A proof needs the
    hypothesis that the order is p-maximal (Dedekind's criterion), which the routine cannot check. *)
Definition tZs5 : table := [[[1; 0]; [0; 1]]; [[0; 1]; [5; 0]]].
Example ex_product_needs_maximal :
  get_mult_table bZi fS5 = Done tZs5
  /\ decompose Checked fS5 bZi tZs5 2 (rng_of []) = Done ([(mkIdeal [[2; 0]; [1; 1]] tZs5, 2)], rng_of [])
  /\ ideal_mul Checked (mkIdeal [[2; 0]; [1; 1]] tZs5) (mkIdeal [[2; 0]; [1; 1]] tZs5) = Done (mkIdeal [[4; 0]; [2; 2]] tZs5)
  /\ principal Checked tZs5 [2; 0] = Done (mkIdeal [[2; 0]; [0; 2]] tZs5).
Proof. vm_compute. repeat split; reflexivity. Qed.

(** ** Fifth wave: the product of the returned ideals

    [DecompW5Lattice.ideal_product md t res] (a definition of the proof development; the code has no such function)
    multiplies the unit ideal [principal md t e_0] by P_1 (e_1 times), then by P_2 (e_2 times), ... with the model's
    [ideal_mul]: prod P_i^e_i computed by [Ideal::principal] and [Mul].  Hypotheses of [prime_above_proper].
    Proof: the lattice L(D) = { v : D divides (index * v)(x) modulo p }, D a divisor of f mod p, satisfies P_i = L(g_i)
    ([primes_prime]), L(D1) L(D2) inside L(D1 D2), L(f mod p) = p O; and L(D1) L(g) = L(D1 g) as soon as p lies in the
    product, which holds when D1, g are coprime (Bezout) or when g is prime to h = (f - prod g_i^e_i)/p (Dedekind). *)
From RNT.Refine Require Import DecompW5Lattice DecompW5Top.
From RNT.Refine Require DecompW5Max Round2W3Driver Round2W4PZ.

(** [P] product_below_p: the product is computed without panic, is a lattice in normal form over the same table, and lies
    in p O: every member has all coordinates divisible by p.  No maximality hypothesis (true for Z[sqrt 5] at 2). *)
Theorem product_below_p : forall md f b t Sl p r res r' md',
  prime p -> lmonic f -> Z.of_nat (length f) <= two64 ->
  let n := length b in
  length f = S n -> (1 <= n)%nat -> qshape n n b ->
  nth 0 b [] = Q2Qc 1 :: repeat (Q2Qc 0) (n - 1) ->
  get_mult_table b f = Done t -> shape n n Sl -> qmmul n Sl b = identity fopsQc n ->
  decompose md f b t p r = Done (res, r') ->
  exists I, ideal_product md' t res = Done I /\ i_table I = t /\ is_hnf (i_hnf I) = true /\ wf n (i_hnf I) /\
            forall v, In_rowspanZ n v (i_hnf I) -> exists w, length w = n /\ v = vscale p w.
Proof. exact product_below_p_std. Qed.

(** [P] product_equals_p_unramified: when every e_i is 1 (f squarefree modulo p) the product IS p O: it is the ideal
    [Ideal::principal] returns on p (equal stored forms), its norm is p^n = [O : p O], its members are the p w.
    (Chinese remainder theorem: the P_i are pairwise comaximal.) *)
Theorem product_equals_p_unramified : forall md f b t Sl p r res r' md',
  prime p -> lmonic f -> Z.of_nat (length f) <= two64 ->
  let n := length b in
  length f = S n -> (1 <= n)%nat -> qshape n n b ->
  nth 0 b [] = Q2Qc 1 :: repeat (Q2Qc 0) (n - 1) ->
  get_mult_table b f = Done t -> shape n n Sl -> qmmul n Sl b = identity fopsQc n ->
  decompose md f b t p r = Done (res, r') ->
  Forall (fun Pe : ideal * Z => snd Pe = 1) res ->
  exists I,
    ideal_product md' t res = Done I /\ principal md' t (p :: repeat 0 (n - 1)) = Done I /\
    norm I = Done (p ^ Z.of_nat n) /\
    forall v, In_rowspanZ n v (i_hnf I) <-> exists w, length w = n /\ v = vscale p w.
Proof. exact product_unramified_std. Qed.

(** [C] product_equals_p_dedekind.  Full statement: prod P_i^e_i = p O whenever the order is p-maximal.
    Proved: the same conclusion whenever the boolean [dedekind_flag p f [(g_i, e_i)]] is true: with
    h = (f - prod g_i^e_i) / p in Z[x] (exact division, [ded_h]), for every i with e_i >= 2 the remainder of h by g_i
    modulo p (the model's [poly_mod], [poly_divrem]) is not zero -- Dedekind's criterion for p-maximality of Z[theta].
    The flag is true when no e_i exceeds 1. *)
Theorem product_equals_p_dedekind : forall md f b t Sl p r res r',
  prime p -> lmonic f -> Z.of_nat (length f) <= two64 ->
  let n := length b in
  length f = S n -> (1 <= n)%nat -> qshape n n b ->
  nth 0 b [] = Q2Qc 1 :: repeat (Q2Qc 0) (n - 1) ->
  get_mult_table b f = Done t -> shape n n Sl -> qmmul n Sl b = identity fopsQc n ->
  decompose md f b t p r = Done (res, r') ->
  exists gs, decompose_full md f b t p r = Done (gs, r') /\ res = map proj_full gs /\
    (dedekind_flag p f (map factor_of gs) = true ->
     forall md', exists I,
       ideal_product md' t res = Done I /\ principal md' t (p :: repeat 0 (n - 1)) = Done I /\
       norm I = Done (p ^ Z.of_nat n) /\
       forall v, In_rowspanZ n v (i_hnf I) <-> exists w, length w = n /\ v = vscale p w).
Proof. exact product_dedekind_std. Qed.

(** [P] product_equals_p_maximal: the product formula prod P_i^e_i = p O of the Kummer-Dedekind theorem, ramified
    primes included, under the hypothesis that was missing ([ex_product_needs_maximal]): the order is p-maximal.
    Hypotheses of [prime_above_proper] plus [is_order f n b] (C06: b is a stored lower triangular basis of a lattice that
    contains 1 and on which [get_mult_table] returns) and [p_maximal f n p b] (C06: p divides the index of b in none of
    its over-orders; equivalently the Round 2 step at p returns howmany = 0, [step_zero_iff_p_maximal]).
    Conclusion: [ideal_product] returns (no panic, both profiles) the very ideal [Ideal::principal] returns on p; its
    norm is p^n; its members are exactly the vectors p w.
    Proof: on a p-maximal order the Round 2 step returns 0 (C06 p_maximal_step_zero), so every u with u I_p inside
    p I_p lies in p O (I_p the p-radical); I_p = L(prod g_i); if some g_i with e_i >= 2 divided
    h = (f - prod g_j^e_j)/p modulo p, u = (f / g_i)(theta) would be such a multiplier outside p O.  Hence Dedekind's
    criterion holds and p lies in every partial product (see product_equals_p_dedekind). *)
Theorem product_equals_p_maximal : forall md f b t Sl p r res r' md',
  prime p -> lmonic f -> Z.of_nat (length f) <= two64 ->
  let n := length b in
  length f = S n -> (1 <= n)%nat -> qshape n n b ->
  nth 0 b [] = Q2Qc 1 :: repeat (Q2Qc 0) (n - 1) ->
  get_mult_table b f = Done t -> shape n n Sl -> qmmul n Sl b = identity fopsQc n ->
  Round2W3Driver.is_order f n b -> Round2W4PZ.p_maximal f n p b ->
  decompose md f b t p r = Done (res, r') ->
  exists I,
    ideal_product md' t res = Done I /\ principal md' t (p :: repeat 0 (n - 1)) = Done I /\
    norm I = Done (p ^ Z.of_nat n) /\
    forall v, In_rowspanZ n v (i_hnf I) <-> exists w, length w = n /\ v = vscale p w.
Proof. exact DecompW5Max.product_pmax_std. Qed.

(** [P] dedekind_necessary: Dedekind's criterion is necessary for p-maximality, on the boolean itself: under the
    hypotheses of [product_equals_p_maximal] the flag of [product_equals_p_dedekind] evaluates to true on the factors kept
    by the companion run ([poly_mod] and [poly_divrem] do not panic there and every remainder is non-zero). *)
Theorem dedekind_necessary : forall md f b t Sl p r gs r',
  prime p -> lmonic f -> Z.of_nat (length f) <= two64 ->
  let n := length b in
  length f = S n -> (1 <= n)%nat -> qshape n n b ->
  nth 0 b [] = Q2Qc 1 :: repeat (Q2Qc 0) (n - 1) ->
  get_mult_table b f = Done t -> shape n n Sl -> qmmul n Sl b = identity fopsQc n ->
  Round2W3Driver.is_order f n b -> Round2W4PZ.p_maximal f n p b ->
  decompose_full md f b t p r = Done (gs, r') -> dedekind_flag p f (map factor_of gs) = true.
Proof. exact DecompW5Max.pmax_flag_std. Qed.

(** Non-vacuity.  Z[i]: 5 splits (product of the two primes = (5)), 2 ramifies (P^2 = (2); flag: h = -x, g = x + 1),
    3 is inert.  Z[cbrt 2] (the maximal order of x^3 - 2): 31 splits into three primes, 5 = P1 P2 with residue degrees
    1 and 2, 3 = P^3 and 2 = P^3 totally ramified (flags true).  Dedekind's cubic, maximal order, 3 inert.
    Z[sqrt 5] at 2 (not 2-maximal): the flag is false, the product (4, 2 + 2 sqrt 5) lies in (2) but is not (2). *)
Definition fC : list Z := [-2; 0; 0; 1].
Definition bC : qmat := [[Q2Qc 1; Q2Qc 0; Q2Qc 0]; [Q2Qc 0; Q2Qc 1; Q2Qc 0]; [Q2Qc 0; Q2Qc 0; Q2Qc 1]].
Definition tC : table := [[[1; 0; 0]; [0; 1; 0]; [0; 0; 1]]; [[0; 1; 0]; [0; 0; 1]; [2; 0; 0]]; [[0; 0; 1]; [2; 0; 0]; [0; 2; 0]]].
Definition SlC : list (list Z) := [[1; 0; 0]; [0; 1; 0]; [0; 0; 1]].
Example ex_hyps_C :
  lmonic fC /\ length fC = S (length bC) /\ qshape 3 3 bC /\ nth 0 bC [] = Q2Qc 1 :: repeat (Q2Qc 0) (3 - 1)
  /\ get_mult_table bC fC = Done tC /\ shape 3 3 SlC /\ qmmul 3 SlC bC = identity fopsQc 3.
Proof. repeat split; try (vm_compute; reflexivity); repeat constructor. Qed.
Example ex_cubic_31 : exists r', decompose_full Checked fC bC tC 31 draws5
    = Done ([([24; 1], mkIdeal [[31; 0; 0]; [24; 1; 0]; [13; 0; 1]] tC, 1);
             ([11; 1], mkIdeal [[31; 0; 0]; [11; 1; 0]; [3; 0; 1]] tC, 1);
             ([27; 1], mkIdeal [[31; 0; 0]; [27; 1; 0]; [15; 0; 1]] tC, 1)], r')
    /\ ideal_product Checked tC [(mkIdeal [[31; 0; 0]; [24; 1; 0]; [13; 0; 1]] tC, 1);
                                 (mkIdeal [[31; 0; 0]; [11; 1; 0]; [3; 0; 1]] tC, 1);
                                 (mkIdeal [[31; 0; 0]; [27; 1; 0]; [15; 0; 1]] tC, 1)]
       = Done (mkIdeal [[31; 0; 0]; [0; 31; 0]; [0; 0; 31]] tC)
    /\ principal Checked tC [31; 0; 0] = Done (mkIdeal [[31; 0; 0]; [0; 31; 0]; [0; 0; 31]] tC)
    /\ norm (mkIdeal [[31; 0; 0]; [0; 31; 0]; [0; 0; 31]] tC) = Done (31 ^ 3).
Proof. eexists. vm_compute. repeat split; reflexivity. Qed.
Example ex_cubic_5_3_2 :
  decompose_full Checked fC bC tC 5 (rng_of [])
    = Done ([([2; 1], mkIdeal [[5; 0; 0]; [2; 1; 0]; [1; 0; 1]] tC, 1);
             ([4; 3; 1], mkIdeal [[5; 0; 0]; [0; 5; 0]; [4; 3; 1]] tC, 1)], rng_of [])
  /\ ideal_product Checked tC [(mkIdeal [[5; 0; 0]; [2; 1; 0]; [1; 0; 1]] tC, 1); (mkIdeal [[5; 0; 0]; [0; 5; 0]; [4; 3; 1]] tC, 1)]
     = principal Checked tC [5; 0; 0]
  /\ decompose_full Checked fC bC tC 3 (rng_of []) = Done ([([1; 1], mkIdeal [[3; 0; 0]; [1; 1; 0]; [2; 0; 1]] tC, 3)], rng_of [])
  /\ dedekind_flag 3 fC [([1; 1], 3)] = true
  /\ ideal_product Checked tC [(mkIdeal [[3; 0; 0]; [1; 1; 0]; [2; 0; 1]] tC, 3)] = principal Checked tC [3; 0; 0]
  /\ decompose_full Checked fC bC tC 2 (rng_of []) = Done ([([0; 1], mkIdeal [[2; 0; 0]; [0; 1; 0]; [0; 0; 1]] tC, 3)], rng_of [])
  /\ dedekind_flag 2 fC [([0; 1], 3)] = true
  /\ ideal_product Checked tC [(mkIdeal [[2; 0; 0]; [0; 1; 0]; [0; 0; 1]] tC, 3)] = principal Checked tC [2; 0; 0]
  /\ principal Checked tC [2; 0; 0] = Done (mkIdeal [[2; 0; 0]; [0; 2; 0]; [0; 0; 2]] tC).
Proof. vm_compute. repeat split; reflexivity. Qed.
Example ex_products_Zi :
  ideal_product Checked tZi [(mkIdeal [[5; 0]; [2; 1]] tZi, 1); (mkIdeal [[5; 0]; [3; 1]] tZi, 1)] = Done (mkIdeal [[5; 0]; [0; 5]] tZi)
  /\ principal Checked tZi [5; 0] = Done (mkIdeal [[5; 0]; [0; 5]] tZi)
  /\ dedekind_flag 2 fZi [([1; 1], 2)] = true /\ ded_h 2 fZi [([1; 1], 2)] = [0; -1]
  /\ ideal_product Checked tZi [(mkIdeal [[2; 0]; [1; 1]] tZi, 2)] = Done (mkIdeal [[2; 0]; [0; 2]] tZi)
  /\ principal Checked tZi [2; 0] = Done (mkIdeal [[2; 0]; [0; 2]] tZi)
  /\ ideal_product Checked tZi [(mkIdeal [[3; 0]; [0; 3]] tZi, 1)] = principal Checked tZi [3; 0]
  /\ ideal_product Checked tD [(mkIdeal [[3; 0; 0]; [0; 3; 0]; [0; 0; 3]] tD, 1)] = principal Checked tD [3; 0; 0]
  /\ norm (mkIdeal [[2; 0]; [0; 2]] tZi) = Done (2 ^ 2).
Proof. vm_compute. repeat split; reflexivity. Qed.
Example ex_flag_false_Zs5 :
  dedekind_flag 2 fS5 [([1; 1], 2)] = false /\ ded_h 2 fS5 [([1; 1], 2)] = [-3; -1]
  /\ ideal_product Checked tZs5 [(mkIdeal [[2; 0]; [1; 1]] tZs5, 2)] = Done (mkIdeal [[4; 0]; [2; 2]] tZs5)
  /\ principal Checked tZs5 [2; 0] = Done (mkIdeal [[2; 0]; [0; 2]] tZs5).
Proof. vm_compute. repeat split; reflexivity. Qed.

(** Non-vacuity of the two new hypotheses: Z[i] and Z[cbrt 2] are orders in the sense of C06 (they are what
    [find_integral_basis] returns; C06 find_integral_basis_order_monic) and are p-maximal at the ramified primes 2,
    resp. 3 and 2 (the Round 2 step returns howmany = 0 there; C06 step_zero_p_maximal).  Z[sqrt 5] is not 2-maximal
    and the conclusion fails for it ([ex_flag_false_Zs5]). *)
From RNT.Model Require Round2.
From RNT.Refine Require Round2W3Start.
Example ex_pmax_hyps :
  Round2W3Driver.is_order fZi 2 bZi /\ Round2W4PZ.p_maximal fZi 2 2 bZi /\
  Round2W3Driver.is_order fC 3 bC /\ Round2W4PZ.p_maximal fC 3 3 bC /\ Round2W4PZ.p_maximal fC 3 2 bC.
Proof.
  assert (IOi : Round2W3Driver.is_order fZi 2 bZi).
  { pose proof (Round2W3Start.find_integral_basis_order_monic Checked fZi 2 eq_refl eq_refl ltac:(lia) eq_refl) as H.
    vm_compute Round2.find_integral_basis in H. exact H. }
  assert (IOc : Round2W3Driver.is_order fC 3 bC).
  { pose proof (Round2W3Start.find_integral_basis_order_monic Checked fC 3 eq_refl eq_refl ltac:(lia) eq_refl) as H.
    vm_compute Round2.find_integral_basis in H. exact H. }
  split; [exact IOi|]. split.
  { eapply Round2W4PZ.step_zero_p_maximal; [reflexivity|reflexivity|lia|exact prime_2|exact IOi|vm_compute; reflexivity]. }
  split; [exact IOc|]. split.
  { eapply Round2W4PZ.step_zero_p_maximal; [reflexivity|reflexivity|lia|exact prime_3|exact IOc|vm_compute; reflexivity]. }
  { eapply Round2W4PZ.step_zero_p_maximal; [reflexivity|reflexivity|lia|exact prime_2|exact IOc|vm_compute; reflexivity]. }
Qed.


(** ** Fifth wave: the integral-basis pipeline

    [P] decompose_integral_basis: for every monic f of degree deg >= 1 (2 deg < 2^64) whose starting order has a
    non-zero discriminant of fewer than 2^64 bits (the hypotheses of C06 find_integral_basis_p_maximal), in both build
    profiles: [find_integral_basis] returns an order O, [get_mult_table] returns its table t, and for EVERY prime p,
    every draw stream and both profiles, whenever [decompose md f O t p r] returns [res] (it does, or the model's fuel
    runs out, when p does not divide the index; otherwise the documented panic -- [decompose_no_panic]):
      - every P_i is a proper ideal with P_i meet Z = pZ and a prime ideal of O; the P_i are pairwise distinct;
      - [Ideal::norm] P_i = p^(deg g_i) and sum e_i deg g_i = deg (g_i the factors of f mod p kept by the companion run);
      - prod P_i^e_i = p O: [ideal_product] returns the ideal [Ideal::principal] returns on p, of norm p^deg.
    No hypothesis on the order is left: O is p-maximal at every p (C06), its first row is (1, 0, .., 0)
    (DecompW5Pipeline.order_first_row: w_0 = c > 0 with c^2 = c w_0 integral and 1 = k c), it is lower triangular,
    and it contains Z[theta] (DecompW5Contain.monic_contains_power_basis). *)
From RNT.Refine Require DecompW5PipelineTop.
Theorem decompose_integral_basis : forall m f deg,
  PolyZ.canonZ f = true -> length f = S deg -> (1 <= deg)%nat -> 2 * Z.of_nat deg < two64 ->
  nth deg f 0 = 1 ->
  (forall o0 d0, non_monic_initial_order f = Done o0 -> Round2.order_disc m o0 f = Done d0 ->
     d0 <> 0 /\ Z.log2 (Z.abs d0) < two64) ->
  exists O t,
    Round2.find_integral_basis m f = Done O /\ get_mult_table O f = Done t /\ length O = deg /\
    forall p md r res r', prime p -> decompose md f O t p r = Done (res, r') ->
      Forall (fun Pe : ideal * Z =>
         ~ In_rowspanZ deg (unit_vec deg 0) (i_hnf (fst Pe)) /\ cap_z (fst Pe) = Done p /\
         forall u v, length u = deg -> length v = deg ->
           In_rowspanZ deg (bil t u v) (i_hnf (fst Pe)) ->
           In_rowspanZ deg u (i_hnf (fst Pe)) \/ In_rowspanZ deg v (i_hnf (fst Pe))) res /\
      NoDup (map (fun Pe : ideal * Z => i_hnf (fst Pe)) res) /\
      (exists gs, decompose_full md f O t p r = Done (gs, r') /\ res = map proj_full gs /\
         Forall (fun x : list Z * ideal * Z => norm (snd (fst x)) = Done (p ^ pdeg (fst (fst x)))) gs /\
         DecompDegree.degree_sum (map factor_of gs) = pdeg f) /\
      forall md', exists I,
        ideal_product md' t res = Done I /\ principal md' t (p :: repeat 0 (deg - 1)) = Done I /\
        norm I = Done (p ^ Z.of_nat deg) /\
        forall v, In_rowspanZ deg v (i_hnf I) <-> exists w, length w = deg /\ v = vscale p w.
Proof. exact DecompW5PipelineTop.pipeline_decomposition. Qed.

(** Non-vacuity: the hypotheses on x^2 + 1 (d0 = -4), x^3 - 2 (d0 = -108), Dedekind's cubic (d0 = -2012); the driver
    returns Z[i], Z[cbrt 2] and the maximal order of index 2 (runs above: ex_split, ex_ramified, ex_cubic_31,
    ex_cubic_5_3_2, ex_dedekind_inert) *)
Example ex_pipeline_hyps : forall f, In f [fZi; fC; fD] ->
  PolyZ.canonZ f = true /\ nth (length f - 1) f 0 = 1 /\ 2 * Z.of_nat (length f - 1) < two64 /\
  forall m o0 d0, non_monic_initial_order f = Done o0 -> Round2.order_disc m o0 f = Done d0 ->
    d0 <> 0 /\ Z.log2 (Z.abs d0) < two64.
Proof.
  intros f [<-|[<-|[<-|[]]]]; (split; [reflexivity|]; split; [reflexivity|]; split; [reflexivity|]);
    intros m o0 d0 N0 D0; vm_compute in N0; injection N0 as <-;
    destruct m; vm_compute in D0; injection D0 as <-; split; try discriminate; reflexivity.
Qed.
Example ex_pipeline_orders :
  (exists O, Round2.find_integral_basis Checked fZi = Done O /\ get_mult_table O fZi = Done tZi) /\
  (exists O, Round2.find_integral_basis Checked fC = Done O /\ get_mult_table O fC = Done tC) /\
  (exists O, Round2.find_integral_basis Checked fD = Done O /\ get_mult_table O fD = Done tD).
Proof. repeat split; eexists; (split; [vm_compute; reflexivity|vm_compute; reflexivity]). Qed.
