(** C17: decomposition of a rational prime (src/prime_decomp/simple.rs).  Theorems about the model
    entry point [PrimeDecomp.decompose md f int_basis table p draws] for ALL inputs of the stated
    shape and ALL draw streams.

    NOT proved here (see vp/props/c17.py): primality of the returned ideals, norm P_i = p^f_i,
    prod P_i^e_i = (p), sum e_i f_i = n (Kummer-Dedekind theorem; correctness of the mod-p
    factoriser is property C08). *)
From Coq Require Import ZArith List QArith Qcanon.
From RNT.Model Require Import Base Poly LinAlg MultTable Order Ideal PrimeDecomp.
From RNT.Model Require Hnf.
From RNT.Model Require Import FactorModP.
From RNT.Refine Require Import MatZ HnfSpec IdealBasic IdealMul IdealSpec IdealInv DecompDegree.
Import ListNotations.
Open Scope Z_scope.

(** [P] decompose_refuses: when p divides the index (O : Z[theta]) the routine panics with the
    documented message (class other) before any random draw, whatever the draw stream. *)
Theorem decompose_refuses : forall md f b t p r zt idx,
  trivial_order_monic f = Done zt -> order_index b zt = Done idx ->
  p <> 0 -> Z.rem idx p = 0 ->
  decompose md f b t p r = Panic POther.
Proof. exact decompose_refuses_index. Qed.

(** [P] above_p: whenever the routine returns, every returned ideal is a lattice in normal form over the
    given table and contains the vector p e_0 -- the rational integer p when w_0 = 1, which for the
    table is the hypothesis [w_0 w_0 = w_0] -- so P_i meet Z contains pZ.  Hypotheses: the table is
    n x n x n, the order has n basis vectors and deg f = n. *)
Theorem above_p : forall md f b t p r res r',
  tshape t -> (1 <= length t)%nat -> length b = length t -> Z.to_nat (pdeg f) = length t ->
  table_entry t 0 0 = unit_vec (length t) 0 ->
  decompose md f b t p r = Done (res, r') ->
  Forall (fun Pe => i_table (fst Pe) = t /\ is_hnf (i_hnf (fst Pe)) = true /\ wf (length t) (i_hnf (fst Pe)) /\
                    In_rowspanZ (length t) (p :: repeat 0 (length t - 1)) (i_hnf (fst Pe))) res.
Proof. exact decompose_above_p. Qed.

(** each P_i is the sum of two principal ideals, (g_i(theta)) + (p): with [principal_is_ideal] and
    [add_is_ideal] of C16 it is closed under multiplication by the order when the table is associative *)

(** [C] degree_sum_partial.  Full statement: sum e_i f_i = deg f with f_i the residue degree of P_i
    (needs norm P_i = p^f_i and the correctness of the mod-p factoriser, C08: not proved).
    Proved: the multiplicities returned are those of [factorize_mod_p] on the same draws (which are all
    consumed there), and whenever the model-evaluated flag [factor_flag f p fs] holds -- every g_i is a
    non-zero canonical polynomial, e_i >= 0, and prod g_i^e_i agrees with f coefficientwise mod p --
    then sum e_i deg g_i = deg f. *)
Theorem degree_sum_partial : forall md f b t p r res r',
  decompose md f b t p r = Done (res, r') ->
  exists fs, factorize_mod_p md f p (usize_or_0 p) r = Done (fs, r') /\
             (map snd res = map snd fs) /\
             ((factor_flag f p fs = true) -> (degree_sum fs = pdeg f)).
Proof. exact degree_sum_partial_std. Qed.

(** Non-vacuity: Z[i] (5 splits with the logged draws of a real run, 2 ramifies, 3 is inert),
    Q(sqrt 5) with maximal order Z[(1+sqrt 5)/2] of index 2 in Z[sqrt 5] (2 is refused, 11 splits). *)
Definition fZi : list Z := [1; 0; 1].
Definition bZi : qmat := [[Q2Qc 1; Q2Qc 0]; [Q2Qc 0; Q2Qc 1]].
Definition tZi : table := [[[1; 0]; [0; 1]]; [[0; 1]; [-1; 0]]].
Definition draws5 : rng := rng_of [160; 17; 209; 169; 88; 130; 17; 34; 237; 248; 19; 247; 229; 220; 110; 52].

Example ex_table : get_mult_table bZi fZi = Done tZi /\ table_shape tZi = true
                   /\ table_entry tZi 0 0 = unit_vec 2 0 /\ Z.to_nat (pdeg fZi) = 2%nat.
Proof. vm_compute. repeat split; reflexivity. Qed.
Example ex_split : exists r', decompose Checked fZi bZi tZi 5 draws5
                   = Done ([(mkIdeal [[5; 0]; [2; 1]] tZi, 1); (mkIdeal [[5; 0]; [3; 1]] tZi, 1)], r')
                   /\ rng_bytes r' = [] /\ rng_exhausted r' = false.
Proof. eexists. vm_compute. repeat split; reflexivity. Qed.
Example ex_flag : exists r', factorize_mod_p Checked fZi 5 5 draws5 = Done ([([2; 1], 1); ([3; 1], 1)], r')
                  /\ factor_flag fZi 5 [([2; 1], 1); ([3; 1], 1)] = true
                  /\ degree_sum [([2; 1], 1); ([3; 1], 1)] = 2 /\ pdeg fZi = 2
                  /\ factor_flag fZi 2 [([1; 1], 2)] = true /\ factor_flag fZi 3 [([1; 0; 1], 1)] = true.
Proof. eexists. vm_compute. repeat split; reflexivity. Qed.
Example ex_ramified : decompose Checked fZi bZi tZi 2 (rng_of []) = Done ([(mkIdeal [[2; 0]; [1; 1]] tZi, 2)], rng_of []).
Proof. vm_compute. reflexivity. Qed.
Example ex_inert : decompose Checked fZi bZi tZi 3 (rng_of []) = Done ([(mkIdeal [[3; 0]; [0; 3]] tZi, 1)], rng_of []).
Proof. vm_compute. reflexivity. Qed.

Definition fS5 : list Z := [-5; 0; 1].
Definition bS5 : qmat := [[Q2Qc 1; Q2Qc 0]; [Q2Qc (1 # 2); Q2Qc (1 # 2)]].
Definition tS5 : table := [[[1; 0]; [0; 1]]; [[0; 1]; [1; 1]]].
Example ex_index : get_mult_table bS5 fS5 = Done tS5
                   /\ (do zt <- trivial_order_monic fS5; order_index bS5 zt) = Done 2.
Proof. vm_compute. split; reflexivity. Qed.
Example ex_refused : forall r, decompose Checked fS5 bS5 tS5 2 r = Panic POther.
Proof. intros r. vm_compute. reflexivity. Qed.
Example ex_split11 : exists r', decompose Checked fS5 bS5 tS5 11
                       (rng_of [160; 17; 209; 169; 88; 130; 17; 34; 237; 248; 19; 247; 229; 220; 110; 52; 29; 114; 230; 128])
                     = Done ([(mkIdeal [[11; 0]; [7; 1]] tS5, 1); (mkIdeal [[11; 0]; [3; 1]] tS5, 1)], r').
Proof. eexists. vm_compute. reflexivity. Qed.
