(** C08: factorisation modulo a prime.

    Vocabulary (coq/Refine): [peqmod m a b] = "poly_mod (a - b) m is the zero polynomial"
    (coefficientwise congruence); [canonical a] = no trailing zero; [in_range m a] = all
    coefficients in [0, m). The bounded [B] statements quantify over the finite domain named
    in the statement and are closed by [vm_compute]. *)
From Coq Require Import ZArith List Lia Znumtheory.
From RNT.Model Require Import Base Poly PolyModP FactorModP.
From RNT.Refine Require Import PolyModPArith PolyZmod MonicZ HenselProofs FactorSmall C08Lists PolyModStart FmpLists.
Import ListNotations.
Open Scope Z_scope.

(** ** Arithmetic of prim.rs *)

(** [P] [modpow] is x^e mod m (for e = 0 the result is 1, also when m = 1). *)
Theorem modpow_spec : forall x e m r,
  0 < m -> 0 <= e -> 0 <= x -> modpow x e m = Done r ->
  r = (if e =? 0 then 1 else x ^ e mod m).
Proof. exact modpow_spec. Qed.

(** [P] any sign of x and of the modulus: the result is congruent to x^e. *)
Theorem modpow_cong : forall x e m r,
  m <> 0 -> 0 <= e -> modpow x e m = Done r -> r mod m = x ^ e mod m.
Proof. exact modpow_cong. Qed.

Theorem modpow_total : forall x e m, m <> 0 -> exists r, modpow x e m = Done r.
Proof. exact modpow_total. Qed.

Example modpow_nonvacuous : modpow 3 10 7 = Done 4 /\ modpow (-3) 5 7 = Done (-5).
Proof. split; reflexivity. Qed.

(** [P] [poly_mod]: canonical output with coefficients in [0, p). *)
Theorem poly_mod_reduced : forall f p r,
  0 < p -> poly_mod f p = Done r -> canonical r /\ in_range p r.
Proof. exact poly_mod_reduced. Qed.

Theorem poly_mod_nth : forall f p r i,
  p <> 0 -> poly_mod f p = Done r -> nth i r 0 = (nth i f 0) mod p.
Proof. exact poly_mod_nth. Qed.

Example poly_mod_nonvacuous : poly_mod [1; -2; 7] 7 = Done [1; 5].
Proof. reflexivity. Qed.

(** [P] [poly_divrem_spec]: for p prime and a divisor whose leading coefficient is not divisible
    by p: a = q b + r modulo p coefficientwise, deg r < deg b, q (and r, unless the early
    return hands back a) reduced. *)
Theorem poly_divrem_spec : forall p a b q r,
  prime p -> b <> [] -> ~ (p | last b 0) ->
  poly_divrem a b p = Done (q, r) ->
  peqmod p a (padd opsZ (pmul opsZ q b) r) /\ (length r < length b)%nat /\
  canonical q /\ in_range p q /\ (canonical a -> canonical r) /\
  ((length b <= length a)%nat \/ a = [] -> in_range p r) /\
  ((length a < length b)%nat -> q = [] /\ r = a).
Proof. exact poly_divrem_list_spec. Qed.

Theorem poly_divrem_total : forall p a b,
  prime p -> ~ (p | last b 0) -> exists q r, poly_divrem a b p = Done (q, r).
Proof. exact poly_divrem_list_total. Qed.

Example poly_divrem_nonvacuous :
  prime 3 /\ ~ (3 | last [1; 1; 2] 0) /\ poly_divrem [1; 2; 0; 1; 2] [1; 1; 2] 3 = Done ([1; 0; 1], [0; 1]).
Proof.
  split; [exact prime_3|]. split; [|reflexivity].
  intros [k Hk]. cbn in Hk. lia.
Qed.

(** [P] [poly_gcd] of reduced polynomials is reduced and divides both modulo p. *)
Theorem poly_gcd_spec : forall p a b g,
  prime p -> canonical a -> in_range p a -> canonical b -> in_range p b ->
  poly_gcd a b p = Done g ->
  canonical g /\ in_range p g /\
  (exists s, peqmod p a (pmul opsZ g s)) /\ (exists t, peqmod p b (pmul opsZ g t)).
Proof. exact poly_gcd_list_spec. Qed.

(** [P] fuel sufficiency: on reduced arguments (which is what every caller passes) the Euclidean
    recursions return. *)
Theorem poly_gcd_total : forall p a b,
  prime p -> canonical a -> in_range p a -> canonical b -> in_range p b ->
  exists g, poly_gcd a b p = Done g.
Proof. exact poly_gcd_list_total. Qed.

Theorem poly_ext_gcd_total : forall p a b,
  prime p -> canonical a -> in_range p a -> canonical b -> in_range p b ->
  exists g u v, poly_ext_gcd a b p = Done (g, u, v).
Proof. exact poly_ext_gcd_list_total. Qed.

(** [P] [poly_modpow] for e > 0: the result is x^e modulo (g, p) ([lpow x n] = x * ... * x), reduced. *)
Theorem poly_modpow_spec : forall p x e g r,
  prime p -> canonical g -> in_range p g -> 0 < e ->
  poly_modpow x e g p = Done r ->
  (exists k, peqmod p r (padd opsZ (lpow x (Z.to_nat e)) (pmul opsZ g k))) /\
  canonical r /\ in_range p r.
Proof. exact poly_modpow_list_spec. Qed.

Example poly_modpow_nonvacuous :
  prime 3 /\ canonical [2; 0; 0; 0; 1] /\ in_range 3 [2; 0; 0; 0; 1] /\
  poly_modpow [0; 1] 27 [2; 0; 0; 0; 1] 3 = Done [0; 0; 0; 1].
Proof. split; [exact prime_3|]. split; [reflexivity|]. split; [repeat constructor; lia|reflexivity]. Qed.

(** ** The factoriser *)

(** [P] [normalised]: for every prime p, every f, every pusize >= 0 (it is a usize), every stream of
    random bytes and both build profiles: if [factorize_mod_p] returns, every returned g_i is monic
    with coefficients in [0, p), canonical, of degree >= 1, and (dev profile) e_i >= 1. In the
    release profile a wrapped [e *= pusize] could give 0 for an absurd pusize: no claim there. *)
Theorem factorize_normalised : forall md p f pusize r out r',
  prime p -> 0 <= pusize ->
  factorize_mod_p md f p pusize r = Done (out, r') ->
  Forall (fun ge => lmonic (fst ge) /\ canonical (fst ge) /\ in_range p (fst ge) /\
                    (2 <= length (fst ge))%nat /\ (md = Checked -> 1 <= snd ge)) out.
Proof. exact factorize_normalised_list. Qed.

Example factorize_normalised_nonvacuous :
  prime 3 /\ exists r', factorize_mod_p Checked [0; 0; 1; 0; 1] 3 3 (rng_of []) = Done ([([1; 0; 1], 1); ([0; 1], 2)], r').
Proof. split; [exact prime_3|]. eexists. vm_compute. reflexivity. Qed.

(** [P] equal-degree stage ([final_split], both the Cantor-Zassenhaus branch with every draw stream and
    the p = 2 branch): if it returns, the product of the pieces is the input modulo p ([lprod] = product
    of a list of polynomials) and every piece is reduced and non-zero. *)
Theorem final_split_product : forall p poly d r out r',
  prime p -> canonical poly -> in_range p poly -> poly <> [] ->
  final_split poly p d r = Done (out, r') ->
  peqmod p poly (lprod out) /\
  Forall (fun g => canonical g /\ in_range p g /\ g <> []) out.
Proof. exact final_split_product_list. Qed.

(** [P] distinct-degree stage ([degree]): the product of the parts is the input up to a unit constant. *)
Theorem degree_product : forall p poly out,
  prime p -> canonical poly -> in_range p poly -> poly <> [] ->
  degree poly p = Done out ->
  exists c, 0 < c < p /\ peqmod p poly (pmul opsZ [c] (lprod (map fst out))).
Proof. exact degree_product_list. Qed.

Example stages_nonvacuous :
  prime 3 /\ degree [2; 0; 0; 0; 1] 3 = Done [([2; 0; 1], 1); ([1; 0; 1], 2)] /\
  final_split [1; 1; 1; 1; 1; 1; 1] 2 3 (rng_of []) = Done ([[1; 1; 0; 1]; [1; 0; 1; 1]], rng_of []).
Proof. split; [exact prime_3|]. split; vm_compute; reflexivity. Qed.

(** ** Bounded statements about the factoriser *)

(** [B] every non-zero f over F_2 of degree <= 8 (n = its bitmask, [bits 9 n] its coefficient
    list): the model returns without panic and without a random byte, and the answer passes
    [check2] = all clauses of the property decided by an independent exhaustive search
    (monic 0/1 factors, irreducible, multiplicities >= 1, pairwise distinct, product = f). *)
Theorem factorize_mod_2_small : forall n : nat,
  (1 <= n <= 511)%nat ->
  exists res r, factorize_mod_p Checked (bits 9 (Z.of_nat n)) 2 2 (rng_of []) = Done (res, r) /\
                check2 (bits 9 (Z.of_nat n)) res = true.
Proof. exact factorize_mod_2_small. Qed.

Example factorize_mod_2_example :
  bits 9 (Z.of_nat 9) = [1; 0; 0; 1; 0; 0; 0; 0; 0] /\
  exists r, factorize_mod_p Checked [1; 0; 0; 1] 2 2 (rng_of []) = Done ([([1; 1], 1); ([1; 1; 1], 1)], r).
Proof. split; [reflexivity|]. eexists. vm_compute. reflexivity. Qed.

(** [B] [pusize_irrelevant]: whenever p > deg f the machine-word copy of p is not used: for every
    non-zero f over F_5 of degree <= 4 and over F_7 of degree <= 3 ([digits len p n] = base-p digits
    of n) and every pusize in {0, 1, 2, 7, 2^64-1}, [squarefree] returns (no panic, in
    particular no division by zero) and returns what pusize = p gives. *)
Theorem pusize_irrelevant_small : forall p len (n : nat) pu,
  (p = 5 /\ len = 5%nat /\ (1 <= n <= 3124)%nat) \/ (p = 7 /\ len = 4%nat /\ (1 <= n <= 2400)%nat) ->
  In pu pusizes_tried ->
  exists res, squarefree Checked (digits len p (Z.of_nat n)) p pu = Done res /\
              same_outcome (squarefree Checked (digits len p (Z.of_nat n)) p pu)
                           (squarefree Checked (digits len p (Z.of_nat n)) p p) = true.
Proof. exact pusize_irrelevant_small. Qed.

(** [B] the same for p = nextprime(2^64) (no machine-word copy exists), f with coefficients in
    {0,1,2} of degree <= 2, pusize in {0, 1, 7}. *)
Theorem pusize_irrelevant_big : forall (n : nat) pu,
  (1 <= n <= 26)%nat -> In pu pusizes_big ->
  exists res, squarefree Checked (digits 3 3 (Z.of_nat n)) pbig pu = Done res /\
              same_outcome (squarefree Checked (digits 3 3 (Z.of_nat n)) pbig pu)
                           (squarefree Checked (digits 3 3 (Z.of_nat n)) pbig 0) = true.
Proof. exact pusize_irrelevant_big. Qed.

(** [P] the explicit [panic!()] of [squarefree] on the zero polynomial (f = 0 mod p is outside the property). *)
Theorem squarefree_zero_panics : forall md p pu, squarefree md [] p pu = Panic POther.
Proof. exact squarefree_zero_panics. Qed.

(** ** Second wave: the product clause and the irrelevance of pusize, for all inputs

    [lfprod l] = the product of g^e over the pairs (g, e) of l, as a coefficient list over Z
    ([lprod] of the [lpow]s). The side conditions: [md = Checked] (dev profile) or a coefficient
    vector of at most 2^64 entries (every real [Vec]) -- then no multiplicity [e * k] / [e * pusize]
    wraps; [pusize = p] (what the caller passes when p fits a machine word) or p > deg f. *)

(** [P] [squarefree_product]: for p prime and f mod p <> 0, the pairs returned by the square-free
    decomposition stage multiply back to f modulo p up to a unit constant c. The proof goes through
    F_p[x]: loop invariants "result * (t v^(k+1))^e ~ f" and "t | t' v"; when v has become constant
    t' = 0, so t(x) = s(x^p) = s(x)^p by Fermat and the freshman's dream. *)
Theorem squarefree_product : forall md p f f1 pusize out,
  prime p ->
  md = Checked \/ Z.of_nat (length f) <= two64 ->
  pusize = p \/ Z.of_nat (length f) <= p ->
  poly_mod f p = Done f1 -> f1 <> [] ->
  squarefree md f p pusize = Done out ->
  exists c, 0 < c < p /\ peqmod p f (pmul opsZ [c] (lfprod out)).
Proof. exact squarefree_product_all. Qed.

(** f = x (x+1)^3 = x^4 + x modulo 3 takes the p-th-root branch ((x+1)^3 = x^3 + 1); so does the
    pure p-th power x^3 + 2 = (x+2)^3. *)
Example squarefree_product_nonvacuous :
  prime 3 /\ poly_mod [0; 1; 0; 0; 1] 3 = Done [0; 1; 0; 0; 1] /\
  squarefree Checked [0; 1; 0; 0; 1] 3 3 = Done [([0; 1], 1); ([1; 1], 3)] /\
  lfprod [([0; 1], 1); ([1; 1], 3)] = [0; 1; 3; 3; 1] /\
  squarefree Wrapping [2; 0; 0; 1] 3 3 = Done [([2; 1], 3)] /\ lfprod [([2; 1], 3)] = [8; 12; 6; 1].
Proof. split; [exact prime_3|]. repeat split; vm_compute; reflexivity. Qed.

(** [P] [factorize_mod_p_product]: the product clause of the property, for every prime p, every f
    with f mod p <> 0 and every stream of random bytes: if [factorize_mod_p] returns the pairs
    (g_i, e_i) then f = lc(f mod p) * prod g_i^e_i modulo p (coefficientwise), i.e.
    prod g_i^e_i = f / lc over F_p. With [factorize_normalised] (g_i monic, reduced, deg >= 1,
    e_i >= 1) this is every clause of the property except irreducibility and distinctness. *)
Theorem factorize_mod_p_product : forall md p f f1 pusize r out r',
  prime p ->
  md = Checked \/ Z.of_nat (length f) <= two64 ->
  pusize = p \/ Z.of_nat (length f) <= p ->
  poly_mod f p = Done f1 -> f1 <> [] ->
  factorize_mod_p md f p pusize r = Done (out, r') ->
  peqmod p f (pmul opsZ [last f1 0] (lfprod out)).
Proof. exact factorize_product_all. Qed.

(** -3 x^4 + 5 x^2 + 7 = 2 (x^2 + 3) (x^2 + 2) modulo 5: two draws of the Cantor-Zassenhaus loop. *)
Example factorize_mod_p_product_nonvacuous :
  prime 5 /\ poly_mod [7; 0; 5; 0; -3] 5 = Done [2; 0; 0; 0; 2] /\
  (exists r', factorize_mod_p Checked [7; 0; 5; 0; -3] 5 5 (rng_of [0; 0; 0; 64; 0; 0; 0; 64; 0; 0; 0; 0; 0; 0; 0; 0])
              = Done ([([3; 0; 1], 1); ([2; 0; 1], 1)], r')) /\
  lfprod [([3; 0; 1], 1); ([2; 0; 1], 1)] = [6; 0; 5; 0; 1] /\
  peqmod 5 [7; 0; 5; 0; -3] (pmul opsZ [2] [6; 0; 5; 0; 1]).
Proof.
  split; [exact prime_5|]. split; [reflexivity|]. split; [eexists; vm_compute; reflexivity|].
  split; vm_compute; reflexivity.
Qed.

(** [P] [pusize_irrelevant]: for p prime and p > deg f (length f <= p) neither [squarefree] nor
    [factorize_mod_p] looks at pusize: equal outcomes (value, panic or fuel) for any two values,
    0 included -- the p-th-root branch, the only reader of pusize and the only division by it, is
    unreachable because a non-constant polynomial with zero derivative has degree >= p.
    Generalises the [B] theorems pusize_irrelevant_small / pusize_irrelevant_big. *)
Theorem pusize_irrelevant : forall md p f pu pu' r,
  prime p -> Z.of_nat (length f) <= p ->
  squarefree md f p pu = squarefree md f p pu' /\
  factorize_mod_p md f p pu r = factorize_mod_p md f p pu' r.
Proof. exact pusize_irrelevant_all. Qed.

(** p = 5 > deg f = 3: pusize = 0 gives the answer of pusize = 5; with p = 3 <= deg f the
    hypothesis fails and pusize = 0 divides by zero. *)
Example pusize_irrelevant_nonvacuous :
  prime 5 /\ Z.of_nat (length [4; 0; 3; 1]) <= 5 /\
  squarefree Checked [4; 0; 3; 1] 5 0 = Done [([4; 0; 3; 1], 1)] /\
  squarefree Checked [2; 0; 0; 1] 3 0 = Panic PDiv0.
Proof. split; [exact prime_5|]. split; [cbn; lia|]. split; vm_compute; reflexivity. Qed.

(** ** Second wave: irreducibility and distinctness for all inputs

    [irreducible_mod p g]: g has degree >= 1 and in every factorisation g = a b modulo p one of
    a, b is congruent to a constant. [squarefree_mod p f]: every a with a^2 b = f modulo p is
    congruent to a constant. [factors_degree p a d]: every reduced g, irreducible modulo p, that
    divides a modulo p has degree d. *)

(** [P] [factorize_mod_p_irreducible]: for every prime p, every f with f mod p <> 0, every draw stream
    and both profiles: if [factorize_mod_p] returns, every returned g_i is irreducible modulo p and the
    g_i are pairwise distinct. Proof: the product of the parts of the square-free stage (multiplicities
    dropped) is square-free and stays the same, up to units, through the later stages, so the
    returned factors are pairwise coprime; on a square-free part the distinct-degree stage separates
    the degrees (F_p[x]/(g) is a field with p^deg g elements: g | X^(p^deg g) - X, and an irreducible
    divisor of X^(p^d) - X has degree <= d), and a piece of degree in [d, 2d) all of whose irreducible
    factors have degree d is irreducible. With [factorize_normalised] and [factorize_mod_p_product]
    this is the whole property (partial correctness: the Cantor-Zassenhaus loop terminates with
    probability 1 only). *)
Theorem factorize_mod_p_irreducible : forall md p f f1 pusize r out r',
  prime p ->
  pusize = p \/ Z.of_nat (length f) <= p ->
  poly_mod f p = Done f1 -> f1 <> [] ->
  factorize_mod_p md f p pusize r = Done (out, r') ->
  Forall (fun ge => irreducible_mod p (fst ge)) out /\ NoDup (map fst out).
Proof. exact factorize_irreducible_all. Qed.

(** The run of [factorize_mod_p_product_nonvacuous] meets the hypotheses; the predicate is not
    trivially true: x^4 + 1 = (x^2 + 2)(x^2 + 3) modulo 5 is not [irreducible_mod]. *)
Example factorize_mod_p_irreducible_nonvacuous :
  prime 5 /\ poly_mod [7; 0; 5; 0; -3] 5 = Done [2; 0; 0; 0; 2] /\
  (exists r', factorize_mod_p Wrapping [7; 0; 5; 0; -3] 5 0 (rng_of [0; 0; 0; 64; 0; 0; 0; 64; 0; 0; 0; 0; 0; 0; 0; 0])
              = Done ([([3; 0; 1], 1); ([2; 0; 1], 1)], r')) /\
  ~ irreducible_mod 5 [1; 0; 0; 0; 1].
Proof.
  split; [exact prime_5|]. split; [reflexivity|]. split; [eexists; vm_compute; reflexivity|].
  exact irreducible_mod_neg_example.
Qed.

(** [P] [degree_separates]: distinct-degree stage: if the input is reduced, non-zero and square-free
    modulo p, every returned (a, d) has d >= 1 and all irreducible factors of a have degree exactly d. *)
Theorem degree_separates : forall p poly out,
  prime p -> canonical poly -> in_range p poly -> poly <> [] -> squarefree_mod p poly ->
  degree poly p = Done out ->
  Forall (fun ad => 1 <= snd ad /\ factors_degree p (fst ad) (snd ad)) out.
Proof. exact degree_separates_all. Qed.

(** x^4 + 2 = (x + 1)(x + 2)(x^2 + 1) modulo 3 is square-free: 2 f + x f' = 1. *)
Example degree_separates_nonvacuous :
  prime 3 /\ canonical [2; 0; 0; 0; 1] /\ in_range 3 [2; 0; 0; 0; 1] /\ squarefree_mod 3 [2; 0; 0; 0; 1] /\
  degree [2; 0; 0; 0; 1] 3 = Done [([2; 0; 1], 1); ([1; 0; 1], 2)].
Proof.
  split; [exact prime_3|]. split; [reflexivity|]. split; [repeat constructor; lia|].
  split; [|vm_compute; reflexivity].
  apply (@squarefree_mod_bezout_all 3 [2; 0; 0; 0; 1] [2] [0; 1] prime_3). vm_compute. reflexivity.
Qed.

(** [P] [degree_divides]: without any hypothesis on the (reduced, non-zero) input: every a_d produced
    by the loop of [degree] divides X^(p^d) - X modulo p (the last entry, the left-over cofactor, is
    not covered). *)
Theorem degree_divides : forall p poly out,
  prime p -> canonical poly -> in_range p poly -> poly <> [] ->
  degree poly p = Done out ->
  exists loop last, out = loop ++ last /\ (length last <= 1)%nat /\
    Forall (fun ad => 1 <= snd ad /\
      exists k, peqmod p (psub opsZ (lpow [0; 1] (Z.to_nat (p ^ snd ad))) [0; 1]) (pmul opsZ (fst ad) k)) loop.
Proof. exact degree_dvd_all. Qed.

(** x^4 + x^2 = x^2 (x^2 + 1) modulo 3 (not square-free): a_1 = 2 x divides x^3 - x; the left-over
    cofactor 2 x (x^2 + 1), recorded with d = 3, is reducible. *)
Example degree_divides_nonvacuous :
  prime 3 /\ degree [0; 0; 1; 0; 1] 3 = Done [([0; 2], 1); ([0; 2; 0; 2], 3)] /\
  peqmod 3 (psub opsZ (lpow [0; 1] (Z.to_nat (3 ^ 1))) [0; 1]) (pmul opsZ [0; 2] [-2; 0; 2]).
Proof. split; [exact prime_3|]. split; vm_compute; reflexivity. Qed.

(** ** Second wave: termination of the deterministic stages, absence of panics *)

(** [P] [squarefree_total]: the square-free stage returns (no panic, the supplied fuel suffices) for
    every prime p and f mod p <> 0 with at most 2^64 coefficients, pusize = p or p > deg f, in both
    profiles: the inner loop strictly decreases deg t + deg v, every p-th root is shorter, and no
    multiplicity e k or e p exceeds deg f < 2^64. *)
Theorem squarefree_total : forall md p f f1 pusize,
  prime p ->
  Z.of_nat (length f) <= two64 ->
  pusize = p \/ Z.of_nat (length f) <= p ->
  poly_mod f p = Done f1 -> f1 <> [] ->
  exists out, squarefree md f p pusize = Done out.
Proof. exact squarefree_total_all. Qed.

(** [P] [degree_total]: the distinct-degree stage returns on every reduced non-zero input. *)
Theorem degree_total : forall p poly,
  prime p -> canonical poly -> in_range p poly -> poly <> [] ->
  exists out, degree poly p = Done out.
Proof. exact degree_total_all. Qed.

(** [P] [factorize_mod_p_no_panic]: for every prime p, f mod p <> 0 (at most 2^64 coefficients,
    pusize = p or p > deg f), every draw stream and both profiles, [factorize_mod_p] does not
    panic: the outcome is a value, or the model's [OutOfFuel], which can only come from the bounded
    retry loops of the equal-degree stage (400 failed splits in a row, or 4096 rejected samples of
    one coefficient; in the code these loops are unbounded and end with probability 1). In
    particular [assert_eq!(factor.deg(), d)] never fires: every piece of the equal-degree stage is
    irreducible of degree exactly d. *)
Theorem factorize_mod_p_no_panic : forall md p f f1 pusize r,
  prime p ->
  Z.of_nat (length f) <= two64 ->
  pusize = p \/ Z.of_nat (length f) <= p ->
  poly_mod f p = Done f1 -> f1 <> [] ->
  (exists out r', factorize_mod_p md f p pusize r = Done (out, r')) \/
  factorize_mod_p md f p pusize r = OutOfFuel.
Proof. exact factorize_no_panic_all. Qed.

(** Both alternatives occur: the stream of [factorize_mod_p_product_nonvacuous] splits at once; an
    empty stream draws t = 0 four hundred times and the model gives up. *)
Example factorize_mod_p_no_panic_nonvacuous :
  prime 5 /\ Z.of_nat (length [7; 0; 5; 0; -3]) <= two64 /\
  poly_mod [7; 0; 5; 0; -3] 5 = Done [2; 0; 0; 0; 2] /\
  (exists r', factorize_mod_p Checked [7; 0; 5; 0; -3] 5 5 (rng_of [0; 0; 0; 64; 0; 0; 0; 64; 0; 0; 0; 0; 0; 0; 0; 0])
              = Done ([([3; 0; 1], 1); ([2; 0; 1], 1)], r')) /\
  factorize_mod_p Checked [7; 0; 5; 0; -3] 5 5 (rng_of []) = OutOfFuel.
Proof.
  split; [exact prime_5|]. split; [vm_compute; discriminate|]. split; [reflexivity|].
  split; [eexists; vm_compute; reflexivity|vm_compute; reflexivity].
Qed.

(** [P] [profile_irrelevant]: under the hypotheses of [squarefree_total] the release profile computes
    exactly what the dev profile computes (no multiplicity reaches 2^64, so nothing wraps), for every
    draw stream. *)
Theorem profile_irrelevant : forall md p f f1 pusize r,
  prime p ->
  Z.of_nat (length f) <= two64 ->
  pusize = p \/ Z.of_nat (length f) <= p ->
  poly_mod f p = Done f1 -> f1 <> [] ->
  factorize_mod_p md f p pusize r = factorize_mod_p Checked f p pusize r.
Proof. exact profile_irrelevant_all. Qed.

(** [P] [multiplicities_positive]: e_i >= 1 in both profiles (the release-profile case left open by
    [factorize_normalised]). *)
Theorem multiplicities_positive : forall md p f f1 pusize r out r',
  prime p ->
  Z.of_nat (length f) <= two64 ->
  pusize = p \/ Z.of_nat (length f) <= p ->
  poly_mod f p = Done f1 -> f1 <> [] ->
  factorize_mod_p md f p pusize r = Done (out, r') ->
  Forall (fun ge => 1 <= snd ge) out.
Proof. exact multiplicities_pos_all. Qed.

Example multiplicities_positive_nonvacuous :
  prime 3 /\ Z.of_nat (length [0; 1; 0; 0; 1]) <= two64 /\
  exists r', factorize_mod_p Wrapping [0; 1; 0; 0; 1] 3 3 (rng_of []) = Done ([([0; 1], 1); ([1; 1], 3)], r').
Proof. split; [exact prime_3|]. split; [vm_compute; discriminate|]. eexists. vm_compute. reflexivity. Qed.

(** [P] [factorize_mod_p_constant]: f mod p a non-zero constant: the empty list, no draw consumed. *)
Theorem factorize_mod_p_constant : forall md p f c pusize r,
  prime p -> poly_mod f p = Done [c] -> factorize_mod_p md f p pusize r = Done ([], r).
Proof. exact factorize_constant_all. Qed.

Example factorize_mod_p_constant_nonvacuous : prime 3 /\ poly_mod [5; 3; -6] 3 = Done [2].
Proof. split; [exact prime_3|reflexivity]. Qed.

(** [P] [pusize_irrelevant_beyond_word]: the last sentence of the property: for a prime p >= 2^64
    (no machine-word copy exists; a coefficient vector has at most 2^64 entries) any two values of
    pusize, 0 included, give the same outcome. *)
Theorem pusize_irrelevant_beyond_word : forall md p f pu pu' r,
  prime p -> two64 <= p -> Z.of_nat (length f) <= two64 ->
  squarefree md f p pu = squarefree md f p pu' /\
  factorize_mod_p md f p pu r = factorize_mod_p md f p pu' r.
Proof. exact pusize_irrelevant_bigp. Qed.

(** ** Fifth wave: for p = 2 the fuel supplied by the model always suffices (Refine/W5Trace.v, W5TraceLoop.v,
    W5C08Lists.v). p = 2 draws no random number: the equal-degree stage is the deterministic trace-map loop
    t = x, x^3, x^5, ... of [final_split_2]. *)
From RNT.Refine Require Import W5C08Lists.

(** [P] [final_split_2_terminates]: on a reduced input that is square-free modulo 2, of degree >= 1, all of whose
    irreducible factors modulo 2 have degree d >= 1, [final_split _ 2 d] returns: the [length + 2] attempts of
    the trace-map loop and the recursion depth [length + 1] supplied by the model suffice. (Some odd m < deg f has
    gcd(f, x^m + x^2m + ... + x^(2^(d-1) m)) a proper divisor: otherwise the trace F_2[x]/(f) -> F_2^k would take
    only the values (0,..,0) and (1,..,1) on the basis x^i, hence everywhere; but it is onto, and k >= 2.) *)
Theorem final_split_2_terminates : forall poly d r,
  canonical poly -> in_range 2 poly -> (2 <= length poly)%nat -> squarefree_mod 2 poly ->
  1 <= d -> factors_degree 2 poly d ->
  exists out, final_split poly 2 d r = Done (out, r).
Proof. exact final_split_2_terminates_all. Qed.

(** x^6 + x^5 + ... + 1 = (x^3 + x + 1)(x^3 + x^2 + 1) modulo 2: square-free (1 f + (x + x^2) f' = 1), the
    distinct-degree stage returns it whole with d = 3, the trace-map loop splits it. *)
Example final_split_2_terminates_nonvacuous :
  let f := [1; 1; 1; 1; 1; 1; 1] in
  canonical f /\ in_range 2 f /\ squarefree_mod 2 f /\ factors_degree 2 f 3 /\
  final_split f 2 3 (rng_of []) = Done ([[1; 1; 0; 1]; [1; 0; 1; 1]], rng_of []).
Proof.
  assert (S : squarefree_mod 2 [1; 1; 1; 1; 1; 1; 1]).
  { apply (@squarefree_mod_bezout_all 2 [1; 1; 1; 1; 1; 1; 1] [1] [0; 1; 1] prime_2). vm_compute. reflexivity. }
  assert (R : in_range 2 [1; 1; 1; 1; 1; 1; 1]) by (repeat constructor; lia).
  split; [reflexivity|]. split; [exact R|]. split; [exact S|]. split; [|vm_compute; reflexivity].
  assert (D : degree [1; 1; 1; 1; 1; 1; 1] 2 = Done [([1; 1; 1; 1; 1; 1; 1], 3)]) by (vm_compute; reflexivity).
  pose proof (@degree_separates 2 _ _ prime_2 (eq_refl : canonical [1; 1; 1; 1; 1; 1; 1]) R
                ltac:(discriminate) S D) as F.
  apply Forall_inv in F. exact (proj2 F).
Qed.

(** [P] [factorize_mod_2_terminates]: for p = 2, every f with f mod 2 <> 0, at most 2^64 coefficients and
    pusize = 2 (or at most 2 coefficients), both profiles, every draw stream: [factorize_mod_p] RETURNS (strengthens
    [factorize_mod_p_no_panic] for p = 2: the OutOfFuel alternative does not occur). *)
Theorem factorize_mod_2_terminates : forall md f f1 pusize r,
  Z.of_nat (length f) <= two64 ->
  pusize = 2 \/ Z.of_nat (length f) <= 2 ->
  poly_mod f 2 = Done f1 -> f1 <> [] ->
  exists out r', factorize_mod_p md f 2 pusize r = Done (out, r').
Proof. exact factorize_mod_2_terminates_all. Qed.
Example factorize_mod_2_terminates_nonvacuous :
  Z.of_nat (length [3; -1; 1; 5; 1; 7; 1]) <= two64 /\ poly_mod [3; -1; 1; 5; 1; 7; 1] 2 = Done [1; 1; 1; 1; 1; 1; 1] /\
  factorize_mod_p Checked [3; -1; 1; 5; 1; 7; 1] 2 2 (rng_of []) = Done ([([1; 1; 0; 1], 1); ([1; 0; 1; 1], 1)], rng_of []).
Proof. split; [vm_compute; discriminate|]. split; vm_compute; reflexivity. Qed.

(** ** Seventh wave: the recursion-depth fuel of the odd-p equal-degree stage never runs out.

    [final_split_odd fuel poly p d result r] (Cantor-Zassenhaus) threads two fuels: [fuel] bounds the recursion depth
    ([final_split] supplies [length poly + 1]); every call runs its own retry loop of [split_retries] = 400 drawn
    polynomials, and every coefficient draw has the rejection-sampling fuel [draw_fuel].  All exhaustions surface as the
    same [OutOfFuel].  The theorems: for p prime and a reduced non-zero input the outcome (value, panic or [OutOfFuel],
    and the draw stream left) is the same for EVERY depth fuel >= [length poly] (both pieces of a split are shorter than
    the input, the degree argument of the p = 2 case), for every d, every draw stream and every accumulated result.
    Hence an [OutOfFuel] of [final_split] for odd p persists under every larger depth fuel: it comes from a retry loop
    (or a draw), never from the depth. *)
From RNT.Refine Require W7MiscSplitFuel.

(** [P] [final_split_odd_depth_fuel_irrelevant] *)
Theorem final_split_odd_depth_fuel_irrelevant : forall p poly d result r f1 f2,
  prime p -> canonical poly -> in_range p poly -> poly <> [] ->
  (length poly <= f1)%nat -> (length poly <= f2)%nat ->
  final_split_odd f1 poly p d result r = final_split_odd f2 poly p d result r.
Proof. exact W7MiscSplitFuel.final_split_odd_depth_fuel_list. Qed.

(** [P] for odd p, [final_split] is [final_split_odd] with any depth fuel >= the supplied one *)
Theorem final_split_depth_fuel_irrelevant : forall p poly d r fuel,
  prime p -> Z.odd p = true -> canonical poly -> in_range p poly -> poly <> [] ->
  (length poly + 1 <= fuel)%nat ->
  final_split poly p d r = final_split_odd fuel poly p d [] r.
Proof. exact W7MiscSplitFuel.final_split_depth_fuel_list. Qed.

(** [P] [final_split_out_of_fuel_not_depth]: an [OutOfFuel] of the odd-p stage is not due to the depth fuel *)
Theorem final_split_out_of_fuel_not_depth : forall p poly d r,
  prime p -> Z.odd p = true -> canonical poly -> in_range p poly -> poly <> [] ->
  final_split poly p d r = OutOfFuel ->
  forall fuel, (length poly + 1 <= fuel)%nat -> final_split_odd fuel poly p d [] r = OutOfFuel.
Proof. exact W7MiscSplitFuel.final_split_oof_not_depth_list. Qed.

(** x^4 + 1 = (x^2 + 3)(x^2 + 2) modulo 5, d = 2: with the draws of [factorize_mod_p_product_nonvacuous] the stage splits into 4 x^2 + 3 and 4 x^2 + 2
    (one level of recursion); on the exhausted stream every drawn polynomial is 0, the 400 attempts of the retry loop
    fail and the outcome is [OutOfFuel] -- with the supplied depth fuel 6 and with depth fuel 50 alike. *)
Example final_split_depth_fuel_nonvacuous :
  let f := [1; 0; 0; 0; 1] in
  prime 5 /\ Z.odd 5 = true /\ canonical f /\ in_range 5 f /\
  (exists r', final_split f 5 2 (rng_of [0; 0; 0; 64; 0; 0; 0; 64; 0; 0; 0; 0; 0; 0; 0; 0]) = Done ([[4; 0; 3]; [4; 0; 2]], r')) /\
  final_split f 5 2 (rng_of []) = OutOfFuel /\
  final_split_odd 50 f 5 2 [] (rng_of []) = OutOfFuel.
Proof.
  split; [exact prime_5|]. split; [reflexivity|]. split; [reflexivity|].
  split; [repeat constructor; lia|]. split; [eexists; vm_compute; reflexivity|]. split; vm_compute; reflexivity.
Qed.
