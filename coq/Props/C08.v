(** C08: factorisation modulo a prime (first version: executable-model milestone). *)
From RNT.Model Require Import Base Poly PolyModP FactorModP.
From RNT.Refine Require Import PolyModStart.
Open Scope Z_scope.

(** [P] the explicit [panic!()] of [squarefree] on the zero polynomial. *)
Theorem squarefree_zero_panics : forall md p pu, squarefree md [] p pu = Panic POther.
Proof. exact squarefree_zero_panics. Qed.
