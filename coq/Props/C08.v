(** C08: factorisation modulo a prime.

    Vocabulary (coq/Refine): [peqmod m a b] = "poly_mod (a - b) m is the zero polynomial"
    (coefficientwise congruence); [canonical a] = no trailing zero; [in_range m a] = all
    coefficients in [0, m). The bounded [B] statements quantify over the finite domain named
    in the statement and are closed by [vm_compute]. *)
From Coq Require Import ZArith List Lia Znumtheory.
From RNT.Model Require Import Base Poly PolyModP FactorModP.
From RNT.Refine Require Import PolyModPArith PolyZmod MonicZ HenselProofs FactorSmall C08Lists PolyModStart.
Import ListNotations.
Open Scope Z_scope.

(** ** Arithmetic of prim.rs *)

(** [P] [modpow] is x^e mod m (for e = 0 the result is 1, also when m = 1). *)
Theorem modpow_spec : forall x e m r,
  0 < m -> 0 <= e -> 0 <= x -> modpow x e m = Done r ->
  r = (if e =? 0 then 1 else x ^ e mod m).
Proof. exact modpow_spec. Qed.

(** [P] any sign of x and of the modulus: the result is congruent to x^e. *)
Theorem modpow_cong : forall x e m r,
  m <> 0 -> 0 <= e -> modpow x e m = Done r -> r mod m = x ^ e mod m.
Proof. exact modpow_cong. Qed.

Theorem modpow_total : forall x e m, m <> 0 -> exists r, modpow x e m = Done r.
Proof. exact modpow_total. Qed.

Example modpow_nonvacuous : modpow 3 10 7 = Done 4 /\ modpow (-3) 5 7 = Done (-5).
Proof. split; reflexivity. Qed.

(** [P] [poly_mod]: canonical output with coefficients in [0, p). *)
Theorem poly_mod_reduced : forall f p r,
  0 < p -> poly_mod f p = Done r -> canonical r /\ in_range p r.
Proof. exact poly_mod_reduced. Qed.

Theorem poly_mod_nth : forall f p r i,
  p <> 0 -> poly_mod f p = Done r -> nth i r 0 = (nth i f 0) mod p.
Proof. exact poly_mod_nth. Qed.

Example poly_mod_nonvacuous : poly_mod [1; -2; 7] 7 = Done [1; 5].
Proof. reflexivity. Qed.

(** [P] [poly_divrem_spec]: for p prime and a divisor whose leading coefficient is not divisible
    by p: a = q b + r modulo p coefficientwise, deg r < deg b, q (and r, unless the early
    return hands back a) reduced. *)
Theorem poly_divrem_spec : forall p a b q r,
  prime p -> b <> [] -> ~ (p | last b 0) ->
  poly_divrem a b p = Done (q, r) ->
  peqmod p a (padd opsZ (pmul opsZ q b) r) /\ (length r < length b)%nat /\
  canonical q /\ in_range p q /\ (canonical a -> canonical r) /\
  ((length b <= length a)%nat \/ a = [] -> in_range p r) /\
  ((length a < length b)%nat -> q = [] /\ r = a).
Proof. exact poly_divrem_list_spec. Qed.

Theorem poly_divrem_total : forall p a b,
  prime p -> ~ (p | last b 0) -> exists q r, poly_divrem a b p = Done (q, r).
Proof. exact poly_divrem_list_total. Qed.

Example poly_divrem_nonvacuous :
  prime 3 /\ ~ (3 | last [1; 1; 2] 0) /\ poly_divrem [1; 2; 0; 1; 2] [1; 1; 2] 3 = Done ([1; 0; 1], [0; 1]).
Proof.
  split; [exact prime_3|]. split; [|reflexivity].
  intros [k Hk]. cbn in Hk. lia.
Qed.

(** [P] [poly_gcd] of reduced polynomials is reduced and divides both modulo p. *)
Theorem poly_gcd_spec : forall p a b g,
  prime p -> canonical a -> in_range p a -> canonical b -> in_range p b ->
  poly_gcd a b p = Done g ->
  canonical g /\ in_range p g /\
  (exists s, peqmod p a (pmul opsZ g s)) /\ (exists t, peqmod p b (pmul opsZ g t)).
Proof. exact poly_gcd_list_spec. Qed.

(** [P] fuel sufficiency: on reduced arguments (which is what every caller passes) the Euclidean
    recursions return. *)
Theorem poly_gcd_total : forall p a b,
  prime p -> canonical a -> in_range p a -> canonical b -> in_range p b ->
  exists g, poly_gcd a b p = Done g.
Proof. exact poly_gcd_list_total. Qed.

Theorem poly_ext_gcd_total : forall p a b,
  prime p -> canonical a -> in_range p a -> canonical b -> in_range p b ->
  exists g u v, poly_ext_gcd a b p = Done (g, u, v).
Proof. exact poly_ext_gcd_list_total. Qed.

(** [P] [poly_modpow] for e > 0: the result is x^e modulo (g, p) ([lpow x n] = x * ... * x), reduced. *)
Theorem poly_modpow_spec : forall p x e g r,
  prime p -> canonical g -> in_range p g -> 0 < e ->
  poly_modpow x e g p = Done r ->
  (exists k, peqmod p r (padd opsZ (lpow x (Z.to_nat e)) (pmul opsZ g k))) /\
  canonical r /\ in_range p r.
Proof. exact poly_modpow_list_spec. Qed.

Example poly_modpow_nonvacuous :
  prime 3 /\ canonical [2; 0; 0; 0; 1] /\ in_range 3 [2; 0; 0; 0; 1] /\
  poly_modpow [0; 1] 27 [2; 0; 0; 0; 1] 3 = Done [0; 0; 0; 1].
Proof. split; [exact prime_3|]. split; [reflexivity|]. split; [repeat constructor; lia|reflexivity]. Qed.

(** ** The factoriser *)

(** [P] [normalised]: for every prime p, every f, every pusize >= 0 (it is a usize), every stream of
    random bytes and both build profiles: if [factorize_mod_p] returns, every returned g_i is monic
    with coefficients in [0, p), canonical, of degree >= 1, and (dev profile) e_i >= 1. In the
    release profile a wrapped [e *= pusize] could give 0 for an absurd pusize: no claim there. *)
Theorem factorize_normalised : forall md p f pusize r out r',
  prime p -> 0 <= pusize ->
  factorize_mod_p md f p pusize r = Done (out, r') ->
  Forall (fun ge => lmonic (fst ge) /\ canonical (fst ge) /\ in_range p (fst ge) /\
                    (2 <= length (fst ge))%nat /\ (md = Checked -> 1 <= snd ge)) out.
Proof. exact factorize_normalised_list. Qed.

Example factorize_normalised_nonvacuous :
  prime 3 /\ exists r', factorize_mod_p Checked [0; 0; 1; 0; 1] 3 3 (rng_of []) = Done ([([1; 0; 1], 1); ([0; 1], 2)], r').
Proof. split; [exact prime_3|]. eexists. vm_compute. reflexivity. Qed.

(** [P] equal-degree stage ([final_split], both the Cantor-Zassenhaus branch with every draw stream and
    the p = 2 branch): if it returns, the product of the pieces is the input modulo p ([lprod] = product
    of a list of polynomials) and every piece is reduced and non-zero. *)
Theorem final_split_product : forall p poly d r out r',
  prime p -> canonical poly -> in_range p poly -> poly <> [] ->
  final_split poly p d r = Done (out, r') ->
  peqmod p poly (lprod out) /\
  Forall (fun g => canonical g /\ in_range p g /\ g <> []) out.
Proof. exact final_split_product_list. Qed.

(** [P] distinct-degree stage ([degree]): the product of the parts is the input up to a unit constant. *)
Theorem degree_product : forall p poly out,
  prime p -> canonical poly -> in_range p poly -> poly <> [] ->
  degree poly p = Done out ->
  exists c, 0 < c < p /\ peqmod p poly (pmul opsZ [c] (lprod (map fst out))).
Proof. exact degree_product_list. Qed.

Example stages_nonvacuous :
  prime 3 /\ degree [2; 0; 0; 0; 1] 3 = Done [([2; 0; 1], 1); ([1; 0; 1], 2)] /\
  final_split [1; 1; 1; 1; 1; 1; 1] 2 3 (rng_of []) = Done ([[1; 1; 0; 1]; [1; 0; 1; 1]], rng_of []).
Proof. split; [exact prime_3|]. split; vm_compute; reflexivity. Qed.

(** ** Bounded statements about the factoriser *)

(** [B] every non-zero f over F_2 of degree <= 8 (n = its bitmask, [bits 9 n] its coefficient
    list): the model returns without panic and without a random byte, and the answer passes
    [check2] = all clauses of the property decided by an independent exhaustive search
    (monic 0/1 factors, irreducible, multiplicities >= 1, pairwise distinct, product = f). *)
Theorem factorize_mod_2_small : forall n : nat,
  (1 <= n <= 511)%nat ->
  exists res r, factorize_mod_p Checked (bits 9 (Z.of_nat n)) 2 2 (rng_of []) = Done (res, r) /\
                check2 (bits 9 (Z.of_nat n)) res = true.
Proof. exact factorize_mod_2_small. Qed.

Example factorize_mod_2_example :
  bits 9 (Z.of_nat 9) = [1; 0; 0; 1; 0; 0; 0; 0; 0] /\
  exists r, factorize_mod_p Checked [1; 0; 0; 1] 2 2 (rng_of []) = Done ([([1; 1], 1); ([1; 1; 1], 1)], r).
Proof. split; [reflexivity|]. eexists. vm_compute. reflexivity. Qed.

(** [B] [pusize_irrelevant]: whenever p > deg f the machine-word copy of p is not used: for every
    non-zero f over F_5 of degree <= 4 and over F_7 of degree <= 3 ([digits len p n] = base-p digits
    of n) and every pusize in {0, 1, 2, 7, 2^64-1}, [squarefree] returns (no panic, in
    particular no division by zero) and returns what pusize = p gives. *)
Theorem pusize_irrelevant_small : forall p len (n : nat) pu,
  (p = 5 /\ len = 5%nat /\ (1 <= n <= 3124)%nat) \/ (p = 7 /\ len = 4%nat /\ (1 <= n <= 2400)%nat) ->
  In pu pusizes_tried ->
  exists res, squarefree Checked (digits len p (Z.of_nat n)) p pu = Done res /\
              same_outcome (squarefree Checked (digits len p (Z.of_nat n)) p pu)
                           (squarefree Checked (digits len p (Z.of_nat n)) p p) = true.
Proof. exact pusize_irrelevant_small. Qed.

(** [B] the same for p = nextprime(2^64) (no machine-word copy exists), f with coefficients in
    {0,1,2} of degree <= 2, pusize in {0, 1, 7}. *)
Theorem pusize_irrelevant_big : forall (n : nat) pu,
  (1 <= n <= 26)%nat -> In pu pusizes_big ->
  exists res, squarefree Checked (digits 3 3 (Z.of_nat n)) pbig pu = Done res /\
              same_outcome (squarefree Checked (digits 3 3 (Z.of_nat n)) pbig pu)
                           (squarefree Checked (digits 3 3 (Z.of_nat n)) pbig 0) = true.
Proof. exact pusize_irrelevant_big. Qed.

(** [P] the explicit [panic!()] of [squarefree] on the zero polynomial (f = 0 mod p is outside the property). *)
Theorem squarefree_zero_panics : forall md p pu, squarefree md [] p pu = Panic POther.
Proof. exact squarefree_zero_panics. Qed.
