(** C13: primality test (src/prime.rs). Statements only; proofs in Refine/.
    [strong_liar n d c a] (Refine/MillerRabinProofs.v) is the textbook condition
      a^d = 1 (mod n)  \/  exists 0 <= j < c, a^(d 2^j) = n - 1 (mod n);
    [mr_decomp n = (d, c)] is the model's decomposition n - 1 = d 2^c, d odd (theorem [mr_decomp_spec]);
    [drawn n r l r'] says that the successive calls gen_bigint_range(1, n) on stream r return the bases l and leave r'. *)
From Coq Require Import ZArith List Bool Znumtheory Lia.
From RNT.Model Require Import Base Elementary.
From RNT.Refine Require Import ElemProofs MillerRabinProofs LiarBound.
Open Scope Z_scope.

(** [P] early returns: false for n <= 1, true for 2, false for even n > 2, for every draw stream. *)
Theorem is_prime_small : forall n r,
  (n <= 1 -> is_prime n r = Done (false, r)) /\
  (n = 2 -> is_prime n r = Done (true, r)) /\
  (2 < n -> Z.even n = true -> is_prime n r = Done (false, r)).
Proof. exact ElemProofs.is_prime_small. Qed.
Example is_prime_small_ex : is_prime (-7) (rng_of [1;2;3]) = Done (false, rng_of [1;2;3])
  /\ is_prime 1000 (rng_of []) = Done (false, rng_of []).
Proof. split; reflexivity. Qed.

(** [P] the model of BigInt::modpow. *)
Theorem modpow_spec : forall b e m, 0 < m -> 0 <= e -> modpow b e m = b ^ e mod m.
Proof. exact MillerRabinProofs.modpow_spec. Qed.
Example modpow_ex : modpow 3 200 1000003 = 3 ^ 200 mod 1000003. Proof. vm_compute. reflexivity. Qed.

(** [P] n - 1 = d 2^c with d odd. *)
Theorem mr_decomp_spec : forall n d c, 2 <= n -> mr_decomp n = (d, c) ->
  Z.odd d = true /\ 0 < d /\ 0 <= c /\ n - 1 = d * 2 ^ c.
Proof. exact MillerRabinProofs.mr_decomp_spec. Qed.
Example mr_decomp_ex : mr_decomp 561 = (35, 4). Proof. reflexivity. Qed.

(** [P] one-sided error: a prime is accepted on every draw stream. The only other outcome of the model is OutOfFuel
    (4096 successive rejected candidates inside one gen_bigint_range call; the real loop is unbounded); never a panic. *)
Theorem is_prime_complete : forall n r, prime n ->
  (exists r', is_prime n r = Done (true, r')) \/ is_prime n r = OutOfFuel.
Proof. exact MillerRabinProofs.is_prime_complete. Qed.
Theorem is_prime_no_panic : forall n r t, is_prime n r <> Panic t.
Proof. exact MillerRabinProofs.is_prime_no_panic. Qed.
(** [P] OutOfFuel needs a long stream: with fewer than 4096 bytes (every stream of the correspondence runs) the model
    terminates, so a prime is accepted. *)
Theorem is_prime_short_stream : forall n r, (length (rng_bytes r) < 4096)%nat -> is_prime n r <> OutOfFuel.
Proof. exact MillerRabinProofs.is_prime_short_stream. Qed.
Theorem is_prime_complete_short_stream : forall n r, prime n -> (length (rng_bytes r) < 4096)%nat ->
  exists r', is_prime n r = Done (true, r').
Proof. exact MillerRabinProofs.is_prime_complete_short_stream. Qed.
Example is_prime_complete_ex : prime 7 /\ exists r', is_prime 7 (rng_of [255; 255; 255; 255; 0; 0; 0; 64]) = Done (true, r').
Proof. split; [exact prime_7|]. eexists. vm_compute. reflexivity. Qed.

(** [P] if one of the (at most 20) bases drawn is not a strong liar, the verdict is false. *)
Theorem witness_rejects : forall n d c r l r', 2 < n -> Z.odd n = true -> mr_decomp n = (d, c) ->
  drawn n r l r' -> (length l <= 20)%nat ->
  (exists a, In a l /\ ~ strong_liar n d c a) ->
  exists r'', is_prime n r = Done (false, r'').
Proof. exact MillerRabinProofs.witness_rejects. Qed.
Example witness_rejects_ex :
  mr_decomp 9 = (1, 3) /\ drawn 9 (rng_of [0; 0; 0; 16]) [2] (rng_of []) /\ ~ strong_liar 9 1 3 2.
Proof.
  split; [reflexivity|]. split; [econstructor; [vm_compute; reflexivity|constructor]|].
  intros [H|(j & Hj & H)]; [vm_compute in H; discriminate|].
  assert (C : j = 0 \/ j = 1 \/ j = 2) by lia.
  destruct C as [->|[->| ->]]; vm_compute in H; discriminate.
Qed.

(** [P] a base with gcd(a, n) > 1 is never a strong liar. *)
Theorem gcd_witness : forall n d c a, 2 < n -> 0 < d -> 0 <= c -> Z.gcd a n <> 1 -> ~ strong_liar n d c a.
Proof. exact MillerRabinProofs.gcd_witness. Qed.

(** [P] if the 20 bases drawn are all strong liars the verdict is true (for composite n this is the error event). *)
Theorem liars_accept : forall n d c r l r', 2 < n -> Z.odd n = true -> mr_decomp n = (d, c) ->
  drawn n r l r' -> length l = 20%nat ->
  (forall a, In a l -> strong_liar n d c a) ->
  is_prime n r = Done (true, r').
Proof. exact MillerRabinProofs.liars_accept. Qed.

(** [P] every terminating run on odd n > 2 is explained by the bases it drew (all in [1, n)). *)
Theorem is_prime_verdict : forall n d c r b r', 2 < n -> Z.odd n = true -> mr_decomp n = (d, c) ->
  is_prime n r = Done (b, r') ->
  exists l, drawn n r l r' /\ (length l <= 20)%nat /\
    if b then length l = 20%nat /\ (forall a, In a l -> strong_liar n d c a)
    else exists l0 w, l = l0 ++ [w] /\ ~ strong_liar n d c w /\ (forall a, In a l0 -> strong_liar n d c a).
Proof. exact MillerRabinProofs.is_prime_verdict. Qed.
Theorem drawn_range : forall n r l r', 1 < n -> drawn n r l r' -> forall a, In a l -> 1 <= a < n.
Proof. exact MillerRabinProofs.drawn_range. Qed.
(** the error event is inhabited: 561 with every base 1 (all-zero stream) is accepted *)
Example liars_accept_ex : exists r', is_prime 561 (rng_of []) = Done (true, r').
Proof. eexists. vm_compute. reflexivity. Qed.

(** [B] for every odd composite n < 2^10 the strong liars in [1, n) number at most (n - 1) / 4, so a round with a uniform
    base accepts such an n with probability <= 1/4 (and 20 independent rounds with <= 4^-20). Enumeration by vm_compute;
    the general Rabin-Monier bound is not proved. *)
Theorem liar_bound_small : forall n d c, 2 < n < 1024 -> Z.odd n = true -> ~ prime n -> mr_decomp n = (d, c) ->
  exists l, NoDup l /\ (forall a, In a l <-> 1 <= a < n /\ strong_liar n d c a) /\ 4 * Z.of_nat (length l) <= n - 1.
Proof. exact LiarBound.liar_bound_small. Qed.
Example liar_bound_small_ex : liars 9 = [1; 8] /\ liars 561 = [1; 50; 101; 103; 256; 305; 458; 460; 511; 560].
Proof. exact LiarBound.liars_9. Qed.
