(** C13: primality test (src/prime.rs). Statements only; proofs in Refine/.
    [strong_liar n d c a] (Refine/MillerRabinProofs.v) is the textbook condition
      a^d = 1 (mod n)  \/  exists 0 <= j < c, a^(d 2^j) = n - 1 (mod n);
    [mr_decomp n = (d, c)] is the model's decomposition n - 1 = d 2^c, d odd (theorem [mr_decomp_spec]);
    [drawn n r l r'] says that the successive calls gen_bigint_range(1, n) on stream r return the bases l and leave r'. *)
From Coq Require Import ZArith List Bool Znumtheory Lia.
From RNT.Model Require Import Base Elementary.
From RNT.Refine Require Import ElemProofs MillerRabinProofs LiarBound RabinMonierSeq.
Open Scope Z_scope.

(** [P] early returns: false for n <= 1, true for 2, false for even n > 2, for every draw stream. *)
Theorem is_prime_small : forall n r,
  (n <= 1 -> is_prime n r = Done (false, r)) /\
  (n = 2 -> is_prime n r = Done (true, r)) /\
  (2 < n -> Z.even n = true -> is_prime n r = Done (false, r)).
Proof. exact ElemProofs.is_prime_small. Qed.
Example is_prime_small_ex : is_prime (-7) (rng_of [1;2;3]) = Done (false, rng_of [1;2;3])
  /\ is_prime 1000 (rng_of []) = Done (false, rng_of []).
Proof. split; reflexivity. Qed.

(** [P] the model of BigInt::modpow. *)
Theorem modpow_spec : forall b e m, 0 < m -> 0 <= e -> modpow b e m = b ^ e mod m.
Proof. exact MillerRabinProofs.modpow_spec. Qed.
Example modpow_ex : modpow 3 200 1000003 = 3 ^ 200 mod 1000003. Proof. vm_compute. reflexivity. Qed.

(** [P] n - 1 = d 2^c with d odd. *)
Theorem mr_decomp_spec : forall n d c, 2 <= n -> mr_decomp n = (d, c) ->
  Z.odd d = true /\ 0 < d /\ 0 <= c /\ n - 1 = d * 2 ^ c.
Proof. exact MillerRabinProofs.mr_decomp_spec. Qed.
Example mr_decomp_ex : mr_decomp 561 = (35, 4). Proof. reflexivity. Qed.

(** [P] one-sided error: a prime is accepted on every draw stream. The only other outcome of the model is OutOfFuel
    (4096 successive rejected candidates inside one gen_bigint_range call; the real loop is unbounded); never a panic. *)
Theorem is_prime_complete : forall n r, prime n ->
  (exists r', is_prime n r = Done (true, r')) \/ is_prime n r = OutOfFuel.
Proof. exact MillerRabinProofs.is_prime_complete. Qed.
Theorem is_prime_no_panic : forall n r t, is_prime n r <> Panic t.
Proof. exact MillerRabinProofs.is_prime_no_panic. Qed.
(** [P] OutOfFuel needs a long stream: with fewer than 4096 bytes (every stream of the correspondence runs) the model
    terminates, so a prime is accepted. *)
Theorem is_prime_short_stream : forall n r, (length (rng_bytes r) < 4096)%nat -> is_prime n r <> OutOfFuel.
Proof. exact MillerRabinProofs.is_prime_short_stream. Qed.
Theorem is_prime_complete_short_stream : forall n r, prime n -> (length (rng_bytes r) < 4096)%nat ->
  exists r', is_prime n r = Done (true, r').
Proof. exact MillerRabinProofs.is_prime_complete_short_stream. Qed.
Example is_prime_complete_ex : prime 7 /\ exists r', is_prime 7 (rng_of [255; 255; 255; 255; 0; 0; 0; 64]) = Done (true, r').
Proof. split; [exact prime_7|]. eexists. vm_compute. reflexivity. Qed.

(** [P] if one of the (at most 20) bases drawn is not a strong liar, the verdict is false. *)
Theorem witness_rejects : forall n d c r l r', 2 < n -> Z.odd n = true -> mr_decomp n = (d, c) ->
  drawn n r l r' -> (length l <= 20)%nat ->
  (exists a, In a l /\ ~ strong_liar n d c a) ->
  exists r'', is_prime n r = Done (false, r'').
Proof. exact MillerRabinProofs.witness_rejects. Qed.
Example witness_rejects_ex :
  mr_decomp 9 = (1, 3) /\ drawn 9 (rng_of [0; 0; 0; 16]) [2] (rng_of []) /\ ~ strong_liar 9 1 3 2.
Proof.
  split; [reflexivity|]. split; [econstructor; [vm_compute; reflexivity|constructor]|].
  intros [H|(j & Hj & H)]; [vm_compute in H; discriminate|].
  assert (C : j = 0 \/ j = 1 \/ j = 2) by lia.
  destruct C as [->|[->| ->]]; vm_compute in H; discriminate.
Qed.

(** [P] a base with gcd(a, n) > 1 is never a strong liar. *)
Theorem gcd_witness : forall n d c a, 2 < n -> 0 < d -> 0 <= c -> Z.gcd a n <> 1 -> ~ strong_liar n d c a.
Proof. exact MillerRabinProofs.gcd_witness. Qed.

(** [P] if the 20 bases drawn are all strong liars the verdict is true (for composite n this is the error event). *)
Theorem liars_accept : forall n d c r l r', 2 < n -> Z.odd n = true -> mr_decomp n = (d, c) ->
  drawn n r l r' -> length l = 20%nat ->
  (forall a, In a l -> strong_liar n d c a) ->
  is_prime n r = Done (true, r').
Proof. exact MillerRabinProofs.liars_accept. Qed.

(** [P] every terminating run on odd n > 2 is explained by the bases it drew (all in [1, n)). *)
Theorem is_prime_verdict : forall n d c r b r', 2 < n -> Z.odd n = true -> mr_decomp n = (d, c) ->
  is_prime n r = Done (b, r') ->
  exists l, drawn n r l r' /\ (length l <= 20)%nat /\
    if b then length l = 20%nat /\ (forall a, In a l -> strong_liar n d c a)
    else exists l0 w, l = l0 ++ [w] /\ ~ strong_liar n d c w /\ (forall a, In a l0 -> strong_liar n d c a).
Proof. exact MillerRabinProofs.is_prime_verdict. Qed.
Theorem drawn_range : forall n r l r', 1 < n -> drawn n r l r' -> forall a, In a l -> 1 <= a < n.
Proof. exact MillerRabinProofs.drawn_range. Qed.
(** the error event is inhabited: 561 with every base 1 (all-zero stream) is accepted *)
Example liars_accept_ex : exists r', is_prime 561 (rng_of []) = Done (true, r').
Proof. eexists. vm_compute. reflexivity. Qed.

(** [B] for every odd composite n < 2^10 the strong liars in [1, n) number at most (n - 1) / 4, so a round with a uniform
    base accepts such an n with probability <= 1/4 (and 20 independent rounds with <= 4^-20). Enumeration by vm_compute;
    the general Rabin-Monier bound is not proved. *)
Theorem liar_bound_small : forall n d c, 2 < n < 1024 -> Z.odd n = true -> ~ prime n -> mr_decomp n = (d, c) ->
  exists l, NoDup l /\ (forall a, In a l <-> 1 <= a < n /\ strong_liar n d c a) /\ 4 * Z.of_nat (length l) <= n - 1.
Proof. exact LiarBound.liar_bound_small. Qed.
Example liar_bound_small_ex : liars 9 = [1; 8] /\ liars 561 = [1; 50; 101; 103; 256; 305; 458; 460; 511; 560].
Proof. exact LiarBound.liars_9. Qed.

(** [P] Rabin-Monier: for every odd composite n > 9 the strong liars in [1, n) number at most (n - 1) / 4.
    Proof (Refine/RabinMonier{Group,Cases,Nat,Z,Seq}.v): the liars lie in the subgroup {u : u^m = +-1} of (Z/n)^*, m = d 2^J with J the
    largest index at which some unit reaches -1; Chinese remainders give index >= 2 per extra coprime factor of n; a square factor p^2 | n
    gives a factor p^(k-1) through the p'-group {u : u^(2m) = 1}; for n = p q the cyclic group (Z/q)^* gives a unit with u^(n-1) <> 1. *)
Theorem rabin_monier : forall n d c, 9 < n -> Z.odd n = true -> ~ prime n -> mr_decomp n = (d, c) ->
  exists l, NoDup l /\ (forall a, In a l <-> 1 <= a < n /\ strong_liar n d c a) /\ 4 * Z.of_nat (length l) <= n - 1.
Proof. exact RabinMonierSeq.rabin_monier. Qed.
(** the hypotheses are met by 561, 1105 (Carmichael), 2047 (strong pseudoprime to base 2), 15, 49, with 10, 30, 242, 2, 6 liars;
    n = 9 (2 liars out of 8) is outside 9 < n and covered by [liar_bound] *)
Example rabin_monier_ex :
  (~ prime 561 /\ mr_decomp 561 = (35, 4) /\ length (liars 561) = 10%nat) /\
  (~ prime 1105 /\ mr_decomp 1105 = (69, 4) /\ length (liars 1105) = 30%nat) /\
  (~ prime 2047 /\ mr_decomp 2047 = (1023, 1) /\ length (liars 2047) = 242%nat) /\
  (~ prime 15 /\ mr_decomp 15 = (7, 1) /\ length (liars 15) = 2%nat) /\
  (~ prime 49 /\ mr_decomp 49 = (3, 4) /\ length (liars 49) = 6%nat) /\
  (~ prime 9 /\ mr_decomp 9 = (1, 3) /\ length (liars 9) = 2%nat).
Proof. exact RabinMonierSeq.rabin_monier_hyps. Qed.

(** [P] the sharper form: the strong liars are at most a quarter of the phi(n) residues in [1, n) prime to n. *)
Theorem rabin_monier_phi : forall n d c, 9 < n -> Z.odd n = true -> ~ prime n -> mr_decomp n = (d, c) ->
  exists l u, NoDup l /\ NoDup u /\
    (forall a, In a l <-> 1 <= a < n /\ strong_liar n d c a) /\
    (forall a, In a u <-> 1 <= a < n /\ Z.gcd a n = 1) /\
    4 * Z.of_nat (length l) <= Z.of_nat (length u).
Proof. exact RabinMonierSeq.rabin_monier_phi. Qed.
Example rabin_monier_phi_ex : length (RabinMonierZ.units 561) = 320%nat /\ length (RabinMonierZ.units 49) = 42%nat.
Proof. exact RabinMonierSeq.rabin_monier_phi_ex. Qed.

(** [P] every odd composite n > 2 has at most (n - 1) / 4 strong liars in [1, n) ([rabin_monier] above 9, enumeration for n = 9). *)
Theorem liar_bound : forall n d c, 2 < n -> Z.odd n = true -> ~ prime n -> mr_decomp n = (d, c) ->
  exists l, NoDup l /\ (forall a, In a l <-> 1 <= a < n /\ strong_liar n d c a) /\ 4 * Z.of_nat (length l) <= n - 1.
Proof. exact RabinMonierSeq.liar_bound. Qed.

(** [P] the counting form of "error at most 4^-20": for an odd composite n, of the (n-1)^20 sequences of 20 bases in [1, n) at most
    ((n-1)/4)^20 are accepting (4^20 * #acc <= (n-1)^20), and a run of the model returns true exactly when the 20 bases it draws from
    its stream form one of them. No probability is involved: uniformity of the draws is a property of the generator, not of the model. *)
Theorem liar_fraction : forall n d c, 2 < n -> Z.odd n = true -> ~ prime n -> mr_decomp n = (d, c) ->
  exists acc all : list (list Z),
    NoDup acc /\ NoDup all /\
    (forall bs, In bs all <-> length bs = 20%nat /\ (forall a, In a bs -> 1 <= a < n)) /\
    (forall bs, In bs acc <-> length bs = 20%nat /\ (forall a, In a bs -> 1 <= a < n /\ strong_liar n d c a)) /\
    Z.of_nat (length all) = (n - 1) ^ 20 /\
    4 ^ 20 * Z.of_nat (length acc) <= (n - 1) ^ 20 /\
    (forall r r', is_prime n r = Done (true, r') <-> exists bs, In bs acc /\ drawn n r bs r').
Proof. exact RabinMonierSeq.liar_fraction. Qed.
(** 50 is a non-trivial strong liar of 561 (so accepting sequences other than those made of 1 and 560 exist); 2 is a witness *)
Example liar_fraction_ex : strong_liar 561 35 4 50 /\ In 50 (liars 561) /\ ~ strong_liar 561 35 4 2.
Proof. exact RabinMonierSeq.liar_fraction_ex. Qed.
