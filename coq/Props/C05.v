(** C05: discriminant (statements only; proofs in Refine/ResProofs*.v). *)
From RNT.Model Require Import Base Poly Resultant.
From RNT.Refine Require Import ResProofs ResProofs2 ResProofs3.
Open Scope Z_scope.

(** [P] the sign flip of the code ([m % 4 == 2 || m % 4 == 3]) is the parity of m(m-1)/2. *)
Theorem sign_rule : forall m, 0 <= m ->
  ((m mod 4 =? 2) || (m mod 4 =? 3))%bool = Z.odd (m * (m - 1) / 2).
Proof. exact ResProofs3.sign_rule. Qed.

(** [P] [assert!(!f.is_zero())]. *)
Theorem discriminant_zero : forall m, discriminant m [] = (true, Panic PAssert).
Proof. exact ResProofs.discriminant_zero. Qed.

(** [P] as coded, a non-zero constant gives 0 (outside the property: deg f >= 1). *)
Theorem discriminant_const : forall m c, c <> 0 -> discriminant m [c] = (true, Done 0).
Proof. exact ResProofs3.discriminant_const. Qed.

(** [P] degree 1: discriminant 1, flag true, no panic, either mode. *)
Theorem discriminant_linear : forall m b0 a1, a1 <> 0 -> discriminant m [b0; a1] = (true, Done 1).
Proof. exact ResProofs3.discriminant_linear. Qed.
Example linear_ex : discriminant Checked [24; 1771] = (true, Done 1). Proof. reflexivity. Qed.

(** [P] enough fuel for every coefficient list. *)
Theorem discriminant_no_outoffuel : forall m f, snd (discriminant m f) <> OutOfFuel.
Proof. exact ResProofs.discriminant_no_outoffuel. Qed.

(** [C] canonical non-zero input, flag true => a value is returned.
    Full statement (not proved): the flag is always true. *)
Theorem discriminant_flag_no_panic_partial : forall m f o,
  f <> [] -> canonb f = true -> len_ok f = true ->
  discriminant m f = (true, o) -> exists v, o = Done v.
Proof. exact ResProofs3.discriminant_flag_no_panic. Qed.

(** [C] when the run returns [d] with flag true, [d * lc f = (-1)^(n(n-1)/2) * r] where [r] is the
    value [resultant f f'] returned (also with flag true), n = deg f.
    Full statement (not proved): r = det Sylvester(f, f'), see C04. *)
Theorem discriminant_partial : forall m f d,
  discriminant m f = (true, Done d) ->
  exists r, resultant m f (pdiff opsZ f) = (true, Done r) /\
            d * zlast f = (if Z.odd (pdeg f * (pdeg f - 1) / 2) then - r else r).
Proof. exact ResProofs3.discriminant_partial. Qed.
Example partial_ex : discriminant Checked [3; -2; 1; 2] = (true, Done (-1132)) /\ canonb [3; -2; 1; 2] = true.
Proof. split; vm_compute; reflexivity. Qed.
Example partial_ex2 : discriminant Wrapping [24; 1771; 31] = (true, Done (1771 * 1771 - 4 * 24 * 31)).
Proof. vm_compute. reflexivity. Qed.

(** ** Specification level (MathComp). The classical Res(f, f') is [resultant f' f], see Props/C04.v. *)
From mathcomp Require Import all_ssreflect ssralg poly matrix mxpoly ssrZ.
From RNT.Refine Require Import PolyRefine ResInt.
Import GRing.Theory.
Local Open Scope ring_scope.

(** [C] [discriminant_det_partial]: deg f >= 1, canonical input. If the run returns [d] with exactness flag
    true, then d * lc f = (-1)^(n(n-1)/2) * det Sylvester(f, f'), i.e. d is the discriminant
    (-1)^(n(n-1)/2) Res(f, f') / lc f of the property text (lc f <> 0 in the integral domain Z).
    Full statement (not proved): the flag is always true. *)
Theorem discriminant_det_partial : forall m (f : seq Z) d,
  canonb f = true -> len_ok f = true -> (1 < size f)%N ->
  discriminant m f = (true, Done d) ->
  d * lead_coef (Poly f) =
  (-1) ^+ (((size f).-1 * (size f).-1.-1) %/ 2) * \det (Sylvester_mx (Poly f)^`() (Poly f)).
Proof. exact ResInt.discriminant_det_partial. Qed.
Example det_partial_ex :
  let f := [:: 1; 9; 0; 1]%Z in
  canonb f = true /\ len_ok f = true /\ discriminant Checked f = (true, Done (-2943)%Z).
Proof. repeat split; vm_compute; reflexivity. Qed.

(** [C] "zero exactly when f has a repeated factor": under the flag, d = 0 iff f and f' have a common
    factor of positive degree (MathComp [gcdp], [resultant_eq0]). *)
From mathcomp Require Import polydiv.
Import Pdiv.Idomain.
Theorem discriminant_eq0_partial : forall m (f : seq Z) d,
  canonb f = true -> len_ok f = true -> (1 < size f)%N ->
  discriminant m f = (true, Done d) ->
  (d == 0) = (1 < size (gcdp (Poly f)^`() (Poly f)))%N.
Proof. exact ResInt.discriminant_eq0_partial. Qed.
Example eq0_ex : discriminant Checked [:: 1; 2; 1]%Z = (true, Done 0%Z). Proof. vm_compute. reflexivity. Qed.

(** ** Second wave: the exactness flag is always true (sub-resultant structure theorem, see Props/C04.v,
    plus: the leading coefficient divides det Sylvester(f, f'), whose last column is a multiple of it). *)
From RNT.Refine Require Import SubresFlag SubresSpec.

(** [P] every truncating division of the run of [discriminant] on a canonical input has remainder zero. *)
Theorem discriminant_flag_true : forall m (f : seq Z),
  canonb f = true -> len_ok f = true -> fst (discriminant m f) = true.
Proof. exact SubresFlag.discriminant_flag_true. Qed.

(** [P] [discriminant] returns a value for every canonical non-zero input, in either mode. *)
Theorem discriminant_total : forall m (f : seq Z),
  f <> [::] -> canonb f = true -> len_ok f = true ->
  exists d, discriminant m f = (true, Done d).
Proof. exact SubresSpec.discriminant_total. Qed.

(** [P] [discriminant_spec]: for every canonical input of degree >= 1 the value d returned satisfies
    d * lc f = (-1)^(n(n-1)/2) * det Sylvester(f, f') (no flag hypothesis). *)
Theorem discriminant_spec : forall m (f : seq Z),
  canonb f = true -> len_ok f = true -> (1 < size f)%N ->
  exists d, discriminant m f = (true, Done d) /\
    d * lead_coef (Poly f) =
    (-1) ^+ (((size f).-1 * (size f).-1.-1) %/ 2) * \det (Sylvester_mx (Poly f)^`() (Poly f)).
Proof. exact SubresSpec.discriminant_spec. Qed.
Example spec_ex :
  let f := [:: 7; 0; 0; -3; 0; 2]%Z in
  canonb f = true /\ len_ok f = true /\ discriminant Checked f = (true, Done 117478088%Z).
Proof. repeat split; vm_compute; reflexivity. Qed.

(** [P] "zero exactly when f has a repeated factor", unconditionally. *)
Theorem discriminant_eq0 : forall m (f : seq Z),
  canonb f = true -> len_ok f = true -> (1 < size f)%N ->
  exists d, discriminant m f = (true, Done d) /\
            (d == 0) = (1 < size (gcdp (Poly f)^`() (Poly f)))%N.
Proof. exact SubresSpec.discriminant_eq0. Qed.

(** [P] the leading coefficient divides the Sylvester determinant of (f', f). *)
Theorem resultant_deriv_lead : forall p : {poly Z}, (1 < size p)%N ->
  exists t, mxpoly.resultant p^`() p = lead_coef p * t.
Proof. exact SubresFlag.resultant_deriv_lead. Qed.

(** ** Invariance under affine changes of variable (SubresAffine.v, SubresDiscInv.v) *)
From RNT.Refine Require Import SubresAffine SubresDiscInv.

(** [P] spec level: Res(A(ax+b), B(ax+b)) = a^(deg A deg B) Res(A, B) over any integral domain, a <> 0
    (through the Euclid recursion over the fraction field; the classical Res(A, B) is [resultant B A]). *)
Theorem resultant_affine : forall (R : idomainType) (a b : R) (A B : {poly R}), a != 0 -> A != 0 -> B != 0 ->
  mxpoly.resultant (B \Po (a *: 'X + b%:P)) (A \Po (a *: 'X + b%:P)) =
  a ^+ ((size A).-1 * (size B).-1) * mxpoly.resultant B A.
Proof. exact SubresAffine.resultant_affine. Qed.

(** [P] model level: if g is (the canonical list of) f(a x + b), a <> 0, then
    discriminant g = a^(n(n-1)) discriminant f, n = deg f >= 1. *)
Theorem discriminant_affine_model : forall m (f g : seq Z),
  canonb f = true -> canonb g = true -> len_ok f = true -> len_ok g = true -> (1 < size f)%N ->
  forall a b : Z, a != 0 -> Poly g = Poly f \Po (a *: 'X + b%:P) ->
  exists df dg', [/\ discriminant m f = (true, Done df), discriminant m g = (true, Done dg')
                   & dg' = a ^+ ((size f).-1 * (size f).-2) * df].
Proof. exact SubresDiscInv.discriminant_affine_model. Qed.

(** [P] "unchanged under x -> x + c": *)
Theorem discriminant_shift : forall m (f g : seq Z),
  canonb f = true -> canonb g = true -> len_ok f = true -> len_ok g = true -> (1 < size f)%N ->
  forall c : Z, Poly g = Poly f \Po ('X + c%:P) ->
  exists d, discriminant m f = (true, Done d) /\ discriminant m g = (true, Done d).
Proof. exact SubresDiscInv.discriminant_shift. Qed.

(** [P] "unchanged under x -> -x": *)
Theorem discriminant_negx : forall m (f g : seq Z),
  canonb f = true -> canonb g = true -> len_ok f = true -> len_ok g = true -> (1 < size f)%N ->
  Poly g = Poly f \Po (- 'X) ->
  exists d, discriminant m f = (true, Done d) /\ discriminant m g = (true, Done d).
Proof. exact SubresDiscInv.discriminant_negx. Qed.

(** non-vacuity: f = x^3 + x + 3, g = f(x + 1) = x^3 + 3x^2 + 4x + 5, h = f(-x) = -x^3 - x + 3 *)
Example shift_ex :
  let f := [:: 3; 1; 0; 1]%Z in let g := [:: 5; 4; 3; 1]%Z in
  Poly g = Poly f \Po ('X + 1%:P) /\ canonb f = true /\ canonb g = true /\
  discriminant Checked f = (true, Done (-247)%Z) /\ discriminant Checked g = (true, Done (-247)%Z).
Proof. split; first exact: SubresDiscInv.shift_ex_poly. by repeat split; vm_compute. Qed.
Example negx_ex :
  let f := [:: 3; 1; 0; 1]%Z in let h := [:: 3; -1; 0; -1]%Z in
  Poly h = Poly f \Po (- 'X) /\ canonb f = true /\ canonb h = true /\
  discriminant Checked f = (true, Done (-247)%Z) /\ discriminant Checked h = (true, Done (-247)%Z).
Proof. split; first exact: SubresDiscInv.negx_ex_poly. by repeat split; vm_compute. Qed.

(** ** Multiplicativity (SubresProd.v) *)
From RNT.Refine Require Import SubresProd.

(** [P] product formula over an algebraically closed field: if A = a * prod (X - alpha_i), a <> 0, B <> 0, then
    the classical Res(A, B) (= MathComp [resultant B A]) is a^deg B * prod B(alpha_i). Proved through the
    Euclid recurrence [res_recurrence] and a symmetry lemma on double products (no matrices). *)
Theorem resultant_roots : forall (F : closedFieldType) (A B : {poly F}) (a : F) (ra : seq F),
  a != 0 -> A = a *: \prod_(z <- ra) ('X - z%:P) -> B != 0 ->
  mxpoly.resultant B A = a ^+ (size B).-1 * \prod_(z <- ra) B.[z].
Proof. exact SubresProd.resultant_roots_eq. Qed.

(** [P] multiplicativity of the resultant over Z[x] (through the embedding of Z into algC). *)
Theorem resultant_mull_Z : forall A B C : {poly Z}, A != 0 -> B != 0 -> C != 0 ->
  mxpoly.resultant (B * C) A = mxpoly.resultant B A * mxpoly.resultant C A.
Proof. exact SubresProd.resultant_mull_Z. Qed.
Theorem resultant_mulr_Z : forall A B C : {poly Z}, A != 0 -> B != 0 -> C != 0 ->
  mxpoly.resultant A (B * C) = mxpoly.resultant A B * mxpoly.resultant A C.
Proof. exact SubresProd.resultant_mulr_Z. Qed.

(** [P] "disc(f*g) = disc(f) * disc(g) * Res(f, g)^2": for canonical lists f, g, fg of degree >= 1 with
    Poly fg = Poly f * Poly g, on the values returned by the model's [discriminant] and [resultant]. *)
Theorem discriminant_mul_model : forall m (f g fg : seq Z),
  canonb f = true -> canonb g = true -> canonb fg = true ->
  len_ok f = true -> len_ok g = true -> len_ok fg = true ->
  (1 < size f)%N -> (1 < size g)%N -> Poly fg = Poly f * Poly g ->
  exists df dg' dfg r,
    [/\ discriminant m f = (true, Done df), discriminant m g = (true, Done dg'),
        discriminant m fg = (true, Done dfg), Resultant.resultant m f g = (true, Done r)
      & dfg = df * dg' * r ^+ 2].
Proof. exact SubresProd.discriminant_mul_model. Qed.
Example mul_ex :        (* f = x + 1, g = x - 2, f g = x^2 - x - 2: 9 = 1 * 1 * (-3)^2 *)
  let f := [:: 1; 1]%Z in let g := [:: -2; 1]%Z in let fg := [:: -2; -1; 1]%Z in
  Poly fg = Poly f * Poly g /\ canonb fg = true /\
  discriminant Checked f = (true, Done 1%Z) /\ discriminant Checked g = (true, Done 1%Z) /\
  discriminant Checked fg = (true, Done 9%Z) /\ Resultant.resultant Checked f g = (true, Done (-3)%Z).
Proof. split; first exact: SubresProd.mul_ex_poly. by repeat split; vm_compute. Qed.

(** ** Fifth wave: the closed form "lc(f)^(2n-2) times the product of squared root differences" (W5DiscRoots.v) *)
From mathcomp Require Import algC.
From RNT.Refine Require Import W5DiscRoots.

(** [P] [discriminant_root_differences]: for every canonical f of degree n >= 1, in either mode, the run returns d,
    and for EVERY list r_1..r_k of algebraic numbers with f = lc(f) * prod (x - r_i) over the algebraic numbers
    (MathComp [algC]; the roots of f counted with multiplicity; [ZtoC] is the embedding of Z): k = n and
       d = lc(f)^(2n-2) * prod_{i<j} (r_i - r_j)^2      (1 for degree 1).
    From [discriminant_spec], the product formula [resultant_roots] and f'(r_i) = lc prod_{j<>i} (r_i - r_j). *)
Theorem discriminant_root_differences : forall m (f : seq Z),
  canonb f = true -> len_ok f = true -> (1 < size f)%N ->
  exists d, discriminant m f = (true, Done d) /\
    forall rs : seq algC,
      map_poly ZtoC (Poly f) = ZtoC (lead_coef (Poly f)) *: \prod_(z <- rs) ('X - z%:P) ->
      size rs = (size f).-1 /\
      ZtoC d = ZtoC (lead_coef (Poly f)) ^+ (2 * size rs - 2)
               * \prod_(i < size rs) \prod_(j < size rs | (i < j)%N) (rs`_i - rs`_j) ^+ 2.
Proof. exact W5DiscRoots.discriminant_root_differences. Qed.

(** [P] such a list of roots exists (algC is algebraically closed, [closed_field_poly_normal]) *)
Theorem discriminant_root_differences_ex : forall m (f : seq Z),
  canonb f = true -> len_ok f = true -> (1 < size f)%N ->
  exists d (rs : seq algC),
    [/\ discriminant m f = (true, Done d),
        map_poly ZtoC (Poly f) = ZtoC (lead_coef (Poly f)) *: \prod_(z <- rs) ('X - z%:P),
        size rs = (size f).-1
      & ZtoC d = ZtoC (lead_coef (Poly f)) ^+ (2 * size rs - 2)
                 * \prod_(i < size rs) \prod_(j < size rs | (i < j)%N) (rs`_i - rs`_j) ^+ 2].
Proof. exact W5DiscRoots.discriminant_root_differences_ex. Qed.

(** non-vacuity: f = x^2 - 3x + 2 = (x - 1)(x - 2): discriminant 1 = 1^2 * (1 - 2)^2 *)
Example roots_ex :
  let f := [:: 2; -3; 1]%Z in
  map_poly ZtoC (Poly f) = ZtoC (lead_coef (Poly f)) *: \prod_(z <- [:: 1; 2%:R]) ('X - z%:P) /\
  canonb f = true /\ len_ok f = true /\ discriminant Checked f = (true, Done 1%Z).
Proof. split; first exact: W5DiscRoots.roots_ex_poly. by repeat split; vm_compute. Qed.
