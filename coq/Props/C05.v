(** C05: discriminant (statements only; proofs in Refine/ResProofs*.v). *)
From RNT.Model Require Import Base Poly Resultant.
From RNT.Refine Require Import ResProofs.
Open Scope Z_scope.

(** [P] [assert!(!f.is_zero())]. *)
Theorem discriminant_zero : forall m, discriminant m [] = (true, Panic PAssert).
Proof. exact ResProofs.discriminant_zero. Qed.
