(** C05: discriminant (statements only; proofs in Refine/ResProofs*.v). *)
From RNT.Model Require Import Base Poly Resultant.
From RNT.Refine Require Import ResProofs ResProofs2 ResProofs3.
Open Scope Z_scope.

(** [P] the sign flip of the code ([m % 4 == 2 || m % 4 == 3]) is the parity of m(m-1)/2. *)
Theorem sign_rule : forall m, 0 <= m ->
  ((m mod 4 =? 2) || (m mod 4 =? 3))%bool = Z.odd (m * (m - 1) / 2).
Proof. exact ResProofs3.sign_rule. Qed.

(** [P] [assert!(!f.is_zero())]. *)
Theorem discriminant_zero : forall m, discriminant m [] = (true, Panic PAssert).
Proof. exact ResProofs.discriminant_zero. Qed.

(** [P] as coded, a non-zero constant gives 0 (outside the property: deg f >= 1). *)
Theorem discriminant_const : forall m c, c <> 0 -> discriminant m [c] = (true, Done 0).
Proof. exact ResProofs3.discriminant_const. Qed.

(** [P] degree 1: discriminant 1, flag true, no panic, either mode. *)
Theorem discriminant_linear : forall m b0 a1, a1 <> 0 -> discriminant m [b0; a1] = (true, Done 1).
Proof. exact ResProofs3.discriminant_linear. Qed.
Example linear_ex : discriminant Checked [24; 1771] = (true, Done 1). Proof. reflexivity. Qed.

(** [P] enough fuel for every coefficient list. *)
Theorem discriminant_no_outoffuel : forall m f, snd (discriminant m f) <> OutOfFuel.
Proof. exact ResProofs.discriminant_no_outoffuel. Qed.

(** [C] canonical non-zero input, flag true => a value is returned.
    Full statement (not proved): the flag is always true. *)
Theorem discriminant_flag_no_panic_partial : forall m f o,
  f <> [] -> canonb f = true -> len_ok f = true ->
  discriminant m f = (true, o) -> exists v, o = Done v.
Proof. exact ResProofs3.discriminant_flag_no_panic. Qed.

(** [C] when the run returns [d] with flag true, [d * lc f = (-1)^(n(n-1)/2) * r] where [r] is the
    value [resultant f f'] returned (also with flag true), n = deg f.
    Full statement (not proved): r = det Sylvester(f, f'), see C04. *)
Theorem discriminant_partial : forall m f d,
  discriminant m f = (true, Done d) ->
  exists r, resultant m f (pdiff opsZ f) = (true, Done r) /\
            d * zlast f = (if Z.odd (pdeg f * (pdeg f - 1) / 2) then - r else r).
Proof. exact ResProofs3.discriminant_partial. Qed.
Example partial_ex : discriminant Checked [3; -2; 1; 2] = (true, Done (-1132)) /\ canonb [3; -2; 1; 2] = true.
Proof. split; vm_compute; reflexivity. Qed.
Example partial_ex2 : discriminant Wrapping [24; 1771; 31] = (true, Done (1771 * 1771 - 4 * 24 * 31)).
Proof. vm_compute. reflexivity. Qed.

(** ** Specification level (MathComp). The classical Res(f, f') is [resultant f' f], see Props/C04.v. *)
From mathcomp Require Import all_ssreflect ssralg poly matrix mxpoly ssrZ.
From RNT.Refine Require Import PolyRefine ResInt.
Import GRing.Theory.
Local Open Scope ring_scope.

(** [C] [discriminant_det_partial]: deg f >= 1, canonical input. If the run returns [d] with exactness flag
    true, then d * lc f = (-1)^(n(n-1)/2) * det Sylvester(f, f'), i.e. d is the discriminant
    (-1)^(n(n-1)/2) Res(f, f') / lc f of the property text (lc f <> 0 in the integral domain Z).
    Full statement (not proved): the flag is always true. *)
Theorem discriminant_det_partial : forall m (f : seq Z) d,
  canonb f = true -> len_ok f = true -> (1 < size f)%N ->
  discriminant m f = (true, Done d) ->
  d * lead_coef (Poly f) =
  (-1) ^+ (((size f).-1 * (size f).-1.-1) %/ 2) * \det (Sylvester_mx (Poly f)^`() (Poly f)).
Proof. exact ResInt.discriminant_det_partial. Qed.
Example det_partial_ex :
  let f := [:: 1; 9; 0; 1]%Z in
  canonb f = true /\ len_ok f = true /\ discriminant Checked f = (true, Done (-2943)%Z).
Proof. repeat split; vm_compute; reflexivity. Qed.

(** [C] "zero exactly when f has a repeated factor": under the flag, d = 0 iff f and f' have a common
    factor of positive degree (MathComp [gcdp], [resultant_eq0]). *)
From mathcomp Require Import polydiv.
Import Pdiv.Idomain.
Theorem discriminant_eq0_partial : forall m (f : seq Z) d,
  canonb f = true -> len_ok f = true -> (1 < size f)%N ->
  discriminant m f = (true, Done d) ->
  (d == 0) = (1 < size (gcdp (Poly f)^`() (Poly f)))%N.
Proof. exact ResInt.discriminant_eq0_partial. Qed.
Example eq0_ex : discriminant Checked [:: 1; 2; 1]%Z = (true, Done 0%Z). Proof. vm_compute. reflexivity. Qed.
