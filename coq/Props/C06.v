(** * C06: integral-basis computation (src/integral_basis/{mod,round2}.rs)
    Theorems about the model entry points of coq/Model/Round2.v ([find_integral_basis], [one_step]) and
    the loops they are made of.  An order is its stored rational basis ([qmat]).
    NOT proved (see vp/props/c06.py): that a fixed point of the Round 2 step is p-maximal
    (Pohst-Zassenhaus), that the intermediate lattices are rings, independence of the generator. *)
From RNT.Model Require Import Base Poly LinAlg Order Round2.
From RNT.Model Require Elementary.
From RNT.Refine Require Import Round2Basic Round2Index Round2Lattice Round2Det Round2Fuel.
From Coq Require Import QArith Qcanon Znumtheory.
Open Scope Z_scope.

(** [P] degree 1: for every linear f = c1 x + c0 (c1 <> 0), in both build profiles, the result is the
    starting order, whose stored basis is [[1]] (no prime is visited: the discriminant is 1). *)
Theorem find_integral_basis_deg1 : forall m c0 c1,
  c1 <> 0 ->
  exists o, find_integral_basis m [c0; c1] = Done o /\ non_monic_initial_order [c0; c1] = Done o
            /\ qvals o = [[1#1]]%Q.
Proof. exact Round2Basic.find_integral_basis_deg1. Qed.

Example deg1_example : exists o, find_integral_basis Checked [5; 7] = Done o /\ qvals o = [[1#1]]%Q.
Proof. eexists. split; vm_compute; reflexivity. Qed.

(** [P] find_integral_basis_fixpoint (loop structure).  When the driver returns [O]: the starting
    order, its discriminant and the trial factorisation of |disc| were computed, and [O] is the end of a
    chain of [while]-loop runs, one per prime power [(p, e)] of the factorisation in order
    ([primes_run]); in particular [O] is reachable from the starting order by finitely many Round 2
    steps.  [prime_run m f p e o hs e' o']: the run at [p] from exponent [e] and order [o] performs the
    steps with results [howmany = hs] and ends with exponent [e'] and order [o']. *)
Theorem find_integral_basis_fixpoint : forall m f O,
  find_integral_basis m f = Done O ->
  exists o0 disc fac,
    non_monic_initial_order f = Done o0 /\ order_disc m o0 f = Done disc /\
    Elementary.trial_factorize (Z.abs disc) = Done fac /\
    primes_run m f fac o0 O /\ reachable f o0 O.
Proof. exact Round2Basic.find_integral_basis_fixpoint. Qed.

(** [P] the exit condition of each run: the remaining exponent is < 2, or the last step, taken on an
    order reachable from the one the run started with, returned [howmany = 0] (index 1) *)
Theorem prime_run_exit : forall m f p e o hs e' o',
  prime_run m f p e o hs e' o' ->
  e' < 2 \/ (2 <= e' /\ exists ol, reachable f o ol /\ one_step f ol p = Done (o', 0)).
Proof. exact Round2Basic.prime_run_exit. Qed.

(** [P] every run is a chain of Round 2 steps *)
Theorem prime_run_reachable : forall m f p e o hs e' o',
  prime_run m f p e o hs e' o' -> reachable f o o'.
Proof. exact Round2Basic.prime_run_reachable. Qed.

(** [P] dev profile: the exponent is lowered by twice the sum of the [howmany]s, without wrap-around *)
Theorem prime_run_checked_sum : forall f p e o hs e' o',
  prime_run Checked f p e o hs e' o' ->
  e' = e - 2 * fold_right Z.add 0 hs /\ Forall (fun h => 0 <= h) hs /\ (0 <= e -> 0 <= e').
Proof. exact Round2Basic.prime_run_checked_sum. Qed.

(** [P] dev profile: the fuel given to the [while] loop suffices (it runs out only if a step does) *)
Theorem prime_loop_fuel_ok : forall f p o e,
  (forall o, one_step f o p <> OutOfFuel) -> prime_loop (prime_fuel e) Checked f o p e <> OutOfFuel.
Proof. exact Round2Basic.prime_loop_fuel_ok. Qed.

(** [lower_from deg 0 o]: [o] is a stored basis as [Order::from_basis] / [hnf_reduce] produces them: [deg] rows of
    length [deg], zero right of the diagonal, positive diagonal.  The starting order and every result of
    [one_step] are of this kind ([non_monic_lower], [one_step_index] below). *)

(** [P] one_step_index: on such a basis, for p > 0 and non-constant f, the step returns [howmany >= 0] with
    [index(new, old) = p ^ howmany] exactly (all the [assert_eq!(index % p, 0)] passed and the index is
    positive), and the new basis is again of this kind. *)
Theorem one_step_index : forall f o p o' h deg,
  length f = S deg -> (1 <= deg)%nat -> lower_from deg 0 o -> 0 < p ->
  one_step f o p = Done (o', h) ->
  order_index o' o = Done (p ^ h) /\ 0 <= h /\ lower_from deg 0 o'.
Proof. exact Round2Det.one_step_index. Qed.

Theorem non_monic_lower : forall f deg o0,
  length f = S deg -> (1 <= deg)%nat -> non_monic_initial_order f = Done o0 -> lower_from deg 0 o0.
Proof. exact Round2Det.non_monic_lower. Qed.

(** [P] for an arbitrary input basis (any shape): [howmany >= 0] and, when the computed index is positive,
    it equals [p ^ howmany] *)
Theorem one_step_index_any : forall f o p o' h,
  0 < p -> one_step f o p = Done (o', h) ->
  exists index, order_index o' o = Done index /\ 0 <= h /\
    (1 <= index -> index = p ^ h) /\ (index < 1 -> h = 0).
Proof. exact Round2Index.one_step_index_partial. Qed.

(** [P] disc(old) = disc(new) * index^2 whenever [index] and the two [discriminant] calls return *)
Theorem disc_index : forall m discf f o1 o2 i d1 d2,
  order_index o2 o1 = Done i ->
  order_discriminant m discf o1 f = Done d1 ->
  order_discriminant m discf o2 f = Done d2 ->
  d1 = d2 * i * i.
Proof. exact Round2Index.disc_index. Qed.

(** [P] the data returned by the entry point [ib_find] (basis, discriminant, index over the starting order):
    disc(start) = disc(O) * index^2 *)
Theorem ib_find_disc_index : forall m f O d i,
  ib_find m f = Done (O, d, i) ->
  exists o0 d0,
    find_integral_basis m f = Done O /\ non_monic_initial_order f = Done o0 /\
    order_disc m o0 f = Done d0 /\ order_disc m O f = Done d /\ order_index O o0 = Done i /\
    d0 = d * i * i.
Proof. exact Round2Det.ib_find_disc_index. Qed.

(** [P] ... and the index is a positive integer (non-constant f) *)
Theorem ib_find_index_pos : forall m f O d i deg,
  length f = S deg -> (1 <= deg)%nat -> ib_find m f = Done (O, d, i) -> 1 <= i.
Proof. exact Round2Det.ib_find_index_pos. Qed.

(** [C] prime_loop_no_underflow_partial: the u64 update [e -= 2 * howmany] never overflows in the dev profile, so
    that the only panics of the [while] loop are those of [one_step] -- PROVIDED every lattice produced on
    the way has an integral discriminant (the assertion of [Order::discriminant] would pass on it: it is an
    order; that is the mathematical content not proved here).  [p ^ e * r], p prime not dividing r, is the
    discriminant of the stored order [o] the loop starts with.
    Full statement: the same without the integrality hypothesis (needs: the ring of multipliers of the
    p-radical is a ring containing O, Pohst-Zassenhaus). *)
Theorem prime_loop_no_underflow_partial : forall discf f p r deg,
  length f = S deg -> (1 <= deg)%nat ->
  prime p -> rel_prime p r ->
  forall fuel o e t,
  0 <= e < two64 -> lower_from deg 0 o ->
  order_discriminant Checked discf o f = Done (p ^ e * r) ->
  (forall o1 o2 h, reachable_at f p o o1 -> one_step f o1 p = Done (o2, h) ->
     exists d2, order_discriminant Checked discf o2 f = Done d2) ->
  prime_loop fuel Checked f o p e = Panic t ->
  exists o1, reachable_at f p o o1 /\ one_step f o1 p = Panic t.
Proof. exact Round2Det.prime_loop_no_underflow. Qed.

(** [P] one_step_contains.  [in_spanQ deg v B]: there are integers c_1..c_n (n = #rows of B) with
    v_j = sum_k c_k B[k][j] for all j < deg ([combQ c B j] is that sum).  For a non-constant f of degree
    [deg] and an input order given by a [deg x deg] rational basis, the lattice returned by [one_step] is
    again a [deg x deg] basis and contains every basis row of the input order.  (Uses [hnf_new_correct]
    of the HNF development for [HNF::new] on [U_p; p I] and inside [Order::from_basis].) *)
Theorem one_step_contains : forall f o p o' hh deg,
  length f = S deg -> (1 <= deg)%nat ->
  length o = deg -> Forall (fun r => length r = deg) o ->
  one_step f o p = Done (o', hh) ->
  length o' = deg /\ Forall (fun r => length r = deg) o' /\
  forall i, (i < deg)%nat -> in_spanQ deg (nth i o []) o'.
Proof. exact Round2Lattice.one_step_contains. Qed.

(** [P] find_integral_basis_contains: the returned order contains the starting order
    Z[theta] cap Z[1/theta] (every basis row of the latter is an integer combination of its rows). *)
Theorem find_integral_basis_contains : forall m f deg O o0,
  length f = S deg -> (1 <= deg)%nat ->
  find_integral_basis m f = Done O -> non_monic_initial_order f = Done o0 ->
  length O = deg /\ Forall (fun r => length r = deg) O /\
  forall i, (i < deg)%nat -> in_spanQ deg (nth i o0 []) O.
Proof. exact Round2Lattice.find_integral_basis_contains. Qed.

(** [P] 1 lies in the returned order: the coordinate vector (1, 0, .., 0) of 1 in the power basis is an integer
    combination of the rows of the returned basis *)
Theorem find_integral_basis_one : forall m f deg O,
  length f = S deg -> (1 <= deg)%nat -> find_integral_basis m f = Done O -> in_spanQ deg (one_vec deg) O.
Proof. exact Round2Det.find_integral_basis_one. Qed.

(** [P] the fuel of the three loops of round2.rs without a syntactic bound suffices: for p >= 2
    [while pow < deg { pow *= p }] returns a power >= deg, [while index > 1 { .. index /= p }] and the
    square-and-multiply loop of [pow_mod_p] never run out of fuel.  (The HNF calls have their own
    termination theorem [hnf_terminates], C02.) *)
Theorem pow_ge_total : forall deg p, 2 <= p -> exists r, pow_ge deg p = Done r /\ deg <= r.
Proof. exact Round2Fuel.pow_ge_total. Qed.

Theorem howmany_of_fuel_ok : forall index p, 2 <= p -> howmany_of index p <> OutOfFuel.
Proof. exact Round2Fuel.howmany_of_fuel_ok. Qed.

Theorem pow_mod_p_fuel_ok : forall a e t p, pow_mod_p a e t p <> OutOfFuel.
Proof. exact Round2Fuel.pow_mod_p_fuel_ok. Qed.

(** ** Non-vacuity *)

(** x^2 + 3: the starting order Z[theta] has index 2 in the maximal order, discriminant -3 *)
Example ib_find_x2_3 :
  match ib_find Checked [3; 0; 1] with Done (_, d, i) => (d =? -3) && (i =? 2) | _ => false end = true.
Proof. vm_compute. reflexivity. Qed.

(** Dedekind's cubic x^3 - x^2 - 2x - 8: index 2, discriminant -503 *)
Example ib_find_dedekind :
  match ib_find Checked [-8; -2; -1; 1] with Done (_, d, i) => (d =? -503) && (i =? 2) | _ => false end = true.
Proof. vm_compute. reflexivity. Qed.

(** the driver returns on both (hypothesis of [find_integral_basis_fixpoint]) *)
Example fixpoint_hyp : (exists O, find_integral_basis Checked [3; 0; 1] = Done O)
                       /\ (exists O, find_integral_basis Checked [-8; -2; -1; 1] = Done O).
Proof. split; eexists; vm_compute; reflexivity. Qed.

(** x^2 + 12 (disc -48 = -2^4 * 3): the run at 2 makes two enlarging steps, then exits with e' = 0 < 2 *)
Example run_two_steps :
  match non_monic_initial_order [12; 0; 1] with
  | Done o0 =>
    match one_step [12; 0; 1] o0 2 with
    | Done (o1, h1) =>
      match one_step [12; 0; 1] o1 2 with
      | Done (o2, h2) => (h1 =? 1) && (h2 =? 1) &&
                         match order_index o1 o0, order_index o2 o1 with Done a, Done b => (a =? 2) && (b =? 2) | _, _ => false end
      | _ => false end
    | _ => false end
  | _ => false end = true.
Proof. vm_compute. reflexivity. Qed.

(** a step with [howmany = 0] on the maximal order of Q(sqrt -3) at p = 3, where 3^1 || disc *)
Example step_exit :
  match find_integral_basis Checked [3; 0; 1] with
  | Done om => match one_step [3; 0; 1] om 3 with Done (_, h) => h =? 0 | _ => false end
  | _ => false end = true.
Proof. vm_compute. reflexivity. Qed.

(** the hypotheses of [prime_loop_no_underflow_partial] at f = x^2 + 3, p = 2, e = 2, r = -3 *)
Example bookkeeping_hyp :
  prime 2 /\ rel_prime 2 (-3) /\
  match non_monic_initial_order [3; 0; 1] with
  | Done o0 => order_discriminant Checked (-12) o0 [3; 0; 1] = Done (2 ^ 2 * -3) /\
               (* the step from the starting order gives a lattice with integral discriminant *)
               match one_step [3; 0; 1] o0 2 with
               | Done (o1, h) => h = 1 /\ order_discriminant Checked (-12) o1 [3; 0; 1] = Done (-3)
               | _ => False end
  | _ => False end.
Proof.
  split; [exact prime_2|]. split; [|vm_compute; auto].
  apply rel_prime_sym, rel_prime_mod_rev; [reflexivity|]. change (-3 mod 2) with 1. apply rel_prime_1.
Qed.

(** containment, concretely: theta = -1 * 1 + 2 * (1 + theta)/2 in the maximal order of Q(sqrt -3) *)
Example contains_example :
  match non_monic_initial_order [3; 0; 1], find_integral_basis Checked [3; 0; 1] with
  | Done o0, Done om =>
    forall j, (j < 2)%nat -> nth j (nth 1 o0 []) Algebraic.q0 = combQ [-1; 2] om j
  | _, _ => False
  end.
Proof.
  vm_compute non_monic_initial_order. vm_compute find_integral_basis.
  intros [|[|j]] Hj; [apply Qc_is_canon; reflexivity | apply Qc_is_canon; reflexivity | exfalso].
  apply PeanoNat.Nat.succ_lt_mono, PeanoNat.Nat.succ_lt_mono in Hj. inversion Hj.
Qed.

(** [one_step_index] concretely: x^2 + 12 at p = 2 from the starting order (a stored basis): index 2 = 2^1 *)
Example one_step_index_example :
  match non_monic_initial_order [12; 0; 1] with
  | Done o0 => match one_step [12; 0; 1] o0 2 with
               | Done (o1, h) => h = 1 /\ order_index o1 o0 = Done (2 ^ 1)
               | _ => False end
  | _ => False end.
Proof. vm_compute. auto. Qed.

Example pow_ge_example : pow_ge 5 3 = Done 9 /\ pow_ge 4 2 = Done 4 /\ howmany_of 8 2 = Done 3.
Proof. vm_compute. auto. Qed.
